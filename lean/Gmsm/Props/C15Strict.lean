/-
C15 — the hello checks made strict by five repairs of the library (reports /verif/reports10/C15):

  1. `fix: reject a ServerHello version above the client's offer`        `clientHandshakeState.pickTLSVersion`
  2. `fix: reject a TLS 1.2-only cipher suite below TLS 1.2 (client)`     `clientHandshakeState.pickCipherSuite`
  3. `fix: ClientHello: check the lengths inside server_name and status_request`   `clientHelloMsg.unmarshal`
  4. `fix: reject a session_ticket extension the client did not offer`   both `processServerHello`
  5. `fix: reject handshake data behind the peer's Finished`             the four `readFinished`

Each section states the repaired behaviour — the thing that was FALSE of the code (and of the model that copied it)
before — over `Model.Handshake` / `Model.TLSMessages`, with non-vacuity examples.  The models are tied to the Go code by
the ops `shmod`, `shmodv`, `chext`, `hsmsg`, `evilsrv`, `evilgm`, `evilgmc`, `evilcli` (harness/c15*.go).
-/
import Gmsm.Props.C15
import Gmsm.Props.C15Limits
import Gmsm.Props.C15Codec
namespace Props.C15Strict
open Model.Handshake

-- 1. the ServerHello version ----------------------------------------------------------------------------------

/-- `pickTLSVersion` of a TLS client with `minVersion()` = lo, `maxVersion()` = hi, all values at once: the
    server's version is accepted exactly when it lies inside the client's range and is at least TLS 1.0.  In
    particular nothing above `hi` — the version the client wrote into its hello — is accepted. -/
theorem clientVersionOkLim_iff (lo hi v : Nat) :
    clientVersionOkLim lo hi false v = true ↔ lo ≤ v ∧ 0x0301 ≤ v ∧ v ≤ hi := by
  unfold clientVersionOkLim mutualVersionLim versionGMSSL versionSSL30
  simp only [Bool.false_eq_true, if_false]
  by_cases h1 : v < lo
  · simp [h1]; omega
  · rw [if_neg h1]
    by_cases h2 : 0x0101 < v ∧ v < 0x0300
    · simp [h2]; omega
    · rw [if_neg h2]
      by_cases h3 : v > hi
      · simp [h3]; omega
      · simp [h3]; omega

/-- the version is accepted only if `mutualVersion` returns it unchanged: never after clamping -/
theorem client_accepts_only_unclamped_version (lo hi : Nat) (offered : List Nat) (v s comp : Nat)
    (h : clientHelloCheckLim lo hi false offered v s comp = .accept) :
    mutualVersionLim lo hi v = some v ∧ lo ≤ v ∧ 0x0301 ≤ v ∧ v ≤ hi := by
  have hv : clientVersionOkLim lo hi false v = true := by
    unfold clientHelloCheckLim at h
    by_cases c : clientVersionOkLim lo hi false v = true
    · exact c
    · simp [c] at h
  have r := (clientVersionOkLim_iff lo hi v).mp hv
  refine ⟨?_, r⟩
  unfold mutualVersionLim versionGMSSL versionSSL30
  rw [if_neg (by omega), if_neg (by omega), if_neg (by omega)]

/-- THE REPAIRED CLAUSE ("unsupported versions"): a ServerHello whose version is above what the client offered is
    refused with protocol_version, whatever else it carries.  (Before the repair `mutualVersion` clamped it to
    `hi` and the handshake went on, e.g. `clientHelloCheck false … 0x0304 0x009c 0 = .accept`.) -/
theorem client_rejects_version_above_offer (lo hi : Nat) (offered : List Nat) (v s comp : Nat) (h : hi < v) :
    clientHelloCheckLim lo hi false offered v s comp = .reject .protocolVersion := by
  have hv : clientVersionOkLim lo hi false v = false := by
    cases c : clientVersionOkLim lo hi false v with
    | false => rfl
    | true => have := (clientVersionOkLim_iff lo hi v).mp c; omega
  simp [clientHelloCheckLim, hv]

/-- with the default limits this is the check of `Model.Handshake.clientHelloCheck` -/
theorem clientHelloCheckLim_default (gm : Bool) (offered : List Nat) (v s comp : Nat) :
    clientHelloCheckLim (cfgMin 0) (cfgMax 0) gm offered v s comp = clientHelloCheck gm offered v s comp := by
  unfold clientHelloCheckLim clientHelloCheck clientVersionOkLim clientVersionOk
  rw [Props.C15Limits.mutualVersionLim_default]

/-- the default client (maximum TLS 1.2): every version above 0x0303 is refused -/
theorem client_rejects_version_above_tls12 (offered : List Nat) (v s comp : Nat) (h : 0x0303 < v) :
    clientHelloCheck false offered v s comp = .reject .protocolVersion := by
  rw [← clientHelloCheckLim_default]
  exact client_rejects_version_above_offer _ _ _ _ _ _ (by simpa [cfgMax, versionTLS12] using h)

example : clientHelloCheck false (helloSuites false [0xc02f, 0x009c]) 0x0304 0x009c 0 = .reject .protocolVersion := by decide
example : clientHelloCheck false (helloSuites false [0xc02f, 0x009c]) 0xffff 0x009c 0 = .reject .protocolVersion := by decide
example : clientHelloCheckLim 0x0101 0x0301 false (helloSuitesAt 0x0301 false [0xc02f, 0xc013]) 0x0303 0xc013 0
    = .reject .protocolVersion := by decide
example : clientHelloCheckLim 0x0101 0x0302 false (helloSuitesAt 0x0302 false [0xc02f, 0xc013]) 0x0303 0xc013 0
    = .reject .protocolVersion := by decide
example : clientHelloCheckLim 0x0101 0x0301 false (helloSuitesAt 0x0301 false [0xc02f, 0xc013]) 0x0301 0xc013 0 = .accept := by
  decide
example : clientHelloCheckLim 0x0101 0x0303 false (helloSuitesAt 0x0303 false [0xc02f, 0xc013]) 0x0302 0xc013 0 = .accept := by
  decide

-- 2. suites that exist only in TLS 1.2 ---------------------------------------------------------------------------

/-- the ids that carry the `suiteTLS12` flag in `cipherSuites` (cipher_suites.go): the AEAD and the SHA-256 CBC suites -/
def tls12Suites : List Nat :=
  [0xcca8, 0xcca9, 0xc02f, 0xc02b, 0xc030, 0xc02c, 0xc027, 0xc023, 0x009c, 0x009d, 0x003c]

theorem tls12Suites_eq : (tlsSuiteTable.filter (fun e => e.2.2.2.1)).map (·.1) = tls12Suites := by decide

theorem tls12Only_iff (s : Nat) : tls12Only s = true ↔ s ∈ tls12Suites := by
  constructor
  · intro h
    unfold tls12Only at h
    cases hf : tlsSuiteTable.find? (·.1 = s) with
    | none => rw [hf] at h; cases h
    | some e =>
      rw [hf] at h
      obtain ⟨a, b, c, t, o⟩ := e
      have hm := List.mem_of_find?_eq_some hf
      have hp := List.find?_some hf
      simp only [decide_eq_true_eq] at hp
      dsimp only at h
      rw [← tls12Suites_eq, List.mem_map]
      exact ⟨(a, b, c, t, o), List.mem_filter.mpr ⟨hm, h⟩, hp⟩
  · intro h
    simp only [tls12Suites, List.mem_cons, List.not_mem_nil, or_false] at h
    rcases h with h | h | h | h | h | h | h | h | h | h | h <;> subst h <;> decide

/-- the client's rule is the server's rule (`setCipherSuite`): a suite the library's own server may select at
    version `w` passes the client's suite/version test at `w` -/
theorem server_choice_passes_client_rule (w : Nat) (e : Bool) (s : Nat) (h : tlsSuiteOk w e s = true) :
    clientSuiteVersionOk false w s = true := by
  rw [Props.C15.clientSuiteVersionOk_iff]
  right
  unfold tlsSuiteOk at h
  unfold tls12Only
  cases hf : tlsSuiteTable.find? (·.1 = s) with
  | none => right; rfl
  | some x =>
    obtain ⟨a, b, c, t, o⟩ := x
    rw [hf] at h
    dsimp only at h ⊢
    cases t with
    | false => right; rfl
    | true =>
      left
      simp only [if_true, Bool.and_eq_true, versionTLS12] at h
      exact of_decide_eq_true h.2

/-- THE REPAIRED CLAUSE ("unsupported suites"): below TLS 1.2 a TLS client never goes on with a suite that exists only
    in TLS 1.2, although such a suite is in the list it offered (it was offered for TLS 1.2).  Before the repair
    `pickCipherSuite` only looked the id up in that list. -/
theorem client_never_tls12_suite_below_tls12 (lo hi : Nat) (offered : List Nat) (v s comp : Nat)
    (hv : v < 0x0303) (hs : s ∈ tls12Suites) : clientHelloCheckLim lo hi false offered v s comp ≠ .accept := by
  have h2 : clientSuiteVersionOk false v s = false := by
    cases c : clientSuiteVersionOk false v s with
    | false => rfl
    | true =>
      rcases (Props.C15.clientSuiteVersionOk_iff false v s).mp c with h | h | h
      · cases h
      · omega
      · rw [(tls12Only_iff s).mpr hs] at h; cases h
  unfold clientHelloCheckLim
  rw [h2]
  repeat' split
  all_goals simp_all

/-- … and the alert: the version being one the client offered and the suite one it offered and knows, the answer is
    handshake_failure -/
theorem client_rejects_tls12_suite_below_tls12 (lo hi : Nat) (offered : List Nat) (v s comp : Nat)
    (hlo : lo ≤ v) (h10 : 0x0301 ≤ v) (hhi : v ≤ hi) (hv : v < 0x0303) (hs : s ∈ tls12Suites) :
    clientHelloCheckLim lo hi false offered v s comp = .reject .handshakeFailure := by
  have h1 : clientVersionOkLim lo hi false v = true := (clientVersionOkLim_iff lo hi v).mpr ⟨hlo, h10, hhi⟩
  have h2 : clientSuiteVersionOk false v s = false := by
    cases c : clientSuiteVersionOk false v s with
    | false => rfl
    | true =>
      rcases (Props.C15.clientSuiteVersionOk_iff false v s).mp c with h | h | h
      · cases h
      · omega
      · rw [(tls12Only_iff s).mpr hs] at h; cases h
  unfold clientHelloCheckLim
  rw [h1, h2]
  simp

example : clientHelloCheck false (helloSuites false [0xc02f, 0x009c, 0xc013]) 0x0301 0x009c 0 = .reject .handshakeFailure := by decide
example : clientHelloCheck false (helloSuites false [0xc02f, 0x009c, 0xc013]) 0x0302 0xc02f 0 = .reject .handshakeFailure := by decide
example : clientHelloCheck false (helloSuites false [0xc02f, 0x009c, 0xc013]) 0x0303 0xc02f 0 = .accept := by decide
example : clientHelloCheck false (helloSuites false [0xc02f, 0x009c, 0xc013]) 0x0301 0xc013 0 = .accept := by decide


open Gmsm Model.TLSMessages Props.C15Codec

-- 3. the length fields inside server_name and status_request of a ClientHello ---------------------------------------

/-- a hello without extensions (the struct `unmarshal` starts from), for the examples -/
def blankHelloMsg : ClientHelloMsg :=
  { vers := 0, random := [], sessionId := [], cipherSuites := [], compressionMethods := [], nextProtoNeg := false,
    serverName := [], ocspStapling := false, scts := false, supportedCurves := [], supportedPoints := [],
    ticketSupported := false, sessionTicket := [], supportedSignatureAlgorithms := [], secureRenegotiation := [],
    secureRenegotiationSupported := false, alpnProtocols := [] }

/-- a ServerNameList as RFC 6066 writes it: entries `name_type (1) | length (2) | name` -/
def sniEntries : List (Byte × Bytes) → Bytes
  | [] => []
  | (t, n) :: es => [t] ++ (put16 n.length ++ (n ++ sniEntries es))

/-- the names of type host_name (0) -/
def hostNames : List (Byte × Bytes) → List Bytes
  | [] => []
  | (t, n) :: es => if t = 0 then n :: hostNames es else hostNames es

/-- what the walk over a well-formed list returns: the host name if there is one, else what it started with -/
def sniResult (es : List (Byte × Bytes)) (acc : Option Bytes) : Option Bytes :=
  match hostNames es with
  | [] => acc
  | n :: _ => some n

/-- every name fits its 16-bit length; a host name is not empty; at most one host name, counting the one seen
    before (`acc`) -/
def SniWF (es : List (Byte × Bytes)) (acc : Option Bytes) : Prop :=
  (∀ e ∈ es, e.2.length < 65536) ∧ (∀ n ∈ hostNames es, n ≠ []) ∧
  (hostNames es).length + (if acc.isSome then 1 else 0) ≤ 1

/-- `sniLoop` accepts ONLY byte strings that are, to the last byte, a sequence of well-formed entries with at most
    one, non-empty, host name.  (Before the repair the loop stopped at the first host name: everything behind it —
    in particular what a lowered HostName length leaves over — was never looked at.) -/
theorem sniLoop_sound (fuel : Nat) (d : Bytes) (acc r : Option Bytes) (h : sniLoop fuel d acc = some r) :
    ∃ es, d = sniEntries es ∧ SniWF es acc ∧ r = sniResult es acc := by
  induction fuel generalizing d acc with
  | zero => simp [sniLoop] at h
  | succ fuel ih =>
    unfold sniLoop at h
    split at h
    · split at h
      · simp at h
      · rename_i h3
        obtain ⟨t, a, b, rest, rfl⟩ := split3 d (by omega)
        bsimp at h
        split at h
        · simp at h
        · rename_i hl
          have htl : (List.take (get16 a b) rest).length = get16 a b := take_drop_len rest _ (by omega)
          have hlt := get16_lt a b
          split at h
          · rename_i ht
            split at h
            · simp at h
            · rename_i hc
              obtain ⟨es, e1, ⟨w1, w2, w3⟩, e2⟩ := ih _ _ h
              have hn : hostNames es = [] := by
                simp only [Option.isSome_some, if_true] at w3
                exact List.eq_nil_of_length_eq_zero (by omega)
              have hacc : acc.isSome = false := by
                cases hh : acc.isSome with
                | false => rfl
                | true => exact absurd (Or.inr hh) hc
              refine ⟨(t, List.take (get16 a b) rest) :: es, ?_, ⟨?_, ?_, ?_⟩, ?_⟩
              · simp only [sniEntries, htl, put16_get16, ← e1, List.take_append_drop, List.cons_append, List.nil_append]
              · intro e he
                rcases List.mem_cons.mp he with rfl | he
                · show (List.take _ _).length < _; omega
                · exact w1 e he
              · intro n hn2
                simp only [hostNames, ht, if_true, hn, List.mem_cons, List.not_mem_nil, or_false] at hn2
                subst hn2
                intro hnil
                have : (List.take (get16 a b) rest).length = 0 := by rw [hnil]; rfl
                exact hc (Or.inl (by omega))
              · simp only [hostNames, ht, if_true, hn, hacc, List.length_cons, List.length_nil]
                decide
              · rw [e2]
                simp only [sniResult, hostNames, ht, if_true, hn]
          · rename_i ht
            obtain ⟨es, e1, ⟨w1, w2, w3⟩, e2⟩ := ih _ _ h
            refine ⟨(t, List.take (get16 a b) rest) :: es, ?_, ⟨?_, ?_, ?_⟩, ?_⟩
            · simp only [sniEntries, htl, put16_get16, ← e1, List.take_append_drop, List.cons_append, List.nil_append]
            · intro e he
              rcases List.mem_cons.mp he with rfl | he
              · show (List.take _ _).length < _; omega
              · exact w1 e he
            · simpa only [hostNames, ht, if_false] using w2
            · simpa only [hostNames, ht, if_false] using w3
            · rw [e2]; simp only [sniResult, hostNames, ht, if_false]
    · rename_i hz
      cases h
      have : d = [] := List.eq_nil_of_length_eq_zero (by omega)
      subst this
      refine ⟨[], rfl, ⟨by simp, by simp [hostNames], ?_⟩, rfl⟩
      simp only [hostNames, List.length_nil]
      split <;> omega

/-- … and it accepts all of them: the characterisation is exact -/
theorem sniLoop_complete (es : List (Byte × Bytes)) (fuel : Nat) (acc : Option Bytes) (hw : SniWF es acc)
    (hf : (sniEntries es).length < fuel) : sniLoop fuel (sniEntries es) acc = some (sniResult es acc) := by
  induction es generalizing fuel acc with
  | nil =>
    cases fuel with
    | zero => exact absurd hf (Nat.not_lt_zero _)
    | succ fuel => simp [sniLoop, sniEntries, sniResult, hostNames]
  | cons e es ih =>
    obtain ⟨t, n⟩ := e
    obtain ⟨w1, w2, w3⟩ := hw
    cases fuel with
    | zero => exact absurd hf (Nat.not_lt_zero _)
    | succ fuel =>
      have hn0 : n.length < 65536 := w1 (t, n) (by simp)
      have hlen : (sniEntries ((t, n) :: es)).length = 3 + n.length + (sniEntries es).length := by
        simp only [sniEntries, put16, List.length_append, List.length_cons, List.length_nil]; omega
      have e : sniEntries ((t, n) :: es) =
          t :: BitVec.ofNat 8 (n.length / 256) :: BitVec.ofNat 8 n.length :: (n ++ sniEntries es) := rfl
      unfold sniLoop
      rw [if_pos (by omega), if_neg (by omega), e]
      bsimp
      rw [get16_put16 _ hn0, if_neg (by simp only [List.length_append]; omega), List.drop_left, List.take_left]
      by_cases ht : t = 0
      · rw [if_pos ht]
        simp only [hostNames, ht, if_true, List.length_cons] at w2 w3
        have hn : hostNames es = [] := List.eq_nil_of_length_eq_zero (by split at w3 <;> omega)
        have hacc : acc.isSome = false := by
          cases hh : acc.isSome with
          | false => rfl
          | true => rw [hh] at w3; simp at w3
        have hne : n ≠ [] := w2 n (by simp)
        have hnl : n.length ≠ 0 := fun h0 => hne (List.eq_nil_of_length_eq_zero h0)
        rw [if_neg (by rw [hacc]; simp; exact hne)]
        rw [ih fuel (some n) ⟨fun x hx => w1 x (by simp [hx]), by simp [hn], by simp [hn]⟩ (by omega)]
        simp only [sniResult, hostNames, ht, if_true, hn]
      · rw [if_neg ht]
        simp only [hostNames, ht, if_false] at w2 w3
        rw [ih fuel acc ⟨fun x hx => w1 x (by simp [hx]), w2, w3⟩ (by omega)]
        simp only [sniResult, hostNames, ht, if_false]

/-- what `chExtension` makes of the walk's result -/
def withServerName (m : ClientHelloMsg) : Option Bytes → ClientHelloMsg
  | none => m
  | some n => { m with serverName := n }

/-- THE REPAIRED CLAUSE for server_name ("inconsistent length fields"): the extension is accepted exactly when its
    body is a 16-bit length followed by that many bytes which are, to the last one, well-formed ServerName entries,
    with at most one host name, which is not empty.  No byte of the body is left unexamined. -/
theorem chExtension_sni_iff (m m2 : ClientHelloMsg) (length : Nat) (data : Bytes) :
    chExtension m 0 length data = some m2 ↔
      ∃ es, data.take length = put16 (sniEntries es).length ++ sniEntries es ∧ (sniEntries es).length < 65536 ∧
        SniWF es none ∧ m2 = withServerName m (sniResult es none) := by
  unfold chExtension
  rw [if_pos rfl]
  dsimp only
  constructor
  · intro h
    split at h
    · simp at h
    · rename_i h2
      obtain ⟨a, b, r, hr⟩ := split2 (List.take length data) (by omega)
      rw [hr] at h
      bsimp at h
      split at h
      · simp at h
      · rename_i hl
        have hlt := get16_lt a b
        cases hs : sniLoop (r.length + 1) r none with
        | none => rw [hs] at h; simp at h
        | some res =>
          obtain ⟨es, e1, w, e2⟩ := sniLoop_sound _ _ _ _ hs
          refine ⟨es, ?_, by rw [← e1]; omega, w, ?_⟩
          · rw [hr, ← e1, show r.length = get16 a b by omega, put16_get16]; rfl
          · rw [hs] at h
            rw [← e2]
            cases res with
            | none => simpa [withServerName] using h.symm
            | some n => simpa [withServerName] using h.symm
  · rintro ⟨es, e1, hl, w, rfl⟩
    rw [e1]
    simp only [put16]
    bsimp
    rw [get16_put16 _ hl, if_neg (by omega), if_neg (by omega), sniLoop_complete es _ none w (by omega)]
    cases sniResult es none <;> rfl

/-- the failing inputs of the report, in general: a printable host name (every byte at least 0x20, as in any DNS
    name) whose 16-bit length field is changed to ANY other value is refused, whatever the outer lengths say.
    `k < len`: what is left over starts with a letter, read as name_type, and two more, read as a length of at least
    0x2020; `k > len`: the entry does not fit; `k = 0`: an empty host name. -/
theorem sniLoop_printable_tail (fuel : Nat) (t : Bytes) (acc : Option Bytes) (h0 : 0 < t.length) (hl : t.length < 0x2000)
    (hp : ∀ b ∈ t, 0x20 ≤ b.toNat) : sniLoop fuel t acc = none := by
  cases fuel with
  | zero => rfl
  | succ fuel =>
    unfold sniLoop
    rw [if_pos h0]
    by_cases h3 : t.length < 3
    · rw [if_pos h3]
    · rw [if_neg h3]
      obtain ⟨x, a, b, r, rfl⟩ := split3 t (by omega)
      have hx := hp x (by simp)
      have ha := hp a (by simp)
      have hb := hp b (by simp)
      bsimp
      have hg : r.length < get16 a b := by
        simp only [List.length_cons] at hl
        unfold get16; omega
      rw [if_pos hg]

theorem sni_hostname_length_perturbed (m : ClientHelloMsg) (name rest : Bytes) (k : Nat)
    (hp : ∀ b ∈ name, 0x20 ≤ b.toNat) (hl : name.length < 0x2000) (hk : k ≠ name.length) (hk2 : k < 65536) :
    chExtension m 0 (name.length + 5) (put16 (name.length + 3) ++ ([0] ++ (put16 k ++ (name ++ rest)))) = none := by
  have e : put16 (name.length + 3) ++ ([0] ++ (put16 k ++ (name ++ rest))) =
      (put16 (name.length + 3) ++ ([0] ++ (put16 k ++ name))) ++ rest := by
    simp only [List.append_assoc]
  have el : (put16 (name.length + 3) ++ ([0] ++ (put16 k ++ name))).length = name.length + 5 := by
    simp only [put16, List.length_append, List.length_cons, List.length_nil]; omega
  unfold chExtension
  rw [if_pos rfl]
  dsimp only
  rw [e, List.take_left' el]
  simp only [put16]
  bsimp
  rw [get16_put16 _ (by omega), if_neg (by omega), if_neg (by omega)]
  unfold sniLoop
  bsimp
  rw [if_pos (by omega), if_neg (by omega), get16_put16 _ hk2]
  by_cases hgt : name.length < k
  · rw [if_pos hgt]
  · rw [if_neg hgt, if_pos trivial]
    by_cases hz : k = 0
    · rw [if_pos (Or.inl hz)]
    · rw [if_neg (by simp [hz])]
      have hd : (List.drop k name).length = name.length - k := List.length_drop
      rw [sniLoop_printable_tail _ (List.drop k name) _ (by omega) (by omega)
        (fun b hb => hp b (List.mem_of_mem_drop hb))]

/-- … and the 16-bit length of the list itself must be the number of bytes that follow it inside the extension -/
theorem sni_list_length_perturbed (m : ClientHelloMsg) (list rest : Bytes) (k : Nat) (hk : k ≠ list.length) (hk2 : k < 65536) :
    chExtension m 0 (list.length + 2) (put16 k ++ (list ++ rest)) = none := by
  have e : put16 k ++ (list ++ rest) = (put16 k ++ list) ++ rest := by simp only [List.append_assoc]
  have el : (put16 k ++ list).length = list.length + 2 := by
    simp only [put16, List.length_append, List.length_cons, List.length_nil]; omega
  unfold chExtension
  rw [if_pos rfl]
  dsimp only
  rw [e, List.take_left' el]
  simp only [put16]
  bsimp
  rw [get16_put16 _ hk2, if_neg (by omega), if_pos (by omega)]

-- the report's inputs: "example.com" with its length 11 lowered to 10 and to 0; the honest extension; a second name
example : chExtension blankHelloMsg 0 16 [0, 14, 0, 0, 10, 101, 120, 97, 109, 112, 108, 101, 46, 99, 111, 109] = none := by decide
example : chExtension blankHelloMsg 0 16 [0, 14, 0, 0, 0, 101, 120, 97, 109, 112, 108, 101, 46, 99, 111, 109] = none := by decide
example : (chExtension blankHelloMsg 0 16 [0, 14, 0, 0, 11, 101, 120, 97, 109, 112, 108, 101, 46, 99, 111, 109]).map (·.serverName)
    = some [101, 120, 97, 109, 112, 108, 101, 46, 99, 111, 109] := by decide
example : (chExtension blankHelloMsg 0 10 [0, 8, 1, 0, 1, 120, 0, 0, 1, 97]).map (·.serverName) = some [97] := by decide
example : chExtension blankHelloMsg 0 10 [0, 8, 0, 0, 1, 120, 0, 0, 1, 97] = none := by decide

-- status_request

/-- a responder_id_list as RFC 6066 writes it: entries `length (2) | ResponderID` -/
def ridEntries : List Bytes → Bytes
  | [] => []
  | i :: is => put16 i.length ++ (i ++ ridEntries is)

theorem ridLoop_sound (fuel : Nat) (ids : Bytes) (h : ridLoop fuel ids = true) :
    ∃ l, ids = ridEntries l ∧ ∀ i ∈ l, i ≠ [] ∧ i.length < 65536 := by
  induction fuel generalizing ids with
  | zero => simp [ridLoop] at h
  | succ fuel ih =>
    unfold ridLoop at h
    split at h
    · split at h
      · simp at h
      · rename_i h2
        obtain ⟨a, b, r, rfl⟩ := split2 ids (by omega)
        bsimp at h
        split at h
        · simp at h
        · rename_i hc
          have hlt := get16_lt a b
          have htl : (List.take (get16 a b) r).length = get16 a b := take_drop_len r _ (by omega)
          obtain ⟨l, e1, w⟩ := ih _ h
          refine ⟨List.take (get16 a b) r :: l, ?_, ?_⟩
          · simp only [ridEntries, htl, put16_get16, ← e1, List.take_append_drop, List.cons_append, List.nil_append]
          · intro i hi
            rcases List.mem_cons.mp hi with rfl | hi
            · refine ⟨fun hnil => ?_, by omega⟩
              have : (List.take (get16 a b) r).length = 0 := by rw [hnil]; rfl
              exact hc (Or.inl (by omega))
            · exact w i hi
    · rename_i hz
      have : ids = [] := List.eq_nil_of_length_eq_zero (by omega)
      subst this
      exact ⟨[], rfl, by simp⟩

theorem ridLoop_complete (l : List Bytes) (fuel : Nat) (hw : ∀ i ∈ l, i ≠ [] ∧ i.length < 65536)
    (hf : (ridEntries l).length < fuel) : ridLoop fuel (ridEntries l) = true := by
  induction l generalizing fuel with
  | nil =>
    cases fuel with
    | zero => exact absurd hf (Nat.not_lt_zero _)
    | succ fuel => simp [ridLoop, ridEntries]
  | cons c cs ih =>
    cases fuel with
    | zero => exact absurd hf (Nat.not_lt_zero _)
    | succ fuel =>
      obtain ⟨hne, hc0⟩ := hw c (by simp)
      have hnl : c.length ≠ 0 := fun h0 => hne (List.eq_nil_of_length_eq_zero h0)
      have hlen : (ridEntries (c :: cs)).length = 2 + c.length + (ridEntries cs).length := by
        simp only [ridEntries, put16, List.length_append, List.length_cons, List.length_nil]; omega
      have ih := ih fuel (fun x hx => hw x (by simp [hx])) (by omega)
      unfold ridLoop
      rw [if_pos (by omega), if_neg (by omega)]
      have e : ridEntries (c :: cs) = BitVec.ofNat 8 (c.length / 256) :: BitVec.ofNat 8 c.length :: (c ++ ridEntries cs) := rfl
      rw [e]
      bsimp
      rw [get16_put16 _ hc0, if_neg (by simp only [List.length_append]; omega), List.drop_left, ih]

/-- THE REPAIRED CLAUSE for status_request: after the type byte an OCSP status request is accepted exactly when it is
    a 16-bit length, that many bytes which are to the last one non-empty ResponderIDs with their 16-bit lengths, a
    second 16-bit length and exactly that many bytes of request extensions — nothing missing, nothing left over.
    (Before the repair only the type byte was read.) -/
theorem ocspRequestOk_iff (d : Bytes) :
    ocspRequestOk d = true ↔
      ∃ l exts, d = put16 (ridEntries l).length ++ (ridEntries l ++ (put16 exts.length ++ exts)) ∧
        (ridEntries l).length < 65536 ∧ exts.length < 65536 ∧ ∀ i ∈ l, i ≠ [] ∧ i.length < 65536 := by
  constructor
  · intro h
    unfold ocspRequestOk at h
    split at h
    · simp at h
    · rename_i h2
      obtain ⟨a, b, r, rfl⟩ := split2 d (by omega)
      bsimp at h
      split at h
      · simp at h
      · rename_i hl
        have hlt := get16_lt a b
        have htl : (List.take (get16 a b) r).length = get16 a b := take_drop_len r _ (by omega)
        split at h
        · simp at h
        · rename_i hr
          split at h
          · simp at h
          · rename_i h3
            obtain ⟨l, e1, w⟩ := ridLoop_sound _ _ (by simpa using hr)
            obtain ⟨x, y, r2, hr2⟩ := split2 (List.drop (get16 a b) r) (by omega)
            rw [hr2] at h
            bsimp at h
            have hlt2 := get16_lt x y
            have hlen : r2.length = get16 x y := by
              have := of_decide_eq_true h
              omega
            refine ⟨l, r2, ?_, by rw [← e1]; omega, by omega, w⟩
            rw [← e1, htl, put16_get16, hlen, put16_get16]
            show a :: b :: r = a :: b :: (List.take (get16 a b) r ++ (x :: y :: r2))
            rw [← hr2, List.take_append_drop]
  · rintro ⟨l, exts, rfl, h1, h2, w⟩
    unfold ocspRequestOk
    simp only [put16]
    bsimp
    rw [get16_put16 _ h1, if_neg (by simp only [List.length_append, List.length_cons]; omega),
      if_neg (by simp only [List.length_append, List.length_cons]; omega), List.take_left, List.drop_left,
      ridLoop_complete l _ w (by omega)]
    bsimp
    have hg := get16_put16 _ h2
    simp only [hg]
    simp; omega

/-- the extension as a whole: for the type ocsp the body is checked to its end; other types carry no format this
    code knows and only clear `ocspStapling` -/
theorem chExtension_ocsp_iff (m m2 : ClientHelloMsg) (length : Nat) (data : Bytes) :
    chExtension m 5 length data = some m2 ↔
      if length > 0 ∧ data.getD 0 0 = 1 then
        ocspRequestOk ((data.take length).drop 1) = true ∧ m2 = { m with ocspStapling := true }
      else m2 = { m with ocspStapling := false } := by
  unfold chExtension
  rw [if_neg (by decide), if_neg (by decide), if_pos rfl]
  dsimp only
  by_cases c : length > 0 ∧ data.getD 0 0 = 1
  · rw [if_pos c]
    simp only [c, and_self, decide_true, Bool.true_and]
    cases ho : ocspRequestOk (List.drop 1 (List.take length data)) with
    | false => simp
    | true => simp [eq_comm]
  · rw [if_neg c]
    simp only [c, decide_false, Bool.false_and, Bool.false_eq_true, if_false]
    simp [eq_comm]

theorem ocsp_two_lengths (a b : Nat) (h : ¬(a = 0 ∧ b = 0))
    (ha : a < 65536) (hb : b < 65536) : ocspRequestOk (put16 a ++ put16 b) = false := by
    unfold ocspRequestOk
    simp only [put16]
    bsimp
    rw [if_neg (by omega), get16_put16 _ ha]
    by_cases a3 : 0 + 1 + 1 < a
    · rw [if_pos a3]
    · rw [if_neg a3]
      have : a = 0 ∨ a = 1 ∨ a = 2 := by omega
      rcases this with rfl | rfl | rfl
      · have hb0 : b ≠ 0 := fun hb0 => h ⟨rfl, hb0⟩
        bsimp
        have hg := get16_put16 _ hb
        simp only [ridLoop, List.length_nil, Nat.lt_irrefl, if_false, Bool.not_true, Bool.false_eq_true, hg]
        simp; omega
      · bsimp
        simp [ridLoop]
      · bsimp
        unfold ridLoop
        bsimp
        have hg := get16_put16 _ hb
        have hor : get16 (BitVec.ofNat 8 (b / 256)) (BitVec.ofNat 8 b) = 0 ∨
            0 < get16 (BitVec.ofNat 8 (b / 256)) (BitVec.ofNat 8 b) := by omega
        simp [hor]

/-- the failing inputs of the report, in general: in the request the library itself writes (`01 0000 0000`) neither
    16-bit length can be changed to anything else -/
theorem ocsp_length_perturbed (m : ClientHelloMsg) (rest : Bytes) (a b : Nat) (h : ¬(a = 0 ∧ b = 0))
    (ha : a < 65536) (hb : b < 65536) :
    chExtension m 5 5 ([1] ++ (put16 a ++ (put16 b ++ rest))) = none := by
  cases hx : chExtension m 5 5 ([1] ++ (put16 a ++ (put16 b ++ rest))) with
  | none => rfl
  | some m2 =>
    exfalso
    have hh := (chExtension_ocsp_iff m m2 5 _).mp hx
    rw [if_pos ⟨by decide, rfl⟩] at hh
    have e : List.drop 1 (List.take 5 (([1] : Bytes) ++ (put16 a ++ (put16 b ++ rest)))) = put16 a ++ put16 b := by
      simp only [put16]
      bsimp
    rw [e, ocsp_two_lengths a b h ha hb] at hh
    exact Bool.false_ne_true hh.1

example : chExtension blankHelloMsg 5 5 [1, 0, 0, 0, 0] = some { blankHelloMsg with ocspStapling := true } := by decide
example : chExtension blankHelloMsg 5 5 [1, 0xff, 0xff, 0, 0] = none := by decide
example : chExtension blankHelloMsg 5 5 [1, 0, 0, 1, 0] = none := by decide
example : chExtension blankHelloMsg 5 9 [1, 0, 4, 0, 2, 0xaa, 0xbb, 0, 0] = some { blankHelloMsg with ocspStapling := true } := by
  decide
example : chExtension blankHelloMsg 5 7 [1, 0, 2, 0, 0, 0, 0] = none := by decide   -- an empty ResponderID
example : chExtension blankHelloMsg 5 6 [1, 0, 0, 0, 0, 0] = none := by decide      -- a byte behind request_extensions
example : chExtension blankHelloMsg 5 3 [2, 0xff, 0xff] = some blankHelloMsg := by decide  -- another status type: not parsed

/-- wherever the extension stands in the hello (`m`: what the extensions before it have set, `rest`: the extensions
    behind it), the loop over the extensions — hence `clientHelloMsg.unmarshal` — returns false -/
theorem chExtLoop_rejects_perturbed_sni (f : Nat) (m : ClientHelloMsg) (name rest : Bytes) (k : Nat)
    (hp : ∀ b ∈ name, 0x20 ≤ b.toNat) (hl : name.length < 0x2000) (hk : k ≠ name.length) (hk2 : k < 65536)
    (hf : (put16 0 ++ (put16 (name.length + 5) ++ ((put16 (name.length + 3) ++ ([0] ++ (put16 k ++ name))) ++ rest))).length < f) :
    chExtLoop f (put16 0 ++ (put16 (name.length + 5) ++ ((put16 (name.length + 3) ++ ([0] ++ (put16 k ++ name))) ++ rest))) m
      = none := by
  have el : (put16 (name.length + 3) ++ ([0] ++ (put16 k ++ name))).length = name.length + 5 := by
    simp only [put16, List.length_append, List.length_cons, List.length_nil]; omega
  have := chExtLoop_step f 0 (put16 (name.length + 3) ++ ([0] ++ (put16 k ++ name))) rest m (by decide) (by omega)
    (by rw [el]; exact hf)
  rw [el] at this
  rw [this]
  have e : (put16 (name.length + 3) ++ ([0] ++ (put16 k ++ name))) ++ rest =
      put16 (name.length + 3) ++ ([0] ++ (put16 k ++ (name ++ rest))) := by simp only [List.append_assoc]
  rw [e, sni_hostname_length_perturbed m name rest k hp hl hk hk2]

theorem chExtLoop_rejects_perturbed_ocsp (f : Nat) (m : ClientHelloMsg) (rest : Bytes) (a b : Nat) (h : ¬(a = 0 ∧ b = 0))
    (ha : a < 65536) (hb : b < 65536)
    (hf : (put16 5 ++ (put16 5 ++ (([1] ++ (put16 a ++ put16 b)) ++ rest))).length < f) :
    chExtLoop f (put16 5 ++ (put16 5 ++ (([1] ++ (put16 a ++ put16 b)) ++ rest))) m = none := by
  have el : (([1] : Bytes) ++ (put16 a ++ put16 b)).length = 5 := by
    simp only [put16, List.length_append, List.length_cons, List.length_nil]
  have := chExtLoop_step f 5 ([1] ++ (put16 a ++ put16 b)) rest m (by decide) (by omega) (by rw [el]; exact hf)
  rw [el] at this
  rw [this]
  have e : (([1] : Bytes) ++ (put16 a ++ put16 b)) ++ rest = [1] ++ (put16 a ++ (put16 b ++ rest)) := by
    simp only [List.append_assoc]
  rw [e, ocsp_length_perturbed m rest a b h ha hb]

-- 4. the session_ticket extension ----------------------------------------------------------------------------------

/-- THE REPAIRED CLAUSE: the hello is accepted exactly when the server announces a ticket only to a client that
    offered the extension -/
theorem clientTicketCheck_iff (offered hello : Bool) :
    clientTicketCheck offered hello = .accept ↔ (hello = true → offered = true) := by
  cases offered <;> cases hello <;> simp [clientTicketCheck]

theorem unsolicited_ticket_rejected : clientTicketCheck false true = .reject .handshakeFailure := rfl

/-- in the automaton `Cfg.ticket` says that the accepted ServerHello announced a ticket; a NewSessionTicket message is
    taken in the one phase that exists for it, and that phase is entered only under `Cfg.ticket` -/
theorem newSessionTicket_only_in_ticket_phase (c : Cfg) (p : Phase) (q : Option Phase)
    (h : next c p .newSessionTicket = some q) : p = .cTicket := by
  cases p <;> simp [next] at h ⊢

theorem ticket_phase_iff (c : Cfg) : afterHelloDone c = .cTicket ↔ c.ticket = true := by
  unfold afterHelloDone
  cases c.ticket <;> simp

/-- with `Cfg.ticket` false no transition leads into the phase that reads a NewSessionTicket … -/
theorem never_enters_ticket_phase (c : Cfg) (h : c.ticket = false) (p : Phase) (m : Msg) (q : Phase)
    (hn : next c p m = some (some q)) : q ≠ .cTicket := by
  intro hq
  subst hq
  cases p <;> cases m <;> simp [next, afterHelloDone, h] at hn
  all_goals (repeat' split at hn) <;> simp_all

/-- … so whatever the peer sends, the endpoint is never in that phase … -/
theorem ticket_phase_unreachable (c : Cfg) (h : c.ticket = false) (ms : List Msg) :
    ∀ s s', s.phase ≠ .cTicket → run c s ms = .cont s' → s'.phase ≠ .cTicket := by
  induction ms with
  | nil => intro s s' hs hr; simp only [run] at hr; cases hr; exact hs
  | cons m ms ih =>
    intro s s' hs hr
    simp only [run] at hr
    cases hst : step c s m with
    | cont s1 =>
      rw [hst] at hr
      refine ih s1 s' ?_ hr
      rcases Props.C15.step_cont c s s1 m hst with ⟨_, e⟩ | ⟨_, e, _⟩
      · rw [e]; exact hs
      · exact never_enters_ticket_phase c h _ _ _ e
    | done => rw [hst] at hr; cases hr
    | error a => rw [hst] at hr; cases hr

/-- … and a NewSessionTicket message is an error wherever it comes: THE REPAIRED CLAUSE for a client that did not
    offer tickets and went on after the hello (`clientTicketCheck false t = .accept` forces `t = false`, the value of
    `Cfg.ticket`; before the repair `t` could be true and the message was taken). -/
theorem unsolicited_newSessionTicket_is_error (c : Cfg) (t : Bool) (hc : clientTicketCheck false t = .accept)
    (ht : c.ticket = t) (pre : List Msg) (s : State) (hr : run c (init c) pre = .cont s) :
    ∃ a, step c s .newSessionTicket = .error a := by
  have htf : c.ticket = false := by
    rw [ht]; cases t
    · rfl
    · simp [clientTicketCheck] at hc
  have hi : (init c).phase ≠ .cTicket := by
    unfold init initPhase; split <;> simp
  have hp := ticket_phase_unreachable c htf pre _ _ hi hr
  unfold step
  by_cases hw : wantsCCS s.phase = true
  · simp [hw]
  · have hn : next c s.phase .newSessionTicket = none := by
      cases hnx : next c s.phase .newSessionTicket with
      | none => rfl
      | some q => exact absurd (newSessionTicket_only_in_ticket_phase c _ q hnx) hp
    simp [hw, hn]

-- 5. handshake data behind the peer's Finished ---------------------------------------------------------------------

/-- THE REPAIRED CLAUSE: a Finished whose record holds further handshake bytes never completes the handshake and
    never lets it go on — in every configuration, phase and state the endpoint aborts (unexpected_message; where a
    ChangeCipherSpec is awaited, the alert for any handshake record).  Before the repair `readFinished` returned with
    the bytes still in `c.hand` and `Handshake()` reported success. -/
theorem finished_with_trailing_is_error (c : Cfg) (s : State) :
    step c s .finishedTrailing = .error (if wantsCCS s.phase then hsAtCCSAlert c else .unexpectedMessage) := by
  unfold step
  cases h : wantsCCS s.phase <;> simp

/-- no sequence of events that contains such a Finished is accepted -/
theorem finished_with_trailing_never_accepted (c : Cfg) (s : State) (pre post : List Msg) :
    accepts c s (pre ++ .finishedTrailing :: post) = false := by
  induction pre generalizing s with
  | nil =>
    simp only [List.nil_append, accepts, finished_with_trailing_is_error]
  | cons m ms ih =>
    simp only [List.cons_append, accepts]
    cases hs : step c s m with
    | cont s' => simp only [ih]
    | done => simp
    | error a => rfl

/-- … and `run` never ends in `done` on a sequence whose last event it is -/
theorem finished_with_trailing_never_done (c : Cfg) (s : State) (pre : List Msg) :
    run c s (pre ++ [.finishedTrailing]) ≠ .done ∨ run c s pre = .done := by
  induction pre generalizing s with
  | nil => left; simp [run, finished_with_trailing_is_error]
  | cons m ms ih =>
    simp only [List.cons_append, run]
    cases hs : step c s m with
    | cont s' => exact ih s'
    | done => right; rfl
    | error a => left; simp

/-- the honest Finished, without anything behind it, still completes (non-vacuity) -/
def exCfg (server gm : Bool) : Cfg :=
  { server := server, gm := gm, resume := false, reqCert := false, peerCert := false, ticket := false, ocsp := false,
    skx := true, npn := false }
example : step (exCfg false true) ⟨.cFinished, 0, false⟩ .finished = .done := by decide
example : step (exCfg false true) ⟨.cFinished, 0, false⟩ .finishedTrailing = .error .unexpectedMessage := by decide
example : step (exCfg true false) ⟨.sFinished, 0, false⟩ .finished = .done := by decide
example : step (exCfg true false) ⟨.sFinished, 0, false⟩ .finishedTrailing = .error .unexpectedMessage := by decide
example : accepts (exCfg true false) ⟨.sCCS, 0, false⟩ [.ccs, .finished] = true := by decide
example : accepts (exCfg true false) ⟨.sCCS, 0, false⟩ [.ccs, .finishedTrailing] = false := by decide

end Props.C15Strict
