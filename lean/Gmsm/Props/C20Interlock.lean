/-
C20 (interlock part) — `Conn.Write` / `Conn.Close` on one established connection, under ALL interleavings.

The subject is the `activeCall` interlock of gmtls/conn.go (model: `Model.ConnInterlock`, one atomic action
of one goroutine per step).  The theorems hold for ANY number of writer and closer goroutines and ANY
schedule; they are proved by induction over the schedule with the invariant `Inv`:

* `counter_invariant`            activeCall = 2·(Writes between their CAS and their Add(-2)) + (1 if a Close won)
* `at_most_one_close_proceeds`   at most one Close ever passes its CAS; every other finished Close returned errClosed
* `close_idempotent`             once a Close has won, every call that has not loaded yet returns errClosed
* `no_write_after_close`         after the winning CAS no CAS succeeds and every Load sees the closed bit
* `close_notify_only_when_quiet` close_notify goes out at most once and only if no Write was in flight at the winning CAS
* `linearizable_outcomes`        the per-goroutine verdicts of a complete schedule are those of a sequential order
* `progress`                     every schedule made of ≥ 8N+6N² rounds that give each goroutine a turn finishes every
                                 call (`fair_termination`, `exists_enabled`: no deadlock); any schedule performs at most
                                 8N+6N² actions and at most N·(2·writers + closers) failed CASes
* side results                   `release_never_underflows`, `winner_unique`, `quiet_invariant`,
                                 `close_notify_never_waits`, `write_never_sees_shutdown`
* `constants_pinned`             the model's 1 / 2 / 2 / 1 are the values the fact extractor reads from conn.go (`Gen.Conn`)
* concrete executions of 2 Writes + 2 Closes by `decide` at the end (non-vacuity)

What is NOT covered: Read (not part of the interlock), the handshake mutex, the result a Write that was in
flight gets from the record layer when Close tears the connection down under it (`brokenWrites`; the verdicts
compared in `linearizable_outcomes` are those of the interlock: got through / errClosed), and the Go memory
model (the atomics are taken to be sequentially consistent, one action at a time).
Core Lean only.
-/
import Gmsm.Model.ConnInterlock
import Gmsm.Gen.ConnFacts
namespace Props.C20Interlock
open Model.ConnInterlock

/-! ## sums over the goroutine list -/
def sumBy {α : Type} (f : α → Nat) : List α → Nat
  | [] => 0
  | a :: l => f a + sumBy f l

theorem sumBy_set {α : Type} (f : α → Nat) : ∀ {l : List α} {i : Nat} {a : α}, l[i]? = some a → ∀ b,
    sumBy f (l.set i b) + f a = sumBy f l + f b
  | [], _, _, h, _ => by simp at h
  | x :: l, 0, a, h, b => by
      simp at h; subst h; simp [sumBy]; omega
  | x :: l, i+1, a, h, b => by
      simp at h
      have := sumBy_set f h b
      simp [sumBy]; omega

theorem le_sumBy {α : Type} (f : α → Nat) : ∀ {l : List α} {a : α}, a ∈ l → f a ≤ sumBy f l
  | x :: l, a, h => by
      simp at h
      rcases h with rfl | h
      · simp [sumBy]
      · have := le_sumBy f h; simp [sumBy]; omega

theorem sumBy_le_sumBy {α : Type} (f g : α → Nat) (h : ∀ a, f a ≤ g a) : ∀ l : List α, sumBy f l ≤ sumBy g l
  | [] => Nat.le_refl _
  | a :: l => by have := sumBy_le_sumBy f g h l; have := h a; simp [sumBy]; omega

theorem sumBy_le_length {α : Type} (f : α → Nat) (c : Nat) (h : ∀ a, f a ≤ c) : ∀ l : List α, sumBy f l ≤ c * l.length
  | [] => by simp [sumBy]
  | a :: l => by
      have := sumBy_le_length f c h l; have := h a
      simp [sumBy, Nat.mul_succ]; omega

theorem exists_of_sumBy_pos {α : Type} (f : α → Nat) : ∀ {l : List α}, 0 < sumBy f l → ∃ (i : Nat) (a : α), l[i]? = some a ∧ 0 < f a
  | [], h => by simp [sumBy] at h
  | x :: l, h => by
      by_cases hx : 0 < f x
      · exact ⟨0, x, by simp, hx⟩
      · have : 0 < sumBy f l := by simp [sumBy] at h; omega
        obtain ⟨i, a, h1, h2⟩ := exists_of_sumBy_pos f this
        exact ⟨i+1, a, by simpa using h1, h2⟩

theorem sumBy_eq_zero {α : Type} (f : α → Nat) : ∀ {l : List α}, (∀ a ∈ l, f a = 0) → sumBy f l = 0
  | [], _ => rfl
  | x :: l, h => by
      have h1 := h x (by simp)
      have h2 := sumBy_eq_zero f (l := l) (fun a ha => h a (by simp [ha]))
      simp [sumBy, h1, h2]

/-- two different goroutines each contribute -/
theorem add_le_sumBy {α : Type} (f : α → Nat) {l : List α} {i j : Nat} {a b : α} (hi : l[i]? = some a)
    (hj : l[j]? = some b) (hij : i ≠ j) (z : α) (hz : f z = 0) : f a + f b ≤ sumBy f l := by
  have h1 := sumBy_set f hi z
  have h2 : (l.set i z)[j]? = some b := by rw [List.getElem?_set_ne hij]; exact hj
  have h3 := le_sumBy f (List.mem_of_getElem? h2)
  omega

/-! ## arithmetic of the Go expressions -/
theorem isClosed_iff (x : Nat) : isClosed x = true ↔ x % 2 = 1 := by
  simp [isClosed, closedMask, Nat.and_one_is_mod]
theorem isClosed_false_iff (x : Nat) : isClosed x = false ↔ x % 2 = 0 := by
  simp [isClosed, closedMask, Nat.and_one_is_mod]
theorem setClosed_even (x : Nat) (h : x % 2 = 0) : setClosed x = x + 1 := by
  unfold setClosed closedBit
  have h1 : (x ||| 1) / 2 = x / 2 := by simp [Nat.or_div_two]
  have h2 : (x ||| 1) % 2 = 1 := by simp [Nat.or_mod_two_eq_one]
  omega

theorem writesInFlight_false (x : Nat) : writesInFlight x = false ↔ x = 0 := by simp [writesInFlight]
theorem writesInFlight_true (x : Nat) : writesInFlight x = true ↔ 0 < x := by simp [writesInFlight]; omega
theorem setClosed_eq (x : Nat) : setClosed x = x + 1 - x % 2 := by
  unfold setClosed closedBit
  have h1 : (x ||| 1) / 2 = x / 2 := by simp [Nat.or_div_two]
  have h2 : (x ||| 1) % 2 = 1 := by simp [Nat.or_mod_two_eq_one]
  omega

/-! ## per-goroutine indicator functions -/
/-- a Write between its successful CAS and its `Add(-2)` -/
def inFlight : Thread → Nat
  | .writer .lock | .writer .write | .writer .unlock | .writer .release => 1
  | _ => 0
/-- a Close whose CAS succeeded -/
def wonClose : Thread → Nat
  | .closer (.branch _) | .closer .cnLock | .closer .cnSend | .closer .cnUnlock | .closer .closeConn
  | .closer (.done .ok) => 1
  | _ => 0
def holdsOut : Thread → Nat
  | .writer .write | .writer .unlock | .closer .cnSend | .closer .cnUnlock => 1
  | _ => 0
/-- parity of the value a goroutine is about to CAS on / branch on (always even) -/
def casParity : Thread → Nat
  | .writer (.cas x) | .closer (.cas x) | .closer (.branch x) => x % 2
  | _ => 0
def doneErr : Thread → Nat
  | .writer (.done .errClosed) | .closer (.done .errClosed) => 1
  | .writer (.check x) | .closer (.check x) => x % 2
  | _ => 0
/-- the winner on the close_notify path -/
def quietPath : Thread → Nat
  | .closer (.branch x) => 1 - x
  | .closer .cnLock | .closer .cnSend | .closer .cnUnlock => 1
  | _ => 0
def afterSend : Thread → Nat
  | .closer .cnUnlock | .closer .closeConn | .closer (.done .ok) => 1
  | _ => 0
def closedConn : Thread → Nat
  | .closer (.done .ok) => 1
  | _ => 0


/-! ## one step, as seen by the sums -/
theorem stepEv_sums {s : State} {t : ThreadId} {s' : State} {e : Event} (h : stepEv s t = some (s', e)) :
    ∃ th th' sh' a, s.threads[t]? = some th ∧ localStep s.toShared th = some (sh', th', a) ∧ e = ⟨t, a⟩ ∧
      s' = { toShared := sh', threads := s.threads.set t th' } ∧
      ∀ f : Thread → Nat, sumBy f s'.threads + f th = sumBy f s.threads + f th' ∧ f th ≤ sumBy f s.threads := by
  unfold stepEv at h
  split at h
  · simp at h
  · rename_i th hget
    split at h
    · simp at h
    · rename_i sh th' a hl
      simp at h
      obtain ⟨rfl, rfl⟩ := h
      exact ⟨th, th', sh, a, hget, hl, rfl, rfl,
        fun f => ⟨sumBy_set f hget th', le_sumBy f (List.mem_of_getElem? hget)⟩⟩

theorem next_of_none {s : State} {t : ThreadId} (h : stepEv s t = none) : next s t = s := by
  simp [next, step, h]
theorem next_of_some {s s' : State} {t : ThreadId} {e : Event} (h : stepEv s t = some (s', e)) : next s t = s' := by
  simp [next, step, h]
theorem run_nil (s : State) : run s [] = s := rfl
theorem run_cons (s : State) (t : ThreadId) (ts : List ThreadId) : run s (t :: ts) = run (next s t) ts := rfl
theorem run_append (s : State) (a b : List ThreadId) : run s (a ++ b) = run (run s a) b := by
  simp [run, List.foldl_append]
theorem trace_of_none {s : State} {t : ThreadId} (ts : List ThreadId) (h : stepEv s t = none) :
    trace s (t :: ts) = trace s ts := by simp [trace, h]
theorem trace_of_some {s s' : State} {t : ThreadId} {e : Event} (ts : List ThreadId) (h : stepEv s t = some (s', e)) :
    trace s (t :: ts) = e :: trace s' ts := by simp [trace, h]

/-! ## the invariant -/
structure Inv (s : State) : Prop where
  counter : s.activeCall = writeInc * sumBy inFlight s.threads + closedBit * sumBy wonClose s.threads
  oneWin : sumBy wonClose s.threads ≤ 1
  lock : sumBy holdsOut s.threads = s.outHeld.toNat
  casEven : sumBy casParity s.threads = 0
  errClosed : sumBy doneErr s.threads = 0 ∨ s.activeCall % 2 = 1
  quiet : (sumBy quietPath s.threads = 0 ∧ s.closeNotifySent = 0) ∨ sumBy inFlight s.threads = 0
  notify : s.closeNotifySent ≤ sumBy afterSend s.threads
  conn : s.connCloses = sumBy closedConn s.threads
  connFlag : s.closedUnderlying = decide (0 < s.connCloses)

theorem quietPath_le (a : Thread) : quietPath a ≤ wonClose a := by
  unfold quietPath wonClose; split <;> simp <;> omega
theorem afterSend_le (a : Thread) : afterSend a ≤ wonClose a := by
  unfold afterSend wonClose; split <;> simp

/-- what an action may be once the closed bit is set: no CAS succeeds and every Load sees the bit -/
def postClose : Action → Bool
  | .wCasOk _ | .cCasOk _ => false
  | .load y => isClosed y
  | _ => true

set_option linter.unusedSimpArgs false in
/-- the facts about one step that the theorems below are built from (one case analysis over the program
    counters for all of them) -/
theorem step_facts {s : State} {t : ThreadId} {s' : State} {e : Event} (hI : Inv s) (h : stepEv s t = some (s', e)) :
    Inv s' ∧
    (s.activeCall % 2 = 1 → s'.activeCall % 2 = 1 ∧ postClose e.act = true) ∧
    (∀ x, e.act = .cCasOk x → x = s.activeCall ∧ s'.activeCall % 2 = 1 ∧
        sumBy wonClose s.threads = 0 ∧ sumBy wonClose s'.threads = 1 ∧
        sumBy quietPath s'.threads = 1 - x ∧ s'.closeNotifySent = s.closeNotifySent) ∧
    ((∀ x, e.act ≠ .cCasOk x) → sumBy wonClose s'.threads = sumBy wonClose s.threads ∧
        sumBy quietPath s'.threads ≤ sumBy quietPath s.threads ∧
        (s'.closeNotifySent = s.closeNotifySent ∨ 1 ≤ sumBy quietPath s.threads)) := by
  obtain ⟨th, th', sh', a, hget, hl, rfl, rfl, hs⟩ := stepEv_sums h
  have ⟨e1, m1⟩ := hs inFlight; have ⟨e2, m2⟩ := hs wonClose; have ⟨e3, m3⟩ := hs holdsOut
  have ⟨e4, m4⟩ := hs casParity; have ⟨e5, m5⟩ := hs doneErr; have ⟨e6, m6⟩ := hs quietPath
  have ⟨e7, m7⟩ := hs afterSend; have ⟨e8, m8⟩ := hs closedConn
  clear hs h
  have q1 := sumBy_le_sumBy _ _ quietPath_le s.threads
  have q2 := sumBy_le_sumBy _ _ afterSend_le s.threads
  have hb := Bool.toNat_le s.outHeld
  obtain ⟨i1, i2, i3, i4, i5, i6, i7, i8, i9⟩ := hI
  simp only [writeInc, closedBit] at *
  rcases th with pc | pc <;> cases pc <;> simp only [localStep] at hl
  all_goals (repeat' split at hl)
  all_goals (first | (simp only [Option.some.injEq, Prod.mk.injEq] at hl) | (exact absurd hl (by simp)))
  all_goals obtain ⟨rfl, rfl, rfl⟩ := hl
  all_goals simp only [inFlight, wonClose, holdsOut, casParity, doneErr, quietPath, afterSend, closedConn] at *
  all_goals try simp only [isClosed_iff, Bool.not_eq_true, writesInFlight_true] at *
  all_goals try (have hh : s.outHeld = false := by assumption
                 rw [hh] at i3)
  all_goals try simp only [Bool.toNat_false] at i3
  all_goals
    refine ⟨⟨?_, ?_, ?_, ?_, ?_, ?_, ?_, ?_, ?_⟩, ?_, ?_, ?_⟩ <;>
    (try simp only [addWriter, subWriter, writeInc, releaseDec, closedBit, setClosed_eq, Bool.toNat_true, Bool.toNat_false,
      postClose, isClosed_iff, ne_eq, reduceCtorEq, Action.cCasOk.injEq, false_implies, implies_true, forall_const,
      true_or, or_true, not_false_eq_true, not_true_eq_false, and_true, true_and, forall_eq]) <;>
    first | omega | exact i9 | (simp; done) | (simp; omega)

theorem Inv.step {s : State} {t : ThreadId} {s' : State} {e : Event} (hI : Inv s) (h : stepEv s t = some (s', e)) :
    Inv s' := (step_facts hI h).1

/-! ## the invariant holds in every reachable state -/
theorem sumBy_init (kinds : List Kind) (f : Thread → Nat) (h1 : f (.writer .load) = 0) (h2 : f (.closer .load) = 0) :
    sumBy f (initOf kinds).threads = 0 := by
  apply sumBy_eq_zero
  intro a ha
  simp only [initOf, List.mem_map] at ha
  obtain ⟨k, -, rfl⟩ := ha
  cases k <;> simp [Thread.start, h1, h2]

theorem Inv.init (kinds : List Kind) : Inv (initOf kinds) := by
  have z := fun f h1 h2 => sumBy_init kinds f h1 h2
  constructor
  · rw [z inFlight rfl rfl, z wonClose rfl rfl]; rfl
  · rw [z wonClose rfl rfl]; exact Nat.zero_le _
  · rw [z holdsOut rfl rfl]; rfl
  · exact z casParity rfl rfl
  · exact Or.inl (z doneErr rfl rfl)
  · exact Or.inr (z inFlight rfl rfl)
  · exact Nat.zero_le _
  · rw [z closedConn rfl rfl]; rfl
  · rfl

theorem Inv.next {s : State} (hI : Inv s) (t : ThreadId) : Inv (next s t) := by
  cases h : stepEv s t with
  | none => rw [next_of_none h]; exact hI
  | some p => obtain ⟨s', e⟩ := p; rw [next_of_some h]; exact hI.step h

theorem Inv.run {s : State} (hI : Inv s) (sched : List ThreadId) : Inv (run s sched) := by
  induction sched generalizing s with
  | nil => exact hI
  | cons t ts ih => exact ih (hI.next t)

/-- the states an execution can be in: any number and mix of calls, any schedule -/
def Reachable (s : State) : Prop := ∃ kinds sched, s = run (initOf kinds) sched

theorem Reachable.inv {s : State} (h : Reachable s) : Inv s := by
  obtain ⟨kinds, sched, rfl⟩ := h; exact (Inv.init kinds).run sched

theorem Reachable.run {s : State} (h : Reachable s) (sched : List ThreadId) : Reachable (run s sched) := by
  obtain ⟨kinds, sched0, rfl⟩ := h; exact ⟨kinds, sched0 ++ sched, (run_append _ _ _).symm⟩

/-! ### bookkeeping: the goroutine list keeps its length and kinds -/
theorem map_set_same {α β : Type} (f : α → β) : ∀ {l : List α} {i : Nat} {a : α} (b : α), l[i]? = some a → f b = f a →
    (l.set i b).map f = l.map f
  | [], _, _, _, h, _ => by simp at h
  | x :: l, 0, a, b, h, hf => by simp at h; subst h; simp [hf]
  | x :: l, i+1, a, b, h, hf => by
      simp at h; simp [map_set_same f b h hf]

theorem localStep_kind {sh sh' : Shared} {th th' : Thread} {a : Action} (h : localStep sh th = some (sh', th', a)) :
    th'.kind = th.kind := by
  rcases th with pc | pc <;> cases pc <;> simp only [localStep] at h
  all_goals (repeat' split at h)
  all_goals (first | (simp only [Option.some.injEq, Prod.mk.injEq] at h) | (exact absurd h (by simp)))
  all_goals obtain ⟨-, rfl, -⟩ := h
  all_goals rfl

theorem next_kinds (s : State) (t : ThreadId) : (next s t).threads.map Thread.kind = s.threads.map Thread.kind := by
  cases h : stepEv s t with
  | none => rw [next_of_none h]
  | some p =>
    obtain ⟨s', e⟩ := p
    rw [next_of_some h]
    obtain ⟨th, th', sh', a, hget, hl, -, rfl, -⟩ := stepEv_sums h
    exact map_set_same _ _ hget (localStep_kind hl)

theorem run_kinds (s : State) (sched : List ThreadId) : (run s sched).threads.map Thread.kind = s.threads.map Thread.kind := by
  induction sched generalizing s with
  | nil => rfl
  | cons t ts ih => rw [run_cons, ih, next_kinds]

theorem run_length (s : State) (sched : List ThreadId) : (run s sched).threads.length = s.threads.length := by
  have := congrArg List.length (run_kinds s sched)
  simpa using this

/-! ## T1 counter_invariant -/

/-- number of Writes that have passed their CAS and not yet run their deferred `Add(-2)` -/
def writersInFlight (s : State) : Nat := s.threads.countP (fun th => inFlight th == 1)
/-- 1 if some Close has passed its CAS, else 0 -/
def closeWon (s : State) : Nat := if s.threads.any (fun th => wonClose th == 1) then 1 else 0

theorem sumBy_eq_countP {α : Type} (f : α → Nat) (hf : ∀ a, f a ≤ 1) : ∀ l : List α, sumBy f l = l.countP (fun a => f a == 1)
  | [] => rfl
  | a :: l => by
      have := sumBy_eq_countP f hf l
      have := hf a
      by_cases h : f a = 1 <;> simp [sumBy, h] <;> omega

theorem inFlight_le (a : Thread) : inFlight a ≤ 1 := by unfold inFlight; split <;> simp
theorem wonClose_le (a : Thread) : wonClose a ≤ 1 := by unfold wonClose; split <;> simp

theorem closeWon_eq (s : State) (h : sumBy wonClose s.threads ≤ 1) : closeWon s = sumBy wonClose s.threads := by
  unfold closeWon
  split
  · rename_i hany
    simp only [List.any_eq_true, beq_iff_eq] at hany
    obtain ⟨a, ha, h1⟩ := hany
    have := le_sumBy wonClose ha
    omega
  · rename_i hany
    have : sumBy wonClose s.threads = 0 := by
      apply sumBy_eq_zero
      intro a ha
      have := wonClose_le a
      have h2 : ¬ wonClose a = 1 := fun h1 => hany (by simp only [List.any_eq_true, beq_iff_eq]; exact ⟨a, ha, h1⟩)
      omega
    omega

/-- T1 `counter_invariant`: in every state of every execution (any goroutines, any schedule),
    `activeCall = 2·(number of Writes between their successful CAS and their Add(-2)) + (1 if a Close's CAS
    has succeeded)`.  In particular the int32 never goes negative in `Add(-2)` and never exceeds
    `2·goroutines + 1`, so it cannot overflow for fewer than 2^30 goroutines. -/
theorem counter_invariant (kinds : List Kind) (sched : List ThreadId) :
    let s := run (initOf kinds) sched
    s.activeCall = writeInc * writersInFlight s + closedBit * closeWon s ∧
    s.activeCall ≤ writeInc * kinds.length + closedBit := by
  intro s
  have hI : Inv s := (Inv.init kinds).run sched
  have h1 : writersInFlight s = sumBy inFlight s.threads := (sumBy_eq_countP _ inFlight_le _).symm
  have h2 := closeWon_eq s hI.oneWin
  have h3 := sumBy_le_length inFlight 1 inFlight_le s.threads
  have h4 : s.threads.length = kinds.length := by
    rw [run_length]; simp [initOf]
  have h5 := hI.counter
  have h6 := hI.oneWin
  simp only [writeInc, closedBit] at *
  omega

/-- the same for any reachable state, with the sums the proofs use -/
theorem counter_invariant_reachable {s : State} (h : Reachable s) :
    s.activeCall = writeInc * sumBy inFlight s.threads + closedBit * sumBy wonClose s.threads := h.inv.counter

/-- the deferred `Add(-2)` never underflows: when a Write is about to release, `activeCall ≥ 2` -/
theorem release_never_underflows {s : State} (h : Reachable s) {t : ThreadId} (ht : s.threads[t]? = some (.writer .release)) :
    releaseDec ≤ s.activeCall := by
  have h1 := h.inv.counter
  have h2 := le_sumBy inFlight (List.mem_of_getElem? ht)
  simp only [writeInc, closedBit, releaseDec, inFlight] at *
  omega

/-! ## T2 at most one Close proceeds -/

def isCCasOk : Action → Bool
  | .cCasOk _ => true
  | _ => false

theorem isCCasOk_iff (a : Action) : isCCasOk a = true ↔ ∃ x, a = .cCasOk x := by
  cases a <;> simp [isCCasOk]

/-- successful Close-CASes in a trace are exactly the growth of the number of winners -/
theorem trace_wins {s : State} (hI : Inv s) (sched : List ThreadId) :
    (trace s sched).countP (fun e => isCCasOk e.act) + sumBy wonClose s.threads =
      sumBy wonClose (run s sched).threads := by
  induction sched generalizing s with
  | nil => simp [trace, run_nil]
  | cons t ts ih =>
    cases h : stepEv s t with
    | none => rw [trace_of_none ts h, run_cons, next_of_none h]; exact ih hI
    | some p =>
      obtain ⟨s', e⟩ := p
      rw [trace_of_some ts h, run_cons, next_of_some h]
      obtain ⟨hI', -, hwin, hnot⟩ := step_facts hI h
      have := ih hI'
      by_cases hc : ∃ x, e.act = .cCasOk x
      · obtain ⟨x, hx⟩ := hc
        obtain ⟨-, -, h0, h1, -, -⟩ := hwin x hx
        have hf : isCCasOk e.act = true := (isCCasOk_iff _).2 ⟨x, hx⟩
        have hcnt : List.countP (fun e => isCCasOk e.act) (e :: trace s' ts) =
            List.countP (fun e => isCCasOk e.act) (trace s' ts) + 1 := by simp [hf]
        rw [hcnt]
        omega
      · have hn : ∀ x, e.act ≠ .cCasOk x := fun x hx => hc ⟨x, hx⟩
        obtain ⟨h0, -, -⟩ := hnot hn
        have hf : isCCasOk e.act = false := Bool.eq_false_iff.2 (fun hh => hc ((isCCasOk_iff _).1 hh))
        have hcnt : List.countP (fun e => isCCasOk e.act) (e :: trace s' ts) =
            List.countP (fun e => isCCasOk e.act) (trace s' ts) := by simp [hf]
        rw [hcnt]
        omega

/-- T2 `at_most_one_close_proceeds`: in any execution at most one Close's CAS ever succeeds (trace form and
    state form), and if goroutine `i` is a Close that got past its CAS, every other goroutine `j` that is a
    finished Close returned errClosed. -/
theorem at_most_one_close_proceeds (kinds : List Kind) (sched : List ThreadId) :
    let s := run (initOf kinds) sched
    (trace (initOf kinds) sched).countP (fun e => isCCasOk e.act) ≤ 1 ∧
    sumBy wonClose s.threads ≤ 1 ∧
    (∀ (i j : Nat) (thi : Thread) (o : Outcome), s.threads[i]? = some thi → wonClose thi = 1 →
       s.threads[j]? = some (Thread.closer (.done o)) → i ≠ j → o = Outcome.errClosed) := by
  intro s
  have hI : Inv s := (Inv.init kinds).run sched
  have h1 : _ + _ = sumBy wonClose s.threads := trace_wins (Inv.init kinds) sched
  have h0 := sumBy_init kinds wonClose rfl rfl
  have h2 := hI.oneWin
  refine ⟨by omega, h2, ?_⟩
  intro i j thi o hi hw hj hij
  cases o with
  | errClosed => rfl
  | ok =>
    have h3 := add_le_sumBy wonClose hi hj hij (.writer .load) rfl
    have h4 : wonClose (Thread.closer (.done .ok)) = 1 := rfl
    omega

/-- two goroutines past the Close CAS are the same goroutine -/
theorem winner_unique {s : State} (hs : Reachable s) {i j : Nat} {thi thj : Thread} (hi : s.threads[i]? = some thi)
    (hj : s.threads[j]? = some thj) (wi : wonClose thi = 1) (wj : wonClose thj = 1) : i = j := by
  apply Classical.byContradiction
  intro hij
  have := add_le_sumBy wonClose hi hj hij (.writer .load) rfl
  have := hs.inv.oneWin
  omega

/-! ## T3/T4 after the winning CAS: closed for good -/

theorem closed_of_won {s : State} (hI : Inv s) {c : Nat} {thc : Thread} (hc : s.threads[c]? = some thc)
    (hw : wonClose thc = 1) : isClosed s.activeCall = true := by
  have h1 := hI.counter
  have h2 := le_sumBy wonClose (List.mem_of_getElem? hc)
  have h3 := hI.oneWin
  rw [isClosed_iff]
  simp only [writeInc, closedBit] at h1
  omega

theorem closed_next {s : State} (hI : Inv s) (hc : isClosed s.activeCall = true) (t : ThreadId) :
    isClosed (next s t).activeCall = true := by
  cases h : stepEv s t with
  | none => rw [next_of_none h]; exact hc
  | some p =>
    obtain ⟨s', e⟩ := p
    rw [next_of_some h]
    rw [isClosed_iff] at *
    exact ((step_facts hI h).2.1 hc).1

theorem closed_run {s : State} (hI : Inv s) (hc : isClosed s.activeCall = true) (sched : List ThreadId) :
    isClosed (run s sched).activeCall = true := by
  induction sched generalizing s with
  | nil => exact hc
  | cons t ts ih => exact ih (hI.next t) (closed_next hI hc t)

/-- once the closed bit is set, no CAS of any call succeeds any more and every Load sees the bit -/
theorem trace_after_close {s : State} (hI : Inv s) (hc : isClosed s.activeCall = true) (sched : List ThreadId) :
    ∀ e ∈ trace s sched, postClose e.act = true := by
  induction sched generalizing s with
  | nil => intro e he; simp [trace] at he
  | cons t ts ih =>
    cases h : stepEv s t with
    | none => rw [trace_of_none ts h]; exact ih hI hc
    | some p =>
      obtain ⟨s', e0⟩ := p
      rw [trace_of_some ts h]
      have hn := closed_next hI hc t
      rw [next_of_some h] at hn
      have hf := (step_facts hI h).2.1 ((isClosed_iff _).1 hc)
      intro e he
      rcases List.mem_cons.1 he with rfl | he
      · exact hf.2
      · exact ih (hI.step h) hn e he

theorem trace_split_post {s : State} (hI : Inv s) (sched : List ThreadId) (pre : List Event) (c : ThreadId) (x : Nat)
    (post : List Event) (h : trace s sched = pre ++ ⟨c, .cCasOk x⟩ :: post) : ∀ e ∈ post, postClose e.act = true := by
  induction sched generalizing s pre with
  | nil => simp [trace] at h
  | cons t ts ih =>
    cases hst : stepEv s t with
    | none => rw [trace_of_none ts hst] at h; exact ih hI pre h
    | some p =>
      obtain ⟨s', e0⟩ := p
      rw [trace_of_some ts hst] at h
      cases pre with
      | nil =>
        simp only [List.nil_append, List.cons.injEq] at h
        obtain ⟨rfl, rfl⟩ := h
        have hw := ((step_facts hI hst).2.2.1 x rfl).2.1
        exact trace_after_close (hI.step hst) ((isClosed_iff _).2 hw) ts
      | cons p0 pre' =>
        simp only [List.cons_append, List.cons.injEq] at h
        exact ih (hI.step hst) pre' h.2

/-- T4 `no_write_after_close`: split any execution's trace at a successful Close CAS.  Every later action is
    `postClose`: it is not a successful CAS (of a Write or of a Close) and, if it is a Load, it reads a value with
    the closed bit set — so a Write passes the interlock only if its successful CAS precedes every successful
    Close CAS.  And no earlier action is a successful Close CAS. -/
theorem no_write_after_close (kinds : List Kind) (sched : List ThreadId) (pre : List Event) (c : ThreadId) (x : Nat)
    (post : List Event) (h : trace (initOf kinds) sched = pre ++ ⟨c, .cCasOk x⟩ :: post) :
    (∀ e ∈ post, (∀ y, e.act ≠ .wCasOk y) ∧ (∀ y, e.act ≠ .cCasOk y) ∧ (∀ y, e.act = .load y → isClosed y = true)) ∧
    (∀ e ∈ pre, ∀ y, e.act ≠ .cCasOk y) := by
  constructor
  · intro e he
    have := trace_split_post (Inv.init kinds) sched pre c x post h e he
    refine ⟨?_, ?_, ?_⟩ <;> intro y hy <;> rw [hy] at this <;> simp [postClose] at this
    exact this
  · intro e he y hy
    have h1 := (at_most_one_close_proceeds kinds sched).1
    rw [h] at h1
    have h2 : isCCasOk e.act = true := (isCCasOk_iff _).2 ⟨y, hy⟩
    have h3 : 0 < pre.countP (fun e => isCCasOk e.act) := List.countP_pos_iff.2 ⟨e, he, h2⟩
    have h4 : isCCasOk (Event.act ⟨c, .cCasOk x⟩) = true := rfl
    simp only [List.countP_append, List.countP_cons, h4, if_true] at h1
    omega

/-- a goroutine that can only be refused: it has not loaded yet, or has loaded a closed value, or returned errClosed -/
def refused : Thread → Bool
  | .writer .load | .closer .load => true
  | .writer (.check x) | .closer (.check x) => isClosed x
  | .writer (.done .errClosed) | .closer (.done .errClosed) => true
  | _ => false

/-- the only actions of a refused call: Loads that see the closed bit and the `return errClosed` -/
def refusalAct : Action → Bool
  | .load x => isClosed x
  | .checkClosed => true
  | _ => false

theorem refused_outcome {th : Thread} (h : refused th = true) : ∀ o, th.outcome = some o → o = .errClosed := by
  intro o ho
  rcases th with pc | pc <;> cases pc <;> simp only [Thread.outcome, reduceCtorEq, Option.some.injEq] at ho
  all_goals (subst ho; rename_i o; cases o <;> first | rfl | exact absurd h (by simp [refused]))

theorem getElem?_set_self_of {α : Type} {l : List α} {i : Nat} {a : α} (b : α) (h : l[i]? = some a) :
    (l.set i b)[i]? = some b := by
  have : i < l.length := by
    have := List.getElem?_eq_some_iff.1 h
    exact this.1
  simp [List.getElem?_set_self this]

theorem refused_step {s s' : State} {t w : ThreadId} {e : Event} {th : Thread} (hc : isClosed s.activeCall = true)
    (hw : s.threads[w]? = some th) (hr : refused th = true) (h : stepEv s t = some (s', e)) :
    ∃ th', s'.threads[w]? = some th' ∧ refused th' = true ∧ (e.tid = w → refusalAct e.act = true) := by
  obtain ⟨th0, th0', sh', a, hget, hl, rfl, rfl, -⟩ := stepEv_sums h
  by_cases htw : t = w
  · subst htw
    rw [hw] at hget
    obtain rfl := Option.some.inj hget
    refine ⟨th0', getElem?_set_self_of _ hw, ?_⟩
    rcases th with pc | pc <;> cases pc <;> (try (exact absurd hr Bool.false_ne_true))
    all_goals (try (rename_i o; cases o <;> (try (exact absurd hr Bool.false_ne_true))))
    all_goals simp only [refused] at hr
    all_goals simp only [localStep, hr, if_true] at hl
    all_goals (first | (simp only [Option.some.injEq, Prod.mk.injEq] at hl) | (exact absurd hl (by simp)))
    all_goals obtain ⟨rfl, rfl, rfl⟩ := hl
    all_goals simp [refused, refusalAct, hc]
  · refine ⟨th, ?_, hr, fun h => absurd h htw⟩
    simp only [List.getElem?_set_ne htw]
    exact hw

theorem refused_forever {s : State} (hI : Inv s) (hc : isClosed s.activeCall = true) {w : ThreadId} {th : Thread}
    (hw : s.threads[w]? = some th) (hr : refused th = true) (sched : List ThreadId) :
    ∃ th', (run s sched).threads[w]? = some th' ∧ refused th' = true ∧
      ∀ e ∈ trace s sched, e.tid = w → refusalAct e.act = true := by
  induction sched generalizing s th with
  | nil => exact ⟨th, hw, hr, by intro e he; simp [trace] at he⟩
  | cons t ts ih =>
    cases h : stepEv s t with
    | none => rw [trace_of_none ts h, run_cons, next_of_none h]; exact ih hI hc hw hr
    | some p =>
      obtain ⟨s', e0⟩ := p
      rw [trace_of_some ts h, run_cons, next_of_some h]
      have hn := closed_next hI hc t
      rw [next_of_some h] at hn
      obtain ⟨th1, hw1, hr1, ha⟩ := refused_step hc hw hr h
      obtain ⟨th', h1, h2, h3⟩ := ih (hI.step h) hn hw1 hr1
      refine ⟨th', h1, h2, ?_⟩
      intro e he
      rcases List.mem_cons.1 he with rfl | he
      · exact ha
      · exact h3 e he

/-- T3 `close_idempotent` (with the state form of `no_write_after_close`): in a reachable state in which some Close
    has passed its CAS, take any Write or Close that has not done its Load yet (a later call).  Whatever the
    schedule from there, that call only ever Loads values with the closed bit set and returns errClosed: it never
    passes the interlock, never takes the `out` mutex, never writes a record, never sends an alert, never closes
    the underlying connection; if it has finished, its result is errClosed. -/
theorem close_idempotent {s : State} (hs : Reachable s) {c : ThreadId} {thc : Thread} (hc : s.threads[c]? = some thc)
    (hwon : wonClose thc = 1) {w : ThreadId} {th : Thread} (hw : s.threads[w]? = some th)
    (hload : th = .writer .load ∨ th = .closer .load) (sched : List ThreadId) :
    ∃ th', (run s sched).threads[w]? = some th' ∧ refused th' = true ∧
      (∀ o, th'.outcome = some o → o = .errClosed) ∧
      ∀ e ∈ trace s sched, e.tid = w → refusalAct e.act = true := by
  have hr : refused th = true := by rcases hload with rfl | rfl <;> rfl
  obtain ⟨th', h1, h2, h3⟩ := refused_forever hs.inv (closed_of_won hs.inv hc hwon) hw hr sched
  exact ⟨th', h1, h2, refused_outcome h2, h3⟩

/-! ## T5 close_notify only when quiet -/

/-- goroutine `c`'s next action in `s` is a successful Close CAS (`c` wins the interlock at this moment) -/
def winsAt (s : State) (c : ThreadId) : Prop := ∃ s' x, stepEv s c = some (s', ⟨c, .cCasOk x⟩)

/-- a Close has won with Writes in flight: nobody is or will be on the close_notify path -/
structure Loud (s : State) : Prop where
  won : sumBy wonClose s.threads = 1
  noQuiet : sumBy quietPath s.threads = 0
  unsent : s.closeNotifySent = 0

theorem Loud.next {s : State} (hI : Inv s) (hL : Loud s) (t : ThreadId) : Loud (next s t) := by
  cases h : stepEv s t with
  | none => rw [next_of_none h]; exact hL
  | some p =>
    obtain ⟨s', e⟩ := p
    rw [next_of_some h]
    obtain ⟨-, hcl, -, hnot⟩ := step_facts hI h
    have h1 := hI.counter
    have hw := hL.won
    have hodd : s.activeCall % 2 = 1 := by simp only [writeInc, closedBit] at h1; omega
    have hpc := (hcl hodd).2
    have hn : ∀ x, e.act ≠ .cCasOk x := by
      intro x hx; rw [hx] at hpc; simp [postClose] at hpc
    obtain ⟨h2, h3, h4⟩ := hnot hn
    have := hL.noQuiet
    have := hL.unsent
    exact ⟨by omega, by omega, by omega⟩

theorem Loud.run {s : State} (hI : Inv s) (hL : Loud s) (sched : List ThreadId) : Loud (run s sched) := by
  induction sched generalizing s with
  | nil => exact hL
  | cons t ts ih => exact ih (hI.next t) (hL.next hI t)

theorem quiet_witness {s : State} (hI : Inv s) (h0 : sumBy wonClose s.threads = 0) (hs0 : s.closeNotifySent = 0)
    (sched : List ThreadId) (hsent : 1 ≤ (run s sched).closeNotifySent) :
    ∃ pre c post, sched = pre ++ c :: post ∧ winsAt (run s pre) c ∧ (run s pre).activeCall = 0 ∧
      sumBy inFlight (run s pre).threads = 0 := by
  induction sched generalizing s with
  | nil => rw [run_nil] at hsent; omega
  | cons t ts ih =>
    rw [run_cons] at hsent
    cases h : stepEv s t with
    | none =>
      rw [next_of_none h] at hsent
      obtain ⟨pre, c, post, h1, h2, h3, h4⟩ := ih hI h0 hs0 hsent
      refine ⟨t :: pre, c, post, by rw [h1]; rfl, ?_, ?_, ?_⟩ <;> rw [run_cons, next_of_none h] <;> assumption
    | some p =>
      obtain ⟨s', e⟩ := p
      rw [next_of_some h] at hsent
      obtain ⟨hI', -, hwin, hnot⟩ := step_facts hI h
      by_cases hc : ∃ x, e.act = .cCasOk x
      · obtain ⟨x, hx⟩ := hc
        obtain ⟨hxa, -, -, hw1, hq, hsn⟩ := hwin x hx
        have hte : e = ⟨t, .cCasOk x⟩ := by
          obtain ⟨_, _, _, a, _, _, rfl, _, _⟩ := stepEv_sums h
          simp at hx; rw [hx]
        by_cases hx0 : x = 0
        · subst hx0
          have hc1 := hI.counter
          refine ⟨[], t, ts, rfl, ⟨s', 0, by rw [run_nil, h, hte]⟩, by rw [run_nil]; exact hxa.symm, ?_⟩
          rw [run_nil]
          simp only [writeInc, closedBit] at hc1
          omega
        · have hL : Loud s' := ⟨hw1, by omega, by omega⟩
          have := (hL.run hI' ts).unsent
          omega
      · have hn : ∀ x, e.act ≠ .cCasOk x := fun x hx => hc ⟨x, hx⟩
        obtain ⟨h2, h3, h4⟩ := hnot hn
        have q1 := sumBy_le_sumBy _ _ quietPath_le s.threads
        obtain ⟨pre, c, post, h1, h5, h6, h7⟩ := ih hI' (by omega) (by omega) hsent
        refine ⟨t :: pre, c, post, by rw [h1]; rfl, ?_, ?_, ?_⟩ <;> rw [run_cons, next_of_some h] <;> assumption

/-- T5 `close_notify_only_when_quiet`: in any execution the close_notify alert is put on the wire at most once,
    and if it was, the schedule splits at a moment where a Close goroutine `c` won the CAS while `activeCall`
    was 0 and no Write was in flight (between its CAS and its `Add(-2)`).  (`winsAt`: `c`'s action at that
    moment is the successful `CompareAndSwapInt32(&c.activeCall, x, x|1)`.) -/
theorem close_notify_only_when_quiet (kinds : List Kind) (sched : List ThreadId) :
    (run (initOf kinds) sched).closeNotifySent ≤ 1 ∧
    (1 ≤ (run (initOf kinds) sched).closeNotifySent →
      ∃ pre c post, sched = pre ++ c :: post ∧ winsAt (run (initOf kinds) pre) c ∧
        (run (initOf kinds) pre).activeCall = 0 ∧ writersInFlight (run (initOf kinds) pre) = 0) := by
  have hI := (Inv.init kinds).run sched
  constructor
  · have h1 := hI.notify
    have h2 := sumBy_le_sumBy _ _ afterSend_le (run (initOf kinds) sched).threads
    have h3 := hI.oneWin
    omega
  · intro hsent
    obtain ⟨pre, c, post, h1, h2, h3, h4⟩ :=
      quiet_witness (Inv.init kinds) (sumBy_init kinds wonClose rfl rfl) rfl sched hsent
    refine ⟨pre, c, post, h1, h2, h3, ?_⟩
    unfold writersInFlight
    rw [← sumBy_eq_countP _ inFlight_le]; exact h4

/-- state form: whenever close_notify has been sent, or the winning Close is on its way to send it, no Write is
    in flight — so `closeNotify`'s `c.out.Lock()` never waits for a Write, and a Write that got past the
    interlock never sees `closeNotifySent` (never returns errShutdown because of Close). -/
theorem quiet_invariant {s : State} (hs : Reachable s) :
    (1 ≤ s.closeNotifySent ∨ 1 ≤ sumBy quietPath s.threads) → sumBy inFlight s.threads = 0 := by
  intro h
  have := hs.inv.quiet
  omega

theorem close_notify_never_waits {s : State} (hs : Reachable s) {c : ThreadId} (hc : s.threads[c]? = some (.closer .cnLock)) :
    s.outHeld = false := by
  have hI := hs.inv
  have h1 := le_sumBy quietPath (List.mem_of_getElem? hc)
  have h2 := quiet_invariant hs (Or.inr h1)
  have h3 := hI.lock
  have h4 := hI.oneWin
  -- the holders of `out` are Writes in flight or the winner past cnLock; the winner is at cnLock
  have e1 := sumBy_set holdsOut hc (.writer .load)
  have e2 := sumBy_set inFlight hc (.writer .load)
  have e3 := sumBy_set wonClose hc (.writer .load)
  have hadd : ∀ l : List Thread, sumBy (fun a => inFlight a + wonClose a) l = sumBy inFlight l + sumBy wonClose l := by
    intro l; induction l with
    | nil => rfl
    | cons a l ih => simp [sumBy, ih]; omega
  have hle := sumBy_le_sumBy holdsOut (fun a => inFlight a + wonClose a)
    (by intro a; rcases a with pc | pc <;> cases pc <;> simp [holdsOut, inFlight, wonClose])
    (s.threads.set c (.writer .load))
  rw [hadd] at hle
  have v1 : holdsOut (Thread.closer .cnLock) = 0 := rfl
  have v2 : inFlight (Thread.closer .cnLock) = 0 := rfl
  have v3 : wonClose (Thread.closer .cnLock) = 1 := rfl
  have v4 : holdsOut (Thread.writer .load) = 0 := rfl
  have v5 : inFlight (Thread.writer .load) = 0 := rfl
  have v6 : wonClose (Thread.writer .load) = 0 := rfl
  have h5 : sumBy holdsOut s.threads = 0 := by omega
  cases hb : s.outHeld with
  | false => rfl
  | true => rw [hb] at h3; simp at h3; omega

theorem write_never_sees_shutdown {s : State} (hs : Reachable s) {w : ThreadId} (hw : s.threads[w]? = some (.writer .write)) :
    s.closeNotifySent = 0 := by
  have h1 := le_sumBy inFlight (List.mem_of_getElem? hw)
  have h2 := hs.inv.quiet
  simp only [inFlight] at h1
  omega

/-! ## T7 progress -/

/-- actions a call still has to perform if nobody interferes -/
def localRem : Thread → Nat
  | .writer .load => 7 | .writer (.check _) => 6 | .writer (.cas _) => 5 | .writer .lock => 4
  | .writer .write => 3 | .writer .unlock => 2 | .writer .release => 1 | .writer (.done _) => 0
  | .closer .load => 8 | .closer (.check _) => 7 | .closer (.cas _) => 6 | .closer (.branch _) => 5
  | .closer .cnLock => 4 | .closer .cnSend => 3 | .closer .cnUnlock => 2 | .closer .closeConn => 1
  | .closer (.done _) => 0

/-- modifications of `activeCall` a call may still perform (Write: CAS and Add(-2); Close: CAS) -/
def casRem : Thread → Nat
  | .writer .load | .writer (.check _) | .writer (.cas _) => 2
  | .writer .lock | .writer .write | .writer .unlock | .writer .release => 1
  | .closer .load | .closer (.check _) | .closer (.cas _) => 1
  | _ => 0

/-- the call holds a loaded value that is no longer the value of `activeCall` (its CAS would fail) -/
def stale (ac : Nat) : Thread → Nat
  | .writer (.check x) | .writer (.cas x) | .closer (.check x) | .closer (.cas x) => min 1 (x - ac + (ac - x))
  | _ => 0

theorem stale_le (ac : Nat) (a : Thread) : stale ac a ≤ 1 := by
  unfold stale; split <;> omega

/-- potential for failed CASes: stale goroutines now + (goroutines × modifications still to come) -/
def phi (s : State) : Nat := sumBy (stale s.activeCall) s.threads + s.threads.length * sumBy casRem s.threads
/-- termination measure: every action that happens decreases it -/
def mu (s : State) : Nat := sumBy localRem s.threads + 3 * phi s

def isCasFail : Action → Bool
  | .casFail _ => true
  | _ => false

set_option linter.unusedSimpArgs false in
theorem step_measure {s : State} {t : ThreadId} {s' : State} {e : Event} (h : stepEv s t = some (s', e)) :
    mu s' < mu s ∧ phi s' ≤ phi s ∧ (isCasFail e.act = true → phi s' + 1 ≤ phi s) := by
  obtain ⟨th, th', sh', a, hget, hl, rfl, hs', hs⟩ := stepEv_sums h
  have b := sumBy_le_length (stale s'.activeCall) 1 (stale_le _) s'.threads
  subst hs'
  have ⟨e1, _⟩ := hs localRem; have ⟨e2, _⟩ := hs casRem; have ⟨e3, m3⟩ := hs (stale s.activeCall)
  have hmul : s.threads.length * sumBy casRem (s.threads.set t th') + s.threads.length * casRem th =
      s.threads.length * sumBy casRem s.threads + s.threads.length * casRem th' := by
    rw [← Nat.mul_add, ← Nat.mul_add]; exact congrArg _ e2
  clear hs h e2
  unfold mu phi
  simp only [List.length_set] at *
  rcases th with pc | pc <;> cases pc <;> simp only [localStep] at hl
  all_goals (repeat' split at hl)
  all_goals (first | (simp only [Option.some.injEq, Prod.mk.injEq] at hl) | (exact absurd hl (by simp)))
  all_goals obtain ⟨rfl, rfl, rfl⟩ := hl
  all_goals simp only [localRem, casRem, stale, isCasFail, reduceCtorEq, false_implies, forall_const, and_true] at *
  all_goals omega

theorem mu_next_le (s : State) (t : ThreadId) : mu (next s t) ≤ mu s := by
  cases h : stepEv s t with
  | none => rw [next_of_none h]; exact Nat.le_refl _
  | some p => obtain ⟨s', e⟩ := p; rw [next_of_some h]; exact Nat.le_of_lt (step_measure h).1

theorem mu_run_le (s : State) (l : List ThreadId) : mu (run s l) ≤ mu s := by
  induction l generalizing s with
  | nil => exact Nat.le_refl _
  | cons t ts ih => exact Nat.le_trans (ih _) (mu_next_le s t)

/-- every action that happens in a schedule is paid for by the measure: the number of actions of ANY schedule is
    bounded by `mu` of the start state -/
theorem trace_length_le (s : State) (sched : List ThreadId) : (trace s sched).length + mu (run s sched) ≤ mu s := by
  induction sched generalizing s with
  | nil => simp [trace, run_nil]
  | cons t ts ih =>
    cases h : stepEv s t with
    | none => rw [trace_of_none ts h, run_cons, next_of_none h]; exact ih s
    | some p =>
      obtain ⟨s', e⟩ := p
      rw [trace_of_some ts h, run_cons, next_of_some h]
      have := ih s'
      have := (step_measure h).1
      simp only [List.length_cons]; omega

/-- failed CASes are paid for by `phi`: a CAS fails only because some other goroutine's CAS or Add(-2) changed
    `activeCall` since the Load, and there are at most `casRem` such changes per goroutine -/
theorem trace_fails_le (s : State) (sched : List ThreadId) :
    (trace s sched).countP (fun e => isCasFail e.act) + phi (run s sched) ≤ phi s := by
  induction sched generalizing s with
  | nil => simp [trace, run_nil]
  | cons t ts ih =>
    cases h : stepEv s t with
    | none => rw [trace_of_none ts h, run_cons, next_of_none h]; exact ih s
    | some p =>
      obtain ⟨s', e⟩ := p
      rw [trace_of_some ts h, run_cons, next_of_some h]
      have h1 := ih s'
      obtain ⟨-, h2, h3⟩ := step_measure h
      cases hf : isCasFail e.act with
      | false =>
        have : List.countP (fun e => isCasFail e.act) (e :: trace s' ts) =
          List.countP (fun e => isCasFail e.act) (trace s' ts) := by simp [hf]
        rw [this]; omega
      | true =>
        have : List.countP (fun e => isCasFail e.act) (e :: trace s' ts) =
          List.countP (fun e => isCasFail e.act) (trace s' ts) + 1 := by simp [hf]
        have := h3 hf
        omega

/-! ### nobody waits forever: some goroutine can always move -/

theorem stepEv_isSome {s : State} {t : ThreadId} {th : Thread} (hget : s.threads[t]? = some th)
    (hl : (localStep s.toShared th).isSome = true) : (stepEv s t).isSome = true := by
  unfold stepEv
  rw [hget]
  cases h : localStep s.toShared th with
  | none => rw [h] at hl; simp at hl
  | some p => obtain ⟨sh, th', a⟩ := p; simp [h]

theorem localStep_isSome_free {sh : Shared} {th : Thread} (hfree : sh.outHeld = false) (hnd : th.isDone = false) :
    (localStep sh th).isSome = true := by
  rcases th with pc | pc <;> cases pc <;> simp only [localStep, hfree, Bool.false_eq_true, if_false] <;>
    (try split) <;> (try split) <;> first | rfl | (simp [Thread.isDone, Thread.outcome] at hnd)

theorem localStep_isSome_holder {sh : Shared} {th : Thread} (hh : 0 < holdsOut th) : (localStep sh th).isSome = true := by
  rcases th with pc | pc <;> cases pc <;> simp only [holdsOut, Nat.lt_irrefl] at hh <;> simp only [localStep] <;>
    (try split) <;> (try split) <;> rfl

/-- deadlock freedom: in a reachable state in which some call has not finished, some goroutine can take a step
    (a goroutine waits only for the `out` mutex, and its holder can always move) -/
theorem exists_enabled {s : State} (hI : Inv s) (hnd : s.allDone = false) : ∃ t, (stepEv s t).isSome = true := by
  cases hout : s.outHeld with
  | false =>
    have : ∃ th ∈ s.threads, th.isDone = false := by
      simp only [State.allDone, List.all_eq_false] at hnd
      obtain ⟨th, h1, h2⟩ := hnd
      exact ⟨th, h1, by simpa using h2⟩
    obtain ⟨th, hmem, hd⟩ := this
    obtain ⟨i, hi⟩ := List.getElem?_of_mem hmem
    exact ⟨i, stepEv_isSome hi (localStep_isSome_free hout hd)⟩
  | true =>
    have h1 := hI.lock
    rw [hout] at h1
    have : 0 < sumBy holdsOut s.threads := by rw [h1]; decide
    obtain ⟨i, a, hi, ha⟩ := exists_of_sumBy_pos holdsOut this
    exact ⟨i, stepEv_isSome hi (localStep_isSome_holder ha)⟩

theorem stepEv_none_of_done {s : State} (hd : s.allDone = true) (t : ThreadId) : stepEv s t = none := by
  unfold stepEv
  cases hget : s.threads[t]? with
  | none => rfl
  | some th =>
    have : th.isDone = true := by
      simp only [State.allDone, List.all_eq_true] at hd
      exact hd th (List.mem_of_getElem? hget)
    rcases th with pc | pc <;> cases pc <;> first | rfl | (simp [Thread.isDone, Thread.outcome] at this)

theorem run_of_done {s : State} (hd : s.allDone = true) (l : List ThreadId) : run s l = s := by
  induction l with
  | nil => rfl
  | cons t ts ih => rw [run_cons, next_of_none (stepEv_none_of_done hd t)]; exact ih

theorem lt_length_of_isSome {s : State} {t : ThreadId} (h : (stepEv s t).isSome = true) : t < s.threads.length := by
  unfold stepEv at h
  cases hget : s.threads[t]? with
  | none => rw [hget] at h; simp at h
  | some th => exact (List.getElem?_eq_some_iff.1 hget).1

/-- in a round in which an enabled goroutine gets a turn, something happens -/
theorem round_progress {s : State} (r : List ThreadId) {t : ThreadId} (ht : t ∈ r) (hen : (stepEv s t).isSome = true) :
    mu (run s r) < mu s := by
  induction r generalizing s with
  | nil => simp at ht
  | cons u us ih =>
    rw [run_cons]
    cases h : stepEv s u with
    | some p =>
      obtain ⟨s', e⟩ := p
      rw [next_of_some h]
      exact Nat.lt_of_le_of_lt (mu_run_le s' us) (step_measure h).1
    | none =>
      rw [next_of_none h]
      have hne : t ≠ u := by intro htu; subst htu; rw [h] at hen; simp at hen
      rcases List.mem_cons.1 ht with rfl | ht
      · exact absurd rfl hne
      · exact ih ht hen

/-- fair termination: a schedule made of rounds, each of which gives every goroutine at least one turn, finishes
    every call within `mu s` rounds -/
theorem fair_termination {s : State} (hI : Inv s) (rounds : List (List ThreadId))
    (hfair : ∀ r ∈ rounds, ∀ t, t < s.threads.length → t ∈ r) (hlen : mu s ≤ rounds.length) :
    (run s rounds.flatten).allDone = true := by
  induction rounds generalizing s with
  | nil =>
    cases hd : s.allDone with
    | true => exact hd
    | false =>
      obtain ⟨t, ht⟩ := exists_enabled hI hd
      cases h : stepEv s t with
      | none => rw [h] at ht; simp at ht
      | some p =>
        obtain ⟨s', e⟩ := p
        have := (step_measure h).1
        simp at hlen; omega
  | cons r rs ih =>
    rw [List.flatten_cons, run_append]
    cases hd : s.allDone with
    | true => rw [run_of_done hd, run_of_done hd]; exact hd
    | false =>
      obtain ⟨t, ht⟩ := exists_enabled hI hd
      have htr : t ∈ r := hfair r (by simp) t (lt_length_of_isSome ht)
      have hlt := round_progress r htr ht
      apply ih (hI.run r)
      · intro r' hr' t' ht'
        rw [run_length] at ht'
        exact hfair r' (by simp [hr']) t' ht'
      · simp only [List.length_cons] at hlen; omega

theorem localRem_le (a : Thread) : localRem a ≤ 8 := by
  rcases a with pc | pc <;> cases pc <;> simp [localRem]
theorem casRem_le (a : Thread) : casRem a ≤ 2 := by
  rcases a with pc | pc <;> cases pc <;> simp [casRem]

theorem casRem_init (kinds : List Kind) :
    sumBy casRem (initOf kinds).threads = 2 * kinds.count .writer + kinds.count .closer := by
  simp only [initOf]
  induction kinds with
  | nil => rfl
  | cons k ks ih => cases k <;> simp [sumBy, Thread.start, casRem, ih] <;> omega

theorem phi_init (kinds : List Kind) :
    phi (initOf kinds) = kinds.length * (2 * kinds.count .writer + kinds.count .closer) := by
  unfold phi
  rw [casRem_init, sumBy_init kinds _ rfl rfl]
  simp [initOf]

theorem count_kinds_le (kinds : List Kind) : kinds.count Kind.writer + kinds.count Kind.closer ≤ kinds.length := by
  induction kinds with
  | nil => simp
  | cons k ks ih => cases k <;> simp <;> omega

theorem mu_init_le (kinds : List Kind) : mu (initOf kinds) ≤ 8 * kinds.length + 6 * (kinds.length * kinds.length) := by
  unfold mu
  rw [phi_init]
  have h1 := sumBy_le_length localRem 8 localRem_le (initOf kinds).threads
  have h2 : (initOf kinds).threads.length = kinds.length := by simp [initOf]
  rw [h2] at h1
  have h3 := count_kinds_le kinds
  have h4 : kinds.length * (2 * kinds.count .writer + kinds.count .closer) ≤ kinds.length * (2 * kinds.length) :=
    Nat.mul_le_mul_left _ (by omega)
  have h5 : kinds.length * (2 * kinds.length) = 2 * (kinds.length * kinds.length) := Nat.mul_left_comm _ _ _
  omega

/-- T7 `progress`: (a) fair termination — a schedule consisting of at least `8·N + 6·N²` rounds, each giving
    every one of the N goroutines at least one turn, finishes every Write and every Close (nobody spins or waits
    forever; in particular no deadlock on the `out` mutex);
    (b) any schedule whatsoever performs at most `8·N + 6·N²` actions in total;
    (c) the number of failed CASes of any schedule is at most `N·(2·writers + closers)`: a CAS fails only because
    another goroutine's CAS or Add(-2) succeeded in between, and there are at most `2·writers + closers` of those. -/
theorem progress (kinds : List Kind) :
    (∀ rounds : List (List ThreadId), (∀ r ∈ rounds, ∀ t, t < kinds.length → t ∈ r) →
        8 * kinds.length + 6 * (kinds.length * kinds.length) ≤ rounds.length →
        (run (initOf kinds) rounds.flatten).allDone = true) ∧
    (∀ sched, (trace (initOf kinds) sched).length ≤ 8 * kinds.length + 6 * (kinds.length * kinds.length)) ∧
    (∀ sched, (trace (initOf kinds) sched).countP (fun e => isCasFail e.act) ≤
        kinds.length * (2 * kinds.count .writer + kinds.count .closer)) := by
  have hmu := mu_init_le kinds
  refine ⟨?_, ?_, ?_⟩
  · intro rounds hfair hlen
    apply fair_termination (Inv.init kinds) rounds
    · intro r hr t ht
      have : (initOf kinds).threads.length = kinds.length := by simp [initOf]
      rw [this] at ht
      exact hfair r hr t ht
    · omega
  · intro sched
    have := trace_length_le (initOf kinds) sched
    omega
  · intro sched
    have := trace_fails_le (initOf kinds) sched
    rw [phi_init] at this
    omega

/-! ## T6 linearizable outcomes -/

/-- `n` turns given to one goroutine that nobody interferes with, as a function of the shared variables and
    its own state -/
def soloRun : Nat → Shared → Thread → Shared × Thread
  | 0, sh, th => (sh, th)
  | n+1, sh, th =>
    match localStep sh th with
    | none => (sh, th)
    | some (sh', th', _) => soloRun n sh' th'

theorem set_same {α : Type} : ∀ {l : List α} {i : Nat} {a : α}, l[i]? = some a → l.set i a = l
  | [], _, _, h => by simp at h
  | x :: l, 0, a, h => by simp at h; subst h; rfl
  | x :: l, i+1, a, h => by simp at h; simp [set_same h]

theorem run_solo (n : Nat) : ∀ (sh : Shared) (l : List Thread) (t : ThreadId) (th : Thread), l[t]? = some th →
    run ⟨sh, l⟩ (List.replicate n t) = ⟨(soloRun n sh th).1, l.set t (soloRun n sh th).2⟩ := by
  induction n with
  | zero => intro sh l t th h; simp [soloRun, run_nil, set_same h]
  | succ n ih =>
    intro sh l t th h
    rw [List.replicate_succ, run_cons]
    cases hl : localStep sh th with
    | none =>
      have hn : stepEv ⟨sh, l⟩ t = none := by simp [stepEv, h, hl]
      rw [next_of_none hn, ih sh l t th h]
      -- further turns change nothing either
      have : ∀ m, soloRun m sh th = (sh, th) := by
        intro m; cases m <;> simp [soloRun, hl]
      rw [this n, this (n+1)]
    | some p =>
      obtain ⟨sh', th', a⟩ := p
      have hs : stepEv ⟨sh, l⟩ t = some (⟨sh', l.set t th'⟩, ⟨t, a⟩) := by simp [stepEv, h, hl]
      rw [next_of_some hs, ih sh' (l.set t th') t th' (getElem?_set_self_of th' h)]
      simp [soloRun, hl, List.set_set]

/-- between the calls of a sequential execution: nobody is inside a call, the `out` mutex is free -/
def Idle (sh : Shared) (closed : Bool) : Prop := sh.activeCall = (if closed then closedBit else 0) ∧ sh.outHeld = false

/-- result of a call made on an idle connection -/
def verdict (closed : Bool) : Outcome := if closed then .errClosed else .ok
def finished : Kind → Outcome → Thread
  | .writer, o => .writer (.done o)
  | .closer, o => .closer (.done o)

/-- one whole call on an idle connection (the sequential semantics): a Write or Close on a closed connection
    returns errClosed and changes nothing; on an open one it succeeds, and Close sets the closed bit -/
theorem solo_call (sh : Shared) (c : Bool) (k : Kind) (hI : Idle sh c) :
    (soloRun soloSteps sh (Thread.start k)).2 = finished k (verdict c) ∧
    Idle (soloRun soloSteps sh (Thread.start k)).1 (c || k == .closer) := by
  obtain ⟨sh_ac, sh_held, sh_cu, sh_cc, sh_cn, sh_rw, sh_bw, sh_sw⟩ := sh
  obtain ⟨h1, h2⟩ := hI
  simp only at h1 h2
  subst h1 h2
  rcases sh_cn with _ | m <;> cases sh_cu <;> cases c <;> cases k <;> simp [soloSteps, soloRun, localStep, Thread.start, isClosed, closedMask, closedBit, addWriter,
    writeInc, subWriter, releaseDec, setClosed, writesInFlight, finished, verdict, Idle]

theorem seqSchedule_nil : seqSchedule [] = [] := rfl
theorem seqSchedule_cons (t : ThreadId) (L : List ThreadId) :
    seqSchedule (t :: L) = List.replicate soloSteps t ++ seqSchedule L := by simp [seqSchedule]
theorem seqSchedule_append (A B : List ThreadId) : seqSchedule (A ++ B) = seqSchedule A ++ seqSchedule B := by
  simp [seqSchedule]

/-- one whole call of goroutine `t`, run alone on an idle connection -/
theorem block_run (s : State) (c : Bool) (hI : Idle s.toShared c) (t : ThreadId) (k : Kind)
    (ht : s.threads[t]? = some (Thread.start k)) :
    ∃ sh', run s (List.replicate soloSteps t) = ⟨sh', s.threads.set t (finished k (verdict c))⟩ ∧
      Idle sh' (c || k == .closer) := by
  have h := run_solo soloSteps s.toShared s.threads t _ ht
  have ⟨h1, h2⟩ := solo_call s.toShared c k hI
  exact ⟨_, by rw [← h1]; exact h, h2⟩

/-- a run of whole calls, one after the other, none of which changes the closed bit (Writes on an open
    connection, or any calls on a closed one) -/
theorem seq_phase (tgt : List Thread) (c : Bool) : ∀ (L : List ThreadId) (s : State), Idle s.toShared c → L.Nodup →
    (∀ t ∈ L, ∃ k, s.threads[t]? = some (Thread.start k) ∧ tgt[t]? = some (finished k (verdict c)) ∧
      (c = false → k = .writer)) →
    Idle (run s (seqSchedule L)).toShared c ∧ (∀ t ∈ L, (run s (seqSchedule L)).threads[t]? = tgt[t]?) ∧
      (∀ i, i ∉ L → (run s (seqSchedule L)).threads[i]? = s.threads[i]?) := by
  intro L
  induction L with
  | nil => intro s hI _ _; exact ⟨hI, by simp, fun _ _ => rfl⟩
  | cons t L ih =>
    intro s hI hnd hL
    obtain ⟨htL, hndL⟩ := List.nodup_cons.1 hnd
    obtain ⟨k, hk1, hk2, hk3⟩ := hL t (by simp)
    obtain ⟨sh', hrun, hidle⟩ := block_run s c hI t k hk1
    have hc : (c || k == Kind.closer) = c := by
      cases c with
      | true => rfl
      | false => rw [hk3 rfl]; rfl
    rw [hc] at hidle
    rw [seqSchedule_cons, run_append, hrun]
    have hfresh : ∀ t' ∈ L, ∃ k', (s.threads.set t (finished k (verdict c)))[t']? = some (Thread.start k') ∧
        tgt[t']? = some (finished k' (verdict c)) ∧ (c = false → k' = .writer) := by
      intro t' ht'
      obtain ⟨k', h1, h2, h3⟩ := hL t' (by simp [ht'])
      have hne : t ≠ t' := fun h => htL (h ▸ ht')
      exact ⟨k', by rw [List.getElem?_set_ne hne]; exact h1, h2, h3⟩
    obtain ⟨i1, i2, i3⟩ := ih ⟨sh', s.threads.set t (finished k (verdict c))⟩ hidle hndL hfresh
    refine ⟨i1, ?_, ?_⟩
    · intro t' ht'
      rcases List.mem_cons.1 ht' with rfl | ht'
      · rw [i3 t' htL, hk2]; exact getElem?_set_self_of _ hk1
      · exact i2 t' ht'
    · intro i hi
      have h1 : i ∉ L := fun h => hi (by simp [h])
      have h2 : t ≠ i := fun h => hi (by simp [h])
      rw [i3 i h1]; exact List.getElem?_set_ne h2

theorem done_cases {g : Thread} (hd : g.isDone = true) :
    g = .writer (.done .ok) ∨ g = .closer (.done .ok) ∨ ∃ k, g = finished k .errClosed := by
  rcases g with pc | pc <;> cases pc <;> simp [Thread.isDone, Thread.outcome] at hd
  · rename_i o; cases o
    · exact Or.inl rfl
    · exact Or.inr (Or.inr ⟨.writer, rfl⟩)
  · rename_i o; cases o
    · exact Or.inr (Or.inl rfl)
    · exact Or.inr (Or.inr ⟨.closer, rfl⟩)

theorem start_kind (k : Kind) : (Thread.start k).kind = k := by cases k <;> rfl
theorem finished_kind (k : Kind) (o : Outcome) : (finished k o).kind = k := by cases k <;> rfl

/-- every goroutine of an execution started as a fresh call of its kind -/
theorem init_getElem? (kinds : List Kind) (sched : List ThreadId) {i : Nat} {g : Thread}
    (h : (run (initOf kinds) sched).threads[i]? = some g) : (initOf kinds).threads[i]? = some (Thread.start g.kind) := by
  have hk := run_kinds (initOf kinds) sched
  have h0 : (initOf kinds).threads.map Thread.kind = kinds := by
    simp only [initOf, List.map_map]
    have : Thread.kind ∘ Thread.start = id := by funext k; exact start_kind k
    rw [this, List.map_id]
  rw [h0] at hk
  have h1 : kinds[i]? = some g.kind := by
    rw [← hk, List.getElem?_map, h]; rfl
  simp only [initOf, List.getElem?_map, h1]; rfl

/-- if some finished call returned errClosed, some Close has finished successfully or is on its way -/
theorem winner_of_errClosed {s : State} (hI : Inv s) {i : Nat} {k : Kind} (h : s.threads[i]? = some (finished k .errClosed)) :
    ∃ (c : Nat) (a : Thread), s.threads[c]? = some a ∧ 0 < wonClose a := by
  have h1 := le_sumBy doneErr (List.mem_of_getElem? h)
  have h2 : doneErr (finished k .errClosed) = 1 := by cases k <;> rfl
  have h3 := hI.errClosed
  have h4 := hI.counter
  simp only [writeInc, closedBit] at h4
  apply exists_of_sumBy_pos wonClose
  omega

theorem won_done {a : Thread} (hw : 0 < wonClose a) (hd : a.isDone = true) : a = .closer (.done .ok) := by
  rcases done_cases hd with rfl | rfl | ⟨k, rfl⟩
  · simp [wonClose] at hw
  · rfl
  · cases k <;> simp [wonClose, finished] at hw

/-- T6 `linearizable_outcomes`: take any complete execution (every call has returned) of any mix of Writes and
    Closes under any schedule.  There is a sequential order of the same goroutines — all the Writes that got
    through, then the Close that won (if any), then everybody else — such that running the calls one after
    the other in that order (`seqSchedule`: each goroutine runs to completion before the next one starts)
    gives every goroutine exactly the result it got in the concurrent execution. -/
theorem linearizable_outcomes (kinds : List Kind) (sched : List ThreadId)
    (hdone : (run (initOf kinds) sched).allDone = true) :
    ∃ okWriters winner rest : List ThreadId,
      (okWriters ++ winner ++ rest).Perm (List.range kinds.length) ∧ winner.length ≤ 1 ∧
      (∀ t ∈ okWriters, (run (initOf kinds) sched).threads[t]? = some (.writer (.done .ok))) ∧
      (∀ t ∈ winner, (run (initOf kinds) sched).threads[t]? = some (.closer (.done .ok))) ∧
      (∀ t ∈ rest, ∃ k, (run (initOf kinds) sched).threads[t]? = some (finished k .errClosed)) ∧
      (run (initOf kinds) (seqSchedule (okWriters ++ winner ++ rest))).threads =
        (run (initOf kinds) sched).threads := by
  have hR : Reachable (run (initOf kinds) sched) := ⟨kinds, sched, rfl⟩
  have hI := hR.inv
  have hstart : ∀ (i : Nat) (g : Thread), (run (initOf kinds) sched).threads[i]? = some g →
      (initOf kinds).threads[i]? = some (Thread.start g.kind) := fun i g h => init_getElem? kinds sched h
  have hlen : (run (initOf kinds) sched).threads.length = kinds.length := by rw [run_length]; simp [initOf]
  have hd : ∀ (i : Nat) (g : Thread), (run (initOf kinds) sched).threads[i]? = some g → g.isDone = true := by
    intro i g h
    simp only [State.allDone, List.all_eq_true] at hdone
    exact hdone g (List.mem_of_getElem? h)
  have hidle0 : Idle (initOf kinds).toShared false := ⟨rfl, rfl⟩
  generalize hF : run (initOf kinds) sched = F at hR hI hstart hlen hd
  have hget : ∀ i, i < kinds.length → ∃ g, F.threads[i]? = some g := by
    intro i hi
    exact ⟨F.threads[i]'(by omega), List.getElem?_eq_getElem (by omega)⟩
  have hext : ∀ s : State, s.threads.length = kinds.length →
      (∀ i, i < kinds.length → s.threads[i]? = F.threads[i]?) → s.threads = F.threads := by
    intro s hl h
    apply List.ext_getElem?
    intro i
    by_cases hi : i < kinds.length
    · exact h i hi
    · rw [List.getElem?_eq_none (by omega), List.getElem?_eq_none (by omega)]
  by_cases hwin : ∃ c : Nat, F.threads[c]? = some (Thread.closer (.done .ok))
  · -- a Close won
    obtain ⟨c, hc⟩ := hwin
    have hcn : c < kinds.length := by
      have := (List.getElem?_eq_some_iff.1 hc).1; omega
    let p : Nat → Bool := fun i => decide (F.threads[i]? = some (Thread.writer (.done .ok)))
    have hpc : p c = false := by simp [p, hc]
    have hc_notA : c ∈ (List.range kinds.length).filter (fun i => !p i) := by
      simp [List.mem_filter, hcn, hpc]
    have hperm0 : ((List.range kinds.length).filter p ++
        (c :: ((List.range kinds.length).filter (fun i => !p i)).erase c)).Perm (List.range kinds.length) :=
      (List.Perm.append_left _ (List.perm_cons_erase hc_notA).symm).trans (List.filter_append_perm p _)
    have hnd := hperm0.nodup_iff.2 List.nodup_range
    obtain ⟨hndA, hndcC, hdisj⟩ := List.nodup_append.1 hnd
    obtain ⟨hcC, hndC⟩ := List.nodup_cons.1 hndcC
    have hA : ∀ t ∈ (List.range kinds.length).filter p, F.threads[t]? = some (Thread.writer (.done .ok)) := by
      intro t ht
      exact of_decide_eq_true (List.mem_filter.1 ht).2
    have hcA : c ∉ (List.range kinds.length).filter p := fun h => by
      have := hA c h; rw [hc] at this; simp at this
    -- phase A: the Writes that got through
    obtain ⟨a1, a2, a3⟩ := seq_phase F.threads false _ (initOf kinds) hidle0 hndA
      (fun t ht => ⟨.writer, hstart t _ (hA t ht), hA t ht, fun _ => rfl⟩)
    -- the winning Close
    have hc1 : (run (initOf kinds) (seqSchedule ((List.range kinds.length).filter p))).threads[c]? =
        some (Thread.start .closer) := by rw [a3 c hcA]; exact hstart c _ hc
    obtain ⟨sh2, hrun2, hidle2⟩ := block_run _ false a1 c .closer hc1
    have htrue : (false || Kind.closer == Kind.closer) = true := by decide
    rw [htrue] at hidle2
    -- everybody else
    have hC : ∀ t ∈ ((List.range kinds.length).filter (fun i => !p i)).erase c,
        ∃ k, F.threads[t]? = some (finished k .errClosed) ∧ t ≠ c ∧ t ∉ (List.range kinds.length).filter p := by
      intro t ht
      have hne : t ≠ c := fun h => hcC (h ▸ ht)
      have hm := List.mem_filter.1 (List.mem_of_mem_erase ht)
      have htn : t < kinds.length := List.mem_range.1 hm.1
      have hpt : p t = false := by simpa using hm.2
      have htA : t ∉ (List.range kinds.length).filter p := fun h => by
        have := (List.mem_filter.1 h).2; rw [hpt] at this; simp at this
      obtain ⟨g, hg⟩ := hget t htn
      rcases done_cases (hd t g hg) with rfl | rfl | ⟨k, rfl⟩
      · simp [p, hg] at hpt
      · exact absurd (winner_unique hR hg hc rfl rfl) hne
      · exact ⟨k, hg, hne, htA⟩
    obtain ⟨c1, c2, c3⟩ := seq_phase F.threads true _ ⟨sh2, (run (initOf kinds) (seqSchedule ((List.range kinds.length).filter p))).threads.set c
        (finished .closer (verdict false))⟩ hidle2 hndC (by
      intro t ht
      obtain ⟨k, hg, hne, htA⟩ := hC t ht
      refine ⟨k, ?_, hg, fun h => absurd h (by decide)⟩
      dsimp only
      rw [List.getElem?_set_ne (Ne.symm hne), a3 t htA]
      have := hstart t _ hg
      rw [finished_kind] at this
      exact this)
    refine ⟨_, [c], _, ?_, by simp, hA, ?_, fun t ht => (hC t ht).imp (fun k h => h.1), ?_⟩
    · simpa using hperm0
    · intro t ht; simp at ht; subst ht; exact hc
    · rw [seqSchedule_append, seqSchedule_append, run_append, run_append, seqSchedule_cons, seqSchedule_nil,
        List.append_nil, hrun2]
      apply hext
      · rw [run_length]
        dsimp only
        rw [List.length_set, run_length]; simp [initOf]
      · intro i hi
        have hmem : i ∈ (List.range kinds.length).filter p ++
            (c :: ((List.range kinds.length).filter (fun i => !p i)).erase c) :=
          hperm0.mem_iff.2 (List.mem_range.2 hi)
        rcases List.mem_append.1 hmem with hiA | hiC
        · have h1 : i ∉ ((List.range kinds.length).filter (fun i => !p i)).erase c :=
            fun h => hdisj i hiA i (by simp [h]) rfl
          have h2 : c ≠ i := fun h => hcA (h ▸ hiA)
          rw [c3 i h1]
          dsimp only
          rw [List.getElem?_set_ne h2]; exact a2 i hiA
        · rcases List.mem_cons.1 hiC with rfl | hiC
          · rw [c3 i hcC]
            dsimp only
            rw [getElem?_set_self_of _ hc1, hc]; rfl
          · exact c2 i hiC
  · -- no Close won: every call is a Write that got through
    have hall : ∀ t ∈ List.range kinds.length, F.threads[t]? = some (Thread.writer (.done .ok)) := by
      intro t ht
      obtain ⟨g, hg⟩ := hget t (List.mem_range.1 ht)
      rcases done_cases (hd t g hg) with rfl | rfl | ⟨k, rfl⟩
      · exact hg
      · exact absurd ⟨t, hg⟩ hwin
      · obtain ⟨c, a, hca, hw⟩ := winner_of_errClosed hI hg
        exact absurd ⟨c, (won_done hw (hd c a hca)) ▸ hca⟩ hwin
    obtain ⟨a1, a2, a3⟩ := seq_phase F.threads false _ (initOf kinds) hidle0 List.nodup_range
      (fun t ht => ⟨.writer, hstart t _ (hall t ht), hall t ht, fun _ => rfl⟩)
    refine ⟨List.range kinds.length, [], [], by simp, by simp, hall, by simp, by simp, ?_⟩
    simp only [List.append_nil]
    apply hext
    · rw [run_length]; simp [initOf]
    · intro i hi; exact a2 i (List.mem_range.2 hi)

/-- the same, as a statement about the per-goroutine results only -/
theorem linearizable_outcomes_perm (kinds : List Kind) (sched : List ThreadId)
    (hdone : (run (initOf kinds) sched).allDone = true) :
    ∃ order : List ThreadId, order.Perm (List.range kinds.length) ∧
      (run (initOf kinds) (seqSchedule order)).outcomes = (run (initOf kinds) sched).outcomes := by
  obtain ⟨a, w, r, h1, -, -, -, -, h2⟩ := linearizable_outcomes kinds sched hdone
  exact ⟨_, h1, by simp only [State.outcomes, h2]⟩

/-! ## the constants are those of the source -/

/-- the model's constants are the ones the fact extractor reads out of conn.go (`Gen.Conn`, regenerated by every
    check): `x+2`, `x|1`, `Add(-2)`, `x&1` -/
theorem constants_pinned :
    writeInc = Gen.Conn.writeInc ∧ closedBit = Gen.Conn.closedBit ∧ releaseDec = Gen.Conn.releaseDec ∧
    closedMask = Gen.Conn.writeMask ∧ closedMask = Gen.Conn.closeMask := by decide

/-- what the proofs need of the constants: the mask tests the bit Close sets, that bit is below the Write
    increment, and the release undoes exactly one increment -/
theorem constants_coherent : closedMask = closedBit ∧ closedBit < writeInc ∧ releaseDec = writeInc ∧ writeInc % 2 = 0 := by
  decide

/-! ## non-vacuity: concrete executions (2 Writes = goroutines 0,1; 2 Closes = goroutines 2,3) -/

set_option maxRecDepth 8192

/-- Write 0 gets through, Close 2 wins while Write 0 is in flight (x = 2, so no close_notify), Write 0 completes,
    the connection is closed; Write 1 and Close 3 come later and get errClosed -/
def schedLoud : List ThreadId := [0,0,0, 2,2,2,2, 0,0,0,0, 2, 1,1, 3,3]

example : (run (init 2 2) schedLoud).outcomes = [some .ok, some .errClosed, some .ok, some .errClosed] := by decide
example : (run (init 2 2) schedLoud).closeNotifySent = 0 ∧ (run (init 2 2) schedLoud).recordsWritten = 1 ∧
    (run (init 2 2) schedLoud).connCloses = 1 ∧ (run (init 2 2) schedLoud).activeCall = 1 := by decide
/-- in the middle of it: one Write in flight and the closed bit set: activeCall = 2·1 + 1 -/
example : (run (init 2 2) (schedLoud.take 6)).activeCall = 3 ∧ writersInFlight (run (init 2 2) (schedLoud.take 6)) = 1 ∧
    closeWon (run (init 2 2) (schedLoud.take 6)) = 1 := by decide
/-- the sequential order Write 0, Close 2, Write 1, Close 3 gives the same results -/
example : (run (init 2 2) (seqSchedule [0, 2, 1, 3])).outcomes = (run (init 2 2) schedLoud).outcomes := by decide
/-- but sequentially the Close is quiet and does send close_notify -/
example : (run (init 2 2) (seqSchedule [0, 2, 1, 3])).closeNotifySent = 1 := by decide

/-- both Writes in flight at once (activeCall = 4), both finish, then Close 3 wins quietly and sends close_notify;
    Close 2 gets errClosed -/
def schedQuiet : List ThreadId := [0,0,0, 1,1,1, 0,0,0, 1, 1,1,1, 0, 3,3,3,3,3,3,3,3, 2,2]

example : (run (init 2 2) (schedQuiet.take 6)).activeCall = 4 := by decide
/-- Write 1 waits for the `out` mutex held by Write 0: its turn is lost -/
example : step (run (init 2 2) (schedQuiet.take 8)) 1 = none ∧ (run (init 2 2) (schedQuiet.take 8)).outHeld = true := by
  decide
example : (run (init 2 2) schedQuiet).outcomes = [some .ok, some .ok, some .errClosed, some .ok] ∧
    (run (init 2 2) schedQuiet).closeNotifySent = 1 ∧ (run (init 2 2) schedQuiet).recordsWritten = 2 ∧
    (run (init 2 2) schedQuiet).allDone = true := by decide

/-- a failed CAS: Write 0 and Close 2 both load 0; Close 2's CAS wins; Write 0's CAS(0, 2) fails, it reloads,
    sees the closed bit and returns errClosed.  Close 3 loaded 0 as well: its CAS fails too, then errClosed. -/
def schedRace : List ThreadId := [0,0, 3,3, 2,2,2, 0, 0,0, 3, 3,3, 2,2,2,2,2, 1,1]

example : (trace (init 2 2) schedRace).countP (fun e => isCasFail e.act) = 2 ∧
    (trace (init 2 2) schedRace).countP (fun e => isCCasOk e.act) = 1 := by decide
example : (run (init 2 2) schedRace).outcomes = [some .errClosed, some .errClosed, some .ok, some .errClosed] ∧
    (run (init 2 2) schedRace).closeNotifySent = 1 := by decide

/-- a Write that was in flight when Close tore the connection down finds the underlying connection closed
    (its record is not written): the interlock lets this happen by design ("Close is really just being used
    to break the Write") -/
def schedBroken : List ThreadId := [0,0,0, 2,2,2,2,2, 0,0,0,0]

example : (run (init 2 2) schedBroken).brokenWrites = 1 ∧ (run (init 2 2) schedBroken).recordsWritten = 0 ∧
    (run (init 2 2) schedBroken).closeNotifySent = 0 ∧
    (run (init 2 2) schedBroken).outcomes = [some .ok, none, some .ok, none] := by decide

/-- the hypotheses of `linearizable_outcomes` and `progress` are satisfiable: 16 round-robin rounds finish
    2 + 2 goroutines -/
example : (run (init 2 2) (List.replicate 16 [0, 1, 2, 3]).flatten).allDone = true := by decide
end Props.C20Interlock
