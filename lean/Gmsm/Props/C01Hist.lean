/-
C01, history independence (round 12).

The expected line of the correspondence op `sm2hist` is `Model.Hist.run step steps`: these theorems say what that
means - the answer to a call is the answer to that call alone, wherever it stands in a history - and why histories
over NEAR-EQUAL inputs are the right probe: a one-entry memo in front of a function is invisible exactly when its key
separates the inputs that the function separates; otherwise the two-call history `[a, b]` with `key a = key b`,
`f a ≠ f b` answers differently from `run` (the seeded change C01-m15: ZA memoised under (public key, first 16 bytes
of the ID, length of the ID)).
-/
import Gmsm.Model.Hist
namespace Gmsm.Props.C01Hist
open Gmsm.Model.Hist

/-- as many answers as calls -/
theorem run_length {σ ρ : Type} (f : σ → ρ) (steps : List σ) : (run f steps).length = steps.length := by
  simp [run]

/-- histories compose: the answers to `a ++ b` are the answers to `a` followed by the answers to `b` alone -/
theorem run_append {σ ρ : Type} (f : σ → ρ) (a b : List σ) : run f (a ++ b) = run f a ++ run f b := by
  simp [run]

/-- the answer to a call does not depend on the calls before it nor on those after it -/
theorem run_step_independent {σ ρ : Type} (f : σ → ρ) (pre post : List σ) (s : σ) :
    (run f (pre ++ s :: post))[pre.length]? = some (f s) := by
  simp [run]

/-- the same call made twice in one history - in whatever surroundings - is answered the same -/
theorem run_same_call_same_answer {σ ρ : Type} (f : σ → ρ) (a b c : List σ) (s : σ) :
    (run f (a ++ s :: b ++ s :: c))[a.length]? = (run f (a ++ s :: b ++ s :: c))[a.length + 1 + b.length]? := by
  have h1 : (run f (a ++ s :: (b ++ s :: c)))[a.length]? = some (f s) := run_step_independent f a (b ++ s :: c) s
  have h2 : (run f ((a ++ s :: b) ++ s :: c))[(a ++ s :: b).length]? = some (f s) :=
    run_step_independent f (a ++ s :: b) c s
  have e1 : a ++ s :: b ++ s :: c = a ++ s :: (b ++ s :: c) := by simp
  have e2 : a ++ s :: b ++ s :: c = (a ++ s :: b) ++ s :: c := by simp
  have e3 : (a ++ s :: b).length = a.length + 1 + b.length := by simp; omega
  rw [e1, h1, ← e1, e2, ← e3, h2]

theorem memoStep_consistent {σ ρ κ : Type} [DecidableEq κ] (key : σ → κ) (f : σ → ρ) (c : Option (κ × ρ)) (s : σ)
    (hc : Consistent key f c) : Consistent key f (memoStep key f c s).1 := by
  unfold memoStep
  cases c with
  | none => exact Or.inr ⟨s, rfl⟩
  | some kv =>
    obtain ⟨k, v⟩ := kv
    by_cases h : key s = k
    · simp [h]; exact hc
    · simp [h]; exact Or.inr ⟨s, rfl⟩

/-- a memo whose key separates the inputs that `f` separates answers every call as `f` does -/
theorem memoStep_answer {σ ρ κ : Type} [DecidableEq κ] (key : σ → κ) (f : σ → ρ)
    (hsep : ∀ a b, key a = key b → f a = f b) (c : Option (κ × ρ)) (s : σ) (hc : Consistent key f c) :
    (memoStep key f c s).2 = f s := by
  unfold memoStep
  cases c with
  | none => rfl
  | some kv =>
    obtain ⟨k, v⟩ := kv
    by_cases h : key s = k
    · simp [h]
      rcases hc with hc | ⟨s0, hs0⟩
      · cases hc
      · have hk : k = key s0 := by injection hs0 with h1; injection h1
        have hv : v = f s0 := by injection hs0 with h1; injection h1
        rw [hv]; exact (hsep s s0 (by rw [h, hk])).symm
    · simp [h]

/-- TRANSPARENCY: with a separating key (in particular an injective one) and a consistent starting state, every
    history through the memo is answered exactly as without it -/
theorem memo_transparent {σ ρ κ : Type} [DecidableEq κ] (key : σ → κ) (f : σ → ρ)
    (hsep : ∀ a b, key a = key b → f a = f b) (steps : List σ) :
    ∀ c, Consistent key f c → memoRun key f c steps = run f steps := by
  induction steps with
  | nil => intro c _; rfl
  | cons s rest ih =>
    intro c hc
    have h1 := memoStep_answer key f hsep c s hc
    have h2 := ih _ (memoStep_consistent key f c s hc)
    simp only [memoRun, run, List.map_cons] at *
    rw [h1, h2]

/-- an injective memo key is separating -/
theorem memo_transparent_of_injective {σ ρ κ : Type} [DecidableEq κ] (key : σ → κ) (f : σ → ρ)
    (hinj : ∀ a b, key a = key b → a = b) (steps : List σ) :
    memoRun key f none steps = run f steps :=
  memo_transparent key f (fun a b h => by rw [hinj a b h]) steps none (Or.inl rfl)

/-- EXPOSURE: if two inputs share the memo key although `f` tells them apart, the history "a, then b" is answered
    differently from `run` - whatever the cache held before.  So a correspondence over two-call histories of
    near-equal inputs detects every too-coarse one-entry memo for which the generator reaches such a pair. -/
theorem memo_exposed_by_pair {σ ρ κ : Type} [DecidableEq κ] (key : σ → κ) (f : σ → ρ) (a b : σ)
    (hk : key a = key b) (hf : f a ≠ f b) (c : Option (κ × ρ)) :
    memoRun key f c [a, b] ≠ run f [a, b] := by
  intro h
  simp only [memoRun, run, List.map_cons, List.map_nil] at h
  injection h with h1 h2
  injection h2 with h2 _
  -- after the first call the cache holds (key a, first answer); the second call hits it
  have hstate : (memoStep key f c a).1 = some (key a, (memoStep key f c a).2) := by
    unfold memoStep
    cases c with
    | none => rfl
    | some kv =>
      obtain ⟨k, v⟩ := kv
      by_cases hh : key a = k
      · simp [hh]
      · simp [hh]
  have hsecond : (memoStep key f (memoStep key f c a).1 b).2 = (memoStep key f c a).2 := by
    rw [hstate]
    simp [memoStep, hk]
  rw [hsecond, h1] at h2
  exact hf h2

/-- non-vacuity: a memo keyed on the first component only, in front of the identity on pairs -/
example : memoRun (fun p : Nat × Nat => p.1) id none [(1, 2), (1, 3)] = [(1, 2), (1, 2)] := by decide
example : run (id : Nat × Nat → Nat × Nat) [(1, 2), (1, 3)] = [(1, 2), (1, 3)] := by decide

end Gmsm.Props.C01Hist
