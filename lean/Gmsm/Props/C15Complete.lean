/-
C15 / C06 — the converse of `Props.C15.done_only_expected`: the message-acceptance automaton `Model.Handshake`
ACCEPTS everything it should.

  A  every flight of `expected c` is accepted (`expected_accepted`), so on sequences without tolerated events
     "accepted" and "listed in `expected c`" are the same thing (`accepts_iff_expected`);
  B  the accepted language, exactly (`accepts_iff`): a flight of `expected c` with, in front of each message, a
     stretch of tolerated events that keeps within the limits `gapOk` spells out — and nothing else;
  C  what an honest endpoint writes (`Model.Handshake.sends`) is accepted by the honest other end of the same
     connection, in both directions, for every correctly configured pair (`honest_pair_completes`,
     `honest_pair_both_done`), and the one excluded combination really fails (`gm_ocsp_not_accepted`);
  D  the accepted language is exactly `expected c` up to tolerated events, it contains the honest flight, and
     every member is the flight of some honest server / the honest client (`no_other_completion`,
     `server_expected_is_honest`, `client_expected_all_honest`, `gmClient_expected`).

All statements are for ALL configurations `c : Cfg`, every event sequence and every state where one appears.
-/
import Gmsm.Props.C15
import Gmsm.Model.HandshakeSends
namespace Props.C15Complete
open Model.Handshake Props.C15

-- `suffixes` read backwards -------------------------------------------------------------------------------------

theorem mem_pre (a m : Msg) (r : List Msg) (l : List (List Msg)) : a :: r ∈ pre m l ↔ a = m ∧ r ∈ l := by
  simp only [pre, List.mem_map, List.cons.injEq]
  constructor
  · rintro ⟨x, hx, rfl, rfl⟩; exact ⟨rfl, hx⟩
  · rintro ⟨rfl, hr⟩; exact ⟨r, hr, rfl, rfl⟩

theorem suffixes_afterHelloDone (c : Cfg) : suffixes c (afterHelloDone c) = cPostL c := by
  simp only [afterHelloDone, cPostL]; split <;> rfl

theorem nil_not_mem_suffixes (c : Cfg) (p : Phase) : [] ∉ suffixes c p := by
  cases p <;>
    simp [suffixes, sHelloL, sCertL, sKeyExchangeL, sCertVerifyL, sCCSL, sNextProtoL, sFinishedL, cHelloL, cCertL,
      cSKXL, cAfterCertL, cAfterStatusL, cAfterSKXL, cDoneNoSKXL, cHelloDoneL, cPostL, cTicketL, cCCSL, cFinishedL, pre] <;>
    (repeat' split) <;> simp

theorem mem_cAfterStatusL (c : Cfg) (m : Msg) (r : List Msg) (h : m :: r ∈ cAfterStatusL c) :
    (c.skx = true ∧ m = .serverKeyExchange ∧ r ∈ cAfterSKXL c) ∨
    (c.skx = false ∧ m = .certificateRequest ∧ r ∈ pre .serverHelloDone (cPostL c)) ∨
    (c.skx = false ∧ m = .serverHelloDone ∧ r ∈ cPostL c) := by
  simp only [cAfterStatusL, cDoneNoSKXL] at h
  cases hk : c.skx <;>
    simp only [hk, if_true, if_false, Bool.false_eq_true, List.not_mem_nil, List.mem_append, mem_pre,
      false_or, or_false, and_false] at h
  · rcases h with ⟨rfl, h⟩ | ⟨rfl, h⟩
    · exact Or.inr (Or.inl ⟨rfl, rfl, h⟩)
    · exact Or.inr (Or.inr ⟨rfl, rfl, h⟩)
  · obtain ⟨rfl, h⟩ := h
    exact Or.inl ⟨rfl, rfl, h⟩

theorem suffix_next_afterStatus (c : Cfg) (m : Msg) (r : List Msg) (h : m :: r ∈ cAfterStatusL c) :
    ∃ p', next c .cAfterStatus m = some (some p') ∧ next c .cAfterCert m = some (some p') ∧ r ∈ suffixes c p' := by
  rcases mem_cAfterStatusL c m r h with ⟨hk, rfl, h1⟩ | ⟨hk, rfl, h1⟩ | ⟨hk, rfl, h1⟩
  · exact ⟨.cAfterSKX, by simp [next, hk], by simp [next, hk], h1⟩
  · refine ⟨.cDoneNoSKX, rfl, rfl, ?_⟩
    simp only [suffixes, cDoneNoSKXL, hk]; exact h1
  · refine ⟨afterHelloDone c, by simp [next, hk], by simp [next, hk], ?_⟩
    rw [suffixes_afterHelloDone]; exact h1

/-- Converse of `next_suffix` / `next_last`: the first message of a listed suffix is one the phase accepts
    (`next`), and what follows it is a listed suffix of the phase it leads to. -/
theorem suffix_next (c : Cfg) (p : Phase) (m : Msg) (r : List Msg) (h : m :: r ∈ suffixes c p) :
    (r = [] ∧ next c p m = some none) ∨ (∃ p', next c p m = some (some p') ∧ r ∈ suffixes c p') := by
  cases p <;> simp only [suffixes] at h
  case sFinished => simp [sFinishedL] at h; obtain ⟨rfl, rfl⟩ := h; exact Or.inl ⟨rfl, rfl⟩
  case cFinished => simp [cFinishedL] at h; obtain ⟨rfl, rfl⟩ := h; exact Or.inl ⟨rfl, rfl⟩
  case sHello =>
    simp only [sHelloL, mem_pre] at h; obtain ⟨rfl, h⟩ := h
    refine Or.inr ⟨_, rfl, ?_⟩
    simp only [suffixes_ite]; simp only [suffixes]; exact h
  case sCert =>
    simp only [sCertL, mem_pre] at h; obtain ⟨rfl, h⟩ := h
    exact Or.inr ⟨_, rfl, h⟩
  case sKeyExchange =>
    simp only [sKeyExchangeL, mem_pre] at h; obtain ⟨rfl, h⟩ := h
    refine Or.inr ⟨_, rfl, ?_⟩
    simp only [suffixes_ite]; simp only [suffixes]; exact h
  case sCertVerify =>
    simp only [sCertVerifyL, mem_pre] at h; obtain ⟨rfl, h⟩ := h
    exact Or.inr ⟨_, rfl, h⟩
  case sCCS =>
    simp only [sCCSL, mem_pre] at h; obtain ⟨rfl, h⟩ := h
    refine Or.inr ⟨_, rfl, ?_⟩
    simp only [suffixes_ite]; simp only [suffixes]; exact h
  case sNextProto =>
    simp only [sNextProtoL, mem_pre] at h; obtain ⟨rfl, h⟩ := h
    exact Or.inr ⟨_, rfl, h⟩
  case cHello =>
    simp only [cHelloL, mem_pre] at h; obtain ⟨rfl, h⟩ := h
    refine Or.inr ⟨_, rfl, ?_⟩
    simp only [suffixes_ite, suffixes_afterHelloDone]; simp only [suffixes]; exact h
  case cCert =>
    simp only [cCertL, mem_pre] at h; obtain ⟨rfl, h⟩ := h
    refine Or.inr ⟨_, rfl, ?_⟩
    simp only [suffixes_ite]; simp only [suffixes]; exact h
  case cSKX =>
    simp only [cSKXL, mem_pre] at h; obtain ⟨rfl, h⟩ := h
    exact Or.inr ⟨_, rfl, h⟩
  case cTicket =>
    simp only [cTicketL, mem_pre] at h; obtain ⟨rfl, h⟩ := h
    exact Or.inr ⟨_, rfl, h⟩
  case cCCS =>
    simp only [cCCSL, mem_pre] at h; obtain ⟨rfl, h⟩ := h
    exact Or.inr ⟨_, rfl, h⟩
  case cHelloDone =>
    simp only [cHelloDoneL, mem_pre] at h; obtain ⟨rfl, h⟩ := h
    refine Or.inr ⟨_, rfl, ?_⟩
    rw [suffixes_afterHelloDone]; exact h
  case cAfterSKX =>
    simp only [cAfterSKXL, List.mem_append, mem_pre] at h
    rcases h with ⟨rfl, h⟩ | ⟨rfl, h⟩
    · exact Or.inr ⟨_, rfl, h⟩
    · refine Or.inr ⟨_, rfl, ?_⟩
      rw [suffixes_afterHelloDone]; exact h
  case cDoneNoSKX =>
    simp only [cDoneNoSKXL] at h
    cases hk : c.skx <;> simp only [hk, if_true, if_false, Bool.false_eq_true, List.not_mem_nil, mem_pre] at h
    obtain ⟨rfl, h⟩ := h
    refine Or.inr ⟨afterHelloDone c, by simp [next, hk], ?_⟩
    rw [suffixes_afterHelloDone]; exact h
  case cAfterStatus =>
    obtain ⟨p', h1, _, h3⟩ := suffix_next_afterStatus c m r h
    exact Or.inr ⟨p', h1, h3⟩
  case cAfterCert =>
    simp only [cAfterCertL, List.mem_append] at h
    rcases h with h | h
    · cases ho : c.ocsp <;> simp only [ho, if_true, if_false, Bool.false_eq_true, List.not_mem_nil, mem_pre] at h
      obtain ⟨rfl, h⟩ := h
      exact Or.inr ⟨.cAfterStatus, by simp [next, ho], h⟩
    · obtain ⟨p', _, h2, h3⟩ := suffix_next_afterStatus c m r h
      exact Or.inr ⟨p', h2, h3⟩

/-- whatever a phase accepts: it is ChangeCipherSpec exactly in the two phases that ask for it -/
theorem next_ccs_iff (c : Cfg) (p : Phase) (m : Msg) (x : Option Phase) (h : next c p m = some x) :
    m = .ccs ↔ wantsCCS p = true := by
  cases p <;> cases m <;> first | (simp [wantsCCS]; done) | (simp [next] at h)

theorem next_not_tolerated (c : Cfg) (p : Phase) (m : Msg) (x : Option Phase) (h : next c p m = some x) :
    tolerated m = false := by
  cases p <;> cases m <;> first | rfl | (simp [next] at h)

theorem suffix_ccs_iff (c : Cfg) (p : Phase) (m : Msg) (r : List Msg) (h : m :: r ∈ suffixes c p) :
    m = .ccs ↔ wantsCCS p = true := by
  rcases suffix_next c p m r h with ⟨_, hn⟩ | ⟨p', hn, _⟩
  · exact next_ccs_iff c p m _ hn
  · exact next_ccs_iff c p m _ hn

/-- the listed flights consist of handshake messages and ChangeCipherSpec only -/
theorem suffixes_no_tolerated (c : Cfg) (f : List Msg) : ∀ p, f ∈ suffixes c p → ∀ m ∈ f, tolerated m = false := by
  induction f with
  | nil => intro p _ m hm; cases hm
  | cons x xs ih =>
    intro p h m hm
    rcases suffix_next c p x xs h with ⟨rfl, hn⟩ | ⟨p', hn, hr⟩
    · simp only [List.mem_cons, List.not_mem_nil, or_false] at hm; subst hm
      exact next_not_tolerated c p m _ hn
    · rcases List.mem_cons.mp hm with rfl | hm
      · exact next_not_tolerated c p m _ hn
      · exact ih p' hr m hm

-- one step, read forwards --------------------------------------------------------------------------------------

/-- a message the phase accepts is taken: count and buffer cleared, next phase entered — for ChangeCipherSpec
    provided no part of a handshake message is buffered -/
theorem step_take (c : Cfg) (s : State) (m : Msg) (p' : Phase) (hn : next c s.phase m = some (some p'))
    (hc : m = .ccs → s.pend = false) : step c s m = .cont ⟨p', 0, false⟩ := by
  cases s with
  | mk phase warn pend =>
    cases phase <;> cases m <;> simp only [next] at hn <;> first | (simp at hn; done) | simp_all [step, next, wantsCCS]

theorem step_last (c : Cfg) (s : State) (m : Msg) (hn : next c s.phase m = some none) : step c s m = .done := by
  cases s with
  | mk phase warn pend =>
    cases phase <;> cases m <;> simp only [next] at hn <;> first | (simp at hn; done) | simp_all [step, next, wantsCCS]

theorem ccs_cont_pend (c : Cfg) (s s' : State) (h : step c s .ccs = .cont s') : s.pend = false := by
  simp only [step] at h
  split at h
  · rename_i hw; simp only [Bool.and_eq_true, Bool.not_eq_true'] at hw; exact hw.2
  · cases h

theorem next_ccs_not_last (c : Cfg) (p : Phase) : next c p .ccs ≠ some none := by
  cases p <;> simp [next]

theorem accepts_append_cont (c : Cfg) (t r : List Msg) : ∀ s s', run c s t = .cont s' →
    accepts c s (t ++ r) = accepts c s' r := by
  induction t with
  | nil => intro s s' h; simp only [run, Result.cont.injEq] at h; subst h; rfl
  | cons x xs ih =>
    intro s s' h
    simp only [run] at h
    simp only [List.cons_append, accepts]
    cases hs : step c s x with
    | cont s1 => rw [hs] at h; exact ih s1 s' h
    | done => rw [hs] at h; cases h
    | error a => rw [hs] at h; cases h

-- stretches of tolerated events ---------------------------------------------------------------------------------

/-- warning alerts within the limit are absorbed in every phase and leave everything but the count as it was -/
theorem absorb_warnings (c : Cfg) (t : List Msg) : ∀ (s : State) (w : Nat), t.all (· == .warningAlert) = true →
    warnAfter s.warn t = some w → run c s t = .cont ⟨s.phase, w, s.pend⟩ := by
  induction t with
  | nil => intro s w _ h; simp only [warnAfter, Option.some.injEq] at h; subst h; rfl
  | cons x xs ih =>
    intro s w ha hw
    simp only [List.all_cons, Bool.and_eq_true, beq_iff_eq] at ha
    obtain ⟨rfl, ha⟩ := ha
    simp only [warnAfter] at hw
    split at hw
    · cases hw
    · rename_i hlt
      simp only [run, step, if_neg hlt]
      exact ih ⟨s.phase, s.warn + 1, s.pend⟩ w ha hw

/-- tolerated events while the code waits for a handshake message: absorbed as long as the count stays within
    the limit; the phase stays, the count is what `warnAfter` says -/
theorem absorb_tolerated (c : Cfg) (t : List Msg) : ∀ (s : State) (w : Nat), wantsCCS s.phase = false →
    t.all tolerated = true → warnAfter s.warn t = some w → ∃ b, run c s t = .cont ⟨s.phase, w, b⟩ := by
  induction t with
  | nil => intro s w _ _ h; simp only [warnAfter, Option.some.injEq] at h; subst h; exact ⟨s.pend, rfl⟩
  | cons x xs ih =>
    intro s w hp ha hw
    simp only [List.all_cons, Bool.and_eq_true] at ha
    obtain ⟨hx, ha⟩ := ha
    cases x <;> simp only [tolerated, Bool.false_eq_true] at hx
    · -- fragment
      simp only [warnAfter] at hw
      simp only [run, step, hp, Bool.false_eq_true, if_false]
      exact ih ⟨s.phase, 0, true⟩ w hp ha hw
    · -- trailing
      simp only [warnAfter] at hw
      simp only [run, step]
      exact ih ⟨s.phase, s.warn, true⟩ w hp ha hw
    · -- emptyHandshake
      simp only [warnAfter] at hw
      simp only [run, step, hp, Bool.false_eq_true, if_false]
      exact ih s w hp ha hw
    · -- warningAlert
      simp only [warnAfter] at hw
      split at hw
      · cases hw
      · rename_i hlt
        simp only [run, step, if_neg hlt]
        exact ih ⟨s.phase, s.warn + 1, s.pend⟩ w hp ha hw

/-- a stretch `gapOkAt` allows in front of `m` is absorbed, and leaves the state ready for `m` -/
theorem absorb (c : Cfg) (s : State) (t : List Msg) (m : Msg) (hg : gapOkAt s.warn s.pend t m = true)
    (hc : m = .ccs ↔ wantsCCS s.phase = true) :
    ∃ s1, run c s t = .cont s1 ∧ s1.phase = s.phase ∧ (m = .ccs → s1.pend = false) := by
  simp only [gapOkAt, Bool.and_eq_true, Option.isSome_iff_exists] at hg
  obtain ⟨⟨w, hw⟩, hg⟩ := hg
  by_cases hm : m = .ccs
  · simp only [hm, if_true, Bool.and_eq_true, Bool.not_eq_true'] at hg
    exact ⟨_, absorb_warnings c t s w hg.2 hw, rfl, fun _ => hg.1⟩
  · simp only [hm, if_false] at hg
    have hp : wantsCCS s.phase = false := by
      cases h : wantsCCS s.phase
      · rfl
      · exact absurd (hc.mpr h) hm
    obtain ⟨b, hb⟩ := absorb_tolerated c t s w hp hg hw
    exact ⟨_, hb, rfl, fun h => absurd h hm⟩

-- the accepted language ------------------------------------------------------------------------------------------

/-- ⇐: a listed flight with an admissible stretch in front of each message is accepted, from any state -/
theorem woven_accepts (c : Cfg) (gs : List (List Msg × Msg)) : ∀ (t : List Msg) (m : Msg) (s : State),
    gapOkAt s.warn s.pend t m = true → m :: gs.map (·.2) ∈ suffixes c s.phase →
    (∀ g ∈ gs, gapOk g.1 g.2 = true) → accepts c s (t ++ m :: weave gs) = true := by
  induction gs with
  | nil =>
    intro t m s hg hm _
    obtain ⟨s1, hr, hp, _⟩ := absorb c s t m hg (suffix_ccs_iff c s.phase m _ hm)
    rw [accepts_append_cont c t _ s s1 hr]
    rcases suffix_next c s.phase m _ hm with ⟨_, hn⟩ | ⟨p', _, hr'⟩
    · rw [← hp] at hn
      simp only [weave, accepts, step_last c s1 m hn, List.isEmpty_nil]
    · exact absurd hr' (nil_not_mem_suffixes c p')
  | cons g gs ih =>
    intro t m s hg hm hall
    obtain ⟨s1, hr, hp, hpend⟩ := absorb c s t m hg (suffix_ccs_iff c s.phase m _ hm)
    rw [accepts_append_cont c t _ s s1 hr]
    rcases suffix_next c s.phase m _ hm with ⟨he, _⟩ | ⟨p', hn, hr'⟩
    · simp at he
    · rw [← hp] at hn
      obtain ⟨t', m'⟩ := g
      simp only [weave, accepts, step_take c s1 m p' hn hpend]
      exact ih t' m' ⟨p', 0, false⟩ (hall (t', m') (by simp)) hr' (fun g hg' => hall g (by simp [hg']))

/-- one tolerated event in front of an admissible stretch: admissible again -/
theorem gap_cons (c : Cfg) (s s' : State) (x : Msg) (t : List Msg) (m : Msg) (hx : tolerated x = true)
    (hs : step c s x = .cont s') (hc : m = .ccs ↔ wantsCCS s.phase = true)
    (hg : gapOkAt s'.warn s'.pend t m = true) : gapOkAt s.warn s.pend (x :: t) m = true := by
  cases s with
  | mk phase warn pend =>
  cases x <;> simp only [tolerated, Bool.false_eq_true] at hx
  · -- fragment
    simp only [step] at hs
    split at hs
    · cases hs
    · rename_i hw
      simp only [Result.cont.injEq] at hs; subst hs
      have hm : m ≠ .ccs := fun h => hw (hc.mp h)
      simp only [gapOkAt, hm, if_false, warnAfter, List.all_cons, tolerated, Bool.true_and] at hg ⊢
      exact hg
  · -- trailing
    simp only [step, Result.cont.injEq] at hs; subst hs
    by_cases hm : m = .ccs
    · simp [gapOkAt, hm] at hg
    · simp only [gapOkAt, hm, if_false, warnAfter, List.all_cons, tolerated, Bool.true_and] at hg ⊢
      exact hg
  · -- emptyHandshake
    simp only [step] at hs
    split at hs
    · cases hs
    · rename_i hw
      simp only [Result.cont.injEq] at hs; subst hs
      have hm : m ≠ .ccs := fun h => hw (hc.mp h)
      simp only [gapOkAt, hm, if_false, warnAfter, List.all_cons, tolerated, Bool.true_and] at hg ⊢
      exact hg
  · -- warningAlert
    simp only [step] at hs
    split at hs
    · cases hs
    · rename_i hlt
      simp only [Result.cont.injEq] at hs; subst hs
      simp only [gapOkAt, warnAfter, if_neg hlt, List.all_cons, tolerated, Bool.true_and, beq_self_eq_true] at hg ⊢
      exact hg

/-- ⇒: every accepted sequence is of that form -/
theorem accepts_woven (c : Cfg) (l : List Msg) : ∀ s, accepts c s l = true →
    ∃ t m gs, l = t ++ m :: weave gs ∧ gapOkAt s.warn s.pend t m = true ∧
      m :: gs.map (·.2) ∈ suffixes c s.phase ∧ ∀ g ∈ gs, gapOk g.1 g.2 = true := by
  induction l with
  | nil => intro s h; simp [accepts] at h
  | cons x xs ih =>
    intro s h
    simp only [accepts] at h
    cases hs : step c s x with
    | cont s' =>
      rw [hs] at h
      obtain ⟨t', m', gs', rfl, hg, hmem, hall⟩ := ih s' h
      rcases step_cont c s s' x hs with ⟨ht, hp⟩ | ⟨ht, hn, _⟩
      · rw [hp] at hmem
        exact ⟨x :: t', m', gs', rfl,
          gap_cons c s s' x t' m' ht hs (suffix_ccs_iff c s.phase m' _ hmem) hg, hmem, hall⟩
      · have hpend : x = .ccs → s.pend = false := fun hx => ccs_cont_pend c s s' (hx ▸ hs)
        have hs' := step_take c s x s'.phase hn hpend
        rw [hs] at hs'
        simp only [Result.cont.injEq] at hs'
        refine ⟨[], x, (t', m') :: gs', rfl, ?_, ?_, ?_⟩
        · simp only [gapOkAt, warnAfter, Option.isSome_some, List.all_nil, Bool.and_true, Bool.true_and]
          split
          · rename_i hx; simp [hpend hx]
          · rfl
        · exact next_suffix c s.phase s'.phase x hn _ hmem
        · intro g hg'
          rcases List.mem_cons.mp hg' with rfl | hg'
          · rw [hs'] at hg; exact hg
          · exact hall g hg'
    | done =>
      rw [hs] at h
      obtain ⟨_, hn⟩ := step_done c s x hs
      have : xs = [] := by simpa using h
      subst this
      refine ⟨[], x, [], rfl, ?_, next_last c s.phase x hn, by simp⟩
      have hx : x ≠ .ccs := fun hx => next_ccs_not_last c s.phase (hx ▸ hn)
      simp [gapOkAt, warnAfter, hx]
    | error a => rw [hs] at h; simp at h

/-- The accepted language from ANY state `s` (phase, warning-alert count, buffered bytes): a sequence completes
    the handshake with its last event exactly when it is one of the listed suffixes of the phase with a stretch of
    tolerated events in front of each message, the first stretch admissible from the state's count and buffer
    (`gapOkAt`), the others from a fresh count (`gapOk`). -/
theorem accepts_iff_woven (c : Cfg) (s : State) (l : List Msg) : accepts c s l = true ↔
    ∃ t m gs, l = t ++ m :: weave gs ∧ gapOkAt s.warn s.pend t m = true ∧
      m :: gs.map (·.2) ∈ suffixes c s.phase ∧ ∀ g ∈ gs, gapOk g.1 g.2 = true := by
  constructor
  · exact accepts_woven c l s
  · rintro ⟨t, m, gs, rfl, hg, hm, hall⟩
    exact woven_accepts c gs t m s hg hm hall

/-- B, the whole truth about tolerance.  For every role and configuration and EVERY event sequence `l`:
    `Handshake()` completes with the last event of `l` if and only if `l = t₁ ++ [m₁] ++ … ++ tₙ ++ [mₙ]` where
    `[m₁, …, mₙ]` is one of the flights `expected c` and each `tᵢ` is a stretch of events that `gapOk` allows in
    front of `mᵢ`:
      * in front of a handshake message: warning alerts, empty handshake records, first parts of a message
        (`fragment`) and the `trailing` marker in any order and number, provided the count of warning alerts never
        passes `maxWarnAlertCount` = 5, where a `fragment` (a handshake record with data) clears the count and an
        empty record or `trailing` does not;
      * in front of ChangeCipherSpec: at most 5 warning alerts and nothing else (conn.go `readRecord`: a handshake
        record while ChangeCipherSpec is awaited is answered with no_renegotiation — unexpected_message by the
        GMSSL client — and `c.hand.Len() > 0` makes the ChangeCipherSpec an error).
    The message in front of which the stretch stands resets the count.  Nothing depends on whether the version
    is known yet, and between ChangeCipherSpec and Finished the rule for handshake messages applies. -/
theorem accepts_iff (c : Cfg) (l : List Msg) : accepts c (init c) l = true ↔
    ∃ gs, l = weave gs ∧ gs.map (·.2) ∈ expected c ∧ ∀ g ∈ gs, gapOk g.1 g.2 = true := by
  rw [accepts_iff_woven]
  constructor
  · rintro ⟨t, m, gs, rfl, hg, hm, hall⟩
    refine ⟨(t, m) :: gs, rfl, hm, ?_⟩
    intro g hg'
    rcases List.mem_cons.mp hg' with rfl | hg'
    · exact hg
    · exact hall g hg'
  · rintro ⟨gs, rfl, hm, hall⟩
    cases gs with
    | nil => exact absurd hm (nil_not_mem_suffixes c _)
    | cons g gs =>
      obtain ⟨t, m⟩ := g
      exact ⟨t, m, gs, rfl, hall (t, m) (by simp), hm, fun g hg => hall g (by simp [hg])⟩

-- A: the expected flights are accepted ---------------------------------------------------------------------------

theorem weave_plain (f : List Msg) : weave (f.map fun m => ([], m)) = f := by
  induction f with
  | nil => rfl
  | cons x xs ih => simp only [List.map_cons, weave, List.nil_append, ih]

theorem map_snd_plain (f : List Msg) : (f.map fun m => (([] : List Msg), m)).map (·.2) = f := by
  induction f with
  | nil => rfl
  | cons x xs ih => simp only [List.map_cons, ih]

theorem gapOk_nil (m : Msg) : gapOk [] m = true := by
  simp only [gapOk, gapOkAt, warnAfter, Option.isSome_some, List.all_nil, Bool.true_and]
  split <;> rfl

/-- A `expected_accepted`: for every role and configuration, every flight listed in `expected c` completes the
    handshake: the type assertions of the four handshake state machines let every message of the flight through
    and `readRecord` takes the ChangeCipherSpec where the flight has it.  Together with `done_only_expected`:
    the listing `expected c` is neither too small nor too large. -/
theorem expected_accepted (c : Cfg) (f : List Msg) (h : f ∈ expected c) : accepts c (init c) f = true := by
  rw [accepts_iff]
  refine ⟨f.map fun m => ([], m), (weave_plain f).symm, ?_, ?_⟩
  · rw [map_snd_plain]; exact h
  · intro g hg
    simp only [List.mem_map] at hg
    obtain ⟨m, _, rfl⟩ := hg
    exact gapOk_nil m

/-- A, as an equivalence: on sequences without warning alerts, empty records and record-boundary artefacts the
    endpoint completes exactly on the flights of `expected c`. -/
theorem accepts_iff_expected (c : Cfg) (l : List Msg) (hl : ∀ m ∈ l, tolerated m = false) :
    accepts c (init c) l = true ↔ l ∈ expected c := by
  constructor
  · intro h
    have := done_only_expected c l h
    rwa [List.filter_eq_self.mpr (fun m hm => by simp [hl m hm])] at this
  · exact expected_accepted c l

/-- acceptance from the initial state -/
def acceptsInit (c : Cfg) (l : List Msg) : Bool := accepts c (init c) l

theorem accepts_run_done (c : Cfg) (s : State) (l r : List Msg) (h : accepts c s l = true) :
    run c s (l ++ r) = .done :=
  (run_done_iff c (l ++ r) s).mpr ⟨l, r, rfl, h⟩

-- B: tolerance --------------------------------------------------------------------------------------------------

/-- B `expected_accepted_with_tolerated`: a flight of `expected c` interleaved with tolerated events is accepted
    whenever each stretch of tolerated events keeps within `gapOk` (see `accepts_iff` for the limits in words;
    `gapOk_of_count` and `gapOk_ccs_iff` for the two cases in plain terms).  This is the ⇐ half of `accepts_iff`;
    the ⇒ half says the limits are sharp: an interleaving outside them is refused. -/
theorem expected_accepted_with_tolerated (c : Cfg) (gs : List (List Msg × Msg)) (hf : gs.map (·.2) ∈ expected c)
    (hg : ∀ g ∈ gs, gapOk g.1 g.2 = true) : accepts c (init c) (weave gs) = true :=
  (accepts_iff c _).mpr ⟨gs, rfl, hf, hg⟩

/-- … and `Handshake()` returns nil whatever the peer sends afterwards (it is not read by the handshake) -/
theorem expected_run_done_with_tolerated (c : Cfg) (gs : List (List Msg × Msg)) (rest : List Msg)
    (hf : gs.map (·.2) ∈ expected c) (hg : ∀ g ∈ gs, gapOk g.1 g.2 = true) :
    run c (init c) (weave gs ++ rest) = .done :=
  accepts_run_done c _ _ rest (expected_accepted_with_tolerated c gs hf hg)

theorem gapOk_tolerated (t : List Msg) (m : Msg) (h : gapOk t m = true) : t.all tolerated = true := by
  simp only [gapOk, gapOkAt, Bool.and_eq_true] at h
  obtain ⟨_, h⟩ := h
  split at h
  · simp only [Bool.not_false, Bool.true_and, List.all_eq_true, beq_iff_eq] at h ⊢
    intro x hx; rw [h x hx]; rfl
  · exact h

theorem weave_filter (gs : List (List Msg × Msg)) (hm : ∀ g ∈ gs, tolerated g.2 = false)
    (hg : ∀ g ∈ gs, gapOk g.1 g.2 = true) : (weave gs).filter (fun m => !tolerated m) = gs.map (·.2) := by
  induction gs with
  | nil => rfl
  | cons g gs ih =>
    obtain ⟨t, m⟩ := g
    have ht := gapOk_tolerated t m (hg (t, m) (by simp))
    have hm1 : tolerated m = false := hm (t, m) (by simp)
    simp only [weave, List.filter_append, List.filter_cons, hm1, Bool.not_false, if_true, List.map_cons]
    rw [ih (fun g h => hm g (by simp [h])) (fun g h => hg g (by simp [h]))]
    have : t.filter (fun m => !tolerated m) = [] := by
      rw [List.filter_eq_nil_iff]
      intro x hx
      simp only [List.all_eq_true] at ht
      simp [ht x hx]
    rw [this]; rfl

/-- `weave gs` is an interleaving of the flight `gs.map (·.2)` with tolerated events: erasing them gives the
    flight back (the erasure `done_only_expected` speaks about). -/
theorem weave_is_interleaving (c : Cfg) (gs : List (List Msg × Msg)) (hf : gs.map (·.2) ∈ expected c)
    (hg : ∀ g ∈ gs, gapOk g.1 g.2 = true) : (weave gs).filter (fun m => !tolerated m) = gs.map (·.2) := by
  apply weave_filter gs _ hg
  intro g hg1
  exact suffixes_no_tolerated c _ _ hf g.2 (List.mem_map.mpr ⟨g, hg1, rfl⟩)

theorem warnAfter_le (t : List Msg) : ∀ w, w + t.count .warningAlert ≤ maxWarnAlertCount →
    (warnAfter w t).isSome = true := by
  induction t with
  | nil => intro w _; rfl
  | cons x xs ih =>
    intro w h
    cases x <;> simp only [List.count_cons, beq_iff_eq, reduceCtorEq, if_false, if_true, Nat.add_zero] at h <;>
      simp only [warnAfter]
    all_goals first
      | exact ih w h
      | (apply ih; simp only [maxWarnAlertCount] at h ⊢; omega)
      | skip
    · rw [if_neg (by simp only [maxWarnAlertCount] at h ⊢; omega)]
      apply ih; omega

/-- in front of a handshake message: any tolerated events with at most 5 warning alerts among them are fine
    (more are fine too if handshake records with data come in between: `warnAfter`) -/
theorem gapOk_of_count (t : List Msg) (m : Msg) (hm : m ≠ .ccs) (ht : t.all tolerated = true)
    (hc : t.count .warningAlert ≤ maxWarnAlertCount) : gapOk t m = true := by
  simp only [gapOk, gapOkAt, hm, if_false, ht, Bool.and_true]
  exact warnAfter_le t 0 (by omega)

theorem warnAfter_warnings (t : List Msg) : ∀ w, t.all (· == .warningAlert) = true →
    ((warnAfter w t).isSome = true ↔ (t = [] ∨ w + t.length ≤ maxWarnAlertCount)) := by
  induction t with
  | nil => intro w _; simp [warnAfter]
  | cons x xs ih =>
    intro w ha
    simp only [List.all_cons, Bool.and_eq_true, beq_iff_eq] at ha
    obtain ⟨rfl, ha⟩ := ha
    simp only [warnAfter, reduceCtorEq, false_or, List.length_cons]
    split
    · rename_i h; simp only [Option.isSome_none, Bool.false_eq_true, false_iff]; omega
    · rename_i h
      rw [ih (w + 1) ha]
      constructor
      · rintro (rfl | h1)
        · simp only [List.length_nil]; omega
        · omega
      · intro h1; right; omega

/-- in front of ChangeCipherSpec: exactly the stretches of at most 5 warning alerts -/
theorem gapOk_ccs_iff (t : List Msg) : gapOk t .ccs = true ↔
    t.all (· == .warningAlert) = true ∧ t.length ≤ maxWarnAlertCount := by
  have := warnAfter_warnings t
  simp only [gapOk, gapOkAt, if_true, Bool.not_false, Bool.true_and, Bool.and_eq_true]
  constructor
  · rintro ⟨h1, h2⟩
    refine ⟨h2, ?_⟩
    rcases (this 0 h2).mp h1 with rfl | h
    · simp
    · omega
  · rintro ⟨h1, h2⟩
    exact ⟨(this 0 h1).mpr (Or.inr (by omega)), h1⟩

/-- Sharpness, where a tolerated event is fatal: while the code waits for ChangeCipherSpec (server: after
    ClientKeyExchange / CertificateVerify, or after ClientHello when resuming; client: after ServerHelloDone /
    NewSessionTicket, or after ServerHello when resuming) the only events that do not end the handshake are a
    warning alert and the ChangeCipherSpec itself.  In particular an empty handshake record, the first part of a
    message, and bytes of a further message in the record that completed the previous one — all absorbed
    anywhere else — are fatal here, whatever follows.  (The sixth consecutive warning alert is fatal everywhere:
    `Props.C15.six_warnings_fatal`.) -/
theorem at_ccs_only_warning_or_ccs (c : Cfg) (s : State) (x : Msg) (ms : List Msg) (h : wantsCCS s.phase = true)
    (hw : x ≠ .warningAlert) (hc : x ≠ .ccs) : accepts c s (x :: ms) = false := by
  cases ha : accepts c s (x :: ms) with
  | false => rfl
  | true =>
    exfalso
    obtain ⟨t, m, gs, e, hg, hm, _⟩ := (accepts_iff_woven c s _).mp ha
    have hmc : m = .ccs := (suffix_ccs_iff c s.phase m _ hm).mpr h
    subst hmc
    simp only [gapOkAt, if_true, Bool.and_eq_true, List.all_eq_true, beq_iff_eq] at hg
    cases t with
    | nil => simp only [List.nil_append, List.cons.injEq] at e; exact hc e.1
    | cons y ys =>
      simp only [List.cons_append, List.cons.injEq] at e
      exact hw (e.1 ▸ hg.2.2 y (by simp))

-- five warning alerts before every message incl. ChangeCipherSpec, empty records, a message in three records
example : acceptsInit (gmServer false false) (weave
    [(List.replicate 5 .warningAlert, .clientHello), ([.emptyHandshake, .fragment, .fragment], .clientKeyExchange),
     (List.replicate 5 .warningAlert, .ccs), ([.warningAlert, .emptyHandshake, .warningAlert], .finished)]) = true :=
  expected_accepted_with_tolerated _ _ (by decide) (by decide)
-- more than five warning alerts in front of one message, a handshake record with data in between
example : runInit (gmServer false false) (List.replicate 5 .warningAlert ++ [.fragment] ++ List.replicate 5 .warningAlert ++
    [.clientHello, .clientKeyExchange, .ccs, .finished]) = .done := by decide
-- an empty record in between does not reset the count
example : runInit (gmServer false false) (List.replicate 5 .warningAlert ++ [.emptyHandshake, .warningAlert]) =
    .error .unexpectedMessage := by decide
-- six in a row: fatal (`six_warnings_fatal`), also right before ChangeCipherSpec
example : acceptsInit (gmServer false false) (List.replicate 6 .warningAlert ++
    [.clientHello, .clientKeyExchange, .ccs, .finished]) = false := by decide
example : runInit (gmServer false false) ([.clientHello, .clientKeyExchange] ++ List.replicate 6 .warningAlert) =
    .error .unexpectedMessage := by decide
-- an empty handshake record is harmless before a message and fatal before ChangeCipherSpec
example : runInit (gmServer false false) [.clientHello, .emptyHandshake, .clientKeyExchange, .ccs, .emptyHandshake, .finished] =
    .done := by decide
example : runInit (gmServer false false) [.clientHello, .clientKeyExchange, .emptyHandshake, .ccs, .finished] =
    .error .noRenegotiation := by decide
example : runInit (gmClient false false)
    [.serverHello, .certificate, .serverKeyExchange, .serverHelloDone, .emptyHandshake, .ccs, .finished] =
    .error .unexpectedMessage := by decide
example : runInit (tlsClient false true) [.serverHello, .trailing, .ccs, .finished] = .error .unexpectedMessage := by decide

-- C: what the honest peer sends is accepted -------------------------------------------------------------------------

theorem peer_peer (c : Cfg) : peer (peer c) = c := by
  cases c; simp [peer]

theorem compatible_peer (c : Cfg) : Compatible (peer c) ↔ Compatible c := Iff.rfl

theorem reachable_compatible (c : Cfg) (h : Reachable c) : Compatible c := by
  intro hg ho
  rw [(h.1 hg).1] at ho
  cases ho

/-- D for the servers (GMSSL and TLS alike): `expected c` is a singleton, and its one member is what the honest
    client of the same connection writes — ClientHello, [Certificate], ClientKeyExchange, [CertificateVerify],
    ChangeCipherSpec, [NextProtocol], Finished, with the optional parts decided by the same facts the server's
    type assertions use.  So the honest client's flight is THE accepted sequence. -/
theorem server_expected_is_honest (c : Cfg) (h : c.server = true) : expected c = [sends (peer c)] := by
  cases c with
  | mk server gm resume reqCert peerCert ticket ocsp skx npn =>
    subst h
    cases resume <;> cases reqCert <;> cases peerCert <;> cases npn <;> rfl

/-- D for the clients: the flights a client accepts are exactly those an honest server of the same connection
    writes, where the server is free in the two things the client's type assertions leave open: whether it asks
    for a client certificate (`r`), and whether it makes use of a negotiated status_request (`o`; RFC 6066: the
    server MAY send CertificateStatus — a gmtls server always does).  In particular the client accepts nothing
    an honest server could not have sent. -/
theorem client_expected_iff (c : Cfg) (hs : c.server = false) (f : List Msg) :
    f ∈ expected c ↔ ∃ r o : Bool, (o = true → c.ocsp = true) ∧ Compatible { c with reqCert := r, ocsp := o } ∧
      f = sends (peer { c with reqCert := r, ocsp := o }) := by
  cases c with
  | mk server gm resume reqCert peerCert ticket ocsp skx npn =>
    subst hs
    cases gm <;> cases resume <;> cases ticket <;> cases ocsp <;> cases skx <;>
      simp [Compatible, sends, peer, serverSends, serverFinish, optMsg, expected, initPhase, suffixes, cHelloL, cCertL, cSKXL,
          cAfterCertL, cAfterStatusL, cAfterSKXL, cDoneNoSKXL, cHelloDoneL, cPostL, cTicketL, cCCSL, cFinishedL, pre]
    all_goals (constructor <;> (intro h; (repeat' (rcases h with h | h)) <;> simp))

theorem client_expected_all_honest (c : Cfg) (hs : c.server = false) (f : List Msg) (hf : f ∈ expected c) :
    ∃ r o : Bool, (o = true → c.ocsp = true) ∧ Compatible { c with reqCert := r, ocsp := o } ∧
      f = sends (peer { c with reqCert := r, ocsp := o }) :=
  (client_expected_iff c hs f).mp hf

/-- D for the GMSSL client: one accepted flight when resuming, two in a full handshake — the honest GMSSL
    server's flight with and without CertificateRequest (never a CertificateStatus). -/
theorem gmClient_expected (c : Cfg) (hs : c.server = false) (hg : c.gm = true) :
    expected c = if c.resume then [sends (peer c)]
      else [sends (peer { c with reqCert := true, ocsp := false }), sends (peer { c with reqCert := false, ocsp := false })] := by
  cases c with
  | mk server gm resume reqCert peerCert ticket ocsp skx npn =>
    subst hs; subst hg
    cases resume <;> cases ticket <;> rfl

/-- C `sends_mem_expected`: for every correctly configured pair, what the honest other end writes is one of the
    flights the endpoint expects. -/
theorem sends_mem_expected (c : Cfg) (h : Compatible c) : sends (peer c) ∈ expected c := by
  cases hs : c.server
  · rw [client_expected_iff c hs]
    refine ⟨c.reqCert, c.ocsp, fun h => h, ?_, ?_⟩
    · cases c; exact h
    · cases c; rfl
  · rw [server_expected_is_honest c hs]; simp

/-- C `honest_pair_completes`, the message-order half of "a correctly configured client and server complete the
    handshake" (C06), for BOTH ends: for every combination of code path (GMSSL / TLS), full or resumed handshake,
    key agreement with or without ServerKeyExchange, client-certificate request, client with or without a
    certificate (it answers with an empty Certificate message and no CertificateVerify, as the code does),
    session ticket, OCSP status and NPN — other than a GMSSL full handshake with status_request, see
    `gm_ocsp_not_accepted` — the endpoint `c` accepts what its honest peer writes, and the peer accepts what `c`
    writes.  Each endpoint only READS the other's messages, and `accepts` is about one reading direction: how
    the two directions interleave on the wire (the server's Finished after the client's in a full handshake,
    before it in a resumed one) is irrelevant to it. -/
theorem honest_pair_completes (c : Cfg) (h : Compatible c) :
    accepts c (init c) (sends (peer c)) = true ∧ accepts (peer c) (init (peer c)) (sends c) = true := by
  refine ⟨expected_accepted c _ (sends_mem_expected c h), ?_⟩
  have := expected_accepted (peer c) _ (sends_mem_expected (peer c) ((compatible_peer c).mpr h))
  rwa [peer_peer] at this

/-- … hence `Handshake()` returns nil on both ends -/
theorem honest_pair_both_done (c : Cfg) (h : Compatible c) :
    run c (init c) (sends (peer c)) = .done ∧ run (peer c) (init (peer c)) (sends c) = .done := by
  obtain ⟨h1, h2⟩ := honest_pair_completes c h
  have a := accepts_run_done c _ _ [] h1
  have b := accepts_run_done (peer c) _ _ [] h2
  rw [List.append_nil] at a b
  exact ⟨a, b⟩

/-- … also with warning alerts, empty records and fragmented messages in between, within the limits -/
theorem honest_pair_completes_with_tolerated (c : Cfg) (h : Compatible c) (gs : List (List Msg × Msg))
    (hf : gs.map (·.2) = sends (peer c)) (hg : ∀ g ∈ gs, gapOk g.1 g.2 = true) :
    accepts c (init c) (weave gs) = true :=
  expected_accepted_with_tolerated c gs (hf ▸ sends_mem_expected c h) hg

/-- The excluded combination really fails — a finding about the code, not a gap of the proof: the GMSSL server
    code writes CertificateStatus when the ClientHello carried status_request and the certificate has an OCSP
    staple (gm_handshake_server_double.go `doFullHandshake`), but the GMSSL client code reads ServerKeyExchange
    right after Certificate (gm_handshake_client_double.go `doFullHandshake`) and aborts with unexpected_message.
    gmtls' own GMSSL client never sends status_request (`makeClientHelloGM`), so two gmtls ends do not meet this;
    a foreign GMSSL client that offers status_request to a gmtls server with a staple gets a flight the gmtls
    client itself could not digest. -/
theorem gm_ocsp_not_accepted (c : Cfg) (hs : c.server = false) (hg : c.gm = true) (ho : c.ocsp = true)
    (hr : c.resume = false) : run c (init c) (sends (peer c)) = .error .unexpectedMessage := by
  cases c with
  | mk server gm resume reqCert peerCert ticket ocsp skx npn =>
    subst hs; subst hg; subst ho; subst hr
    rfl

/-- so `Compatible` is exactly the set of field combinations for which both ends complete -/
theorem honest_pair_completes_iff (c : Cfg) :
    (accepts c (init c) (sends (peer c)) = true ∧ accepts (peer c) (init (peer c)) (sends c) = true) ↔ Compatible c := by
  constructor
  · rintro ⟨h1, h2⟩ hg ho
    cases hr : c.resume with
    | true => rfl
    | false =>
      exfalso
      cases hs : c.server with
      | false =>
        have := accepts_run_done c _ _ [] h1
        rw [List.append_nil, gm_ocsp_not_accepted c hs hg ho hr] at this
        cases this
      | true =>
        have := accepts_run_done (peer c) _ _ [] h2
        have e := gm_ocsp_not_accepted (peer c) (by simp [peer, hs]) hg ho hr
        rw [peer_peer] at e
        rw [List.append_nil, e] at this
        cases this
  · exact honest_pair_completes c

-- D ----------------------------------------------------------------------------------------------------------------

/-- D `no_other_completion`: for a correctly configured pair, (1) any run of `c` that completes has seen, up to
    tolerated events, one of `expected c`; (2) every one of these is accepted, so `expected c` IS the set of
    accepted tolerated-free sequences; (3) what the honest peer writes is one of them.  For a server the set is
    that single flight (`server_expected_is_honest`); for a client its other members are the flights of the honest
    servers that differ in requesting a client certificate / sending the OCSP status (`client_expected_iff`,
    `gmClient_expected`). -/
theorem no_other_completion (c : Cfg) (h : Compatible c) :
    (∀ l, accepts c (init c) l = true → l.filter (fun m => !tolerated m) ∈ expected c) ∧
    (∀ l, (∀ m ∈ l, tolerated m = false) → (accepts c (init c) l = true ↔ l ∈ expected c)) ∧
    sends (peer c) ∈ expected c ∧ accepts c (init c) (sends (peer c)) = true :=
  ⟨done_only_expected c, accepts_iff_expected c, sends_mem_expected c h, (honest_pair_completes c h).1⟩

/-- the GMSSL and TLS servers complete on exactly one tolerated-free sequence: the honest client's -/
theorem server_completes_only_on_honest (c : Cfg) (hs : c.server = true) (l : List Msg)
    (hl : ∀ m ∈ l, tolerated m = false) : accepts c (init c) l = true ↔ l = sends (peer c) := by
  rw [accepts_iff_expected c l hl, server_expected_is_honest c hs]; simp

-- non-vacuity: the statements at the four roles ----------------------------------------------------------------------

example : sends (peer (gmServer true false)) =
    [.clientHello, .certificate, .clientKeyExchange, .certificateVerify, .ccs, .finished] := by decide
example : sends (gmServer true false) =
    [.serverHello, .certificate, .serverKeyExchange, .certificateRequest, .serverHelloDone, .ccs, .finished] := by decide
example : sends (peer (gmClient true false)) =
    [.serverHello, .certificate, .serverKeyExchange, .serverHelloDone, .newSessionTicket, .ccs, .finished] := by decide
example : sends (peer (tlsClient false true)) = [.serverHello, .ccs, .finished] := by decide
example : sends (peer { tlsClient true false with skx := false, ocsp := true, reqCert := true }) =
    [.serverHello, .certificate, .certificateStatus, .certificateRequest, .serverHelloDone, .newSessionTicket, .ccs, .finished] := by
  decide
example : sends (peer { tlsServer true false with peerCert := false, npn := true }) =
    [.clientHello, .certificate, .clientKeyExchange, .ccs, .nextProtocol, .finished] := by decide
-- A
example : ∀ f ∈ expected (gmServer true false), acceptsInit (gmServer true false) f = true :=
  expected_accepted _
example : acceptsInit (gmClient false false)
    [.serverHello, .certificate, .serverKeyExchange, .certificateRequest, .serverHelloDone, .ccs, .finished] = true :=
  expected_accepted _ _ (by decide)
example : acceptsInit (tlsServer true false)
    [.clientHello, .certificate, .clientKeyExchange, .certificateVerify, .ccs, .finished] = true :=
  expected_accepted _ _ (by decide)
example : acceptsInit (tlsClient true false)
    [.serverHello, .certificate, .serverKeyExchange, .serverHelloDone, .newSessionTicket, .ccs, .finished] = true :=
  expected_accepted _ _ (by decide)
-- C
example : runInit (gmServer true false) (sends (peer (gmServer true false))) = .done ∧
    runInit (peer (gmServer true false)) (sends (gmServer true false)) = .done :=
  honest_pair_both_done _ (by decide)
example : runInit (gmClient true false) (sends (peer (gmClient true false))) = .done ∧
    runInit (peer (gmClient true false)) (sends (gmClient true false)) = .done :=
  honest_pair_both_done _ (by decide)
example : runInit (tlsServer false true) (sends (peer (tlsServer false true))) = .done ∧
    runInit (peer (tlsServer false true)) (sends (tlsServer false true)) = .done :=
  honest_pair_both_done _ (by decide)
example : runInit (tlsClient false false) (sends (peer (tlsClient false false))) = .done ∧
    runInit (peer (tlsClient false false)) (sends (tlsClient false false)) = .done :=
  honest_pair_both_done _ (by decide)
example : Compatible { gmClient false false with ocsp := true } = False := by simp [Compatible, gmClient]
example : runInit { gmClient false false with ocsp := true } (sends (peer { gmClient false false with ocsp := true })) =
    .error .unexpectedMessage := by decide

end Props.C15Complete
