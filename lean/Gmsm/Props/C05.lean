/-
C05 — SM4 block encryption is the GM/T 0002 permutation and decryption is its inverse.

Property theorems only (helper lemmas are in Gmsm/Proofs/SM4.lean).  `Model.SM4` mirrors
sm4/sm4.go:154-255; its tables `Gen.SM4.*` are regenerated from the Go source on every run.
-/
import Gmsm.Proofs.SM4
namespace Props.C05
open Gmsm Spec.SM4 Proofs.SM4 Model.SM4

/-- T1 `ttables_ok`: every entry of the four 256-entry lookup tables in the Go source is
    `L(Sbox[i] <<< 8k)`, and the byte S-box / FK / CK arrays in the source are the standard's. -/
theorem ttables_ok :
    (∀ i : Fin 256, Gen.SM4.sbox0[i] = L (zext8 Sbox[i])) ∧
    (∀ i : Fin 256, Gen.SM4.sbox1[i] = L (zext8 Sbox[i] <<< 8)) ∧
    (∀ i : Fin 256, Gen.SM4.sbox2[i] = L (zext8 Sbox[i] <<< 16)) ∧
    (∀ i : Fin 256, Gen.SM4.sbox3[i] = L (zext8 Sbox[i] <<< 24)) ∧
    Gen.SM4.sbox = Sbox ∧ Gen.SM4.fk = FK ∧ (∀ i : Fin 32, Gen.SM4.ck[i] = CK i) :=
  ⟨t0, t1, t2, t3, sbox_eq_std, fk_eq_std, ck_eq_std⟩

/-- T1 `T_eq`: the four-table lookup used in `cryptBlock` equals `L(τ x)` for every word. -/
theorem T_eq (x : W32) : tt x = T x := tt_eq_T x

/-- T1: the Go key schedule is the standard's, for every key. -/
theorem subkeys_eq_spec (key : Bytes) : generateSubKeys key = expandKey (ofBytes key) :=
  generateSubKeys_eq key

/-- T1 `cryptBlock_enc_eq_spec`: for every key and every block the Go encryption path computes the
    GM/T 0002 ciphertext. -/
theorem cryptBlock_enc_eq_spec (key blk : Bytes) :
    cryptBlockCore (generateSubKeys key) blk false = Spec.SM4.encrypt key blk := by
  unfold cryptBlockCore Spec.SM4.encrypt encryptSt permuteFinalBlock permuteInitialBlock
  simp only [generateSubKeys_eq, Bool.false_eq_true, if_false]
  rw [encLoop_eq 8 _ (by rw [expandKey_length])]
  rfl

/-- T1 `cryptBlock_dec_eq_spec`: likewise for the decryption path (round keys walked backwards). -/
theorem cryptBlock_dec_eq_spec (key blk : Bytes) :
    cryptBlockCore (generateSubKeys key) blk true = Spec.SM4.decrypt key blk := by
  unfold cryptBlockCore Spec.SM4.decrypt decryptSt permuteFinalBlock permuteInitialBlock decLoop
  simp only [generateSubKeys_eq, if_true]
  rw [encLoop_eq 8 _ (by rw [List.length_reverse, expandKey_length])]
  rfl

/-- T1 `dec_enc`: decryption inverts encryption for every key and every 16-byte block. -/
theorem dec_enc (key blk : Bytes) (h : blk.length = 16) :
    Spec.SM4.decrypt key (Spec.SM4.encrypt key blk) = blk := by
  unfold Spec.SM4.decrypt Spec.SM4.encrypt
  rw [ofBytes_toBytes, decryptSt_encryptSt, toBytes_ofBytes _ h]

/-- T1 `enc_dec`: and conversely (so encryption is a permutation of the 16-byte blocks). -/
theorem enc_dec (key blk : Bytes) (h : blk.length = 16) :
    Spec.SM4.encrypt key (Spec.SM4.decrypt key blk) = blk := by
  unfold Spec.SM4.decrypt Spec.SM4.encrypt
  rw [ofBytes_toBytes, encryptSt_decryptSt, toBytes_ofBytes _ h]

theorem enc_length (key blk : Bytes) : (Spec.SM4.encrypt key blk).length = 16 := toBytes_length _
theorem dec_length (key blk : Bytes) : (Spec.SM4.decrypt key blk).length = 16 := toBytes_length _

/-- T1 `newCipher_len`: `NewCipher` fails exactly for keys whose length is not 16. -/
theorem newCipher_len (key : Bytes) :
    (∃ c, newCipher key = .ok c) ↔ key.length = 16 := by
  unfold newCipher
  by_cases h : key.length = 16 <;> simp [h]

-- operation histories on one cipher object --------------------------------------------------------

/-- what the standard says the call returns into a 16-byte `dst` -/
def specOut (key : Bytes) : Op → Except Fault Bytes
  | .enc d s => if s.length < 16 then .error (.panic "index out of range")
                else .ok ((Spec.SM4.encrypt key (s.take 16)).take d.length ++ d.drop 16)
  | .dec d s => if s.length < 16 then .error (.panic "index out of range")
                else .ok ((Spec.SM4.decrypt key (s.take 16)).take d.length ++ d.drop 16)

theorem ofBytes_take16 (s : Bytes) : ofBytes (s.take 16) = ofBytes s := by
  unfold ofBytes
  simp only [List.getD_eq_getElem?_getD, List.getElem?_take]
  simp

theorem cryptBlock_spec (c : Cipher) (key : Bytes) (hk : c.subkeys = generateSubKeys key)
    (dst src : Bytes) (d : Bool) :
    cryptBlock c dst src d =
      if src.length < 16 then .error (.panic "index out of range")
      else .ok (⟨c.subkeys,
                 ofBytes ((if d then Spec.SM4.decrypt key src else Spec.SM4.encrypt key src)),
                 (if d then Spec.SM4.decrypt key src else Spec.SM4.encrypt key src)⟩,
                (if d then Spec.SM4.decrypt key src else Spec.SM4.encrypt key src).take dst.length ++ dst.drop 16) := by
  unfold cryptBlock
  by_cases hs : src.length < 16
  · simp [hs]
  · simp only [hs, if_false]
    cases d
    · have := cryptBlock_enc_eq_spec key src
      unfold cryptBlockCore at this
      simp only [Bool.false_eq_true, if_false] at this ⊢
      rw [hk, this, ← this]
      simp [permuteFinalBlock, ofBytes_toBytes]
    · have := cryptBlock_dec_eq_spec key src
      unfold cryptBlockCore at this
      simp only [if_true] at this ⊢
      rw [hk, this, ← this]
      simp [permuteFinalBlock, ofBytes_toBytes]

theorem encrypt_take16 (key s : Bytes) : Spec.SM4.encrypt key (s.take 16) = Spec.SM4.encrypt key s := by
  unfold Spec.SM4.encrypt; rw [ofBytes_take16]
theorem decrypt_take16 (key s : Bytes) : Spec.SM4.decrypt key (s.take 16) = Spec.SM4.decrypt key s := by
  unfold Spec.SM4.decrypt; rw [ofBytes_take16]

/-- T1 `history_independent`: for every key, every initial scratch contents and every sequence of
    Encrypt/Decrypt calls on one object, the i-th result is what GM/T 0002 prescribes for that
    call's `src` alone — it does not depend on the calls made before (the scratch buffers are fully
    overwritten before they are read), and since `src` is read completely before `dst` is written
    the same holds when `dst` and `src` are the same buffer (`dst` only contributes its length). -/
theorem history_independent (key : Bytes) (c : Cipher) (hk : c.subkeys = generateSubKeys key)
    (ops : List Op) : run c ops = ops.map (specOut key) := by
  induction ops generalizing c with
  | nil => rfl
  | cons op ops ih =>
    cases op with
    | enc d s =>
      unfold run
      simp only [Cipher.encrypt, cryptBlock_spec c key hk, List.map_cons, specOut]
      by_cases hs : s.length < 16
      · simp only [hs, if_true]; rw [ih c hk]
      · simp only [hs, if_false, Bool.false_eq_true, encrypt_take16]
        rw [ih _ (by exact hk)]
    | dec d s =>
      unfold run
      simp only [Cipher.decrypt, cryptBlock_spec c key hk, List.map_cons, specOut]
      by_cases hs : s.length < 16
      · simp only [hs, if_true]; rw [ih c hk]
      · simp only [hs, if_false, if_true, decrypt_take16]
        rw [ih _ (by exact hk)]

/-- Non-vacuity: the hypotheses of the theorems above are met by the standard's example
    (GM/T 0002 appendix A.1); this is a test, labelled as a test. -/
def exKey : Bytes := [0x01,0x23,0x45,0x67,0x89,0xab,0xcd,0xef,0xfe,0xdc,0xba,0x98,0x76,0x54,0x32,0x10]
example : exKey.length = 16 ∧
    Spec.SM4.encrypt exKey exKey =
      [0x68,0x1e,0xdf,0x34,0xd2,0x06,0x96,0x5e,0x86,0xb3,0xe9,0x4f,0x53,0x6e,0x42,0x46] := by
  decide +kernel
example : ∃ c, newCipher exKey = .ok c ∧ c.subkeys = generateSubKeys exKey := ⟨_, rfl, rfl⟩

end Props.C05
