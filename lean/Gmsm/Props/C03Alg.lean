/-
C03 (algorithms) — the scalar recoding and the windowed evaluation used by `ScalarMult`.

 * `wnaf_value`: for EVERY scalar value the windowed-NAF recoding of sm2GenrateWNaf represents it:
   Σ dᵢ·2^posᵢ = k, and the loop always terminates within its fuel.
 * `windowEval_correct`: over ANY commutative group, the evaluation loop of sm2P256ScalarMult
   (pending doublings for zero digits, one doubling, add/subtract the table entry |d|·P) computes
   (Σ dᵢ·2^i) • P.
The Jacobian formulas that implement the group operations are proved equal to the group law of the
curve in `Gmsm/Proofs/ECFormulas.lean` (with Mathlib's `WeierstrassCurve.Affine.Point`).
-/
import Gmsm.Model.SM2Curve
import Mathlib.Algebra.Group.Basic
import Mathlib.Algebra.Module.Basic
import Mathlib.Tactic.Abel
import Mathlib.Tactic.Ring
import Mathlib.Tactic.Linarith
namespace Props.C03Alg
open Model.SM2Curve

/-- value represented by (position, digit) pairs -/
def dval (ds : List (Nat × Int)) : Int := (ds.map fun (p, d) => d * 2 ^ p).sum

theorem bitLen_le (k pos : Nat) (h : pos ≤ bitLen k) (hk : 0 < pos) : 2 ^ (pos - 1) ≤ k := by
  unfold bitLen at h
  split at h
  · omega
  · rename_i hk0
    have h1 := Nat.log2_self_le hk0
    calc 2 ^ (pos - 1) ≤ 2 ^ k.log2 := Nat.pow_le_pow_right (by decide) (by omega)
      _ ≤ k := h1

theorem div_pow_succ (k pos : Nat) : k / 2 ^ pos = 2 * (k / 2 ^ (pos + 1)) + k / 2 ^ pos % 2 := by
  rw [Nat.pow_succ, ← Nat.div_div_eq_div_mul]
  omega

/-- the loop invariant: K = value(acc) + 2^(length+pos) · (⌊k / 2^pos⌋ + carry) -/
theorem wnafLoop_value (fuel k : Nat) (carry : Bool) (pos length : Nat) (acc ds : List (Nat × Int)) (K : Int)
    (hinv : K = dval acc + 2 ^ (length + pos) * ((k / 2 ^ pos + (if carry then 1 else 0) : Nat) : Int))
    (hc : carry = true → pos ≤ bitLen k)
    (h : wnafLoop fuel k carry pos length acc = some ds) : K = dval ds := by
  induction fuel generalizing k carry pos length acc with
  | zero => simp [wnafLoop] at h
  | succ fuel ih =>
    unfold wnafLoop at h
    by_cases hexit : pos > bitLen k
    · simp only [hexit, if_true, Option.some.injEq] at h
      subst h
      have hcf : carry = false := by
        cases carry with
        | false => rfl
        | true => have := hc rfl; omega
      have hk0 : k / 2 ^ pos = 0 := by
        apply Nat.div_eq_of_lt
        unfold bitLen at hexit
        split at hexit
        · rename_i h0; rw [h0]; exact Nat.two_pow_pos _
        · exact Nat.lt_of_lt_of_le (Nat.lt_log2_self) (Nat.pow_le_pow_right (by decide) (by omega))
      rw [hinv, hk0, hcf]; simp
    · simp only [hexit, if_false] at h
      by_cases hskip : ((k / 2 ^ pos % 2 == 1) == carry) = true
      · simp only [hskip, if_true] at h
        refine ih k carry (pos + 1) length acc ?_ ?_ h
        · rw [hinv]
          have hd := div_pow_succ k pos
          have hbit : (k / 2 ^ pos % 2 : Nat) = if carry then 1 else 0 := by
            cases carry <;> simp at hskip ⊢ <;> omega
          have hn : k / 2 ^ pos + (if carry then 1 else 0) = 2 * (k / 2 ^ (pos + 1) + (if carry then 1 else 0)) := by
            cases carry <;> simp at hbit ⊢ <;> omega
          rw [hn, show length + (pos + 1) = (length + pos) + 1 by omega, pow_succ]
          push_cast; ring
        · intro hct
          have hb : k / 2 ^ pos % 2 = 1 := by
            subst hct; simpa using hskip
          -- bit `pos` is set, so pos < bitLen k
          by_contra hlt
          have hpos : pos = bitLen k := by omega
          have : k / 2 ^ pos = 0 := by
            apply Nat.div_eq_of_lt
            rw [hpos]; unfold bitLen
            split
            · rename_i h0; rw [h0]; exact Nat.two_pow_pos _
            · exact Nat.lt_log2_self
          omega
      · simp only [hskip, Bool.false_eq_true, if_false] at h
        -- emit a digit
        refine ih (k / 2 ^ pos) _ 4 (length + pos) _ ?_ ?_ h
        · rw [hinv]
          simp only [dval, List.map_cons, List.sum_cons]
          set k' := k / 2 ^ pos with hk'
          have hsplit : k' = 16 * (k' / 2 ^ 4) + k' % 16 := by
            have : k' = 16 * (k' / 16) + k' % 16 := (Nat.div_add_mod k' 16).symm
            have e : k' / 2 ^ 4 = k' / 16 := by norm_num
            rw [e]; exact this
          have hrange : (k' % 16 : Nat) < 16 := Nat.mod_lt _ (by decide)
          generalize hq : k' / 2 ^ 4 = q at hsplit ⊢
          generalize hlow : k' % 16 = low at hsplit hrange ⊢
          have hk'' : (k' : Int) = 16 * (q : Int) + (low : Int) := by exact_mod_cast hsplit
          rw [show length + pos + 4 = (length + pos) + 4 by rfl, pow_add]
          cases carry <;> simp only [if_true, if_false, Bool.false_eq_true] <;>
            (split <;> (push_cast; rw [hk'']; ring))
        · intro hc'
          -- a carry out of the window means the digit value was ≥ 8, so k' ≥ 8 and bitLen k' ≥ 4
          simp only [beq_iff_eq] at hc'
          set k' := k / 2 ^ pos with hk'
          have h8 : 7 ≤ k' % 16 := by
            cases carry <;> simp at hc' <;> omega
          have hk8 : 7 ≤ k' := le_trans h8 (Nat.mod_le _ _)
          have hne : k' ≠ 0 := by omega
          have hodd : k' % 16 ≠ 7 ∨ carry = true := by
            cases carry
            · left; simp at hc'; omega
            · right; rfl
          have hk8' : 8 ≤ k' := by
            rcases hodd with h | h
            · have : 8 ≤ k' % 16 := by omega
              exact le_trans this (Nat.mod_le _ _)
            · -- with a carry in, the bit at `pos` was 0, so k' is even and 7 ≤ k' % 16 means ≥ 8
              subst h
              have hb : ¬ (k' % 2 = 1) := by
                intro hb; apply hskip; simp [hb]
              omega
          unfold bitLen
          simp only [hne, if_false]
          have : 3 ≤ k'.log2 := by rw [Nat.le_log2 hne]; omega
          omega

/-- T1 `wnaf_terminates`: the fuel 2·bitLen(k)+12 is never exhausted -/
theorem bitLen_div (k pos : Nat) : bitLen (k / 2 ^ pos) ≤ bitLen k - pos := by
  unfold bitLen
  by_cases hk0 : k = 0
  · simp [hk0]
  · by_cases hq : k / 2 ^ pos = 0
    · simp [hq]
    · simp only [hq, hk0, if_false]
      have h1 : 2 ^ (k / 2 ^ pos).log2 ≤ k / 2 ^ pos := Nat.log2_self_le hq
      have h2 : 2 ^ ((k / 2 ^ pos).log2 + pos) ≤ k := by
        rw [pow_add]
        calc 2 ^ (k / 2 ^ pos).log2 * 2 ^ pos ≤ (k / 2 ^ pos) * 2 ^ pos := Nat.mul_le_mul_right _ h1
          _ ≤ k := Nat.div_mul_le_self k _
      have := (Nat.le_log2 hk0).mpr h2
      omega

theorem wnafLoop_isSome (fuel k : Nat) (carry : Bool) (pos length : Nat) (acc : List (Nat × Int))
    (hf : 0 < fuel ∧ 2 * bitLen k + 10 ≤ fuel + pos) :
    (wnafLoop fuel k carry pos length acc).isSome = true := by
  induction fuel generalizing k carry pos length acc with
  | zero => omega
  | succ fuel ih =>
    unfold wnafLoop
    by_cases hexit : pos > bitLen k
    · simp [hexit]
    · simp only [hexit, if_false]
      split
      · exact ih k carry (pos + 1) length acc (by omega)
      · apply ih
        have hb := bitLen_div k pos
        omega

/-- T1 `wnaf_value`: for every scalar value k, the digits produced by `sm2GenrateWNaf` satisfy
    Σ dᵢ · 2^posᵢ = k. -/
theorem wnaf_value (k : Nat) : dval (wnafDigits k) = k := by
  unfold wnafDigits
  have hs := wnafLoop_isSome (2 * bitLen k + 12) k false 0 0 [] (by omega)
  cases hr : wnafLoop (2 * bitLen k + 12) k false 0 0 [] with
  | none => simp [hr] at hs
  | some ds =>
    simp only [Option.getD_some]
    have := wnafLoop_value (2 * bitLen k + 12) k false 0 0 [] ds (k : Int) (by simp [dval]) (by simp) hr
    exact this.symm

-- the evaluation loop over an arbitrary commutative group -------------------------------------------------

section
variable {G : Type} [AddCommGroup G]

/-- the state of the loop: accumulator and the number of pending doublings -/
def evalStep (P : G) (st : G × Nat) (d : Int) : G × Nat :=
  if d = 0 then (st.1, st.2 + 1)
  else ((2 : Int) ^ (st.2 + 1) • st.1 + d • P, 0)

/-- `sm2P256ScalarMult`: digits most significant first -/
def windowEval (P : G) (digits : List Int) : G :=
  let st := digits.foldl (evalStep P) (0, 0)
  (2 : Int) ^ st.2 • st.1

/-- value of a digit string, most significant first -/
def msbVal (digits : List Int) : Int := digits.foldl (fun v d => 2 * v + d) 0

theorem foldl_evalStep (P : G) (digits : List Int) (acc : G) (z : Nat) (v : Int) (hv : acc = v • P) :
    let st := digits.foldl (evalStep P) (acc, z)
    (2 : Int) ^ st.2 • st.1 = (digits.foldl (fun v d => 2 * v + d) ((2 : Int) ^ z * v)) • P := by
  induction digits generalizing acc z v with
  | nil => simp [hv, mul_smul]
  | cons d ds ih =>
    simp only [List.foldl_cons]
    by_cases hd : d = 0
    · simp only [evalStep, hd, if_true]
      have := ih acc (z + 1) v hv
      simp only at this
      rw [this]
      congr 2
      rw [pow_succ]; ring
    · simp only [evalStep, hd, if_false]
      have := ih ((2 : Int) ^ (z + 1) • acc + d • P) 0 ((2 : Int) ^ (z + 1) * v + d)
        (by rw [hv, add_smul, mul_smul])
      simp only at this
      rw [this]
      congr 2
      rw [pow_succ]; ring

/-- T1 `windowEval_correct`: over any commutative group and for every digit string, the loop of
    `sm2P256ScalarMult` computes (value of the digits) • P. -/
theorem windowEval_correct (P : G) (digits : List Int) : windowEval P digits = msbVal digits • P := by
  unfold windowEval msbVal
  have := foldl_evalStep P digits (0 : G) 0 0 (by simp)
  simpa using this
end

end Props.C03Alg
