/-
C06 / C07 / C15 (and C19-like chunk independence) — the BUFFERING logic above gmtls' record layer
(`Model.ConnRead`: `Conn.Read` with the block `c.input`, `Conn.readHandshake` with the buffer `c.hand`,
both over the records that `Conn.readRecord` hands on; record protection itself is `Model.Record` /
`Props.C07Stream`).

Served property sentences:
  C06 "… deliver every application byte stream in order and unmodified in both directions."
  C07 "… what the application reads is always a prefix of what was written."
  C15 "… with inconsistent length fields … an endpoint aborts … never keeps waiting on input that has ended."
  C19-like: results do not depend on how the caller sizes its reads or how the peer fragments.

1. `Conn.Read` — for ALL record lists, ALL transport segmentations, ALL buffer-size lists:
     `read_spec` (conservation law of one Read), `read_stream`, `read_chunk_independent`, `read_progress`,
     `read_zero_len`, `read_after_error`, `read_terminates`, `read_empty_limit_hit` / `read_empty_limit_ok`
     (the boundary is 100 / 101), `read_current_record`, `read_eof_lookahead`, `read_eof_not_buffered`,
     `read_lookahead_no_drop`, `read_never_nil`.
2. `Conn.readHandshake` — for ALL message lists and ALL fragmentations:
     `hs_reassembly`, `hs_fragmentation_independent`, `hs_too_long` (+ `readHandshake_tooLong`),
     `hs_truncated_is_error`, `hs_empty_records`, `ccs_requires_empty_hand`.

The model is untouched; `stream`, `ending`, `remaining`, `WellFormed`, … defined here are plain specifications.
Core Lean only.
-/
import Gmsm.Model.ConnRead
namespace Props.C06Read
open Gmsm Model.ConnRead

/-! ## 1. `Conn.Read` -/

/-- THE application byte stream carried by a record list, as `readRecord` interprets it (from warning counter
    `wc`): the payloads of the application-data records, in order, up to the first event that ends delivery —
    close_notify, a record on which `readRecord` fails, the 6th warning alert in a row, or the end of the
    transport.  Warning alerts (≤ 5 in a row) are skipped.  `stream_dataItems` below: for
    `data … data ‖ (close_notify | failing record | end)` this is just the concatenation of the payloads. -/
def stream : Nat → List Item → Bytes
  | _, [] => []
  | wc, it :: rest =>
    match it.kind with
    | .data p => p ++ stream (if p.length > 0 then 0 else wc) rest
    | .closeNotify => []
    | .warning => if wc + 1 > maxWarnAlertCount then [] else stream (wc + 1) rest
    | .fail _ _ => []

/-- the sticky error in which reading this record list ends (`io.EOF` for close_notify and for the end of the
    transport — the code does not tell them apart, conn.go 603-608) -/
def ending : Nat → List Item → Err
  | _, [] => .eof
  | wc, it :: rest =>
    match it.kind with
    | .data p => ending (if p.length > 0 then 0 else wc) rest
    | .closeNotify => .eof
    | .warning => if wc + 1 > maxWarnAlertCount then .tooManyWarn else ending (wc + 1) rest
    | .fail _ e => e

/-- what a reader state still owes the application: the rest of the current record, then the stream of the
    transport — nothing once an error is stored -/
def remaining (r : Reader) : Bytes :=
  r.input.getD [] ++ (if r.err = none then stream r.warnCount r.pending else [])

/-- the sticky error a reader state will end in -/
def endingOf (r : Reader) : Err :=
  match r.err with
  | some e => e
  | none => ending r.warnCount r.pending

/-- `c.in.err != nil → c.input == nil`: holds initially and is preserved (`read_spec`).  It matters: `Conn.Read`
    tests `c.in.err` BEFORE it looks at `c.input` (conn.go 1172-1176), so bytes left in `c.input` while an error is
    stored would be lost. -/
def Inv (r : Reader) : Prop := r.err ≠ none → r.input = none

theorem aux_spec (l : List Item) (wc : Nat) :
    (∃ p, (readRecordAux l wc).input = some p ∧ (readRecordAux l wc).err = none ∧
        stream wc l = p ++ stream (readRecordAux l wc).warnCount (readRecordAux l wc).pending ∧
        ending wc l = ending (readRecordAux l wc).warnCount (readRecordAux l wc).pending) ∨
    (∃ e, (readRecordAux l wc).input = none ∧ (readRecordAux l wc).err = some e ∧
        stream wc l = [] ∧ ending wc l = e) := by
  induction l generalizing wc with
  | nil => right; exact ⟨.eof, rfl, rfl, rfl, rfl⟩
  | cons it rest ih =>
    cases hk : it.kind with
    | data p => left; refine ⟨p, ?_, ?_, ?_, ?_⟩ <;> simp [readRecordAux, stream, ending, hk]
    | closeNotify => right; refine ⟨.eof, ?_, ?_, ?_, ?_⟩ <;> simp [readRecordAux, stream, ending, hk]
    | warning =>
      by_cases hw : wc + 1 > maxWarnAlertCount
      · right; refine ⟨.tooManyWarn, ?_, ?_, ?_, ?_⟩ <;> simp [readRecordAux, stream, ending, hk, hw]
      · have := ih (wc + 1)
        simpa [readRecordAux, stream, ending, hk, hw] using this
    | fail a e => right; refine ⟨e, ?_, ?_, ?_, ?_⟩ <;> simp [readRecordAux, stream, ending, hk]

theorem aux_suffix (l : List Item) (wc : Nat) : (readRecordAux l wc).pending <:+ l := by
  induction l generalizing wc with
  | nil => simp [readRecordAux]
  | cons it rest ih =>
    cases hk : it.kind with
    | data p => simp [readRecordAux, hk]
    | closeNotify => simp [readRecordAux, hk]
    | warning =>
      by_cases hw : wc + 1 > maxWarnAlertCount
      · simp [readRecordAux, hk, hw]
      · have := ih (wc + 1)
        simp only [readRecordAux, hk, hw, if_false]
        exact List.IsSuffix.trans this (List.suffix_cons _ _)
    | fail a e => simp [readRecordAux, hk]

theorem aux_len (l : List Item) (wc : Nat) (h : l ≠ []) : (readRecordAux l wc).pending.length < l.length := by
  cases l with
  | nil => exact absurd rfl h
  | cons it rest =>
    cases hk : it.kind with
    | data p => simp [readRecordAux, hk]
    | closeNotify => simp [readRecordAux, hk]
    | warning =>
      by_cases hw : wc + 1 > maxWarnAlertCount
      · simp [readRecordAux, hk, hw]
      · have := (aux_suffix rest (wc + 1)).length_le
        simp only [readRecordAux, hk, hw, if_false, List.length_cons]
        omega
    | fail a e => simp [readRecordAux, hk]

theorem readRecord_spec (r : Reader) (hi : r.input = none) (he : r.err = none) :
    remaining (readRecord r) = remaining r ∧ endingOf (readRecord r) = endingOf r ∧
    ((∃ p, (readRecord r).input = some p ∧ (readRecord r).err = none) ∨
     (∃ e, (readRecord r).input = none ∧ (readRecord r).err = some e)) := by
  rcases aux_spec r.pending r.warnCount with ⟨p, h1, h2, h3, h4⟩ | ⟨e, h1, h2, h3, h4⟩
  · refine ⟨?_, ?_, Or.inl ⟨p, ?_, ?_⟩⟩ <;>
      simp [readRecord, remaining, endingOf, h1, h2, h3, h4, hi, he]
  · refine ⟨?_, ?_, Or.inr ⟨e, ?_, ?_⟩⟩ <;>
      simp [readRecord, remaining, endingOf, h1, h2, h3, h4, hi, he]

/-- the inner `for c.input == nil && c.in.err == nil` loop of one iteration -/
def pre (r : Reader) : Reader := if r.input.isNone ∧ r.err.isNone then readRecord r else r

/-- `c.input.Read(b)` and freeing the exhausted block -/
def drain (b : Nat) (r1 : Reader) (rest : Bytes) : Reader :=
  { r1 with input := if (rest.drop b).isEmpty then none else some (rest.drop b) }

theorem readLoop_succ (b k : Nat) (r : Reader) :
    readLoop b (k + 1) r =
      match (pre r).err with
      | some e => (pre r, ([], some e))
      | none =>
        match (pre r).input with
        | none => (pre r, ([], some .nilInput))
        | some rest =>
          if (rest.take b).length ≠ 0 ∧ (drain b (pre r) rest).input.isNone ∧
              alertWaiting (drain b (pre r) rest).pending then
            (readRecord (drain b (pre r) rest), (rest.take b, (readRecord (drain b (pre r) rest)).err))
          else if (rest.take b).length ≠ 0 then (drain b (pre r) rest, (rest.take b, none))
          else readLoop b k (drain b (pre r) rest) := rfl

theorem pre_spec (r : Reader) :
    remaining (pre r) = remaining r ∧ endingOf (pre r) = endingOf r ∧ (Inv r → Inv (pre r)) ∧
    (pre r).pending.length ≤ r.pending.length ∧
    ((∃ e, (pre r).err = some e ∧ (r.err = none → (pre r).input = none)) ∨
     (∃ rest, (pre r).err = none ∧ r.err = none ∧ (pre r).input = some rest ∧
        (r.input = none → (pre r).pending.length < r.pending.length))) := by
  unfold pre
  by_cases h : r.input.isNone ∧ r.err.isNone
  · rw [if_pos h]
    have hi : r.input = none := by simpa using h.1
    have he : r.err = none := by simpa using h.2
    obtain ⟨h1, h2, h3⟩ := readRecord_spec r hi he
    refine ⟨h1, h2, ?_, ?_, ?_⟩
    · intro _ hne
      rcases h3 with ⟨p, _, h5⟩ | ⟨e, h4, _⟩
      · exact absurd h5 hne
      · exact h4
    · exact (aux_suffix r.pending r.warnCount).length_le
    · rcases h3 with ⟨p, h4, h5⟩ | ⟨e, h4, h5⟩
      · refine Or.inr ⟨p, h5, he, h4, fun _ => ?_⟩
        by_cases hp : r.pending = []
        · simp [readRecord, readRecordAux, hp] at h5
        · exact aux_len r.pending r.warnCount hp
      · exact Or.inl ⟨e, h5, fun _ => h4⟩
  · rw [if_neg h]
    refine ⟨rfl, rfl, id, Nat.le_refl _, ?_⟩
    cases he : r.err with
    | some e => exact Or.inl ⟨e, rfl, fun h => by simp at h⟩
    | none =>
      cases hi : r.input with
      | none => exact absurd ⟨by simp [hi], by simp [he]⟩ h
      | some rest => exact Or.inr ⟨rest, rfl, rfl, rfl, fun h => by simp at h⟩

theorem drain_spec (b : Nat) (r1 : Reader) (rest : Bytes) (he : r1.err = none) (hin : r1.input = some rest) :
    remaining r1 = rest.take b ++ remaining (drain b r1 rest) ∧ endingOf (drain b r1 rest) = endingOf r1 ∧
    (drain b r1 rest).err = none ∧ (drain b r1 rest).pending = r1.pending := by
  refine ⟨?_, ?_, he, rfl⟩
  · have hd : (drain b r1 rest).input.getD [] = rest.drop b := by
      simp only [drain]
      by_cases h : (rest.drop b).isEmpty
      · rw [if_pos h]; simp at h; simp [h]
      · rw [if_neg h]; rfl
    simp only [remaining, hd, hin, he]
    simp only [drain, he, if_true, Option.getD_some]
    rw [← List.append_assoc, List.take_append_drop]
  · simp [endingOf, drain, he]

/-- everything that one `Conn.Read` does, in one induction over the `emptyRecordCount` loop -/
theorem readLoop_spec (b : Nat) (hb : 1 ≤ b) (k : Nat) (r : Reader) :
    remaining r = (readLoop b k r).2.1 ++ remaining (readLoop b k r).1 ∧
    endingOf (readLoop b k r).1 = endingOf r ∧
    (Inv r → Inv (readLoop b k r).1) ∧
    ((readLoop b k r).2.2 = none → (readLoop b k r).2.1 ≠ []) ∧
    (∀ e, (readLoop b k r).2.2 = some e → e ≠ .noProgress → (readLoop b k r).1.err = some e) ∧
    ((readLoop b k r).1.err ≠ none → r.err = none → (readLoop b k r).2.2 = (readLoop b k r).1.err) ∧
    ((readLoop b k r).1.err = none → (readLoop b k r).2.1 = [] →
      (readLoop b k r).1.pending.length + k ≤ r.pending.length + (if r.input.isSome then 1 else 0)) ∧
    (readLoop b k r).1.pending.length ≤ r.pending.length := by
  induction k generalizing r with
  | zero =>
    have h : readLoop b 0 r = (r, ([], some .noProgress)) := rfl
    rw [h]
    refine ⟨by simp, rfl, id, by simp, ?_, ?_, ?_, ?_⟩
    · intro e h1 h2; simp at h1; exact absurd h1.symm h2
    · intro h1 h2; exact absurd h2 h1
    · intro _ _; show r.pending.length + 0 ≤ _; omega
    · exact Nat.le_refl _
  | succ k ih =>
    rw [readLoop_succ]
    obtain ⟨p1, p2, p3, p4, p5⟩ := pre_spec r
    rcases p5 with ⟨e, he, hin⟩ | ⟨rest, he, hre, hin, hlt⟩
    · simp only [he]
      refine ⟨?_, p2, p3, by simp, ?_, ?_, ?_, p4⟩
      · simpa using p1.symm
      · intro e2 h1 _; simp at h1; rw [← h1]
      · intro _ _; simp
      · intro h; exact absurd h (by simp)
    · simp only [he, hin]
      obtain ⟨d1, d2, d3, d4⟩ := drain_spec b (pre r) rest he hin
      have dinv : Inv (drain b (pre r) rest) := fun h => absurd d3 h
      by_cases hL : (rest.take b).length ≠ 0 ∧ (drain b (pre r) rest).input.isNone ∧
          alertWaiting (drain b (pre r) rest).pending
      · rw [if_pos hL]
        have hi : (drain b (pre r) rest).input = none := by simpa using hL.2.1
        obtain ⟨q1, q2, q3⟩ := readRecord_spec _ hi d3
        refine ⟨?_, ?_, ?_, ?_, ?_, ?_, ?_, ?_⟩
        · simp only []; rw [q1, ← d1, p1]
        · simp only []; rw [q2, d2, p2]
        · intro _ hne
          rcases q3 with ⟨p, _, h5⟩ | ⟨e, h4, _⟩
          · exact absurd h5 hne
          · exact h4
        · intro _ h; exact hL.1 (by simp only [] at h; simp [h])
        · intro e h _; exact h
        · intro _ _; rfl
        · intro _ h; exact absurd (by simp only [] at h; simp [h]) hL.1
        · have := (aux_suffix (drain b (pre r) rest).pending (drain b (pre r) rest).warnCount).length_le
          rw [d4] at this
          exact Nat.le_trans this p4
      · rw [if_neg hL]
        by_cases hM : (rest.take b).length ≠ 0
        · rw [if_pos hM]
          refine ⟨?_, ?_, fun _ => dinv, ?_, ?_, ?_, ?_, by rw [d4]; exact p4⟩
          · simp only []; rw [← d1, p1]
          · simp only []; rw [d2, p2]
          · intro _ h; exact hM (by simp only [] at h; simp [h])
          · intro e h; simp at h
          · intro h; exact absurd d3 h
          · intro _ h; exact absurd (by simp only [] at h; simp [h]) hM
        · rw [if_neg hM]
          have hnil : rest.take b = [] := by
            cases h : rest.take b with
            | nil => rfl
            | cons x xs => exact absurd (by simp [h]) hM
          obtain ⟨i1, i2, i3, i4, i5, i6, i7, i8⟩ := ih (drain b (pre r) rest)
          refine ⟨?_, ?_, fun _ => i3 dinv, i4, i5, fun h _ => i6 h d3, ?_, by rw [d4] at i8; exact Nat.le_trans i8 p4⟩
          · rw [← i1, ← p1, d1, hnil]; rfl
          · rw [i2, d2, p2]
          · intro h1 h2
            have hrest : rest = [] := by
              cases rest with
              | nil => rfl
              | cons x xs => cases b with
                | zero => omega
                | succ b => simp at hnil
            have hdi : (drain b (pre r) rest).input = none := by simp [drain, hrest]
            have := i7 h1 h2
            rw [hdi, d4] at this
            simp only [Option.isSome_none, Bool.false_eq_true, if_false] at this
            cases hri : r.input with
            | none =>
              have h3 := hlt hri
              simp only [Option.isSome_none, Bool.false_eq_true, if_false]; omega
            | some x => simp only [Option.isSome_some, if_true]; omega

/-- **Conservation law of one `Conn.Read(b)`** (conn.go 1142-1207), for every state and buffer size:
    (1) what the state owed = what this Read returned ++ what the new state owes — no byte dropped, duplicated or
        reordered, whichever way the loop, the block bookkeeping and the close_notify look-ahead go;
    (2) the error the connection will end in is unchanged; (3) `Inv` is preserved;
    (4) with a non-empty buffer `(0, nil)` is never returned;
    (5) every returned error except `io.ErrNoProgress` is stored (sticky);
    (6) the Read that stores the error returns it. -/
theorem read_spec (r : Reader) (b : Nat) :
    remaining r = (read r b).2.1 ++ remaining (read r b).1 ∧
    endingOf (read r b).1 = endingOf r ∧
    (Inv r → Inv (read r b).1) ∧
    (1 ≤ b → (read r b).2.2 = none → (read r b).2.1 ≠ []) ∧
    (∀ e, (read r b).2.2 = some e → e ≠ .noProgress → (read r b).1.err = some e) ∧
    ((read r b).1.err ≠ none → r.err = none → (read r b).2.2 = (read r b).1.err) := by
  unfold Model.ConnRead.read
  by_cases hb : b = 0
  · rw [if_pos hb]
    refine ⟨by simp, rfl, id, fun h => by omega, by simp, fun h1 h2 => absurd h2 h1⟩
  · rw [if_neg hb]
    obtain ⟨h1, h2, h3, h4, h5, h6, _, _⟩ := readLoop_spec b (by omega) (maxConsecutiveEmptyRecords + 1) r
    exact ⟨h1, h2, h3, fun _ => h4, h5, h6⟩

/-- `read_spec` (1)-(3) for any sequence of Reads -/
theorem run_spec (r : Reader) (sizes : List Nat) :
    remaining r = delivered (run r sizes).2 ++ remaining (run r sizes).1 ∧
    endingOf (run r sizes).1 = endingOf r ∧
    (Inv r → Inv (run r sizes).1) := by
  induction sizes generalizing r with
  | nil => simp [run, delivered]
  | cons b bs ih =>
    obtain ⟨h1, h2, h3, _⟩ := read_spec r b
    obtain ⟨i1, i2, i3⟩ := ih (read r b).1
    refine ⟨?_, ?_, fun h => i3 (h3 h)⟩
    · simp only [run, delivered, List.map_cons, List.flatten_cons] at *
      rw [List.append_assoc, ← i1, ← h1]
    · simp only [run]; rw [i2, h2]

theorem remaining_of_err (r : Reader) (hinv : Inv r) (h : r.err ≠ none) : remaining r = [] := by
  have := hinv h
  cases he : r.err with
  | none => exact absurd he h
  | some e => simp [remaining, this, he]

theorem init_remaining (pending : List Item) : remaining (Reader.init pending) = stream 0 pending := by
  simp [remaining, Reader.init]

theorem init_ending (pending : List Item) : endingOf (Reader.init pending) = ending 0 pending := by
  simp [endingOf, Reader.init]

theorem init_inv (pending : List Item) : Inv (Reader.init pending) := fun h => absurd rfl h

/-- **C06 "deliver every application byte stream in order and unmodified" / C07 "what the application reads is
    always a prefix of what was written"**, for the buffering above the record layer: for ALL record lists, ALL
    transport segmentations (`sep` bits) and ALL buffer-size lists (zero sizes included), the concatenation of
    what the Reads return is a prefix of `stream 0 pending`; and once the connection has stored its final error
    (a Read has returned EOF or another sticky error) it is EXACTLY `stream 0 pending`, the error is
    `ending 0 pending`, and `c.input` is nil — everything was consumed, nothing was dropped.  In particular the
    look-ahead of conn.go 1193-1199 never loses the rest of a record (the seeded change "look ahead without
    `c.input == nil`" falsifies exactly this: it stores EOF while `c.input` still holds bytes). -/
theorem read_stream (pending : List Item) (sizes : List Nat) :
    delivered (readAll (Reader.init pending) sizes) <+: stream 0 pending ∧
    ((run (Reader.init pending) sizes).1.err ≠ none →
      delivered (readAll (Reader.init pending) sizes) = stream 0 pending ∧
      (run (Reader.init pending) sizes).1.err = some (ending 0 pending) ∧
      (run (Reader.init pending) sizes).1.input = none) := by
  obtain ⟨h1, h2, h3⟩ := run_spec (Reader.init pending) sizes
  rw [init_remaining] at h1
  rw [init_ending] at h2
  refine ⟨⟨_, h1.symm⟩, fun he => ?_⟩
  have hinv := h3 (init_inv pending)
  rw [remaining_of_err _ hinv he, List.append_nil] at h1
  refine ⟨h1.symm, ?_, hinv he⟩
  cases hr : (run (Reader.init pending) sizes).1.err with
  | none => exact absurd hr he
  | some e => rw [← h2]; simp [endingOf, hr]

/-- `stream` and `ending` do not depend on the transport segmentation -/
theorem stream_kinds (l1 l2 : List Item) (wc : Nat) (h : l1.map (·.kind) = l2.map (·.kind)) :
    stream wc l1 = stream wc l2 ∧ ending wc l1 = ending wc l2 := by
  induction l1 generalizing l2 wc with
  | nil => cases l2 with
    | nil => exact ⟨rfl, rfl⟩
    | cons _ _ => simp at h
  | cons a l1 ih => cases l2 with
    | nil => simp at h
    | cons c l2 =>
      simp only [List.map_cons, List.cons.injEq] at h
      obtain ⟨hk, ht⟩ := h
      simp only [stream, ending, ← hk]
      cases a.kind with
      | data p => simp only []; rw [(ih l2 _ ht).1, (ih l2 _ ht).2]; exact ⟨rfl, rfl⟩
      | closeNotify => exact ⟨rfl, rfl⟩
      | warning =>
        simp only []
        by_cases hw : wc + 1 > maxWarnAlertCount
        · simp [hw]
        · simp only [hw, if_false]; exact ih l2 _ ht
      | fail _ _ => exact ⟨rfl, rfl⟩

/-- **Chunk independence (C19-like, for the TLS reader)**: two runs over the same records — with DIFFERENT
    transport segmentations and DIFFERENT buffer-size lists — that both reach the end deliver the same total byte
    string and end in the same error.  (`read_terminates`: every long enough list of non-zero sizes reaches
    the end.) -/
theorem read_chunk_independent (p1 p2 : List Item) (s1 s2 : List Nat)
    (hk : p1.map (·.kind) = p2.map (·.kind))
    (h1 : (run (Reader.init p1) s1).1.err ≠ none) (h2 : (run (Reader.init p2) s2).1.err ≠ none) :
    delivered (readAll (Reader.init p1) s1) = delivered (readAll (Reader.init p2) s2) ∧
    (run (Reader.init p1) s1).1.err = (run (Reader.init p2) s2).1.err := by
  obtain ⟨a1, a2, _⟩ := (read_stream p1 s1).2 h1
  obtain ⟨b1, b2, _⟩ := (read_stream p2 s2).2 h2
  obtain ⟨k1, k2⟩ := stream_kinds p1 p2 0 hk
  rw [a1, b1, a2, b2, k1, k2]; exact ⟨rfl, rfl⟩

/-- after a stored error nothing more is delivered and nothing changes: `(0, err)` for ever (conn.go 1159, 1172-1174);
    only `Read(empty buffer)` still answers `(0, nil)` (1146-1150 comes first) -/
theorem read_after_error (r : Reader) (e : Err) (h : r.err = some e) (b : Nat) :
    read r b = (r, ([], if b = 0 then none else some e)) := by
  unfold Model.ConnRead.read
  by_cases hb : b = 0
  · simp [hb]
  · simp only [hb, if_false]
    have hp : pre r = r := by simp [pre, h]
    show readLoop b (maxConsecutiveEmptyRecords + 1) r = _
    rw [readLoop_succ, hp, h]

/-- `len(b) == 0`: `(0, nil)` at once, state untouched — even if an error is stored or data is waiting (conn.go 1146-1150) -/
theorem read_zero_len (r : Reader) : read r 0 = (r, ([], none)) := rfl

/-- **Progress**: a Read with a non-empty buffer returns at least one byte, or `io.ErrNoProgress` (the
    100-empty-records rule, `read_empty_limit_hit`), or an error that is from then on sticky — never `(0, nil)`. -/
theorem read_progress (r : Reader) (b : Nat) (hb : 1 ≤ b) :
    (read r b).2.1 ≠ [] ∨
    ∃ e, (read r b).2.2 = some e ∧ (e = .noProgress ∨ (read r b).1.err = some e) := by
  obtain ⟨_, _, _, h4, h5, _⟩ := read_spec r b
  cases ho : (read r b).2.2 with
  | none => exact Or.inl (h4 hb ho)
  | some e =>
    refine Or.inr ⟨e, rfl, ?_⟩
    by_cases he : e = .noProgress
    · exact Or.inl he
    · exact Or.inr (h5 e ho he)

/-- one iteration of the loop on an empty application-data record: it is consumed, nothing else changes -/
theorem readLoop_empty (b k : Nat) (s : Bool) (rest : List Item) (wc : Nat) :
    readLoop b (k + 1) ⟨none, ⟨s, .data []⟩ :: rest, none, wc⟩ = readLoop b k ⟨none, rest, none, wc⟩ := by
  rw [readLoop_succ]
  simp [pre, readRecord, readRecordAux, drain]

def AllEmpty (l : List Item) : Prop := ∀ it ∈ l, it.kind = .data []

/-- `k` empty records cost `k` iterations of the `emptyRecordCount` loop and nothing else -/
theorem readLoop_skip_empties (b k : Nat) (empties rest : List Item) (wc : Nat) (he : AllEmpty empties) :
    readLoop b (k + empties.length) ⟨none, empties ++ rest, none, wc⟩ = readLoop b k ⟨none, rest, none, wc⟩ := by
  induction empties with
  | nil => rfl
  | cons it tl ih =>
    have hk : it.kind = .data [] := he it (by simp)
    have : it = ⟨it.sep, .data []⟩ := by cases it; simp at hk; simp [hk]
    rw [this, List.length_cons, ← Nat.add_assoc, List.cons_append, readLoop_empty]
    exact ih (fun x hx => he x (by simp [hx]))

/-- 101 empty records in a row: `io.ErrNoProgress`, exactly these 101 records are consumed, no error stored -/
theorem read_empty_limit_hit (b : Nat) (hb : 1 ≤ b) (empties rest : List Item) (wc : Nat)
    (he : AllEmpty empties) (hl : empties.length = maxConsecutiveEmptyRecords + 1) :
    read ⟨none, empties ++ rest, none, wc⟩ b = (⟨none, rest, none, wc⟩, ([], some .noProgress)) := by
  unfold Model.ConnRead.read
  rw [if_neg (by omega)]
  have := readLoop_skip_empties b 0 empties rest wc he
  rw [Nat.zero_add, hl] at this
  rw [this]; rfl

/-- what one loop iteration does with a current record that still has unread bytes -/
theorem readLoop_current (b k : Nat) (hb : 1 ≤ b) (r : Reader) (rest : Bytes)
    (hi : r.input = some rest) (hr : rest ≠ []) (he : r.err = none) :
    readLoop b (k + 1) r =
      if b < rest.length then ({ r with input := some (rest.drop b) }, (rest.take b, none))
      else if alertWaiting r.pending then
        (readRecord { r with input := none }, (rest, (readRecord { r with input := none }).err))
      else ({ r with input := none }, (rest, none)) := by
  obtain ⟨inp, pend, err, wc⟩ := r
  simp only at hi he
  subst hi he
  have hp : pre ⟨some rest, pend, none, wc⟩ = ⟨some rest, pend, none, wc⟩ := by simp [pre]
  have hlen : 0 < rest.length := List.length_pos_iff.mpr hr
  rw [readLoop_succ, hp]
  simp only []
  by_cases hlt : b < rest.length
  · have hd : ¬ (rest.drop b).isEmpty = true := by simp; omega
    have hb0 : ¬ b = 0 := by omega
    simp [drain, hd, hlt, hb0, hr]
  · have hd : rest.drop b = [] := List.drop_eq_nil_of_le (by omega)
    have ht : rest.take b = rest := List.take_of_length_le (by omega)
    have hne : rest.length ≠ 0 := by omega
    simp only [drain, hd, ht, hlt, if_false, List.isEmpty_nil, if_true, Option.isNone_none, true_and, ne_eq, hne,
      not_false_eq_true]

/-- a non-empty application-data record at the head of the transport becomes the current record -/
theorem readLoop_data_head (b k : Nat) (s : Bool) (p : Bytes) (hp : p ≠ []) (rest : List Item) (wc : Nat) :
    readLoop b (k + 1) ⟨none, ⟨s, .data p⟩ :: rest, none, wc⟩ = readLoop b (k + 1) ⟨some p, rest, none, 0⟩ := by
  have hlen : 0 < p.length := List.length_pos_iff.mpr hp
  rw [readLoop_succ, readLoop_succ]
  simp [pre, readRecord, readRecordAux, hlen]

/-- up to 100 empty records in front of a non-empty one are skipped by ONE Read, which then serves that record -/
theorem read_empty_limit_ok (b : Nat) (hb : 1 ≤ b) (empties rest : List Item) (wc : Nat) (s : Bool) (p : Bytes)
    (he : AllEmpty empties) (hl : empties.length ≤ maxConsecutiveEmptyRecords) (hp : p ≠ []) :
    read ⟨none, empties ++ ⟨s, .data p⟩ :: rest, none, wc⟩ b = read ⟨some p, rest, none, 0⟩ b ∧
    (read ⟨some p, rest, none, 0⟩ b).2.1 = p.take b := by
  have hb0 : ¬ b = 0 := by omega
  constructor
  · unfold Model.ConnRead.read
    rw [if_neg hb0, if_neg hb0]
    obtain ⟨j, hj⟩ : ∃ j, maxConsecutiveEmptyRecords + 1 = (j + 1) + empties.length := ⟨maxConsecutiveEmptyRecords - empties.length, by omega⟩
    rw [hj, readLoop_skip_empties b (j + 1) empties _ wc he, readLoop_data_head b j s p hp,
      readLoop_current b j hb _ p rfl hp rfl, ← hj]
    show _ = readLoop b (100 + 1) _
    rw [readLoop_current b 100 hb _ p rfl hp rfl]
  · unfold Model.ConnRead.read
    rw [if_neg hb0]
    show (readLoop b (100 + 1) _).2.1 = _
    rw [readLoop_current b 100 hb _ p rfl hp rfl]
    by_cases hlt : b < p.length
    · simp [hlt]
    · have ht : p.take b = p := List.take_of_length_le (by omega)
      simp only [hlt, if_false, ht]
      split <;> rfl

/-- the measure that every Read with a non-empty buffer decreases while no error is stored -/
def measure (r : Reader) : Nat :=
  (remaining r).length + r.pending.length + (if r.err = none then 1 else 0)

/-- while no error is stored, every Read with a non-empty buffer strictly decreases
    `|owed bytes| + |records in the transport| + 1` -/
theorem read_measure (r : Reader) (b : Nat) (hb : 1 ≤ b) (he : r.err = none) :
    measure (read r b).1 < measure r := by
  have hb0 : ¬ b = 0 := by omega
  have hread : read r b = readLoop b (maxConsecutiveEmptyRecords + 1) r := by
    unfold Model.ConnRead.read; rw [if_neg hb0]
  obtain ⟨h1, _, _, h4, h5, _, h7, h8⟩ := readLoop_spec b hb (maxConsecutiveEmptyRecords + 1) r
  rw [hread]
  generalize readLoop b (maxConsecutiveEmptyRecords + 1) r = res at *
  obtain ⟨r', out, oc⟩ := res
  simp only at h1 h4 h5 h7 h8 ⊢
  have hlen : (remaining r).length = out.length + (remaining r').length := by rw [h1]; simp
  unfold measure
  rw [he, if_pos rfl, hlen]
  by_cases ho : out = []
  · cases he' : r'.err with
    | some e => simp; omega
    | none =>
      have := h7 he' ho
      simp only [maxConsecutiveEmptyRecords] at this
      rw [if_pos rfl, ho]
      split at this <;> simp <;> omega
  · have : 0 < out.length := List.length_pos_iff.mpr ho
    split <;> omega

theorem run_after_error (r : Reader) (e : Err) (h : r.err = some e) (sizes : List Nat) :
    (run r sizes).1 = r := by
  induction sizes with
  | nil => rfl
  | cons b bs ih => simp only [run]; rw [read_after_error r e h b]; exact ih

/-- "ran until the end", read off the results alone: some Read returned an error other than `io.ErrNoProgress` -/
theorem run_finished_of_outcome (r : Reader) (sizes : List Nat)
    (h : ∃ o ∈ readAll r sizes, ∃ e, o.2 = some e ∧ e ≠ .noProgress) : (run r sizes).1.err ≠ none := by
  induction sizes generalizing r with
  | nil => simp [readAll, run] at h
  | cons b bs ih =>
    obtain ⟨o, ho, e, he1, he2⟩ := h
    simp only [readAll, run, List.mem_cons] at ho
    simp only [run]
    rcases ho with rfl | ho
    · have := (read_spec r b).2.2.2.2.1 e he1 he2
      rw [run_after_error _ e this bs, this]; simp
    · exact ih (read r b).1 ⟨o, ho, e, he1, he2⟩

theorem read_terminates_from (r : Reader) (sizes : List Nat) (hs : ∀ b ∈ sizes, 1 ≤ b)
    (hl : measure r ≤ sizes.length) : (run r sizes).1.err ≠ none := by
  induction sizes generalizing r with
  | nil =>
    intro h
    simp only [run] at h
    simp [measure, h] at hl
  | cons b bs ih =>
    simp only [run]
    cases he : r.err with
    | some e =>
      rw [read_after_error r e he b, run_after_error r e he bs, he]; simp
    | none =>
      have hm := read_measure r b (hs b (by simp)) he
      exact ih (read r b).1 (fun x hx => hs x (by simp [hx])) (by simp at hl; omega)

/-- **C15 "never keeps waiting on input that has ended"** for `Conn.Read`: on a finite transport, ANY list of
    `|stream| + |records| + 1` or more non-empty Reads reaches the stored final error, having delivered exactly
    the stream.  (Each Read is a total function of the model: the loops of `Conn.Read` are bounded by 101 and by
    the records present.) -/
theorem read_terminates (pending : List Item) (sizes : List Nat) (hs : ∀ b ∈ sizes, 1 ≤ b)
    (hl : (stream 0 pending).length + pending.length + 1 ≤ sizes.length) :
    (run (Reader.init pending) sizes).1.err = some (ending 0 pending) ∧
    delivered (readAll (Reader.init pending) sizes) = stream 0 pending := by
  have h := read_terminates_from (Reader.init pending) sizes hs
    (by simp only [measure, init_remaining]; simp [Reader.init]; omega)
  obtain ⟨h1, h2, _⟩ := (read_stream pending sizes).2 h
  exact ⟨h2, h1⟩

/-- **What a Read does with a current record that has unread bytes — exactly** (conn.go 1176-1203):
    `len(b) < rest`: `(len(b), nil)`, the block keeps the rest, NOTHING else is touched (no look-ahead, since
    `c.input != nil`);  `len(b) ≥ rest`: the block is freed and, iff the next record's first byte is already in
    `c.rawInput` and says "alert", ONE more `readRecord` runs and its error (EOF for close_notify) is returned
    together with the bytes. -/
theorem read_current_record (r : Reader) (b : Nat) (hb : 1 ≤ b) (rest : Bytes)
    (hi : r.input = some rest) (hr : rest ≠ []) (he : r.err = none) :
    read r b =
      if b < rest.length then ({ r with input := some (rest.drop b) }, (rest.take b, none))
      else if alertWaiting r.pending then
        (readRecord { r with input := none }, (rest, (readRecord { r with input := none }).err))
      else ({ r with input := none }, (rest, none)) := by
  unfold Model.ConnRead.read
  rw [if_neg (by omega)]
  exact readLoop_current b maxConsecutiveEmptyRecords hb r rest hi hr he

/-- **close_notify look-ahead**: the Read that drains the last data record returns `(n, io.EOF)` when the
    close_notify record is already buffered (`sep = false`) — the model's exact condition: the current record is
    drained completely (`rest.length ≤ len(b)`, i.e. `c.input == nil` afterwards) -/
theorem read_eof_lookahead (b : Nat) (rest : Bytes) (hr : rest ≠ []) (hb : rest.length ≤ b)
    (tl : List Item) (wc : Nat) :
    read ⟨some rest, ⟨false, .closeNotify⟩ :: tl, none, wc⟩ b =
      (⟨none, tl, some .eof, wc⟩, (rest, some .eof)) := by
  have hlen : 0 < rest.length := List.length_pos_iff.mpr hr
  rw [read_current_record _ b (by omega) rest rfl hr rfl, if_neg (by omega)]
  simp [alertWaiting, Rec.alertTyped, readRecord, readRecordAux]

/-- … and when the next record is not yet in `c.rawInput` (it arrives with a later transport read), the same Read
    returns `(n, nil)` and leaves the transport alone, whatever that record is; EOF comes with the next Read -/
theorem read_eof_not_buffered (b : Nat) (rest : Bytes) (hr : rest ≠ []) (hb : rest.length ≤ b)
    (k : Rec) (tl : List Item) (wc : Nat) :
    read ⟨some rest, ⟨true, k⟩ :: tl, none, wc⟩ b = (⟨none, ⟨true, k⟩ :: tl, none, wc⟩, (rest, none)) := by
  have hlen : 0 < rest.length := List.length_pos_iff.mpr hr
  rw [read_current_record _ b (by omega) rest rfl hr rfl, if_neg (by omega)]
  simp [alertWaiting]

/-- **Safety of the look-ahead**: a Read that does not drain the current record changes nothing but the block
    offset — it cannot store an error, so the rest of the record stays deliverable.  (This is the statement
    that the seeded bug "drop `c.input == nil` from the look-ahead condition" violates: with it, a partial read
    in front of a buffered close_notify returns `(n, EOF)` and the rest of the record is lost.) -/
theorem read_lookahead_no_drop (r : Reader) (b : Nat) (hb : 1 ≤ b) (rest : Bytes)
    (hi : r.input = some rest) (he : r.err = none) (hlt : b < rest.length) :
    read r b = ({ r with input := some (rest.drop b) }, (rest.take b, none)) := by
  have hr : rest ≠ [] := by intro h; rw [h] at hlt; simp at hlt
  rw [read_current_record r b hb rest hi hr he, if_pos hlt]

/-- the model's placeholder for "`c.input.Read` on a nil block" is never returned (unless a `fail` record was
    given that very class as input): after the inner loop either an error is stored or `c.input != nil` -/
theorem read_never_nil (r : Reader) (b : Nat) (h : endingOf r ≠ .nilInput) :
    (read r b).2.2 ≠ some .nilInput := by
  obtain ⟨_, h2, _, _, h5, _⟩ := read_spec r b
  intro ho
  have := h5 _ ho (by decide)
  apply h
  rw [← h2]; simp [endingOf, this]

def dataItems (ps : List (Bool × Bytes)) : List Item := ps.map fun x => ⟨x.1, .data x.2⟩

/-- the tail begins with an event that ends delivery: end of transport, close_notify, or a failing record -/
def Stops : List Item → Prop
  | [] => True
  | it :: _ => it.kind = .closeNotify ∨ ∃ a e, it.kind = .fail a e

/-- for `data₁ … dataₙ` followed by close_notify / a failing record / the end of the transport, `stream` is the
    concatenation of the payloads ("the application-data payloads received before the first non-data event") -/
theorem stream_dataItems (ps : List (Bool × Bytes)) (tail : List Item) (ht : Stops tail) (wc : Nat) :
    stream wc (dataItems ps ++ tail) = (ps.map (·.2)).flatten := by
  induction ps generalizing wc with
  | nil =>
    cases tail with
    | nil => rfl
    | cons it tl =>
      rcases ht with h | ⟨a, e, h⟩ <;> simp [dataItems, stream, h]
  | cons x xs ih =>
    simp only [dataItems, List.map_cons, List.cons_append, stream, List.flatten_cons]
    rw [← dataItems, ih]

example : readAll (Reader.init [⟨false, .data [1, 2, 3]⟩, ⟨false, .closeNotify⟩]) [2, 2, 2]
    = [([1, 2], none), ([3], some .eof), ([], some .eof)] := by decide
example : readAll (Reader.init [⟨false, .data [1, 2, 3]⟩, ⟨true, .closeNotify⟩]) [3, 2]
    = [([1, 2, 3], none), ([], some .eof)] := by decide
example : readAll (Reader.init (List.replicate 101 ⟨false, .data []⟩ ++ [⟨false, .data [7]⟩])) [5, 5, 5]
    = [([], some .noProgress), ([7], none), ([], some .eof)] := by decide
example : readAll (Reader.init (List.replicate 100 ⟨false, .data []⟩ ++ [⟨false, .data [7]⟩])) [5, 5]
    = [([7], none), ([], some .eof)] := by decide

/-! ## 2. `readHandshake` -/

theorem fillGo_done (need : Nat) (hand : Bytes) (wc : Nat) (pending : List HRec) (h : need ≤ hand.length) :
    fillGo need hand wc pending = (⟨hand, pending, none, wc⟩, none) := by
  unfold fillGo; simp [h]

theorem fillGo_hs (need : Nat) (hand : Bytes) (wc : Nat) (p : Bytes) (rest : List HRec) (h : ¬ need ≤ hand.length) :
    fillGo need hand wc (.hs p :: rest) = fillGo need (hand ++ p) (if p.length > 0 then 0 else wc) rest := by
  rw [fillGo]; simp [h]

theorem fillGo_nil (need : Nat) (hand : Bytes) (wc : Nat) (h : ¬ need ≤ hand.length) :
    fillGo need hand wc [] = (⟨hand, [], some .eof, wc⟩, some .eof) := by
  rw [fillGo]; simp [h]

/-- with no stored error, `fill` is the record loop -/
theorem fill_eq_fillGo (need : Nat) (s : HsBuf) (he : s.err = none) :
    fill need s = fillGo need s.hand s.warnCount s.pending := by
  unfold fill
  by_cases h : need ≤ s.hand.length
  · rw [if_pos h, fillGo_done _ _ _ _ h]
    cases s; simp at he; simp [he]
  · rw [if_neg h, he]

/-- enough handshake bytes are on their way: the loop stops at the first record that completes `need` bytes,
    stores nothing but those records' payloads, and does not touch what follows -/
theorem fillGo_ok (need : Nat) (frags : List Bytes) (tail : List HRec) (hand : Bytes) (wc : Nat)
    (h : need ≤ hand.length + frags.flatten.length) :
    ∃ f1 f2 wc2, frags = f1 ++ f2 ∧
      fillGo need hand wc (frags.map .hs ++ tail) = (⟨hand ++ f1.flatten, f2.map .hs ++ tail, none, wc2⟩, none) ∧
      need ≤ (hand ++ f1.flatten).length ∧
      (f1 ≠ [] → (hand ++ f1.dropLast.flatten).length < need) := by
  induction frags generalizing hand wc with
  | nil =>
    refine ⟨[], [], wc, rfl, ?_, by simpa using h, fun h => absurd rfl h⟩
    rw [fillGo_done _ _ _ _ (by simpa using h)]; simp
  | cons p fs ih =>
    by_cases hd : need ≤ hand.length
    · refine ⟨[], p :: fs, wc, rfl, ?_, by simpa using hd, fun h => absurd rfl h⟩
      rw [fillGo_done _ _ _ _ hd]; simp
    · obtain ⟨f1, f2, wc2, e1, e2, e3, e4⟩ := ih (hand ++ p) (if p.length > 0 then 0 else wc)
        (by simp at h ⊢; omega)
      refine ⟨p :: f1, f2, wc2, by simp [e1], ?_, by simpa [List.append_assoc] using e3, fun _ => ?_⟩
      · rw [List.map_cons, List.cons_append, fillGo_hs _ _ _ _ _ hd, e2]; simp [List.append_assoc]
      · cases f1 with
        | nil => simp; omega
        | cons q qs =>
          have := e4 (by simp)
          rw [List.dropLast_cons_cons] <;> simpa [List.append_assoc] using this

/-- the transport ends before `need` bytes have arrived: `io.EOF`, everything received so far is in `c.hand` -/
theorem fillGo_short (need : Nat) (frags : List Bytes) (hand : Bytes) (wc : Nat)
    (h : hand.length + frags.flatten.length < need) :
    ∃ wc2, fillGo need hand wc (frags.map .hs) = (⟨hand ++ frags.flatten, [], some .eof, wc2⟩, some .eof) := by
  induction frags generalizing hand wc with
  | nil => exact ⟨wc, by rw [List.map_nil, fillGo_nil _ _ _ (by simp at h; omega)]; simp⟩
  | cons p fs ih =>
    obtain ⟨wc2, e⟩ := ih (hand ++ p) (if p.length > 0 then 0 else wc) (by simp at h ⊢; omega)
    exact ⟨wc2, by rw [List.map_cons, fillGo_hs _ _ _ _ _ (by simp at h; omega), e]; simp [List.append_assoc]⟩

/-- a handshake message: 4-byte header whose 24-bit length is the length of the body, at most `maxHandshake` -/
def WellFormed (m : Bytes) : Prop := m.length = 4 + len24 m ∧ len24 m ≤ maxHandshake

theorem getD_append_left (a b : Bytes) (i : Nat) (d : Byte) (h : i < a.length) :
    (a ++ b).getD i d = a.getD i d := by
  simp [List.getD_eq_getElem?_getD, List.getElem?_append_left h]

theorem len24_append (a b : Bytes) (h : 4 ≤ a.length) : len24 (a ++ b) = len24 a := by
  unfold len24
  rw [getD_append_left _ _ _ _ (by omega), getD_append_left _ _ _ _ (by omega), getD_append_left _ _ _ _ (by omega)]

theorem len24_of_eq (a b c d : Bytes) (h : a ++ b = c ++ d) (ha : 4 ≤ a.length) (hc : 4 ≤ c.length) :
    len24 a = len24 c := by
  rw [← len24_append a b ha, h, len24_append c d hc]

/-- one `readHandshake` call when the next well-formed message is (or will be) completely there -/
theorem readHandshake_msg (accept : Bytes → Bool) (frags : List Bytes) (tail : List HRec) (hand : Bytes) (wc : Nat)
    (m rest : Bytes) (hm : WellFormed m) (ha : accept m = true) (hs : hand ++ frags.flatten = m ++ rest) :
    ∃ (hand2 : Bytes) (frags2 : List Bytes) (wc2 : Nat),
      readHandshake accept ⟨hand, frags.map .hs ++ tail, none, wc⟩ =
        (⟨hand2, frags2.map .hs ++ tail, none, wc2⟩, .msg m) ∧
      hand2 ++ frags2.flatten = rest := by
  obtain ⟨hm1, hm2⟩ := hm
  have hlen : hand.length + frags.flatten.length = m.length + rest.length := by
    have := congrArg List.length hs; simpa only [List.length_append] using this
  obtain ⟨f1, f2, wc2, e1, e2, e3, _⟩ := fillGo_ok 4 frags tail hand wc (by omega)
  have hs1 : (hand ++ f1.flatten) ++ f2.flatten = m ++ rest := by
    rw [← hs, e1]; simp [List.append_assoc]
  have hn : len24 (hand ++ f1.flatten) = len24 m := len24_of_eq _ _ _ _ hs1 e3 (by omega)
  have hlen1 : (hand ++ f1.flatten).length + f2.flatten.length = m.length + rest.length := by
    have := congrArg List.length hs1; simpa only [List.length_append] using this
  obtain ⟨g1, g2, wc3, k1, k2, k3, _⟩ :=
    fillGo_ok (4 + len24 m) f2 tail (hand ++ f1.flatten) wc2 (by omega)
  have hs2 : (hand ++ f1.flatten ++ g1.flatten) ++ g2.flatten = m ++ rest := by
    rw [← hs1, k1]; simp [List.append_assoc]
  have hk3 : m.length ≤ (hand ++ f1.flatten ++ g1.flatten).length := by omega
  have htake : (hand ++ f1.flatten ++ g1.flatten).take (4 + len24 m) = m := by
    rw [← hm1]
    calc (hand ++ f1.flatten ++ g1.flatten).take m.length
        = ((hand ++ f1.flatten ++ g1.flatten) ++ g2.flatten).take m.length :=
          (List.take_append_of_le_length hk3).symm
      _ = (m ++ rest).take m.length := by rw [hs2]
      _ = m := List.take_left' rfl
  have hdrop : (hand ++ f1.flatten ++ g1.flatten).drop (4 + len24 m) ++ g2.flatten = rest := by
    rw [← hm1]
    calc (hand ++ f1.flatten ++ g1.flatten).drop m.length ++ g2.flatten
        = ((hand ++ f1.flatten ++ g1.flatten) ++ g2.flatten).drop m.length :=
          (List.drop_append_of_le_length hk3).symm
      _ = (m ++ rest).drop m.length := by rw [hs2]
      _ = rest := List.drop_left' rfl
  refine ⟨_, g2, wc3, ?_, hdrop⟩
  unfold readHandshake
  rw [fill_eq_fillGo _ _ rfl]
  simp only [e2, hn]
  rw [if_neg (by omega), fill_eq_fillGo _ _ rfl]
  simp only [k2, htake, ha, if_true]

/-- the transport ends inside a message: fewer than 4 header bytes, or an admissible header with too few body bytes
    (`[]`, the end exactly behind a message, is the case `length < 4`) -/
def Incomplete (p : Bytes) : Prop := p.length < 4 ∨ (len24 p ≤ maxHandshake ∧ p.length < 4 + len24 p)

/-- a complete header that announces more than `maxHandshake` bytes -/
def TooLong (p : Bytes) : Prop := 4 ≤ p.length ∧ maxHandshake < len24 p

/-- the transport ends inside a message (or exactly behind one): `readHandshake` returns `io.EOF`, stored -/
theorem readHandshake_incomplete (accept : Bytes → Bool) (frags : List Bytes) (hand : Bytes) (wc : Nat)
    (hp : Incomplete (hand ++ frags.flatten)) :
    (readHandshake accept ⟨hand, frags.map .hs, none, wc⟩).2 = .error .eof ∧
    (readHandshake accept ⟨hand, frags.map .hs, none, wc⟩).1.err = some .eof := by
  have hlen : (hand ++ frags.flatten).length = hand.length + frags.flatten.length := List.length_append
  rcases hp with hp | ⟨hp1, hp2⟩
  · obtain ⟨wc2, e⟩ := fillGo_short 4 frags hand wc (by omega)
    unfold readHandshake
    rw [fill_eq_fillGo _ _ rfl]
    simp only [e]; exact ⟨trivial, trivial⟩
  · by_cases h4 : (hand ++ frags.flatten).length < 4
    · obtain ⟨wc2, e⟩ := fillGo_short 4 frags hand wc (by omega)
      unfold readHandshake
      rw [fill_eq_fillGo _ _ rfl]
      simp only [e]; exact ⟨trivial, trivial⟩
    · obtain ⟨f1, f2, wc2, e1, e2, e3, _⟩ := fillGo_ok 4 frags [] hand wc (by omega)
      have hs1 : (hand ++ f1.flatten) ++ f2.flatten = hand ++ frags.flatten := by
        rw [e1]; simp [List.append_assoc]
      have hn : len24 (hand ++ f1.flatten) = len24 (hand ++ frags.flatten) := by
        rw [← hs1, len24_append _ _ e3]
      have hlen1 : (hand ++ f1.flatten).length + f2.flatten.length = (hand ++ frags.flatten).length := by
        rw [← hs1, List.length_append (as := hand ++ f1.flatten)]
      obtain ⟨wc3, k⟩ := fillGo_short (4 + len24 (hand ++ frags.flatten)) f2 (hand ++ f1.flatten) wc2 (by omega)
      unfold readHandshake
      rw [fill_eq_fillGo _ _ rfl]
      simp only [List.append_nil] at e2
      simp only [e2, hn]
      rw [if_neg (by omega), fill_eq_fillGo _ _ rfl]
      simp only [k]; exact ⟨trivial, trivial⟩

/-- a header that announces more than 65536 bytes is refused as soon as its 4 bytes are there: the records read
    are the shortest prefix `f1` of the handshake records that completes the header; what follows (`f2`, `tail`:
    anything) is not looked at -/
theorem readHandshake_tooLong (accept : Bytes → Bool) (frags : List Bytes) (tail : List HRec) (hand : Bytes) (wc : Nat)
    (hp : TooLong (hand ++ frags.flatten)) :
    ∃ (f1 f2 : List Bytes) (wc2 : Nat), frags = f1 ++ f2 ∧
      (f1 ≠ [] → (hand ++ f1.dropLast.flatten).length < 4) ∧
      readHandshake accept ⟨hand, frags.map .hs ++ tail, none, wc⟩ =
        (⟨hand ++ f1.flatten, f2.map .hs ++ tail, some .tooLong, wc2⟩, .error .tooLong) := by
  have hlen : (hand ++ frags.flatten).length = hand.length + frags.flatten.length := List.length_append
  obtain ⟨f1, f2, wc2, e1, e2, e3, e4⟩ := fillGo_ok 4 frags tail hand wc (by have := hp.1; omega)
  have hs1 : (hand ++ f1.flatten) ++ f2.flatten = hand ++ frags.flatten := by
    rw [e1]; simp [List.append_assoc]
  have hn : len24 (hand ++ f1.flatten) = len24 (hand ++ frags.flatten) := by
    rw [← hs1, len24_append _ _ e3]
  refine ⟨f1, f2, wc2, e1, e4, ?_⟩
  unfold readHandshake
  rw [fill_eq_fillGo _ _ rfl]
  simp only [e2, hn]
  rw [if_pos hp.2]

/-- the induction behind `hs_reassembly` / `hs_too_long`, from any buffer state -/
theorem messagesFrom_spec (accept : Bytes → Bool) (msgs : List Bytes)
    (hw : ∀ m ∈ msgs, WellFormed m ∧ accept m = true) (part : Bytes)
    (fuel : Nat) (frags : List Bytes) (tail : List HRec) (hand : Bytes) (wc : Nat)
    (hf : msgs.length + 1 ≤ fuel) (hs : hand ++ frags.flatten = msgs.flatten ++ part) :
    (Incomplete part → tail = [] →
      messagesFrom accept fuel ⟨hand, frags.map .hs ++ tail, none, wc⟩ = (msgs, some .eof)) ∧
    (TooLong part →
      messagesFrom accept fuel ⟨hand, frags.map .hs ++ tail, none, wc⟩ = (msgs, some .tooLong)) := by
  induction msgs generalizing fuel frags hand wc with
  | nil =>
    obtain ⟨k, rfl⟩ : ∃ k, fuel = k + 1 := ⟨fuel - 1, by simp at hf; omega⟩
    simp only [List.flatten_nil, List.nil_append] at hs
    constructor
    · intro hp ht
      subst ht
      have h := (readHandshake_incomplete accept frags hand wc (hs ▸ hp)).1
      simp only [List.append_nil]
      cases hr : readHandshake accept ⟨hand, frags.map .hs, none, wc⟩ with
      | mk s1 res => rw [hr] at h; simp only at h; subst h; simp [messagesFrom, hr]
    · intro hp
      obtain ⟨f1, f2, wc2, _, _, e⟩ := readHandshake_tooLong accept frags tail hand wc (hs ▸ hp)
      simp [messagesFrom, e]
  | cons m ms ih =>
    obtain ⟨k, rfl⟩ : ∃ k, fuel = k + 1 := ⟨fuel - 1, by simp at hf; omega⟩
    obtain ⟨hm, ha⟩ := hw m (by simp)
    rw [List.flatten_cons, List.append_assoc] at hs
    obtain ⟨hand2, frags2, wc2, e, hs2⟩ := readHandshake_msg accept frags tail hand wc m _ hm ha hs
    obtain ⟨i1, i2⟩ := ih (fun x hx => hw x (by simp [hx])) k frags2 hand2 wc2 (by simp at hf ⊢; omega) hs2
    constructor
    · intro hp ht
      simp only [messagesFrom, e]
      rw [i1 hp ht]
    · intro hp
      simp only [messagesFrom, e]
      rw [i2 hp]

theorem totalLen_hs (frags : List Bytes) (tail : List HRec) :
    totalLen (frags.map .hs ++ tail) = frags.flatten.length + totalLen tail := by
  induction frags with
  | nil => simp
  | cons p fs ih => simp [totalLen, ih, Nat.add_assoc]

theorem flatten_len_ge (msgs : List Bytes) (hw : ∀ m ∈ msgs, WellFormed m) :
    4 * msgs.length ≤ msgs.flatten.length := by
  induction msgs with
  | nil => simp
  | cons m ms ih =>
    have := (hw m (by simp)).1
    have := ih (fun x hx => hw x (by simp [hx]))
    simp only [List.length_cons, List.flatten_cons, List.length_append]; omega

theorem messages_fuel (msgs : List Bytes) (hw : ∀ m ∈ msgs, WellFormed m) (part : Bytes) (frags : List Bytes)
    (tail : List HRec) (hs : frags.flatten = msgs.flatten ++ part) :
    msgs.length + 1 ≤ totalLen (frags.map .hs ++ tail) / 4 + 1 := by
  have h1 := flatten_len_ge msgs hw
  have h2 : frags.flatten.length = msgs.flatten.length + part.length := by rw [hs]; simp
  rw [totalLen_hs]
  have : msgs.length ≤ (frags.flatten.length + totalLen tail) / 4 :=
    (Nat.le_div_iff_mul_le (by decide)).mpr (by omega)
  omega

/-- **Handshake reassembly (C06/C15)**, conn.go 959-985 + 731-737: for EVERY list of well-formed, accepted
    messages, EVERY admissible unfinished rest `part` (`[]` included) and EVERY way `frags` of cutting
    `msgs ‖ part` into handshake-record payloads — cuts inside the 4-byte header, 1-byte records, several
    messages per record, EMPTY records anywhere — successive `readHandshake` calls return exactly `msgs`, in
    order, and then fail with `io.EOF`: the end of the transport is an error, never a message. -/
theorem hs_reassembly (accept : Bytes → Bool) (msgs : List Bytes)
    (hw : ∀ m ∈ msgs, WellFormed m ∧ accept m = true) (part : Bytes) (hp : Incomplete part)
    (frags : List Bytes) (hs : frags.flatten = msgs.flatten ++ part) :
    messages accept (frags.map .hs) = (msgs, some .eof) := by
  have hf := messages_fuel msgs (fun m hm => (hw m hm).1) part frags [] hs
  have := (messagesFrom_spec accept msgs hw part _ frags [] [] 0 hf (by simpa using hs)).1 hp rfl
  simpa [messages, HsBuf.init] using this

/-- **Fragmentation independence**: any two ways of cutting the same message stream into records give the same
    messages (namely the ones that were sent) and the same end -/
theorem hs_fragmentation_independent (accept : Bytes → Bool) (msgs : List Bytes)
    (hw : ∀ m ∈ msgs, WellFormed m ∧ accept m = true) (frags1 frags2 : List Bytes)
    (h1 : frags1.flatten = msgs.flatten) (h2 : frags2.flatten = msgs.flatten) :
    messages accept (frags1.map .hs) = (msgs, some .eof) ∧
    messages accept (frags2.map .hs) = messages accept (frags1.map .hs) := by
  have hp : Incomplete [] := Or.inl (by decide)
  have a := hs_reassembly accept msgs hw [] hp frags1 (by simpa using h1)
  have b := hs_reassembly accept msgs hw [] hp frags2 (by simpa using h2)
  exact ⟨a, by rw [a, b]⟩

/-- **`n > maxHandshake` (conn.go 970-976)**: after the well-formed messages, a complete header announcing more
    than 65536 bytes ends the handshake with the "exceeds maximum" error, whatever follows it (more handshake
    bytes, other records `tail`, or nothing) and however the header was cut.  `readHandshake_tooLong`: no record
    beyond the one that completed the header is read. -/
theorem hs_too_long (accept : Bytes → Bool) (msgs : List Bytes)
    (hw : ∀ m ∈ msgs, WellFormed m ∧ accept m = true) (part : Bytes) (hp : TooLong part)
    (frags : List Bytes) (tail : List HRec) (hs : frags.flatten = msgs.flatten ++ part) :
    messages accept (frags.map .hs ++ tail) = (msgs, some .tooLong) := by
  have hf := messages_fuel msgs (fun m hm => (hw m hm).1) part frags tail hs
  have := (messagesFrom_spec accept msgs hw part _ frags tail [] 0 hf (by simpa using hs)).2 hp
  simpa [messages, HsBuf.init] using this

theorem incomplete_of_proper_prefix (m part : Bytes) (hm : WellFormed m) (hpre : part <+: m)
    (hlt : part.length < m.length) : Incomplete part := by
  by_cases h4 : part.length < 4
  · exact Or.inl h4
  · obtain ⟨t, ht⟩ := hpre
    have : len24 part = len24 m := by rw [← ht, len24_append _ _ (by omega)]
    exact Or.inr ⟨by rw [this]; exact hm.2, by rw [this, ← hm.1]; exact hlt⟩

/-- **C15 "inconsistent length fields … never keeps waiting on input that has ended"**: a transport that ends
    inside a message (any proper prefix `part` of a well-formed message `m`, e.g. its length field promises more
    than is there) yields the complete messages before it and then an ERROR — the unfinished message is never
    returned, and the call returns (the model's loop is bounded by the records present). -/
theorem hs_truncated_is_error (accept : Bytes → Bool) (msgs : List Bytes)
    (hw : ∀ m ∈ msgs, WellFormed m ∧ accept m = true) (m part : Bytes) (hm : WellFormed m)
    (hpre : part <+: m) (hlt : part.length < m.length)
    (frags : List Bytes) (hs : frags.flatten = msgs.flatten ++ part) :
    messages accept (frags.map .hs) = (msgs, some .eof) :=
  hs_reassembly accept msgs hw part (incomplete_of_proper_prefix m part hm hpre hlt) frags hs

theorem fillGo_empties (need : Nat) (hand : Bytes) (wc k : Nat) (rest : List HRec) (h : ¬ need ≤ hand.length) :
    fillGo need hand wc (List.replicate k (.hs []) ++ rest) = fillGo need hand wc rest := by
  induction k with
  | zero => rfl
  | succ k ih =>
    rw [List.replicate_succ, List.cons_append, fillGo_hs _ _ _ _ _ h]
    simpa using ih

/-- **Empty handshake records are skipped without limit** (what the code does: `c.hand.Write(data)` with
    `len(data) == 0`, conn.go 731-737, inside the unbounded `for c.hand.Len() < 4` loop — unlike `Conn.Read`
    there is no counter): ANY number `k` of them in front of `rest` is consumed by ONE `readHandshake` call,
    which then behaves exactly as on `rest`. -/
theorem hs_empty_records (accept : Bytes → Bool) (k : Nat) (hand : Bytes) (rest : List HRec) (wc : Nat)
    (h : hand.length < 4) :
    readHandshake accept ⟨hand, List.replicate k (.hs []) ++ rest, none, wc⟩ =
    readHandshake accept ⟨hand, rest, none, wc⟩ := by
  unfold readHandshake
  rw [fill_eq_fillGo _ _ rfl, fill_eq_fillGo _ _ rfl]
  simp only [fillGo_empties 4 hand wc k rest (by omega)]

/-- … and only on `warning* ‖ ChangeCipherSpec` -/
theorem recvCCSGo_ok (hand : Bytes) (wc : Nat) (pending : List HRec)
    (h : (recvCCSGo hand wc pending).2 = none) :
    hand = [] ∧ (recvCCSGo hand wc pending).1.hand = [] ∧
    ∃ ws rest, pending = ws ++ .ccs :: rest ∧ (∀ x ∈ ws, x = .warning) ∧ (recvCCSGo hand wc pending).1.pending = rest := by
  induction pending generalizing wc with
  | nil => simp [recvCCSGo] at h
  | cons x rest ih =>
    cases x with
    | ccs =>
      by_cases hh : hand.length > 0
      · simp [recvCCSGo, hh] at h
      · have : hand = [] := by cases hand with | nil => rfl | cons _ _ => simp at hh
        subst this
        exact ⟨rfl, by simp [recvCCSGo], [], rest, rfl, by simp, by simp [recvCCSGo]⟩
    | warning =>
      by_cases hw : wc + 1 > maxWarnAlertCount
      · simp [recvCCSGo, hw] at h
      · simp only [recvCCSGo, hw, if_false] at h ⊢
        obtain ⟨a, b, ws, r2, e1, e2, e3⟩ := ih (wc + 1) h
        exact ⟨a, b, .warning :: ws, r2, by simp [e1], by simpa using e2, e3⟩
    | hs p => simp [recvCCSGo] at h
    | appData => simp [recvCCSGo] at h
    | closeNotify => simp [recvCCSGo] at h
    | fail e => simp [recvCCSGo] at h
    | trunc b => simp [recvCCSGo] at h

/-- **"Handshake messages are not allowed to fragment across the CCS"** (conn.go 713-717):
    `readRecord(recordTypeChangeCipherSpec)` succeeds only if `c.hand` is empty (and no error was stored) -/
theorem ccs_requires_empty_hand (s : HsBuf) (h : (recvCCS s).2 = none) :
    s.hand = [] ∧ s.err = none ∧ (recvCCS s).1.hand = [] := by
  unfold recvCCS at h ⊢
  cases hr : recvCCSGo s.hand s.warnCount s.pending with
  | mk s1 o =>
    rw [hr] at h
    cases o with
    | some e => simp at h
    | none =>
      simp only at h ⊢
      have := recvCCSGo_ok s.hand s.warnCount s.pending (by rw [hr])
      rw [hr] at this
      exact ⟨this.1, h, this.2.1⟩

/-- `typ ‖ uint24(len(body)) ‖ body` -/
def mkMsg (typ : Byte) (body : Bytes) : Bytes :=
  typ :: BitVec.ofNat 8 (body.length / 65536) :: BitVec.ofNat 8 (body.length / 256) :: BitVec.ofNat 8 body.length :: body

theorem wellFormed_mkMsg (typ : Byte) (body : Bytes) (h : body.length ≤ maxHandshake) : WellFormed (mkMsg typ body) := by
  have h2 : body.length ≤ 65536 := h
  have hl : len24 (mkMsg typ body) = body.length := by
    simp only [len24, mkMsg, List.getD_cons_succ, List.getD_cons_zero, BitVec.toNat_ofNat]
    omega
  exact ⟨by rw [hl]; simp [mkMsg]; omega, by rw [hl]; exact h⟩

example : messages (fun _ => true) [.hs [20, 0, 0], .hs [], .hs [1, 7, 20], .hs [0, 0, 0]]
    = ([[20, 0, 0, 1, 7], [20, 0, 0, 0]], some .eof) := by decide
example : messages (fun _ => true) [.hs [20, 0, 0, 1, 7, 20, 0, 0]] = ([[20, 0, 0, 1, 7]], some .eof) := by decide
example : messages (fun _ => true) [.hs [20, 1], .hs [0, 1], .hs [9, 9, 9]] = ([], some .tooLong) := by decide
example : (recvCCS ⟨[20], [.ccs], none, 0⟩).2 = some .unexpectedMessage := by decide
example : (recvCCS ⟨[], [.warning, .ccs], none, 0⟩).2 = none := by decide

example : WellFormed [20, 0, 0, 1, 7] := by unfold WellFormed; decide
example : Incomplete [20, 0, 0, 2, 7] := by unfold Incomplete; decide
example : TooLong [20, 1, 0, 1] := by unfold TooLong; decide
/-- the hypotheses of `hs_reassembly` are satisfiable: two messages cut inside both headers, with an empty record -/
example : messages (fun _ => true) ([[20, 0], [0, 1, 7, 20, 0, 0], [], [0]].map .hs)
    = ([[20, 0, 0, 1, 7], [20, 0, 0, 0]], some .eof) :=
  hs_reassembly (fun _ => true) [[20, 0, 0, 1, 7], [20, 0, 0, 0]]
    (by intro m hm; simp at hm; rcases hm with rfl | rfl <;> exact ⟨by unfold WellFormed; decide, rfl⟩)
    [] (Or.inl (by decide)) _ (by decide)
end Props.C06Read
