/-
SM2 over the executable specification: the conditional theorems of C01 / C02 / C13 made unconditional.

`Proofs.SM2Affine` shows that `Spec.SM2.padd` / `smul` are the group law of the curve over `ZMod p`
(Mathlib's `WeierstrassCurve.Affine.Point`); `Props.C03.nG_zero` (kernel evaluation) gives [n]G = O and
`Proofs.SM2Prime` that n is prime, so G has order exactly n.  From this:

 * B1 `smul_smul_comm`, `smul_mul_mod_G`, `smul_mod_G`: scalar multiplications commute, scalars of G
   may be reduced modulo n;
 * B2 `decrypt_encrypt`: decryption inverts encryption (both orderings), for every key, every nonce in
   [1, n−1] and every message for which `encryptWith` returns a ciphertext;
 * B3 `kex_agree`: honest parties of the key exchange compute identical outputs (K, S1, S2) — the
   hypothesis `hV` of `Props.C13.outputs_from_V` is discharged;
 * B4 `verify_signWith`: every signature returned by `signWith` verifies under the public key [d]G.

Scalars are bounded by 2^600 (the fuel of the spec's double-and-add); in the spec all scalars are < n < 2^256.
-/
import Gmsm.Proofs.SM2Affine
import Gmsm.Proofs.BytesNat
import Gmsm.Props.C01
import Gmsm.Props.C02
import Gmsm.Props.C03
import Gmsm.Props.C13
import Mathlib.GroupTheory.OrderOfElement

set_option exponentiation.threshold 700
namespace Props.SM2Group
open Gmsm Spec.SM2 Proofs.SM2Affine

theorem n_lt256 : n < 2 ^ 256 := by decide
theorem n_lt : n < 2 ^ 600 :=
  Nat.lt_of_lt_of_le n_lt256 (Nat.pow_le_pow_right (by decide) (by decide))
theorem lt_of_lt_n {k : Nat} (h : k < n) : k < 2 ^ 600 := Nat.lt_trans h n_lt
theorem n_pos : 0 < n := by decide
theorem n_gt2 : 2 < n := by decide

/-- [n]G = O in Mathlib's group -/
theorem order_G : n • pt G = 0 := by
  have h := pt_smul valid_G n_lt
  rw [Props.C03.nG_zero, pt_none] at h
  exact h.symm

theorem pt_G_ne_zero : pt G ≠ 0 := fun h => by
  have := (pt_eq_zero_iff valid_G).mp h
  exact absurd this (by simp [G])

/-- the order of G is exactly n (n is prime) -/
theorem addOrderOf_G : addOrderOf (pt G) = n := addOrderOf_eq_prime order_G pt_G_ne_zero

theorem nsmul_G_eq_zero_iff (k : Nat) : k • pt G = 0 ↔ n ∣ k := by
  rw [← addOrderOf_G]; exact addOrderOf_dvd_iff_nsmul_eq_zero.symm

theorem order_mul_G (m : Nat) : n • (m • pt G) = 0 := by
  rw [← mul_nsmul, Nat.mul_comm, mul_nsmul, order_G, nsmul_zero]

theorem mod_nsmul_G (k m : Nat) : (k % n) • (m • pt G) = k • (m • pt G) :=
  Props.C01.smul_mod_order n _ (order_mul_G m) k

/-- [k]G ≠ O for 0 < k < n -/
theorem smul_G_ne_none {k : Nat} (h0 : 0 < k) (hk : k < n) : smul k G ≠ none := by
  intro h
  have h1 := pt_smul valid_G (lt_of_lt_n hk)
  rw [h, pt_none] at h1
  have := (nsmul_G_eq_zero_iff k).mp h1.symm
  exact absurd (Nat.le_of_dvd h0 this) (by omega)

/-! ## B1. Scalar multiplication: commutativity, reduction modulo the order -/

/-- B1 `smul_smul_comm`: [a][b]P = [b][a]P for every valid point -/
theorem smul_smul_comm {P : Pt} (hP : Valid P) {a b : Nat} (ha : a < 2 ^ 600) (hb : b < 2 ^ 600) :
    smul a (smul b P) = smul b (smul a P) := by
  apply pt_inj (smul_valid (smul_valid hP hb) ha) (smul_valid (smul_valid hP ha) hb)
  rw [pt_smul (smul_valid hP hb) ha, pt_smul hP hb, pt_smul (smul_valid hP ha) hb, pt_smul hP ha,
    ← mul_nsmul, ← mul_nsmul, Nat.mul_comm]

theorem smul_smul_comm_G {a b : Nat} (ha : a < 2 ^ 600) (hb : b < 2 ^ 600) :
    smul a (smul b G) = smul b (smul a G) := smul_smul_comm valid_G ha hb

/-- B1 `smul_mul_mod_G`: [a·b mod n]G = [a][b]G -/
theorem smul_mul_mod_G {a b : Nat} (ha : a < 2 ^ 600) (hb : b < 2 ^ 600) :
    smul (a * b % n) G = smul a (smul b G) := by
  have hab : a * b % n < 2 ^ 600 := lt_of_lt_n (Nat.mod_lt _ n_pos)
  apply pt_inj (smul_valid valid_G hab) (smul_valid (smul_valid valid_G hb) ha)
  rw [pt_smul valid_G hab, pt_smul (smul_valid valid_G hb) ha, pt_smul valid_G hb, ← mul_nsmul,
    Props.C01.smul_mod_order n _ order_G, Nat.mul_comm]

/-- scalars of G may be reduced modulo n -/
theorem smul_mod_G {k : Nat} (hk : k < 2 ^ 600) : smul (k % n) G = smul k G := by
  have hk' : k % n < 2 ^ 600 := lt_of_lt_n (Nat.mod_lt _ n_pos)
  apply pt_inj (smul_valid valid_G hk') (smul_valid valid_G hk)
  rw [pt_smul valid_G hk', pt_smul valid_G hk, Props.C01.smul_mod_order n _ order_G]

/-- library coordinates ↔ spec point round trip for valid points -/
theorem dec_enc {P : Pt} (hP : Valid P) : dec (enc P).1 (enc P).2 = P := by
  match P, hP with
  | none, _ => rfl
  | some (x, y), hP =>
    have : ¬ (x = 0 ∧ y = 0) := by
      rintro ⟨rfl, rfl⟩
      have := hP.2.2
      rw [Props.C13.infinity_not_on_curve] at this
      exact absurd this (by simp)
    simp only [enc, dec, this, if_false]

/-! ## B2. Encryption round trip (C02) -/

theorem hash_length (m : Bytes) : (Spec.SM3.hash m).length = 32 := by
  simp [Spec.SM3.hash, Spec.SM3.regBytes, w32bytes]

theorem b32_length (v : Nat) : (b32 v).length = 32 := i2ospR_length 32 v

theorem os2ip_b32 {v : Nat} (h : v < p) : os2ip (b32 v) = v :=
  os2ip_i2ospR_of_lt 32 v (Nat.lt_trans h (by decide))

theorem xorBytes_length (a b : Bytes) : (xorBytes a b).length = min a.length b.length := by
  induction a generalizing b with
  | nil => simp [xorBytes]
  | cons x xs ih =>
    cases b with
    | nil => simp [xorBytes]
    | cons y ys => simp [xorBytes, ih]

theorem xorBytes_cancel (a b : Bytes) (h : a.length ≤ b.length) : xorBytes (xorBytes a b) b = a := by
  induction a generalizing b with
  | nil => cases b <;> simp [xorBytes]
  | cons x xs ih =>
    cases b with
    | nil => simp at h
    | cons y ys =>
      simp only [xorBytes, List.cons.injEq]
      refine ⟨?_, ih ys (by simpa using h)⟩
      rw [BitVec.xor_assoc, BitVec.xor_self, BitVec.xor_zero]

theorem parseCt_c1c3c2 {x1 y1 : Nat} (hx : x1 < p) (hy : y1 < p) (c3 c2 : Bytes) (h3 : c3.length = 32) :
    parseCt (0x04 :: (b32 x1 ++ b32 y1 ++ c3 ++ c2)) .c1c3c2 = (x1, y1, c3, c2) := by
  unfold parseCt
  simp only [List.drop_succ_cons, List.drop_zero, List.append_assoc]
  rw [List.take_left' (b32_length x1)]
  rw [show (64 : Nat) = 32 + 32 from rfl, ← List.drop_drop]
  rw [List.drop_left' (b32_length x1), List.take_left' (b32_length y1), List.drop_left' (b32_length y1),
    List.take_left' h3, List.drop_left' h3, os2ip_b32 hx, os2ip_b32 hy]

theorem parseCt_c1c2c3 {x1 y1 : Nat} (hx : x1 < p) (hy : y1 < p) (c3 c2 : Bytes) (h3 : c3.length = 32) :
    parseCt (0x04 :: (b32 x1 ++ b32 y1 ++ c2 ++ c3)) .c1c2c3 = (x1, y1, c3, c2) := by
  unfold parseCt
  simp only [List.drop_succ_cons, List.drop_zero, List.append_assoc]
  rw [List.take_left' (b32_length x1)]
  rw [show (64 : Nat) = 32 + 32 from rfl, ← List.drop_drop]
  rw [List.drop_left' (b32_length x1), List.take_left' (b32_length y1), List.drop_left' (b32_length y1)]
  have hl : (c2 ++ c3).length - 32 = c2.length := by rw [List.length_append, h3]; omega
  rw [hl, List.take_left' rfl, List.drop_left' rfl, os2ip_b32 hx, os2ip_b32 hy]

/-- decryption of well-formed components: with C1 = (x1, y1) on the curve and reduced, shared point
    [d]C1 = (x2, y2), C2 = M ⊕ KDF(x2‖y2) (KDF output not all zero) and C3 = SM3(x2‖M‖y2), the
    plaintext is recovered -/
theorem decryptParsed_ok (d x1 y1 x2 y2 : Nat) (msg : Bytes) (hx : x1 < p) (hy : y1 < p)
    (hc : onCurve x1 y1 = true) (hsh : enc (smul d (dec x1 y1)) = (x2, y2))
    (hz : ¬ ((kdf (b32 x2 ++ b32 y2) msg.length).all (· == 0)) = true) :
    decryptParsed d x1 y1 (Spec.SM3.hash (b32 x2 ++ msg ++ b32 y2))
      (xorBytes msg (kdf (b32 x2 ++ b32 y2) msg.length)) = some msg := by
  have hlen : (xorBytes msg (kdf (b32 x2 ++ b32 y2) msg.length)).length = msg.length := by
    rw [xorBytes_length, Props.C02.kdf_length, Nat.min_self]
  have hcancel : xorBytes (xorBytes msg (kdf (b32 x2 ++ b32 y2) msg.length))
      (kdf (b32 x2 ++ b32 y2) msg.length) = msg :=
    xorBytes_cancel _ _ (by rw [Props.C02.kdf_length])
  unfold decryptParsed
  simp only [hx, hy, decide_true, Bool.and_self, Bool.not_true, Bool.false_eq_true, if_false]
  rw [Nat.mod_eq_of_lt hx, Nat.mod_eq_of_lt hy, hc, hsh]
  simp only [Bool.not_true, Bool.false_eq_true, if_false, hlen, hz, hcancel, if_true]

/-- B2, general form: any private key d < 2^600 (public key P = [d]G as the library reports it, (0,0) for
    infinity), nonce 0 < k < n: whenever `encryptWith` returns a ciphertext (i.e. the KDF output is not
    all zero; in particular the message is non-empty), `decrypt` with d returns the message — for
    both orderings C1‖C3‖C2 and C1‖C2‖C3. -/
theorem decrypt_encrypt_gen (d k : Nat) (msg ct : Bytes) (ord : Order) (hd : d < 2 ^ 600)
    (hk0 : 0 < k) (hk : k < n)
    (h : encryptWith (enc (smul d G)).1 (enc (smul d G)).2 msg k ord = some ct) :
    decrypt d ct ord = some msg := by
  have hk600 := lt_of_lt_n hk
  have hvP : Valid (smul d G) := smul_valid valid_G hd
  have hvC : Valid (smul k G) := smul_valid valid_G hk600
  -- C1 is a finite point
  obtain ⟨⟨x1, y1⟩, hC1⟩ : ∃ xy, smul k G = some xy := by
    cases hh : smul k G with
    | none => exact absurd hh (smul_G_ne_none hk0 hk)
    | some xy => exact ⟨xy, rfl⟩
  have hv1 : Valid (some (x1, y1)) := hC1 ▸ hvC
  obtain ⟨hx, hy, hc⟩ := hv1
  -- the shared point computed by the receiver is the sender's
  have hshared : smul d (dec x1 y1) = smul k (dec (enc (smul d G)).1 (enc (smul d G)).2) := by
    rw [dec_enc hvP]
    have : dec x1 y1 = smul k G := by
      have := dec_enc hvC
      rw [hC1] at this
      rw [hC1]; exact this
    rw [this]
    exact smul_smul_comm valid_G hd hk600
  unfold encryptWith at h
  rw [hC1, ← hshared] at h
  generalize hsh : enc (smul d (dec x1 y1)) = sh at h
  obtain ⟨x2, y2⟩ := sh
  simp only [enc] at h
  by_cases hz : ((kdf (b32 x2 ++ b32 y2) msg.length).all (· == 0)) = true
  · rw [if_pos hz] at h; exact absurd h (by simp)
  · rw [if_neg hz] at h
    have hlen : (xorBytes msg (kdf (b32 x2 ++ b32 y2) msg.length)).length = msg.length := by
      rw [xorBytes_length, Props.C02.kdf_length, Nat.min_self]
    cases ord with
    | c1c3c2 =>
      simp only [Option.some.injEq] at h
      subst h
      unfold decrypt
      rw [if_neg (by simp [b32_length, hash_length]; omega), parseCt_c1c3c2 hx hy _ _ (hash_length _)]
      exact decryptParsed_ok d x1 y1 x2 y2 msg hx hy hc hsh hz
    | c1c2c3 =>
      simp only [Option.some.injEq] at h
      subst h
      unfold decrypt
      rw [if_neg (by simp [b32_length, hash_length]; omega), parseCt_c1c2c3 hx hy _ _ (hash_length _)]
      exact decryptParsed_ok d x1 y1 x2 y2 msg hx hy hc hsh hz

/-- B2 (C02 `decrypt_encrypt`): for every private key 1 ≤ d < n and nonce 1 ≤ k < n, decryption of the
    ciphertext returned by `encryptWith` under the public key [d]G returns the message. -/
theorem decrypt_encrypt (d k : Nat) (msg ct : Bytes) (ord : Order) (hd : 1 ≤ d ∧ d < n)
    (hk : 1 ≤ k ∧ k < n)
    (h : encryptWith (enc (smul d G)).1 (enc (smul d G)).2 msg k ord = some ct) :
    decrypt d ct ord = some msg :=
  decrypt_encrypt_gen d k msg ct ord (lt_of_lt_n hd.2) hk.1 hk.2 h

/-! ## B3. Key exchange agreement (C13) -/

/-- the library coordinates of [k]G, 0 < k < n, satisfy the curve equation -/
theorem onCurve_enc_smul_G {k : Nat} (h0 : 0 < k) (hk : k < n) :
    onCurve (enc (smul k G)).1 (enc (smul k G)).2 = true := by
  have hv : Valid (smul k G) := smul_valid valid_G (lt_of_lt_n hk)
  cases hh : smul k G with
  | none => exact absurd hh (smul_G_ne_none h0 hk)
  | some xy =>
    obtain ⟨x, y⟩ := xy
    rw [hh] at hv
    exact hv.2.2

/-- … and are field elements -/
theorem enc_smul_G_lt {k : Nat} (h0 : 0 < k) (hk : k < n) :
    (enc (smul k G)).1 < p ∧ (enc (smul k G)).2 < p := by
  have hv : Valid (smul k G) := smul_valid valid_G (lt_of_lt_n hk)
  cases hh : smul k G with
  | none => exact absurd hh (smul_G_ne_none h0 hk)
  | some xy =>
    obtain ⟨x, y⟩ := xy
    rw [hh] at hv
    exact ⟨hv.1, hv.2.1⟩

theorem xbar_lt (x : Nat) : xbar x < 2 ^ 600 :=
  Nat.lt_trans (Props.C13.xbar_range x).2 (Nat.pow_lt_pow_right (by decide) (by decide))

/-- the point V computed by a party with secrets (d, r) from the peer's [dP]G, [rP]G, in the group -/
theorem pt_kex_point (t dP rP xP : Nat) (ht : t < 2 ^ 600) (hdP : dP < 2 ^ 600) (hrP : rP < 2 ^ 600)
    (hxP : xP < 2 ^ 600) :
    Valid (smul t (padd (smul dP G) (smul xP (smul rP G)))) ∧
    pt (smul t (padd (smul dP G) (smul xP (smul rP G)))) = t • ((dP + xP * rP) • pt G) := by
  have v1 := smul_valid valid_G hdP
  have v2 := smul_valid valid_G hrP
  have v3 := smul_valid v2 hxP
  have v4 := padd_valid v1 v3
  refine ⟨smul_valid v4 ht, ?_⟩
  rw [pt_smul v4 ht, pt_padd v1 v3, pt_smul valid_G hdP, pt_smul v2 hxP, pt_smul valid_G hrP,
    ← mul_nsmul, Nat.mul_comm rP xP, add_nsmul]

/-- B3 (C13 `kex_agree`): honest parties — long-term keys P_A = [d_A]G, P_B = [d_B]G, ephemeral points
    R_A = [r_A]G, R_B = [r_B]G with r_A, r_B ∈ [1, n−1] — obtain identical results (K, S1, S2), or both
    the same error, from `kex` in role A (own d_A, r_A; peer P_B, R_B) and role B (own d_B, r_B; peer
    P_A, R_A).  No group-law hypothesis is left. -/
theorem kex_agree (klen : Nat) (ida idb : Bytes) (dA rA dB rB : Nat)
    (hdA : dA < n) (hrA : 1 ≤ rA ∧ rA < n) (hdB : dB < n) (hrB : 1 ≤ rB ∧ rB < n) :
    kex klen ida idb dA rA (enc (smul dB G)) (enc (smul rB G))
        (enc (smul dA G)) (enc (smul dB G)) (enc (smul rA G)) (enc (smul rB G)) =
    kex klen ida idb dB rB (enc (smul dA G)) (enc (smul rA G))
        (enc (smul dA G)) (enc (smul dB G)) (enc (smul rA G)) (enc (smul rB G)) := by
  apply Props.C13.outputs_from_V klen ida idb dA rA dB rB _ _ _ _
    (onCurve_enc_smul_G hrA.1 hrA.2) (onCurve_enc_smul_G hrB.1 hrB.2)
    (enc_smul_G_lt hrA.1 hrA.2) (enc_smul_G_lt hrB.1 hrB.2)
  have hdA' := lt_of_lt_n hdA
  have hdB' := lt_of_lt_n hdB
  have hrA' := lt_of_lt_n hrA.2
  have hrB' := lt_of_lt_n hrB.2
  rw [dec_enc (smul_valid valid_G hdA'), dec_enc (smul_valid valid_G hdB'),
    dec_enc (smul_valid valid_G hrA'), dec_enc (smul_valid valid_G hrB')]
  have htA : (dA + xbar (enc (smul rA G)).1 * rA) % n < 2 ^ 600 := lt_of_lt_n (Nat.mod_lt _ n_pos)
  have htB : (dB + xbar (enc (smul rB G)).1 * rB) % n < 2 ^ 600 := lt_of_lt_n (Nat.mod_lt _ n_pos)
  obtain ⟨vA, eA⟩ := pt_kex_point _ dB rB (xbar (enc (smul rB G)).1) htA hdB' hrB' (xbar_lt _)
  obtain ⟨vB, eB⟩ := pt_kex_point _ dA rA (xbar (enc (smul rA G)).1) htB hdA' hrA' (xbar_lt _)
  apply pt_inj vA vB
  rw [eA, eB, mod_nsmul_G, mod_nsmul_G, ← mul_nsmul, ← mul_nsmul, Nat.mul_comm]

/-! ## B4. Signature completeness (C01) -/

/-- the signing equation in `ZMod n`: s·(1+d) = k − r·d -/
theorem sign_equation (d k r : Nat) (hd : d + 1 < n) :
    ((invMod ((1 + d) % n) n * ((k + n * n - r * d % n) % n) % n : Nat) : ZMod n) *
      ((1 + d : Nat) : ZMod n) = (k : ZMod n) - (r : ZMod n) * (d : ZMod n) := by
  have hne : ((1 + d : Nat) : ZMod n) ≠ 0 := by
    rw [Ne, ZMod.natCast_eq_zero_iff]
    intro h
    exact absurd (Nat.le_of_dvd (by omega) h) (by omega)
  have hle : r * d % n ≤ k + n * n := by
    have := Nat.mod_lt (r * d) n_pos
    have : n ≤ n * n := Nat.le_mul_of_pos_left n n_pos
    omega
  have hne2 : (1 : ZMod n) + (d : ZMod n) ≠ 0 := by simpa using hne
  rw [ZMod.natCast_mod, Nat.cast_mul, invMod_eq_inv _ n n_gt2 n_lt, ZMod.natCast_mod, ZMod.natCast_mod,
    Nat.cast_sub hle, ZMod.natCast_mod]
  simp only [Nat.cast_add, Nat.cast_mul, Nat.cast_one, ZMod.natCast_self]
  field_simp
  ring

/-- B4 (C01 `verify_signWith`): if one signing attempt with private key d (d + 1 < n, so 1 + d is
    invertible mod n), digest value e and nonce k ∈ [1, n−1] returns (r, s), then (r, s) verifies for e
    under the public key [d]G. -/
theorem verify_signWith (d e k r s : Nat) (hd : d + 1 < n) (hk : 1 ≤ k ∧ k < n)
    (h : signWith d e k = some (r, s)) :
    verifyE (enc (smul d G)).1 (enc (smul d G)).2 e r s = true := by
  have hk600 := lt_of_lt_n hk.2
  have hd600 : d < 2 ^ 600 := lt_of_lt_n (by omega)
  have hvP : Valid (smul d G) := smul_valid valid_G hd600
  unfold signWith at h
  generalize hC1 : enc (smul k G) = c1 at h
  obtain ⟨x1, y1⟩ := c1
  simp only at h
  by_cases hr : (e + x1) % n = 0 ∨ (e + x1) % n + k = n
  · rw [if_pos hr] at h; exact absurd h (by simp)
  rw [if_neg hr] at h
  by_cases hs0 : invMod ((1 + d) % n) n * ((k + n * n - (e + x1) % n * d % n) % n) % n = 0
  · rw [if_pos hs0] at h; exact absurd h (by simp)
  rw [if_neg hs0] at h
  simp only [Option.some.injEq, Prod.mk.injEq] at h
  obtain ⟨hr_eq, hs_eq⟩ := h
  have heq := sign_equation d k r hd
  rw [← hr_eq] at heq
  rw [hs_eq] at heq hs0
  rw [hr_eq] at hr
  have hr_lt : r < n := hr_eq ▸ Nat.mod_lt _ n_pos
  have hs_lt : s < n := hs_eq ▸ Nat.mod_lt _ n_pos
  rw [hr_eq] at heq
  -- t = (r + s) mod n ≠ 0
  have ht : (r + s) % n ≠ 0 := by
    intro ht
    have h1 : ((r + s : Nat) : ZMod n) = 0 := by
      rw [ZMod.natCast_eq_zero_iff]; exact Nat.dvd_of_mod_eq_zero ht
    have h2 : ((r + k : Nat) : ZMod n) = 0 := by
      push_cast at h1 heq ⊢
      linear_combination (1 + (d : ZMod n)) * h1 - heq
    rw [ZMod.natCast_eq_zero_iff] at h2
    obtain ⟨c, hc⟩ := h2
    have : c = 1 := by
      have : r + k < n * 2 := by omega
      have : 0 < r + k := by omega
      rcases c with _ | _ | c
      · omega
      · rfl
      · have : n * 2 ≤ n * (c + 1 + 1) := Nat.mul_le_mul_left n (by omega)
        omega
    subst this
    exact hr (Or.inr (by omega))
  -- the verifier's point is the signer's [k]G
  have hpoint : padd (smul s G) (smul ((r + s) % n) (dec (enc (smul d G)).1 (enc (smul d G)).2))
      = smul k G := by
    rw [dec_enc hvP]
    have hs600 := lt_of_lt_n hs_lt
    have ht600 : (r + s) % n < 2 ^ 600 := lt_of_lt_n (Nat.mod_lt _ n_pos)
    have v1 := smul_valid valid_G hs600
    have v2 := smul_valid hvP ht600
    apply pt_inj (padd_valid v1 v2) (smul_valid valid_G hk600)
    rw [pt_padd v1 v2, pt_smul valid_G hs600, pt_smul hvP ht600, pt_smul valid_G hd600,
      pt_smul valid_G hk600]
    exact Props.C01.verify_sign n (pt G) order_G d k r s heq
  unfold verifyE
  rw [if_neg (by omega)]
  simp only
  rw [if_neg ht, hpoint, hC1]
  simp only [beq_iff_eq]
  exact hr_eq

/-! ## Non-vacuity: the hypotheses `signWith … = some _`, `encryptWith … = some _` are satisfiable -/

example : (signWith 12345 67890 424242).isSome = true := by decide +kernel

example : (encryptWith (enc (smul 12345 G)).1 (enc (smul 12345 G)).2 [0x61, 0x62, 0x63] 424242
    .c1c3c2).isSome = true := by decide +kernel

end Props.SM2Group
