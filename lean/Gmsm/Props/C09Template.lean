/-
C09 / C20 — a template is an INPUT of `CreateCertificate` / `CreateCertificateRequest`: the library does not
modify it, so what a call produces depends on that call's own arguments only — not on the calls made before with
the same template object (C09: the object made from a template parses back to the template's values) and not on
calls made at the same time by other goroutines (C20: nothing is written to the shared object).
Model: `Model.TemplateReuse` (the repaired x509/utils.go and x509/x509.go).

* `aki_template_unchanged`, `aki_sequence_independent`, `aki_call_independent`, `aki_no_stale_key_id`
* `csr_template_unchanged`, `csr_sequence_independent`, `csr_call_independent`, `merge_other_attributes_untouched`
* `old_aki_stale_witness`, `old_csr_stale_witness`: the code as found violated both (concrete runs of the old model)

The ops `akiseq` / `csrseq` run these sequences on the real code (harness/c09tmpl.go) and on the model; the C20
scenarios `tmplissuers` / `csrtmpl` run the same calls from goroutines released together.
Core Lean only.
-/
import Gmsm.Model.TemplateReuse
namespace Props.C09Template
open Gmsm Model.X509Names Model.TemplateReuse

/-! ## generic: a step that leaves the state alone makes every call independent of the others -/

theorem seqWith_const {σ α β : Type} (step : σ → α → β × σ) (h : ∀ t p, (step t p).2 = t) :
    ∀ (t : σ) (ps : List α), seqWith step t ps = (ps.map (fun p => (step t p).1), t)
  | t, [] => rfl
  | t, p :: ps => by
      have ih := seqWith_const step h t ps
      simp only [seqWith, h, ih, List.map_cons]

/-! ## authority key id -/

/-- `CreateCertificate` leaves `template.AuthorityKeyId` as it was (it works on a copy) -/
theorem aki_template_unchanged (t : Bytes) (p : Issue) : (issueStep t p).2 = t := rfl

/-- certificates made in a row from ONE template object: each carries the id `effectiveAKI` gives for ITS parent
    and the template as the caller wrote it; the template is unchanged at the end -/
theorem aki_sequence_independent (t : Bytes) (ps : List Issue) :
    issueSeq t ps = (ps.map (fun p => effectiveAKI p.1 p.2 t), t) :=
  seqWith_const issueStep aki_template_unchanged t ps

/-- the i-th certificate does not depend on the calls before (or after) it -/
theorem aki_call_independent (t : Bytes) (pre post : List Issue) (p : Issue) :
    (issueSeq t (pre ++ p :: post)).1[pre.length]? = some (issueStep t p).1 := by
  rw [aki_sequence_independent]
  simp [issueStep]

/-- a parent WITHOUT SubjectKeyId: the certificate carries the template's own AuthorityKeyId (nothing, when the
    template has none) - whatever parents the template was used with before -/
theorem aki_no_stale_key_id (t : Bytes) (pre post : List Issue) (sameName : Bool) :
    (issueSeq t (pre ++ (sameName, []) :: post)).1[pre.length]? = some t := by
  rw [aki_call_independent]
  simp [issueStep, effectiveAKI]

/-- non-vacuity: CA A (key id 0a), then a CA without key id, then CA B (0b), template without a key id -/
example : issueSeq [] [(false, [0x0a]), (false, []), (false, [0x0b])] = ([[0x0a], [], [0x0b]], []) := by decide

/-- the code as found: the second certificate carries CA A's key id, and so does the caller's template -/
theorem old_aki_stale_witness :
    issueSeqOld [] [(false, [0x0a]), (false, []), (false, [0x0b])] = ([[0x0a], [0x0a], [0x0b]], [0x0b]) := by decide

/-! ## certificate request attributes -/

/-- `CreateCertificateRequest` leaves `template.Attributes` (including the inner slices) as they were -/
theorem csr_template_unchanged (attrs : List Attr) (exts : List Atv) : (csrStep attrs exts).2 = attrs := rfl

/-- requests made in a row from ONE template object (its name fields may change between the calls: `steps`):
    each is `merge` of the template's attributes as the caller wrote them with THAT call's extensions -/
theorem csr_sequence_independent (attrs : List Attr) (steps : List (List Atv)) :
    csrSeq attrs steps = (steps.map (merge attrs), attrs) :=
  seqWith_const csrStep csr_template_unchanged attrs steps

theorem csr_call_independent (attrs : List Attr) (pre post : List (List Atv)) (exts : List Atv) :
    (csrSeq attrs (pre ++ exts :: post)).1[pre.length]? = some (merge attrs exts) := by
  rw [csr_sequence_independent]
  simp

theorem appendFirst_others (atvs : List Atv) : ∀ (attrs r : List Attr), appendFirst atvs attrs = some r →
    r.filter (fun a => !a.extReq) = attrs.filter (fun a => !a.extReq) ∧ r.length = attrs.length
  | [], r, h => by simp [appendFirst] at h
  | a :: rest, r, h => by
      unfold appendFirst at h
      split at h
      · rename_i v0 vs he hv
        simp only [Option.some.injEq] at h
        subst h
        simp [he]
      · cases hr : appendFirst atvs rest with
        | none => simp [hr] at h
        | some r' =>
          simp only [hr, Option.map_some, Option.some.injEq] at h
          subst h
          have ih := appendFirst_others atvs rest r' hr
          simp [List.filter_cons, ih.1, ih.2]

/-- the attributes that are not extension requests reach the request unchanged and in order; the request has
    the template's attributes plus at most one -/
theorem merge_other_attributes_untouched (attrs : List Attr) (exts : List Atv) :
    (merge attrs exts).filter (fun a => !a.extReq) = attrs.filter (fun a => !a.extReq) ∧
    attrs.length ≤ (merge attrs exts).length ∧ (merge attrs exts).length ≤ attrs.length + 1 := by
  unfold merge
  split
  · simp
  · cases h : appendFirst (unspecified attrs exts) attrs with
    | some r =>
      have := appendFirst_others _ attrs r h
      simp only [this.1, this.2, true_and]
      omega
    | none => simp

/-- an extension already named in the template's extensionRequest takes priority: it is not added again -/
theorem unspecified_not_specified (attrs : List Attr) (exts : List Atv) (e : Atv) (h : e ∈ unspecified attrs exts) :
    e ∈ exts ∧ e.typ ∉ specified attrs := by
  unfold unspecified at h
  simp only [List.mem_filter, Bool.not_eq_eq_eq_not, Bool.not_true, List.contains_eq_mem, decide_eq_false_iff_not] at h
  exact h

def exKeyUsage : Atv := ⟨15, "k"⟩
def exTemplate : List Attr := [⟨false, [[⟨7, "challenge"⟩]]⟩, ⟨true, [[exKeyUsage]]⟩]

/-- non-vacuity: DNSNames = [a], then [b], then none: each request carries the subjectAltName of its own call -/
example : csrSeq exTemplate [[⟨17, "a"⟩], [⟨17, "b"⟩], []] =
    ([[⟨false, [[⟨7, "challenge"⟩]]⟩, ⟨true, [[exKeyUsage, ⟨17, "a"⟩]]⟩],
      [⟨false, [[⟨7, "challenge"⟩]]⟩, ⟨true, [[exKeyUsage, ⟨17, "b"⟩]]⟩],
      exTemplate], exTemplate) := by decide

/-- the code as found: the template keeps the first call's subjectAltName, which then takes priority over the
    names of the later calls - the second request names host a instead of b, the third has names it should not -/
theorem old_csr_stale_witness :
    csrSeqOld exTemplate [[⟨17, "a"⟩], [⟨17, "b"⟩], []] =
    ([[⟨false, [[⟨7, "challenge"⟩]]⟩, ⟨true, [[exKeyUsage, ⟨17, "a"⟩]]⟩],
      [⟨false, [[⟨7, "challenge"⟩]]⟩, ⟨true, [[exKeyUsage, ⟨17, "a"⟩]]⟩],
      [⟨false, [[⟨7, "challenge"⟩]]⟩, ⟨true, [[exKeyUsage, ⟨17, "a"⟩]]⟩]],
     [⟨false, [[⟨7, "challenge"⟩]]⟩, ⟨true, [[exKeyUsage, ⟨17, "a"⟩]]⟩]) := by decide

end Props.C09Template
