/-
C08 — Handshakes complete only with a peer that proves the certified identity.

Theorems about `Model.HandshakeAuth` (the acceptance decisions of gmtls' GM/T 0024 full handshake, ECC key
exchange).  The cryptographic primitives are parameters; nothing here claims that signatures cannot be forged
or that SM3 has no collisions — those facts enter as explicit hypotheses (`Binding`, `Unforgeable`).  What is
proved is the decision logic: a side that completes has performed every check, over THIS session's values.
-/
import Gmsm.Model.HandshakeAuth
import Gmsm.Props.C10
namespace Props.C08
open Model Model.HandshakeAuth

theorem allPass_iff (l : List (Reason × Bool)) : allPass l = true ↔ ∀ x ∈ l, x.2 = true := by
  simp [allPass, List.all_eq_true]

theorem firstFailure_none_iff (l : List (Reason × Bool)) : firstFailure l = none ↔ allPass l = true := by
  induction l with
  | nil => simp [firstFailure, allPass]
  | cons x xs ih =>
    obtain ⟨r, ok⟩ := x
    cases ok <;> simp_all [firstFailure, allPass]

/-- the verdict (first failing check, in code order) is "no failure" exactly when the side accepts -/
theorem clientVerdict_none_iff (P : Prims) (c : Client) (v : ClientView) :
    clientVerdict P c v = none ↔ clientAccepts P c v = true := firstFailure_none_iff _

theorem serverVerdict_none_iff (P : Prims) (s : Server) (v : ServerView) :
    serverVerdict P s v = none ↔ serverAccepts P s v = true := firstFailure_none_iff _

-- the client ---------------------------------------------------------------------------------------------------

/-- the loop over the server's certificate list passes exactly when every certificate parses, carries an SM2
    key, and — in positions 0 and 1 — the key usage for its role -/
theorem peerCertsCheck_none_iff (P : Prims) (i : Nat) (ders : List Nat) :
    peerCertsCheck P i ders = none ↔
      ∀ j d, ders[j]? = some d → ∃ p, P.parse d = some p ∧ p.sm2 = true ∧ kuOK (i + j) p = true := by
  induction ders generalizing i with
  | nil => simp [peerCertsCheck]
  | cons d ds ih =>
    unfold peerCertsCheck
    cases hp : P.parse d with
    | none =>
      simp only [reduceCtorEq, false_iff]
      intro h
      obtain ⟨p, hp', _⟩ := h 0 d (by simp)
      rw [hp] at hp'; cases hp'
    | some p =>
      simp only
      by_cases hs : p.sm2 = true
      · by_cases hk : kuOK i p = true
        · simp only [hs, hk, Bool.not_true, Bool.false_eq_true, if_false]
          rw [ih (i + 1)]
          constructor
          · intro h j e he
            cases j with
            | zero =>
              simp only [List.getElem?_cons_zero, Option.some.injEq] at he
              subst he
              exact ⟨p, hp, hs, by simpa using hk⟩
            | succ j =>
              simp only [List.getElem?_cons_succ] at he
              obtain ⟨q, h1, h2, h3⟩ := h j e he
              exact ⟨q, h1, h2, by rw [show i + (j + 1) = i + 1 + j by omega]; exact h3⟩
          · intro h j e he
            obtain ⟨q, h1, h2, h3⟩ := h (j + 1) e (by simpa using he)
            exact ⟨q, h1, h2, by rw [show i + 1 + j = i + (j + 1) by omega]; exact h3⟩
        · simp only [hs, hk, Bool.not_true, Bool.false_eq_true, if_false, Bool.not_false, if_true, reduceCtorEq, false_iff]
          intro h
          obtain ⟨q, h1, _, h3⟩ := h 0 d (by simp)
          rw [hp] at h1; cases h1
          exact hk (by simpa using h3)
      · simp only [hs, Bool.not_false, if_true, reduceCtorEq, false_iff]
        intro h
        obtain ⟨q, h1, h2, _⟩ := h 0 d (by simp)
        rw [hp] at h1; cases h1
        exact hs h2

/-- T1 `client_accepts_iff`: `Conn.Handshake()` succeeds on the client exactly when every check below holds
    (they are listed in the order `doFullHandshake` / `readFinished` perform them). -/
theorem client_accepts_iff (P : Prims) (c : Client) (v : ClientView) :
    clientAccepts P c v = true ↔
      v.sh.vers = versionGMSSL ∧
      (c.suites.contains v.sh.suite = true ∧ eccSuites.contains v.sh.suite = true) ∧
      v.sh.comp = 0 ∧
      2 ≤ v.ders.length ∧
      peerCertsCheck P 0 v.ders = none ∧
      (c.insecureSkipVerify = true ∨ (serverChainOK P c v.ders 0 = true ∧ serverChainOK P c v.ders 1 = true)) ∧
      skeOK P c v = true ∧
      (v.done = true ∧ v.inOrder = true) ∧
      v.fin = some (expectedServerFinished P c v) := by
  simp only [clientAccepts, clientChecks, clientChecks1, allPass, List.cons_append, List.nil_append, List.all_cons,
    List.all_nil, Bool.and_true, Bool.and_eq_true, beq_iff_eq, decide_eq_true_eq, Bool.or_eq_true, Option.isNone_iff_eq_none,
    Bool.not_eq_true', List.isEmpty_eq_false_iff]
  constructor
  · rintro ⟨h1, h2, h3, _, h5, h6, h7, h8, _, h10, h11, h12⟩
    refine ⟨h1, h2, h3, h5, h6, ?_, h10, h11, h12⟩
    rcases h7 with h | h
    · exact Or.inl h
    · rcases h8 with h' | h'
      · exact Or.inl h'
      · exact Or.inr ⟨h, h'⟩
  · rintro ⟨h1, h2, h3, h5, h6, h7, h10, h11, h12⟩
    refine ⟨h1, h2, h3, ?_, h5, h6, ?_, ?_, ?_, h10, h11, h12⟩
    · intro he; rw [he] at h5; simp at h5
    · rcases h7 with h | h
      · exact Or.inl h
      · exact Or.inr h.1
    · rcases h7 with h | h
      · exact Or.inl h
      · exact Or.inr h.2
    · unfold skeOK at h10
      cases hs : v.ske with
      | none => simp [hs] at h10
      | some _ => rfl

/-- T1 `client_accepts_only_if` (the property's client half).  A client that completes has received at least
    two certificates `s` (position 0) and `e` (position 1), both parse and carry SM2 keys, `s` may sign and `e`
    may encipher, and
    * verification was disabled by configuration, or both certificates verified against the client's roots, with the
      certificates that follow them in the message (`rest`) as intermediates, at the configured time and for the
      configured server name (`Model.X509.verify`, whose meaning is `client_chain_meaning` below);
    * a ServerKeyExchange came whose signature verifies under the key of `s` over THIS session's client random,
      the server random of the ServerHello this client received, and the DER of `e` as this client received it;
    * the server's Finished equals PRF(master, "server finished", SM3(transcript)) for the client's own transcript
      and the master secret derived from the pre-master secret this client encrypted to the key of `e`. -/
theorem client_accepts_only_if (P : Prims) (c : Client) (v : ClientView) (h : clientAccepts P c v = true) :
    ∃ ds de s e rest, v.ders = ds :: de :: rest ∧ P.parse ds = some s ∧ P.parse de = some e ∧
      s.sm2 = true ∧ e.sm2 = true ∧ s.x.keyUsage &&& 3 ≠ 0 ∧ e.x.keyUsage &&& 28 ≠ 0 ∧
      (c.insecureSkipVerify = true ∨
        (chainOK c.roots (rest.filterMap fun r => (P.parse r).map (·.x)) s.x c.opts = true ∧
         chainOK c.roots (rest.filterMap fun r => (P.parse r).map (·.x)) e.x c.opts = true)) ∧
      (∃ sig, v.ske = some sig ∧ P.sigOK s.x.key (.ske c.random v.sh.random de) sig = true) ∧
      clientT1 P c v = clientT0 c v ++ (if v.certReq.isSome then [.certificate c.cert] else []) ++
        [.clientKeyExchange (P.enc e.x.key c.pms)] ∧
      v.fin = some (P.prf (P.master c.pms c.random v.sh.random) .server (P.hash (clientTranscript P c v))) := by
  obtain ⟨_, _, _, hlen, hcerts, hchain, hske, _, hfin⟩ := (client_accepts_iff P c v).mp h
  match hd : v.ders, hlen with
  | ds :: de :: rest, _ =>
    rw [hd] at hcerts
    have h0 := (peerCertsCheck_none_iff P 0 _).mp hcerts 0 ds (by simp)
    have h1 := (peerCertsCheck_none_iff P 0 _).mp hcerts 1 de (by simp)
    obtain ⟨s, hs, hs2, hsk⟩ := h0
    obtain ⟨e, he, he2, hek⟩ := h1
    have c0 : certAt P v.ders 0 = some s := by simp [certAt, hd, hs]
    have c1 : certAt P v.ders 1 = some e := by simp [certAt, hd, he]
    refine ⟨ds, de, s, e, rest, rfl, hs, he, hs2, he2, ?_, ?_, ?_, ?_, ?_, ?_⟩
    · simpa [kuOK] using hsk
    · simpa [kuOK] using hek
    · rcases hchain with h | ⟨ha, hb⟩
      · exact Or.inl h
      · refine Or.inr ⟨?_, ?_⟩
        · unfold serverChainOK at ha
          rw [c0] at ha
          simpa [serverInters, hd] using ha
        · unfold serverChainOK at hb
          rw [c1] at hb
          simpa [serverInters, hd] using hb
    · unfold skeOK at hske
      rw [c0] at hske
      cases hsig : v.ske with
      | none => simp [hsig] at hske
      | some sig =>
        refine ⟨sig, rfl, ?_⟩
        simpa [hsig, hd] using hske
    · simp [clientT1, encKeyOf, c1]
    · simpa [expectedServerFinished, clientMaster] using hfin

/-- `Verify` never answers "ok" with an empty list of chains -/
theorem verify_ok_nonempty (roots inters : List X509.Cert) (leaf : X509.Cert) (o : X509.Opts) (chains : List (List Nat))
    (h : X509.verify roots inters leaf o = .ok chains) : chains ≠ [] := by
  unfold X509.verify at h
  by_cases hcrit : leaf.critical = true
  · simp [hcrit] at h
  · simp only [hcrit, Bool.false_eq_true, if_false] at h
    cases hv : X509.isValid leaf .leaf [] o with
    | some r => simp [hv] at h
    | none =>
      simp only [hv] at h
      by_cases hh : (o.dnsName.length > 0 && !X509.verifyHostname leaf o) = true
      · simp [hh] at h
      · simp only [hh, Bool.false_eq_true, if_false] at h
        generalize (if roots.any (·.id == leaf.id) then [[leaf]]
            else (X509.buildChains roots inters o (roots.length + inters.length + 2) X509.maxSteps [leaf]).1) = cands at h
        by_cases he : cands.isEmpty = true
        · simp [he] at h
        · simp only [he, Bool.false_eq_true, if_false] at h
          generalize (if o.usages.isEmpty then [1] else o.usages) = us at h
          by_cases hany : us.contains 0 = true
          · simp only [hany, if_true, X509.Res.ok.injEq] at h
            intro hn
            rw [hn] at h
            simp only [List.map_eq_nil_iff] at h
            simp [h] at he
          · simp only [hany, Bool.false_eq_true, if_false] at h
            by_cases hg : (cands.filter (X509.checkChainForKeyUsage · us)).isEmpty = true
            · simp [hg] at h
            · simp only [hg, Bool.false_eq_true, if_false, X509.Res.ok.injEq] at h
              intro hn
              rw [hn] at h
              simp only [List.map_eq_nil_iff] at h
              simp [h] at hg

/-- the meaning of "the chain verified" (from C10 `verify_sound`): the certificate has no unhandled critical
    extension, is valid at the configured time, matches the configured server name, and heads a path of correctly
    signed, currently valid certificates — CA certificates taken from the intermediates the peer sent — that ends
    in one of the client's roots.  (Statement changed with the repair of the intermediates pool: it used to speak of
    the empty pool only; it now holds for every pool `inters`.) -/
theorem client_chain_meaning (roots inters : List X509.Cert) (leaf : X509.Cert) (o : X509.Opts)
    (h : chainOK roots inters leaf o = true) :
    leaf.critical = false ∧ X509.isValid leaf .leaf [] o = none ∧
    (o.dnsName.length > 0 → X509.verifyHostname leaf o = true) ∧
    ∃ chains : List (List Nat), chains ≠ [] ∧ ∀ ids ∈ chains, ∃ chain : List X509.Cert, ids = chain.map (·.id) ∧
      ((chain = [leaf] ∧ roots.any (·.id == leaf.id) = true) ∨
        ∃ suffix, chain = [leaf] ++ suffix ∧ Props.C10.GoodSuffix roots inters o [leaf] suffix) := by
  unfold chainOK at h
  cases hv : X509.verify roots inters leaf o with
  | ok chains =>
    obtain ⟨a, b, c, d⟩ := Props.C10.verify_sound roots inters leaf o chains hv
    refine ⟨a, b, c, chains, ?_, fun ids hids => ?_⟩
    · exact verify_ok_nonempty roots inters leaf o chains hv
    · obtain ⟨chain, e, g, _⟩ := d ids hids
      exact ⟨chain, e, g⟩
  | critical => simp [hv] at h
  | leafInvalid r => simp [hv] at h
  | hostname => simp [hv] at h
  | noChain => simp [hv] at h
  | usage => simp [hv] at h

-- the server ---------------------------------------------------------------------------------------------------

/-- T1 `client_auth_policy_table`: the certificate part of the server's decision, for each `ClientAuth` value.
    `cert = none` means the client sent no Certificate message, `some []` an empty one. -/
theorem client_auth_policy_table (P : Prims) (s : Server) (cert : Option (List Nat)) :
    certPolicyOK P s cert = true ↔
      match s.clientAuth with
      | .noClientCert => cert = none
      | .requestClientCert => ∃ ders, cert = some ders ∧ allParse P ders = true
      | .requireAnyClientCert => ∃ ders, cert = some ders ∧ ders ≠ [] ∧ allParse P ders = true
      | .verifyClientCertIfGiven =>
          ∃ ders, cert = some ders ∧ allParse P ders = true ∧ (ders = [] ∨ clientChainOK P s ders = true)
      | .requireAndVerifyClientCert =>
          ∃ ders, cert = some ders ∧ ders ≠ [] ∧ allParse P ders = true ∧ clientChainOK P s ders = true := by
  cases hp : s.clientAuth <;> cases cert with
  | none => simp [certPolicyOK, certPolicyChecks, allPass, hp, Policy.requests, Policy.requires, Policy.verifies, allParse]
  | some ders =>
    cases ders with
    | nil => simp [certPolicyOK, certPolicyChecks, allPass, hp, Policy.requests, Policy.requires, Policy.verifies, allParse]
    | cons d ds =>
      simp [certPolicyOK, certPolicyChecks, allPass, hp, Policy.requests, Policy.requires, Policy.verifies]

/-- T1 `server_accepts_iff`: `Conn.Handshake()` succeeds on the server exactly when … -/
theorem server_accepts_iff (P : Prims) (s : Server) (v : ServerView) :
    serverAccepts P s v = true ↔
      (mutualVersion v.ch.vers).isSome = true ∧ v.ch.comps.contains 0 = true ∧
      (∃ id, pickSuite s v.ch = some id ∧ eccSuites.contains id = true) ∧
      certPolicyOK P s v.cert = true ∧
      v.inOrder = true ∧
      (∃ cke pms, v.cke = some cke ∧ P.dec s.decKey cke = some pms ∧
        cvOK P s v = true ∧
        v.fin = some (P.prf (P.master pms v.ch.random s.random) .client (P.hash (serverT2 P s v)))) := by
  simp only [serverAccepts, serverChecks, serverHelloChecks, List.cons_append, List.nil_append]
  rw [allPass_iff]
  simp only [List.mem_cons, List.mem_append, List.mem_nil_iff, or_false, forall_eq_or_imp]
  have hcp : (∀ x ∈ certPolicyChecks P s v.cert, x.2 = true) ↔ certPolicyOK P s v.cert = true := by
    rw [certPolicyOK, allPass_iff]
  constructor
  · rintro ⟨h1, h2, h3, h4, h5⟩
    have hc : ∀ x ∈ certPolicyChecks P s v.cert, x.2 = true := fun x hx => h5 x (Or.inl hx)
    have hr := fun x hx => h5 x (Or.inr hx)
    simp only [forall_eq_or_imp, Bool.and_eq_true, beq_iff_eq, forall_eq] at hr
    obtain ⟨⟨h6, h7⟩, h8, h9, _, _, h12⟩ := hr
    cases hs : pickSuite s v.ch with
    | none => simp [hs] at h3
    | some id =>
      refine ⟨h1, h2, ⟨id, rfl, by simpa [hs] using h4⟩, hcp.mp hc, h7, ?_⟩
      cases hk : v.cke with
      | none => simp [hk] at h6
      | some cke =>
        cases hd : P.dec s.decKey cke with
        | none => simp [serverMaster, hk, hd] at h8
        | some pms =>
          refine ⟨cke, pms, rfl, hd, h9, ?_⟩
          simpa [expectedClientFinished, serverMaster, hk, hd] using h12
  · rintro ⟨h1, h2, ⟨id, hs, he⟩, hc, hio, cke, pms, hk, hd, hcv, hf⟩
    refine ⟨h1, h2, by simp [hs], by simpa [hs] using he, ?_⟩
    intro x hx
    rcases hx with hx | hx
    · exact hcp.mpr hc x hx
    · rcases hx with rfl | rfl | rfl | rfl | rfl
      · simp [hk, hio]
      · simp [serverMaster, hk, hd]
      · exact hcv
      · simp [hf]
      · simp [hf, expectedClientFinished, serverMaster, hk, hd]

/-- T1 `server_accepts_only_if` (the property's server half).  A server that completes decrypted the
    ClientKeyExchange with ITS encryption key, checked the client's Finished against ITS transcript and the master
    secret from that pre-master secret, and — by policy:
    * RequireAndVerifyClientCert: a non-empty certificate list came whose leaf verified against ClientCAs for
      client authentication at the configured time, and a CertificateVerify came whose signature verifies under the
      leaf's key over the digest of the server's own transcript;
    * VerifyClientCertIfGiven: the same whenever a certificate was given;
    * RequireAnyClientCert / RequestClientCert: the CertificateVerify condition whenever a certificate was given
      (required for RequireAny), no chain verification;
    * NoClientCert: no Certificate message and no CertificateVerify. -/
theorem server_accepts_only_if (P : Prims) (s : Server) (v : ServerView) (h : serverAccepts P s v = true) :
    (∃ cke pms, v.cke = some cke ∧ P.dec s.decKey cke = some pms ∧
      v.fin = some (P.prf (P.master pms v.ch.random s.random) .client (P.hash (serverT2 P s v)))) ∧
    (s.clientAuth = .noClientCert → v.cert = none ∧ v.cv = none) ∧
    (s.clientAuth.requires = true → ∃ d ds, v.cert = some (d :: ds)) ∧
    (∀ d ds, v.cert = some (d :: ds) →
      (∃ leaf sig, P.parse d = some leaf ∧ v.cv = some sig ∧
        P.sigOK leaf.x.key (.transcript (P.hash (serverT1 P s v))) sig = true) ∧
      (s.clientAuth.verifies = true → clientChainOK P s (d :: ds) = true)) := by
  obtain ⟨_, _, _, hpol, _, cke, pms, hk, hd, hcv, hf⟩ := (server_accepts_iff P s v).mp h
  have tbl := (client_auth_policy_table P s v.cert).mp hpol
  refine ⟨⟨cke, pms, hk, hd, hf⟩, ?_, ?_, ?_⟩
  · intro hp
    rw [hp] at tbl
    simp only at tbl
    refine ⟨tbl, ?_⟩
    simpa [cvOK, tbl] using hcv
  · intro hr
    cases hp : s.clientAuth <;> rw [hp] at tbl hr <;> simp only [Policy.requires] at hr tbl
    all_goals first
      | (exact absurd hr (by decide))
      | (obtain ⟨ders, h1, h2, _⟩ := tbl
         cases ders with
         | nil => exact absurd rfl h2
         | cons d ds => exact ⟨d, ds, h1⟩)
  · intro d ds hc
    constructor
    · unfold cvOK at hcv
      simp only [hc, Option.getD_some] at hcv
      cases hcvv : v.cv with
      | none => simp [hcvv] at hcv
      | some sig =>
        cases hpd : P.parse d with
        | none => simp [hcvv, hpd] at hcv
        | some leaf => exact ⟨leaf, sig, rfl, rfl, by simpa [hcvv, hpd] using hcv⟩
    · intro hv
      cases hp : s.clientAuth <;> rw [hp] at tbl hv <;> simp only [Policy.verifies] at hv tbl
      all_goals first
        | (exact absurd hv (by decide))
        | (obtain ⟨ders, h1, _, h3⟩ := tbl
           rw [hc] at h1; cases h1
           first
             | exact h3
             | (rcases h3 with h3 | h3
                · cases h3
                · exact h3)
             | exact h3.2)

-- both sides -----------------------------------------------------------------------------------------------------

/-- the assumption under which a Finished value binds its inputs: the PRF separates master secrets and digests,
    and the transcript hash separates transcripts (collision resistance of SM3 / HMAC-SM3, stated as injectivity) -/
structure Binding (P : Prims) : Prop where
  prf_inj : ∀ m m' r d d', P.prf m r d = P.prf m' r d' → m = m' ∧ d = d'
  hash_inj : ∀ t t', P.hash t = P.hash t' → t = t'

/-- T1 `client_finished_binds`: a client that accepts a Finished produced by a server (from that server's own
    view, whatever it is) has the same transcript and the same master secret as that server. -/
theorem client_finished_binds (P : Prims) (hB : Binding P) (c : Client) (cv : ClientView) (s : Server) (sv : ServerView)
    (hc : clientAccepts P c cv = true) (hlink : cv.fin = some (serverFinished P s sv)) :
    clientTranscript P c cv = serverTranscript P s sv ∧ clientMaster P c cv = (serverMaster P s sv).getD [] := by
  have hf := ((client_accepts_iff P c cv).mp hc).2.2.2.2.2.2.2.2
  rw [hlink] at hf
  have := Option.some.inj hf
  unfold serverFinished expectedServerFinished at this
  obtain ⟨hm, hd⟩ := hB.prf_inj _ _ _ _ _ this
  exact ⟨(hB.hash_inj _ _ hd).symm, hm.symm⟩

/-- T1 `server_finished_binds`: a server that accepts a Finished produced by a client (from that client's own view)
    saw exactly the messages the client saw, and holds the client's master secret. -/
theorem server_finished_binds (P : Prims) (hB : Binding P) (c : Client) (cv : ClientView) (s : Server) (sv : ServerView)
    (hs : serverAccepts P s sv = true) (hlink : sv.fin = some (clientFinished P c cv)) :
    clientTranscript P c cv = serverTranscript P s sv ∧ serverMaster P s sv = some (clientMaster P c cv) := by
  obtain ⟨_, _, _, _, _, cke, pms, hk, hd, _, hf⟩ := (server_accepts_iff P s sv).mp hs
  rw [hlink] at hf
  have := Option.some.inj hf
  unfold clientFinished at this
  obtain ⟨hm, hdg⟩ := hB.prf_inj _ _ _ _ _ this
  have ht := hB.hash_inj _ _ hdg
  refine ⟨?_, ?_⟩
  · simp [clientTranscript, serverTranscript, ht, hlink]
  · simp [serverMaster, hk, hd, hm]

/-- T1 `agree_or_abort`: if both sides complete, and the Finished message each side accepted is the one its peer
    computed (an attacker without the master secret cannot produce another one that is accepted: `Binding`), then
    the two sides hold the same list of handshake messages and the same master secret. -/
theorem agree_or_abort (P : Prims) (hB : Binding P) (c : Client) (cv : ClientView) (s : Server) (sv : ServerView)
    (hc : clientAccepts P c cv = true) (_hs : serverAccepts P s sv = true)
    (hlink : cv.fin = some (serverFinished P s sv)) :
    clientTranscript P c cv = serverTranscript P s sv ∧ (serverMaster P s sv).getD [] = clientMaster P c cv := by
  obtain ⟨a, b⟩ := client_finished_binds P hB c cv s sv hc hlink
  exact ⟨a, b.symm⟩

/-- … hence any modification in transit that makes the two transcripts differ in any message — a rewritten suite
    list, random, certificate, signature, key exchange — makes the client abort (whatever the server does). -/
theorem tamper_detected (P : Prims) (hB : Binding P) (c : Client) (cv : ClientView) (s : Server) (sv : ServerView)
    (hlink : cv.fin = some (serverFinished P s sv))
    (hdiff : clientTranscript P c cv ≠ serverTranscript P s sv) : clientAccepts P c cv = false := by
  cases h : clientAccepts P c cv with
  | false => rfl
  | true => exact absurd (client_finished_binds P hB c cv s sv h hlink).1 hdiff

/-- and symmetrically the server aborts when the client's Finished covers another transcript -/
theorem tamper_detected_by_server (P : Prims) (hB : Binding P) (c : Client) (cv : ClientView) (s : Server) (sv : ServerView)
    (hlink : sv.fin = some (clientFinished P c cv))
    (hdiff : clientTranscript P c cv ≠ serverTranscript P s sv) : serverAccepts P s sv = false := by
  cases h : serverAccepts P s sv with
  | false => rfl
  | true => exact absurd (server_finished_binds P hB c cv s sv h hlink).1 hdiff

/-- T1 `possession_needed`: a Finished computed from any master secret other than the one derived from the
    pre-master secret the client encrypted to certificate 1 is rejected — whoever answers must have decrypted
    the ClientKeyExchange. -/
theorem possession_needed (P : Prims) (hB : Binding P) (c : Client) (v : ClientView) (m d : Val)
    (hfin : v.fin = some (P.prf m .server d)) (hm : m ≠ P.master c.pms c.random v.sh.random) :
    clientAccepts P c v = false := by
  cases h : clientAccepts P c v with
  | false => rfl
  | true =>
    have hf := ((client_accepts_iff P c v).mp h).2.2.2.2.2.2.2.2
    rw [hfin] at hf
    have := (hB.prf_inj _ _ _ _ _ (Option.some.inj hf)).1
    exact absurd this hm

/-- … and a server whose decryption key does not open the ClientKeyExchange does not complete -/
theorem server_needs_decryption_key (P : Prims) (s : Server) (v : ServerView)
    (h : ∀ cke, v.cke = some cke → P.dec s.decKey cke = none) : serverAccepts P s v = false := by
  cases hs : serverAccepts P s v with
  | false => rfl
  | true =>
    obtain ⟨_, _, _, _, _, cke, pms, hk, hd, _⟩ := (server_accepts_iff P s v).mp hs
    rw [h cke hk] at hd; cases hd

/-- the assumption that stands for existential unforgeability: a value verifies under key `k` over `m` only if it
    is the signature made with `k` over `m` -/
def Unforgeable (P : Prims) : Prop :=
  ∀ k k' m m', P.sigOK k m (P.sign k' m') = true → k = k' ∧ m = m'

/-- T1 `foreign_ske_rejected`: a key-exchange signature made by another key, or over another client random,
    another server random or another encryption certificate (a replay from another session, a signature obtained
    for another certificate) is refused. -/
theorem foreign_ske_rejected (P : Prims) (hU : Unforgeable P) (c : Client) (v : ClientView)
    (ds de : Nat) (rest : List Nat) (s : PCert) (hd : v.ders = ds :: de :: rest) (hs : P.parse ds = some s)
    (k cr sr e : Nat) (hske : v.ske = some (P.sign k (.ske cr sr e)))
    (hother : k ≠ s.x.key ∨ cr ≠ c.random ∨ sr ≠ v.sh.random ∨ e ≠ de) : clientAccepts P c v = false := by
  cases h : clientAccepts P c v with
  | false => rfl
  | true =>
    have hok := ((client_accepts_iff P c v).mp h).2.2.2.2.2.2.1
    have c0 : certAt P v.ders 0 = some s := by simp [certAt, hd, hs]
    unfold skeOK at hok
    rw [hske, c0] at hok
    simp only [hd, List.getElem?_cons_succ, List.getElem?_cons_zero] at hok
    obtain ⟨h1, h2⟩ := hU _ _ _ _ hok
    simp only [Signed.ske.injEq] at h2
    rcases hother with h' | h' | h' | h'
    · exact absurd h1.symm h'
    · exact absurd h2.1.symm h'
    · exact absurd h2.2.1.symm h'
    · exact absurd h2.2.2.symm h'

/-- T1 `foreign_cv_rejected`: a CertificateVerify made by another key than the presented certificate's, or over
    the digest of another transcript (another session), is refused. -/
theorem foreign_cv_rejected (P : Prims) (hU : Unforgeable P) (s : Server) (v : ServerView)
    (d : Nat) (ds : List Nat) (leaf : PCert) (hc : v.cert = some (d :: ds)) (hp : P.parse d = some leaf)
    (k : Key) (dg : Val) (hcv : v.cv = some (P.sign k (.transcript dg)))
    (hother : k ≠ leaf.x.key ∨ dg ≠ P.hash (serverT1 P s v)) : serverAccepts P s v = false := by
  cases h : serverAccepts P s v with
  | false => rfl
  | true =>
    obtain ⟨_, _, _, _, _, _, _, _, _, hok, _⟩ := (server_accepts_iff P s v).mp h
    simp only [cvOK, hc, Option.getD_some, hcv, hp] at hok
    obtain ⟨h1, h2⟩ := hU _ _ _ _ hok
    simp only [Signed.transcript.injEq] at h2
    rcases hother with h' | h'
    · exact absurd h1.symm h'
    · exact absurd h2.symm h'

-- one connection ---------------------------------------------------------------------------------------------------

/-- `run` reports a side as done only when that side's decision function accepts the view `run` recorded -/
theorem run_done_sound (P : Prims) (c : Client) (s : Server) (w : Wire) :
    ((run P c s w).serverDone = true → ∃ sv, (run P c s w).sview = some sv ∧ serverAccepts P s sv = true) ∧
    ((run P c s w).clientDone = true → (run P c s w).serverDone = true ∧
      ∃ cv, (run P c s w).cview = some cv ∧ clientAccepts P c cv = true) := by
  unfold run
  cases w.ch c.hello with
  | none => simp
  | some ch =>
    simp only
    split
    · simp
    · split
      · simp
      · split
        · simp
        · rename_i h1 h2 h3
          simp only [Bool.not_eq_true] at h3
          exact ⟨fun _ => ⟨_, rfl, by simpa using h3⟩, fun h => ⟨rfl, _, rfl, h⟩⟩

/-- T1 `run_never_diverges`: over a network that cannot forge the server's Finished (`finS` delivers it or
    nothing), whenever the client of `run` completes — whatever was rewritten before — both sides hold the same
    transcript.  "Never both sides complete with different views of the handshake." -/
theorem run_never_diverges (P : Prims) (hB : Binding P) (c : Client) (s : Server) (w : Wire)
    (hfin : ∀ x, w.finS x = x ∨ w.finS x = none) (hdone : (run P c s w).clientDone = true) :
    ∃ cv sv, (run P c s w).cview = some cv ∧ (run P c s w).sview = some sv ∧
      clientTranscript P c cv = serverTranscript P s sv := by
  unfold run at hdone ⊢
  cases hch : w.ch c.hello with
  | none => simp [hch] at hdone
  | some ch =>
    simp only [hch] at hdone ⊢
    split at hdone
    · simp at hdone
    · split at hdone
      · simp at hdone
      · split at hdone
        · simp at hdone
        · rename_i h1 h2 h3
          simp only [h1, h2, h3, if_false, Bool.false_eq_true]
          simp only at hdone
          refine ⟨_, _, rfl, rfl, ?_⟩
          refine (client_finished_binds P hB c _ s _ hdone ?_).1
          simp only
          rcases hfin (some (serverFinished P s _)) with e | e
          · exact e
          · -- nothing delivered: the client cannot have accepted
            have := ((client_accepts_iff P c _).mp hdone).2.2.2.2.2.2.2.2
            simp only [e] at this
            cases this

-- non-vacuity ----------------------------------------------------------------------------------------------------------

section Examples

def exCA : X509.Cert := ⟨1, 100, 100, 2000, 2000, none, none, -48, 48, true, true, -1, 96, [], [], [], "CA", [], false, false, 3⟩
def exLeaf (id subj key ku : Nat) (eku : List Nat) : X509.Cert :=
  ⟨id, subj, 100, key, 2000, none, none, -24, 24, false, false, -1, ku, [], [], ["10.1.2.3"], "", eku, false, false, 3⟩
def exTable : List (Nat × PCert) :=
  [(10, ⟨exLeaf 10 110 2001 1 [1], true⟩), (11, ⟨exLeaf 11 111 2002 28 [1], true⟩), (12, ⟨exLeaf 12 112 2003 1 [2], true⟩),
   (13, ⟨exLeaf 13 113 2004 28 [1], true⟩)]
def exP : Prims := ideal exTable
/-- verification enabled.  The server is named by an IP address here only because `decide` cannot evaluate the
    string functions of DNS-name matching in the kernel; DNS names are exercised by the driver on every run. -/
def exClient : Client :=
  { insecureSkipVerify := false, roots := [exCA], opts := ⟨0, "10.1.2.3", true, "10.1.2.3", []⟩, suites := [0xe013, 0xe053],
    ext := 7, cert := [12], key := 2003, random := 1001, pms := [5005] }
def exServer (pol : Policy) : Server :=
  { certs := [10, 11], encDer := 11, signKey := 2001, decKey := 2002, clientAuth := pol, clientCAs := [exCA], now := 0,
    suites := gmSuites, random := 2002, ext := 9, certReq := (3, 100) }

/-- an honest mutually authenticated handshake is accepted by both sides … -/
example : ((run exP exClient (exServer .requireAndVerifyClientCert) {}).clientDone,
           (run exP exClient (exServer .requireAndVerifyClientCert) {}).serverDone) = (true, true) := by decide +kernel
/-- … and so is one without client authentication -/
example : ((run exP exClient (exServer .noClientCert) {}).clientDone,
           (run exP exClient (exServer .noClientCert) {}).serverDone) = (true, true) := by decide +kernel
/-- another server name, or a verification time after the certificates expired, is refused — unless the client
    was configured to skip verification, in which case the possession checks still apply -/
example : (run exP { exClient with opts := ⟨0, "10.9.9.9", true, "10.9.9.9", []⟩ } (exServer .noClientCert) {}).clientDone = false := by
  decide +kernel
example : (run exP { exClient with opts := ⟨100, "10.1.2.3", true, "10.1.2.3", []⟩ } (exServer .noClientCert) {}).clientDone = false := by
  decide +kernel
example : (run exP { exClient with opts := ⟨100, "10.9.9.9", true, "10.9.9.9", []⟩, insecureSkipVerify := true }
    (exServer .noClientCert) {}).clientDone = true := by decide +kernel
example : (run exP { exClient with insecureSkipVerify := true } { exServer .noClientCert with signKey := 2999 } {}).clientDone = false := by
  decide +kernel
/-- a server holding another signing key, or another decryption key, is not accepted -/
example : (run exP exClient { exServer .noClientCert with signKey := 2999 } {}).clientDone = false := by decide +kernel
example : (run exP exClient { exServer .noClientCert with decKey := 2999 } {}).clientDone = false := by decide +kernel
/-- a client presenting a certificate with another private key is not accepted -/
example : (run exP { exClient with key := 2999 } (exServer .requireAndVerifyClientCert) {}).serverDone = false := by decide +kernel
/-- swapping the encryption certificate in transit is detected (the signature covers it) -/
example : (run exP exClient (exServer .noClientCert) { s2c := fun f => { f with ders := [10, 13] } }).clientDone = false := by
  decide +kernel
/-- rewriting the offered suites in transit is detected by the Finished exchange -/
example : (run exP exClient (exServer .noClientCert)
    { ch := fun h => some { h with suites := [0xe053] } }).serverDone = false := by decide +kernel

end Examples

-- the hypotheses are satisfiable: the ideal primitives (the ones the driver runs the model with) are binding and
-- unforgeable, so the theorems above are not vacuous, and they hold outright for the executed model ---------------

theorem serNats_append_inj (a b x y : List Nat) (h : serNats a ++ x = serNats b ++ y) : a = b ∧ x = y := by
  simp only [serNats, List.cons_append, List.cons.injEq] at h
  exact List.append_inj h.2 h.1

theorem ser_ne_nil (m : Msg) : m.ser ≠ [] := by cases m <;> simp [Msg.ser]

theorem ser_append_inj (m m' : Msg) (x y : List Nat) (h : m.ser ++ x = m'.ser ++ y) : m = m' ∧ x = y := by
  cases m <;> cases m' <;> simp only [Msg.ser, List.cons_append, List.nil_append, List.append_assoc, List.cons.injEq] at h <;>
    first
    | (exact absurd h.1 (by decide))
    | skip
  · rename_i a b
    obtain ⟨_, h1, h2, h3, h4⟩ := h
    obtain ⟨e1, h5⟩ := serNats_append_inj _ _ _ _ h4
    obtain ⟨e2, h6⟩ := serNats_append_inj _ _ _ _ h5
    simp only [List.cons.injEq] at h6
    cases a; cases b; simp_all
  · rename_i a b
    cases a; cases b; simp_all
  all_goals first
    | (obtain ⟨e, f⟩ := serNats_append_inj _ _ _ _ h.2; subst e; exact ⟨rfl, f⟩)
    | simp_all

theorem ideal_hash_inj (t t' : List Msg) (h : t.flatMap Msg.ser = t'.flatMap Msg.ser) : t = t' := by
  induction t generalizing t' with
  | nil =>
    cases t' with
    | nil => rfl
    | cons m ms =>
      simp only [List.flatMap_nil, List.flatMap_cons] at h
      have := ser_ne_nil m
      cases hm : m.ser with
      | nil => exact absurd hm this
      | cons a as => rw [hm] at h; simp at h
  | cons m ms ih =>
    cases t' with
    | nil =>
      simp only [List.flatMap_nil, List.flatMap_cons] at h
      have := ser_ne_nil m
      cases hm : m.ser with
      | nil => exact absurd hm this
      | cons a as => rw [hm] at h; simp at h
    | cons m' ms' =>
      simp only [List.flatMap_cons] at h
      obtain ⟨e, f⟩ := ser_append_inj _ _ _ _ h
      rw [e, ih ms' f]

theorem ideal_binding (t : List (Nat × PCert)) : Binding (ideal t) where
  prf_inj := by
    intro m m' r d d' h
    simp only [ideal, List.cons_append, List.cons.injEq, true_and] at h
    exact serNats_append_inj _ _ _ _ h
  hash_inj := by
    intro a b h
    exact ideal_hash_inj a b h

/-- for the executed model (ideal primitives) no hypothesis about the primitives is left: whatever is rewritten in
    transit, short of forging a Finished, a client that completes holds the server's transcript -/
theorem run_never_diverges_ideal (t : List (Nat × PCert)) (c : Client) (s : Server) (w : Wire)
    (hfin : ∀ x, w.finS x = x ∨ w.finS x = none) (hdone : (run (ideal t) c s w).clientDone = true) :
    ∃ cv sv, (run (ideal t) c s w).cview = some cv ∧ (run (ideal t) c s w).sview = some sv ∧
      clientTranscript (ideal t) c cv = serverTranscript (ideal t) s sv :=
  run_never_diverges (ideal t) (ideal_binding t) c s w hfin hdone


theorem ideal_unforgeable (t : List (Nat × PCert)) : Unforgeable (ideal t) := by
  intro k k' m m' h
  simp only [ideal, beq_iff_eq, List.cons.injEq] at h
  refine ⟨h.1.symm, ?_⟩
  have h2 := h.2
  cases m <;> cases m' <;> simp_all [Signed.ser]

end Props.C08
