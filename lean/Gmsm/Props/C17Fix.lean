/-
C17 (and C18 for the last one): the statements that were FALSE for the unrepaired library, each with the
repair of pkcs12/pkcs12.go resp. x509/pkcs7.go that makes it true.

 1. `Decode` on a bundle that `Encode` wrote with CA certificates returned the leaf's key with the LAST CA
    certificate and no error                                  -> `decode_never_another_certificate`
 2. `ToPEM` refused every SM2 bundle                           -> Props.C17Key.topem_writes_inner_key / sm2_bundle_topem
 3. SM2 SignedData naming (SM3, 1.2.156.10197.1.301.1) never verified -> `gmt0010_pair_accepted`, `gmt0010_signer_verifies`
 4. `PKCS7Encrypt*` panicked on a recipient of the other key type     -> `encryptRecipients_iff`
 5. segmented content was cut to its first segment              -> `contentOf_segments`
 6. `ParsePKCS7` reported success for a SignedData that does not decode -> `parseSignedData_fails_closed`
-/
import Gmsm.Model.P12Bags
import Gmsm.Model.P7Parse
import Gmsm.Model.PKCS7
import Gmsm.Props.C17
namespace Props.C17Fix
open Gmsm

-- 1. the bag loops of pkcs12 -------------------------------------------------------------------------------------
section Bags
open Gmsm.Model.P12Bags

/-- the certificates / the key bags of a bundle, in order -/
def certsOf : List Bag → List Cert
  | [] => []
  | .cert c :: rest => c :: certsOf rest
  | _ :: rest => certsOf rest

def keysOf : List Bag → List (Option Nat)
  | [] => []
  | .key k :: rest => k :: keysOf rest
  | _ :: rest => keysOf rest

/-- the loop of `Decode` ends without error only if, counting what it held before, there is at most one
    certificate bag and at most one key bag, and then it holds exactly those -/
theorem decodeLoop_ok (bags : List Bag) (k0 k : Option Nat) (c0 c : Option Cert)
    (h : decodeLoop bags k0 c0 = .ok (k, c)) :
    c0.toList ++ certsOf bags = c.toList ∧ k0.toList.map some ++ keysOf bags = k.toList.map some ∧
      (∀ x ∈ certsOf bags, x.stdReadable = true) := by
  induction bags generalizing k0 c0 with
  | nil =>
    simp only [decodeLoop, Except.ok.injEq, Prod.mk.injEq] at h
    obtain ⟨rfl, rfl⟩ := h
    simp [certsOf, keysOf]
  | cons b rest ih =>
    cases b with
    | cert x =>
      cases c0 with
      | some y => simp [decodeLoop] at h
      | none =>
        simp only [decodeLoop] at h
        by_cases hx : x.stdReadable = true
        · rw [if_pos hx] at h
          obtain ⟨h1, h2, h3⟩ := ih _ _ h
          refine ⟨by simpa [certsOf] using h1, by simpa [keysOf] using h2, ?_⟩
          intro z hz
          simp only [certsOf, List.mem_cons] at hz
          rcases hz with rfl | hz
          · exact hx
          · exact h3 z hz
        · rw [if_neg hx] at h
          simp at h
    | key kv =>
      cases k0 with
      | some y => simp [decodeLoop] at h
      | none =>
        cases kv with
        | none => simp [decodeLoop] at h
        | some v =>
          simp only [decodeLoop] at h
          obtain ⟨h1, h2, h3⟩ := ih _ _ h
          exact ⟨by simpa [certsOf] using h1, by simpa [keysOf] using h2, by simpa [certsOf] using h3⟩
    | other =>
      simp only [decodeLoop] at h
      obtain ⟨h1, h2, h3⟩ := ih _ _ h
      exact ⟨by simpa [certsOf] using h1, by simpa [keysOf] using h2, by simpa [certsOf] using h3⟩

/-- T1 `decode_sound` (the repaired behaviour, for EVERY list of bags): when `Decode` returns a key and a
    certificate without error, the bundle holds exactly one certificate bag - the certificate returned - and
    exactly one key bag - the key returned.  It never picks one certificate out of several. -/
theorem decode_sound (bags : List Bag) (k : Nat) (c : Cert) (h : decode bags = .ok (k, c)) :
    certsOf bags = [c] ∧ keysOf bags = [some k] ∧ c.stdReadable = true := by
  unfold decode at h
  split at h
  · simp at h
  · simp at h
  · simp at h
  · rename_i k' c' hl
    simp only [Except.ok.injEq, Prod.mk.injEq] at h
    obtain ⟨rfl, rfl⟩ := h
    obtain ⟨h1, h2, h3⟩ := decodeLoop_ok bags none _ none _ hl
    simp only [Option.toList_none, List.nil_append, Option.toList_some, List.map_nil, List.map_cons] at h1 h2
    exact ⟨h1, h2, h3 _ (by rw [h1]; simp)⟩

theorem decodeLoop_cas (cas : List Cert) (tail : List Bag) (k0 : Option Nat) (x : Cert) (hne : cas ≠ []) :
    ∃ e, decodeLoop (cas.map .cert ++ tail) k0 (some x) = .error e := by
  cases cas with
  | nil => exact absurd rfl hne
  | cons a as => exact ⟨.twoCertBags, rfl⟩

/-- T2 `decode_encodeBags`: `Decode` on what `Encode` wrote.  Without CA certificates it is the key and the
    end-entity certificate (when the standard library reads that certificate); with CA certificates it is an
    error. -/
theorem decode_encodeBags (key : Nat) (leaf : Cert) (cas : List Cert) :
    decode (encodeBags key leaf cas) =
      if leaf.stdReadable then (if cas = [] then .ok (key, leaf) else .error .twoCertBags) else .error .certParse := by
  by_cases hl : leaf.stdReadable = true
  · cases cas with
    | nil => simp [decode, encodeBags, decodeLoop, hl]
    | cons a as => simp [decode, encodeBags, decodeLoop, hl]
  · simp [decode, encodeBags, decodeLoop, hl]

/-- T3 `decode_never_another_certificate` (false before the repair, see `decodeOld_returns_last_ca`): whatever
    `Decode` returns without error for a bundle written by `Encode` is the key and the END-ENTITY certificate that
    went in; with CA certificates in the bundle there is no such answer. -/
theorem decode_never_another_certificate (key : Nat) (leaf : Cert) (cas : List Cert) (k : Nat) (c : Cert)
    (h : decode (encodeBags key leaf cas) = .ok (k, c)) : k = key ∧ c = leaf ∧ cas = [] := by
  rw [decode_encodeBags] at h
  split at h
  · split at h
    · rename_i hc
      simp only [Except.ok.injEq, Prod.mk.injEq] at h
      exact ⟨h.1.symm, h.2.symm, hc⟩
    · simp at h
  · simp at h

theorem decodeAllLoop_certs (cs : List Cert) (tail : List Bag) (k0 : Option Nat) (acc : List Cert) :
    decodeAllLoop (cs.map .cert ++ tail) k0 acc = decodeAllLoop tail k0 (acc ++ cs) := by
  induction cs generalizing acc with
  | nil => simp
  | cons c cs ih => simp [decodeAllLoop, ih]

/-- T4 `decodeAll_encodeBags`: `DecodeAll` gives back the key and ALL certificates, the end-entity certificate
    first, the CA certificates in the order they were handed to `Encode`. -/
theorem decodeAll_encodeBags (key : Nat) (leaf : Cert) (cas : List Cert) :
    decodeAll (encodeBags key leaf cas) = .ok (key, leaf :: cas) := by
  simp [decodeAll, encodeBags, decodeAllLoop, decodeAllLoop_certs]

theorem toPEM_certs (cs : List Cert) (tail : List Bag) (bs : List Block) (h : toPEM tail = .ok bs) :
    toPEM (cs.map .cert ++ tail) = .ok (cs.map .certificate ++ bs) := by
  induction cs with
  | nil => simpa using h
  | cons c cs ih => simp [toPEM, ih]

/-- T5 `toPEM_encodeBags`: `ToPEM` gives one CERTIFICATE block per certificate, in order, and the PRIVATE KEY
    block last (the key block is what Props.C17Key.topem_writes_inner_key describes). -/
theorem toPEM_encodeBags (key : Nat) (leaf : Cert) (cas : List Cert) :
    toPEM (encodeBags key leaf cas) = .ok (.certificate leaf :: (cas.map .certificate ++ [.privateKey key])) := by
  have h := toPEM_certs (leaf :: cas) [.key (some key)] [.privateKey key] (by simp [toPEM])
  simpa [encodeBags] using h

/-- the loop of `Decode` BEFORE the repair: the two "expected exactly one" errors are assigned to a variable that
    the key bag overwrites, the later certificate replaces the earlier one -/
def decodeOldLoop : List Bag → Option Nat → Option Cert → Except Err (Option Nat × Option Cert)
  | [], k, c => .ok (k, c)
  | .cert c :: rest, k, _ => if c.stdReadable then decodeOldLoop rest k (some c) else .error .certParse
  | .key none :: _, _, _ => .error .keyDecode
  | .key (some v) :: rest, _, c => decodeOldLoop rest (some v) c
  | .other :: rest, k, c => decodeOldLoop rest k c

/-- the defect, as a statement about the old loop: for a bundle with CA certificates it ended with the key and the
    LAST CA certificate, no error -/
theorem decodeOld_returns_last_ca :
    decodeOldLoop (encodeBags 7 ⟨1, true⟩ [⟨2, true⟩, ⟨3, true⟩]) none none = .ok (some 7, some ⟨3, true⟩) := by rfl

-- non-vacuity
example : decode (encodeBags 7 ⟨1, true⟩ []) = .ok (7, ⟨1, true⟩) := by rfl
example : decode (encodeBags 7 ⟨1, true⟩ [⟨2, true⟩, ⟨3, true⟩]) = .error .twoCertBags := by rfl
example : decode (encodeBags 7 ⟨1, false⟩ []) = .error .certParse := by rfl
example : decodeAll (encodeBags 7 ⟨1, false⟩ [⟨2, true⟩, ⟨3, true⟩]) = .ok (7, [⟨1, false⟩, ⟨2, true⟩, ⟨3, true⟩]) := by rfl
example : toPEM (encodeBags 7 ⟨1, false⟩ [⟨2, true⟩]) = .ok [.certificate ⟨1, false⟩, .certificate ⟨2, true⟩, .privateKey 7] := by rfl
example : decode [.key (some 1), .cert ⟨1, true⟩, .key (some 2)] = .error .twoKeyBags := by rfl

end Bags

-- 3. which (digest, signature) algorithm pairs an SM2 signer may name ---------------------------------------------
section Pairs
open Model.PKCS7

/-- the decision of `verifySignature` on the two algorithm identifiers of a signer: the digest OID must name a
    hash and the pair (hash, digest-encryption OID) a signature algorithm.  For a signer whose certificate
    holds an SM2 key nothing else depends on them: `checkSignature` runs SM2-with-SM3 (default user id) for
    every algorithm of the table, the hash it selected is not used. -/
def pairAccepted (d : DigestOID) (e : EncOID) : Bool :=
  match getHashForOID d with
  | none => false
  | some h => (getSignatureAlgorithmByHash h e).isSome

/-- T6 `pairAccepted_iff`: the whole table. -/
theorem pairAccepted_iff (d : DigestOID) (e : EncOID) :
    pairAccepted d e = true ↔
      ((d = .sm3 ∨ d = .sm3Arc) ∧ (e = .sm3WithSM2 ∨ e = .dsaSM2)) ∨
      (d = .sha256 ∧ (e = .dsaSM2 ∨ e = .sha256WithRSA ∨ e = .rsaEncryption)) ∨
      (d = .sha1 ∧ (e = .sha1WithRSA ∨ e = .rsaEncryption)) := by
  cases d <;> cases e <;> simp [pairAccepted, getHashForOID, getSignatureAlgorithmByHash]

/-- T7 `gmt0010_pair_accepted` (false before the repair): the pair GM/T 0010 prescribes - SM3 digest (either of
    the two OIDs in use), signature algorithm 1.2.156.10197.1.301.1 - names SM2-with-SM3; so does the pair with
    the SM3-with-SM2 OID, and so does the pair the package's own `AddSigner` writes (SHA-1, sha1WithRSA). -/
theorem gmt0010_pair_accepted :
    getSignatureAlgorithmByHash .sm3 .dsaSM2 = some .sm2WithSM3 ∧
    pairAccepted .sm3 .dsaSM2 = true ∧ pairAccepted .sm3Arc .dsaSM2 = true ∧
    pairAccepted .sm3 .sm3WithSM2 = true ∧ pairAccepted .sm3Arc .sm3WithSM2 = true ∧
    pairAccepted .sha1 .sha1WithRSA = true := by decide

/-- T8 `gmt0010_signer_verifies`: a signer that names (SM3, 301.1), whose certificate is in the container and
    whose signature - checked as SM2-with-SM3 under the certified key - covers the content (no signed
    attributes) resp. the DER SET of signed attributes whose message-digest attribute is the SM3 digest of
    the content, is accepted. -/
theorem gmt0010_signer_verifies (P : Prims) (content : Bytes) (certs : List Cert) (s : Signer) (c : Cert)
    (hd : s.digestAlg = .sm3 ∨ s.digestAlg = .sm3Arc) (he : s.encAlg = .dsaSM2)
    (hc : findCert certs s.ias = some c)
    (hs : (s.attrs = [] ∧ P.check c.key .sm2WithSM3 content s.sig = true) ∨
          (s.attrs ≠ [] ∧ messageDigestOf s.attrs = some (P.hash .sm3 content) ∧
            P.check c.key .sm2WithSM3 (P.derAttrs s.attrs) s.sig = true)) :
    verifySigner P content certs s = .ok () := by
  rw [Props.C17.verify_signer_iff]
  refine ⟨.sm3, c, .sm2WithSM3, ?_, hc, ?_, hs⟩
  · rcases hd with h | h <;> rw [h] <;> rfl
  · rw [he]; rfl

-- non-vacuity: the ideal signature scheme of the driver's `p7v` op
def toyP : Prims where
  hash _ c := 3 :: c
  derAttrs as := as.flatMap fun a => a.value
  check k _ signed sig := sig = BitVec.ofNat 8 k :: signed

example : verifySigner toyP [1, 2] [⟨⟨[9], 950⟩, 0⟩] ⟨⟨[9], 950⟩, .sm3, [], .dsaSM2, [0, 1, 2]⟩ = .ok () := by rfl
example : verifySigner toyP [1, 2] [⟨⟨[9], 950⟩, 0⟩] ⟨⟨[9], 950⟩, .sm3Arc, [⟨true, [3, 1, 2]⟩], .dsaSM2, [0, 3, 1, 2]⟩ = .ok () := by rfl
example : verifySigner toyP [1, 2] [⟨⟨[9], 950⟩, 0⟩] ⟨⟨[9], 950⟩, .sm3, [], .dsaSM2, [1, 1, 2]⟩ = .error .badSignature := by rfl
example : pairAccepted .sm3 .sha1WithRSA = false := by decide

end Pairs

-- 4. recipient key types ---------------------------------------------------------------------------------------------
section Recipients
open Gmsm.Model.P7Parse

/-- T9 `encryptRecipients_iff`: `PKCS7Encrypt` / `PKCS7EncryptSM2` write an envelope exactly when every recipient
    certificate holds a key of the entry point's kind; otherwise the answer is ErrPKCS7UnsupportedAlgorithm -
    an error value, for every list of recipients (the function is total: there is no panic). -/
theorem encryptRecipients_iff (api : Api) (ks : List KeyKind) :
    encryptRecipients api ks = true ↔ ∀ k ∈ ks, k = api.wants := by
  induction ks with
  | nil => simp [encryptRecipients]
  | cons k ks ih =>
    by_cases hk : k = api.wants
    · simp [encryptRecipients, encryptKey, hk, ih]
    · simp [encryptRecipients, encryptKey, hk]

inductive Outcome | written | unsupported | panic
deriving DecidableEq, Repr

/-- the recipient loop BEFORE the repair: `recipient.PublicKey.(*rsa.PublicKey)` without the `, ok` form panics on
    any other dynamic type -/
def encryptRecipientsOld (api : Api) : List KeyKind → Outcome
  | [] => .written
  | k :: rest => if k = api.wants then encryptRecipientsOld api rest else .panic

/-- old and new agree wherever the old code did not panic -/
theorem encryptRecipientsOld_agrees (api : Api) (ks : List KeyKind) (h : encryptRecipientsOld api ks ≠ .panic) :
    encryptRecipientsOld api ks = .written ∧ encryptRecipients api ks = true := by
  induction ks with
  | nil => exact ⟨rfl, rfl⟩
  | cons k ks ih =>
    by_cases hk : k = api.wants
    · simp only [encryptRecipientsOld, hk, if_true] at h ⊢
      have := ih h
      exact ⟨this.1, by simp [encryptRecipients, encryptKey, this.2]⟩
    · simp [encryptRecipientsOld, hk] at h

example : encryptRecipientsOld .rsa [.rsa, .ec] = .panic := by decide
example : encryptRecipients .rsa [.rsa, .ec] = false := by decide
example : encryptRecipients .sm2 [.ec, .ec, .ec] = true := by decide
example : encryptRecipients .sm2 [.rsa] = false := by decide

end Recipients

-- 5. / 6. the content and the decode error of a SignedData ------------------------------------------------------
section Parse
open Gmsm.Model.P7Parse

/-- T10 `concatSegments_prims`: primitive segments are concatenated, all of them, in order. -/
theorem concatSegments_prims (bs : List Bytes) : concatSegments (bs.map .prim) = .ok bs.flatten := by
  induction bs with
  | nil => rfl
  | cons b bs ih => simp [concatSegments, ih]

/-- T11 `contentOf_segments` (false before the repair, which returned the first segment): however the signer's
    content is cut into OCTET STRING segments, the `Content` of the parsed object is the whole content. -/
theorem contentOf_segments (c : Bytes) (segs : List Bytes) (h : segs.flatten = c) :
    contentOf (.constructed (segs.map .prim)) = .ok c := by
  rw [← h]; exact concatSegments_prims segs

/-- a member that is not a primitive OCTET STRING is an error, never skipped -/
theorem concatSegments_error (segs : List Segment) (h : Segment.notOctets ∈ segs) :
    concatSegments segs = .error .contentSegment := by
  induction segs with
  | nil => simp at h
  | cons s rest ih =>
    cases s with
    | notOctets => rfl
    | prim b =>
      have : Segment.notOctets ∈ rest := by simpa using h
      simp [concatSegments, ih this]

/-- T12 `parseSignedData_fails_closed` (C18; false before the repair): a SignedData body that `encoding/asn1` does
    not decode is an error of `ParsePKCS7`, whatever the decoder had filled in before it failed. -/
theorem parseSignedData_fails_closed (d : Decoded) (h : d.unmarshalOk = false) :
    parseSignedData d = .error .unmarshal := by
  simp [parseSignedData, h]

/-- T13 `parseSignedData_ok_iff`: an object comes back exactly when the body decoded, its certificates parsed and
    the content is absent, primitive, or made of primitive segments. -/
theorem parseSignedData_ok_iff (d : Decoded) (c : Bytes) :
    parseSignedData d = .ok c ↔ d.unmarshalOk = true ∧ d.certsOk = true ∧ contentOf d.content = .ok c := by
  unfold parseSignedData
  by_cases h1 : d.unmarshalOk = true
  · by_cases h2 : d.certsOk = true
    · simp [h1, h2]
    · simp [h1, h2]
  · simp [h1]

example : contentOf (.constructed [.prim [1, 2], .prim [3], .prim [4, 5]]) = .ok [1, 2, 3, 4, 5] := by rfl
example : contentOf (.constructed [.prim [1, 2], .notOctets]) = .error .contentSegment := by rfl
example : contentOf (.constructed []) = .ok [] := by rfl
example : parseSignedData ⟨false, true, .primitive [1]⟩ = .error .unmarshal := by rfl
example : parseSignedData ⟨true, true, .constructed [.prim [1], .prim [2]]⟩ = .ok [1, 2] := by rfl

end Parse
end Props.C17Fix
