/-
C10 — the two repairs of round 9 to the parent selection of `Certificate.Verify`, stated over `Model.X509`.

(1) cert_pool.go `findVerifiedParents` (false reject).  As found, the subject-name index was consulted only
    when the lookup by the child's AuthorityKeyId gave nothing: one unusable pool member with the matching
    SubjectKeyId (the expired predecessor of a renewed CA certificate, say) hid every other certificate of the
    same CA, and ADDING a certificate to a pool could make a valid chain disappear.  Repaired rule: key-id
    matches first, then the name matches not already listed.  Theorems here: the set of chains is monotone in
    both pools (`goodSuffix_mono`, `buildChains_mono`, `verify_mono`, `verify_mono_not_noChain`); the local facts
    `findVerifiedParents_complete` / `findVerifiedParents_mono` and the completeness theorems without any
    key-identifier side condition are in `Props/C10Complete.lean`.
(2) x509.go `CheckSignatureFrom` (false accept).  As found, the requirement "the parent is a CA" was waived
    whenever the CHILD carried one particular (public) RSA SubjectPublicKeyInfo (`entrustBrokenSPKI`), so an
    explicit non-CA certificate in the root pool was accepted as issuer of any leaf with that key.  The exemption
    is removed; the model never had it.  Theorems here: `checkSigFrom_child_key_irrelevant` (the verdict does not
    depend on the child's public key), `checkSigFrom_parent_ca`, `verify_issuers_ca` (every issuer in every chain
    `Verify` returns satisfies the CA conditions of RFC 5280 4.2.1.9, root pool members included).
-/
import Gmsm.Props.C10Complete
namespace Props.C10
open Model.X509

/-! ### (1) monotonicity in the pools -/

/-- a good suffix stays good when certificates are added to the pools (`GoodSuffix` mentions the pools only
    through membership) -/
theorem goodSuffix_mono (roots roots2 inters inters2 : List Cert) (o : Opts)
    (hr : ∀ x ∈ roots, x ∈ roots2) (hi : ∀ x ∈ inters, x ∈ inters2) (suffix : List Cert) :
    ∀ chain, GoodSuffix roots inters o chain suffix → GoodSuffix roots2 inters2 o chain suffix := by
  induction suffix with
  | nil => intro chain hg; exact absurd hg (by simp [GoodSuffix])
  | cons i rest ih =>
    intro chain hg
    cases rest with
    | nil =>
      obtain ⟨h1, h2, h3, h4⟩ := hg
      exact ⟨hr i h1, h2, h3, h4⟩
    | cons r rest =>
      obtain ⟨h1, h2, h3, h4, h5⟩ := hg
      exact ⟨hi i h1, h2, h3, h4, ih (chain ++ [i]) h5⟩

/-- `buildChains_mono`: every chain the search finds with pools `roots`, `inters` is also found with larger
    pools `roots2 ⊇ roots`, `inters2 ⊇ inters` (any recursion depth that covers the larger intermediate pool, any
    budgets), unless the larger search is cut by its work budget.  False for the rule as found. -/
theorem buildChains_mono (roots roots2 inters inters2 : List Cert) (o : Opts)
    (hr : ∀ x ∈ roots, x ∈ roots2) (hi : ∀ x ∈ inters, x ∈ inters2)
    (fuel steps fuel2 steps2 : Nat) (chain full : List Cert)
    (h : full ∈ (buildChains roots inters o fuel steps chain).1)
    (hfuel : inters2.length + 1 ≤ fuel2)
    (hb : 0 < (buildChains roots2 inters2 o fuel2 steps2 chain).2) :
    full ∈ (buildChains roots2 inters2 o fuel2 steps2 chain).1 := by
  obtain ⟨suffix, rfl, hg⟩ := buildChains_sound roots inters o fuel steps chain full h
  have hg2 := goodSuffix_mono roots roots2 inters inters2 o hr hi suffix chain hg
  have hlen := goodSuffix_length_le roots2 inters2 o chain suffix hg2
  exact buildChains_complete roots2 inters2 o fuel2 steps2 chain suffix hg2 (Nat.le_trans hlen hfuel) hb

/-- the candidate chains of `Verify` are monotone in the pools (leaf not itself a root of the larger pool) -/
theorem candidates_mono (roots roots2 inters inters2 : List Cert) (leaf : Cert) (o : Opts)
    (hr : ∀ x ∈ roots, x ∈ roots2) (hi : ∀ x ∈ inters, x ∈ inters2)
    (hnr : roots2.any (·.id == leaf.id) = false)
    (hb : WithinBudget roots2 inters2 leaf o) :
    ∀ ch ∈ candidates roots inters leaf o, ch ∈ candidates roots2 inters2 leaf o := by
  intro ch hch
  apply candidates_complete roots2 inters2 leaf o ch hb
  have hnr1 : roots.any (·.id == leaf.id) = false := by
    cases h : roots.any (·.id == leaf.id) with
    | false => rfl
    | true =>
      obtain ⟨x, hx, hxe⟩ := List.any_eq_true.mp h
      have : roots2.any (·.id == leaf.id) = true := List.any_eq_true.mpr ⟨x, hr x hx, hxe⟩
      rw [this] at hnr
      cases hnr
  rcases candidates_sound roots inters leaf o ch hch with ⟨_, h⟩ | ⟨_, suffix, h1, hg⟩
  · rw [hnr1] at h; cases h
  · exact Or.inr ⟨hnr, suffix, h1, goodSuffix_mono roots roots2 inters inters2 o hr hi suffix [leaf] hg⟩

/-- `verify_mono` — "adding a certificate to the intermediates or to the roots never removes a chain".
    If `Verify` succeeds with pools `roots`, `inters` and returns `chains`, then with any larger pools
    `roots2 ⊇ roots`, `inters2 ⊇ inters` it succeeds as well and returns every chain of `chains` (and possibly
    more), provided
    * the leaf is not itself (by `Equal`) a member of the larger root pool - in that case `Verify` answers with
      the one-element chain `[leaf]` and does not search (`verify_complete_root`), and
    * the search over the larger pools is not cut by `maxChainBuildSteps` (`WithinBudget`).
    Options, verification time and the leaf are the same on both sides.  The statement was false for the rule
    as found (see the examples below: the expired predecessor of a renewed CA certificate). -/
theorem verify_mono (roots roots2 inters inters2 : List Cert) (leaf : Cert) (o : Opts) (chains : List (List Nat))
    (hr : ∀ x ∈ roots, x ∈ roots2) (hi : ∀ x ∈ inters, x ∈ inters2)
    (hnr : roots2.any (·.id == leaf.id) = false)
    (hb : WithinBudget roots2 inters2 leaf o)
    (h : verify roots inters leaf o = .ok chains) :
    ∃ chains2, verify roots2 inters2 leaf o = .ok chains2 ∧ ∀ ids ∈ chains, ids ∈ chains2 := by
  obtain ⟨h1, h2, h3, hne, hch⟩ := (verify_ok_iff roots inters leaf o chains).mp h
  have hsub : ∀ ch ∈ (candidates roots inters leaf o).filter (usageOK o),
      ch ∈ (candidates roots2 inters2 leaf o).filter (usageOK o) := by
    intro ch hc
    rw [List.mem_filter] at hc ⊢
    exact ⟨candidates_mono roots roots2 inters inters2 leaf o hr hi hnr hb ch hc.1, hc.2⟩
  obtain ⟨ch0, hch0⟩ := List.exists_mem_of_ne_nil _ hne
  refine ⟨_, (verify_ok_iff roots2 inters2 leaf o _).mpr
    ⟨h1, h2, h3, List.ne_nil_of_mem (hsub ch0 hch0), rfl⟩, ?_⟩
  intro ids hids
  rw [hch] at hids
  obtain ⟨ch, hc, rfl⟩ := List.mem_map.mp hids
  exact List.mem_map_of_mem (hsub ch hc)

/-! ### (2) the issuer must be a CA, whatever the child's key -/

/-- the CA conditions of `CheckSignatureFrom` on the parent (RFC 5280 4.2.1.9 and 4.2.1.3): a v3 parent has a
    basicConstraints extension, a basicConstraints extension asserts cA, and a keyUsage extension, if present,
    contains keyCertSign -/
def IssuerIsCA (p : Cert) : Prop :=
  (p.version = 3 → p.bcValid = true) ∧ (p.bcValid = true → p.isCA = true) ∧
  (p.keyUsage ≠ 0 → p.keyUsage &&& certSign ≠ 0)

/-- `checkSigFrom_parent_ca`: `CheckSignatureFrom` succeeds only for a parent that satisfies the CA conditions -
    for EVERY child.  (As found, the Go function skipped the first two conditions for children carrying the
    Entrust public key.) -/
theorem checkSigFrom_parent_ca (c p : Cert) (h : checkSigFrom c p = true) : IssuerIsCA p := by
  unfold checkSigFrom at h
  simp only [Bool.and_eq_true, Bool.not_eq_true', Bool.or_eq_false_iff, Bool.and_eq_false_iff,
    beq_eq_false_iff_ne, bne_iff_ne, beq_iff_eq, Bool.not_eq_false', ne_eq] at h
  obtain ⟨⟨⟨h1, h2⟩, h3⟩, _⟩ := h
  refine ⟨?_, ?_, ?_⟩
  · intro hv
    rcases h1 with h1 | h1
    · exact absurd hv h1
    · exact h1
  · intro hb
    rcases h2 with h2 | h2
    · rw [hb] at h2; cases h2
    · exact h2
  · intro hk
    rcases h3 with h3 | h3
    · exact absurd (by simpa using h3) hk
    · exact h3

/-- `checkSigFrom_child_key_irrelevant`: the verdict of `CheckSignatureFrom` does not depend on the public key
    the child certifies (nor on anything of the child but the key that signed it). -/
theorem checkSigFrom_child_key_irrelevant (c p : Cert) (k : Nat) :
    checkSigFrom { c with key := k } p = checkSigFrom c p := rfl

theorem checkSigFrom_child_irrelevant (c c2 p : Cert) (h : c.signer = c2.signer) :
    checkSigFrom c p = checkSigFrom c2 p := by
  unfold checkSigFrom; rw [h]

theorem goodSuffix_issuers_ca (roots inters : List Cert) (o : Opts) (suffix : List Cert) :
    ∀ chain, GoodSuffix roots inters o chain suffix → ∀ p ∈ suffix, IssuerIsCA p := by
  induction suffix with
  | nil => intro chain hg; exact absurd hg (by simp [GoodSuffix])
  | cons i rest ih =>
    intro chain hg p hp
    cases rest with
    | nil =>
      obtain ⟨_, ⟨c, _, hsig⟩, _, _⟩ := hg
      rw [List.mem_singleton] at hp
      subst hp
      exact checkSigFrom_parent_ca c p hsig
    | cons r rest =>
      obtain ⟨_, ⟨c, _, hsig⟩, _, _, hg'⟩ := hg
      rcases List.mem_cons.mp hp with rfl | hp
      · exact checkSigFrom_parent_ca c p hsig
      · exact ih (chain ++ [i]) hg' p hp

/-- `verify_issuers_ca`: in every chain `Verify` returns, every certificate after the leaf - intermediates AND the
    certificate taken from the root pool - satisfies the CA conditions, for every leaf (no public key buys an
    exemption).  The only chain without this guarantee is `[leaf]` for a leaf that is itself a trusted root: it has
    no issuer. -/
theorem verify_issuers_ca (roots inters : List Cert) (leaf : Cert) (o : Opts) (chains : List (List Nat))
    (h : verify roots inters leaf o = .ok chains) :
    ∀ ids ∈ chains, ∃ chain : List Cert, ids = chain.map (·.id) ∧ chain.head? = some leaf ∧
      ∀ p ∈ chain.tail, IssuerIsCA p := by
  obtain ⟨_, hall⟩ := verify_only_if_good_path roots inters leaf o chains h
  intro ids hids
  obtain ⟨chain, hc, hg, _⟩ := hall ids hids
  refine ⟨chain, hc, ?_⟩
  rcases hg with ⟨rfl, _⟩ | ⟨_, suffix, rfl, hgs⟩
  · exact ⟨rfl, by simp⟩
  · refine ⟨rfl, ?_⟩
    intro p hp
    exact goodSuffix_issuers_ca roots inters o suffix [leaf] hgs p (by simpa using hp)

/-! ### non-vacuity (tests) -/

/-- (1) a renewed CA: `caOld` (SubjectKeyId 1, expired) and `caNew` (SubjectKeyId 2, valid) carry the same name and
    the same key; `rLeaf` was issued while `caOld` was current (AuthorityKeyId 1).  The chain through `caNew` is
    found with both certificates in the pool, in either order - exactly the chain found when `caNew` is the only
    intermediate.  For the rule as found both two-certificate pools gave "no chain". -/
def caOld : Cert := { exInt with id := 5, ski := some 1, nb := -300, na := -200 }
def caNew : Cert := { exInt with id := 6, ski := some 2 }
def rLeaf : Cert := { exLeaf with aki := some 1 }

example : (match verify [exRoot] [caNew] rLeaf exOpts with | .ok cs => cs | _ => []) = [[3, 6, 1]] := by decide
example : (match verify [exRoot] [caOld, caNew] rLeaf exOpts with | .ok cs => cs | _ => []) = [[3, 6, 1]] := by decide
example : (match verify [exRoot] [caNew, caOld] rLeaf exOpts with | .ok cs => cs | _ => []) = [[3, 6, 1]] := by decide
example : findVerifiedParents [caOld, caNew] rLeaf = [caOld, caNew] := by decide
example : findVerifiedParents [caNew, caOld] rLeaf = [caOld, caNew] := by decide

/-- `verify_mono` applies to it (all hypotheses discharged): from the pool {caNew} to the pool {caOld, caNew} -/
example : ∃ chains2, verify [exRoot] [caOld, caNew] rLeaf exOpts = .ok chains2 ∧ ∀ ids ∈ [[3, 6, 1]], ids ∈ chains2 :=
  verify_mono [exRoot] [exRoot] [caNew] [caOld, caNew] rLeaf exOpts [[3, 6, 1]] (fun _ h => h)
    (by intro x hx; simp at hx; subst hx; simp) (by decide) (fun _ => by decide) rfl

/-- (2) a pinned end-entity certificate in the root pool (basicConstraints present, cA = FALSE) is nobody's
    issuer: a leaf signed with its key is rejected whatever public key the leaf carries (999 is the identity the
    harness gives to the Entrust RSA key). -/
def pinned : Cert := { exRoot with isCA := false }
def pLeaf (k : Nat) : Cert := { exLeaf with iss := 10, signer := 10, key := k }

example : ¬ IssuerIsCA pinned := by unfold IssuerIsCA; decide
example : (match verify [pinned] [] (pLeaf 90) exOpts with | .noChain => true | _ => false) = true := by decide
example : (match verify [pinned] [] (pLeaf 999) exOpts with | .noChain => true | _ => false) = true := by decide
/-- … while the same leaves verify under the CA root -/
example : (match verify [exRoot] [] (pLeaf 999) exOpts with | .ok cs => cs | _ => []) = [[3, 1]] := by decide

end Props.C10
