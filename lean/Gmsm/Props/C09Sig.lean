/-
C09 / C01 — the signature VALUE of a certificate, request or revocation list is not malleable.

`Model.X509Sig.decode` is the decoding step of the repaired `x509.checkSignature` (ECDSA / SM2 and DSA
branches): `asn1.Unmarshal` into struct{R, S} - which ignores further members of the SEQUENCE - followed by
the comparison of the re-encoded pair with the signature bytes.  Theorems:
 * `decode_eq_strict`: it accepts exactly what the strict decoder of the specification (`Spec.DER.decSig`, the
   one `sm2.PublicKey.Verify` implements) accepts, with the same pair;
 * `verifySM2_eq_spec`: hence the X.509 verdict for an SM2 key is the strict specification verdict (what the
   driver prints for `sm2verifyder`), for every key, message and byte string;
 * `extra_member_rejected`: SEQUENCE{r, s, anything more} is refused - the statement that was FALSE before the
   repair (`lenient_accepts_extra_member`: the decoding step as found accepted every such byte string as (r, s));
 * `decode_injective`: two byte strings accepted as the same pair are equal, so every change of an accepted
   signature value that is still accepted carries another (r, s).
-/
import Gmsm.Model.X509Sig
import Gmsm.Props.C01
import Gmsm.Props.C14Codec
namespace Props.C09Sig
open Gmsm Spec.DER Model.X509Sig

/-- the strict decoder of the specification restricted to positive pairs -/
def strict (sig : Bytes) : Option (Nat × Nat) :=
  match decSig sig with
  | some (r, s) => if r ≤ 0 ∨ s ≤ 0 then none else some (r.toNat, s.toNat)
  | none => none

/-- whatever the strict decoder accepts, `asn1.Unmarshal` accepts as the same pair with nothing left over -/
theorem unmarshalRS_of_decSig (sig : Bytes) (r s : Int) (h : decSig sig = some (r, s)) :
    unmarshalRS sig = some (r, s, []) := by
  unfold decSig at h
  unfold unmarshalRS
  split at h
  · next body h30 =>
    rw [h30]
    simp only
    split at h
    · next rc rest hrc =>
      rw [hrc]
      simp only
      split at h
      · next sc hsc =>
        rw [hsc]
        simp only
        split at h
        · next r0 s0 hr0 hs0 =>
          simp only [Option.some.injEq, Prod.mk.injEq] at h
          obtain ⟨e1, e2⟩ := h
          subst e1; subst e2
          rw [hr0, hs0]
        · cases h
      · cases h
    · cases h
  · cases h

/-- the repaired decoding step returns a pair only together with the fact that the bytes are its encoding -/
theorem decode_some (sig : Bytes) (r s : Nat) (h : decode sig = some (r, s)) : encSig r s = sig := by
  unfold decode at h
  split at h
  · next r0 s0 _ =>
    split at h
    · cases h
    · split at h
      · next he =>
        simp only [Option.some.injEq, Prod.mk.injEq] at h
        obtain ⟨e1, e2⟩ := h
        rw [← e1, ← e2]; exact he
      · cases h
  · cases h

/-- `decode_injective`: two signature values that the repaired verifier decodes to the same pair are the same
    bytes.  (No bound on lengths or values.) -/
theorem decode_injective (sig sig2 : Bytes) (r s : Nat) (h1 : decode sig = some (r, s)) (h2 : decode sig2 = some (r, s)) :
    sig = sig2 := by
  rw [← decode_some sig r s h1, ← decode_some sig2 r s h2]

/-- `decode_eq_strict`: the repaired decoding step (lenient `asn1.Unmarshal` + re-encoding check + sign check) is
    the strict DER decoder of the specification, for every byte string shorter than 2^32 bytes. -/
theorem decode_eq_strict (sig : Bytes) (hl : sig.length < 2 ^ 32) : decode sig = strict sig := by
  unfold strict
  cases hd : decSig sig with
  | some p =>
    obtain ⟨r, s⟩ := p
    simp only
    unfold decode
    rw [unmarshalRS_of_decSig sig r s hd]
    simp only
    by_cases hneg : r ≤ 0 ∨ s ≤ 0
    · rw [if_pos hneg, if_pos hneg]
    · rw [if_neg hneg, if_neg hneg]
      have hr : 0 ≤ r := by omega
      have hs : 0 ≤ s := by omega
      rw [if_pos (Props.C14Codec.der_canonical sig r s hd hr hs)]
  | none =>
    simp only
    cases hx : decode sig with
    | none => rfl
    | some q =>
      obtain ⟨r, s⟩ := q
      exfalso
      have he := decode_some sig r s hx
      have hl2 : (encSig r s).length < 2 ^ 32 := by rw [he]; exact hl
      have := Props.C14Codec.der_roundtrip_all r s hl2
      rw [he, hd] at this
      cases this

/-- the strict specification verdict for a DER signature under the default user ID (what the driver prints for
    `sm2verifyder`, the model of `sm2.PublicKey.Verify`) -/
def specVerifyDer (px py : Nat) (msg sig : Bytes) : Bool :=
  match decSig sig with
  | some (r, s) => if r < 0 ∨ s < 0 then false else Spec.SM2.verify px py Spec.SM2.defaultUid msg r.toNat s.toNat
  | none => false

/-- `verifySM2_eq_spec`: for a key on the SM2 curve the repaired `checkSignature` gives exactly the strict
    verdict of the specification: same acceptance as `sm2.PublicKey.Verify` on every byte string. -/
theorem verifySM2_eq_spec (px py : Nat) (msg sig : Bytes) (hl : sig.length < 2 ^ 32) :
    verifySM2 px py msg sig = specVerifyDer px py msg sig := by
  unfold verifySM2 specVerifyDer
  rw [decode_eq_strict sig hl]
  unfold strict
  cases hd : decSig sig with
  | none => rfl
  | some p =>
    obtain ⟨r, s⟩ := p
    simp only
    by_cases hneg : r ≤ 0 ∨ s ≤ 0
    · rw [if_pos hneg]
      simp only
      by_cases hlt : r < 0 ∨ s < 0
      · rw [if_pos hlt]
      · rw [if_neg hlt]
        have hz : r.toNat < 1 ∨ s.toNat < 1 := by omega
        unfold Spec.SM2.verify
        rw [Props.C01.verify_range _ _ _ _ _ (by
          rcases hz with h | h
          · exact Or.inl h
          · exact Or.inr (Or.inl h))]
    · rw [if_neg hneg]
      simp only
      rw [if_neg (by omega)]

/-- the byte string SEQUENCE{ INTEGER r, INTEGER s, extra… } -/
def withExtra (r s : Nat) (extra : Bytes) : Bytes := tlv 0x30 (encInt r ++ encInt s ++ extra)

theorem withExtra_nil (r s : Nat) : withExtra r s [] = encSig r s := by
  unfold withExtra encSig encSeq
  simp

private theorem withExtra_bounds (r s : Nat) (extra : Bytes) (hl : (withExtra r s extra).length < 2 ^ 32) :
    (encInt r ++ encInt s ++ extra).length < 2 ^ 32 ∧ (intContent r).length < 2 ^ 32 ∧ (intContent s).length < 2 ^ 32 := by
  unfold withExtra tlv at hl
  simp only [List.length_cons, List.length_append] at hl
  refine ⟨by simp only [List.length_append]; omega, ?_, ?_⟩
  · unfold encInt tlv at hl; simp only [List.length_cons, List.length_append] at hl; omega
  · unfold encInt tlv at hl; simp only [List.length_cons, List.length_append] at hl; omega

/-- the strict decoder refuses further members -/
theorem decSig_withExtra (r s : Nat) (extra : Bytes) (hne : extra ≠ []) (hl : (withExtra r s extra).length < 2 ^ 32) :
    decSig (withExtra r s extra) = none := by
  obtain ⟨hb, hr, hs⟩ := withExtra_bounds r s extra hl
  unfold decSig
  have h1 := Props.C14Codec.decTLV_tlv_all 0x30 (encInt r ++ encInt s ++ extra) [] hb
  rw [List.append_nil] at h1
  unfold withExtra
  rw [h1]
  simp only
  unfold encInt
  rw [List.append_assoc, Props.C14Codec.decTLV_tlv_all 0x02 (intContent r) _ hr]
  simp only
  rw [Props.C14Codec.decTLV_tlv_all 0x02 (intContent s) _ hs]
  cases extra with
  | nil => exact absurd rfl hne
  | cons x xs => rfl

/-- `extra_member_rejected` (the repaired behaviour): a signature value with anything after the second INTEGER
    inside the SEQUENCE - NULL, INTEGER, OCTET STRING with chosen contents, stray bytes - is refused, whatever
    r and s are. -/
theorem extra_member_rejected (r s : Nat) (extra : Bytes) (hne : extra ≠ []) (hl : (withExtra r s extra).length < 2 ^ 32) :
    decode (withExtra r s extra) = none := by
  rw [decode_eq_strict _ hl]
  unfold strict
  rw [decSig_withExtra r s extra hne hl]

/-- hence no key, message or pair makes the X.509 verifier accept such a value -/
theorem extra_member_never_verifies (px py : Nat) (msg : Bytes) (r s : Nat) (extra : Bytes) (hne : extra ≠ [])
    (hl : (withExtra r s extra).length < 2 ^ 32) : verifySM2 px py msg (withExtra r s extra) = false := by
  unfold verifySM2
  rw [extra_member_rejected r s extra hne hl]

/-- `asn1.Unmarshal` into struct{R, S} does not look at what follows the second INTEGER -/
theorem unmarshalRS_withExtra (r s : Nat) (extra : Bytes) (hl : (withExtra r s extra).length < 2 ^ 32) :
    unmarshalRS (withExtra r s extra) = some ((r : Int), (s : Int), []) := by
  obtain ⟨hb, hr, hs⟩ := withExtra_bounds r s extra hl
  unfold unmarshalRS
  have h1 := Props.C14Codec.decTLV_tlv_all 0x30 (encInt r ++ encInt s ++ extra) [] hb
  rw [List.append_nil] at h1
  unfold withExtra
  rw [h1]
  simp only
  unfold encInt
  rw [List.append_assoc, Props.C14Codec.decTLV_tlv_all 0x02 (intContent r) _ hr]
  simp only
  rw [Props.C14Codec.decTLV_tlv_all 0x02 (intContent s) _ hs]
  simp only [Props.C01.decIntContent_intContent]

/-- `lenient_accepts_extra_member` (the defect, before the repair): the decoding step as found took
    SEQUENCE{r, s, extra…} for the pair (r, s) for EVERY `extra` - so each valid signature value had unboundedly
    many other accepted encodings. -/
theorem lenient_accepts_extra_member (r s : Nat) (hr : 0 < r) (hs : 0 < s) (extra : Bytes)
    (hl : (withExtra r s extra).length < 2 ^ 32) : decodeLenient (withExtra r s extra) = some (r, s) := by
  unfold decodeLenient
  rw [unmarshalRS_withExtra r s extra hl]
  simp only
  rw [if_neg (by omega)]
  simp

/-- before the repair the verdict did not depend on `extra` at all -/
theorem lenient_malleable (px py : Nat) (msg : Bytes) (r s : Nat) (hr : 0 < r) (hs : 0 < s) (extra : Bytes)
    (hl : (withExtra r s extra).length < 2 ^ 32) (hl0 : (encSig r s).length < 2 ^ 32) :
    verifySM2Lenient px py msg (withExtra r s extra) = verifySM2Lenient px py msg (encSig r s) := by
  unfold verifySM2Lenient
  rw [lenient_accepts_extra_member r s hr hs extra hl, ← withExtra_nil,
    lenient_accepts_extra_member r s hr hs [] (by rw [withExtra_nil]; exact hl0)]

/-- the genuine encoding is accepted by both -/
theorem decode_encSig (r s : Nat) (hr : 0 < r) (hs : 0 < s) (hl : (encSig r s).length < 2 ^ 32) :
    decode (encSig r s) = some (r, s) := by
  rw [decode_eq_strict _ hl]
  unfold strict
  rw [Props.C14Codec.der_roundtrip_all r s hl]
  simp only
  rw [if_neg (by omega)]
  simp

/-- non-vacuity: SEQUENCE{5, 7} is accepted; with a NULL, an INTEGER 1, an OCTET STRING or a stray byte after the
    7 it was accepted as (5, 7) before the repair and is refused after it; a non-minimal length and a
    non-minimal INTEGER were never accepted. -/
example :
    decode [0x30, 0x06, 0x02, 0x01, 0x05, 0x02, 0x01, 0x07] = some (5, 7) ∧
    decodeLenient [0x30, 0x08, 0x02, 0x01, 0x05, 0x02, 0x01, 0x07, 0x05, 0x00] = some (5, 7) ∧
    decode [0x30, 0x08, 0x02, 0x01, 0x05, 0x02, 0x01, 0x07, 0x05, 0x00] = none ∧
    decodeLenient [0x30, 0x09, 0x02, 0x01, 0x05, 0x02, 0x01, 0x07, 0x02, 0x01, 0x01] = some (5, 7) ∧
    decode [0x30, 0x09, 0x02, 0x01, 0x05, 0x02, 0x01, 0x07, 0x02, 0x01, 0x01] = none ∧
    decodeLenient [0x30, 0x0a, 0x02, 0x01, 0x05, 0x02, 0x01, 0x07, 0x04, 0x02, 0x70, 0x61] = some (5, 7) ∧
    decode [0x30, 0x0a, 0x02, 0x01, 0x05, 0x02, 0x01, 0x07, 0x04, 0x02, 0x70, 0x61] = none ∧
    decodeLenient [0x30, 0x07, 0x02, 0x01, 0x05, 0x02, 0x01, 0x07, 0xff] = some (5, 7) ∧
    decode [0x30, 0x07, 0x02, 0x01, 0x05, 0x02, 0x01, 0x07, 0xff] = none ∧
    decodeLenient [0x30, 0x81, 0x06, 0x02, 0x01, 0x05, 0x02, 0x01, 0x07] = none ∧
    decodeLenient [0x30, 0x07, 0x02, 0x02, 0x00, 0x05, 0x02, 0x01, 0x07] = none ∧
    decodeLenient [0x30, 0x06, 0x02, 0x01, 0x05, 0x02, 0x01, 0x07, 0x00] = none ∧
    withExtra 5 7 [0x05, 0x00] = [0x30, 0x08, 0x02, 0x01, 0x05, 0x02, 0x01, 0x07, 0x05, 0x00] := by decide +kernel

end Props.C09Sig
