/-
C12 (byte level) — the hand-written GCM helpers of sm4/sm4_gcm.go, transcribed on byte slices in
`Model.GCMBytes` exactly as the Go code computes them, equal the SP 800-38D functions of `Spec.GCM`
on the 128-bit values the slices denote (`Spec.GCM.ofBytes`: big-endian, leftmost bit = MSB):

* `findYi_eq`, `addition_eq`, `rightshift_eq` — the three primitives;
* `multiplication_eq_mulGF` — the 128-iteration loop of `multiplication` is Algorithm 1 (`mulGF`);
* `ghashGo_eq_ghash` — `GHASH` with its `m, v` bookkeeping (`calculm_v`), for every length of `A` and `C`
  (empty, partial last block, block-aligned), is `ghash`;
* `incr_eq_inc32`, `incr_block` — the counter increment of `incr` is `inc32`, block `i` is `inc32^i (Y0)`.

The byte-level model is compared with the real Go code on every run (ops `gfmulb`, `ghashb`), so the
theorems of `Props.C12` about `Spec.GCM` transfer to what the Go code computes.
Core Lean only (no Mathlib).
-/
import Gmsm.Model.GCMBytes
import Gmsm.Spec.GCM
import Gmsm.Proofs.BytesNat
import Gmsm.Proofs.Bits
import Gmsm.Proofs.GCM
namespace Props.C12Bytes
open Gmsm Spec.GCM Model.GCMBytes

-- bits of a byte string ----------------------------------------------------------------------------------

/-- bit `i` (from the least significant end) of the number a byte string denotes is bit `i % 8` of its byte `len-1-i/8` -/
theorem testBit_os2ip (v : Bytes) (i : Nat) :
    (os2ip v).testBit i = (decide (i / 8 < v.length) && (v.getD (v.length - 1 - i / 8) 0).getLsbD (i % 8)) := by
  induction v with
  | nil => simp [os2ip_nil]
  | cons b bs ih =>
    rw [os2ip_cons]
    have hp : (256 : Nat) ^ bs.length = 2 ^ (8 * bs.length) := by
      rw [Nat.pow_mul]
    rw [hp, Nat.mul_comm, Nat.testBit_two_pow_mul_add _ (by rw [← hp]; exact os2ip_lt bs)]
    by_cases h : i < 8 * bs.length
    · have h1 : i / 8 < bs.length := by omega
      have h2 : (bs.length + 1 - 1 - i / 8) = (bs.length - 1 - i / 8) + 1 := by omega
      simp only [h, if_true, ih, List.length_cons, h2, List.getD_cons_succ]
      simp [h1]; omega
    · simp only [h, if_false, List.length_cons]
      by_cases h3 : i / 8 = bs.length
      · have h4 : bs.length + 1 - 1 - i / 8 = 0 := by omega
        have h5 : i - 8 * bs.length = i % 8 := by omega
        rw [h4, h5]
        simp [h3, BitVec.getLsbD]
      · have h4 : ¬ (i / 8 < bs.length + 1) := by omega
        have h5 : 8 ≤ i - 8 * bs.length := by omega
        simp only [h4, decide_false, Bool.false_and]
        apply Nat.testBit_lt_two_pow
        calc b.toNat < 2 ^ 8 := b.isLt
          _ ≤ 2 ^ (i - 8 * bs.length) := Nat.pow_le_pow_right (by decide) h5

/-- bit `i` of the 128-bit value of a 16-byte slice -/
theorem getLsbD_ofBytes (v : Bytes) (hv : v.length = 16) (i : Nat) (hi : i < 128) :
    (ofBytes v).getLsbD i = (v.getD (15 - i / 8) 0).getLsbD (i % 8) := by
  unfold ofBytes
  rw [BitVec.getLsbD_ofNat, testBit_os2ip, hv]
  have : i / 8 < 16 := by omega
  simp [hi, this]

theorem addition_length (a b : Bytes) (h : a.length = b.length) : (addition a b).length = a.length := by
  unfold addition
  simp [h]

theorem addition_getD (a b : Bytes) (h : a.length = b.length) (k : Nat) (hk : k < a.length) :
    (addition a b).getD k 0 = a.getD k 0 ^^^ b.getD k 0 := by
  unfold addition
  have hk2 : k < b.length := h ▸ hk
  simp [h, List.getD_eq_getElem?_getD, List.getElem?_zipWith, List.getElem?_eq_getElem hk, List.getElem?_eq_getElem hk2]

/-- `addition_eq`: sm4_gcm.go's `addition(a, b)` (bytewise `a[i] ^ b[i]`) on two 16-byte slices is the xor of the
    128-bit values. -/
theorem addition_eq (a b : Bytes) (ha : a.length = 16) (hb : b.length = 16) :
    ofBytes (addition a b) = ofBytes a ^^^ ofBytes b := by
  apply BitVec.eq_of_getLsbD_eq
  intro i hi
  have hab : a.length = b.length := by omega
  rw [BitVec.getLsbD_xor, getLsbD_ofBytes _ (by rw [addition_length _ _ hab, ha]) _ hi,
    getLsbD_ofBytes _ ha _ hi, getLsbD_ofBytes _ hb _ hi, addition_getD _ _ hab _ (by omega),
    BitVec.getLsbD_xor]

theorem and_one_eq_one (b : Byte) : (b &&& 0x01 = 1) ↔ b.getLsbD 0 = true := by
  constructor
  · intro h
    have := congrArg (fun x => x.getLsbD 0) h
    simpa using this
  · intro h
    apply BitVec.eq_of_getLsbD_eq
    intro i hi
    bits8 i hi <;> simp [h]

theorem and_one_eq_zero (b : Byte) : (b &&& 0x01 = 0) ↔ b.getLsbD 0 = false := by
  constructor
  · intro h
    have := congrArg (fun x => x.getLsbD 0) h
    simpa using this
  · intro h
    apply BitVec.eq_of_getLsbD_eq
    intro i hi
    have h0 : b[0] = false := by simpa [BitVec.getLsbD_eq_getElem] using h
    bits8 i hi <;> simp [h0]

/-- `findYi_eq`: sm4_gcm.go's `findYi(Y, i)` (`Y[i/8] >> (7 - i%8) & 1`) is bit `i` of `Y` counted from the leftmost
    (most significant) bit — the bit `y_i` of SP 800-38D Algorithm 1 (equivalently `getLsbD (127 - i)`). -/
theorem findYi_eq (y : Bytes) (hy : y.length = 16) (i : Nat) (hi : i < 128) :
    findYi y i = if (ofBytes y).getMsbD i then 1 else 0 := by
  unfold findYi
  rw [BitVec.getMsbD_eq_getLsbD, getLsbD_ofBytes _ hy _ (by omega)]
  have h1 : 15 - (128 - 1 - i) / 8 = i / 8 := by omega
  have h2 : (128 - 1 - i) % 8 = 7 - i % 8 := by omega
  rw [h1, h2]
  simp only [and_one_eq_one, BitVec.getLsbD_ushiftRight, hi, decide_true, Bool.true_and, Nat.add_zero]

/-- `findYi_eq` in least-significant-bit numbering: bit `127 - i` -/
theorem findYi_eq_lsb (y : Bytes) (hy : y.length = 16) (i : Nat) (hi : i < 128) :
    findYi y i = if (ofBytes y).getLsbD (127 - i) then 1 else 0 := by
  rw [findYi_eq y hy i hi, BitVec.getMsbD_eq_getLsbD]
  simp [hi]

/-- the test `V[BlockSize-1]&0x01 == 0` of `multiplication` is the test `LSB_1(V) = 0` of Algorithm 1 -/
theorem lsb_eq (v : Bytes) (hv : v.length = 16) :
    (v.getD (blockSize - 1) 0 &&& 0x01 = 0) ↔ (ofBytes v).getLsbD 0 = false := by
  rw [and_one_eq_zero, getLsbD_ofBytes _ hv 0 (by decide)]
  rfl


theorem rightshift_length (v : Bytes) : (rightshift v).length = v.length := by
  unfold rightshift
  suffices h : ∀ n (w : Bytes), (rightshiftLoop n w).length = w.length from h _ _
  intro n
  induction n with
  | zero => intro w; rfl
  | succ n ih => intro w; simp only [rightshiftLoop]; rw [ih]; simp

theorem rightshift_explicit (b0 b1 b2 b3 b4 b5 b6 b7 b8 b9 b10 b11 b12 b13 b14 b15 : Byte) :
    rightshift [b0,b1,b2,b3,b4,b5,b6,b7,b8,b9,b10,b11,b12,b13,b14,b15] =
      [b0 >>> 1, ((b0 &&& 1) <<< 7) ||| (b1 >>> 1), ((b1 &&& 1) <<< 7) ||| (b2 >>> 1),
       ((b2 &&& 1) <<< 7) ||| (b3 >>> 1), ((b3 &&& 1) <<< 7) ||| (b4 >>> 1), ((b4 &&& 1) <<< 7) ||| (b5 >>> 1),
       ((b5 &&& 1) <<< 7) ||| (b6 >>> 1), ((b6 &&& 1) <<< 7) ||| (b7 >>> 1), ((b7 &&& 1) <<< 7) ||| (b8 >>> 1),
       ((b8 &&& 1) <<< 7) ||| (b9 >>> 1), ((b9 &&& 1) <<< 7) ||| (b10 >>> 1), ((b10 &&& 1) <<< 7) ||| (b11 >>> 1),
       ((b11 &&& 1) <<< 7) ||| (b12 >>> 1), ((b12 &&& 1) <<< 7) ||| (b13 >>> 1), ((b13 &&& 1) <<< 7) ||| (b14 >>> 1),
       ((b14 &&& 1) <<< 7) ||| (b15 >>> 1)] := by
  simp [rightshift, rightshiftLoop]

/-- byte `k` of the shifted slice -/
theorem rightshift_getD (v : Bytes) (hv : v.length = 16) (k : Nat) (hk : k < 16) :
    (rightshift v).getD k 0 =
      (if k = 0 then (0 : Byte) else (v.getD (k - 1) 0 &&& 1) <<< 7) ||| (v.getD k 0 >>> 1) := by
  match v, hv with
  | [b0,b1,b2,b3,b4,b5,b6,b7,b8,b9,b10,b11,b12,b13,b14,b15], _ =>
    rw [rightshift_explicit]
    have : k = 0 ∨ k = 1 ∨ k = 2 ∨ k = 3 ∨ k = 4 ∨ k = 5 ∨ k = 6 ∨ k = 7 ∨ k = 8 ∨ k = 9 ∨ k = 10 ∨
      k = 11 ∨ k = 12 ∨ k = 13 ∨ k = 14 ∨ k = 15 := by omega
    rcases this with rfl|rfl|rfl|rfl|rfl|rfl|rfl|rfl|rfl|rfl|rfl|rfl|rfl|rfl|rfl|rfl <;> simp

/-- `rightshift_eq`: sm4_gcm.go's in-place `Rightshift(V)` (from the last byte down: `V[i] >>= 1`, then or-in
    `(V[i-1] & 1) << 7`) on a 16-byte slice is the logical right shift by one bit of the 128-bit value. -/
theorem rightshift_eq (v : Bytes) (hv : v.length = 16) : ofBytes (rightshift v) = ofBytes v >>> 1 := by
  apply BitVec.eq_of_getLsbD_eq
  intro i hi
  rw [BitVec.getLsbD_ushiftRight, getLsbD_ofBytes _ (by rw [rightshift_length, hv]) _ hi,
    rightshift_getD _ hv _ (by omega)]
  by_cases h7 : i % 8 = 7
  · -- the bit comes from the previous byte (or is 0 at the very top)
    by_cases h0 : 15 - i / 8 = 0
    · have hge : (ofBytes v).getLsbD (1 + i) = false :=
        BitVec.getLsbD_of_ge (ofBytes v) (1 + i) (by omega)
      rw [hge]
      simp [h0, h7]
    · rw [getLsbD_ofBytes _ hv _ (by omega)]
      have e1 : 15 - (1 + i) / 8 = 15 - i / 8 - 1 := by omega
      have e2 : (1 + i) % 8 = 0 := by omega
      rw [e1, e2]
      simp [h0, h7]
  · rw [getLsbD_ofBytes _ hv _ (by omega)]
    have e1 : 15 - (1 + i) / 8 = 15 - i / 8 := by omega
    have e2 : (1 + i) % 8 = 1 + i % 8 := by omega
    have e3 : i % 8 < 7 := by omega
    rw [e1, e2]
    by_cases h0 : 15 - i / 8 = 0
    · simp [h0, BitVec.getLsbD_ushiftRight]
    · simp only [h0, if_false, BitVec.getLsbD_or, BitVec.getLsbD_shiftLeft, BitVec.getLsbD_ushiftRight]
      simp; omega


/-- `R[0] = 0xe1` is the constant `R = 11100001 ‖ 0^120` -/
theorem rBytes_eq : ofBytes rBytes = R := by decide

theorem rBytes_length : rBytes.length = 16 := by decide

/-- one loop iteration of `multiplication` on 16-byte slices is one `mulStep` on the 128-bit values -/
theorem mulIter_eq (y z v : Bytes) (hy : y.length = 16) (hz : z.length = 16) (hv : v.length = 16)
    (i : Nat) (hi : i < 128) :
    (ofBytes (mulIter y (z, v) i).1, ofBytes (mulIter y (z, v) i).2) =
        mulStep (ofBytes y) (ofBytes z, ofBytes v) i ∧
      (mulIter y (z, v) i).1.length = 16 ∧ (mulIter y (z, v) i).2.length = 16 := by
  have hrs : (rightshift v).length = 16 := by rw [rightshift_length, hv]
  unfold mulIter mulStep
  simp only [findYi_eq y hy i hi]
  refine ⟨?_, ?_, ?_⟩
  · congr 1
    · cases (ofBytes y).getMsbD i <;> simp [addition_eq _ _ hz hv]
    · by_cases hl : (ofBytes v).getLsbD 0 = false
      · rw [if_pos ((lsb_eq v hv).mpr hl), hl]
        simp only [Bool.false_eq_true, if_false]
        exact rightshift_eq v hv
      · have hl1 : (ofBytes v).getLsbD 0 = true := by simpa using hl
        have hne : ¬ (v.getD (blockSize - 1) 0 &&& 0x01 = 0) := fun h => hl ((lsb_eq v hv).mp h)
        rw [if_neg hne, hl1]
        simp only [if_true]
        rw [addition_eq _ _ hrs rBytes_length, rightshift_eq v hv, rBytes_eq]
  · cases (ofBytes y).getMsbD i <;> simp [hz, addition_length _ _ (hz.trans hv.symm)]
  · split
    · exact hrs
    · rw [addition_length _ _ (hrs.trans rBytes_length.symm), hrs]

theorem foldl_mulIter_eq (y : Bytes) (hy : y.length = 16) (l : List Nat) (hl : ∀ i ∈ l, i < 128)
    (z v : Bytes) (hz : z.length = 16) (hv : v.length = 16) :
    (ofBytes (l.foldl (mulIter y) (z, v)).1, ofBytes (l.foldl (mulIter y) (z, v)).2) =
        l.foldl (mulStep (ofBytes y)) (ofBytes z, ofBytes v) := by
  induction l generalizing z v with
  | nil => rfl
  | cons i l ih =>
    simp only [List.foldl_cons]
    obtain ⟨h1, h2, h3⟩ := mulIter_eq y z v hy hz hv i (hl i (by simp))
    rw [← h1]
    exact ih (fun j hj => hl j (by simp [hj])) _ _ h2 h3

theorem copyN_self (x : Bytes) (n : Nat) (hx : x.length = n) : copyN n x = x := by
  unfold copyN
  simp [← hx]

theorem ofBytes_zero16 : ofBytes (List.replicate 16 0) = 0 := by decide

/-- `multiplication_eq_mulGF`: for all 16-byte `X`, `Y`, sm4_gcm.go's `multiplication(X, Y)` — the loop
    `for i := 0; i <= 127; i++` over the byte slices `Z`, `V` with `findYi`, `addition`, `Rightshift` and the
    reduction by `R = e1 00…00` after the shift when the dropped bit was 1 — computes the product `X • Y` of
    SP 800-38D Algorithm 1 (`Spec.GCM.mulGF`).  Loop invariant: `mulIter_eq` (one iteration = one `mulStep`). -/
theorem multiplication_eq_mulGF (x y : Bytes) (hx : x.length = 16) (hy : y.length = 16) :
    ofBytes (multiplication x y) = mulGF (ofBytes x) (ofBytes y) := by
  unfold multiplication mulGF
  have h := foldl_mulIter_eq y hy (List.range 128) (fun i hi => by simpa using hi)
    (List.replicate blockSize 0) (copyN blockSize x) (by simp [blockSize])
    (by rw [copyN_self x blockSize hx]; exact hx)
  rw [copyN_self x blockSize hx] at h ⊢
  have h0 : ofBytes (List.replicate blockSize 0) = 0 := ofBytes_zero16
  rw [h0] at h
  exact congrArg Prod.fst h

theorem multiplication_length (x y : Bytes) (hx : x.length = 16) (hy : y.length = 16) :
    (multiplication x y).length = 16 := by
  unfold multiplication
  suffices h : ∀ (l : List Nat), (∀ i ∈ l, i < 128) → ∀ (z v : Bytes), z.length = 16 → v.length = 16 →
      (l.foldl (mulIter y) (z, v)).1.length = 16 ∧ (l.foldl (mulIter y) (z, v)).2.length = 16 from
    (h (List.range 128) (fun i hi => by simpa using hi) _ _ (by simp [blockSize])
      (by rw [copyN_self x blockSize hx]; exact hx)).1
  intro l
  induction l with
  | nil => intro _ z v hz hv; exact ⟨hz, hv⟩
  | cons i l ih =>
    intro hl z v hz hv
    simp only [List.foldl_cons]
    obtain ⟨_, h2, h3⟩ := mulIter_eq y z v hy hz hv i (hl i (by simp))
    exact ih (fun j hj => hl j (by simp [hj])) _ _ h2 h3


-- GHASH ---------------------------------------------------------------------------------------------------

/-- the GHASH chain of the specification continued from an accumulator `X` -/
def chain (h : B128) (bs : List B128) (X : B128) : B128 := bs.foldl (fun acc b => mulGF (acc ^^^ b) h) X

theorem blocksZ_nil (n : Nat) : blocksZ n [] = [] := by cases n <;> simp [blocksZ]

theorem padBlocks_nil : padBlocks [] = [] := by simp [padBlocks, blocksZ]

theorem padBlocks_short (d : Bytes) (h0 : 0 < d.length) (h16 : d.length ≤ 16) :
    padBlocks d = [ofBytes (d ++ List.replicate (16 - d.length) 0)] := by
  have hne : d.isEmpty = false := by cases d <;> simp_all
  unfold padBlocks
  simp only [blocksZ, hne, Bool.false_eq_true, if_false]
  rw [List.take_of_length_le h16, List.drop_of_length_le h16, blocksZ_nil]

theorem padBlocks_long (d : Bytes) (h16 : 16 < d.length) :
    padBlocks d = ofBytes (d.take 16) :: padBlocks (d.drop 16) := by
  have hne : d.isEmpty = false := by cases d <;> simp_all
  have e1 : (d.take 16).length = 16 := by rw [List.length_take]; omega
  have e2 : d.length / 16 = (d.drop 16).length / 16 + 1 := by rw [List.length_drop]; omega
  unfold padBlocks
  rw [e2, blocksZ]
  simp only [hne, Bool.false_eq_true, if_false, e1, Nat.sub_self, List.replicate_zero, List.append_nil]

/-- what `calculm_v` computes for a non-empty string: the number of blocks and the bit length of the last one -/
theorem calculm_v_spec (len : Nat) (hl : 0 < len) :
    (calculm_v (len / blockSize) (len % blockSize)).1 = (len - 1) / 16 + 1 ∧
    (calculm_v (len / blockSize) (len % blockSize)).2 = 8 * (len - (len - 1) / 16 * 16) := by
  unfold calculm_v blockSize
  split
  · constructor <;> simp only <;> omega
  · split
    · constructor <;> simp only <;> omega
    · split
      · constructor <;> simp only <;> omega
      · omega

theorem calculm_v_zero : calculm_v (0 / blockSize) (0 % blockSize) = (1, 0) := by decide

/-- the body of the full-block loops of `GHASH` -/
def goStep (h d : Bytes) (off : Nat) (x : Bytes) (i : Nat) : Bytes :=
  multiplication (addition x (slice d ((i - off - 1) * blockSize) ((i - off - 1) * blockSize + blockSize))) h

theorem blocksLoop_eq (h d : Bytes) (off cnt : Nat) (x : Bytes) :
    blocksLoop h d off cnt x = (List.range' (off + 1) cnt).foldl (goStep h d off) x := rfl

theorem slice_length (d : Bytes) (j : Nat) (hj : (j + 1) * 16 ≤ d.length) :
    (slice d (j * blockSize) (j * blockSize + blockSize)).length = 16 := by
  unfold slice blockSize
  rw [List.length_take, List.length_drop]; omega

theorem slice_eq (d : Bytes) (j : Nat) :
    slice d (j * blockSize) (j * blockSize + blockSize) = (d.drop (j * 16)).take 16 := by
  unfold slice blockSize
  congr 1; omega

/-- the full-block loop consumes `k` blocks of the specification's block list -/
theorem loop_chain (h d : Bytes) (hh : h.length = 16) (off k : Nat) :
    ∀ (i0 : Nat) (x : Bytes), x.length = 16 → (i0 + k) * 16 < d.length →
      chain (ofBytes h) (padBlocks (d.drop (i0 * 16))) (ofBytes x) =
        chain (ofBytes h) (padBlocks (d.drop ((i0 + k) * 16)))
          (ofBytes ((List.range' (off + i0 + 1) k).foldl (goStep h d off) x)) ∧
      ((List.range' (off + i0 + 1) k).foldl (goStep h d off) x).length = 16 := by
  induction k with
  | zero => intro i0 x hx _; exact ⟨rfl, hx⟩
  | succ k ih =>
    intro i0 x hx hlen
    rw [List.range'_succ, List.foldl_cons]
    have hs : (slice d (i0 * blockSize) (i0 * blockSize + blockSize)).length = 16 :=
      slice_length d i0 (by omega)
    have hidx : off + i0 + 1 - off - 1 = i0 := by omega
    have hx1 : (goStep h d off x (off + i0 + 1)).length = 16 := by
      unfold goStep
      rw [hidx]
      exact multiplication_length _ _ (by rw [addition_length _ _ (hx.trans hs.symm), hx]) hh
    have := ih (i0 + 1) (goStep h d off x (off + i0 + 1)) hx1 (by omega)
    have e1 : off + (i0 + 1) + 1 = off + i0 + 1 + 1 := by omega
    have e2 : i0 + 1 + k = i0 + (k + 1) := by omega
    rw [e1, e2] at this
    refine ⟨?_, this.2⟩
    rw [← this.1]
    -- one step of the specification chain
    have hlong : 16 < (d.drop (i0 * 16)).length := by rw [List.length_drop]; omega
    rw [padBlocks_long _ hlong]
    have e3 : (d.drop (i0 * 16)).drop 16 = d.drop ((i0 + 1) * 16) := by
      rw [List.drop_drop]; congr 1; omega
    rw [e3]
    unfold chain
    rw [List.foldl_cons]
    congr 1
    unfold goStep
    rw [hidx, multiplication_eq_mulGF _ _ (by rw [addition_length _ _ (hx.trans hs.symm), hx]) hh,
      addition_eq _ _ hx hs, slice_eq]

/-- the part of `GHASH` that absorbs one string (`A`, then `C`): full-block loop, then the padded last block -/
def goPart (h d : Bytes) (off : Nat) (x : Bytes) : Bytes :=
  let mv := calculm_v (d.length / blockSize) (d.length % blockSize)
  let x := blocksLoop h d off (mv.1 - 1) x
  if d.length = 0 then x else multiplication (addition x (lastBlock d mv.1 mv.2)) h

/-- absorbing one string: the Go full-block loop plus padded last block is the specification's chain over
    `padBlocks d` (nothing for the empty string) -/
theorem goPart_eq (h d : Bytes) (hh : h.length = 16) (off : Nat) (x : Bytes) (hx : x.length = 16) :
    ofBytes (goPart h d off x) = chain (ofBytes h) (padBlocks d) (ofBytes x) ∧ (goPart h d off x).length = 16 := by
  unfold goPart
  by_cases h0 : d.length = 0
  · have : d = [] := List.eq_nil_of_length_eq_zero h0
    subst this
    simp only [List.length_nil, calculm_v_zero, if_true, blocksLoop_eq, Nat.sub_self, List.range'_zero,
      List.foldl_nil, padBlocks_nil]
    exact ⟨rfl, hx⟩
  · simp only [h0, if_false]
    obtain ⟨hm, hv⟩ := calculm_v_spec d.length (by omega)
    rw [hm, hv, blocksLoop_eq]
    have hl := loop_chain h d hh off ((d.length - 1) / 16) 0 x hx (by omega)
    simp only [Nat.zero_mul, List.drop_zero, Nat.zero_add, Nat.add_zero] at hl
    have e0 : (d.length - 1) / 16 + 1 - 1 = (d.length - 1) / 16 := by omega
    rw [e0]
    obtain ⟨hl1, hl2⟩ := hl
    rw [hl1]
    generalize hk : (d.length - 1) / 16 = k at *
    generalize (List.range' (off + 1) k).foldl (goStep h d off) x = x1 at *
    have hdl : (d.drop (k * 16)).length = d.length - k * 16 := List.length_drop
    have hlast : lastBlock d (k + 1) (8 * (d.length - k * 16)) =
        d.drop (k * 16) ++ List.replicate (16 - (d.drop (k * 16)).length) 0 := by
      unfold lastBlock copyN blockSize
      have a1 : 8 * (d.length - k * 16) / 8 = d.length - k * 16 := by omega
      have a2 : (128 - 8 * (d.length - k * 16)) / 8 = 16 - (d.length - k * 16) := by omega
      rw [a1, a2, Nat.add_sub_cancel, hdl, List.take_of_length_le (by omega), Nat.sub_self]
      simp
    have hlb : (lastBlock d (k + 1) (8 * (d.length - k * 16))).length = 16 := by
      rw [hlast, List.length_append, List.length_replicate, hdl]; omega
    rw [padBlocks_short _ (by omega) (by omega)]
    have hadd : (addition x1 (lastBlock d (k + 1) (8 * (d.length - k * 16)))).length = 16 := by
      rw [addition_length _ _ (hl2.trans hlb.symm), hl2]
    refine ⟨?_, multiplication_length _ _ hadd hh⟩
    rw [multiplication_eq_mulGF _ _ hadd hh, addition_eq _ _ hl2 hlb, hlast]
    rfl


theorem calculateLenToBytes_length (n : Nat) : (calculateLenToBytes n).length = 8 := rfl

theorem ofNat8_and_ff (x : Nat) : BitVec.ofNat 8 (x &&& 0xff) = BitVec.ofNat 8 x := by
  apply BitVec.eq_of_toNat_eq
  rw [BitVec.toNat_ofNat, BitVec.toNat_ofNat, show (0xff : Nat) = 2 ^ 8 - 1 from rfl,
    Nat.and_two_pow_sub_one_eq_mod, Nat.mod_mod]

/-- `calculateLenToBytes` is the 8-byte big-endian encoding -/
theorem calculateLenToBytes_eq (n : Nat) : calculateLenToBytes n = i2ospR 8 n := by
  unfold calculateLenToBytes
  simp only [ofNat8_and_ff, i2ospR, List.nil_append, List.cons_append, Nat.shiftRight_eq_div_pow,
    Nat.div_div_eq_div_mul]
  simp only [Nat.reducePow, Nat.reduceMul, Nat.div_one]

theorem os2ip_calculateLenToBytes (n : Nat) : os2ip (calculateLenToBytes n) = n % 2 ^ 64 := by
  rw [calculateLenToBytes_eq, os2ip_i2ospR]

/-- `lenAB` (two `calculateLenToBytes` of the bit lengths) is `[len(A)]_64 ‖ [len(C)]_64` -/
theorem lenAB_eq (la lc : Nat) :
    ofBytes (calculateLenToBytes (la * 8) ++ calculateLenToBytes (lc * 8)) = lenBlock la lc := by
  apply BitVec.eq_of_toNat_eq
  unfold ofBytes lenBlock
  rw [os2ip_append, calculateLenToBytes_length, os2ip_calculateLenToBytes, os2ip_calculateLenToBytes,
    BitVec.toNat_append, BitVec.toNat_ofNat, BitVec.toNat_ofNat, BitVec.toNat_ofNat,
    ← Nat.shiftLeft_add_eq_or_of_lt (Nat.mod_lt _ (by decide)), Nat.shiftLeft_eq]
  omega

/-- `GHASH` absorbs `A`, then `C`, then the length block -/
theorem ghashGo_parts (h a c : Bytes) :
    ghashGo h a c =
      multiplication (addition
        (goPart h c (calculm_v (a.length / blockSize) (a.length % blockSize)).1
          (goPart h a 0 (List.replicate blockSize 0)))
        (calculateLenToBytes (a.length * 8) ++ calculateLenToBytes (c.length * 8))) h := rfl

/-- `ghashGo_eq_ghash`: for every 16-byte hash key `H` and all byte strings `A`, `C` (any lengths: empty,
    ending in a partial block, block-aligned), sm4_gcm.go's `GHASH(H, A, C)` — with its `m, v` / `n, u`
    bookkeeping (`calculm_v`), the two full-block loops, the zero-padded last blocks `Am`, `Cn` (skipped
    for an empty string, as repaired) and the final length block — is
    `GHASH_H(A ‖ 0^v ‖ C ‖ 0^u ‖ [len(A)]_64 ‖ [len(C)]_64)` of SP 800-38D (`Spec.GCM.ghash`). -/
theorem ghashGo_eq_ghash (h a c : Bytes) (hh : h.length = 16) :
    ofBytes (ghashGo h a c) = ghash (ofBytes h) a c := by
  rw [ghashGo_parts]
  obtain ⟨ha1, ha2⟩ := goPart_eq h a hh 0 (List.replicate blockSize 0) (by simp [blockSize])
  obtain ⟨hc1, hc2⟩ := goPart_eq h c hh (calculm_v (a.length / blockSize) (a.length % blockSize)).1 _ ha2
  have hlen : (calculateLenToBytes (a.length * 8) ++ calculateLenToBytes (c.length * 8)).length = 16 := rfl
  rw [multiplication_eq_mulGF _ _ (by rw [addition_length _ _ (hc2.trans hlen.symm), hc2]) hh,
    addition_eq _ _ hc2 hlen, hc1, ha1, lenAB_eq]
  unfold ghash ghashBlocks chain
  rw [List.foldl_append, List.foldl_append]
  have h0 : ofBytes (List.replicate blockSize 0) = 0 := ofBytes_zero16
  rw [h0]
  rfl

theorem ghashGo_length (h a c : Bytes) (hh : h.length = 16) : (ghashGo h a c).length = 16 := by
  rw [ghashGo_parts]
  obtain ⟨_, ha2⟩ := goPart_eq h a hh 0 (List.replicate blockSize 0) (by simp [blockSize])
  obtain ⟨_, hc2⟩ := goPart_eq h c hh (calculm_v (a.length / blockSize) (a.length % blockSize)).1 _ ha2
  have hlen : (calculateLenToBytes (a.length * 8) ++ calculateLenToBytes (c.length * 8)).length = 16 := rfl
  exact multiplication_length _ _ (by rw [addition_length _ _ (hc2.trans hlen.symm), hc2]) hh

-- incr ----------------------------------------------------------------------------------------------------

/-- a 16-byte block as its leftmost 96 and rightmost 32 bits -/
theorem ofBytes_split (p w : Bytes) (hw : w.length = 4) :
    ofBytes (p ++ w) = (BitVec.ofNat 96 (os2ip p) ++ BitVec.ofNat 32 (os2ip w) : BitVec (96 + 32)) := by
  apply BitVec.eq_of_toNat_eq
  unfold ofBytes
  have hlt : os2ip w < 2 ^ 32 := by have := os2ip_lt w; rw [hw] at this; exact this
  rw [os2ip_append, hw, BitVec.toNat_append, BitVec.toNat_ofNat, BitVec.toNat_ofNat, BitVec.toNat_ofNat,
    Nat.mod_eq_of_lt hlt, ← Nat.shiftLeft_add_eq_or_of_lt hlt, Nat.shiftLeft_eq]
  omega

theorem inc32_append (a : BitVec 96) (b : BitVec 32) :
    inc32 (a ++ b : BitVec (96 + 32)) = (a ++ (b + 1) : BitVec (96 + 32)) := by
  unfold inc32
  have e1 : BitVec.extractLsb' 32 96 (a ++ b : BitVec (96 + 32)) = a := by
    apply BitVec.eq_of_getLsbD_eq
    intro i hi
    simp only [BitVec.getLsbD_extractLsb', BitVec.getLsbD_append]
    simp [hi]
  have e2 : BitVec.extractLsb' 0 32 (a ++ b : BitVec (96 + 32)) = b := by
    apply BitVec.eq_of_getLsbD_eq
    intro i hi
    simp only [BitVec.getLsbD_extractLsb', BitVec.getLsbD_append]
    simp [hi]
  rw [e1, e2]

theorem addYone_explicit (b0 b1 b2 b3 b4 b5 b6 b7 b8 b9 b10 b11 a b c d : Byte) :
    addYone [b0,b1,b2,b3,b4,b5,b6,b7,b8,b9,b10,b11,a,b,c,d] =
      [b0,b1,b2,b3,b4,b5,b6,b7,b8,b9,b10,b11] ++
        (if d + 1 ≠ 0 then [a, b, c, d + 1] else if c + 1 ≠ 0 then [a, b, c + 1, d + 1]
         else if b + 1 ≠ 0 then [a, b + 1, c + 1, d + 1] else [a + 1, b + 1, c + 1, d + 1]) := by
  simp [addYone, addYoneLoop]
  by_cases hd : d + 1#8 = 0#8 <;> by_cases hc : c + 1#8 = 0#8 <;> by_cases hb : b + 1#8 = 0#8 <;>
    simp [hd, hc, hb]

theorem byte_succ_toNat (x : Byte) : (x + 1).toNat = (x.toNat + 1) % 256 := by
  simp [BitVec.toNat_add]

theorem byte_succ_ne_zero (x : Byte) : x + 1 ≠ 0 ↔ x.toNat ≠ 255 := by
  constructor
  · intro h h2; apply h; apply BitVec.eq_of_toNat_eq; rw [byte_succ_toNat, h2]; rfl
  · intro h h2; have := congrArg BitVec.toNat h2; rw [byte_succ_toNat] at this
    have : x.toNat < 256 := x.isLt
    simp at *; omega

theorem low_word_inc (a b c d : Byte) :
    BitVec.ofNat 32 (os2ip (if d + 1 ≠ 0 then [a, b, c, d + 1] else if c + 1 ≠ 0 then [a, b, c + 1, d + 1]
         else if b + 1 ≠ 0 then [a, b + 1, c + 1, d + 1] else [a + 1, b + 1, c + 1, d + 1])) =
      BitVec.ofNat 32 (os2ip [a, b, c, d]) + 1 := by
  apply BitVec.eq_of_toNat_eq
  rw [BitVec.toNat_add, BitVec.toNat_ofNat, BitVec.toNat_ofNat]
  have hone : (1 : BitVec 32).toNat = 1 := rfl
  have ha := a.isLt; have hb := b.isLt; have hc := c.isLt; have hd := d.isLt
  simp only [byte_succ_ne_zero]
  by_cases h1 : d.toNat = 255 <;> by_cases h2 : c.toNat = 255 <;> by_cases h3 : b.toNat = 255 <;>
    simp only [h1, h2, h3, ne_eq, not_true_eq_false, not_false_eq_true, if_true, if_false,
      os2ip, List.foldl_cons, List.foldl_nil, byte_succ_toNat, hone] <;> omega

theorem addYone_length (y : Bytes) : (addYone y).length = y.length := by
  unfold addYone
  suffices h : ∀ n i (w : Bytes), (addYoneLoop n i w).length = w.length from h _ _ _
  intro n
  induction n with
  | zero => intro i w; rfl
  | succ n ih =>
    intro i w
    simp only [addYoneLoop]
    split
    · simp
    · rw [ih]; simp

/-- `incr_eq_inc32`: the counter increment of sm4_gcm.go's `incr` (closure `addYone`: starting at the last byte,
    `yii[i]++` and stop at the first byte that does not wrap to 0, visiting at most the last 4 bytes — as
    repaired) on a 16-byte block is `inc_32` of SP 800-38D: the leftmost 96 bits are unchanged, the
    rightmost 32 bits are incremented modulo 2^32. -/
theorem incr_eq_inc32 (y : Bytes) (hy : y.length = 16) : ofBytes (addYone y) = inc32 (ofBytes y) := by
  match y, hy with
  | [b0,b1,b2,b3,b4,b5,b6,b7,b8,b9,b10,b11,a,b,c,d], _ =>
    have e : [b0,b1,b2,b3,b4,b5,b6,b7,b8,b9,b10,b11,a,b,c,d] = [b0,b1,b2,b3,b4,b5,b6,b7,b8,b9,b10,b11] ++ [a,b,c,d] := rfl
    rw [addYone_explicit, e, ofBytes_split _ [a,b,c,d] rfl, inc32_append, ← low_word_inc]
    apply ofBytes_split
    (repeat' split) <;> rfl

theorem slice_block_zero (a rest : Bytes) (ha : a.length = 16) :
    slice (a ++ rest) (0 * blockSize) (0 * blockSize + blockSize) = a := by
  unfold slice blockSize
  simp [← ha]

theorem slice_block_succ (a rest : Bytes) (ha : a.length = 16) (j : Nat) :
    slice (a ++ rest) ((j + 1) * blockSize) ((j + 1) * blockSize + blockSize) =
      slice rest (j * blockSize) (j * blockSize + blockSize) := by
  unfold slice blockSize
  have e1 : (j + 1) * 16 = a.length + j * 16 := by omega
  have e2 : a.length + j * 16 + 16 - (a.length + j * 16) = j * 16 + 16 - j * 16 := by omega
  rw [e1, e2, ← List.drop_drop, List.drop_left]

theorem incrBlocks_block (k : Nat) : ∀ (cur : Bytes), cur.length = 16 → ∀ j, j < k →
    ofBytes (slice (incrBlocks k cur).flatten (j * blockSize) (j * blockSize + blockSize)) =
      Proofs.GCM.iterInc (j + 1) (ofBytes cur) := by
  induction k with
  | zero => intro _ _ j hj; omega
  | succ k ih =>
    intro cur hcur j hj
    have hlen : (addYone cur).length = 16 := by rw [addYone_length, hcur]
    simp only [incrBlocks, List.flatten_cons]
    cases j with
    | zero =>
      rw [slice_block_zero _ _ hlen, incr_eq_inc32 _ hcur]
      rfl
    | succ j =>
      rw [slice_block_succ _ _ hlen, ih _ hlen j (by omega), incr_eq_inc32 _ hcur]
      rfl

/-- block `i` of `incr(n, Y0)` is `inc32` applied `i` times to `Y0` -/
theorem incr_block (n : Nat) (y : Bytes) (hy : y.length = 16) (i : Nat) (hi : i < n) :
    ofBytes (slice (incr n y) (i * blockSize) (i * blockSize + blockSize)) =
      Proofs.GCM.iterInc i (ofBytes y) := by
  unfold incr
  have hn : ¬ n = 0 := by omega
  simp only [hn, if_false]
  have hc : copyN blockSize y = y := by unfold copyN blockSize; simp [← hy]
  rw [hc]
  cases i with
  | zero => rw [slice_block_zero _ _ hy]; rfl
  | succ j => rw [slice_block_succ _ _ hy, incrBlocks_block _ _ hy j (by omega)]

theorem incr_length (n : Nat) (y : Bytes) (hy : y.length = 16) : (incr n y).length = 16 * n := by
  unfold incr
  by_cases hn : n = 0
  · simp [hn]
  · simp only [hn, if_false]
    have hc : copyN blockSize y = y := by unfold copyN blockSize; simp [← hy]
    rw [hc, List.length_append, hy]
    suffices h : ∀ k (cur : Bytes), cur.length = 16 → (incrBlocks k cur).flatten.length = 16 * k by
      rw [h _ _ hy]; omega
    intro k
    induction k with
    | zero => intro _ _; rfl
    | succ k ih =>
      intro cur hcur
      have hlen : (addYone cur).length = 16 := by rw [addYone_length, hcur]
      simp only [incrBlocks, List.flatten_cons, List.length_append, hlen, ih _ hlen]
      omega

-- byte-level corollaries --------------------------------------------------------------------------------

/-- a 16-byte slice is the 16-byte big-endian encoding of its 128-bit value -/
theorem toBytes_ofBytes (v : Bytes) (hv : v.length = 16) : toBytes (ofBytes v) = v := by
  have hlt : os2ip v < 2 ^ 128 := by have := os2ip_lt v; rw [hv] at this; exact this
  unfold toBytes ofBytes i2osp
  rw [BitVec.toNat_ofNat, Nat.mod_eq_of_lt hlt]
  apply List.ext_getElem
  · simp [hv]
  · intro i h1 h2
    have hi : i < 16 := by simpa using h1
    rw [List.getElem_map, List.getElem_range]
    apply BitVec.eq_of_getLsbD_eq
    intro t ht
    have hp : (256 : Nat) ^ (16 - 1 - i) = 2 ^ (8 * (16 - 1 - i)) := by rw [Nat.pow_mul]
    rw [BitVec.getLsbD_ofNat, hp, ← Nat.shiftRight_eq_div_pow, Nat.testBit_shiftRight, testBit_os2ip, hv]
    have e1 : (8 * (16 - 1 - i) + t) / 8 = 15 - i := by omega
    have e2 : (8 * (16 - 1 - i) + t) % 8 = t := by omega
    have e3 : 16 - 1 - (15 - i) = i := by omega
    rw [e1, e2, e3, List.getD_eq_getElem?_getD, List.getElem?_eq_getElem h2]
    have : 15 - i < 16 := by omega
    simp [ht, this]

/-- `multiplication` as bytes: what the driver op `gfmulb` prints is what `gfmul` prints -/
theorem multiplication_bytes (x y : Bytes) (hx : x.length = 16) (hy : y.length = 16) :
    multiplication x y = toBytes (mulGF (ofBytes x) (ofBytes y)) := by
  rw [← multiplication_eq_mulGF x y hx hy, toBytes_ofBytes _ (multiplication_length x y hx hy)]

/-- `GHASH` as bytes: what the driver op `ghashb` prints is what `ghash` prints -/
theorem ghashGo_bytes (h a c : Bytes) (hh : h.length = 16) :
    ghashGo h a c = toBytes (ghash (ofBytes h) a c) := by
  rw [← ghashGo_eq_ghash h a c hh, toBytes_ofBytes _ (ghashGo_length h a c hh)]

/-- Non-vacuity / validation (tests, kernel-evaluated): values the real Go code printed. -/
example : toHex (multiplication
    [0x48,0xf0,0xd2,0xe1,0xe0,0x6f,0xcf,0x34,0x99,0xa5,0x2c,0xa7,0x0f,0x5f,0xac,0xb8]
    [0xae,0x28,0xaa,0x7c,0x73,0xb0,0xa2,0xc9,0x85,0x6d,0x6c,0x33,0x5a,0x47,0x58,0xd2]) =
    "3d537623b3183b2a6b71419434a073ff" := by decide +kernel

example : toHex (ghashGo
    [0x00,0x00,0x00,0x01,0x00,0x00,0x00,0x00,0x00,0x00,0x00,0x00,0x00,0x00,0x00,0x00]
    [0x1b,0x89,0x6b,0x62,0x51,0x00,0xc0,0x9f,0x2a,0x36,0xce,0x6c,0xf1,0x1f,0x75,0xa1,0xeb,0xc9]
    [0x90,0x35,0x40,0x57,0x77,0x5d,0x84]) = "f3c96d8676291766ff9275ac406cdf29" := by decide +kernel

example : addYone [1,2,3,4,5,6,7,8,9,10,11,12,0xff,0xff,0xff,0xff] = [1,2,3,4,5,6,7,8,9,10,11,12,0,0,0,0] := by
  decide

end Props.C12Bytes
