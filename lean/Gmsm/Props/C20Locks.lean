/-
C20, lock discipline of one connection — "one connection with concurrent readers, writers and Close all behave as
some sequential order of the same calls would … and no data race occurs".

The facts (`Gen.ConnLocks`) are regenerated from /repo's working tree by /verif/extract/locks.go on every run.
This file proves, for ALL call paths from an exported method (any depth, recursion allowed):
  * `must_sound` / `may_sound`: the computed lock sets bound what is really held on entry to a function;
  * `half_protected`, `half_call_protected`: whenever the state of the read half or of the write half is touched,
    directly or through a `halfConn` method, the goroutine holds that half's mutex or the handshake mutex;
  * `no_reacquire`: no goroutine ever locks a mutex it already holds;
  * `order_edges_expected`: the lock-order edges are exactly the four known ones.
The concrete checks are discharged by kernel evaluation on the current facts.
-/
import Gmsm.Model.ConnLocks
namespace Props.C20Locks
open Model.ConnLocks Gen.ConnLocks

-- lock-set algebra -------------------------------------------------------------------------------------------

theorem subset_refl (a : LS) : a.subset a = true := by
  rcases a with ⟨x, y, z⟩; cases x <;> cases y <;> cases z <;> rfl

theorem subset_trans {a b c : LS} (h1 : a.subset b = true) (h2 : b.subset c = true) : a.subset c = true := by
  have key : ∀ a1 a2 a3 b1 b2 b3 c1 c2 c3 : Bool,
      (LS.mk a1 a2 a3).subset ⟨b1, b2, b3⟩ = true → (LS.mk b1 b2 b3).subset ⟨c1, c2, c3⟩ = true →
      (LS.mk a1 a2 a3).subset ⟨c1, c2, c3⟩ = true := by decide
  exact key _ _ _ _ _ _ _ _ _ h1 h2

theorem union_mono {a b : LS} (c : LS) (h : a.subset b = true) : (a.union c).subset (b.union c) = true := by
  have key : ∀ a1 a2 a3 b1 b2 b3 c1 c2 c3 : Bool,
      (LS.mk a1 a2 a3).subset ⟨b1, b2, b3⟩ = true →
      ((LS.mk a1 a2 a3).union ⟨c1, c2, c3⟩).subset ((LS.mk b1 b2 b3).union ⟨c1, c2, c3⟩) = true := by decide
  exact key _ _ _ _ _ _ _ _ _ h

theorem empty_subset (a : LS) : LS.empty.subset a = true := by
  rcases a with ⟨x, y, z⟩; simp [LS.subset, LS.empty]

theorem has_mono {a b : LS} (h : a.subset b = true) (bit : Nat) (hb : a.has bit = true) : b.has bit = true := by
  rcases a with ⟨a1, a2, a3⟩; rcases b with ⟨b1, b2, b3⟩
  unfold LS.has at *
  split at hb
  · cases a1 <;> cases b1 <;> simp_all [LS.subset]
  · split at hb
    · cases a2 <;> cases b2 <;> simp_all [LS.subset]
    · split at hb
      · cases a3 <;> cases b3 <;> simp_all [LS.subset]
      · simp at hb

theorem protects_mono {a b : LS} (h : a.subset b = true) (half : Nat) (hp : protects a half = true) :
    protects b half = true := by
  unfold protects at *
  rcases Bool.or_eq_true _ _ |>.mp hp with h1 | h1
  · simp [has_mono h half h1]
  · have : b.hs = true := by
      rcases a with ⟨a1, a2, a3⟩; rcases b with ⟨b1, b2, b3⟩
      cases a1 <;> cases b1 <;> simp_all [LS.subset]
    simp [this]

-- call paths ---------------------------------------------------------------------------------------------------

/-- `Path g L`: some chain of call sites leads from an exported method (entered with no lock of the connection
    held) to `g`, and `L` is the set of locks held on entry to `g` along it: every function on the way keeps the
    locks it has acquired itself until it returns (`Lock(); defer Unlock()`). -/
inductive Path : Nat → LS → Prop
  | api (f : Nat) (h : exported f = true) : Path f LS.empty
  | call {f : Nat} {L : LS} (c : Nat × Nat × Nat × Nat) (hc : c ∈ calls) (hf : c.1 = f) (p : Path f L) :
      Path c.2.1 (L.union (LS.ofMask c.2.2.1))

theorem exported_lt {f : Nat} (h : exported f = true) : f < nFns := by
  unfold exported at h
  by_cases hlt : f < nFns
  · exact hlt
  · have : fns.getD f (false, []) = (false, []) := by
      unfold nFns at hlt
      simp [List.getD_eq_getElem?_getD, List.getElem?_eq_none (Nat.le_of_not_lt hlt)]
    rw [this] at h; simp at h

/-- T1 `must_sound`: a table that passes `mustOK` under-approximates the locks held on entry along EVERY path. -/
theorem must_sound (t : Table) (hok : mustOK t = true) {g : Nat} {L : LS} (p : Path g L) :
    (t.at g).subset L = true := by
  unfold mustOK at hok
  have h1 := (Bool.and_eq_true _ _ |>.mp hok).1
  have h2 := (Bool.and_eq_true _ _ |>.mp hok).2
  induction p with
  | api f h =>
    have hlt := exported_lt h
    have := List.all_eq_true.mp h1 f (List.mem_range.mpr hlt)
    simp [h] at this
    rw [this]; exact empty_subset _
  | call c hc hf p ih =>
    have hs := List.all_eq_true.mp h2 c hc
    subst hf
    exact subset_trans hs (union_mono _ ih)

/-- T2 `may_sound`: a table that passes `mayOK` over-approximates the locks held on entry along ANY path. -/
theorem may_sound (t : Table) (hok : mayOK t = true) {g : Nat} {L : LS} (p : Path g L) :
    L.subset (t.at g) = true := by
  unfold mayOK at hok
  induction p with
  | api f h => exact empty_subset _
  | call c hc hf p ih =>
    have hs := List.all_eq_true.mp hok c hc
    subst hf
    exact subset_trans (union_mono _ ih) hs

-- the checks on the current facts ------------------------------------------------------------------------------

theorem must_ok : mustOK must = true := by decide +kernel
theorem may_ok : mayOK may = true := by decide +kernel
theorem no_touch_violation : touchViolations must = [] := by decide +kernel
theorem no_reacquisition : reacquisitions may = [] := by decide +kernel
/-- T6 `order_edges_expected`: the lock-order edges of the code are the four listed in `expectedEdges`. -/
theorem order_edges_expected : (orderEdges may).all (fun e => expectedEdges.contains e) = true := by decide +kernel

/-- the facts are not empty: the analysis saw the functions it is about -/
theorem facts_present :
    names.contains "Conn.Read" = true ∧ names.contains "Conn.Write" = true ∧ names.contains "Conn.Close" = true ∧
    names.contains "Conn.Handshake" = true ∧ names.contains "Conn.sendAlertLocked" = true ∧
    names.contains "Conn.writeRecordLocked" = true ∧ names.contains "Conn.readRecord" = true ∧
    80 ≤ nFns ∧ 150 ≤ calls.length ∧ 15 ≤ touches.length := by decide +kernel

-- consequences for every call path -------------------------------------------------------------------------------

/-- T3 `half_protected`: on every call path from an exported method, a function that touches the state of the
    read half (`half = 2`) or the write half (`half = 4`) holds, at that place, the half's mutex or the handshake
    mutex (its own earlier `Lock()`s are in `x.2.2`). A change that sends an alert or writes a record from a
    reader without `c.out` breaks this. -/
theorem half_protected {f : Nat} {L : LS} (p : Path f L) (x : Nat × Nat × Nat) (hx : x ∈ touches) (hf : x.1 = f) :
    protects (L.union (LS.ofMask x.2.2)) x.2.1 = true := by
  have hv := no_touch_violation
  unfold touchViolations at hv
  have h1 := (List.append_eq_nil_iff.mp hv).1
  have h1' := List.map_eq_nil_iff.mp h1
  have := List.filter_eq_nil_iff.mp h1' x hx
  simp only [Bool.not_eq_true', Bool.not_eq_false] at this
  have hm := must_sound must must_ok p
  subst hf
  exact protects_mono (union_mono _ hm) _ (by simpa using this)

/-- T4 `half_call_protected`: the same for `halfConn` methods reached through `c.in` / `c.out` (encrypt, decrypt,
    incSeq, setErrorLocked, newBlock, …): at the call site the half's mutex or the handshake mutex is held. -/
theorem half_call_protected {f : Nat} {L : LS} (p : Path f L) (c : Nat × Nat × Nat × Nat) (hc : c ∈ calls)
    (hf : c.1 = f) (hvia : c.2.2.2 ≠ 0) : protects (L.union (LS.ofMask c.2.2.1)) c.2.2.2 = true := by
  have hv := no_touch_violation
  unfold touchViolations at hv
  have h2 := (List.append_eq_nil_iff.mp hv).2
  have h2' := List.map_eq_nil_iff.mp h2
  have := List.filter_eq_nil_iff.mp h2' c hc
  have hm := must_sound must must_ok p
  subst hf
  have hne : (c.2.2.2 != 0) = true := by simpa using hvia
  simp only [hne, Bool.true_and, Bool.not_eq_true', Bool.not_eq_false] at this
  exact protects_mono (union_mono _ hm) _ (by simpa using this)

theorem reacq_mono : ∀ (ls : List Nat) (a b : LS), a.subset b = true → reacq a ls = true → reacq b ls = true
  | [], _, _, _, h => by simp [reacq] at h
  | l :: ls, a, b, hab, h => by
    unfold reacq at *
    rcases Bool.or_eq_true _ _ |>.mp h with h1 | h1
    · simp [has_mono hab l h1]
    · simp [reacq_mono ls _ _ (union_mono _ hab) h1]

/-- T5 `no_reacquire`: on no call path does a function lock a mutex that the goroutine already holds (a
    `sync.Mutex` is not reentrant: the goroutine would wait for itself for ever). -/
theorem no_reacquire {f : Nat} {L : LS} (p : Path f L) (hlt : f < nFns) : reacq L (acquires f) = false := by
  have hr := no_reacquisition
  unfold reacquisitions at hr
  have := List.filter_eq_nil_iff.mp hr f (List.mem_range.mpr hlt)
  have hmay := may_sound may may_ok p
  cases h : reacq L (acquires f) with
  | false => rfl
  | true => exact absurd (reacq_mono _ _ _ hmay h) this

/-- non-vacuity: paths exist, e.g. Read → readRecord with `c.in` held -/
example : ∃ f g : Nat, names.getD f "" = "Conn.Read" ∧ names.getD g "" = "Conn.readRecord" ∧
    Path g (LS.empty.union (LS.ofMask 2)) := by
  have hR : ((List.range nFns).any fun f => names.getD f "" == "Conn.Read" && exported f &&
      calls.any fun c => c.1 == f && names.getD c.2.1 "" == "Conn.readRecord" && c.2.2.1 == 2) = true := by
    decide +kernel
  obtain ⟨f, _, hf⟩ := List.any_eq_true.mp hR
  simp only [Bool.and_eq_true, beq_iff_eq, List.any_eq_true] at hf
  obtain ⟨⟨hn, he⟩, c, hc, ⟨hcf, hcn⟩, hm⟩ := hf
  exact ⟨f, c.2.1, hn, hcn, hm ▸ Path.call c hc hcf (Path.api f he)⟩

end Props.C20Locks
