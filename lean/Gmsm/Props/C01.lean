/-
C01 — SM2 signatures are complete, sound and match GM/T 0003.2.

`Spec.SM2` is the standard's algorithm (validated on the standard's example); the real code is compared
with it on every run (sm2sign/sm2signder/sm2verify/sm2verifyder).  Theorems here:
 * the algebra of the scheme over ANY commutative group of prime order (completeness: verify ∘ sign),
 * range checks, the exact characterisation of which altered messages/IDs are accepted,
 * strict DER: encode/decode round trip of SEQUENCE{INTEGER r, INTEGER s}.
-/
import Gmsm.Spec.SM2
import Gmsm.Spec.DER
import Gmsm.Proofs.BytesNat
import Mathlib.Data.ZMod.Basic
import Mathlib.Algebra.Module.Basic
import Mathlib.Tactic.Ring
import Mathlib.Tactic.FieldSimp
import Mathlib.Tactic.LinearCombination
namespace Props.C01
open Gmsm Spec.SM2

/-- T1 `verify_range`: r or s outside [1, n−1], or r + s ≡ 0 (mod n), is rejected whatever the rest is -/
theorem verify_range (px py e r s : Nat) (h : r < 1 ∨ s < 1 ∨ r ≥ n ∨ s ≥ n ∨ (r + s) % n = 0) :
    verifyE px py e r s = false := by
  unfold verifyE
  by_cases h1 : r < 1 ∨ s < 1 ∨ r ≥ n ∨ s ≥ n
  · rw [if_pos h1]
  · have h2 : (r + s) % n = 0 := by
      rcases h with h | h | h | h | h
      · exact absurd (Or.inl h) h1
      · exact absurd (Or.inr (Or.inl h)) h1
      · exact absurd (Or.inr (Or.inr (Or.inl h))) h1
      · exact absurd (Or.inr (Or.inr (Or.inr h))) h1
      · exact h
    rw [if_neg h1]
    show (if (r + s) % n = 0 then false else _) = false
    rw [if_pos h2]

/-- T1 `verify_altered_msg_iff`: if a signature verifies for digest value e, then under the same key it
    verifies for e' **iff** e' ≡ e (mod n).  (So accepting an altered message or ID needs
    SM3(Z'‖M') ≡ SM3(Z‖M) mod n: a statement about the hash, not about this code.) -/
theorem verify_altered_msg_iff (px py e e' r s : Nat) (h : verifyE px py e r s = true) :
    verifyE px py e' r s = true ↔ e' % n = e % n := by
  unfold verifyE at h ⊢
  by_cases h1 : r < 1 ∨ s < 1 ∨ r ≥ n ∨ s ≥ n
  · rw [if_pos h1] at h; exact absurd h (by simp)
  · rw [if_neg h1] at h ⊢
    by_cases h2 : (r + s) % n = 0
    · have : (if (r + s) % n = 0 then false else
          (e + (enc (padd (smul s G) (smul ((r + s) % n) (dec px py)))).1) % n == r) = true := h
      rw [if_pos h2] at this; exact absurd this (by simp)
    · have h' : (if (r + s) % n = 0 then false else
          (e + (enc (padd (smul s G) (smul ((r + s) % n) (dec px py)))).1) % n == r) = true := h
      show (if (r + s) % n = 0 then false else
          (e' + (enc (padd (smul s G) (smul ((r + s) % n) (dec px py)))).1) % n == r) = true ↔ _
      rw [if_neg h2] at h' ⊢
      generalize (enc (padd (smul s G) (smul ((r + s) % n) (dec px py)))).1 = x1 at h' ⊢
      simp only [beq_iff_eq] at h' ⊢
      constructor
      · intro hh
        have : (e' + x1) % n = (e + x1) % n := by rw [hh, h']
        exact Nat.ModEq.add_right_cancel' x1 this
      · intro hh
        rw [← h']
        exact Nat.ModEq.add_right x1 hh

-- the algebra over an arbitrary group of prime order ------------------------------------------------------

section
variable {Grp : Type} [AddCommGroup Grp] (q : Nat) (g : Grp) (hg : q • g = 0)

theorem smul_mod_order (h : Grp) (hh : q • h = 0) (k : Nat) : (k % q) • h = k • h := by
  conv_rhs => rw [← Nat.div_add_mod k q]
  rw [add_smul, Nat.mul_comm, mul_smul, hh, smul_zero, zero_add]

include hg in
/-- T1 `verify_sign` (completeness, the algebra): for every private key d, nonce k and r, if s satisfies
    the signing equation s·(1+d) ≡ k − r·d (mod q) — which is what s = (1+d)⁻¹(k − r·d) mod q means —
    then with t = (r+s) mod q the verifier's point [s]G + [t]P equals [k]G, so the verifier recomputes
    the signer's x₁ and accepts.  Proved over any commutative group and any q with [q]G = O. -/
theorem verify_sign (d k r s : Nat)
    (hs : (s : ZMod q) * ((1 + d : Nat) : ZMod q) = (k : ZMod q) - (r : ZMod q) * (d : ZMod q)) :
    s • g + ((r + s) % q) • (d • g) = k • g := by
  have hdg : q • (d • g) = 0 := by rw [smul_comm, hg, smul_zero]
  rw [smul_mod_order q (d • g) hdg, ← mul_smul, ← add_smul]
  -- s + (r+s)·d ≡ k (mod q)
  have key : ((s + (r + s) * d : Nat) : ZMod q) = (k : ZMod q) := by
    have hu : ((1 + d : Nat) : ZMod q) = 1 + (d : ZMod q) := by push_cast; ring
    rw [hu] at hs
    push_cast
    linear_combination hs
  have := (ZMod.natCast_eq_natCast_iff' _ _ _).mp key
  rw [← smul_mod_order q g hg (s + (r + s) * d), this, smul_mod_order q g hg]
end

-- strict DER ---------------------------------------------------------------------------------------------------

open Spec.DER

theorem decLen_encLen (n : Nat) (h : n < 128) (rest : Bytes) : decLen (encLen n ++ rest) = some (n, rest) := by
  unfold encLen decLen
  simp only [h, if_true, List.singleton_append]
  have : (BitVec.ofNat 8 n).toNat = n := by simp [BitVec.toNat_ofNat]; omega
  simp [this, h]

theorem decTLV_tlv (tag : Byte) (c rest : Bytes) (h : c.length < 128) :
    decTLV tag (tlv tag c ++ rest) = some (c, rest) := by
  unfold tlv decTLV
  simp only [List.cons_append, List.append_assoc, ne_eq, not_true_eq_false, if_false]
  rw [decLen_encLen _ h]
  simp

theorem intContent_length (v : Nat) (h : v < 256 ^ 32) : (intContent v).length ≤ 33 := by
  simp only [intContent]
  have := natBytes_length_le v 32 h
  cases hnb : natBytes v with
  | nil => simp
  | cons hd tl =>
    rw [hnb] at this
    simp only
    split <;> simp at this ⊢ <;> omega

theorem intContent_pos (v : Nat) : 0 < (intContent v).length := by
  simp only [intContent]
  cases natBytes v with
  | nil => simp
  | cons hd tl => simp only; split <;> simp

theorem decIntContent_intContent (v : Nat) : decIntContent (intContent v) = some (v : Int) := by
  simp only [intContent]
  by_cases hv : v = 0
  · subst hv; simp [natBytes_zero, decIntContent]
  · obtain ⟨b, rest, hb, hb0⟩ := natBytes_head v hv
    have hval := os2ip_natBytes v
    rw [hb] at hval ⊢
    simp only
    by_cases hhi : b.toNat ≥ 128
    · -- a 0x00 is prepended
      simp only [hhi, if_true]
      unfold decIntContent
      have h0 : (0 : Byte).toNat = 0 := rfl
      have c1 : ¬ ((0 : Byte).toNat = 0 ∧ b.toNat < 128) := by rw [h0]; omega
      have c2 : ¬ ((0 : Byte).toNat = 255 ∧ b.toNat ≥ 128) := by rw [h0]; omega
      have c3 : ¬ ((0 : Byte).toNat ≥ 128) := by rw [h0]; omega
      show (if (0 : Byte).toNat = 0 ∧ b.toNat < 128 then none else
        if (0 : Byte).toNat = 255 ∧ b.toNat ≥ 128 then none else
          some (if (0 : Byte).toNat ≥ 128 then (os2ip ((0 : Byte) :: b :: rest) : Int) - 256 ^ (rest.length + 2) else (os2ip ((0 : Byte) :: b :: rest) : Int))) = _
      rw [if_neg c1, if_neg c2, if_neg c3, os2ip_cons, h0, hval]; simp
    · simp only [hhi, if_false]
      cases rest with
      | nil =>
        unfold decIntContent
        simp only [hhi, if_false]
        rw [os2ip_cons, os2ip_nil] at hval
        simp only [List.length_nil, Nat.pow_zero, Nat.mul_one, Nat.add_zero] at hval
        rw [hval]
      | cons y rest =>
        unfold decIntContent
        have : ¬ (b.toNat = 0 ∧ y.toNat < 128) := by omega
        simp only [this, if_false]
        have : ¬ (b.toNat = 255 ∧ y.toNat ≥ 128) := by omega
        simp only [this, if_false, hhi]
        rw [hval]

/-- T1 `der_roundtrip`: decoding the strict DER encoding of (r, s) returns (r, s), for all values below
    2^256 (every signature component is below n). -/
theorem der_roundtrip (r s : Nat) (hr : r < 256 ^ 32) (hs : s < 256 ^ 32) :
    decSig (encSig r s) = some ((r : Int), (s : Int)) := by
  have lr := intContent_length r hr
  have ls := intContent_length s hs
  unfold encSig encSeq decSig
  simp only [List.flatten_cons, List.flatten_nil, List.append_nil]
  have hbody : (encInt r ++ encInt s).length < 128 := by
    simp [encInt, tlv, encLen]
    have h1 : (intContent r).length < 128 := by omega
    have h2 : (intContent s).length < 128 := by omega
    simp [h1, h2]; omega
  have h1 := decTLV_tlv 0x30 (encInt r ++ encInt s) [] hbody
  rw [List.append_nil] at h1
  rw [h1]
  simp only
  unfold encInt
  rw [decTLV_tlv 0x02 (intContent r) _ (by omega)]
  simp only
  have h2 := decTLV_tlv 0x02 (intContent s) [] (by omega)
  rw [List.append_nil] at h2
  rw [h2]
  simp only [decIntContent_intContent]

/-- trailing bytes after the SEQUENCE are rejected -/
theorem der_trailing_rejected (r s : Nat) (hr : r < 256 ^ 32) (hs : s < 256 ^ 32) (x : Byte) (xs : Bytes) :
    decSig (encSig r s ++ x :: xs) = none := by
  have lr := intContent_length r hr
  have ls := intContent_length s hs
  unfold encSig encSeq decSig
  simp only [List.flatten_cons, List.flatten_nil, List.append_nil]
  have hbody : (encInt r ++ encInt s).length < 128 := by
    simp [encInt, tlv, encLen]
    have h1 : (intContent r).length < 128 := by omega
    have h2 : (intContent s).length < 128 := by omega
    simp [h1, h2]; omega
  rw [decTLV_tlv 0x30 (encInt r ++ encInt s) (x :: xs) hbody]

end Props.C01
