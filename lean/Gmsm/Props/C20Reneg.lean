/-
C20 (renegotiation part) — `Conn.Write` on a healthy connection while a concurrent `Conn.Read` renegotiates,
under ALL interleavings.  Model: `Model.ConnReneg` (one atomic action of one goroutine per step; `fixed = true`
is the repaired Write loop, `fixed = false` the code as found).  The theorems hold for ANY number of goroutines in
Write, ANY number of renegotiations the peer asks for and ANY schedule; they are proved by induction over the
schedule with the invariant `Inv`:

* `write_never_internal_error`   (repaired code) no Write ever returns alertInternalError
* `writes_all_delivered`         (repaired code) when every call has returned, every Write returned ok, the number of
                                 application records on the wire is the number of Writes, and every renegotiation the
                                 peer asked for was completed
* `no_appdata_mid_handshake`     no application record is written between the ClientHello of a renegotiation and
                                 the end of that handshake (a peer refuses such a record); both versions
* `write_never_runs_handshake`   the Handshake() call inside Write never finds an incomplete handshake to run itself
* `no_deadlock`                  in every reachable state in which some call has not returned some goroutine can
                                 move (the retry takes c.out, releases it, then waits for handshakeMutex: no cycle)
* `progress`                     (both versions) every fair schedule of at least 7·N + (6·N+10)·renegs rounds finishes every
                                 call: a Write goes round its loop at most once per renegotiation
* `old_write_internal_error_witness`  the code as found: one Write, one renegotiation, a schedule after which the
                                 Write has returned alertInternalError with nothing written

What is NOT covered: failing renegotiations and transport errors (the legitimate error returns of Write), Close
(Model.ConnInterlock), the contents of the handshake, the Go memory model (atomics are sequentially consistent).
Core Lean only.
-/
import Gmsm.Model.ConnReneg
import Gmsm.Props.C20Interlock
namespace Props.C20Reneg
open Model.ConnReneg
open Props.C20Interlock (sumBy sumBy_set le_sumBy sumBy_eq_zero exists_of_sumBy_pos sumBy_le_length)

/-! ## per-goroutine indicator functions -/
/-- holds handshakeMutex, no renegotiation window open by it -/
def hsIdle : Thread → Nat
  | .writer .hsCheck | .writer .hsUnlock | .reader .rnClear | .reader .rnUnlock => 1
  | _ => 0
/-- holds handshakeMutex, handshakeStatus = 0, ClientHello not yet on the wire -/
def preHello : Thread → Nat
  | .reader .helloLock | .reader .helloSend => 1
  | _ => 0
/-- holds handshakeMutex, handshakeStatus = 0, ClientHello on the wire -/
def afterHello : Thread → Nat
  | .reader .finLock | .reader .finSend | .reader .rnFinish => 1
  | _ => 0
/-- holds c.out, about to write an application record -/
def atRecord : Thread → Nat
  | .writer .record => 1
  | _ => 0
/-- holds c.out otherwise -/
def outOther : Thread → Nat
  | .writer .outCheck | .writer .retryUnlock | .writer (.outUnlock _) | .reader .helloSend | .reader .finSend => 1
  | _ => 0
def intErr : Thread → Nat
  | .writer (.outUnlock .internalError) | .writer (.done .internalError) => 1
  | _ => 0
/-- a Write whose record is on the wire -/
def sent : Thread → Nat
  | .writer (.outUnlock .ok) | .writer (.done .ok) => 1
  | _ => 0
/-- a renegotiation taken from the peer and not yet completed -/
def inReneg : Thread → Nat
  | .reader .rnLock | .reader .rnClear | .reader .helloLock | .reader .helloSend | .reader .finLock
  | .reader .finSend | .reader .rnFinish => 1
  | _ => 0
def readerDone : Thread → Nat
  | .reader .done => 1
  | _ => 0

/-! ## one step, as seen by the sums -/
theorem step_sums {fixed : Bool} {s s' : State} {t : ThreadId} (h : step fixed s t = some s') :
    ∃ th th' sh', s.threads[t]? = some th ∧ localStep fixed s.toShared th = some (sh', th') ∧
      s' = { toShared := sh', threads := s.threads.set t th' } ∧
      ∀ f : Thread → Nat, sumBy f s'.threads + f th = sumBy f s.threads + f th' ∧ f th ≤ sumBy f s.threads := by
  unfold step at h
  split at h
  · simp at h
  · rename_i th hget
    split at h
    · simp at h
    · rename_i sh th' hl
      simp at h
      subst h
      exact ⟨th, th', sh, hget, hl, rfl,
        fun f => ⟨sumBy_set f hget th', le_sumBy f (List.mem_of_getElem? hget)⟩⟩

theorem next_of_none {fixed : Bool} {s : State} {t : ThreadId} (h : step fixed s t = none) : next fixed s t = s := by
  simp [next, h]
theorem next_of_some {fixed : Bool} {s s' : State} {t : ThreadId} (h : step fixed s t = some s') :
    next fixed s t = s' := by
  simp [next, h]
theorem run_nil (fixed : Bool) (s : State) : run fixed s [] = s := rfl
theorem run_cons (fixed : Bool) (s : State) (t : ThreadId) (ts : List ThreadId) :
    run fixed s (t :: ts) = run fixed (next fixed s t) ts := rfl
theorem run_append (fixed : Bool) (s : State) (a b : List ThreadId) :
    run fixed s (a ++ b) = run fixed (run fixed s a) b := by
  simp [run, List.foldl_append]

/-! ## the invariant -/
structure Inv (fixed : Bool) (renegs : Nat) (s : State) : Prop where
  hs : sumBy hsIdle s.threads + sumBy preHello s.threads + sumBy afterHello s.threads = s.hsHeld.toNat
  out : sumBy atRecord s.threads + sumBy outOther s.threads = s.outHeld.toNat
  window : sumBy preHello s.threads + sumBy afterHello s.threads + s.complete.toNat = 1
  hello : sumBy afterHello s.threads = s.helloSent.toNat
  excl : sumBy atRecord s.threads + sumBy afterHello s.threads ≤ 1
  mid : s.appMidHandshake = 0
  self : s.selfHandshakes = 0
  recs : s.appRecords = sumBy sent s.threads
  noErr : fixed = true → sumBy intErr s.threads = 0
  acct : s.pendingRenegs + sumBy inReneg s.threads + s.renegsDone = renegs
  drained : sumBy readerDone s.threads = 0 ∨ s.pendingRenegs = 0

set_option linter.unusedSimpArgs false in
theorem Inv.step {fixed : Bool} {renegs : Nat} {s s' : State} {t : ThreadId} (hI : Inv fixed renegs s)
    (h : step fixed s t = some s') : Inv fixed renegs s' := by
  obtain ⟨th, th', sh', hget, hl, rfl, hs⟩ := step_sums h
  have ⟨e1, m1⟩ := hs hsIdle; have ⟨e2, m2⟩ := hs preHello; have ⟨e3, m3⟩ := hs afterHello
  have ⟨e4, m4⟩ := hs atRecord; have ⟨e5, m5⟩ := hs outOther; have ⟨e6, m6⟩ := hs intErr
  have ⟨e7, m7⟩ := hs sent; have ⟨e8, m8⟩ := hs inReneg; have ⟨e9, m9⟩ := hs readerDone
  clear hs h
  have hb1 := Bool.toNat_le s.hsHeld
  have hb2 := Bool.toNat_le s.outHeld
  have hb3 := Bool.toNat_le s.complete
  have hb4 := Bool.toNat_le s.helloSent
  have c1 : s.hsHeld = true → s.hsHeld.toNat = 1 := by intro h; rw [h]; rfl
  have d1 : ¬ s.hsHeld = true → s.hsHeld.toNat = 0 := by intro h; cases hx : s.hsHeld <;> simp_all
  have c2 : s.outHeld = true → s.outHeld.toNat = 1 := by intro h; rw [h]; rfl
  have d2 : ¬ s.outHeld = true → s.outHeld.toNat = 0 := by intro h; cases hx : s.outHeld <;> simp_all
  have c3 : s.complete = true → s.complete.toNat = 1 := by intro h; rw [h]; rfl
  have d3 : ¬ s.complete = true → s.complete.toNat = 0 := by intro h; cases hx : s.complete <;> simp_all
  have c4 : s.helloSent = true → s.helloSent.toNat = 1 := by intro h; rw [h]; rfl
  have d4 : ¬ s.helloSent = true → s.helloSent.toNat = 0 := by intro h; cases hx : s.helloSent <;> simp_all
  obtain ⟨i1, i2, i3, i4, i5, i6, i7, i8, i9, i10, i11⟩ := hI
  cases fixed <;> rcases th with pc | pc <;> cases pc
  all_goals try (rename_i o; cases o)
  all_goals simp only [localStep, Bool.false_eq_true, if_false, if_true] at hl
  all_goals (repeat' split at hl)
  all_goals (first | (simp only [Option.some.injEq, Prod.mk.injEq] at hl) | (exact absurd hl (by simp)))
  all_goals obtain ⟨rfl, rfl⟩ := hl
  all_goals simp only [hsIdle, preHello, afterHello, atRecord, outOther, intErr, sent, inReneg, readerDone] at *
  all_goals first | (have k1 := c1 ‹_›) | (have k1 := d1 ‹_›) | skip
  all_goals first | (have k2 := c2 ‹_›) | (have k2 := d2 ‹_›) | skip
  all_goals first | (have k3 := c3 ‹_›) | (have k3 := d3 ‹_›) | skip
  all_goals first | (have k4 := c4 ‹_›) | (have k4 := d4 ‹_›) | skip
  all_goals clear c1 d1 c2 d2 c3 d3 c4 d4
  all_goals try simp only [Bool.false_eq_true, false_implies, forall_const, reduceCtorEq] at i9
  all_goals
    refine ⟨?_, ?_, ?_, ?_, ?_, ?_, ?_, ?_, ?_, ?_, ?_⟩ <;>
    (try simp only [Bool.toNat_true, Bool.toNat_false, Bool.false_eq_true, false_implies, forall_const,
      if_true, if_false, reduceIte]) <;>
    first | omega | (intro _; omega) | skip

/-! ## the invariant holds in every reachable state -/
theorem sumBy_init (kinds : List Kind) (renegs : Nat) (f : Thread → Nat) (h1 : f (.writer .hsLock) = 0)
    (h2 : f (.reader .read) = 0) : sumBy f (initOf kinds renegs).threads = 0 := by
  apply sumBy_eq_zero
  intro a ha
  simp only [initOf, List.mem_map] at ha
  obtain ⟨k, -, rfl⟩ := ha
  cases k <;> simp [Thread.start, h1, h2]

theorem Inv.init (fixed : Bool) (kinds : List Kind) (renegs : Nat) : Inv fixed renegs (initOf kinds renegs) := by
  have z := fun f h1 h2 => sumBy_init kinds renegs f h1 h2
  constructor
  · rw [z hsIdle rfl rfl, z preHello rfl rfl, z afterHello rfl rfl]; rfl
  · rw [z atRecord rfl rfl, z outOther rfl rfl]; rfl
  · rw [z preHello rfl rfl, z afterHello rfl rfl]; rfl
  · rw [z afterHello rfl rfl]; rfl
  · rw [z atRecord rfl rfl, z afterHello rfl rfl]; exact Nat.zero_le _
  · rfl
  · rfl
  · rw [z sent rfl rfl]; rfl
  · intro _; exact z intErr rfl rfl
  · rw [z inReneg rfl rfl]; simp [initOf, initShared]
  · exact Or.inl (z readerDone rfl rfl)

theorem Inv.next {fixed : Bool} {renegs : Nat} {s : State} (hI : Inv fixed renegs s) (t : ThreadId) :
    Inv fixed renegs (next fixed s t) := by
  cases h : Model.ConnReneg.step fixed s t with
  | none => rw [next_of_none h]; exact hI
  | some s' => rw [next_of_some h]; exact hI.step h

theorem Inv.run {fixed : Bool} {renegs : Nat} {s : State} (hI : Inv fixed renegs s) (sched : List ThreadId) :
    Inv fixed renegs (run fixed s sched) := by
  induction sched generalizing s with
  | nil => exact hI
  | cons t ts ih => exact ih (hI.next t)

/-- every state of every execution: any number of goroutines in Write / Read, any number of renegotiations the
    peer asks for, any schedule -/
theorem inv_reachable (fixed : Bool) (kinds : List Kind) (renegs : Nat) (sched : List ThreadId) :
    Inv fixed renegs (run fixed (initOf kinds renegs) sched) := (Inv.init fixed kinds renegs).run sched

/-! ### bookkeeping: the goroutine list keeps its length and kinds -/
theorem localStep_kind {fixed : Bool} {sh sh' : Shared} {th th' : Thread} (h : localStep fixed sh th = some (sh', th')) :
    th'.kind = th.kind := by
  cases fixed <;> rcases th with pc | pc <;> cases pc <;> simp only [localStep] at h
  all_goals (repeat' split at h)
  all_goals (first | (simp only [Option.some.injEq, Prod.mk.injEq] at h) | (exact absurd h (by simp)))
  all_goals obtain ⟨-, rfl⟩ := h
  all_goals rfl

theorem next_kinds (fixed : Bool) (s : State) (t : ThreadId) :
    (next fixed s t).threads.map Thread.kind = s.threads.map Thread.kind := by
  cases h : step fixed s t with
  | none => rw [next_of_none h]
  | some s' =>
    rw [next_of_some h]
    obtain ⟨th, th', sh', hget, hl, rfl, -⟩ := step_sums h
    exact Props.C20Interlock.map_set_same Thread.kind th' hget (localStep_kind hl)

theorem run_kinds (fixed : Bool) (s : State) (sched : List ThreadId) :
    (run fixed s sched).threads.map Thread.kind = s.threads.map Thread.kind := by
  induction sched generalizing s with
  | nil => rfl
  | cons t ts ih => rw [run_cons, ih, next_kinds]

theorem run_length (fixed : Bool) (s : State) (sched : List ThreadId) :
    (run fixed s sched).threads.length = s.threads.length := by
  have := congrArg List.length (run_kinds fixed s sched)
  simpa using this

/-! ## T1 the repaired Write never returns alertInternalError -/

/-- no Write - finished or about to unlock - has the result alertInternalError, in any reachable state of the
    repaired code: a Write that finds the handshake incomplete under c.out goes back to wait in Handshake() -/
theorem write_never_internal_error (kinds : List Kind) (renegs : Nat) (sched : List ThreadId) (t : ThreadId) :
    (run true (initOf kinds renegs) sched).threads[t]? ≠ some (.writer (.done .internalError)) ∧
    (run true (initOf kinds renegs) sched).threads[t]? ≠ some (.writer (.outUnlock .internalError)) := by
  have h := (inv_reachable true kinds renegs sched).noErr rfl
  constructor <;> intro hget
  · have := le_sumBy intErr (List.mem_of_getElem? hget)
    simp [intErr] at this; omega
  · have := le_sumBy intErr (List.mem_of_getElem? hget)
    simp [intErr] at this; omega

/-- the same, in terms of the results -/
theorem write_outcomes_ok (kinds : List Kind) (renegs : Nat) (sched : List ThreadId) :
    ∀ o ∈ (run true (initOf kinds renegs) sched).outcomes, o = none ∨ o = some .ok := by
  intro o ho
  simp only [State.outcomes, List.mem_map] at ho
  obtain ⟨th, hmem, rfl⟩ := ho
  obtain ⟨i, hi⟩ := List.getElem?_of_mem hmem
  have h1 := (write_never_internal_error kinds renegs sched i).1
  rcases th with pc | pc <;> cases pc <;> simp [Thread.outcome]
  rename_i o
  cases o
  · rfl
  · exact absurd hi h1

/-! ## T2 every Write is delivered, every renegotiation completed -/

theorem sumBy_const_of_all {l : List Thread} (f : Thread → Nat) (p : Thread → Bool)
    (h : ∀ a ∈ l, f a = if p a then 1 else 0) : sumBy f l = l.countP p := by
  induction l with
  | nil => rfl
  | cons a l ih =>
    have h1 := h a (by simp)
    have h2 := ih (fun b hb => h b (by simp [hb]))
    simp only [sumBy, h1, h2, List.countP_cons]
    omega

theorem start_kinds (kinds : List Kind) : (kinds.map Thread.start).map Thread.kind = kinds := by
  induction kinds with
  | nil => rfl
  | cons k ks ih => cases k <;> simp [Thread.start, Thread.kind] <;> simpa using ih

theorem countP_writer_kinds (l : List Thread) :
    l.countP (fun a => a.kind == .writer) = (l.map Thread.kind).count .writer := by
  induction l with
  | nil => rfl
  | cons a l ih => simp [List.countP_cons, List.count_cons, ih]

/-- when every call has returned (repaired code): the number of application records on the wire is the number of
    Write calls, every renegotiation the peer asked for has been completed (if there is a goroutine in Read), no
    record went out in the middle of a handshake -/
theorem writes_all_delivered (kinds : List Kind) (renegs : Nat) (sched : List ThreadId)
    (hd : (run true (initOf kinds renegs) sched).allDone = true) :
    (run true (initOf kinds renegs) sched).appRecords = kinds.count .writer ∧
    (.reader ∈ kinds → (run true (initOf kinds renegs) sched).renegsDone = renegs) ∧
    (run true (initOf kinds renegs) sched).appMidHandshake = 0 := by
  have hI := inv_reachable true kinds renegs sched
  have hk := run_kinds true (initOf kinds renegs) sched
  generalize run true (initOf kinds renegs) sched = s at *
  have hall : ∀ a ∈ s.threads, a.isDone = true := by
    simpa [State.allDone, List.all_eq_true] using hd
  refine ⟨?_, ?_, hI.mid⟩
  · rw [hI.recs]
    have h0 := hI.noErr rfl
    have : sumBy sent s.threads = s.threads.countP (fun a => a.kind == .writer) := by
      apply sumBy_const_of_all
      intro a ha
      have hdn := hall a ha
      have he := le_sumBy intErr ha
      rcases a with pc | pc <;> cases pc <;> simp [Thread.isDone] at hdn <;> simp [sent, Thread.kind]
      rename_i o
      cases o
      · simp
      · simp [intErr] at he; omega
    rw [this, countP_writer_kinds, hk]
    simp only [initOf, start_kinds]
  · intro hr
    have hmem : Kind.reader ∈ s.threads.map Thread.kind := by
      rw [hk]; simp only [initOf, start_kinds]; exact hr
    obtain ⟨a, ha, hka⟩ := List.mem_map.1 hmem
    have hdn := hall a ha
    have ha' : a = .reader .done := by
      rcases a with pc | pc <;> cases pc <;> simp [Thread.isDone, Thread.kind] at hdn hka ⊢
    subst ha'
    have h1 := le_sumBy readerDone ha
    have hz : sumBy inReneg s.threads = 0 := by
      apply sumBy_eq_zero
      intro b hb
      have := hall b hb
      rcases b with pc | pc <;> cases pc <;> simp [Thread.isDone] at this <;> rfl
    have := hI.acct
    rcases hI.drained with h | h
    · simp [readerDone] at h1; omega
    · omega

/-! ## T3 no application data in the middle of a handshake; Write never runs the handshake itself -/

/-- no application record is ever written between the ClientHello of a renegotiation and the end of that handshake
    (the peer would refuse it: unexpected_message) - for the repaired loop and for the code as found -/
theorem no_appdata_mid_handshake (fixed : Bool) (kinds : List Kind) (renegs : Nat) (sched : List ThreadId) :
    (run fixed (initOf kinds renegs) sched).appMidHandshake = 0 := (inv_reachable fixed kinds renegs sched).mid

/-- the `Handshake()` call at the top of Write's loop never has a handshake to run: whenever it gets
    handshakeMutex the (re)negotiation in progress has finished -/
theorem write_never_runs_handshake (fixed : Bool) (kinds : List Kind) (renegs : Nat) (sched : List ThreadId) :
    (run fixed (initOf kinds renegs) sched).selfHandshakes = 0 := (inv_reachable fixed kinds renegs sched).self

/-- a Write that holds handshakeMutex sees a completed handshake -/
theorem complete_when_write_holds_hs {fixed : Bool} {renegs : Nat} {s : State} (hI : Inv fixed renegs s) {t : ThreadId}
    (ht : s.threads[t]? = some (.writer .hsCheck) ∨ s.threads[t]? = some (.writer .hsUnlock)) : s.complete = true := by
  have hb := Bool.toNat_le s.hsHeld
  have h1 := hI.hs; have h3 := hI.window
  rcases ht with ht | ht <;>
  · have := le_sumBy hsIdle (List.mem_of_getElem? ht)
    simp only [hsIdle] at this
    cases hc : s.complete with
    | true => rfl
    | false => rw [hc] at h3; simp at h3; omega

/-! ## T4 no deadlock -/

theorem step_isSome {fixed : Bool} {s : State} {t : ThreadId} {th : Thread} (hget : s.threads[t]? = some th)
    (hl : (localStep fixed s.toShared th).isSome = true) : (step fixed s t).isSome = true := by
  unfold step
  rw [hget]
  cases h : localStep fixed s.toShared th with
  | none => rw [h] at hl; simp at hl
  | some p => obtain ⟨sh, th'⟩ := p; simp [h]

/-- who can always move: the holder of c.out -/
theorem localStep_isSome_outHolder {fixed : Bool} {sh : Shared} {th : Thread} (hh : 0 < atRecord th + outOther th) :
    (localStep fixed sh th).isSome = true := by
  cases fixed <;> rcases th with pc | pc <;> cases pc <;> simp only [atRecord, outOther, Nat.lt_irrefl, Nat.add_zero] at hh <;>
    simp only [localStep] <;> (try split) <;> (try split) <;> rfl

/-- with c.out free, a holder of handshakeMutex can move -/
theorem localStep_isSome_hsHolder {fixed : Bool} {sh : Shared} {th : Thread} (hfree : sh.outHeld = false)
    (hh : 0 < hsIdle th + preHello th + afterHello th) : (localStep fixed sh th).isSome = true := by
  cases fixed <;> rcases th with pc | pc <;> cases pc <;>
    simp only [hsIdle, preHello, afterHello, Nat.lt_irrefl, Nat.add_zero] at hh <;>
    simp only [localStep, hfree, Bool.false_eq_true, if_false] <;> (try split) <;> (try split) <;> rfl

/-- with both mutexes free, every goroutine that has not finished can move -/
theorem localStep_isSome_free {fixed : Bool} {sh : Shared} {th : Thread} (h1 : sh.outHeld = false) (h2 : sh.hsHeld = false)
    (hnd : th.isDone = false) : (localStep fixed sh th).isSome = true := by
  cases fixed <;> rcases th with pc | pc <;> cases pc <;>
    simp only [localStep, h1, h2, Bool.false_eq_true, if_false] <;> (try split) <;> (try split) <;>
    first | rfl | (simp [Thread.isDone] at hnd)

theorem sumBy_add (f g : Thread → Nat) (l : List Thread) : sumBy (fun a => f a + g a) l = sumBy f l + sumBy g l := by
  induction l with
  | nil => rfl
  | cons a l ih => simp only [sumBy, ih]; omega

/-- deadlock freedom: in a reachable state in which some call has not returned, some goroutine can take a step.
    (A goroutine waits for c.out or for handshakeMutex only. The holder of c.out never waits. With c.out free the
    holder of handshakeMutex does not wait. The retry of the repaired Write releases c.out BEFORE it waits for
    handshakeMutex, so the order handshakeMutex -> c.out of the handshake is never reversed.) -/
theorem no_deadlock {fixed : Bool} {renegs : Nat} {s : State} (hI : Inv fixed renegs s) (hnd : s.allDone = false) :
    ∃ t, (step fixed s t).isSome = true := by
  cases hout : s.outHeld with
  | true =>
    have h1 := hI.out
    rw [hout] at h1
    have : 0 < sumBy (fun a => atRecord a + outOther a) s.threads := by
      rw [sumBy_add, h1]; decide
    obtain ⟨i, a, hi, ha⟩ := exists_of_sumBy_pos _ this
    exact ⟨i, step_isSome hi (localStep_isSome_outHolder ha)⟩
  | false =>
    cases hhs : s.hsHeld with
    | true =>
      have h1 := hI.hs
      rw [hhs] at h1
      have : 0 < sumBy (fun a => hsIdle a + preHello a + afterHello a) s.threads := by
        rw [sumBy_add, sumBy_add, h1]; decide
      obtain ⟨i, a, hi, ha⟩ := exists_of_sumBy_pos _ this
      exact ⟨i, step_isSome hi (localStep_isSome_hsHolder hout ha)⟩
    | false =>
      have : ∃ th ∈ s.threads, th.isDone = false := by
        simp only [State.allDone, List.all_eq_false] at hnd
        obtain ⟨th, h1, h2⟩ := hnd
        exact ⟨th, h1, by simpa using h2⟩
      obtain ⟨th, hmem, hd⟩ := this
      obtain ⟨i, hi⟩ := List.getElem?_of_mem hmem
      exact ⟨i, step_isSome hi (localStep_isSome_free hout hhs hd)⟩

/-! ## T6 progress: every fair schedule finishes every call -/

/-- actions a call still has to perform if nothing interferes (the reader: up to its next Read-loop iteration) -/
def localRem : Thread → Nat
  | .writer .hsLock => 7 | .writer .hsCheck => 6 | .writer .hsUnlock => 5 | .writer .outLock => 4
  | .writer .outCheck => 3 | .writer .retryUnlock => 8 | .writer .record => 2 | .writer (.outUnlock _) => 1
  | .writer (.done _) => 0
  | .reader .read => 1 | .reader .rnLock => 9 | .reader .rnClear => 8 | .reader .helloLock => 7
  | .reader .helloSend => 6 | .reader .finLock => 5 | .reader .finSend => 4 | .reader .rnFinish => 3
  | .reader .rnUnlock => 2 | .reader .done => 0
/-- a renegotiation taken from the peer whose `handshakeStatus = 0` is still to come -/
def beforeClear : Thread → Nat
  | .reader .rnLock | .reader .rnClear => 1
  | _ => 0
/-- a Write that will test handshakeComplete() without waiting for handshakeMutex first: the renegotiation
    running now can send it round the loop -/
def waitOut : Thread → Nat
  | .writer .outLock | .writer .outCheck => 1
  | _ => 0
def notWait : Thread → Nat
  | .writer .outLock | .writer .outCheck => 0
  | _ => 1

theorem waitOut_add_notWait (l : List Thread) : sumBy waitOut l + sumBy notWait l = l.length := by
  induction l with
  | nil => rfl
  | cons a l ih =>
    have : waitOut a + notWait a = 1 := by rcases a with pc | pc <;> cases pc <;> rfl
    simp only [sumBy, List.length_cons]; omega

/-- termination measure: every action that happens decreases it. A Write goes round its loop only when a
    renegotiation is running (handshakeStatus = 0) and then waits for that renegotiation: 6 per goroutine and
    renegotiation still to come pays for the 5 extra actions of one round. -/
def mu (s : State) : Nat :=
  sumBy localRem s.threads +
  6 * (s.threads.length * s.pendingRenegs + s.threads.length * sumBy beforeClear s.threads +
       (sumBy waitOut s.threads - s.threads.length * s.complete.toNat)) +
  10 * s.pendingRenegs

set_option linter.unusedSimpArgs false in
theorem step_measure {fixed : Bool} {renegs : Nat} {s s' : State} {t : ThreadId} (hI : Inv fixed renegs s)
    (h : step fixed s t = some s') : mu s' < mu s := by
  obtain ⟨th, th', sh', hget, hl, rfl, hs⟩ := step_sums h
  have ⟨e1, m1⟩ := hs hsIdle; have ⟨e2, m2⟩ := hs preHello; have ⟨e3, m3⟩ := hs afterHello
  have ⟨e4, _⟩ := hs localRem; have ⟨e5, _⟩ := hs beforeClear; have ⟨e6, m6⟩ := hs waitOut
  have ⟨e7, m7⟩ := hs notWait
  have hmul : s.threads.length * sumBy beforeClear (s.threads.set t th') + s.threads.length * beforeClear th =
      s.threads.length * sumBy beforeClear s.threads + s.threads.length * beforeClear th' := by
    rw [← Nat.mul_add, ← Nat.mul_add]; exact congrArg _ e5
  have hwn := waitOut_add_notWait s.threads
  have hwn' := waitOut_add_notWait (s.threads.set t th')
  have hq : s.threads.length * (s.pendingRenegs - 1) + s.threads.length = s.threads.length * s.pendingRenegs ∨
      s.pendingRenegs = 0 := by
    cases hp : s.pendingRenegs with
    | zero => exact Or.inr rfl
    | succ n => left; simp [Nat.mul_succ]
  have hp0 : s.complete.toNat = 0 → s.threads.length * s.complete.toNat = 0 := by intro h; rw [h]; rfl
  have hp1 : s.complete.toNat = 1 → s.threads.length * s.complete.toNat = s.threads.length := by
    intro h; rw [h]; exact Nat.mul_one _
  clear hs h e5
  have hb1 := Bool.toNat_le s.hsHeld
  have hb3 := Bool.toNat_le s.complete
  have c3 : s.complete = true → s.complete.toNat = 1 := by intro h; rw [h]; rfl
  have d3 : ¬ s.complete = true → s.complete.toNat = 0 := by intro h; cases hx : s.complete <;> simp_all
  have i1 := hI.hs; have i3 := hI.window
  clear hI
  unfold mu
  simp only [List.length_set] at *
  cases fixed <;> rcases th with pc | pc <;> cases pc
  all_goals simp only [localStep, Bool.false_eq_true, if_false, if_true] at hl
  all_goals (repeat' split at hl)
  all_goals (first | (simp only [Option.some.injEq, Prod.mk.injEq] at hl) | (exact absurd hl (by simp)))
  all_goals obtain ⟨rfl, rfl⟩ := hl
  all_goals simp only [hsIdle, preHello, afterHello, localRem, beforeClear, waitOut, notWait] at *
  all_goals first | (have k3 := c3 ‹_›) | (have k3 := d3 ‹_›) | skip
  all_goals clear c3 d3
  all_goals simp only [Bool.toNat_true, Bool.toNat_false, Nat.mul_one, Nat.mul_zero, Nat.sub_zero] at *
  all_goals omega

theorem mu_next_le {fixed : Bool} {renegs : Nat} {s : State} (hI : Inv fixed renegs s) (t : ThreadId) :
    mu (next fixed s t) ≤ mu s := by
  cases h : step fixed s t with
  | none => rw [next_of_none h]; exact Nat.le_refl _
  | some s' => rw [next_of_some h]; exact Nat.le_of_lt (step_measure hI h)

theorem mu_run_le {fixed : Bool} {renegs : Nat} {s : State} (hI : Inv fixed renegs s) (l : List ThreadId) :
    mu (run fixed s l) ≤ mu s := by
  induction l generalizing s with
  | nil => exact Nat.le_refl _
  | cons t ts ih => exact Nat.le_trans (ih (hI.next t)) (mu_next_le hI t)

theorem step_none_of_done {fixed : Bool} {s : State} (hd : s.allDone = true) (t : ThreadId) : step fixed s t = none := by
  unfold step
  cases hget : s.threads[t]? with
  | none => rfl
  | some th =>
    have : th.isDone = true := by
      simp only [State.allDone, List.all_eq_true] at hd
      exact hd th (List.mem_of_getElem? hget)
    cases fixed <;> rcases th with pc | pc <;> cases pc <;> first | rfl | (simp [Thread.isDone] at this)

theorem run_of_done {fixed : Bool} {s : State} (hd : s.allDone = true) (l : List ThreadId) : run fixed s l = s := by
  induction l with
  | nil => rfl
  | cons t ts ih => rw [run_cons, next_of_none (step_none_of_done hd t)]; exact ih

theorem lt_length_of_isSome {fixed : Bool} {s : State} {t : ThreadId} (h : (step fixed s t).isSome = true) :
    t < s.threads.length := by
  unfold step at h
  cases hget : s.threads[t]? with
  | none => rw [hget] at h; simp at h
  | some th => exact (List.getElem?_eq_some_iff.1 hget).1

/-- in a round in which an enabled goroutine gets a turn, something happens -/
theorem round_progress {fixed : Bool} {renegs : Nat} {s : State} (hI : Inv fixed renegs s) (r : List ThreadId)
    {t : ThreadId} (ht : t ∈ r) (hen : (step fixed s t).isSome = true) : mu (run fixed s r) < mu s := by
  induction r generalizing s with
  | nil => simp at ht
  | cons u us ih =>
    rw [run_cons]
    cases h : step fixed s u with
    | some s' =>
      rw [next_of_some h]
      exact Nat.lt_of_le_of_lt (mu_run_le (hI.step h) us) (step_measure hI h)
    | none =>
      rw [next_of_none h]
      have hne : t ≠ u := by intro htu; subst htu; rw [h] at hen; simp at hen
      rcases List.mem_cons.1 ht with rfl | ht
      · exact absurd rfl hne
      · exact ih hI ht hen

/-- fair termination: a schedule made of rounds, each of which gives every goroutine at least one turn, finishes
    every call within `mu s` rounds -/
theorem fair_termination {fixed : Bool} {renegs : Nat} {s : State} (hI : Inv fixed renegs s) (rounds : List (List ThreadId))
    (hfair : ∀ r ∈ rounds, ∀ t, t < s.threads.length → t ∈ r) (hlen : mu s ≤ rounds.length) :
    (run fixed s rounds.flatten).allDone = true := by
  induction rounds generalizing s with
  | nil =>
    cases hd : s.allDone with
    | true => exact hd
    | false =>
      obtain ⟨t, ht⟩ := no_deadlock hI hd
      cases h : step fixed s t with
      | none => rw [h] at ht; simp at ht
      | some s' =>
        have := step_measure hI h
        simp at hlen; omega
  | cons r rs ih =>
    rw [List.flatten_cons, run_append]
    cases hd : s.allDone with
    | true => rw [run_of_done hd, run_of_done hd]; exact hd
    | false =>
      obtain ⟨t, ht⟩ := no_deadlock hI hd
      have htr : t ∈ r := hfair r (by simp) t (lt_length_of_isSome ht)
      have hlt := round_progress hI r htr ht
      apply ih (hI.run r)
      · intro r' hr' t' ht'
        rw [run_length] at ht'
        exact hfair r' (by simp [hr']) t' ht'
      · simp only [List.length_cons] at hlen; omega

theorem localRem_init_le (kinds : List Kind) : sumBy localRem (kinds.map Thread.start) ≤ 7 * kinds.length := by
  induction kinds with
  | nil => simp [sumBy]
  | cons k ks ih => cases k <;> simp [sumBy, Thread.start, localRem] <;> omega

theorem mu_init_le (kinds : List Kind) (renegs : Nat) :
    mu (initOf kinds renegs) ≤ 7 * kinds.length + (6 * kinds.length + 10) * renegs := by
  unfold mu
  have h1 := localRem_init_le kinds
  have h2 : sumBy beforeClear (initOf kinds renegs).threads = 0 := sumBy_init kinds renegs _ rfl rfl
  have h3 : sumBy waitOut (initOf kinds renegs).threads = 0 := sumBy_init kinds renegs _ rfl rfl
  rw [h2, h3]
  simp only [initOf, initShared, List.length_map, Nat.mul_zero, Nat.zero_sub, Nat.add_zero]
  rw [Nat.add_mul, Nat.mul_assoc]
  omega

/-- T6 `progress` (the repaired loop and the code as found): a schedule of at least `7·N + (6·N + 10)·renegs`
    rounds, each giving every one of the N goroutines at least one turn, finishes every Write and the Read - whatever
    the number of goroutines in Write and of renegotiations the peer asks for. A Write is sent round its loop only
    by a renegotiation that is running, and then waits for it: nobody spins, nobody waits forever. -/
theorem progress (fixed : Bool) (kinds : List Kind) (renegs : Nat) (rounds : List (List ThreadId))
    (hfair : ∀ r ∈ rounds, ∀ t, t < kinds.length → t ∈ r)
    (hlen : 7 * kinds.length + (6 * kinds.length + 10) * renegs ≤ rounds.length) :
    (run fixed (initOf kinds renegs) rounds.flatten).allDone = true := by
  apply fair_termination (Inv.init fixed kinds renegs) rounds
  · intro r hr t ht
    have : (initOf kinds renegs).threads.length = kinds.length := by simp [initOf]
    rw [this] at ht
    exact hfair r hr t ht
  · exact Nat.le_trans (mu_init_le kinds renegs) hlen

/-! ## T5 the code as found: a Write on a healthy connection returns alertInternalError -/

set_option maxRecDepth 8192

/-- one goroutine in Write (0), one in Read (1), the peer asks for one renegotiation. Write's Handshake() returns
    (3 actions), Read takes the HelloRequest, locks handshakeMutex and clears handshakeStatus (3 actions), Write
    locks c.out, tests handshakeComplete() and returns alertInternalError (3 actions); the renegotiation then
    completes normally. Nothing was written for the Write. -/
theorem old_write_internal_error_witness :
    let s := run false (init 1 1) [0, 0, 0, 1, 1, 1, 0, 0, 0, 1, 1, 1, 1, 1, 1, 1, 1]
    s.outcomes = [some .internalError, none] ∧ s.allDone = true ∧ s.appRecords = 0 ∧ s.renegsDone = 1 := by
  decide

/-- the same schedule on the repaired code: the Write waits for the renegotiation and is delivered -/
example :
    let s := run true (init 1 1) ([0, 0, 0, 1, 1, 1, 0, 0, 0, 1, 1, 1, 1, 1, 1, 1, 1] ++ [0, 0, 0, 0, 0, 0, 0, 0])
    s.outcomes = [some .ok, none] ∧ s.allDone = true ∧ s.appRecords = 1 ∧ s.renegsDone = 1 := by
  decide

/-- non-vacuity of the universally quantified theorems: 2 Writes, 2 renegotiations, an interleaved schedule that
    finishes everything with both Writes delivered, one of them after going round the loop -/
example :
    let s := run true (init 2 2)
      ([0, 0, 0, 2, 2, 2, 0, 0, 0, 1, 2, 2, 2, 2, 2, 2, 1, 1, 1, 1, 1, 1, 1] ++ List.replicate 12 2 ++ List.replicate 8 0)
    s.outcomes = [some .ok, some .ok, none] ∧ s.allDone = true ∧ s.appRecords = 2 ∧ s.renegsDone = 2 := by
  decide

/-- the hypotheses of `progress` are satisfiable: 2 Writes + the Read, 2 renegotiations, round robin -/
example : (run true (init 2 2) (List.replicate 40 [0, 1, 2]).flatten).allDone = true ∧
    (run true (init 2 2) (List.replicate 40 [0, 1, 2]).flatten).appRecords = 2 := by decide

end Props.C20Reneg
