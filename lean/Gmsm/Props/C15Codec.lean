/-
C15 (codec part) — the byte-level handshake message codecs of gmtls/handshake_messages.go and
gm_handshake_messages.go.  Theorems about `Model.TLSMessages`, which is tied to the Go code by the `hsmsg` op
(harness/c15codec.go, Driver/TLSMessages.lean: parsed fields and re-marshalled bytes compared line by line).

Per message X:
  * `unmarshalX_iff`            exactly which byte strings `unmarshal` accepts and what it returns for them
                                (`unmarshalX b = some v ↔ …`): which bytes are checked, which are ignored;
  * `unmarshalX_marshalX`       `unmarshal` reads back what `marshal` wrote, for every value inside the ranges
                                of the length fields (`WFX`);
  * `marshalX_unmarshalX`       what is accepted is, apart from the bytes the parser ignores, what `marshal`
                                writes for the returned value (canonical encoding);
  * `unmarshalX_total_bounds`   whatever is returned lies inside the input: every returned byte string is
                                shorter than the input by at least the bytes in front of it (so a length field
                                never makes the parser claim bytes that are not there; in Lean the parser is total
                                by construction, `none` standing for `return false`);
  * `unmarshalX_no_trailing`    where the parser is strict: an accepted message followed by anything is rejected;
                                where it is not (`finishedMsg`, `serverKeyExchangeMsg`, a `certificateStatusMsg`
                                of a type other than OCSP) the tolerance is stated as a theorem as well.
`certificateMsg` additionally: `no_stray_bytes`.
The two hello messages (`clientHelloMsg`, `serverHelloMsg`; not canonical: unknown extensions are skipped, known
ones may repeat, the header is ignored) have `unmarshalX_total_bounds` (`BoundedClientHello` /
`BoundedServerHello`) and `unmarshalX_marshalX` for every value in `WFClientHello` / `WFServerHello`, through
all ten / six extensions the code writes; an exact characterisation of the accepted byte strings is not given
for them as a whole (for the server_name and status_request extensions of a ClientHello, whose inner length fields
are checked to the last byte since the repair of `clientHelloMsg.unmarshal`, it is: Props.C15Strict,
`chExtension_sni_iff`, `chExtension_ocsp_iff`).
-/
import Gmsm.Model.TLSMessages
namespace Props.C15Codec
open Gmsm Model.TLSMessages

-- numbers and byte lists ------------------------------------------------------------------------------------

theorem ofNat_toNat8 (a : Byte) : BitVec.ofNat 8 a.toNat = a := by
  apply BitVec.eq_of_toNat_eq; simp

theorem toNat_ofNat8 (n : Nat) (h : n < 256) : (BitVec.ofNat 8 n).toNat = n := by
  simp only [BitVec.toNat_ofNat]; omega

theorem put8_toNat (a : Byte) : put8 a.toNat = [a] := by
  unfold put8; rw [ofNat_toNat8]

theorem byte_lt (a : Byte) : a.toNat < 256 := a.isLt

theorem put16_get16 (a b : Byte) : put16 (get16 a b) = [a, b] := by
  have ha := a.isLt
  have hb := b.isLt
  unfold put16 get16
  have e1 : (a.toNat * 256 + b.toNat) / 256 = a.toNat := by omega
  have e2 : BitVec.ofNat 8 (a.toNat * 256 + b.toNat) = b := by
    apply BitVec.eq_of_toNat_eq; simp only [BitVec.toNat_ofNat]; omega
  rw [e1, e2, ofNat_toNat8]

theorem get16_put16 (n : Nat) (h : n < 65536) : get16 (BitVec.ofNat 8 (n / 256)) (BitVec.ofNat 8 n) = n := by
  unfold get16; simp only [BitVec.toNat_ofNat]; omega

theorem get16_lt (a b : Byte) : get16 a b < 65536 := by
  have ha := a.isLt
  have hb := b.isLt
  unfold get16; omega

theorem put24_get24 (a b c : Byte) : put24 (get24 a b c) = [a, b, c] := by
  have ha := a.isLt
  have hb := b.isLt
  have hc := c.isLt
  unfold put24 get24
  have e1 : (a.toNat * 65536 + b.toNat * 256 + c.toNat) / 65536 = a.toNat := by omega
  have e2 : BitVec.ofNat 8 ((a.toNat * 65536 + b.toNat * 256 + c.toNat) / 256) = b := by
    apply BitVec.eq_of_toNat_eq; simp only [BitVec.toNat_ofNat]; omega
  have e3 : BitVec.ofNat 8 (a.toNat * 65536 + b.toNat * 256 + c.toNat) = c := by
    apply BitVec.eq_of_toNat_eq; simp only [BitVec.toNat_ofNat]; omega
  rw [e1, e2, e3, ofNat_toNat8]

theorem get24_put24 (n : Nat) (h : n < 16777216) :
    get24 (BitVec.ofNat 8 (n / 65536)) (BitVec.ofNat 8 (n / 256)) (BitVec.ofNat 8 n) = n := by
  unfold get24; simp only [BitVec.toNat_ofNat]; omega

theorem get24_lt (a b c : Byte) : get24 a b c < 16777216 := by
  have ha := a.isLt
  have hb := b.isLt
  have hc := c.isLt
  unfold get24; omega

theorem split1 (d : Bytes) (h : 1 ≤ d.length) : ∃ a r, d = a :: r := by
  rcases d with _ | ⟨a, r⟩
  · simp at h
  · exact ⟨a, r, rfl⟩

theorem split2 (d : Bytes) (h : 2 ≤ d.length) : ∃ a b r, d = a :: b :: r := by
  obtain ⟨a, r, rfl⟩ := split1 d (by omega)
  obtain ⟨b, r, rfl⟩ := split1 r (by simp only [List.length_cons] at h; omega)
  exact ⟨a, b, r, rfl⟩

theorem split3 (d : Bytes) (h : 3 ≤ d.length) : ∃ a b c r, d = a :: b :: c :: r := by
  obtain ⟨a, r, rfl⟩ := split1 d (by omega)
  obtain ⟨b, c, r, rfl⟩ := split2 r (by simp only [List.length_cons] at h; omega)
  exact ⟨a, b, c, r, rfl⟩

theorem split4 (d : Bytes) (h : 4 ≤ d.length) : ∃ a b c e r, d = a :: b :: c :: e :: r := by
  obtain ⟨a, r, rfl⟩ := split1 d (by omega)
  obtain ⟨b, c, e, r, rfl⟩ := split3 r (by simp only [List.length_cons] at h; omega)
  exact ⟨a, b, c, e, r, rfl⟩

/-- the simp set that evaluates `getD`, `drop`, `length` on explicit cons cells -/
macro "bsimp" : tactic => `(tactic| simp only [List.getD_eq_getElem?_getD, List.getElem?_cons_zero,
  List.getElem?_cons_succ, Option.getD_some, List.drop_succ_cons, List.drop_zero, List.length_cons,
  List.cons_append, List.nil_append, List.take_succ_cons, List.take_zero, List.length_nil])
macro "bsimp" " at " h:ident : tactic => `(tactic| simp only [List.getD_eq_getElem?_getD, List.getElem?_cons_zero,
  List.getElem?_cons_succ, Option.getD_some, List.drop_succ_cons, List.drop_zero, List.length_cons,
  List.cons_append, List.nil_append, List.take_succ_cons, List.take_zero, List.length_nil] at $h:ident)

-- serverKeyExchange
/-- `serverKeyExchangeMsg.unmarshal` accepts every input of at least 4 bytes and returns everything after the
    first four, which it does not look at (neither the type nor the 24-bit length). -/
theorem unmarshalServerKeyExchange_iff (b : Bytes) (v : ServerKeyExchangeMsg) :
    unmarshalServerKeyExchange b = some v ↔ ∃ h : Bytes, h.length = 4 ∧ b = h ++ v.key := by
  unfold unmarshalServerKeyExchange
  constructor
  · intro h
    split at h
    · simp at h
    · rename_i h4
      cases h
      exact ⟨b.take 4, by rw [List.length_take]; omega, (List.take_append_drop 4 b).symm⟩
  · rintro ⟨h, h4, rfl⟩
    rw [if_neg (by simp only [List.length_append]; omega)]
    have : List.drop 4 (h ++ v.key) = v.key := by rw [← h4, List.drop_left]
    rw [this]

/-- round trip, for every key (the header `marshal` writes is not read back, so not even its 24-bit range matters) -/
theorem unmarshalServerKeyExchange_marshalServerKeyExchange (v : ServerKeyExchangeMsg) :
    unmarshalServerKeyExchange (marshalServerKeyExchange v) = some v := by
  rw [unmarshalServerKeyExchange_iff]
  exact ⟨[12] ++ put24 v.key.length, rfl, by simp [marshalServerKeyExchange]⟩


/-- the key is the input without its 4-byte header -/
theorem unmarshalServerKeyExchange_total_bounds (b : Bytes) (v : ServerKeyExchangeMsg)
    (h : unmarshalServerKeyExchange b = some v) : v.key.length + 4 = b.length := by
  obtain ⟨hd, h4, rfl⟩ := (unmarshalServerKeyExchange_iff b v).mp h
  simp only [List.length_append]; omega

-- finished
/-- `finishedMsg.unmarshal` accepts every input of at least 4 bytes; the verify data is everything after the
    header, whatever the header says -/
theorem unmarshalFinished_iff (b : Bytes) (v : FinishedMsg) :
    unmarshalFinished b = some v ↔ ∃ h : Bytes, h.length = 4 ∧ b = h ++ v.verifyData := by
  unfold unmarshalFinished
  constructor
  · intro h
    split at h
    · simp at h
    · rename_i h4
      cases h
      exact ⟨b.take 4, by rw [List.length_take]; omega, (List.take_append_drop 4 b).symm⟩
  · rintro ⟨h, h4, rfl⟩
    rw [if_neg (by simp only [List.length_append]; omega)]
    have : List.drop 4 (h ++ v.verifyData) = v.verifyData := by rw [← h4, List.drop_left]
    rw [this]

/-- round trip, for every verify data -/
theorem unmarshalFinished_marshalFinished (v : FinishedMsg) : unmarshalFinished (marshalFinished v) = some v := by
  rw [unmarshalFinished_iff]
  exact ⟨[20, 0, 0] ++ put8 v.verifyData.length, rfl, by simp [marshalFinished]⟩

/-- the verify data is the input without its 4-byte header -/
theorem unmarshalFinished_total_bounds (b : Bytes) (v : FinishedMsg) (h : unmarshalFinished b = some v) :
    v.verifyData.length + 4 = b.length := by
  obtain ⟨hd, h4, rfl⟩ := (unmarshalFinished_iff b v).mp h
  simp only [List.length_append]; omega

/-- the tolerance of `finishedMsg.unmarshal` stated outright: there is no length check, bytes after the 12
    (or 36) expected ones are part of `verifyData` (the caller compares it with the expected value, length
    included) -/
theorem unmarshalFinished_any_tail (b : Bytes) (h : 4 ≤ b.length) : unmarshalFinished b = some ⟨b.drop 4⟩ := by
  unfold unmarshalFinished; rw [if_neg (by omega)]

-- clientKeyExchange
/-- `clientKeyExchangeMsg.unmarshal` accepts exactly: any type byte, the 24-bit length of the rest, the rest -/
theorem unmarshalClientKeyExchange_iff (b : Bytes) (v : ClientKeyExchangeMsg) :
    unmarshalClientKeyExchange b = some v ↔
      v.ciphertext.length < 16777216 ∧ ∃ t : Byte, b = t :: (put24 v.ciphertext.length ++ v.ciphertext) := by
  unfold unmarshalClientKeyExchange
  constructor
  · intro h
    split at h
    · simp at h
    · rename_i h4
      obtain ⟨t, b1, b2, b3, r, rfl⟩ := split4 b (by omega)
      bsimp at h
      split at h
      · simp at h
      · rename_i hl
        cases h
        have e : get24 b1 b2 b3 = r.length := by omega
        refine ⟨e ▸ get24_lt b1 b2 b3, t, ?_⟩
        show _ = t :: (put24 r.length ++ r)
        rw [← e, put24_get24]; rfl
  · rintro ⟨hl, t, rfl⟩
    simp only [put24]
    bsimp
    rw [get24_put24 _ hl, if_neg (by omega), if_neg (by omega)]

/-- round trip for ciphertexts shorter than 2^24 bytes -/
theorem unmarshalClientKeyExchange_marshalClientKeyExchange (v : ClientKeyExchangeMsg) (h : v.ciphertext.length < 16777216) :
    unmarshalClientKeyExchange (marshalClientKeyExchange v) = some v := by
  rw [unmarshalClientKeyExchange_iff]
  exact ⟨h, 16, rfl⟩

/-- canonical: an accepted message is what `marshal` writes for the returned value, up to the type byte -/
theorem marshalClientKeyExchange_unmarshalClientKeyExchange (b : Bytes) (v : ClientKeyExchangeMsg)
    (h : unmarshalClientKeyExchange b = some v) : ∃ t : Byte, b = t :: (marshalClientKeyExchange v).tail := by
  obtain ⟨_, t, rfl⟩ := (unmarshalClientKeyExchange_iff b v).mp h
  exact ⟨t, rfl⟩

/-- the ciphertext is the input without its 4-byte header -/
theorem unmarshalClientKeyExchange_total_bounds (b : Bytes) (v : ClientKeyExchangeMsg)
    (h : unmarshalClientKeyExchange b = some v) : v.ciphertext.length + 4 = b.length := by
  obtain ⟨_, t, rfl⟩ := (unmarshalClientKeyExchange_iff b v).mp h
  simp only [put24, List.length_append, List.length_cons, List.length_nil]; omega

/-- strict: an accepted message followed by anything is rejected -/
theorem unmarshalClientKeyExchange_no_trailing (b t : Bytes) (v : ClientKeyExchangeMsg)
    (h : unmarshalClientKeyExchange b = some v) (ht : t ≠ []) : unmarshalClientKeyExchange (b ++ t) = none := by
  obtain ⟨hl, ty, rfl⟩ := (unmarshalClientKeyExchange_iff b v).mp h
  have : t.length ≠ 0 := by simpa using ht
  simp only [unmarshalClientKeyExchange, put24]
  bsimp
  rw [get24_put24 _ hl, if_neg (by omega), if_pos (by simp only [List.length_append]; omega)]

-- serverHelloDone, helloRequest
/-- `return len(data) == 4`: the four bytes themselves are not looked at -/
theorem unmarshalServerHelloDone_iff (b : Bytes) (v : ServerHelloDoneMsg) :
    unmarshalServerHelloDone b = some v ↔ b.length = 4 := by
  unfold unmarshalServerHelloDone
  constructor
  · intro h; split at h
    · assumption
    · simp at h
  · intro h; rw [if_pos h]

theorem unmarshalServerHelloDone_marshalServerHelloDone (v : ServerHelloDoneMsg) :
    unmarshalServerHelloDone (marshalServerHelloDone v) = some v := by
  rw [unmarshalServerHelloDone_iff]; rfl

/-- `return len(data) == 4`: the four bytes themselves are not looked at -/
theorem unmarshalHelloRequest_iff (b : Bytes) (v : HelloRequestMsg) :
    unmarshalHelloRequest b = some v ↔ b.length = 4 := by
  unfold unmarshalHelloRequest
  constructor
  · intro h; split at h
    · assumption
    · simp at h
  · intro h; rw [if_pos h]

theorem unmarshalHelloRequest_marshalHelloRequest (v : HelloRequestMsg) :
    unmarshalHelloRequest (marshalHelloRequest v) = some v := by
  rw [unmarshalHelloRequest_iff]; rfl


theorem len4 (h : Bytes) (h4 : h.length = 4) : ∃ a b c d, h = [a, b, c, d] := by
  obtain ⟨a, b, c, d, r, rfl⟩ := split4 h (by omega)
  simp only [List.length_cons] at h4
  have : r = [] := List.eq_nil_of_length_eq_zero (by omega)
  subst this
  exact ⟨a, b, c, d, rfl⟩

theorem take_drop_len (d : Bytes) (n : Nat) (h : n ≤ d.length) : (d.take n).length = n := by
  rw [List.length_take]; omega

-- certificateVerify
def WFCertificateVerify (v : CertificateVerifyMsg) : Prop :=
  v.signatureAlgorithm < 65536 ∧ (v.hasSignatureAndHash = false → v.signatureAlgorithm = 0) ∧ v.signature.length < 65536

/-- `certificateVerifyMsg.unmarshal` in both layouts accepts exactly what `marshal` writes for a signature
    shorter than 2^16 bytes (and a 16-bit algorithm number in the TLS 1.2 layout), with any type byte -/
theorem unmarshalCertificateVerify_iff (sh : Bool) (b : Bytes) (v : CertificateVerifyMsg) :
    unmarshalCertificateVerify sh b = some v ↔
      v.hasSignatureAndHash = sh ∧ WFCertificateVerify v ∧ ∃ t : Byte, b = t :: (marshalCertificateVerify v).tail := by
  unfold unmarshalCertificateVerify WFCertificateVerify
  constructor
  · intro h
    split at h
    · simp at h
    · rename_i h6
      obtain ⟨t, l1, l2, l3, r, rfl⟩ := split4 b (by omega)
      obtain ⟨a1, a2, r, rfl⟩ := split2 r (by simp only [List.length_cons] at h6; omega)
      bsimp at h
      split at h
      · simp at h
      · rename_i hl
        cases sh
        · simp only [Bool.false_eq_true, if_false] at h
          bsimp at h
          rw [if_neg (by omega)] at h
          split at h
          · simp at h
          · rename_i hs
            cases h
            have e : get24 l1 l2 l3 = 2 + r.length := by omega
            have e2 : get16 a1 a2 = r.length := by omega
            refine ⟨rfl, ⟨by show (0 : Nat) < 65536; omega, fun _ => rfl, e2 ▸ get16_lt a1 a2⟩, t, ?_⟩
            simp only [marshalCertificateVerify, Bool.false_eq_true, if_false, List.nil_append, List.cons_append,
              List.tail_cons]
            rw [← e, put24_get24, ← e2, put16_get16]; rfl
        · simp only [eq_self, ↓reduceIte] at h
          split at h
          · simp at h
          · rename_i h2
            obtain ⟨s1, s2, r, rfl⟩ := split2 r (by omega)
            bsimp at h
            split at h
            · simp at h
            · rename_i hs
              cases h
              have e : get24 l1 l2 l3 = 2 + r.length + 2 := by simp only [List.length_cons] at hl; omega
              have e2 : get16 s1 s2 = r.length := by omega
              refine ⟨rfl, ⟨get16_lt a1 a2, by simp, e2 ▸ get16_lt s1 s2⟩, t, ?_⟩
              simp only [marshalCertificateVerify, eq_self, ↓reduceIte, List.nil_append, List.cons_append, List.tail_cons]
              rw [← e, put24_get24, ← e2, put16_get16, put16_get16]; rfl
  · rintro ⟨rfl, ⟨ha, h0, hs⟩, t, rfl⟩
    obtain ⟨sh, alg, sig⟩ := v
    simp only at ha h0 hs
    cases sh
    · have := h0 rfl
      subst this
      simp only [marshalCertificateVerify, put24, put16, Bool.false_eq_true, if_false, List.nil_append,
        List.cons_append, List.tail_cons]
      bsimp
      rw [get24_put24 _ (by omega), get16_put16 _ hs, if_neg (by omega), if_neg (by omega), if_neg (by omega),
        if_neg (by omega)]
    · simp only [marshalCertificateVerify, put24, put16, eq_self, ↓reduceIte, List.nil_append,
        List.cons_append, List.tail_cons]
      bsimp
      rw [get24_put24 _ (by omega), get16_put16 _ hs, get16_put16 _ ha, if_neg (by omega), if_neg (by omega),
        if_neg (by omega), if_neg (by omega)]


/-- round trip in the layout of the value -/
theorem unmarshalCertificateVerify_marshalCertificateVerify (v : CertificateVerifyMsg) (h : WFCertificateVerify v) :
    unmarshalCertificateVerify v.hasSignatureAndHash (marshalCertificateVerify v) = some v := by
  rw [unmarshalCertificateVerify_iff]
  exact ⟨rfl, h, 15, rfl⟩

/-- canonical up to the type byte -/
theorem marshalCertificateVerify_unmarshalCertificateVerify (sh : Bool) (b : Bytes) (v : CertificateVerifyMsg)
    (h : unmarshalCertificateVerify sh b = some v) : ∃ t : Byte, b = t :: (marshalCertificateVerify v).tail :=
  ((unmarshalCertificateVerify_iff sh b v).mp h).2.2

theorem marshalCertificateVerify_length (v : CertificateVerifyMsg) :
    (marshalCertificateVerify v).length = v.signature.length + (if v.hasSignatureAndHash then 8 else 6) := by
  unfold marshalCertificateVerify
  cases v.hasSignatureAndHash <;>
    simp only [put24, put16, List.length_append, List.length_cons, List.length_nil, Bool.false_eq_true, if_false, if_true] <;> omega

/-- the signature is the input without the 6 (8 in the TLS 1.2 layout) bytes in front of it -/
theorem unmarshalCertificateVerify_total_bounds (sh : Bool) (b : Bytes) (v : CertificateVerifyMsg)
    (h : unmarshalCertificateVerify sh b = some v) : v.signature.length + (if sh then 8 else 6) = b.length := by
  obtain ⟨rfl, _, t, rfl⟩ := (unmarshalCertificateVerify_iff sh b v).mp h
  have := marshalCertificateVerify_length v
  have h2 : (marshalCertificateVerify v).length = (marshalCertificateVerify v).tail.length + 1 := by
    unfold marshalCertificateVerify; simp
  simp only [List.length_cons]; omega

/-- strict: an accepted message followed by anything is rejected -/
theorem unmarshalCertificateVerify_no_trailing (sh : Bool) (b t : Bytes) (v : CertificateVerifyMsg)
    (h : unmarshalCertificateVerify sh b = some v) (ht : t ≠ []) : unmarshalCertificateVerify sh (b ++ t) = none := by
  obtain ⟨rfl, ⟨_, _, hs⟩, t0, rfl⟩ := (unmarshalCertificateVerify_iff sh b v).mp h
  have : t.length ≠ 0 := by simpa using ht
  obtain ⟨sh, alg, sig⟩ := v
  simp only at hs
  cases sh <;>
  · simp only [unmarshalCertificateVerify, marshalCertificateVerify, put24, put16, Bool.false_eq_true, if_false, if_true,
      List.nil_append, List.cons_append, List.tail_cons]
    bsimp
    rw [get24_put24 _ (by omega), if_neg (by omega), if_pos (by simp only [List.length_append]; omega)]


-- newSessionTicket
/-- `newSessionTicketMsg.unmarshal` accepts exactly: any type byte, the 24-bit length, any four bytes of lifetime
    hint (not looked at), the 16-bit ticket length, the ticket -/
theorem unmarshalNewSessionTicket_iff (b : Bytes) (v : NewSessionTicketMsg) :
    unmarshalNewSessionTicket b = some v ↔
      v.ticket.length < 65536 ∧ ∃ (t : Byte) (hint : Bytes), hint.length = 4 ∧
        b = t :: (put24 (2 + 4 + v.ticket.length) ++ (hint ++ (put16 v.ticket.length ++ v.ticket))) := by
  unfold unmarshalNewSessionTicket
  constructor
  · intro h
    split at h
    · simp at h
    · rename_i h10
      obtain ⟨t, l1, l2, l3, r, rfl⟩ := split4 b (by omega)
      obtain ⟨h1, h2, h3, h4, r, rfl⟩ := split4 r (by simp only [List.length_cons] at h10; omega)
      obtain ⟨s1, s2, r, rfl⟩ := split2 r (by simp only [List.length_cons] at h10; omega)
      bsimp at h
      split at h
      · simp at h
      · rename_i hl
        split at h
        · simp at h
        · rename_i hs
          cases h
          have e : get24 l1 l2 l3 = 2 + 4 + r.length := by omega
          have e2 : get16 s1 s2 = r.length := by omega
          refine ⟨e2 ▸ get16_lt s1 s2, t, [h1, h2, h3, h4], rfl, ?_⟩
          show _ = t :: (put24 (2 + 4 + r.length) ++ ([h1, h2, h3, h4] ++ (put16 r.length ++ r)))
          rw [← e, put24_get24, ← e2, put16_get16]; rfl
  · rintro ⟨hs, t, hint, h4, rfl⟩
    obtain ⟨h1, h2, h3, h4, rfl⟩ := len4 hint h4
    simp only [put24, put16]
    bsimp
    rw [get24_put24 _ (by omega), get16_put16 _ hs, if_neg (by omega), if_neg (by omega), if_neg (by omega)]

/-- round trip for tickets shorter than 2^16 bytes -/
theorem unmarshalNewSessionTicket_marshalNewSessionTicket (v : NewSessionTicketMsg) (h : v.ticket.length < 65536) :
    unmarshalNewSessionTicket (marshalNewSessionTicket v) = some v := by
  rw [unmarshalNewSessionTicket_iff]
  exact ⟨h, 4, [0, 0, 0, 0], rfl, rfl⟩

/-- the ticket is the input without the 10 bytes in front of it -/
theorem unmarshalNewSessionTicket_total_bounds (b : Bytes) (v : NewSessionTicketMsg)
    (h : unmarshalNewSessionTicket b = some v) : v.ticket.length + 10 = b.length := by
  obtain ⟨_, t, hint, h4, rfl⟩ := (unmarshalNewSessionTicket_iff b v).mp h
  simp only [put24, put16, List.length_append, List.length_cons, List.length_nil]; omega

/-- strict: an accepted message followed by anything is rejected -/
theorem unmarshalNewSessionTicket_no_trailing (b t : Bytes) (v : NewSessionTicketMsg)
    (h : unmarshalNewSessionTicket b = some v) (ht : t ≠ []) : unmarshalNewSessionTicket (b ++ t) = none := by
  obtain ⟨hs, t0, hint, h4, rfl⟩ := (unmarshalNewSessionTicket_iff b v).mp h
  obtain ⟨h1, h2, h3, h4, rfl⟩ := len4 hint h4
  have : t.length ≠ 0 := by simpa using ht
  simp only [unmarshalNewSessionTicket, put24, put16]
  bsimp
  rw [get24_put24 _ (by omega), if_neg (by omega), if_pos (by simp only [List.length_append]; omega)]

-- certificateStatus
/-- `certificateStatusMsg.unmarshal`: status type OCSP (1) with a 24-bit length that covers exactly the rest; any
    other status type with ANY bytes after it, which are dropped.  The 4-byte header is not looked at. -/
theorem unmarshalCertificateStatus_iff (b : Bytes) (v : CertificateStatusMsg) :
    unmarshalCertificateStatus b = some v ↔
      (v.statusType = 1 ∧ v.response.length < 16777216 ∧ ∃ h : Bytes, h.length = 4 ∧
        b = h ++ ([1] ++ (put24 v.response.length ++ v.response))) ∨
      (v.statusType ≠ 1 ∧ v.statusType < 256 ∧ v.response = [] ∧ ∃ h rest : Bytes, h.length = 4 ∧
        b = h ++ (put8 v.statusType ++ rest)) := by
  unfold unmarshalCertificateStatus
  constructor
  · intro h
    split at h
    · simp at h
    · rename_i h5
      obtain ⟨h0, h1, h2, h3, r, rfl⟩ := split4 b (by omega)
      obtain ⟨st, r, rfl⟩ := split1 r (by simp only [List.length_cons] at h5; omega)
      bsimp at h
      split at h
      · rename_i hst
        split at h
        · simp at h
        · rename_i h8
          obtain ⟨l1, l2, l3, r, rfl⟩ := split3 r (by omega)
          bsimp at h
          split at h
          · simp at h
          · rename_i hl
            cases h
            have e : get24 l1 l2 l3 = r.length := by omega
            have e1 : st = 1 := by
              apply BitVec.eq_of_toNat_eq; simpa using hst
            refine Or.inl ⟨hst, e ▸ get24_lt l1 l2 l3, [h0, h1, h2, h3], rfl, ?_⟩
            show _ = [h0, h1, h2, h3] ++ ([1] ++ (put24 r.length ++ r))
            rw [← e, put24_get24, e1]; rfl
      · rename_i hst
        cases h
        refine Or.inr ⟨hst, st.isLt, rfl, [h0, h1, h2, h3], r, rfl, ?_⟩
        show _ = [h0, h1, h2, h3] ++ (put8 st.toNat ++ r)
        rw [put8_toNat]; rfl
  · rintro (⟨hst, hl, h, h4, rfl⟩ | ⟨hst, h256, hr, h, rest, h4, rfl⟩)
    · obtain ⟨h0, h1, h2, h3, rfl⟩ := len4 h h4
      obtain ⟨st, resp⟩ := v
      simp only at hst hl
      subst hst
      simp only [put24]
      bsimp
      have : (1 : Byte).toNat = 1 := rfl
      rw [this, get24_put24 _ hl, if_neg (by omega), if_pos rfl, if_neg (by omega), if_neg (by omega)]
    · obtain ⟨h0, h1, h2, h3, rfl⟩ := len4 h h4
      obtain ⟨st, resp⟩ := v
      simp only at hst h256 hr
      subst hr
      simp only [put8]
      bsimp
      rw [toNat_ofNat8 _ h256, if_neg (by omega), if_neg hst]

def WFCertificateStatus (v : CertificateStatusMsg) : Prop :=
  v.statusType < 256 ∧ (v.statusType = 1 → v.response.length < 16777216) ∧ (v.statusType ≠ 1 → v.response = [])

/-- round trip for what `marshal` can express: an OCSP response shorter than 2^24 bytes, or another status type
    with no response -/
theorem unmarshalCertificateStatus_marshalCertificateStatus (v : CertificateStatusMsg) (h : WFCertificateStatus v) :
    unmarshalCertificateStatus (marshalCertificateStatus v) = some v := by
  rw [unmarshalCertificateStatus_iff]
  obtain ⟨h1, h2, h3⟩ := h
  unfold marshalCertificateStatus
  by_cases hst : v.statusType = 1
  · rw [if_pos hst]
    refine Or.inl ⟨hst, h2 hst, [22] ++ put24 (v.response.length + 4), rfl, ?_⟩
    simp only [Nat.add_sub_cancel, List.append_assoc]
  · rw [if_neg hst]
    exact Or.inr ⟨hst, h1, h3 hst, [22, 0, 0, 1], [], rfl, by simp⟩

/-- what is returned is always inside those ranges -/
theorem unmarshalCertificateStatus_wf (b : Bytes) (v : CertificateStatusMsg)
    (h : unmarshalCertificateStatus b = some v) : WFCertificateStatus v := by
  rcases (unmarshalCertificateStatus_iff b v).mp h with ⟨h1, h2, _⟩ | ⟨h1, h2, h3, _⟩
  · exact ⟨by omega, fun _ => h2, fun hn => absurd h1 hn⟩
  · exact ⟨h2, fun hn => absurd hn h1, fun _ => h3⟩

/-- the response lies inside the input, after the 5 bytes in front of it -/
theorem unmarshalCertificateStatus_total_bounds (b : Bytes) (v : CertificateStatusMsg)
    (h : unmarshalCertificateStatus b = some v) : v.response.length + 5 ≤ b.length := by
  rcases (unmarshalCertificateStatus_iff b v).mp h with ⟨_, _, hd, h4, rfl⟩ | ⟨_, _, h3, hd, rest, h4, rfl⟩
  · simp only [put24, List.length_append, List.length_cons, List.length_nil]; omega
  · rw [h3]; simp only [put8, List.length_append, List.length_cons, List.length_nil]; omega

/-- a status of type OCSP with anything appended is rejected, a status of another type accepts (and drops)
    whatever follows -/
theorem unmarshalCertificateStatus_ocsp_no_trailing (b t : Bytes) (v : CertificateStatusMsg)
    (h : unmarshalCertificateStatus b = some v) (h1 : v.statusType = 1) (ht : t ≠ []) :
    unmarshalCertificateStatus (b ++ t) = none := by
  have : t.length ≠ 0 := by simpa using ht
  rcases (unmarshalCertificateStatus_iff b v).mp h with ⟨_, hl, hd, h4, rfl⟩ | ⟨hn, _⟩
  · obtain ⟨h0, h1, h2, h3, rfl⟩ := len4 hd h4
    simp only [unmarshalCertificateStatus, put24]
    bsimp
    have e : (1 : Byte).toNat = 1 := rfl
    rw [e, get24_put24 _ hl, if_neg (by omega), if_pos rfl, if_neg (by omega),
      if_pos (by simp only [List.length_append]; omega)]
  · exact absurd h1 hn

theorem unmarshalCertificateStatus_other_trailing (b t : Bytes) (v : CertificateStatusMsg)
    (h : unmarshalCertificateStatus b = some v) (h1 : v.statusType ≠ 1) :
    unmarshalCertificateStatus (b ++ t) = some v := by
  rcases (unmarshalCertificateStatus_iff b v).mp h with ⟨hn, _⟩ | ⟨hn, h256, hr, hd, rest, h4, rfl⟩
  · exact absurd hn h1
  · rw [unmarshalCertificateStatus_iff]
    exact Or.inr ⟨hn, h256, hr, hd, rest ++ t, h4, by simp only [List.append_assoc]⟩


-- nextProto
/-- `nextProtoMsg.unmarshal` accepts exactly: four header bytes (not looked at), a length byte and the name, a
    length byte and that many padding bytes (contents not looked at) -/
theorem unmarshalNextProto_iff (b : Bytes) (v : NextProtoMsg) :
    unmarshalNextProto b = some v ↔
      v.proto.length < 256 ∧ ∃ h pad : Bytes, h.length = 4 ∧ pad.length < 256 ∧
        b = h ++ (put8 v.proto.length ++ (v.proto ++ (put8 pad.length ++ pad))) := by
  unfold unmarshalNextProto
  constructor
  · intro h
    split at h
    · simp at h
    · rename_i h5
      obtain ⟨h0, h1, h2, h3, r, rfl⟩ := split4 b (by omega)
      obtain ⟨pl, r, rfl⟩ := split1 r (by simp only [List.length_cons] at h5; omega)
      bsimp at h
      split at h
      · simp at h
      · rename_i hp
        split at h
        · simp at h
        · rename_i hge1
          generalize hr : List.drop pl.toNat r = r2 at h hge1
          obtain ⟨pd, pad, rfl⟩ := split1 r2 (by omega)
          bsimp at h
          split at h
          · simp at h
          · rename_i hpad
            cases h
            have e1 : (List.take pl.toNat r).length = pl.toNat := take_drop_len r _ (by omega)
            have e2 : pad.length = pd.toNat := by omega
            refine ⟨by rw [e1]; exact pl.isLt, [h0, h1, h2, h3], pad, rfl, by rw [e2]; exact pd.isLt, ?_⟩
            show _ = [h0, h1, h2, h3] ++ (put8 (List.take pl.toNat r).length ++ (List.take pl.toNat r ++ (put8 pad.length ++ pad)))
            rw [e1, e2, put8_toNat, put8_toNat]
            show _ = h0 :: h1 :: h2 :: h3 :: pl :: (List.take pl.toNat r ++ pd :: pad)
            rw [← hr, List.take_append_drop]
  · rintro ⟨hl, h, pad, h4, hp, rfl⟩
    obtain ⟨h0, h1, h2, h3, rfl⟩ := len4 h h4
    simp only [put8]
    bsimp
    rw [toNat_ofNat8 _ hl, if_neg (by omega), if_neg (by simp only [List.length_append, List.length_cons]; omega),
      List.drop_left, List.take_left]
    bsimp
    rw [toNat_ofNat8 _ hp, if_neg (by omega), if_neg (by omega)]

/-- round trip for names of at most 255 bytes (`marshal` cuts longer ones) -/
theorem unmarshalNextProto_marshalNextProto (v : NextProtoMsg) (h : v.proto.length < 256) :
    unmarshalNextProto (marshalNextProto v) = some v := by
  rw [unmarshalNextProto_iff]
  have hl : (if v.proto.length > 255 then 255 else v.proto.length) = v.proto.length := by
    rw [if_neg (by omega)]
  refine ⟨h, [67] ++ put24 (v.proto.length + (32 - (v.proto.length + 2) % 32) + 2),
    List.replicate (32 - (v.proto.length + 2) % 32) 0, rfl, by rw [List.length_replicate]; omega, ?_⟩
  simp only [marshalNextProto, hl, List.take_length, List.length_replicate, List.append_assoc]

/-- the name lies inside the input -/
theorem unmarshalNextProto_total_bounds (b : Bytes) (v : NextProtoMsg) (h : unmarshalNextProto b = some v) :
    v.proto.length + 6 ≤ b.length := by
  obtain ⟨_, hd, pad, h4, _, rfl⟩ := (unmarshalNextProto_iff b v).mp h
  simp only [put8, List.length_append, List.length_cons, List.length_nil]; omega

/-- strict about the end: an accepted message followed by anything is rejected -/
theorem unmarshalNextProto_no_trailing (b t : Bytes) (v : NextProtoMsg) (h : unmarshalNextProto b = some v)
    (ht : t ≠ []) : unmarshalNextProto (b ++ t) = none := by
  obtain ⟨hl, hd, pad, h4, hp, rfl⟩ := (unmarshalNextProto_iff b v).mp h
  obtain ⟨h0, h1, h2, h3, rfl⟩ := len4 hd h4
  have : t.length ≠ 0 := by simpa using ht
  simp only [unmarshalNextProto, put8, List.append_assoc]
  bsimp
  rw [toNat_ofNat8 _ hl, if_neg (by omega), if_neg (by simp only [List.length_append, List.length_cons]; omega),
    List.drop_left]
  bsimp
  rw [toNat_ofNat8 _ hp, if_neg (by omega), if_pos (by simp only [List.length_append]; omega)]


-- certificate
/-- the last certificate of the list, if there is one, is not empty -/
def lastNonempty : List Bytes → Prop
  | [] => True
  | [c] => c ≠ []
  | _ :: c2 :: cs => lastNonempty (c2 :: cs)

theorem certEntries_length (cs : List Bytes) : (certEntries cs).length = 3 * cs.length + totalLen cs := by
  induction cs with
  | nil => rfl
  | cons c cs ih => simp only [certEntries, put24, totalLen, List.length_append, List.length_cons, List.length_nil, ih]; omega

theorem mem_certEntries_length (cs : List Bytes) (c : Bytes) (h : c ∈ cs) : c.length + 3 ≤ (certEntries cs).length := by
  induction cs with
  | nil => simp at h
  | cons x xs ih =>
    simp only [certEntries, put24, List.length_append, List.length_cons, List.length_nil]
    rcases List.mem_cons.mp h with e | e
    · subst e; omega
    · have := ih e; omega

/-- the first loop of `certificateMsg.unmarshal` on a list area `d` shorter than 2^32 bytes, started with
    `certsLen = len(d)`: when it succeeds `d` is exactly the entries of the certificates the second loop then
    slices out, each shorter than 2^24 bytes, the last one not empty — and `certsLen -= 3 + certLen` never wrapped -/
theorem certCount_sound (fuel : Nat) (d : Bytes) (n : Nat) (hd : d.length < 4294967296)
    (h : certCount fuel d.length d = some n) :
    ∃ cs, cs.length = n ∧ certEntries cs = d ∧ (∀ c ∈ cs, c.length < 16777216) ∧ lastNonempty cs ∧
      certSlices n d = cs := by
  induction fuel generalizing d n with
  | zero => simp [certCount] at h
  | succ fuel ih =>
    unfold certCount at h
    split at h
    · rename_i hpos
      split at h
      · simp at h
      · rename_i h4
        obtain ⟨a, b, c, r, rfl⟩ := split3 d (by omega)
        bsimp at h
        split at h
        · simp at h
        · rename_i hl
          have hw : (r.length + 1 + 1 + 1 + 4294967296 - (3 + get24 a b c)) % 4294967296 =
              (List.drop (get24 a b c) r).length := by
            simp only [List.length_cons] at hd
            rw [List.length_drop]; omega
          have hdr : List.drop (3 + get24 a b c) (a :: b :: c :: r) = List.drop (get24 a b c) r := by
            rw [Nat.add_comm]; simp only [List.drop_succ_cons]
          rw [hw, hdr] at h
          split at h
          · rename_i n0 hrec
            cases h
            obtain ⟨cs, c1, c2, c3, c4, c5⟩ := ih _ _ (by simp only [List.length_cons] at hd; rw [List.length_drop]; omega) hrec
            have htl : (List.take (get24 a b c) r).length = get24 a b c := take_drop_len r _ (by omega)
            refine ⟨List.take (get24 a b c) r :: cs, by simp [c1], ?_, ?_, ?_, ?_⟩
            · simp only [certEntries, htl, put24_get24, c2, List.take_append_drop, List.cons_append, List.nil_append]
            · intro x hx
              rcases List.mem_cons.mp hx with e | e
              · rw [e, htl]; exact get24_lt a b c
              · exact c3 x e
            · cases cs with
              | nil =>
                simp only [certEntries] at c2
                have : (List.drop (get24 a b c) r).length = 0 := by rw [← c2]; rfl
                rw [List.length_drop] at this
                simp only [lastNonempty]
                intro he
                rw [he] at htl
                simp only [List.length_cons, List.length_nil] at h4 htl
                omega
              | cons c2 cs => exact c4
            · simp only [certSlices]
              bsimp
              rw [hdr, c5]
          · simp at h
    · rename_i hz
      cases h
      have : d = [] := List.eq_nil_of_length_eq_zero (by omega)
      subst this
      exact ⟨[], rfl, rfl, by simp, trivial, rfl⟩


theorem drop3 (a b c : Byte) (r : Bytes) (n : Nat) : List.drop (3 + n) (a :: b :: c :: r) = List.drop n r := by
  rw [Nat.add_comm]; simp only [List.drop_succ_cons]

/-- conversely the first loop accepts every such list -/
theorem certCount_complete (cs : List Bytes) (fuel : Nat) (hc : ∀ c ∈ cs, c.length < 16777216)
    (hl : lastNonempty cs) (hd : (certEntries cs).length < 4294967296) (hf : (certEntries cs).length < fuel) :
    certCount fuel (certEntries cs).length (certEntries cs) = some cs.length := by
  induction cs generalizing fuel with
  | nil =>
    cases fuel with
    | zero => exact absurd hf (Nat.not_lt_zero _)
    | succ fuel => simp [certCount, certEntries]
  | cons c cs ih =>
    cases fuel with
    | zero => exact absurd hf (Nat.not_lt_zero _)
    | succ fuel =>
      have hc0 : c.length < 16777216 := hc c (by simp)
      have hlen : (certEntries (c :: cs)).length = 3 + c.length + (certEntries cs).length := by
        simp only [certEntries, put24, List.length_append, List.length_cons, List.length_nil]; omega
      have h4 : 4 ≤ (certEntries (c :: cs)).length := by
        cases cs with
        | nil =>
          simp only [lastNonempty] at hl
          have : c.length ≠ 0 := fun h0 => hl (List.eq_nil_of_length_eq_zero h0)
          omega
        | cons c2 cs2 =>
          have : (certEntries (c2 :: cs2)).length = 3 + c2.length + (certEntries cs2).length := by
            simp only [certEntries, put24, List.length_append, List.length_cons, List.length_nil]; omega
          omega
      have hl2 : lastNonempty cs := by
        cases cs with
        | nil => trivial
        | cons c2 cs2 => exact hl
      have ih := ih fuel (fun x hx => hc x (by simp [hx])) hl2 (by omega) (by omega)
      unfold certCount
      rw [if_pos (by omega), if_neg (by omega)]
      have e : certEntries (c :: cs) = BitVec.ofNat 8 (c.length / 65536) :: BitVec.ofNat 8 (c.length / 256) ::
          BitVec.ofNat 8 c.length :: (c ++ certEntries cs) := rfl
      rw [hlen, e]
      bsimp
      rw [get24_put24 _ hc0, if_neg (by omega), drop3, List.drop_left]
      have hw : (3 + c.length + (certEntries cs).length + 4294967296 - (3 + c.length)) % 4294967296 =
          (certEntries cs).length := by omega
      rw [hw, ih]

theorem certSlices_entries (cs : List Bytes) (rest : Bytes) (hc : ∀ c ∈ cs, c.length < 16777216) :
    certSlices cs.length (certEntries cs ++ rest) = cs := by
  induction cs with
  | nil => rfl
  | cons c cs ih =>
    have hc0 : c.length < 16777216 := hc c (by simp)
    have ih := ih (fun x hx => hc x (by simp [hx]))
    simp only [List.length_cons, certSlices, certEntries, put24]
    bsimp
    rw [get24_put24 _ hc0, drop3, List.append_assoc, List.drop_left, List.take_left, ih]

/-- what `certificateMsg.unmarshal` accepts: every certificate shorter than 2^24 bytes, the whole list
    (3 length bytes per certificate included) shorter than 2^24 bytes, and the last certificate not empty -/
def WFCertificate (v : CertificateMsg) : Prop :=
  (∀ c ∈ v.certificates, c.length < 16777216) ∧ (certEntries v.certificates).length < 16777216 ∧
    lastNonempty v.certificates

/-- `certificateMsg.unmarshal` accepts exactly: four header bytes (NOT looked at: neither the type nor the
    24-bit message length), the 24-bit length of the list, which must be everything that follows, and the
    entries (24-bit length, certificate) of a list whose last certificate is not empty (an entry is only read
    when at least 4 bytes are left) -/
theorem unmarshalCertificate_iff (b : Bytes) (v : CertificateMsg) :
    unmarshalCertificate b = some v ↔
      WFCertificate v ∧ ∃ h : Bytes, h.length = 4 ∧
        b = h ++ (put24 (certEntries v.certificates).length ++ certEntries v.certificates) := by
  unfold unmarshalCertificate WFCertificate
  constructor
  · intro h
    split at h
    · simp at h
    · rename_i h7
      obtain ⟨h0, h1, h2, h3, r, rfl⟩ := split4 b (by omega)
      obtain ⟨l1, l2, l3, r, rfl⟩ := split3 r (by simp only [List.length_cons] at h7; omega)
      bsimp at h
      split at h
      · simp at h
      · rename_i hl
        have e : get24 l1 l2 l3 = r.length := by omega
        rw [e] at h
        split at h
        · simp at h
        · rename_i n hcnt
          cases h
          obtain ⟨cs, c1, c2, c3, c4, c5⟩ := certCount_sound _ r n (by have := get24_lt l1 l2 l3; omega) hcnt
          rw [c5]
          refine ⟨⟨c3, by rw [c2, ← e]; exact get24_lt l1 l2 l3, c4⟩, [h0, h1, h2, h3], rfl, ?_⟩
          show _ = [h0, h1, h2, h3] ++ (put24 (certEntries cs).length ++ certEntries cs)
          rw [c2, ← e, put24_get24]; rfl
  · rintro ⟨⟨hc, hl, hn⟩, h, h4, rfl⟩
    obtain ⟨h0, h1, h2, h3, rfl⟩ := len4 h h4
    obtain ⟨cs⟩ := v
    simp only at hc hl hn
    simp only [put24]
    bsimp
    rw [get24_put24 _ hl, if_neg (by omega), if_neg (by omega),
      certCount_complete cs _ hc hn (by omega) (by omega)]
    have := certSlices_entries cs [] hc
    rw [List.append_nil] at this
    simp only [this]

/-- `marshal` in terms of the entries: `length = 3 + len(entries)` -/
theorem marshalCertificate_eq (v : CertificateMsg) :
    marshalCertificate v = [11] ++ (put24 (3 + (certEntries v.certificates).length) ++
      (put24 (certEntries v.certificates).length ++ certEntries v.certificates)) := by
  have := certEntries_length v.certificates
  unfold marshalCertificate
  simp only
  rw [show 3 + 3 * v.certificates.length + totalLen v.certificates = 3 + (certEntries v.certificates).length by omega,
    show 3 + (certEntries v.certificates).length - 3 = (certEntries v.certificates).length by omega]

/-- round trip for every certificate list inside the 24-bit ranges whose last certificate is not empty (a list
    ending in an empty certificate is written by `marshal` and rejected by `unmarshal`: `example` below) -/
theorem unmarshalCertificate_marshalCertificate (v : CertificateMsg) (h : WFCertificate v) :
    unmarshalCertificate (marshalCertificate v) = some v := by
  rw [unmarshalCertificate_iff, marshalCertificate_eq]
  exact ⟨h, [11] ++ put24 (3 + (certEntries v.certificates).length), rfl, by simp only [List.append_assoc]⟩

/-- canonical: behind the four ignored header bytes an accepted message is byte for byte what `marshal` writes for
    the returned list -/
theorem marshalCertificate_unmarshalCertificate (b : Bytes) (v : CertificateMsg) (h : unmarshalCertificate b = some v) :
    b.drop 4 = (marshalCertificate v).drop 4 := by
  obtain ⟨_, hd, h4, rfl⟩ := (unmarshalCertificate_iff b v).mp h
  rw [List.drop_left' h4, marshalCertificate_eq]
  rfl

/-- every returned certificate lies inside the input, behind header, list length and its own length field -/
theorem unmarshalCertificate_total_bounds (b : Bytes) (v : CertificateMsg) (h : unmarshalCertificate b = some v) :
    ∀ c ∈ v.certificates, c.length + 10 ≤ b.length := by
  obtain ⟨_, hd, h4, rfl⟩ := (unmarshalCertificate_iff b v).mp h
  intro c hc
  have := mem_certEntries_length _ c hc
  simp only [put24, List.length_append, List.length_cons, List.length_nil]; omega

/-- the verdict and the result do not depend on the four header bytes -/
theorem unmarshalCertificate_header_ignored (h1 h2 r : Bytes) (e1 : h1.length = 4) (e2 : h2.length = 4) :
    unmarshalCertificate (h1 ++ r) = unmarshalCertificate (h2 ++ r) := by
  have key : ∀ (h1 h2 : Bytes), h1.length = 4 → h2.length = 4 → ∀ v, unmarshalCertificate (h1 ++ r) = some v →
      unmarshalCertificate (h2 ++ r) = some v := by
    intro h1 h2 e1 e2 v hv
    obtain ⟨wf, hd, h4, e⟩ := (unmarshalCertificate_iff _ v).mp hv
    have : r = put24 (certEntries v.certificates).length ++ certEntries v.certificates := by
      have := congrArg (List.drop 4) e
      rwa [← e1, List.drop_left, e1, ← h4, List.drop_left] at this
    exact (unmarshalCertificate_iff _ v).mpr ⟨wf, h2, e2, by rw [this]⟩
  cases hv : unmarshalCertificate (h1 ++ r) with
  | some v => exact (key h1 h2 e1 e2 v hv).symm
  | none =>
    cases hw : unmarshalCertificate (h2 ++ r) with
    | none => rfl
    | some w => rw [key h2 h1 e2 e1 w hw] at hv; cases hv

/-- strict: an accepted message followed by anything is rejected (the list length must cover the rest exactly) -/
theorem unmarshalCertificate_no_trailing (b t : Bytes) (v : CertificateMsg) (h : unmarshalCertificate b = some v)
    (ht : t ≠ []) : unmarshalCertificate (b ++ t) = none := by
  obtain ⟨⟨_, hl, _⟩, hd, h4, rfl⟩ := (unmarshalCertificate_iff b v).mp h
  obtain ⟨h0, h1, h2, h3, rfl⟩ := len4 hd h4
  have : t.length ≠ 0 := by simpa using ht
  simp only [unmarshalCertificate, put24]
  bsimp
  rw [get24_put24 _ hl, if_neg (by omega), if_pos (by simp only [List.length_append]; omega)]

theorem certCount_stray (cs : List Bytes) (s : Bytes) (fuel : Nat) (hc : ∀ c ∈ cs, c.length < 16777216)
    (h1 : 1 ≤ s.length) (h3 : s.length ≤ 3) (hd : (certEntries cs ++ s).length < 4294967296) :
    certCount fuel (certEntries cs ++ s).length (certEntries cs ++ s) = none := by
  induction cs generalizing fuel with
  | nil =>
    cases fuel with
    | zero => rfl
    | succ fuel =>
      simp only [certEntries, List.nil_append]
      unfold certCount
      rw [if_pos (by omega), if_pos (by omega)]
  | cons c cs ih =>
    cases fuel with
    | zero => rfl
    | succ fuel =>
      have hc0 : c.length < 16777216 := hc c (by simp)
      have hlen : (certEntries (c :: cs) ++ s).length = 3 + c.length + (certEntries cs ++ s).length := by
        simp only [certEntries, put24, List.length_append, List.length_cons, List.length_nil]; omega
      have ih := ih fuel (fun x hx => hc x (by simp [hx])) (by omega)
      unfold certCount
      rw [if_pos (by omega), if_neg (by simp only [List.length_append] at hlen ⊢; omega)]
      have e : certEntries (c :: cs) ++ s = BitVec.ofNat 8 (c.length / 65536) :: BitVec.ofNat 8 (c.length / 256) ::
          BitVec.ofNat 8 c.length :: (c ++ (certEntries cs ++ s)) := by
        simp only [certEntries, put24, List.cons_append, List.nil_append, List.append_assoc]
      rw [hlen, e]
      bsimp
      rw [get24_put24 _ hc0, if_neg (by omega), drop3, List.drop_left]
      have hw : (3 + c.length + (certEntries cs ++ s).length + 4294967296 - (3 + c.length)) % 4294967296 =
          (certEntries cs ++ s).length := by omega
      rw [hw, ih]

/-- `no_stray_bytes`: a certificate list whose entries are followed by one, two or three bytes that belong to
    no entry is rejected, also when the list length field and everything before it count those bytes in -/
theorem no_stray_bytes (h : Bytes) (cs : List Bytes) (s : Bytes) (h4 : h.length = 4)
    (hc : ∀ c ∈ cs, c.length < 16777216) (h1 : 1 ≤ s.length) (h3 : s.length ≤ 3)
    (hl : (certEntries cs ++ s).length < 16777216) :
    unmarshalCertificate (h ++ (put24 (certEntries cs ++ s).length ++ (certEntries cs ++ s))) = none := by
  obtain ⟨h0, h1, h2, h3, rfl⟩ := len4 h h4
  simp only [unmarshalCertificate, put24]
  bsimp
  rw [get24_put24 _ hl, if_neg (by omega), if_neg (by omega), certCount_stray cs s _ hc (by omega) (by omega) (by omega)]


-- certificateRequest, certificateRequestGM
theorem writeU16s_length (xs : List Nat) : (writeU16s xs).length = 2 * xs.length := by
  induction xs with
  | nil => rfl
  | cons x xs ih => simp only [writeU16s, put16, List.length_append, List.length_cons, List.length_nil, ih]; omega

theorem readU16s_writeU16s (xs : List Nat) (rest : Bytes) (h : ∀ x ∈ xs, x < 65536) :
    readU16s xs.length (writeU16s xs ++ rest) = xs := by
  induction xs with
  | nil => rfl
  | cons x xs ih =>
    have hx : x < 65536 := h x (by simp)
    have ih := ih (fun y hy => h y (by simp [hy]))
    simp only [List.length_cons, readU16s, writeU16s, put16]
    bsimp
    rw [get16_put16 _ hx, ih]

theorem readU16s_sound (n : Nat) (d : Bytes) (h : 2 * n ≤ d.length) :
    (readU16s n d).length = n ∧ (∀ x ∈ readU16s n d, x < 65536) ∧ writeU16s (readU16s n d) = d.take (2 * n) := by
  induction n generalizing d with
  | zero => simp [readU16s, writeU16s]
  | succ n ih =>
    obtain ⟨a, b, r, rfl⟩ := split2 d (by omega)
    simp only [readU16s]
    bsimp
    obtain ⟨i1, i2, i3⟩ := ih r (by simp only [List.length_cons] at h; omega)
    refine ⟨by simp [i1], ?_, ?_⟩
    · intro x hx
      rcases List.mem_cons.mp hx with e | e
      · rw [e]; exact get16_lt a b
      · exact i2 x e
    · simp only [writeU16s, put16_get16, i3]
      rw [show 2 * (n + 1) = 2 * n + 1 + 1 by omega]
      rfl

theorem caEntries_length (l : List Bytes) : (caEntries l).length = casLength l := by
  induction l with
  | nil => rfl
  | cons c cs ih => simp only [caEntries, casLength, put16, List.length_append, List.length_cons, List.length_nil, ih]; omega

theorem mem_casLength (l : List Bytes) (c : Bytes) (h : c ∈ l) : c.length + 2 ≤ casLength l := by
  induction l with
  | nil => simp at h
  | cons x xs ih =>
    simp only [casLength]
    rcases List.mem_cons.mp h with e | e
    · subst e; omega
    · have := ih e; omega

theorem caLoop_sound (fuel : Nat) (cas : Bytes) (l : List Bytes) (h : caLoop fuel cas = some l) :
    caEntries l = cas := by
  induction fuel generalizing cas l with
  | zero => simp [caLoop] at h
  | succ fuel ih =>
    unfold caLoop at h
    split at h
    · split at h
      · simp at h
      · rename_i h2
        obtain ⟨a, b, r, rfl⟩ := split2 cas (by omega)
        bsimp at h
        split at h
        · simp at h
        · rename_i hl
          split at h
          · rename_i l0 hrec
            cases h
            have htl : (List.take (get16 a b) r).length = get16 a b := take_drop_len r _ (by omega)
            simp only [caEntries, htl, put16_get16, ih _ _ hrec, List.take_append_drop, List.cons_append, List.nil_append]
          · simp at h
    · rename_i hz
      cases h
      have : cas = [] := List.eq_nil_of_length_eq_zero (by omega)
      subst this
      rfl

theorem caLoop_complete (l : List Bytes) (fuel : Nat) (hc : ∀ c ∈ l, c.length < 65536)
    (hf : (caEntries l).length < fuel) : caLoop fuel (caEntries l) = some l := by
  induction l generalizing fuel with
  | nil =>
    cases fuel with
    | zero => exact absurd hf (Nat.not_lt_zero _)
    | succ fuel => simp [caLoop, caEntries]
  | cons c cs ih =>
    cases fuel with
    | zero => exact absurd hf (Nat.not_lt_zero _)
    | succ fuel =>
      have hc0 : c.length < 65536 := hc c (by simp)
      have hlen : (caEntries (c :: cs)).length = 2 + c.length + (caEntries cs).length := by
        simp only [caEntries, put16, List.length_append, List.length_cons, List.length_nil]; omega
      have ih := ih fuel (fun x hx => hc x (by simp [hx])) (by omega)
      unfold caLoop
      rw [if_pos (by omega), if_neg (by omega)]
      have e : caEntries (c :: cs) = BitVec.ofNat 8 (c.length / 256) :: BitVec.ofNat 8 c.length :: (c ++ caEntries cs) := rfl
      rw [e]
      bsimp
      rw [get16_put16 _ hc0, if_neg (by simp only [List.length_append]; omega), List.drop_left, List.take_left, ih]

/-- the distinguished-name list at the end of a certificate request: a 16-bit length that covers exactly the rest,
    and entries (16-bit length, name) that fill it exactly -/
theorem unmarshalCAs_iff (d : Bytes) (l : List Bytes) :
    unmarshalCAs d = some l ↔ casLength l < 65536 ∧ d = put16 (casLength l) ++ caEntries l := by
  unfold unmarshalCAs
  constructor
  · intro h
    split at h
    · simp at h
    · rename_i h2
      obtain ⟨a, b, r, rfl⟩ := split2 d (by omega)
      bsimp at h
      split at h
      · simp at h
      · rename_i hl
        split at h
        · simp at h
        · rename_i l0 hloop
          split at h
          · rename_i hz
            cases h
            have e := caLoop_sound _ _ _ hloop
            have e2 : List.drop (get16 a b) r = [] := List.eq_nil_of_length_eq_zero hz
            have e3 : List.take (get16 a b) r = r := by
              have := List.take_append_drop (get16 a b) r
              rwa [e2, List.append_nil] at this
            have e4 : casLength l = get16 a b := by
              rw [← caEntries_length, e, take_drop_len r _ (by omega)]
            rw [e4, put16_get16, e, e3]
            exact ⟨get16_lt a b, rfl⟩
          · simp at h
  · rintro ⟨hl, rfl⟩
    have hc : ∀ c ∈ l, c.length < 65536 := fun c hc => by have := mem_casLength l c hc; omega
    simp only [put16]
    bsimp
    have hlen := caEntries_length l
    rw [get16_put16 _ hl, if_neg (by omega), if_neg (by omega), ← hlen, List.take_length, List.drop_length,
      caLoop_complete l _ hc (by omega)]
    simp

/-- the beginning of a certificate request: any type byte, the 24-bit length of the rest, 1..255 certificate
    types, at least one more byte -/
theorem unmarshalCertTypes_iff (b types rest : Bytes) :
    unmarshalCertTypes b = some (types, rest) ↔
      1 ≤ types.length ∧ types.length < 256 ∧ 1 ≤ rest.length ∧ 1 + types.length + rest.length < 16777216 ∧
      ∃ t : Byte, b = t :: (put24 (1 + types.length + rest.length) ++ (put8 types.length ++ (types ++ rest))) := by
  unfold unmarshalCertTypes
  constructor
  · intro h
    split at h
    · simp at h
    · rename_i h5
      obtain ⟨t, l1, l2, l3, r, rfl⟩ := split4 b (by omega)
      obtain ⟨n, r, rfl⟩ := split1 r (by simp only [List.length_cons] at h5; omega)
      bsimp at h
      split at h
      · simp at h
      · rename_i hl
        split at h
        · simp at h
        · rename_i hn
          simp only [Option.some.injEq, Prod.mk.injEq] at h
          obtain ⟨rfl, rfl⟩ := h
          have e1 : (List.take n.toNat r).length = n.toNat := take_drop_len r _ (by omega)
          have e2 : (List.drop n.toNat r).length = r.length - n.toNat := List.length_drop
          have e : get24 l1 l2 l3 = 1 + n.toNat + (r.length - n.toNat) := by omega
          have hn := n.isLt
          refine ⟨by omega, by omega, by omega, ?_, t, ?_⟩
          · rw [e1, e2, ← e]; exact get24_lt l1 l2 l3
          · rw [e1, e2, ← e, put24_get24, put8_toNat, List.take_append_drop]; rfl
  · rintro ⟨h1, h256, hr, hl, t, rfl⟩
    simp only [put24, put8]
    bsimp
    rw [get24_put24 _ hl, toNat_ofNat8 _ h256, if_neg (by simp only [List.length_append]; omega),
      if_neg (by simp only [List.length_append]; omega), if_neg (by simp only [List.length_append]; omega),
      List.take_left, List.drop_left]


/-- what both certificate request parsers accept (and what `marshal` writes without truncating a length) -/
def WFCertificateRequest (v : CertificateRequestMsg) : Prop :=
  1 ≤ v.certificateTypes.length ∧ v.certificateTypes.length < 256 ∧
  (v.hasSignatureAndHash = false → v.supportedSignatureAlgorithms = []) ∧
  (∀ x ∈ v.supportedSignatureAlgorithms, x < 65536) ∧ 2 * v.supportedSignatureAlgorithms.length < 65536 ∧
  casLength v.certificateAuthorities < 65536

/-- `certificateRequestMsg.unmarshal` in both layouts accepts exactly what `marshal` writes for a value inside the
    ranges (`WFCertificateRequest`), with any type byte: fully canonical, nothing ignored, nothing tolerated -/
theorem unmarshalCertificateRequest_iff (sh : Bool) (b : Bytes) (v : CertificateRequestMsg) :
    unmarshalCertificateRequest sh b = some v ↔
      v.hasSignatureAndHash = sh ∧ WFCertificateRequest v ∧ ∃ t : Byte, b = t :: (marshalCertificateRequest v).tail := by
  unfold unmarshalCertificateRequest WFCertificateRequest
  constructor
  · intro h
    split at h
    · simp at h
    · rename_i types rest hct
      obtain ⟨t1, t256, tr, tl, t, rfl⟩ := (unmarshalCertTypes_iff _ _ _).mp hct
      cases sh
      · simp only [Bool.false_eq_true, if_false] at h
        split at h
        · simp at h
        · rename_i cas hcas
          cases h
          obtain ⟨cl, rfl⟩ := (unmarshalCAs_iff _ _).mp hcas
          refine ⟨rfl, ⟨t1, t256, fun _ => rfl, by simp, by simp, cl⟩, t, ?_⟩
          simp only [marshalCertificateRequest, Bool.false_eq_true, if_false, List.nil_append, List.cons_append,
            List.tail_cons, put16, List.length_cons, List.length_nil, caEntries_length]
          rw [show 1 + types.length + (casLength cas + 1 + 1) = 1 + types.length + 2 + casLength cas by omega]
      · simp only [if_true] at h
        split at h
        · simp at h
        · rename_i h2
          obtain ⟨a1, a2, r, rfl⟩ := split2 rest (by omega)
          bsimp at h
          split at h
          · simp at h
          · rename_i heven
            split at h
            · simp at h
            · rename_i hlen
              split at h
              · simp at h
              · rename_i cas hcas
                cases h
                obtain ⟨cl, hrest⟩ := (unmarshalCAs_iff _ _).mp hcas
                have hk : 2 * (get16 a1 a2 / 2) = get16 a1 a2 := by omega
                obtain ⟨i1, i2, i3⟩ := readU16s_sound (get16 a1 a2 / 2) r (by omega)
                rw [hk] at hrest i3
                refine ⟨rfl, ⟨t1, t256, by simp, i2, by rw [i1, hk]; exact get16_lt a1 a2, cl⟩, t, ?_⟩
                have hr : r = writeU16s (readU16s (get16 a1 a2 / 2) r) ++ (put16 (casLength cas) ++ caEntries cas) := by
                  rw [i3, ← hrest, List.take_append_drop]
                have hrl : r.length = get16 a1 a2 + (2 + casLength cas) := by
                  have := congrArg List.length hr
                  rw [List.length_append, i3, take_drop_len r _ (by omega)] at this
                  simp only [put16, List.length_append, List.length_cons, List.length_nil, caEntries_length] at this
                  omega
                simp only [marshalCertificateRequest, if_true, List.cons_append, List.nil_append, List.tail_cons, i1,
                  List.length_cons, List.append_assoc]
                rw [show get16 a1 a2 / 2 * 2 = get16 a1 a2 by omega, put16_get16, hrl,
                  show 1 + types.length + (get16 a1 a2 + (2 + casLength cas) + 1 + 1) =
                    1 + types.length + 2 + casLength cas + (2 + get16 a1 a2) by omega]
                rw [hk]
                conv => lhs; rw [hr]
                rfl
  · rintro ⟨rfl, ⟨t1, t256, hsa, hx, h2n, hcl⟩, t, rfl⟩
    obtain ⟨sh, types, algs, cas⟩ := v
    simp only at t1 t256 hsa hx h2n hcl
    cases sh
    · have := hsa rfl
      subst this
      have hct : unmarshalCertTypes (t :: (marshalCertificateRequest ⟨false, types, [], cas⟩).tail) =
          some (types, put16 (casLength cas) ++ caEntries cas) := by
        rw [unmarshalCertTypes_iff]
        refine ⟨t1, t256, by simp [put16], ?_, t, ?_⟩
        · simp only [put16, List.length_append, List.length_cons, List.length_nil, caEntries_length]; omega
        · simp only [marshalCertificateRequest, Bool.false_eq_true, if_false, List.nil_append, List.cons_append,
            List.tail_cons, put16, List.length_cons, List.length_nil, caEntries_length]
          rw [show 1 + types.length + (casLength cas + 1 + 1) = 1 + types.length + 2 + casLength cas by omega]
      simp only [hct, Bool.false_eq_true, if_false, (unmarshalCAs_iff _ _).mpr ⟨hcl, rfl⟩]
    · have hct : unmarshalCertTypes (t :: (marshalCertificateRequest ⟨true, types, algs, cas⟩).tail) =
          some (types, put16 (algs.length * 2) ++ (writeU16s algs ++ (put16 (casLength cas) ++ caEntries cas))) := by
        rw [unmarshalCertTypes_iff]
        refine ⟨t1, t256, by simp [put16], ?_, t, ?_⟩
        · simp only [put16, List.length_append, List.length_cons, List.length_nil, caEntries_length, writeU16s_length]; omega
        · simp only [marshalCertificateRequest, if_true, List.nil_append, List.cons_append,
            List.tail_cons, put16, List.length_append, List.length_cons, caEntries_length,
            writeU16s_length]
          rw [show 1 + types.length + (2 * algs.length + (casLength cas + 1 + 1) + 1 + 1) =
            1 + types.length + 2 + casLength cas + (2 + 2 * algs.length) by omega]
      rw [hct]
      simp only [put16, if_true]
      bsimp
      have hwl := writeU16s_length algs
      rw [get16_put16 _ (by omega), if_neg (by omega), if_neg (by omega),
        if_neg (by simp only [List.length_append]; omega),
        show algs.length * 2 / 2 = algs.length by omega, readU16s_writeU16s algs _ hx,
        show 2 * algs.length = (writeU16s algs).length by omega, List.drop_left]
      have hcas := (unmarshalCAs_iff (put16 (casLength cas) ++ caEntries cas) cas).mpr ⟨hcl, rfl⟩
      simp only [put16, List.cons_append, List.nil_append] at hcas
      simp only [hcas]


/-- round trip in the layout of the value -/
theorem unmarshalCertificateRequest_marshalCertificateRequest (v : CertificateRequestMsg) (h : WFCertificateRequest v) :
    unmarshalCertificateRequest v.hasSignatureAndHash (marshalCertificateRequest v) = some v := by
  rw [unmarshalCertificateRequest_iff]
  exact ⟨rfl, h, 13, rfl⟩

/-- canonical up to the type byte -/
theorem marshalCertificateRequest_unmarshalCertificateRequest (sh : Bool) (b : Bytes) (v : CertificateRequestMsg)
    (h : unmarshalCertificateRequest sh b = some v) : ∃ t : Byte, b = t :: (marshalCertificateRequest v).tail :=
  ((unmarshalCertificateRequest_iff sh b v).mp h).2.2

theorem marshalCertificateRequest_length (v : CertificateRequestMsg) :
    (marshalCertificateRequest v).length = 4 + 1 + v.certificateTypes.length +
      (if v.hasSignatureAndHash then 2 + 2 * v.supportedSignatureAlgorithms.length else 0) + 2 +
      casLength v.certificateAuthorities := by
  unfold marshalCertificateRequest
  cases v.hasSignatureAndHash <;>
    simp only [put24, put16, put8, List.length_append, List.length_cons, List.length_nil, Bool.false_eq_true, if_false,
      if_true, caEntries_length, writeU16s_length] <;> omega

/-- certificate types and every distinguished name lie inside the input -/
theorem unmarshalCertificateRequest_total_bounds (sh : Bool) (b : Bytes) (v : CertificateRequestMsg)
    (h : unmarshalCertificateRequest sh b = some v) :
    v.certificateTypes.length + 7 ≤ b.length ∧ ∀ c ∈ v.certificateAuthorities, c.length + 9 ≤ b.length := by
  obtain ⟨rfl, _, t, rfl⟩ := (unmarshalCertificateRequest_iff sh b v).mp h
  have hl := marshalCertificateRequest_length v
  have h2 : (marshalCertificateRequest v).length = (marshalCertificateRequest v).tail.length + 1 := by
    unfold marshalCertificateRequest; simp
  refine ⟨by simp only [List.length_cons]; omega, fun c hc => ?_⟩
  have := mem_casLength _ c hc
  simp only [List.length_cons]; omega

theorem unmarshalCertTypes_no_trailing (b t : Bytes) (p : Bytes × Bytes) (h : unmarshalCertTypes b = some p)
    (ht : t ≠ []) : unmarshalCertTypes (b ++ t) = none := by
  have hne : t.length ≠ 0 := by simpa using ht
  unfold unmarshalCertTypes at h ⊢
  split at h
  · simp at h
  · rename_i h5
    obtain ⟨t0, l1, l2, l3, r, rfl⟩ := split4 b (by omega)
    bsimp at h
    bsimp
    split at h
    · simp at h
    · rename_i hl
      rw [if_neg (by simp only [List.length_append]; omega), if_pos (by simp only [List.length_append]; omega)]

/-- strict: an accepted message followed by anything is rejected -/
theorem unmarshalCertificateRequest_no_trailing (sh : Bool) (b t : Bytes) (v : CertificateRequestMsg)
    (h : unmarshalCertificateRequest sh b = some v) (ht : t ≠ []) : unmarshalCertificateRequest sh (b ++ t) = none := by
  unfold unmarshalCertificateRequest at h ⊢
  split at h
  · simp at h
  · rename_i types rest hct
    rw [unmarshalCertTypes_no_trailing b t _ hct ht]

-- certificateRequestGM
def WFCertificateRequestGM (v : CertificateRequestMsgGM) : Prop :=
  1 ≤ v.certificateTypes.length ∧ v.certificateTypes.length < 256 ∧ casLength v.certificateAuthorities < 65536

/-- the GMSSL request is the pre-TLS-1.2 layout: the same parser, the same bytes -/
theorem unmarshalCertificateRequestGM_eq (b : Bytes) :
    unmarshalCertificateRequestGM b =
      (unmarshalCertificateRequest false b).map fun m => ⟨m.certificateTypes, m.certificateAuthorities⟩ := by
  unfold unmarshalCertificateRequestGM unmarshalCertificateRequest
  cases unmarshalCertTypes b with
  | none => rfl
  | some p =>
    obtain ⟨types, rest⟩ := p
    simp only [Bool.false_eq_true, if_false]
    cases unmarshalCAs rest <;> rfl

theorem marshalCertificateRequestGM_eq (v : CertificateRequestMsgGM) :
    marshalCertificateRequestGM v = marshalCertificateRequest ⟨false, v.certificateTypes, [], v.certificateAuthorities⟩ := by
  simp only [marshalCertificateRequestGM, marshalCertificateRequest, Bool.false_eq_true, if_false, List.nil_append]

/-- `certificateRequestMsgGM.unmarshal` accepts exactly what its `marshal` writes, with any type byte -/
theorem unmarshalCertificateRequestGM_iff (b : Bytes) (v : CertificateRequestMsgGM) :
    unmarshalCertificateRequestGM b = some v ↔
      WFCertificateRequestGM v ∧ ∃ t : Byte, b = t :: (marshalCertificateRequestGM v).tail := by
  rw [unmarshalCertificateRequestGM_eq, marshalCertificateRequestGM_eq]
  constructor
  · intro h
    cases hu : unmarshalCertificateRequest false b with
    | none => rw [hu] at h; cases h
    | some m =>
      rw [hu] at h
      cases h
      obtain ⟨hsh, ⟨w1, w2, w3, _, _, w6⟩, t, rfl⟩ := (unmarshalCertificateRequest_iff false _ m).mp hu
      obtain ⟨sh, types, algs, cas⟩ := m
      simp only at hsh w3
      subst hsh
      have := w3 rfl
      subst this
      exact ⟨⟨w1, w2, w6⟩, t, rfl⟩
  · rintro ⟨⟨w1, w2, w3⟩, t, rfl⟩
    have := (unmarshalCertificateRequest_iff false (t :: (marshalCertificateRequest
      ⟨false, v.certificateTypes, [], v.certificateAuthorities⟩).tail) ⟨false, v.certificateTypes, [], v.certificateAuthorities⟩).mpr
      ⟨rfl, ⟨w1, w2, fun _ => rfl, by simp, by simp, w3⟩, t, rfl⟩
    rw [this]
    rfl

/-- round trip -/
theorem unmarshalCertificateRequestGM_marshalCertificateRequestGM (v : CertificateRequestMsgGM) (h : WFCertificateRequestGM v) :
    unmarshalCertificateRequestGM (marshalCertificateRequestGM v) = some v := by
  rw [unmarshalCertificateRequestGM_iff]
  exact ⟨h, 13, rfl⟩

/-- certificate types and every distinguished name lie inside the input -/
theorem unmarshalCertificateRequestGM_total_bounds (b : Bytes) (v : CertificateRequestMsgGM)
    (h : unmarshalCertificateRequestGM b = some v) :
    v.certificateTypes.length + 7 ≤ b.length ∧ ∀ c ∈ v.certificateAuthorities, c.length + 9 ≤ b.length := by
  rw [unmarshalCertificateRequestGM_eq] at h
  cases hu : unmarshalCertificateRequest false b with
  | none => rw [hu] at h; cases h
  | some m =>
    rw [hu] at h
    cases h
    exact unmarshalCertificateRequest_total_bounds false b m hu

/-- strict: an accepted message followed by anything is rejected -/
theorem unmarshalCertificateRequestGM_no_trailing (b t : Bytes) (v : CertificateRequestMsgGM)
    (h : unmarshalCertificateRequestGM b = some v) (ht : t ≠ []) : unmarshalCertificateRequestGM (b ++ t) = none := by
  rw [unmarshalCertificateRequestGM_eq] at h ⊢
  cases hu : unmarshalCertificateRequest false b with
  | none => rw [hu] at h; cases h
  | some m => rw [unmarshalCertificateRequest_no_trailing false b t m hu ht]; rfl


-- the hello messages: bounds --------------------------------------------------------------------------------

theorem readU16s_length (n : Nat) (d : Bytes) : (readU16s n d).length = n := by
  induction n generalizing d with
  | zero => rfl
  | succ n ih => simp only [readU16s, List.length_cons, ih]

theorem take_le (d : Bytes) (k : Nat) : (d.take k).length ≤ d.length := by
  rw [List.length_take]; omega

theorem drop_le (d : Bytes) (k : Nat) : (d.drop k).length ≤ d.length := by
  rw [List.length_drop]; omega

theorem sniLoop_bound (fuel : Nat) (d : Bytes) (acc : Option Bytes) (x : Bytes)
    (h : sniLoop fuel d acc = some (some x)) : x.length ≤ d.length ∨ acc = some x := by
  induction fuel generalizing d acc with
  | zero => simp [sniLoop] at h
  | succ fuel ih =>
    unfold sniLoop at h
    split at h
    · split at h
      · simp at h
      · dsimp only at h
        split at h
        · simp at h
        · split at h
          · split at h
            · simp at h
            · have := take_le (List.drop 3 d) (get16 (d.getD 1 0) (d.getD 2 0))
              have := drop_le (List.drop 3 d) (get16 (d.getD 1 0) (d.getD 2 0))
              have := drop_le d 3
              rcases ih _ _ h with e | e
              · left; omega
              · left; cases e; omega
          · have := drop_le (List.drop 3 d) (get16 (d.getD 1 0) (d.getD 2 0))
            have := drop_le d 3
            rcases ih _ _ h with e | e
            · left; omega
            · right; exact e
    · right; cases h; rfl

theorem protoLoop_bound (fuel : Nat) (d : Bytes) (l : List Bytes) (h : protoLoop fuel d = some l) :
    ∀ p ∈ l, p.length ≤ d.length := by
  induction fuel generalizing d l with
  | zero => simp [protoLoop] at h
  | succ fuel ih =>
    unfold protoLoop at h
    split at h
    · dsimp only at h
      split at h
      · simp at h
      · split at h
        · rename_i l0 hrec
          cases h
          intro p hp
          have d1 := drop_le d 1
          rcases List.mem_cons.mp hp with e | e
          · rw [e]
            have := take_le (List.drop 1 d) (d.getD 0 0).toNat
            omega
          · have := ih _ _ hrec p e
            have := drop_le (List.drop 1 d) (d.getD 0 0).toNat
            omega
        · simp at h
    · cases h
      simp

theorem sctLoop_bound (fuel : Nat) (d : Bytes) (l : List Bytes) (h : sctLoop fuel d = some l) :
    ∀ p ∈ l, p.length ≤ d.length := by
  induction fuel generalizing d l with
  | zero => simp [sctLoop] at h
  | succ fuel ih =>
    unfold sctLoop at h
    split at h
    · split at h
      · simp at h
      · dsimp only at h
        split at h
        · simp at h
        · split at h
          · rename_i l0 hrec
            cases h
            intro p hp
            have d1 := drop_le d 2
            rcases List.mem_cons.mp hp with e | e
            · rw [e]
              have := take_le (List.drop 2 d) (get16 (d.getD 0 0) (d.getD 1 0))
              omega
            · have := ih _ _ hrec p e
              have := drop_le (List.drop 2 d) (get16 (d.getD 0 0) (d.getD 1 0))
              omega
          · simp at h
    · cases h
      simp

theorem renegInfo_bound (length : Nat) (data d : Bytes) (h : renegInfo length data = some d) : d.length ≤ data.length := by
  unfold renegInfo at h
  split at h
  · simp at h
  · dsimp only at h
    split at h
    · simp at h
    · cases h
      have := drop_le (List.take length data) 1
      have := take_le data length
      omega

/-- every byte string of the message is at most `n` bytes long, every list of 16-bit numbers at most `n / 2` -/
def BoundedClientHello (n : Nat) (m : ClientHelloMsg) : Prop :=
  m.random.length ≤ n ∧ m.sessionId.length ≤ n ∧ m.compressionMethods.length ≤ n ∧ m.serverName.length ≤ n ∧
  m.supportedPoints.length ≤ n ∧ m.sessionTicket.length ≤ n ∧ m.secureRenegotiation.length ≤ n ∧
  (∀ p ∈ m.alpnProtocols, p.length ≤ n) ∧ 2 * m.cipherSuites.length ≤ n ∧ 2 * m.supportedCurves.length ≤ n ∧
  2 * m.supportedSignatureAlgorithms.length ≤ n

theorem chExtension_bound (n : Nat) (m m2 : ClientHelloMsg) (ext length : Nat) (data : Bytes)
    (hb : BoundedClientHello n m) (hd : data.length ≤ n) (hl : length ≤ data.length)
    (h : chExtension m ext length data = some m2) : BoundedClientHello n m2 := by
  obtain ⟨b1, b2, b3, b4, b5, b6, b7, b8, b9, b10, b11⟩ := hb
  unfold chExtension at h
  by_cases e0 : ext = 0
  · rw [if_pos e0] at h
    dsimp only at h
    split at h
    · simp at h
    · split at h
      · simp at h
      · split at h
        · simp at h
        · cases h; exact ⟨b1, b2, b3, b4, b5, b6, b7, b8, b9, b10, b11⟩
        · rename_i x hs
          cases h
          have := (sniLoop_bound _ _ _ _ hs).resolve_right (by simp)
          have := drop_le (List.take length data) 2
          have := take_le data length
          exact ⟨b1, b2, b3, by show x.length ≤ n; omega, b5, b6, b7, b8, b9, b10, b11⟩
  rw [if_neg e0] at h
  by_cases e1 : ext = 13172
  · rw [if_pos e1] at h
    split at h
    · simp at h
    · cases h; exact ⟨b1, b2, b3, b4, b5, b6, b7, b8, b9, b10, b11⟩
  rw [if_neg e1] at h
  by_cases e2 : ext = 5
  · rw [if_pos e2] at h
    dsimp only at h
    split at h
    · simp at h
    · cases h; exact ⟨b1, b2, b3, b4, b5, b6, b7, b8, b9, b10, b11⟩
  rw [if_neg e2] at h
  by_cases e3 : ext = 10
  · rw [if_pos e3] at h
    split at h
    · simp at h
    · dsimp only at h
      split at h
      · simp at h
      · rename_i hc
        cases h
        refine ⟨b1, b2, b3, b4, b5, b6, b7, b8, b9, ?_, b11⟩
        show 2 * (readU16s _ _).length ≤ n
        rw [readU16s_length]; omega
  rw [if_neg e3] at h
  by_cases e4 : ext = 11
  · rw [if_pos e4] at h
    split at h
    · simp at h
    · dsimp only at h
      split at h
      · simp at h
      · cases h
        refine ⟨b1, b2, b3, b4, ?_, b6, b7, b8, b9, b10, b11⟩
        have := take_le (List.drop 1 data) (data.getD 0 0).toNat
        have := drop_le data 1
        show (List.take _ _).length ≤ n
        omega
  rw [if_neg e4] at h
  by_cases e5 : ext = 35
  · rw [if_pos e5] at h
    cases h
    refine ⟨b1, b2, b3, b4, b5, ?_, b7, b8, b9, b10, b11⟩
    have := take_le data length
    show (List.take _ _).length ≤ n
    omega
  rw [if_neg e5] at h
  by_cases e6 : ext = 13
  · rw [if_pos e6] at h
    split at h
    · simp at h
    · dsimp only at h
      split at h
      · simp at h
      · rename_i hc
        cases h
        refine ⟨b1, b2, b3, b4, b5, b6, b7, b8, b9, b10, ?_⟩
        show 2 * (readU16s _ _).length ≤ n
        rw [readU16s_length]; omega
  rw [if_neg e6] at h
  by_cases e7 : ext = 65281
  · rw [if_pos e7] at h
    split at h
    · simp at h
    · rename_i d hr
      cases h
      have := renegInfo_bound _ _ _ hr
      exact ⟨b1, b2, b3, b4, b5, b6, by show d.length ≤ n; omega, b8, b9, b10, b11⟩
  rw [if_neg e7] at h
  by_cases e8 : ext = 16
  · rw [if_pos e8] at h
    split at h
    · simp at h
    · dsimp only at h
      split at h
      · simp at h
      · split at h
        · simp at h
        · rename_i ps hp
          cases h
          refine ⟨b1, b2, b3, b4, b5, b6, b7, ?_, b9, b10, b11⟩
          intro p hp2
          rcases List.mem_append.mp hp2 with e | e
          · exact b8 p e
          · have := protoLoop_bound _ _ _ hp p e
            have := take_le (List.drop 2 data) (length - 2)
            have := drop_le data 2
            omega
  rw [if_neg e8] at h
  by_cases e9 : ext = 18
  · rw [if_pos e9] at h
    split at h
    · simp at h
    · cases h; exact ⟨b1, b2, b3, b4, b5, b6, b7, b8, b9, b10, b11⟩
  rw [if_neg e9] at h
  cases h
  exact ⟨b1, b2, b3, b4, b5, b6, b7, b8, b9, b10, b11⟩

theorem chExtLoop_bound (fuel n : Nat) (data : Bytes) (m m2 : ClientHelloMsg) (hb : BoundedClientHello n m)
    (hd : data.length ≤ n) (h : chExtLoop fuel data m = some m2) : BoundedClientHello n m2 := by
  induction fuel generalizing data m with
  | zero => simp [chExtLoop] at h
  | succ fuel ih =>
    unfold chExtLoop at h
    split at h
    · split at h
      · simp at h
      · dsimp only at h
        split at h
        · simp at h
        · rename_i hlen
          split at h
          · simp at h
          · rename_i m1 hext
            have d4 := drop_le data 4
            have hb1 := chExtension_bound n m m1 _ _ _ hb (by omega) (by omega) hext
            exact ih _ _ hb1 (by have := drop_le (List.drop 4 data) (get16 (data.getD 2 0) (data.getD 3 0)); omega) h
    · cases h; exact hb

/-- `unmarshalClientHello_total_bounds`: whatever `clientHelloMsg.unmarshal` returns lies inside its input —
    random, session id, compression methods, server name, point formats, session ticket, renegotiation data
    and every ALPN name are at most as long as the input, the lists of cipher suites, curves and signature
    algorithms hold at most half as many numbers as the input has bytes -/
theorem unmarshalClientHello_total_bounds (b : Bytes) (m : ClientHelloMsg) (h : unmarshalClientHello b = some m) :
    BoundedClientHello b.length m := by
  unfold unmarshalClientHello at h
  split at h
  · simp at h
  · dsimp only at h
    split at h
    · simp at h
    · rename_i hsid
      split at h
      · simp at h
      · split at h
        · simp at h
        · rename_i hcs
          split at h
          · simp at h
          · split at h
            · simp at h
            · have e1 := take_le (List.drop 6 b) 32
              have e2 := drop_le b 6
              have e3 := take_le (List.drop 39 b) (b.getD 38 0).toNat
              have e4 := drop_le b 39
              generalize hd1 : List.drop (39 + (b.getD 38 0).toNat) b = d1 at h hcs
              have e5 : d1.length ≤ b.length := by rw [← hd1]; exact drop_le _ _
              generalize hd2 : List.drop (2 + get16 (d1.getD 0 0) (d1.getD 1 0)) d1 = d2 at h
              have e6 : d2.length ≤ d1.length := by rw [← hd2]; exact drop_le _ _
              have e7 := take_le (List.drop 1 d2) (d2.getD 0 0).toNat
              have e8 := drop_le d2 1
              have hb0 : BoundedClientHello b.length
                  { vers := get16 (b.getD 4 0) (b.getD 5 0), random := List.take 32 (List.drop 6 b),
                    sessionId := List.take (b.getD 38 0).toNat (List.drop 39 b),
                    cipherSuites := readU16s (get16 (d1.getD 0 0) (d1.getD 1 0) / 2) (List.drop 2 d1),
                    compressionMethods := List.take (d2.getD 0 0).toNat (List.drop 1 d2), nextProtoNeg := false,
                    serverName := [], ocspStapling := false, scts := false, supportedCurves := [],
                    supportedPoints := [], ticketSupported := false, sessionTicket := [],
                    supportedSignatureAlgorithms := [], secureRenegotiation := [],
                    secureRenegotiationSupported := (readU16s (get16 (d1.getD 0 0) (d1.getD 1 0) / 2)
                      (List.drop 2 d1)).any (fun x => decide (x = 255)), alpnProtocols := [] } := by
                refine ⟨by show (List.take _ _).length ≤ _; omega, by show (List.take _ _).length ≤ _; omega,
                  by show (List.take _ _).length ≤ _; omega, Nat.zero_le _, Nat.zero_le _, Nat.zero_le _, Nat.zero_le _,
                  by simp, ?_, Nat.zero_le _, Nat.zero_le _⟩
                show 2 * (readU16s _ _).length ≤ _
                rw [readU16s_length]; omega
              split at h
              · cases h; exact hb0
              · split at h
                · simp at h
                · split at h
                  · simp at h
                  · have := drop_le (List.drop (1 + (d2.getD 0 0).toNat) d2) 2
                    have := drop_le d2 (1 + (d2.getD 0 0).toNat)
                    exact chExtLoop_bound _ _ _ _ _ hb0 (by omega) h


/-- every byte string of the message is at most `n` bytes long -/
def BoundedServerHello (n : Nat) (m : ServerHelloMsg) : Prop :=
  m.random.length ≤ n ∧ m.sessionId.length ≤ n ∧ m.secureRenegotiation.length ≤ n ∧ m.alpnProtocol.length ≤ n ∧
  (∀ p ∈ m.nextProtos, p.length ≤ n) ∧ (∀ p ∈ m.scts, p.length ≤ n)

theorem shExtension_bound (n : Nat) (m m2 : ServerHelloMsg) (ext length : Nat) (data : Bytes)
    (hb : BoundedServerHello n m) (hd : data.length ≤ n)
    (h : shExtension m ext length data = some m2) : BoundedServerHello n m2 := by
  obtain ⟨b1, b2, b3, b4, b5, b6⟩ := hb
  have tl := take_le data length
  unfold shExtension at h
  by_cases e0 : ext = 13172
  · rw [if_pos e0] at h
    dsimp only at h
    split at h
    · simp at h
    · rename_i ps hp
      cases h
      refine ⟨b1, b2, b3, b4, ?_, b6⟩
      intro p hp2
      rcases List.mem_append.mp hp2 with e | e
      · exact b5 p e
      · have := protoLoop_bound _ _ _ hp p e
        omega
  rw [if_neg e0] at h
  by_cases e1 : ext = 5
  · rw [if_pos e1] at h
    split at h
    · simp at h
    · cases h; exact ⟨b1, b2, b3, b4, b5, b6⟩
  rw [if_neg e1] at h
  by_cases e2 : ext = 35
  · rw [if_pos e2] at h
    split at h
    · simp at h
    · cases h; exact ⟨b1, b2, b3, b4, b5, b6⟩
  rw [if_neg e2] at h
  by_cases e3 : ext = 65281
  · rw [if_pos e3] at h
    split at h
    · simp at h
    · rename_i d hr
      cases h
      have := renegInfo_bound _ _ _ hr
      exact ⟨b1, b2, by show d.length ≤ n; omega, b4, b5, b6⟩
  rw [if_neg e3] at h
  by_cases e4 : ext = 16
  · rw [if_pos e4] at h
    dsimp only at h
    split at h
    · simp at h
    · split at h
      · simp at h
      · split at h
        · simp at h
        · split at h
          · simp at h
          · cases h
            refine ⟨b1, b2, b3, ?_, b5, b6⟩
            have := drop_le (List.drop 2 (List.take length data)) 1
            have := drop_le (List.take length data) 2
            show (List.drop _ _).length ≤ n
            omega
  rw [if_neg e4] at h
  by_cases e5 : ext = 18
  · rw [if_pos e5] at h
    dsimp only at h
    split at h
    · simp at h
    · split at h
      · simp at h
      · split at h
        · simp at h
        · rename_i ss hs
          cases h
          refine ⟨b1, b2, b3, b4, b5, ?_⟩
          intro p hp
          have := sctLoop_bound _ _ _ hs p hp
          have := drop_le (List.take length data) 2
          omega
  rw [if_neg e5] at h
  cases h
  exact ⟨b1, b2, b3, b4, b5, b6⟩

theorem shExtLoop_bound (fuel n : Nat) (data : Bytes) (m m2 : ServerHelloMsg) (hb : BoundedServerHello n m)
    (hd : data.length ≤ n) (h : shExtLoop fuel data m = some m2) : BoundedServerHello n m2 := by
  induction fuel generalizing data m with
  | zero => simp [shExtLoop] at h
  | succ fuel ih =>
    unfold shExtLoop at h
    split at h
    · split at h
      · simp at h
      · dsimp only at h
        split at h
        · simp at h
        · rename_i hlen
          split at h
          · simp at h
          · rename_i m1 hext
            have d4 := drop_le data 4
            have hb1 := shExtension_bound n m m1 _ _ _ hb (by omega) hext
            exact ih _ _ hb1 (by have := drop_le (List.drop 4 data) (get16 (data.getD 2 0) (data.getD 3 0)); omega) h
    · cases h; exact hb

/-- `unmarshalServerHello_total_bounds`: whatever `serverHelloMsg.unmarshal` returns lies inside its input —
    random, session id, renegotiation data, ALPN name, every NPN name and every SCT are at most as long as the
    input -/
theorem unmarshalServerHello_total_bounds (b : Bytes) (m : ServerHelloMsg) (h : unmarshalServerHello b = some m) :
    BoundedServerHello b.length m := by
  unfold unmarshalServerHello at h
  split at h
  · simp at h
  · dsimp only at h
    split at h
    · simp at h
    · split at h
      · simp at h
      · have e1 := take_le (List.drop 6 b) 32
        have e2 := drop_le b 6
        have e3 := take_le (List.drop 39 b) (b.getD 38 0).toNat
        have e4 := drop_le b 39
        generalize hd1 : List.drop (39 + (b.getD 38 0).toNat) b = d1 at h
        have e5 : d1.length ≤ b.length := by rw [← hd1]; exact drop_le _ _
        have hb0 : BoundedServerHello b.length
            { vers := get16 (b.getD 4 0) (b.getD 5 0), random := List.take 32 (List.drop 6 b),
              sessionId := List.take (b.getD 38 0).toNat (List.drop 39 b),
              cipherSuite := get16 (d1.getD 0 0) (d1.getD 1 0), compressionMethod := (d1.getD 2 0).toNat,
              nextProtoNeg := false, nextProtos := [], ocspStapling := false, scts := [], ticketSupported := false,
              secureRenegotiation := [], secureRenegotiationSupported := false, alpnProtocol := [] } :=
          ⟨by show (List.take _ _).length ≤ _; omega, by show (List.take _ _).length ≤ _; omega, Nat.zero_le _,
            Nat.zero_le _, by simp, by simp⟩
        split at h
        · cases h; exact hb0
        · split at h
          · simp at h
          · split at h
            · simp at h
            · have := drop_le (List.drop 3 d1) 2
              have := drop_le d1 3
              exact shExtLoop_bound _ _ _ _ _ hb0 (by omega) h


-- the hello messages: round trip, serverHello --------------------------------------------------------------

theorem protoEntries_length (l : List Bytes) : (protoEntries l).length = totalLen l + l.length := by
  induction l with
  | nil => rfl
  | cons c cs ih => simp only [protoEntries, put8, totalLen, List.length_append, List.length_cons, List.length_nil, ih]; omega

theorem npnEntries_eq (l : List Bytes) (hl : ∀ p ∈ l, p.length < 256) : npnEntries l = protoEntries l := by
  induction l with
  | nil => rfl
  | cons c cs ih =>
    have hc : c.length < 256 := hl c (by simp)
    simp only [npnEntries, protoEntries]
    rw [if_neg (by omega), List.take_length, ih (fun x hx => hl x (by simp [hx]))]

theorem protoLoop_complete (l : List Bytes) (fuel : Nat) (hl : ∀ p ∈ l, 1 ≤ p.length ∧ p.length < 256)
    (hf : (protoEntries l).length < fuel) : protoLoop fuel (protoEntries l) = some l := by
  induction l generalizing fuel with
  | nil =>
    cases fuel with
    | zero => exact absurd hf (Nat.not_lt_zero _)
    | succ fuel => simp [protoLoop, protoEntries]
  | cons c cs ih =>
    cases fuel with
    | zero => exact absurd hf (Nat.not_lt_zero _)
    | succ fuel =>
      obtain ⟨c1, c2⟩ := hl c (by simp)
      have hlen : (protoEntries (c :: cs)).length = 1 + c.length + (protoEntries cs).length := by
        simp only [protoEntries, put8, List.length_append, List.length_cons, List.length_nil]; omega
      have ih := ih fuel (fun x hx => hl x (by simp [hx])) (by omega)
      unfold protoLoop
      rw [if_pos (by omega)]
      have e : protoEntries (c :: cs) = BitVec.ofNat 8 c.length :: (c ++ protoEntries cs) := rfl
      rw [e]
      bsimp
      rw [toNat_ofNat8 _ c2, if_neg (by simp only [List.length_append]; omega), List.drop_left, List.take_left, ih]

theorem sctEntries_length (l : List Bytes) : (sctEntries l).length = sctTotal l := by
  induction l with
  | nil => rfl
  | cons c cs ih => simp only [sctEntries, sctTotal, put16, List.length_append, List.length_cons, List.length_nil, ih]; omega

theorem sctLoop_complete (l : List Bytes) (fuel : Nat) (hl : ∀ s ∈ l, 1 ≤ s.length ∧ s.length < 65536)
    (hf : (sctEntries l).length < fuel) : sctLoop fuel (sctEntries l) = some l := by
  induction l generalizing fuel with
  | nil =>
    cases fuel with
    | zero => exact absurd hf (Nat.not_lt_zero _)
    | succ fuel => simp [sctLoop, sctEntries]
  | cons c cs ih =>
    cases fuel with
    | zero => exact absurd hf (Nat.not_lt_zero _)
    | succ fuel =>
      obtain ⟨c1, c2⟩ := hl c (by simp)
      have hlen : (sctEntries (c :: cs)).length = 2 + c.length + (sctEntries cs).length := by
        simp only [sctEntries, put16, List.length_append, List.length_cons, List.length_nil]; omega
      have ih := ih fuel (fun x hx => hl x (by simp [hx])) (by omega)
      unfold sctLoop
      rw [if_pos (by omega), if_neg (by omega)]
      have e : sctEntries (c :: cs) = BitVec.ofNat 8 (c.length / 256) :: BitVec.ofNat 8 c.length :: (c ++ sctEntries cs) := rfl
      rw [e]
      bsimp
      rw [get16_put16 _ c2, if_neg (by simp only [List.length_append]; omega), List.drop_left, List.take_left, ih]

theorem renegInfo_complete (reneg rest : Bytes) (h : reneg.length < 255) :
    renegInfo (1 + reneg.length) (put8 reneg.length ++ (reneg ++ rest)) = some reneg := by
  unfold renegInfo
  rw [if_neg (by omega)]
  simp only [put8]
  rw [Nat.add_comm 1]
  bsimp
  rw [List.take_left, toNat_ofNat8 _ (by omega), if_neg (by omega)]

theorem shExt_npn (m : ServerHelloMsg) (protos : List Bytes) (rest : Bytes)
    (hl : ∀ p ∈ protos, 1 ≤ p.length ∧ p.length < 256) :
    shExtension m 13172 (protoEntries protos).length (protoEntries protos ++ rest) =
      some { m with nextProtoNeg := true, nextProtos := m.nextProtos ++ protos } := by
  unfold shExtension
  rw [if_pos rfl]
  dsimp only
  rw [List.take_left, protoLoop_complete protos _ hl (by omega)]

theorem shExt_ocsp (m : ServerHelloMsg) (rest : Bytes) :
    shExtension m 5 0 rest = some { m with ocspStapling := true } := by
  unfold shExtension
  rw [if_neg (by decide), if_pos rfl, if_neg (by omega)]

theorem shExt_ticket (m : ServerHelloMsg) (rest : Bytes) :
    shExtension m 35 0 rest = some { m with ticketSupported := true } := by
  unfold shExtension
  rw [if_neg (by decide), if_neg (by decide), if_pos rfl, if_neg (by omega)]

theorem shExt_reneg (m : ServerHelloMsg) (reneg rest : Bytes) (h : reneg.length < 255) :
    shExtension m 65281 (1 + reneg.length) (put8 reneg.length ++ (reneg ++ rest)) =
      some { m with secureRenegotiation := reneg, secureRenegotiationSupported := true } := by
  unfold shExtension
  rw [if_neg (by decide), if_neg (by decide), if_neg (by decide), if_pos rfl, renegInfo_complete reneg rest h]

theorem shExt_alpn (m : ServerHelloMsg) (alpn rest : Bytes) (h1 : 1 ≤ alpn.length) (h2 : alpn.length < 256) :
    shExtension m 16 (2 + 1 + alpn.length) (put16 (1 + alpn.length) ++ (put8 alpn.length ++ (alpn ++ rest))) =
      some { m with alpnProtocol := alpn } := by
  unfold shExtension
  rw [if_neg (by decide), if_neg (by decide), if_neg (by decide), if_neg (by decide), if_pos rfl]
  simp only [put16, put8]
  rw [show 2 + 1 + alpn.length = alpn.length + 1 + 1 + 1 by omega]
  bsimp
  rw [List.take_left, get16_put16 _ (by omega), toNat_ofNat8 _ h2, if_neg (by omega), if_neg (by omega),
    if_neg (by omega), if_neg (by omega)]

theorem shExt_sct (m : ServerHelloMsg) (scts : List Bytes) (rest : Bytes)
    (hl : ∀ s ∈ scts, 1 ≤ s.length ∧ s.length < 65536) (ht : sctTotal scts + 2 < 65536) (hne : 0 < sctTotal scts) :
    shExtension m 18 (sctTotal scts + 2) (put16 (sctTotal scts) ++ (sctEntries scts ++ rest)) =
      some { m with scts := scts } := by
  unfold shExtension
  rw [if_neg (by decide), if_neg (by decide), if_neg (by decide), if_neg (by decide), if_neg (by decide), if_pos rfl]
  simp only [put16]
  have hlen := sctEntries_length scts
  bsimp
  rw [← hlen, List.take_left, get16_put16 _ (by omega), if_neg (by omega), if_neg (by omega),
    sctLoop_complete scts _ hl (by omega)]

theorem shExtLoop_fuel (f1 f2 : Nat) (data : Bytes) (m : ServerHelloMsg) (h1 : data.length < f1) (h2 : data.length < f2) :
    shExtLoop f1 data m = shExtLoop f2 data m := by
  induction f1 generalizing f2 data m with
  | zero => omega
  | succ f1 ih =>
    cases f2 with
    | zero => omega
    | succ f2 =>
      unfold shExtLoop
      by_cases hz : data.length ≠ 0
      · rw [if_pos hz, if_pos hz]
        by_cases h4 : data.length < 4
        · rw [if_pos h4, if_pos h4]
        · rw [if_neg h4, if_neg h4]
          dsimp only
          by_cases hl : (List.drop 4 data).length < get16 (data.getD 2 0) (data.getD 3 0)
          · rw [if_pos hl, if_pos hl]
          · rw [if_neg hl, if_neg hl]
            cases shExtension m (get16 (data.getD 0 0) (data.getD 1 0)) (get16 (data.getD 2 0) (data.getD 3 0)) (List.drop 4 data) with
            | none => rfl
            | some m2 =>
              have := drop_le (List.drop 4 data) (get16 (data.getD 2 0) (data.getD 3 0))
              have : (List.drop 4 data).length = data.length - 4 := List.length_drop
              exact ih _ _ _ (by omega) (by omega)
      · rw [if_neg hz, if_neg hz]

theorem shExtLoop_step (f ext : Nat) (body rest : Bytes) (m : ServerHelloMsg) (he : ext < 65536) (hb : body.length < 65536)
    (hf : (put16 ext ++ (put16 body.length ++ (body ++ rest))).length < f) :
    shExtLoop f (put16 ext ++ (put16 body.length ++ (body ++ rest))) m =
      match shExtension m ext body.length (body ++ rest) with
      | none => none
      | some m2 => shExtLoop (rest.length + 1) rest m2 := by
  cases f with
  | zero => omega
  | succ f =>
    simp only [put16, List.length_append, List.length_cons, List.length_nil] at hf
    rw [shExtLoop]
    simp only [put16]
    bsimp
    rw [get16_put16 _ he, get16_put16 _ hb, if_pos (by omega), if_neg (by omega),
      if_neg (by simp only [List.length_append]; omega), List.drop_left]
    cases shExtension m ext body.length (body ++ rest) with
    | none => rfl
    | some m2 => exact shExtLoop_fuel _ _ _ _ (by omega) (by omega)


theorem sh_cond (c : Prop) [Decidable c] (e rest : Bytes) (ma mb : ServerHelloMsg)
    (ht : c → shExtLoop ((e ++ rest).length + 1) (e ++ rest) ma = shExtLoop (rest.length + 1) rest mb)
    (hf : ¬c → ma = mb) :
    shExtLoop (((if c then [e] else []).flatten ++ rest).length + 1) ((if c then [e] else []).flatten ++ rest) ma =
      shExtLoop (rest.length + 1) rest mb := by
  by_cases hc : c
  · simp only [if_pos hc, List.flatten_cons, List.flatten_nil, List.append_nil]
    exact ht hc
  · simp only [if_neg hc, List.flatten_nil, List.nil_append]
    rw [hf hc]

/-- the values `serverHelloMsg.marshal` writes without truncating a field and `unmarshal` can return -/
def WFServerHello (v : ServerHelloMsg) : Prop :=
  v.vers < 65536 ∧ v.random.length = 32 ∧ v.sessionId.length ≤ 32 ∧ v.cipherSuite < 65536 ∧ v.compressionMethod < 256 ∧
  (v.nextProtoNeg = false → v.nextProtos = []) ∧ (∀ p ∈ v.nextProtos, 1 ≤ p.length ∧ p.length < 256) ∧
  (∀ s ∈ v.scts, 1 ≤ s.length ∧ s.length < 65536) ∧
  (v.secureRenegotiationSupported = false → v.secureRenegotiation = []) ∧ v.secureRenegotiation.length < 255 ∧
  v.alpnProtocol.length < 256 ∧ shExtensionsLength v + 4 * shNumExtensions v < 65536

theorem sctTotal_pos (l : List Bytes) : 0 < sctTotal l ↔ l.length > 0 := by
  cases l with
  | nil => simp [sctTotal]
  | cons c cs => simp [sctTotal]; omega


/-- `serverHelloMsg.unmarshal` from `if len(data) < 3` on, with what it has read before -/
def shTail (vers : Nat) (random sessionId data : Bytes) : Option ServerHelloMsg :=
  if data.length < 3 then none else
  let cipherSuite := get16 (data.getD 0 0) (data.getD 1 0)
  let compressionMethod := (data.getD 2 0).toNat
  let data := data.drop 3
  let m : ServerHelloMsg := {
    vers := vers, random := random, sessionId := sessionId, cipherSuite := cipherSuite,
    compressionMethod := compressionMethod, nextProtoNeg := false, nextProtos := [], ocspStapling := false,
    scts := [], ticketSupported := false, secureRenegotiation := [], secureRenegotiationSupported := false,
    alpnProtocol := [] }
  if data.length = 0 then some m else
  if data.length < 2 then none else
  let extensionsLength := get16 (data.getD 0 0) (data.getD 1 0)
  let data := data.drop 2
  if data.length ≠ extensionsLength then none else
  shExtLoop (data.length + 1) data m

theorem drop_at (P Q : Bytes) (k j : Nat) (hP : P.length = k) : (P ++ Q).drop (k + j) = Q.drop j := by
  subst hP
  induction P with
  | nil => simp
  | cons a P ih =>
    rw [List.length_cons, show P.length + 1 + j = (P.length + j) + 1 by omega, List.cons_append, List.drop_succ_cons, ih]

theorem getD_at (P Q : Bytes) (k : Nat) (hP : P.length = k) : (P ++ Q).getD k 0 = Q.getD 0 0 := by
  subst hP
  induction P with
  | nil => rfl
  | cons a P ih =>
    simp only [List.length_cons, List.cons_append, List.getD_eq_getElem?_getD, List.getElem?_cons_succ] at ih ⊢
    exact ih

theorem unmarshalServerHello_split (hd random sid rest : Bytes) (vers : Nat) (h4 : hd.length = 4)
    (hr : random.length = 32) (hs : sid.length ≤ 32) (hv : vers < 65536) (h3 : 3 ≤ rest.length) :
    unmarshalServerHello (hd ++ (put16 vers ++ (random ++ (put8 sid.length ++ (sid ++ rest))))) =
      shTail vers random sid rest := by
  obtain ⟨a, b, c, d, rfl⟩ := len4 hd h4
  have e38 : (a :: b :: c :: d :: BitVec.ofNat 8 (vers / 256) :: BitVec.ofNat 8 vers :: random).length = 38 := by
    simp only [List.length_cons, hr]
  have hdata : [a, b, c, d] ++ (put16 vers ++ (random ++ (put8 sid.length ++ (sid ++ rest)))) =
      (a :: b :: c :: d :: BitVec.ofNat 8 (vers / 256) :: BitVec.ofNat 8 vers :: random) ++
        (BitVec.ofNat 8 sid.length :: (sid ++ rest)) := by
    simp only [put16, put8, List.cons_append, List.nil_append]
  have hlen : ([a, b, c, d] ++ (put16 vers ++ (random ++ (put8 sid.length ++ (sid ++ rest))))).length =
      39 + sid.length + rest.length := by
    simp only [put16, put8, List.length_append, List.length_cons, List.length_nil, hr]; omega
  unfold unmarshalServerHello shTail
  rw [hlen, if_neg (by omega)]
  dsimp only
  have g38 : ([a, b, c, d] ++ (put16 vers ++ (random ++ (put8 sid.length ++ (sid ++ rest))))).getD 38 0 =
      BitVec.ofNat 8 sid.length := by
    rw [hdata, getD_at _ _ 38 e38]; rfl
  have g4 : ([a, b, c, d] ++ (put16 vers ++ (random ++ (put8 sid.length ++ (sid ++ rest))))).getD 4 0 =
      BitVec.ofNat 8 (vers / 256) := rfl
  have g5 : ([a, b, c, d] ++ (put16 vers ++ (random ++ (put8 sid.length ++ (sid ++ rest))))).getD 5 0 =
      BitVec.ofNat 8 vers := rfl
  have d6 : ([a, b, c, d] ++ (put16 vers ++ (random ++ (put8 sid.length ++ (sid ++ rest))))).drop 6 =
      random ++ (put8 sid.length ++ (sid ++ rest)) := rfl
  have d39 : ([a, b, c, d] ++ (put16 vers ++ (random ++ (put8 sid.length ++ (sid ++ rest))))).drop 39 =
      sid ++ rest := by
    rw [hdata, drop_at _ _ 38 1 e38]; rfl
  have d39n : ([a, b, c, d] ++ (put16 vers ++ (random ++ (put8 sid.length ++ (sid ++ rest))))).drop (39 + sid.length) =
      rest := by
    rw [hdata, show 39 + sid.length = 38 + (1 + sid.length) by omega, drop_at _ _ 38 _ e38, Nat.add_comm 1,
      List.drop_succ_cons, List.drop_left]
  rw [g38, g4, g5, d6, d39, toNat_ofNat8 _ (by omega), d39n, get16_put16 _ hv, if_neg (by omega),
    List.take_left' hr, List.take_left]


theorem sh_step_ext (ext : Nat) (body rest : Bytes) (ma mb : ServerHelloMsg) (he : ext < 65536) (hb : body.length < 65536)
    (hx : shExtension ma ext body.length (body ++ rest) = some mb) :
    shExtLoop ((put16 ext ++ (put16 body.length ++ (body ++ rest))).length + 1)
      (put16 ext ++ (put16 body.length ++ (body ++ rest))) ma = shExtLoop (rest.length + 1) rest mb := by
  rw [shExtLoop_step _ ext body rest ma he hb (by omega), hx]

theorem random32_eq (r : Bytes) (h : r.length = 32) : random32 r = r := by
  unfold random32; rw [List.take_left' h]

theorem cond_len (c : Prop) [Decidable c] (e : Bytes) (n : Nat) (h : c → e.length = n + 4) :
    ((if c then [e] else []).flatten).length = (if c then n else 0) + 4 * (if c then 1 else 0) := by
  by_cases hc : c
  · simp only [if_pos hc, List.flatten_cons, List.flatten_nil, List.append_nil, h hc]
  · simp only [if_neg hc, List.flatten_nil, List.length_nil]

theorem shExtensions_length (v : ServerHelloMsg) (hnp : ∀ p ∈ v.nextProtos, p.length < 256) :
    (shExtensions v).flatten.length = shExtensionsLength v + 4 * shNumExtensions v := by
  simp only [shExtensions, shExtensionsLength, shNumExtensions, List.flatten_append, List.length_append, sctTotal_pos]
  rw [cond_len _ _ (totalLen v.nextProtos + v.nextProtos.length) (fun _ => by
      simp only [put16, List.length_append, List.length_cons, List.length_nil, npnEntries_eq _ hnp, protoEntries_length]; omega),
    cond_len _ _ 0 (fun _ => rfl), cond_len _ _ 0 (fun _ => rfl),
    cond_len _ _ (1 + v.secureRenegotiation.length) (fun _ => by
      simp only [put16, put8, List.length_append, List.length_cons, List.length_nil]; omega),
    cond_len _ _ (2 + 1 + v.alpnProtocol.length) (fun _ => by
      simp only [put16, put8, List.length_append, List.length_cons, List.length_nil]; omega),
    cond_len _ _ (2 + sctTotal v.scts) (fun _ => by
      simp only [put16, List.length_append, List.length_cons, List.length_nil, sctEntries_length]; omega)]
  simp only [ite_self]
  omega


/-- the message as `serverHelloMsg.unmarshal` holds it before the first extension -/
def shBase (v : ServerHelloMsg) : ServerHelloMsg :=
  { v with nextProtoNeg := false, nextProtos := [], ocspStapling := false, scts := [], ticketSupported := false,
           secureRenegotiation := [], secureRenegotiationSupported := false, alpnProtocol := [] }
def shM1 (v : ServerHelloMsg) : ServerHelloMsg := { shBase v with nextProtoNeg := v.nextProtoNeg, nextProtos := v.nextProtos }
def shM2 (v : ServerHelloMsg) : ServerHelloMsg := { shM1 v with ocspStapling := v.ocspStapling }
def shM3 (v : ServerHelloMsg) : ServerHelloMsg := { shM2 v with ticketSupported := v.ticketSupported }
def shM4 (v : ServerHelloMsg) : ServerHelloMsg :=
  { shM3 v with secureRenegotiation := v.secureRenegotiation, secureRenegotiationSupported := v.secureRenegotiationSupported }
def shM5 (v : ServerHelloMsg) : ServerHelloMsg := { shM4 v with alpnProtocol := v.alpnProtocol }

theorem sh_cond_last (c : Prop) [Decidable c] (e : Bytes) (ma mb : ServerHelloMsg)
    (ht : c → shExtLoop ((e ++ []).length + 1) (e ++ []) ma = some mb)
    (hf : ¬c → ma = mb) :
    shExtLoop (((if c then [e] else []).flatten).length + 1) ((if c then [e] else []).flatten) ma = some mb := by
  by_cases hc : c
  · simp only [if_pos hc, List.flatten_cons, List.flatten_nil]
    exact ht hc
  · simp only [if_neg hc, List.flatten_nil, List.length_nil]
    rw [hf hc]
    simp [shExtLoop]

set_option linter.unusedSimpArgs false in
theorem shExtLoop_shExtensions (v : ServerHelloMsg) (h : WFServerHello v) :
    shExtLoop ((shExtensions v).flatten.length + 1) (shExtensions v).flatten (shBase v) = some v := by
  obtain ⟨hv, hr, hsid, hcs, hcm, hnp0, hnp, hsct, hrn0, hrn, halpn, hext⟩ := h
  have hnp256 : ∀ p ∈ v.nextProtos, p.length < 256 := fun p hp => (hnp p hp).2
  simp only [shExtensionsLength, shNumExtensions] at hext
  simp only [shExtensions, List.flatten_append, List.append_assoc]
  refine Eq.trans (sh_cond _ _ _ _ (shM1 v) ?_ ?_) ?_
  · intro c
    rw [List.append_assoc, List.append_assoc, npnEntries_eq _ hnp256, ← protoEntries_length]
    refine sh_step_ext 13172 _ _ _ _ (by decide) ?_ ?_
    · rw [protoEntries_length]
      simp only [c, if_true] at hext
      omega
    · rw [shExt_npn _ _ _ hnp]
      obtain ⟨⟩ := v
      simp_all [shBase, shM1, shM2, shM3, shM4, shM5]
  · intro c
    have c2 : v.nextProtoNeg = false := by simpa using c
    have := hnp0 c2
    obtain ⟨⟩ := v
    simp_all [shBase, shM1, shM2, shM3, shM4, shM5]
  refine Eq.trans (sh_cond _ _ _ _ (shM2 v) ?_ ?_) ?_
  · intro c
    refine sh_step_ext 5 [] _ _ _ (by decide) (by decide) ?_
    rw [List.nil_append]
    show shExtension (shM1 v) 5 0 _ = _
    rw [shExt_ocsp]
    obtain ⟨⟩ := v
    simp_all [shBase, shM1, shM2, shM3, shM4, shM5]
  · intro c
    have c2 : v.ocspStapling = false := by simpa using c
    obtain ⟨⟩ := v
    simp_all [shBase, shM1, shM2, shM3, shM4, shM5]
  refine Eq.trans (sh_cond _ _ _ _ (shM3 v) ?_ ?_) ?_
  · intro c
    refine sh_step_ext 35 [] _ _ _ (by decide) (by decide) ?_
    rw [List.nil_append]
    show shExtension (shM2 v) 35 0 _ = _
    rw [shExt_ticket]
    obtain ⟨⟩ := v
    simp_all [shBase, shM1, shM2, shM3, shM4, shM5]
  · intro c
    have c2 : v.ticketSupported = false := by simpa using c
    obtain ⟨⟩ := v
    simp_all [shBase, shM1, shM2, shM3, shM4, shM5]
  refine Eq.trans (sh_cond _ _ _ _ (shM4 v) ?_ ?_) ?_
  · intro c
    have e : put16 65281 ++ ([0] ++ (put8 (v.secureRenegotiation.length + 1) ++ (put8 v.secureRenegotiation.length ++
        v.secureRenegotiation))) = put16 65281 ++ (put16 (put8 v.secureRenegotiation.length ++ v.secureRenegotiation).length ++
        (put8 v.secureRenegotiation.length ++ v.secureRenegotiation)) := by
      simp only [put16, put8, List.length_append, List.length_cons, List.length_nil, List.cons_append, List.nil_append]
      rw [show (v.secureRenegotiation.length + 1) / 256 = 0 by omega]
      rw [show v.secureRenegotiation.length + 0 + 1 = v.secureRenegotiation.length + 1 by omega]
      rfl
    have e2 : (put8 v.secureRenegotiation.length ++ v.secureRenegotiation).length = 1 + v.secureRenegotiation.length := by
      simp only [put8, List.length_append, List.length_cons, List.length_nil] <;> omega
    rw [e, List.append_assoc, List.append_assoc]
    refine sh_step_ext 65281 _ _ _ _ (by decide) (by rw [e2]; omega) ?_
    rw [List.append_assoc, e2, shExt_reneg _ _ _ hrn]
    obtain ⟨⟩ := v
    simp_all [shBase, shM1, shM2, shM3, shM4, shM5]
  · intro c
    have c2 : v.secureRenegotiationSupported = false := by simpa using c
    have := hrn0 c2
    obtain ⟨⟩ := v
    simp_all [shBase, shM1, shM2, shM3, shM4, shM5]
  refine Eq.trans (sh_cond _ _ _ _ (shM5 v) ?_ ?_) ?_
  · intro c
    have e2 : (put16 (1 + v.alpnProtocol.length) ++ (put8 v.alpnProtocol.length ++ v.alpnProtocol)).length =
        2 + 1 + v.alpnProtocol.length := by
      simp only [put16, put8, List.length_append, List.length_cons, List.length_nil] <;> omega
    rw [← e2, List.append_assoc, List.append_assoc]
    refine sh_step_ext 16 _ _ _ _ (by decide) (by rw [e2]; omega) ?_
    rw [List.append_assoc, List.append_assoc, e2, shExt_alpn _ _ _ (by omega) halpn]
    obtain ⟨⟩ := v
    simp_all [shBase, shM1, shM2, shM3, shM4, shM5]
  · intro c
    have c2 : v.alpnProtocol = [] := List.eq_nil_of_length_eq_zero (by omega)
    obtain ⟨⟩ := v
    simp_all [shBase, shM1, shM2, shM3, shM4, shM5]
  refine sh_cond_last _ _ _ _ ?_ ?_
  · intro c
    have c3 : 0 < v.scts.length := (sctTotal_pos _).mp c
    have e2 : (put16 (sctTotal v.scts) ++ sctEntries v.scts).length = sctTotal v.scts + 2 := by
      simp only [put16, List.length_append, List.length_cons, List.length_nil, sctEntries_length] <;> omega
    have hlt : sctTotal v.scts + 2 < 65536 := by
      simp only [c3, if_true] at hext
      omega
    rw [← e2, List.append_assoc, List.append_assoc]
    rw [sh_step_ext 18 _ _ _ v (by decide) (by rw [e2]; omega) ?_]
    · simp [shExtLoop]
    · rw [List.append_assoc, e2, shExt_sct _ _ _ hsct hlt c]
      obtain ⟨⟩ := v
      simp_all [shBase, shM1, shM2, shM3, shM4, shM5]
  · intro c
    have c2 : v.scts = [] := by
      cases hs : v.scts with
      | nil => rfl
      | cons a l => rw [hs] at c; simp [sctTotal] at c
    obtain ⟨⟩ := v
    simp_all [shBase, shM1, shM2, shM3, shM4, shM5]


theorem shNum_zero (v : ServerHelloMsg) (h : shNumExtensions v = 0) :
    v.nextProtoNeg = false ∧ v.ocspStapling = false ∧ v.ticketSupported = false ∧
    v.secureRenegotiationSupported = false ∧ v.alpnProtocol.length = 0 ∧ v.scts.length = 0 := by
  unfold shNumExtensions at h
  refine ⟨?_, ?_, ?_, ?_, ?_, ?_⟩
  · cases hc : v.nextProtoNeg with
    | false => rfl
    | true => rw [hc] at h; simp only [if_true] at h; omega
  · cases hc : v.ocspStapling with
    | false => rfl
    | true => rw [hc] at h; simp only [if_true] at h; omega
  · cases hc : v.ticketSupported with
    | false => rfl
    | true => rw [hc] at h; simp only [if_true] at h; omega
  · cases hc : v.secureRenegotiationSupported with
    | false => rfl
    | true => rw [hc] at h; simp only [if_true] at h; omega
  · by_cases hc : v.alpnProtocol.length > 0
    · rw [if_pos hc] at h; omega
    · omega
  · by_cases hc : v.scts.length > 0
    · rw [if_pos hc] at h; omega
    · omega

/-- `unmarshalServerHello_marshalServerHello`: `serverHelloMsg.unmarshal` reads back every field of what
    `marshal` wrote — version, random, session id, suite, compression, and all six extensions (NPN names,
    status request, ticket, renegotiation data, ALPN name, SCT list) — for every value inside the ranges of the
    length fields whose optional fields are unset when their flag is unset (`WFServerHello`) -/
theorem unmarshalServerHello_marshalServerHello (v : ServerHelloMsg) (h : WFServerHello v) :
    unmarshalServerHello (marshalServerHello v) = some v := by
  have hloop := shExtLoop_shExtensions v h
  obtain ⟨hv, hr, hsid, hcs, hcm, hnp0, hnp, hsct, hrn0, hrn, halpn, hext⟩ := h
  have hE := shExtensions_length v (fun p hp => (hnp p hp).2)
  have hbase : shBase v = {
      vers := v.vers, random := v.random, sessionId := v.sessionId, cipherSuite := v.cipherSuite,
      compressionMethod := v.compressionMethod, nextProtoNeg := false, nextProtos := [], ocspStapling := false,
      scts := [], ticketSupported := false, secureRenegotiation := [], secureRenegotiationSupported := false,
      alpnProtocol := [] } := rfl
  unfold marshalServerHello
  simp only [random32_eq _ hr]
  by_cases hn : shNumExtensions v > 0
  · simp only [if_pos hn]
    rw [← hE]
    rw [← hE] at hext
    generalize hEdef : (shExtensions v).flatten = E at hloop hext ⊢
    have hw : ([2] ++ (put24 (38 + v.sessionId.length + (2 + E.length)) ++ (put16 v.vers ++ (v.random ++
        (put8 v.sessionId.length ++ (v.sessionId ++ (put16 v.cipherSuite ++ (put8 v.compressionMethod ++
        (put16 E.length ++ E))))))))).length = 4 + (38 + v.sessionId.length + (2 + E.length)) := by
      simp only [put24, put16, put8, List.length_append, List.length_cons, List.length_nil, hr]; omega
    rw [hw, Nat.sub_self, List.replicate_zero, List.append_nil, ← List.append_assoc [2]]
    rw [unmarshalServerHello_split _ _ _ _ _ rfl hr hsid hv
      (by simp only [put16, put8, List.length_append, List.length_cons, List.length_nil]; omega)]
    unfold shTail
    simp only [put16, put8]
    bsimp
    rw [get16_put16 _ hcs, toNat_ofNat8 _ hcm, get16_put16 _ (by omega), if_neg (by omega), if_neg (by omega),
      if_neg (by omega), if_neg (by omega), ← hbase, hloop]
  · simp only [if_neg hn]
    obtain ⟨c1, c2, c3, c4, c5, c6⟩ := shNum_zero v (by omega)
    have hw : ([2] ++ (put24 (38 + v.sessionId.length) ++ (put16 v.vers ++ (v.random ++
        (put8 v.sessionId.length ++ (v.sessionId ++ (put16 v.cipherSuite ++ (put8 v.compressionMethod ++
        [])))))))).length = 4 + (38 + v.sessionId.length) := by
      simp only [put24, put16, put8, List.length_append, List.length_cons, List.length_nil, hr]; omega
    rw [hw, Nat.sub_self, List.replicate_zero, List.append_nil, ← List.append_assoc [2]]
    rw [unmarshalServerHello_split _ _ _ _ _ rfl hr hsid hv
      (by simp only [put16, put8, List.length_append, List.length_cons, List.length_nil]; omega)]
    unfold shTail
    simp only [put16, put8]
    bsimp
    rw [get16_put16 _ hcs, toNat_ofNat8 _ hcm, if_neg (by omega), if_pos trivial]
    have a1 := hnp0 c1
    have a2 := hrn0 c4
    have a3 : v.alpnProtocol = [] := List.eq_nil_of_length_eq_zero c5
    have a4 : v.scts = [] := List.eq_nil_of_length_eq_zero c6
    obtain ⟨⟩ := v
    simp_all


-- the hello messages: round trip, clientHello --------------------------------------------------------------

theorem chExtLoop_fuel (f1 f2 : Nat) (data : Bytes) (m : ClientHelloMsg) (h1 : data.length < f1) (h2 : data.length < f2) :
    chExtLoop f1 data m = chExtLoop f2 data m := by
  induction f1 generalizing f2 data m with
  | zero => omega
  | succ f1 ih =>
    cases f2 with
    | zero => omega
    | succ f2 =>
      unfold chExtLoop
      by_cases hz : data.length ≠ 0
      · rw [if_pos hz, if_pos hz]
        by_cases h4 : data.length < 4
        · rw [if_pos h4, if_pos h4]
        · rw [if_neg h4, if_neg h4]
          dsimp only
          by_cases hl : (List.drop 4 data).length < get16 (data.getD 2 0) (data.getD 3 0)
          · rw [if_pos hl, if_pos hl]
          · rw [if_neg hl, if_neg hl]
            cases chExtension m (get16 (data.getD 0 0) (data.getD 1 0)) (get16 (data.getD 2 0) (data.getD 3 0)) (List.drop 4 data) with
            | none => rfl
            | some m2 =>
              have := drop_le (List.drop 4 data) (get16 (data.getD 2 0) (data.getD 3 0))
              have : (List.drop 4 data).length = data.length - 4 := List.length_drop
              exact ih _ _ _ (by omega) (by omega)
      · rw [if_neg hz, if_neg hz]

theorem chExtLoop_step (f ext : Nat) (body rest : Bytes) (m : ClientHelloMsg) (he : ext < 65536) (hb : body.length < 65536)
    (hf : (put16 ext ++ (put16 body.length ++ (body ++ rest))).length < f) :
    chExtLoop f (put16 ext ++ (put16 body.length ++ (body ++ rest))) m =
      match chExtension m ext body.length (body ++ rest) with
      | none => none
      | some m2 => chExtLoop (rest.length + 1) rest m2 := by
  cases f with
  | zero => omega
  | succ f =>
    simp only [put16, List.length_append, List.length_cons, List.length_nil] at hf
    rw [chExtLoop]
    simp only [put16]
    bsimp
    rw [get16_put16 _ he, get16_put16 _ hb, if_pos (by omega), if_neg (by omega),
      if_neg (by simp only [List.length_append]; omega), List.drop_left]
    cases chExtension m ext body.length (body ++ rest) with
    | none => rfl
    | some m2 => exact chExtLoop_fuel _ _ _ _ (by omega) (by omega)

theorem ch_step_ext (ext : Nat) (body rest : Bytes) (ma mb : ClientHelloMsg) (he : ext < 65536) (hb : body.length < 65536)
    (hx : chExtension ma ext body.length (body ++ rest) = some mb) :
    chExtLoop ((put16 ext ++ (put16 body.length ++ (body ++ rest))).length + 1)
      (put16 ext ++ (put16 body.length ++ (body ++ rest))) ma = chExtLoop (rest.length + 1) rest mb := by
  rw [chExtLoop_step _ ext body rest ma he hb (by omega), hx]

theorem ch_cond (c : Prop) [Decidable c] (e rest : Bytes) (ma mb : ClientHelloMsg)
    (ht : c → chExtLoop ((e ++ rest).length + 1) (e ++ rest) ma = chExtLoop (rest.length + 1) rest mb)
    (hf : ¬c → ma = mb) :
    chExtLoop (((if c then [e] else []).flatten ++ rest).length + 1) ((if c then [e] else []).flatten ++ rest) ma =
      chExtLoop (rest.length + 1) rest mb := by
  by_cases hc : c
  · simp only [if_pos hc, List.flatten_cons, List.flatten_nil, List.append_nil]
    exact ht hc
  · simp only [if_neg hc, List.flatten_nil, List.nil_append]
    rw [hf hc]

theorem ch_cond_last (c : Prop) [Decidable c] (e : Bytes) (ma mb : ClientHelloMsg)
    (ht : c → chExtLoop ((e ++ []).length + 1) (e ++ []) ma = some mb)
    (hf : ¬c → ma = mb) :
    chExtLoop (((if c then [e] else []).flatten).length + 1) ((if c then [e] else []).flatten) ma = some mb := by
  by_cases hc : c
  · simp only [if_pos hc, List.flatten_cons, List.flatten_nil]
    exact ht hc
  · simp only [if_neg hc, List.flatten_nil, List.length_nil]
    rw [hf hc]
    simp [chExtLoop]

-- the ten extensions as `clientHelloMsg.marshal` writes them, read by `chExtension`

theorem chExt_npn (m : ClientHelloMsg) (rest : Bytes) :
    chExtension m 13172 0 rest = some { m with nextProtoNeg := true } := by
  unfold chExtension
  rw [if_neg (by decide), if_pos rfl, if_neg (by omega)]

theorem sniLoop_host (f : Nat) (name : Bytes) (h0 : 0 < name.length) (h : name.length < 65536) :
    sniLoop (f + 2) ([0] ++ (put16 name.length ++ (name ++ []))) none = some (some name) := by
  rw [sniLoop]
  simp only [put16]
  bsimp
  rw [get16_put16 _ h, if_pos (by omega), if_neg (by omega), if_neg (by simp only [List.length_append]; omega),
    if_pos trivial, if_neg (by simp only [Option.isSome_none, Bool.false_eq_true, or_false]; omega), List.take_left,
    List.drop_left]
  rw [sniLoop]
  simp

theorem chExt_sni (m : ClientHelloMsg) (name rest : Bytes) (h0 : 0 < name.length) (h : name.length + 5 < 65536) :
    chExtension m 0 (name.length + 5) (put16 (name.length + 3) ++ ([0] ++ (put16 name.length ++ (name ++ rest)))) =
      some { m with serverName := name } := by
  have e : put16 (name.length + 3) ++ ([0] ++ (put16 name.length ++ (name ++ rest))) =
      (put16 (name.length + 3) ++ ([0] ++ (put16 name.length ++ (name ++ [])))) ++ rest := by
    simp only [List.append_assoc, List.append_nil]
  have el : (put16 (name.length + 3) ++ ([0] ++ (put16 name.length ++ (name ++ [])))).length = name.length + 5 := by
    simp only [put16, List.length_append, List.length_cons, List.length_nil] <;> omega
  unfold chExtension
  rw [if_pos rfl]
  dsimp only
  rw [e, List.take_left' el]
  simp only [put16]
  bsimp
  rw [get16_put16 _ (by omega), if_neg (by omega), if_neg (by simp only [List.length_append, List.length_nil]; omega)]
  have := sniLoop_host (name.length + 0 + 1 + 1) name h0 (by omega)
  simp only [put16, List.cons_append, List.nil_append] at this
  simp only [List.length_append, List.length_nil, this]

theorem chExt_ocsp (m : ClientHelloMsg) (rest : Bytes) :
    chExtension m 5 5 ([1, 0, 0, 0, 0] ++ rest) = some { m with ocspStapling := true } := by
  unfold chExtension
  rw [if_neg (by decide), if_neg (by decide), if_pos rfl]
  have e : ocspRequestOk ((List.take 5 ([1, 0, 0, 0, 0] ++ rest : Bytes)).drop 1) = true := by
    rw [show (5 : Nat) = ([1, 0, 0, 0, 0] : Bytes).length from rfl, List.take_left]
    decide
  dsimp only
  rw [e]
  rfl

theorem chExt_curves (m : ClientHelloMsg) (curves : List Nat) (rest : Bytes) (hx : ∀ x ∈ curves, x < 65536)
    (hl : 2 + 2 * curves.length < 65536) :
    chExtension m 10 (2 + 2 * curves.length) (put16 (2 * curves.length) ++ (writeU16s curves ++ rest)) =
      some { m with supportedCurves := curves } := by
  unfold chExtension
  rw [if_neg (by decide), if_neg (by decide), if_neg (by decide), if_pos rfl]
  simp only [put16]
  bsimp
  rw [get16_put16 _ (by omega), if_neg (by omega), if_neg (by omega), show 2 * curves.length / 2 = curves.length by omega,
    readU16s_writeU16s curves rest hx]

theorem chExt_points (m : ClientHelloMsg) (points rest : Bytes) (hl : points.length < 256) :
    chExtension m 11 (1 + points.length) (put8 points.length ++ (points ++ rest)) =
      some { m with supportedPoints := points } := by
  unfold chExtension
  rw [if_neg (by decide), if_neg (by decide), if_neg (by decide), if_neg (by decide), if_pos rfl]
  simp only [put8]
  bsimp
  rw [toNat_ofNat8 _ hl, if_neg (by omega), if_neg (by omega), List.take_left]

theorem chExt_ticket (m : ClientHelloMsg) (ticket rest : Bytes) :
    chExtension m 35 ticket.length (ticket ++ rest) = some { m with ticketSupported := true, sessionTicket := ticket } := by
  unfold chExtension
  rw [if_neg (by decide), if_neg (by decide), if_neg (by decide), if_neg (by decide), if_neg (by decide), if_pos rfl,
    List.take_left]

theorem chExt_sigalgs (m : ClientHelloMsg) (algs : List Nat) (rest : Bytes) (hx : ∀ x ∈ algs, x < 65536)
    (hl : 2 + 2 * algs.length < 65536) :
    chExtension m 13 (2 + 2 * algs.length) (put16 (2 * algs.length) ++ (writeU16s algs ++ rest)) =
      some { m with supportedSignatureAlgorithms := algs } := by
  unfold chExtension
  rw [if_neg (by decide), if_neg (by decide), if_neg (by decide), if_neg (by decide), if_neg (by decide),
    if_neg (by decide), if_pos rfl]
  simp only [put16]
  bsimp
  rw [get16_put16 _ (by omega), if_neg (by omega), if_neg (by omega), show 2 * algs.length / 2 = algs.length by omega,
    readU16s_writeU16s algs rest hx]

theorem chExt_reneg (m : ClientHelloMsg) (reneg rest : Bytes) (h : reneg.length < 255) :
    chExtension m 65281 (1 + reneg.length) (put8 reneg.length ++ (reneg ++ rest)) =
      some { m with secureRenegotiation := reneg, secureRenegotiationSupported := true } := by
  unfold chExtension
  rw [if_neg (by decide), if_neg (by decide), if_neg (by decide), if_neg (by decide), if_neg (by decide),
    if_neg (by decide), if_neg (by decide), if_pos rfl, renegInfo_complete reneg rest h]

theorem chExt_alpn (m : ClientHelloMsg) (protos : List Bytes) (rest : Bytes)
    (hp : ∀ p ∈ protos, 1 ≤ p.length ∧ p.length < 256) (hl : (protoEntries protos).length + 2 < 65536) :
    chExtension m 16 ((protoEntries protos).length + 2) (put16 (protoEntries protos).length ++ (protoEntries protos ++ rest)) =
      some { m with alpnProtocols := m.alpnProtocols ++ protos } := by
  unfold chExtension
  rw [if_neg (by decide), if_neg (by decide), if_neg (by decide), if_neg (by decide), if_neg (by decide),
    if_neg (by decide), if_neg (by decide), if_neg (by decide), if_pos rfl]
  simp only [put16]
  bsimp
  rw [get16_put16 _ (by omega), if_neg (by omega), if_neg (by omega), Nat.add_sub_cancel, List.take_left,
    protoLoop_complete protos _ hp (by omega)]

theorem chExt_sct (m : ClientHelloMsg) (rest : Bytes) :
    chExtension m 18 0 rest = some { m with scts := true } := by
  unfold chExtension
  rw [if_neg (by decide), if_neg (by decide), if_neg (by decide), if_neg (by decide), if_neg (by decide),
    if_neg (by decide), if_neg (by decide), if_neg (by decide), if_neg (by decide), if_pos rfl, if_neg (by omega)]


/-- `clientHelloMsg.unmarshal` from `if len(data) < 2` (before the cipher suites) on, with what it has read before -/
def chTail (vers : Nat) (random sessionId data : Bytes) : Option ClientHelloMsg :=
  if data.length < 2 then none else
  let cipherSuiteLen := get16 (data.getD 0 0) (data.getD 1 0)
  if cipherSuiteLen % 2 = 1 ∨ data.length < 2 + cipherSuiteLen then none else
  let cipherSuites := readU16s (cipherSuiteLen / 2) (data.drop 2)
  let scsv := cipherSuites.any (· = 255)
  let data := data.drop (2 + cipherSuiteLen)
  if data.length < 1 then none else
  let compressionMethodsLen := (data.getD 0 0).toNat
  if data.length < 1 + compressionMethodsLen then none else
  let compressionMethods := (data.drop 1).take compressionMethodsLen
  let data := data.drop (1 + compressionMethodsLen)
  let m : ClientHelloMsg := {
    vers := vers, random := random, sessionId := sessionId, cipherSuites := cipherSuites,
    compressionMethods := compressionMethods, nextProtoNeg := false, serverName := [], ocspStapling := false,
    scts := false, supportedCurves := [], supportedPoints := [], ticketSupported := false, sessionTicket := [],
    supportedSignatureAlgorithms := [], secureRenegotiation := [], secureRenegotiationSupported := scsv,
    alpnProtocols := [] }
  if data.length = 0 then some m else
  if data.length < 2 then none else
  let extensionsLength := get16 (data.getD 0 0) (data.getD 1 0)
  let data := data.drop 2
  if extensionsLength ≠ data.length then none else
  chExtLoop (data.length + 1) data m

theorem unmarshalClientHello_split (hd random sid rest : Bytes) (vers : Nat) (h4 : hd.length = 4)
    (hr : random.length = 32) (hs : sid.length ≤ 32) (hv : vers < 65536) (h3 : 3 ≤ rest.length) :
    unmarshalClientHello (hd ++ (put16 vers ++ (random ++ (put8 sid.length ++ (sid ++ rest))))) =
      chTail vers random sid rest := by
  obtain ⟨a, b, c, d, rfl⟩ := len4 hd h4
  have e38 : (a :: b :: c :: d :: BitVec.ofNat 8 (vers / 256) :: BitVec.ofNat 8 vers :: random).length = 38 := by
    simp only [List.length_cons, hr]
  have hdata : [a, b, c, d] ++ (put16 vers ++ (random ++ (put8 sid.length ++ (sid ++ rest)))) =
      (a :: b :: c :: d :: BitVec.ofNat 8 (vers / 256) :: BitVec.ofNat 8 vers :: random) ++
        (BitVec.ofNat 8 sid.length :: (sid ++ rest)) := by
    simp only [put16, put8, List.cons_append, List.nil_append]
  have hlen : ([a, b, c, d] ++ (put16 vers ++ (random ++ (put8 sid.length ++ (sid ++ rest))))).length =
      39 + sid.length + rest.length := by
    simp only [put16, put8, List.length_append, List.length_cons, List.length_nil, hr]; omega
  unfold unmarshalClientHello chTail
  rw [hlen, if_neg (by omega)]
  dsimp only
  have g38 : ([a, b, c, d] ++ (put16 vers ++ (random ++ (put8 sid.length ++ (sid ++ rest))))).getD 38 0 =
      BitVec.ofNat 8 sid.length := by
    rw [hdata, getD_at _ _ 38 e38]; rfl
  have g4 : ([a, b, c, d] ++ (put16 vers ++ (random ++ (put8 sid.length ++ (sid ++ rest))))).getD 4 0 =
      BitVec.ofNat 8 (vers / 256) := rfl
  have g5 : ([a, b, c, d] ++ (put16 vers ++ (random ++ (put8 sid.length ++ (sid ++ rest))))).getD 5 0 =
      BitVec.ofNat 8 vers := rfl
  have d6 : ([a, b, c, d] ++ (put16 vers ++ (random ++ (put8 sid.length ++ (sid ++ rest))))).drop 6 =
      random ++ (put8 sid.length ++ (sid ++ rest)) := rfl
  have d39 : ([a, b, c, d] ++ (put16 vers ++ (random ++ (put8 sid.length ++ (sid ++ rest))))).drop 39 =
      sid ++ rest := by
    rw [hdata, drop_at _ _ 38 1 e38]; rfl
  have d39n : ([a, b, c, d] ++ (put16 vers ++ (random ++ (put8 sid.length ++ (sid ++ rest))))).drop (39 + sid.length) =
      rest := by
    rw [hdata, show 39 + sid.length = 38 + (1 + sid.length) by omega, drop_at _ _ 38 _ e38, Nat.add_comm 1,
      List.drop_succ_cons, List.drop_left]
  rw [g38, g4, g5, d6, d39, toNat_ofNat8 _ (by omega), d39n, get16_put16 _ hv, if_neg (by omega),
    List.take_left' hr, List.take_left]

/-- the values `clientHelloMsg.marshal` writes without truncating a field and `unmarshal` reads back as they
    are: every length inside its field, optional data unset when its flag is unset, and the renegotiation flag
    set when the cipher suites contain the signalling value 0x00ff (the parser sets it then) -/
def WFClientHello (v : ClientHelloMsg) : Prop :=
  v.vers < 65536 ∧ v.random.length = 32 ∧ v.sessionId.length ≤ 32 ∧
  (∀ x ∈ v.cipherSuites, x < 65536) ∧ 2 * v.cipherSuites.length < 65536 ∧ v.compressionMethods.length < 256 ∧
  (∀ x ∈ v.supportedCurves, x < 65536) ∧ v.supportedPoints.length < 256 ∧
  (v.ticketSupported = false → v.sessionTicket = []) ∧
  (∀ x ∈ v.supportedSignatureAlgorithms, x < 65536) ∧
  (v.secureRenegotiationSupported = false → v.secureRenegotiation = []) ∧ v.secureRenegotiation.length < 255 ∧
  (v.cipherSuites.any (· = 255) = true → v.secureRenegotiationSupported = true) ∧
  (∀ p ∈ v.alpnProtocols, 1 ≤ p.length ∧ p.length < 256) ∧
  (chExtensions v).flatten.length < 65536


/-- the message as `clientHelloMsg.unmarshal` holds it before the first extension -/
def chBase (v : ClientHelloMsg) : ClientHelloMsg :=
  { v with nextProtoNeg := false, serverName := [], ocspStapling := false, scts := false, supportedCurves := [],
           supportedPoints := [], ticketSupported := false, sessionTicket := [], supportedSignatureAlgorithms := [],
           secureRenegotiation := [], secureRenegotiationSupported := v.cipherSuites.any (· = 255), alpnProtocols := [] }
def chM1 (v : ClientHelloMsg) : ClientHelloMsg := { chBase v with nextProtoNeg := v.nextProtoNeg }
def chM2 (v : ClientHelloMsg) : ClientHelloMsg := { chM1 v with serverName := v.serverName }
def chM3 (v : ClientHelloMsg) : ClientHelloMsg := { chM2 v with ocspStapling := v.ocspStapling }
def chM4 (v : ClientHelloMsg) : ClientHelloMsg := { chM3 v with supportedCurves := v.supportedCurves }
def chM5 (v : ClientHelloMsg) : ClientHelloMsg := { chM4 v with supportedPoints := v.supportedPoints }
def chM6 (v : ClientHelloMsg) : ClientHelloMsg :=
  { chM5 v with ticketSupported := v.ticketSupported, sessionTicket := v.sessionTicket }
def chM7 (v : ClientHelloMsg) : ClientHelloMsg :=
  { chM6 v with supportedSignatureAlgorithms := v.supportedSignatureAlgorithms }
def chM8 (v : ClientHelloMsg) : ClientHelloMsg :=
  { chM7 v with secureRenegotiation := v.secureRenegotiation, secureRenegotiationSupported := v.secureRenegotiationSupported }
def chM9 (v : ClientHelloMsg) : ClientHelloMsg := { chM8 v with alpnProtocols := v.alpnProtocols }

theorem cond_flat_len (c : Prop) [Decidable c] (e : Bytes) :
    ((if c then [e] else []).flatten).length = if c then e.length else 0 := by
  by_cases hc : c
  · simp only [if_pos hc, List.flatten_cons, List.flatten_nil, List.append_nil]
  · simp only [if_neg hc, List.flatten_nil, List.length_nil]

set_option linter.unusedSimpArgs false in
theorem chExtLoop_chExtensions (v : ClientHelloMsg) (h : WFClientHello v) :
    chExtLoop ((chExtensions v).flatten.length + 1) (chExtensions v).flatten (chBase v) = some v := by
  obtain ⟨hv, hr, hsid, hcs, hcsl, hcm, hcu, hpt, htk, hsa, hrn0, hrn, hscsv, halpn, hext⟩ := h
  simp only [chExtensions, List.flatten_append, List.length_append, cond_flat_len] at hext
  simp only [chExtensions, List.flatten_append, List.append_assoc]
  -- next_protocol_negotiation
  refine Eq.trans (ch_cond _ _ _ _ (chM1 v) ?_ ?_) ?_
  · intro c
    refine ch_step_ext 13172 [] _ _ _ (by decide) (by decide) ?_
    rw [List.nil_append]
    show chExtension (chBase v) 13172 0 _ = _
    rw [chExt_npn]
    obtain ⟨⟩ := v
    simp_all [chBase, chM1, chM2, chM3, chM4, chM5, chM6, chM7, chM8, chM9]
  · intro c
    have c2 : v.nextProtoNeg = false := by simpa using c
    obtain ⟨⟩ := v
    simp_all [chBase, chM1, chM2, chM3, chM4, chM5, chM6, chM7, chM8, chM9]
  -- server_name
  refine Eq.trans (ch_cond _ _ _ _ (chM2 v) ?_ ?_) ?_
  · intro c
    have e2 : (put16 (v.serverName.length + 3) ++ ([0] ++ (put16 v.serverName.length ++ v.serverName))).length =
        v.serverName.length + 5 := by
      simp only [put16, List.length_append, List.length_cons, List.length_nil] <;> omega
    have hb : v.serverName.length + 5 < 65536 := by
      simp only [c, if_true, put16, List.length_append, List.length_cons, List.length_nil] at hext
      omega
    rw [← e2, List.append_assoc, List.append_assoc]
    refine ch_step_ext 0 _ _ _ _ (by decide) (by rw [e2]; omega) ?_
    rw [List.append_assoc, List.append_assoc, List.append_assoc, e2, chExt_sni _ _ _ c hb]
    obtain ⟨⟩ := v
    simp_all [chBase, chM1, chM2, chM3, chM4, chM5, chM6, chM7, chM8, chM9]
  · intro c
    have c2 : v.serverName = [] := List.eq_nil_of_length_eq_zero (by omega)
    obtain ⟨⟩ := v
    simp_all [chBase, chM1, chM2, chM3, chM4, chM5, chM6, chM7, chM8, chM9]
  -- status_request
  refine Eq.trans (ch_cond _ _ _ _ (chM3 v) ?_ ?_) ?_
  · intro c
    have e : put16 5 ++ [0, 5, 1, 0, 0, 0, 0] = put16 5 ++ (put16 ([1, 0, 0, 0, 0] : Bytes).length ++ [1, 0, 0, 0, 0]) := by
      decide
    rw [e, List.append_assoc, List.append_assoc]
    refine ch_step_ext 5 _ _ _ _ (by decide) (by decide) ?_
    show chExtension (chM2 v) 5 5 _ = _
    rw [chExt_ocsp]
    obtain ⟨⟩ := v
    simp_all [chBase, chM1, chM2, chM3, chM4, chM5, chM6, chM7, chM8, chM9]
  · intro c
    have c2 : v.ocspStapling = false := by simpa using c
    obtain ⟨⟩ := v
    simp_all [chBase, chM1, chM2, chM3, chM4, chM5, chM6, chM7, chM8, chM9]
  -- supported_curves
  refine Eq.trans (ch_cond _ _ _ _ (chM4 v) ?_ ?_) ?_
  · intro c
    have e2 : (put16 (2 * v.supportedCurves.length) ++ writeU16s v.supportedCurves).length =
        2 + 2 * v.supportedCurves.length := by
      simp only [put16, List.length_append, List.length_cons, List.length_nil, writeU16s_length] <;> omega
    have hb : 2 + 2 * v.supportedCurves.length < 65536 := by
      simp only [c, if_true, put16, List.length_append, List.length_cons, List.length_nil, writeU16s_length] at hext
      omega
    rw [← e2, List.append_assoc, List.append_assoc]
    refine ch_step_ext 10 _ _ _ _ (by decide) (by rw [e2]; omega) ?_
    rw [List.append_assoc, e2, chExt_curves _ _ _ hcu hb]
    obtain ⟨⟩ := v
    simp_all [chBase, chM1, chM2, chM3, chM4, chM5, chM6, chM7, chM8, chM9]
  · intro c
    have c2 : v.supportedCurves = [] := List.eq_nil_of_length_eq_zero (by omega)
    obtain ⟨⟩ := v
    simp_all [chBase, chM1, chM2, chM3, chM4, chM5, chM6, chM7, chM8, chM9]
  -- ec_point_formats
  refine Eq.trans (ch_cond _ _ _ _ (chM5 v) ?_ ?_) ?_
  · intro c
    have e2 : (put8 v.supportedPoints.length ++ v.supportedPoints).length = 1 + v.supportedPoints.length := by
      simp only [put8, List.length_append, List.length_cons, List.length_nil] <;> omega
    rw [← e2, List.append_assoc, List.append_assoc]
    refine ch_step_ext 11 _ _ _ _ (by decide) (by rw [e2]; omega) ?_
    rw [List.append_assoc, e2, chExt_points _ _ _ hpt]
    obtain ⟨⟩ := v
    simp_all [chBase, chM1, chM2, chM3, chM4, chM5, chM6, chM7, chM8, chM9]
  · intro c
    have c2 : v.supportedPoints = [] := List.eq_nil_of_length_eq_zero (by omega)
    obtain ⟨⟩ := v
    simp_all [chBase, chM1, chM2, chM3, chM4, chM5, chM6, chM7, chM8, chM9]
  -- session_ticket
  refine Eq.trans (ch_cond _ _ _ _ (chM6 v) ?_ ?_) ?_
  · intro c
    have hb : v.sessionTicket.length < 65536 := by
      simp only [c, if_true, put16, List.length_append, List.length_cons, List.length_nil] at hext
      omega
    rw [List.append_assoc, List.append_assoc]
    refine ch_step_ext 35 _ _ _ _ (by decide) hb ?_
    rw [chExt_ticket]
    obtain ⟨⟩ := v
    simp_all [chBase, chM1, chM2, chM3, chM4, chM5, chM6, chM7, chM8, chM9]
  · intro c
    have c2 : v.ticketSupported = false := by simpa using c
    have := htk c2
    obtain ⟨⟩ := v
    simp_all [chBase, chM1, chM2, chM3, chM4, chM5, chM6, chM7, chM8, chM9]
  -- signature_algorithms
  refine Eq.trans (ch_cond _ _ _ _ (chM7 v) ?_ ?_) ?_
  · intro c
    have e2 : (put16 (2 * v.supportedSignatureAlgorithms.length) ++ writeU16s v.supportedSignatureAlgorithms).length =
        2 + 2 * v.supportedSignatureAlgorithms.length := by
      simp only [put16, List.length_append, List.length_cons, List.length_nil, writeU16s_length] <;> omega
    have hb : 2 + 2 * v.supportedSignatureAlgorithms.length < 65536 := by
      simp only [c, if_true, put16, List.length_append, List.length_cons, List.length_nil, writeU16s_length] at hext
      omega
    rw [← e2, List.append_assoc, List.append_assoc]
    refine ch_step_ext 13 _ _ _ _ (by decide) (by rw [e2]; omega) ?_
    rw [List.append_assoc, e2, chExt_sigalgs _ _ _ hsa hb]
    obtain ⟨⟩ := v
    simp_all [chBase, chM1, chM2, chM3, chM4, chM5, chM6, chM7, chM8, chM9]
  · intro c
    have c2 : v.supportedSignatureAlgorithms = [] := List.eq_nil_of_length_eq_zero (by omega)
    obtain ⟨⟩ := v
    simp_all [chBase, chM1, chM2, chM3, chM4, chM5, chM6, chM7, chM8, chM9]
  -- renegotiation_info
  refine Eq.trans (ch_cond _ _ _ _ (chM8 v) ?_ ?_) ?_
  · intro c
    have e : put16 65281 ++ ([0] ++ (put8 (v.secureRenegotiation.length + 1) ++ (put8 v.secureRenegotiation.length ++
        v.secureRenegotiation))) = put16 65281 ++ (put16 (put8 v.secureRenegotiation.length ++ v.secureRenegotiation).length ++
        (put8 v.secureRenegotiation.length ++ v.secureRenegotiation)) := by
      simp only [put16, put8, List.length_append, List.length_cons, List.length_nil, List.cons_append, List.nil_append]
      rw [show (v.secureRenegotiation.length + 1) / 256 = 0 by omega]
      rw [show v.secureRenegotiation.length + 0 + 1 = v.secureRenegotiation.length + 1 by omega]
      rfl
    have e2 : (put8 v.secureRenegotiation.length ++ v.secureRenegotiation).length = 1 + v.secureRenegotiation.length := by
      simp only [put8, List.length_append, List.length_cons, List.length_nil] <;> omega
    rw [e, List.append_assoc, List.append_assoc]
    refine ch_step_ext 65281 _ _ _ _ (by decide) (by rw [e2]; omega) ?_
    rw [List.append_assoc, e2, chExt_reneg _ _ _ hrn]
    obtain ⟨⟩ := v
    simp_all [chBase, chM1, chM2, chM3, chM4, chM5, chM6, chM7, chM8, chM9]
  · intro c
    have c2 : v.secureRenegotiationSupported = false := by simpa using c
    have a1 := hrn0 c2
    have a2 : v.cipherSuites.any (· = 255) = false := by
      cases hs : v.cipherSuites.any (· = 255) with
      | false => rfl
      | true => rw [hscsv hs] at c2; cases c2
    obtain ⟨⟩ := v
    simp_all [chBase, chM1, chM2, chM3, chM4, chM5, chM6, chM7, chM8, chM9]
  -- application_layer_protocol_negotiation
  refine Eq.trans (ch_cond _ _ _ _ (chM9 v) ?_ ?_) ?_
  · intro c
    have e2 : (put16 (protoEntries v.alpnProtocols).length ++ protoEntries v.alpnProtocols).length =
        (protoEntries v.alpnProtocols).length + 2 := by
      simp only [put16, List.length_append, List.length_cons, List.length_nil] <;> omega
    have hb : (protoEntries v.alpnProtocols).length + 2 < 65536 := by
      simp only [c, if_true, put16, List.length_append, List.length_cons, List.length_nil] at hext
      omega
    rw [← e2, List.append_assoc, List.append_assoc]
    refine ch_step_ext 16 _ _ _ _ (by decide) (by rw [e2]; omega) ?_
    rw [List.append_assoc, e2, chExt_alpn _ _ _ halpn hb]
    obtain ⟨⟩ := v
    simp_all [chBase, chM1, chM2, chM3, chM4, chM5, chM6, chM7, chM8, chM9]
  · intro c
    have c2 : v.alpnProtocols = [] := List.eq_nil_of_length_eq_zero (by omega)
    obtain ⟨⟩ := v
    simp_all [chBase, chM1, chM2, chM3, chM4, chM5, chM6, chM7, chM8, chM9]
  -- signed_certificate_timestamp
  refine ch_cond_last _ _ _ _ ?_ ?_
  · intro c
    have e : put16 18 ++ [0, 0] ++ [] = put16 18 ++ (put16 ([] : Bytes).length ++ (([] : Bytes) ++ [])) := by decide
    rw [e]
    rw [ch_step_ext 18 [] [] _ v (by decide) (by decide) ?_]
    · simp [chExtLoop]
    · show chExtension (chM9 v) 18 0 _ = _
      rw [chExt_sct]
      obtain ⟨⟩ := v
      simp_all [chBase, chM1, chM2, chM3, chM4, chM5, chM6, chM7, chM8, chM9]
  · intro c
    have c2 : v.scts = false := by simpa using c
    obtain ⟨⟩ := v
    simp_all [chBase, chM1, chM2, chM3, chM4, chM5, chM6, chM7, chM8, chM9]


theorem cond_len1 (c : Prop) [Decidable c] (e : Bytes) :
    ((if c then [e] else []) : List Bytes).length = if c then 1 else 0 := by
  by_cases hc : c
  · simp only [if_pos hc, List.length_cons, List.length_nil]
  · simp only [if_neg hc, List.length_nil]

theorem chNum_zero (v : ClientHelloMsg) (h : (chExtensions v).length = 0) :
    v.nextProtoNeg = false ∧ v.serverName.length = 0 ∧ v.ocspStapling = false ∧ v.supportedCurves.length = 0 ∧
    v.supportedPoints.length = 0 ∧ v.ticketSupported = false ∧ v.supportedSignatureAlgorithms.length = 0 ∧
    v.secureRenegotiationSupported = false ∧ v.alpnProtocols.length = 0 ∧ v.scts = false := by
  simp only [chExtensions, List.length_append, cond_len1] at h
  refine ⟨?_, ?_, ?_, ?_, ?_, ?_, ?_, ?_, ?_, ?_⟩
  · cases hc : v.nextProtoNeg with
    | false => rfl
    | true => rw [hc] at h; simp only [if_true] at h; omega
  · by_cases hc : v.serverName.length > 0
    · rw [if_pos hc] at h; omega
    · omega
  · cases hc : v.ocspStapling with
    | false => rfl
    | true => rw [hc] at h; simp only [if_true] at h; omega
  · by_cases hc : v.supportedCurves.length > 0
    · rw [if_pos hc] at h; omega
    · omega
  · by_cases hc : v.supportedPoints.length > 0
    · rw [if_pos hc] at h; omega
    · omega
  · cases hc : v.ticketSupported with
    | false => rfl
    | true => rw [hc] at h; simp only [if_true] at h; omega
  · by_cases hc : v.supportedSignatureAlgorithms.length > 0
    · rw [if_pos hc] at h; omega
    · omega
  · cases hc : v.secureRenegotiationSupported with
    | false => rfl
    | true => rw [hc] at h; simp only [if_true] at h; omega
  · by_cases hc : v.alpnProtocols.length > 0
    · rw [if_pos hc] at h; omega
    · omega
  · cases hc : v.scts with
    | false => rfl
    | true => rw [hc] at h; simp only [if_true] at h; omega

theorem get16_suites (n : Nat) (h : 2 * n < 65536) :
    get16 (BitVec.ofNat 8 (n / 128)) (BitVec.ofNat 8 (n * 2)) = 2 * n := by
  unfold get16; simp only [BitVec.toNat_ofNat]; omega

theorem drop2 (a b : Byte) (r : Bytes) (n : Nat) : List.drop (2 + n) (a :: b :: r) = List.drop n r := by
  rw [Nat.add_comm]; simp only [List.drop_succ_cons]

theorem drop1 (a : Byte) (r : Bytes) (n : Nat) : List.drop (1 + n) (a :: r) = List.drop n r := by
  rw [Nat.add_comm]; simp only [List.drop_succ_cons]

/-- `unmarshalClientHello_marshalClientHello`: `clientHelloMsg.unmarshal` reads back every field of what
    `marshal` wrote — version, random, session id, cipher suites, compression methods and all ten extensions
    (NPN, server name, status request, curves, point formats, session ticket, signature algorithms,
    renegotiation data, ALPN names, SCT) — for every value inside the ranges of the length fields
    (`WFClientHello`) -/
theorem unmarshalClientHello_marshalClientHello (v : ClientHelloMsg) (h : WFClientHello v) :
    unmarshalClientHello (marshalClientHello v) = some v := by
  have hloop := chExtLoop_chExtensions v h
  obtain ⟨hv, hr, hsid, hcs, hcsl, hcm, hcu, hpt, htk, hsa, hrn0, hrn, hscsv, halpn, hext⟩ := h
  have hbase : chBase v = {
      vers := v.vers, random := v.random, sessionId := v.sessionId, cipherSuites := v.cipherSuites,
      compressionMethods := v.compressionMethods, nextProtoNeg := false, serverName := [], ocspStapling := false,
      scts := false, supportedCurves := [], supportedPoints := [], ticketSupported := false, sessionTicket := [],
      supportedSignatureAlgorithms := [], secureRenegotiation := [],
      secureRenegotiationSupported := v.cipherSuites.any (· = 255), alpnProtocols := [] } := rfl
  have hwl := writeU16s_length v.cipherSuites
  unfold marshalClientHello
  simp only [random32_eq _ hr]
  by_cases hn : (chExtensions v).length > 0
  · simp only [if_pos hn]
    generalize hEdef : (chExtensions v).flatten = E at hloop hext ⊢
    rw [← List.append_assoc [1]]
    rw [unmarshalClientHello_split _ _ _ _ _ rfl hr hsid hv
      (by simp only [put8, List.length_append, List.length_cons, List.length_nil]; omega)]
    unfold chTail
    simp only [put16, put8]
    bsimp
    rw [get16_suites _ hcsl, if_neg (by omega), if_neg (by simp only [List.length_append, List.length_cons]; omega),
      show 2 * v.cipherSuites.length / 2 = v.cipherSuites.length by omega, readU16s_writeU16s _ _ hcs,
      drop2, ← hwl, List.drop_left]
    bsimp
    rw [toNat_ofNat8 _ hcm, if_neg (by omega), if_neg (by simp only [List.length_append, List.length_cons]; omega),
      List.take_left, drop1, List.drop_left]
    bsimp
    rw [get16_put16 _ hext, if_neg (by omega), if_neg (by omega), if_neg (by omega), ← hbase, hloop]
  · simp only [if_neg hn]
    obtain ⟨c1, c2, c3, c4, c5, c6, c7, c8, c9, c10⟩ := chNum_zero v (by omega)
    rw [← List.append_assoc [1]]
    rw [unmarshalClientHello_split _ _ _ _ _ rfl hr hsid hv
      (by simp only [put8, List.length_append, List.length_cons, List.length_nil]; omega)]
    unfold chTail
    simp only [put8]
    bsimp
    rw [get16_suites _ hcsl, if_neg (by omega), if_neg (by simp only [List.length_append, List.length_cons]; omega),
      show 2 * v.cipherSuites.length / 2 = v.cipherSuites.length by omega, readU16s_writeU16s _ _ hcs,
      drop2, ← hwl, List.drop_left]
    bsimp
    rw [toNat_ofNat8 _ hcm, if_neg (by omega), if_neg (by simp only [List.length_append]; omega),
      List.take_left, drop1, List.drop_left]
    rw [if_pos List.length_nil, ← hbase]
    have a1 : v.serverName = [] := List.eq_nil_of_length_eq_zero c2
    have a2 : v.supportedCurves = [] := List.eq_nil_of_length_eq_zero c4
    have a3 : v.supportedPoints = [] := List.eq_nil_of_length_eq_zero c5
    have a4 := htk c6
    have a5 : v.supportedSignatureAlgorithms = [] := List.eq_nil_of_length_eq_zero c7
    have a6 := hrn0 c8
    have a7 : v.alpnProtocols = [] := List.eq_nil_of_length_eq_zero c9
    have a8 : v.cipherSuites.any (· = 255) = false := by
      cases hs : v.cipherSuites.any (· = 255) with
      | false => rfl
      | true => rw [hscsv hs] at c8; cases c8
    obtain ⟨⟩ := v
    simp_all [chBase]

-- what re-marshalling does to the ignored header ----------------------------------------------------------

/-- an accepted ServerKeyExchange re-marshalled: the same bytes behind a header that `marshal` computes -/
theorem marshalServerKeyExchange_unmarshalServerKeyExchange (b : Bytes) (v : ServerKeyExchangeMsg)
    (h : unmarshalServerKeyExchange b = some v) :
    marshalServerKeyExchange v = [12] ++ (put24 (b.length - 4) ++ b.drop 4) := by
  obtain ⟨hd, h4, rfl⟩ := (unmarshalServerKeyExchange_iff b v).mp h
  rw [List.drop_left' h4]
  simp only [marshalServerKeyExchange, List.length_append, h4, Nat.add_sub_cancel_left]

/-- an accepted Finished re-marshalled: the same bytes behind a header that `marshal` computes (one length byte) -/
theorem marshalFinished_unmarshalFinished (b : Bytes) (v : FinishedMsg) (h : unmarshalFinished b = some v) :
    marshalFinished v = [20, 0, 0] ++ (put8 (b.length - 4) ++ b.drop 4) := by
  obtain ⟨hd, h4, rfl⟩ := (unmarshalFinished_iff b v).mp h
  rw [List.drop_left' h4]
  simp only [marshalFinished, List.length_append, h4, Nat.add_sub_cancel_left]

-- non-vacuity (tests) ---------------------------------------------------------------------------------------

/-- `lastNonempty` in words -/
theorem lastNonempty_iff (cs : List Bytes) : lastNonempty cs ↔ ∀ c, cs.getLast? = some c → c ≠ [] := by
  induction cs with
  | nil => simp [lastNonempty]
  | cons c cs ih =>
    cases cs with
    | nil => simp [lastNonempty]
    | cons c2 cs2 =>
      simp only [lastNonempty]
      rw [ih, List.getLast?_cons_cons]

-- a list of two certificates, the first one empty
example : unmarshalCertificate [11, 0, 0, 10, 0, 0, 7, 0, 0, 0, 0, 0, 1, 0xaa] = some ⟨[[], [0xaa]]⟩ := by decide
example : marshalCertificate ⟨[[], [0xaa]]⟩ = [11, 0, 0, 10, 0, 0, 7, 0, 0, 0, 0, 0, 1, 0xaa] := by decide
-- header bytes are not looked at
example : unmarshalCertificate [0, 0xff, 0xff, 0xff, 0, 0, 4, 0, 0, 1, 0xaa] = some ⟨[[0xaa]]⟩ := by decide
-- the empty list
example : unmarshalCertificate [11, 0, 0, 3, 0, 0, 0] = some ⟨[]⟩ := by decide
-- a list ending in an empty certificate: written by `marshal`, rejected by `unmarshal`
example : marshalCertificate ⟨[[0xaa], []]⟩ = [11, 0, 0, 10, 0, 0, 7, 0, 0, 1, 0xaa, 0, 0, 0] := by decide
example : unmarshalCertificate (marshalCertificate ⟨[[0xaa], []]⟩) = none := by decide
example : unmarshalCertificate (marshalCertificate ⟨[[]]⟩) = none := by decide
-- one, two, three stray bytes after the entries, every enclosing length adjusted
example : unmarshalCertificate [11, 0, 0, 8, 0, 0, 5, 0, 0, 1, 0xaa, 0xbb] = none := by decide
example : unmarshalCertificate [11, 0, 0, 9, 0, 0, 6, 0, 0, 1, 0xaa, 0xbb, 0xcc] = none := by decide
example : unmarshalCertificate [11, 0, 0, 10, 0, 0, 7, 0, 0, 1, 0xaa, 0xbb, 0xcc, 0xdd] = none := by decide
-- trailing byte, truncation
example : unmarshalCertificate [11, 0, 0, 7, 0, 0, 4, 0, 0, 1, 0xaa, 0] = none := by decide
example : unmarshalCertificate [11, 0, 0, 7, 0, 0, 4, 0, 0, 1] = none := by decide
example : WFCertificate ⟨[[], [0xaa]]⟩ := ⟨by decide, by decide, by simp [lastNonempty]⟩

example : unmarshalClientKeyExchange [16, 0, 0, 2, 1, 2] = some ⟨[1, 2]⟩ := by decide
example : unmarshalClientKeyExchange [16, 0, 0, 2, 1, 2, 3] = none := by decide
example : unmarshalClientKeyExchange [16, 0, 0, 3, 1, 2] = none := by decide
example : unmarshalFinished [20, 0, 0, 12, 1, 2, 3] = some ⟨[1, 2, 3]⟩ := by decide
example : unmarshalServerKeyExchange [12, 9, 9, 9] = some ⟨[]⟩ := by decide
example : unmarshalServerHelloDone [14, 0, 0, 0] = some ⟨⟩ := by decide
example : unmarshalServerHelloDone [14, 0, 0, 0, 0] = none := by decide
example : unmarshalHelloRequest [0, 0, 0] = none := by decide
example : unmarshalCertificateVerify false [15, 0, 0, 4, 0, 2, 7, 8] = some ⟨false, 0, [7, 8]⟩ := by decide
example : unmarshalCertificateVerify true [15, 0, 0, 6, 7, 7, 0, 2, 7, 8] = some ⟨true, 1799, [7, 8]⟩ := by decide
example : unmarshalCertificateVerify true [15, 0, 0, 4, 0, 2, 7, 8] = none := by decide
example : unmarshalNewSessionTicket [4, 0, 0, 8, 9, 9, 9, 9, 0, 2, 5, 6] = some ⟨[5, 6]⟩ := by decide
example : unmarshalCertificateRequest true [13, 0, 0, 13, 2, 1, 64, 0, 2, 7, 7, 0, 4, 0, 2, 5, 6] =
    some ⟨true, [1, 64], [1799], [[5, 6]]⟩ := by decide
example : unmarshalCertificateRequest false [13, 0, 0, 9, 2, 1, 64, 0, 4, 0, 0, 0, 0] =
    some ⟨false, [1, 64], [], [[], []]⟩ := by decide
example : unmarshalCertificateRequestGM [13, 0, 0, 4, 1, 64, 0, 0] = some ⟨[64], []⟩ := by decide
-- zero certificate types; a name list one byte short; a byte after the name list
example : unmarshalCertificateRequestGM [13, 0, 0, 3, 0, 0, 0] = none := by decide
example : unmarshalCertificateRequestGM [13, 0, 0, 7, 1, 64, 0, 3, 0, 2, 5] = none := by decide
example : unmarshalCertificateRequestGM [13, 0, 0, 5, 1, 64, 0, 0, 0] = none := by decide
example : unmarshalCertificateStatus [22, 0, 0, 6, 1, 0, 0, 2, 5, 6] = some ⟨1, [5, 6]⟩ := by decide
example : unmarshalCertificateStatus [22, 0, 0, 6, 1, 0, 0, 2, 5, 6, 7] = none := by decide
example : unmarshalCertificateStatus [22, 0, 0, 6, 2, 0, 0, 2, 5, 6, 7] = some ⟨2, []⟩ := by decide
example : unmarshalNextProto [67, 0, 0, 5, 2, 104, 50, 1, 0] = some ⟨[104, 50]⟩ := by decide
example : unmarshalNextProto [67, 0, 0, 5, 2, 104, 50, 1] = none := by decide

-- the hello messages: non-vacuity -------------------------------------------------------------------------

def sampleServerHello : ServerHelloMsg :=
  { vers := 0x0303, random := List.replicate 32 7, sessionId := [1, 2], cipherSuite := 0xc02f, compressionMethod := 0,
    nextProtoNeg := true, nextProtos := [[104, 50], [120]], ocspStapling := true, scts := [[9, 9], [8]],
    ticketSupported := true, secureRenegotiation := [5, 6], secureRenegotiationSupported := true,
    alpnProtocol := [104, 50] }

set_option maxRecDepth 20000 in
example : unmarshalServerHello (marshalServerHello sampleServerHello) = some sampleServerHello := by decide
set_option maxRecDepth 20000 in
example : WFServerHello sampleServerHello := by unfold WFServerHello; decide
set_option maxRecDepth 20000 in
example : (marshalServerHello sampleServerHello).length = 92 := by decide
-- a second NPN extension appends, a second SCT extension replaces, an unknown extension is skipped
set_option maxRecDepth 20000 in
example : (unmarshalServerHello ([2, 0, 0, 0, 3, 3] ++ List.replicate 32 7 ++ [0, 0, 47, 0, 0, 36,
    0x33, 0x74, 0, 2, 1, 97, 0x33, 0x74, 0, 2, 1, 98, 0, 18, 0, 5, 0, 3, 0, 1, 9, 0, 18, 0, 5, 0, 3, 0, 1, 8,
    0xab, 0xcd, 0, 2, 1, 2])).map (fun m => (m.nextProtos, m.scts)) = some ([[97], [98]], [[8]]) := by decide
-- one byte missing at the end; one stray byte inside the extension block
set_option maxRecDepth 20000 in
example : unmarshalServerHello ((marshalServerHello sampleServerHello).dropLast) = none := by decide
set_option maxRecDepth 20000 in
example : unmarshalServerHello (marshalServerHello sampleServerHello ++ [0]) = none := by decide

def sampleClientHello : ClientHelloMsg :=
  { vers := 0x0101, random := List.replicate 32 3, sessionId := [], cipherSuites := [0xe013, 0x00ff],
    compressionMethods := [0], nextProtoNeg := true, serverName := [97, 46, 98], ocspStapling := true, scts := true,
    supportedCurves := [23], supportedPoints := [0], ticketSupported := true, sessionTicket := [1, 2, 3],
    supportedSignatureAlgorithms := [0x0403], secureRenegotiation := [], secureRenegotiationSupported := true,
    alpnProtocols := [[104, 50], [120]] }

set_option maxRecDepth 20000 in
example : unmarshalClientHello (marshalClientHello sampleClientHello) = some sampleClientHello := by decide
set_option maxRecDepth 20000 in
example : WFClientHello sampleClientHello := by unfold WFClientHello; decide
-- the signalling suite 0x00ff alone sets the renegotiation flag: this value does not survive the round trip
set_option maxRecDepth 20000 in
example : (unmarshalClientHello (marshalClientHello { sampleClientHello with secureRenegotiationSupported := false })).map
    (fun m => m.secureRenegotiationSupported) = some true := by decide
set_option maxRecDepth 20000 in
example : unmarshalClientHello ((marshalClientHello sampleClientHello).dropLast) = none := by decide
set_option maxRecDepth 20000 in
example : unmarshalClientHello (marshalClientHello sampleClientHello ++ [0]) = none := by decide

end Props.C15Codec
