/-
C14 — Keys, signatures and ciphertexts survive every offered serialization unchanged.

The byte-level codecs the library itself implements are specified in Lean (`toHex/ofHex`, fixed
32-byte big-endian integers, DER of signatures) and proved to round-trip for every value; the real
code is compared with these specs and checked for read-back equality on every run (hexpriv, hexpub,
compress/decompress, sigasn1, cipherasn1, pkcs8 with and without password incl. wrong passwords,
pubpem, the key-pair loaders with matching / different / negated keys).
-/
import Gmsm.Spec.SM2
import Gmsm.Proofs.BytesNat
import Gmsm.Props.C01
namespace Props.C14
open Gmsm

theorem hexVal_hexDigit (n : Nat) (h : n < 16) : hexVal (hexDigit n) = some n := by
  have : n = 0 ∨ n = 1 ∨ n = 2 ∨ n = 3 ∨ n = 4 ∨ n = 5 ∨ n = 6 ∨ n = 7 ∨ n = 8 ∨ n = 9 ∨ n = 10 ∨ n = 11 ∨
      n = 12 ∨ n = 13 ∨ n = 14 ∨ n = 15 := by omega
  rcases this with h|h|h|h|h|h|h|h|h|h|h|h|h|h|h|h <;> subst h <;> decide

theorem ofHexAux_toHex (bs acc : Bytes) :
    ofHexAux (bs.flatMap (fun b => [hexDigit (b.toNat / 16), hexDigit (b.toNat % 16)])) acc =
      some (acc.reverse ++ bs) := by
  induction bs generalizing acc with
  | nil => simp [ofHexAux]
  | cons b bs ih =>
    simp only [List.flatMap_cons, List.cons_append, List.nil_append]
    unfold ofHexAux
    have hb : b.toNat < 256 := b.isLt
    rw [hexVal_hexDigit _ (by omega), hexVal_hexDigit _ (by omega)]
    simp only
    rw [ih]
    have : BitVec.ofNat 8 (b.toNat / 16 * 16 + b.toNat % 16) = b := by
      have : b.toNat / 16 * 16 + b.toNat % 16 = b.toNat := by omega
      rw [this]; simp
    rw [this]; simp

/-- T1 `hex_roundtrip`: parsing the hexadecimal text of any non-empty byte string returns it -/
theorem hex_roundtrip (bs : Bytes) (h : bs ≠ []) : ofHex (toHex bs) = some bs := by
  unfold ofHex toHex
  have hne : String.ofList (bs.flatMap fun b => [hexDigit (b.toNat / 16), hexDigit (b.toNat % 16)]) ≠ "-" := by
    cases bs with
    | nil => exact absurd rfl h
    | cons b bs =>
      intro hc
      have := congrArg String.toList hc
      simp at this
  simp only [hne, if_false, String.toList_ofList]
  have := ofHexAux_toHex bs []
  simpa using this

/-- the fixed-width key encoding always has 32 bytes (so its hexadecimal text has 64 digits) -/
theorem b32_length (v : Nat) : (Spec.SM2.b32 v).length = 32 := i2ospR_length 32 v

/-- T1 `hex_priv_roundtrip`: for every private key value d < 2^256 the 64-digit hexadecimal export
    reads back as d (including values with leading zero nibbles or bytes). -/
theorem hex_priv_roundtrip (d : Nat) (h : d < 256 ^ 32) :
    (ofHex (toHex (Spec.SM2.b32 d))).map os2ip = some d := by
  have hne : Spec.SM2.b32 d ≠ [] := by
    intro hc; have := b32_length d; rw [hc] at this; simp at this
  rw [hex_roundtrip _ hne]
  simp only [Option.map_some, Spec.SM2.b32]
  rw [os2ip_i2ospR_of_lt 32 d h]

/-- T1 `hex_pub_roundtrip`: 04 ‖ x ‖ y with 32-byte coordinates determines (x, y) -/
theorem pub_encoding_roundtrip (x y : Nat) (hx : x < 256 ^ 32) (hy : y < 256 ^ 32) :
    let enc := Spec.SM2.b32 x ++ Spec.SM2.b32 y
    os2ip (enc.take 32) = x ∧ os2ip (enc.drop 32) = y := by
  intro enc
  have l := b32_length x
  constructor
  · simp only [enc]
    rw [List.take_left' l]
    exact os2ip_i2ospR_of_lt 32 x hx
  · simp only [enc]
    rw [List.drop_left' l]
    exact os2ip_i2ospR_of_lt 32 y hy

/-- T1 `sig_asn1_roundtrip`: the ASN.1 signature form round-trips for all (r, s) below 2^256 (C01) -/
theorem sig_asn1_roundtrip (r s : Nat) (hr : r < 256 ^ 32) (hs : s < 256 ^ 32) :
    Spec.DER.decSig (Spec.DER.encSig r s) = some ((r : Int), (s : Int)) := Props.C01.der_roundtrip r s hr hs

/-- compressed form: the parity byte is 0 or 1 and the x coordinate is recovered exactly -/
theorem compress_x_roundtrip (x y : Nat) (hx : x < 256 ^ 32) :
    let c := BitVec.ofNat 8 (y % 2) :: Spec.SM2.b32 x
    c.length = 33 ∧ os2ip c.tail = x ∧ (c.headD 0).toNat = y % 2 := by
  intro c
  refine ⟨by simp [c, b32_length], ?_, ?_⟩
  · simp only [c, List.tail_cons]; exact os2ip_i2ospR_of_lt 32 x hx
  · simp only [c, List.headD_cons, BitVec.toNat_ofNat]; omega

/-- T1 `loader_accepts_iff` (decision logic): a key-pair loader's decision is "the public point
    derived from the private key equals the certificate's public point" — in particular a key with the
    same x but the opposite y (d ↦ n − d) is a different key. -/
def loaderAccepts (certPub keyPub : Nat × Nat) : Bool := certPub.1 == keyPub.1 && certPub.2 == keyPub.2

theorem loader_accepts_iff (c k : Nat × Nat) : loaderAccepts c k = true ↔ c = k := by
  unfold loaderAccepts
  constructor
  · intro h
    simp only [Bool.and_eq_true, beq_iff_eq] at h
    exact Prod.ext h.1 h.2
  · intro h; subst h; simp

end Props.C14
