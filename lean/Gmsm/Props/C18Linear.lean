/-
C18 / C17 (x509/ber.go, as repaired): the object tree that `readObjectDepth` builds is LINEAR in the bytes it
consumed.  Every object — primitive or constructed — accounts for at least two bytes of the input that no
other object of the tree at the same level accounts for: the children of a definite-length parent are read one
after the other and each must END INSIDE the parent (`ber2der: BER object extends beyond its parent`), so the
spans of siblings are disjoint and nested in the parent's span.

Before the repair a child was allowed to run past the end of its parent; the parent then continued at its own
declared end, i.e. the bytes after it were parsed again by the grandparent.  k nested levels re-read the same
tail 2^k times: a 90-byte input made `ber2der` build millions of objects (found by a seeding agent and
reproduced with the harness op `ber2der`, see DESIGN §0.3).  With the check, `span_linear` below holds, which
with `depth_bounded` and `ber2der_cost` bounds the whole of `ber2der` by a constant multiple of the input.
-/
import Gmsm.Props.C18

namespace Model.BER
mutual
  /-- number of objects in a tree = number of `readObjectDepth` calls that returned successfully while it was
      built = number of `EncodeTo` calls that re-encode it -/
  def Obj.nodes : Obj → Nat
    | .prim _ _ => 1
    | .cons _ items => 1 + nodesItems items
  def nodesItems : List Obj → Nat
    | [] => 0
    | o :: os => o.nodes + nodesItems os
end
end Model.BER

namespace Props.C18
open Model.BER Gmsm

/-- every object of the tree owns two bytes of the span it was read from; the item loop of a definite-length
    parent never runs past the parent's end; together by induction on the fuel -/
theorem span_all (ber : Bytes) : ∀ f : Nat,
    (∀ off d o e, readObject f ber off d = .ok (o, e) → 2 * o.nodes + off ≤ e) ∧
    (∀ off ce ind d os e, readItems f ber off ce ind d = .ok (os, e) →
        2 * nodesItems os + off ≤ e ∧ (ind = false → off ≤ ce → e ≤ ce)) := by
  intro f
  induction f with
  | zero =>
    constructor
    · intro off d o e h; simp [readObject] at h
    · intro off ce ind d os e h; simp [readItems] at h
  | succ f ih =>
    obtain ⟨ihO, ihI⟩ := ih
    constructor
    · intro off d o e h
      rcases readObject_succ_cases ber off d with ⟨r, _, hr, hall⟩ | ⟨tag, o2, ce, ind, h1, h2, h3, _, hall⟩
      · rw [hall f] at h
        obtain ⟨h2, _, tag, c, rfl⟩ := hr o e h
        simp only [Obj.nodes]; omega
      · rw [hall f] at h
        cases hi : readItems f ber o2 ce ind (d + 1) with
        | error e => rw [hi] at h; simp [finish] at h
        | ok r =>
          obtain ⟨items, e1⟩ := r
          rw [hi] at h
          simp only [finish] at h
          injection h with h; injection h with ho he
          subst ho
          have := ihI _ _ _ _ _ _ hi
          simp only [Obj.nodes]
          cases ind with
          | true => simp at he; omega
          | false => simp at he; have := this.2 rfl h2; omega
    · intro off ce ind d os e h
      rcases readItems_ok_cases h with ⟨hos, he, _, _⟩ | ⟨o, e1, os1, ho, hi, hos, hF, _⟩
      · subst hos; subst he
        exact ⟨by simp [nodesItems], fun _ h => h⟩
      · subst hos
        have hO := ihO _ _ _ _ ho
        have hI := ihI _ _ _ _ _ _ hi
        refine ⟨by simp only [nodesItems]; omega, fun hind _ => hI.2 hind (hF hind).2⟩

/-- **Linear size**: an object that `readObjectDepth` returns for the bytes `[off, off')` has at most
    `(off' - off) / 2` nodes.  So the number of successful `readObjectDepth` calls, the size of the tree held in
    memory and the number of `EncodeTo` calls are all at most half the number of bytes consumed. -/
theorem span_linear {fuel : Nat} {ber : Bytes} {off d : Nat} {o : Obj} {off' : Nat}
    (h : readObject fuel ber off d = .ok (o, off')) : 2 * o.nodes ≤ off' - off := by
  have := (span_all ber fuel).1 off d o off' h; omega

/-- the children of a definite-length parent end inside the parent -/
theorem items_inside_parent {fuel : Nat} {ber : Bytes} {off ce d : Nat} {os : List Obj} {e : Nat}
    (hoff : off ≤ ce) (h : readItems fuel ber off ce false d = .ok (os, e)) : e ≤ ce :=
  ((span_all ber fuel).2 off ce false d os e h).2 rfl hoff

/-- **`ber2der` is linear in its input**: an accepted input of n bytes is the re-encoding of a tree of at most
    n/2 objects and depth at most 128; with `ber2der_cost` the encoder writes at most 129 × len(der) bytes. -/
theorem ber2der_linear {ber der : Bytes} (h : ber2der ber = .ok der) :
    ∃ o, der = encodeTo o ∧ 2 * o.nodes ≤ ber.length ∧ o.depth ≤ maxBERDepth := by
  unfold ber2der at h
  split at h
  · simp at h
  · cases hr : readObject (2 * ber.length + 2) ber 0 0 with
    | error e => rw [hr] at h; simp at h
    | ok r =>
      obtain ⟨o, e⟩ := r
      rw [hr] at h
      injection h with h
      have h1 := span_linear hr
      have h2 := ((progress_all ber _).1 _ _ _ _ hr).2
      have h3 := depth_bounded (by simp [maxBERDepth]) hr
      exact ⟨o, h.symm, by omega, by omega⟩

-- non-vacuity and tightness ----------------------------------------------------------------------------------------

/-- a child that runs past the end of its definite-length parent is refused (`30 02` holds `04 03 …`) -/
example : ber2der [0x30, 0x04, 0x30, 0x02, 0x04, 0x03, 0x01, 0x02, 0x03] = .error .beyondParent := by rfl

/-- the same bytes with consistent lengths are accepted and have 3 nodes for 9 bytes -/
example : (readObject 9 [0x30, 0x07, 0x30, 0x05, 0x04, 0x03, 0x01, 0x02, 0x03] 0 0).toOption.map (·.1.nodes)
    = some 3 := by rfl

/-- the bound is attained: `05 00` is one node in two bytes -/
example : (readObject 1 [0x05, 0x00] 0 0).toOption.map (fun r => (r.1.nodes, r.2)) = some (1, 2) := by rfl

end Props.C18
