/-
C17 (addition) — the BER → DER transcoder in front of `ParsePKCS7` is stable: DER in, the same DER out.

* `WF`: well-formedness of an object tree for re-reading (tag octets of the shape `readObject` consumes,
  constructed bit set exactly for structured objects, every content / inner encoding shorter than 2^31).
* `readObject_encodeTo` / `readItems_encodeItems`: `readObject` reads the encoding `encodeTo o` of a
  well-formed tree back as `o`, at any position inside a longer byte string, consuming exactly the encoding.
* `ber2der_encodeTo`: `ber2der (encodeTo o) = .ok (encodeTo o)` for well-formed `o` of depth ≤ 128.
* `readObject_wf`: everything `readObject` returns is well-formed as soon as its encoding is shorter than 2^31.
* `ber2der_idempotent`: `ber2der ber = .ok der → der.length < 2^31 → ber2der der = .ok der`.
-/
import Gmsm.Props.C17
import Gmsm.Props.C18
namespace Props.C17Idem
open Gmsm Model.BER

/-- the continuation octets of a high-tag-number tag: all but the last ≥ 0x80, the last < 0x80 -/
def contTag : Bytes → Prop
  | [] => False
  | x :: r => if x.toNat ≥ 0x80 then contTag r else r = []

/-- shape of the tag octets `readObject` consumes, with the constructed bit -/
def TagOK (tag : Bytes) (cons : Bool) : Prop :=
  match tag with
  | [] => False
  | b :: ts => ((b.toNat / 32) % 2 = 1 ↔ cons = true) ∧ (if b.toNat % 32 = 0x1F then contTag ts else ts = [])

/-- the byte right after a prefix -/
theorem getElem?_mid (pre : Bytes) (x : Byte) (rest : Bytes) : (pre ++ x :: rest)[pre.length]? = some x := by
  simp

/-- `readTag` consumes exactly a block of continuation octets, wherever it sits -/
theorem readTag_contTag : ∀ (ts pre rest : Bytes) (fuel : Nat), contTag ts → ts.length ≤ fuel →
    readTag fuel (pre ++ ts ++ rest) pre.length = .ok (pre.length + ts.length) := by
  intro ts
  induction ts with
  | nil => intro pre rest fuel h; simp [contTag] at h
  | cons x r ih =>
    intro pre rest fuel h hf
    cases fuel with
    | zero => simp at hf
    | succ f =>
      rw [readTag]
      have e : pre ++ x :: r ++ rest = pre ++ x :: (r ++ rest) := by simp
      rw [e, getElem?_mid]
      dsimp only
      simp only [contTag] at h
      split
      · rename_i hge
        rw [if_pos hge] at h
        have := ih (pre ++ [x]) rest f h (by simpa using hf)
        simp only [List.length_append, List.length_cons, List.length_nil] at this
        have e2 : pre ++ [x] ++ r ++ rest = pre ++ x :: (r ++ rest) := by simp
        rw [e2] at this
        rw [this]; simp; omega
      · rename_i hge
        rw [if_neg hge] at h
        subst h; simp

/-- one `readObject` call whose header (tag, definite length) is known: primitive result, depth check, or
    the item loop over the content -/
theorem readObject_header {ber : Bytes} {off d f : Nat} {b l : Byte} {tagEnd n off2 : Nat}
    (hb : ber[off]? = some b)
    (ht : (if b.toNat % 32 = 0x1F then readTag (ber.length + 1) ber (off + 1) else .ok (off + 1)) = .ok tagEnd)
    (hl : ber[tagEnd]? = some l) (hlen : readLength ber (tagEnd + 1) l = .ok (n, off2, false))
    (hce : off2 + n ≤ ber.length) :
    readObject (f + 1) ber off d =
      if ¬ ((b.toNat / 32) % 2 = 1) then
        .ok (.prim ((ber.drop off).take (tagEnd - off)) ((ber.drop off2).take n), off2 + n)
      else if d ≥ maxBERDepth then .error .tooDeep
      else match readItems f ber off2 (off2 + n) false (d + 1) with
        | .error e => .error e
        | .ok (items, _) => .ok (.cons ((ber.drop off).take (tagEnd - off)) items, off2 + n) := by
  have hce2 : ¬ (off2 + n > ber.length) := by omega
  rw [readObject]
  simp only [hb, ht, hl, hlen, hce2, if_false, Bool.false_eq_true, false_and]
  split
  · rfl
  · split
    · rfl
    · cases readItems f ber off2 (off2 + n) false (d + 1) <;> rfl
/-- `readLength` only looks at the bytes from its offset on: a prefix shifts the offsets, nothing else -/
theorem readLength_shift {b : Bytes} {off : Nat} {l : Byte} {n off2 : Nat} {ind : Bool} (pre : Bytes)
    (h : readLength b off l = .ok (n, off2, ind)) :
    readLength (pre ++ b) (pre.length + off) l = .ok (n, pre.length + off2, ind) := by
  unfold readLength at h ⊢
  have e1 : (pre ++ b).getD (pre.length + off) 0 = b.getD off 0 := by
    simp [List.getD_eq_getElem?_getD, List.getElem?_append_right]
  have e2 : (pre ++ b).drop (pre.length + off) = b.drop off := by
    rw [← List.drop_drop, List.drop_left]
  rw [e1, e2, List.length_append]
  dsimp only at h ⊢
  split
  · rename_i h1
    rw [if_pos h1] at h
    split
    · rename_i h2; rw [if_pos h2] at h; simp at h
    · rename_i h2
      rw [if_neg h2] at h
      split at h
      · simp at h
      · rename_i h3
        rw [if_neg (by omega)]
        split at h
        · simp at h
        · rename_i h4
          rw [if_neg h4]
          split at h
          · simp at h
          · rename_i h5
            rw [if_neg h5]
            injection h with h; injection h with h1 h; injection h with h2 h3
            subst h1; subst h2; subst h3
            simp only [Nat.add_assoc]
  · rename_i h1
    rw [if_neg h1] at h
    split
    · rename_i h2; rw [if_pos h2] at h
      injection h with h; injection h with h1 h; injection h with h2 h3
      subst h1; subst h2; subst h3; rfl
    · rename_i h2; rw [if_neg h2] at h
      injection h with h; injection h with h1 h; injection h with h2 h3
      subst h1; subst h2; subst h3; rfl

/-- `encodeLength` writes at least one octet -/
theorem encodeLength_ne_nil (n : Nat) : encodeLength n ≠ [] := by
  unfold encodeLength; split <;> simp

/-- `length_roundtrip` for a length field at an arbitrary position inside a longer byte string -/
theorem length_roundtrip_at (pre : Bytes) (n : Nat) (h : n < 2 ^ 31) (rest : Bytes) :
    readLength (pre ++ encodeLength n ++ rest) (pre.length + 1) ((encodeLength n).headD 0) =
      .ok (n, pre.length + (encodeLength n).length, false) := by
  rw [List.append_assoc]
  exact readLength_shift pre (Props.C17.length_roundtrip n h rest)

mutual
  /-- well-formedness of an object tree for re-reading: tag shape, constructed bit, lengths below 2^31 -/
  def WF : Obj → Prop
    | .prim tag c => TagOK tag false ∧ c.length < 2 ^ 31
    | .cons tag items => TagOK tag true ∧ (encodeItems items).length < 2 ^ 31 ∧ WFItems items
  def WFItems : List Obj → Prop
    | [] => True
    | o :: os => WF o ∧ WFItems os
end

mutual
  /-- fuel that re-reading the encoding of an object needs -/
  def need : Obj → Nat
    | .prim _ _ => 1
    | .cons _ items => needItems items + 1
  def needItems : List Obj → Nat
    | [] => 1
    | o :: os => max (need o) (needItems os) + 1
end

/-- reading back a header `tag ++ encodeLength n` followed by `n` bytes of body -/
theorem header_roundtrip (pre tag body rest : Bytes) (cons : Bool) (f d : Nat)
    (ht : TagOK tag cons) (hn : body.length < 2 ^ 31) :
    readObject (f + 1) (pre ++ (tag ++ encodeLength body.length ++ body) ++ rest) pre.length d =
      if cons = false then
        .ok (.prim tag body, pre.length + (tag ++ encodeLength body.length ++ body).length)
      else if d ≥ maxBERDepth then .error .tooDeep
      else match readItems f (pre ++ (tag ++ encodeLength body.length ++ body) ++ rest)
            (pre.length + tag.length + (encodeLength body.length).length)
            (pre.length + tag.length + (encodeLength body.length).length + body.length) false (d + 1) with
        | .error e => .error e
        | .ok (items, _) =>
          .ok (.cons tag items, pre.length + (tag ++ encodeLength body.length ++ body).length) := by
  cases tag with
  | nil => simp [TagOK] at ht
  | cons b ts =>
  obtain ⟨hbit, hshape⟩ := ht
  cases hL : encodeLength body.length with
  | nil => exact absurd hL (encodeLength_ne_nil _)
  | cons l0 Lr =>
  have hrt := length_roundtrip_at (pre ++ b :: ts) body.length hn (body ++ rest)
  rw [hL] at hrt
  simp only [List.headD_cons] at hrt
  generalize hber : pre ++ (b :: ts ++ l0 :: Lr ++ body) ++ rest = ber
  have e1 : ber = pre ++ b :: (ts ++ l0 :: Lr ++ body ++ rest) := by rw [← hber]; simp
  have e2 : ber = (pre ++ [b]) ++ ts ++ (l0 :: Lr ++ body ++ rest) := by rw [← hber]; simp
  have e3 : ber = (pre ++ b :: ts) ++ l0 :: (Lr ++ body ++ rest) := by rw [← hber]; simp
  have e4 : ber = (pre ++ b :: ts) ++ (l0 :: Lr) ++ (body ++ rest) := by rw [← hber]; simp
  have hlenber : ber.length = pre.length + (1 + ts.length) + (1 + Lr.length) + body.length + rest.length := by
    rw [← hber]; simp only [List.length_append, List.length_cons]; omega
  have hb : ber[pre.length]? = some b := by rw [e1]; exact getElem?_mid _ _ _
  have htag : (if b.toNat % 32 = 0x1F then readTag (ber.length + 1) ber (pre.length + 1) else .ok (pre.length + 1))
      = .ok (pre.length + 1 + ts.length) := by
    split
    · rename_i h31
      rw [if_pos h31] at hshape
      have := readTag_contTag ts (pre ++ [b]) (l0 :: Lr ++ body ++ rest) (ber.length + 1) hshape (by omega)
      rw [← e2] at this
      simpa using this
    · rename_i h31
      rw [if_neg h31] at hshape
      subst hshape; rfl
  have hl : ber[pre.length + 1 + ts.length]? = some l0 := by
    have := getElem?_mid (pre ++ b :: ts) l0 (Lr ++ body ++ rest)
    have hi : (pre ++ b :: ts).length = pre.length + 1 + ts.length := by
      simp only [List.length_append, List.length_cons]; omega
    rw [← e3, hi] at this
    exact this
  have hlen : readLength ber (pre.length + 1 + ts.length + 1) l0
      = .ok (body.length, pre.length + 1 + ts.length + (1 + Lr.length), false) := by
    rw [← e4] at hrt
    simpa [Nat.add_assoc, Nat.add_comm, Nat.add_left_comm] using hrt
  have hdr := readObject_header (f := f) (d := d) hb htag hl hlen (by omega)
  rw [hdr]
  have t1 : List.take (pre.length + 1 + ts.length - pre.length) (List.drop pre.length ber) = b :: ts := by
    rw [e1, List.drop_left]
    have : pre.length + 1 + ts.length - pre.length = (b :: ts).length := by simp; omega
    rw [this]
    have : b :: (ts ++ l0 :: Lr ++ body ++ rest) = (b :: ts) ++ (l0 :: Lr ++ body ++ rest) := by simp
    rw [this, List.take_left]
  have t2 : List.take body.length (List.drop (pre.length + 1 + ts.length + (1 + Lr.length)) ber) = body := by
    have : ber = (pre ++ b :: ts ++ l0 :: Lr) ++ (body ++ rest) := by rw [← hber]; simp
    rw [this]
    have hl2 : pre.length + 1 + ts.length + (1 + Lr.length) = (pre ++ b :: ts ++ l0 :: Lr).length := by
      simp only [List.length_append, List.length_cons]; omega
    rw [hl2, List.drop_left, List.take_left]
  rw [t1, t2]
  have o1 : pre.length + 1 + ts.length + (1 + Lr.length) + body.length
      = pre.length + (b :: ts ++ l0 :: Lr ++ body).length := by
    simp only [List.length_append, List.length_cons]; omega
  have o2 : pre.length + (b :: ts).length + (l0 :: Lr).length = pre.length + 1 + ts.length + (1 + Lr.length) := by
    simp only [List.length_cons]; omega
  rw [o2, o1]
  cases cons with
  | false =>
    have : ¬ (b.toNat / 32 % 2 = 1) := by intro h; simpa using hbit.mp h
    rw [if_pos this]; simp
  | true =>
    have : b.toNat / 32 % 2 = 1 := hbit.mpr rfl
    rw [if_neg (by simpa using this)]
    simp

/-- the encoding of a well-formed object is not empty (it starts with the tag) -/
theorem encodeTo_length_pos (o : Obj) (h : WF o) : 0 < (encodeTo o).length := by
  cases o with
  | prim tag c =>
    rw [WF] at h
    rw [encodeTo]
    cases tag with
    | nil => simp [TagOK] at h
    | cons b ts => simp
  | cons tag items =>
    rw [WF] at h
    rw [encodeTo]
    cases tag with
    | nil => simp [TagOK] at h
    | cons b ts => simp

mutual
/-- `readObject_encodeTo` for fuel `need o` or more; by structural recursion on the tree -/
theorem readObject_encodeTo_need : (o : Obj) → WF o → ∀ (pre rest : Bytes) (f d : Nat), need o ≤ f →
    o.depth + d ≤ maxBERDepth →
    readObject f (pre ++ encodeTo o ++ rest) pre.length d = .ok (o, pre.length + (encodeTo o).length)
  | .prim tag c, hwf, pre, rest, f, d, hf, hd => by
    rw [WF] at hwf
    cases f with
    | zero => simp [need] at hf
    | succ f =>
      rw [encodeTo, header_roundtrip pre tag c rest false f d hwf.1 hwf.2]
      simp
  | .cons tag items, hwf, pre, rest, f, d, hf, hd => by
    rw [WF] at hwf
    obtain ⟨htag, hlen, hitems⟩ := hwf
    rw [need] at hf
    rw [Obj.depth] at hd
    cases f with
    | zero => omega
    | succ f =>
      have ih := readItems_encodeItems_need items hitems (pre ++ tag ++ encodeLength (encodeItems items).length) rest
        f (d + 1) (by omega) (by omega)
      rw [encodeTo]
      rw [header_roundtrip pre tag (encodeItems items) rest true f d htag hlen]
      have e : pre ++ (tag ++ encodeLength (encodeItems items).length ++ encodeItems items) ++ rest
          = pre ++ tag ++ encodeLength (encodeItems items).length ++ encodeItems items ++ rest := by
        simp only [List.append_assoc]
      rw [e]
      simp only [List.length_append] at ih
      rw [ih]
      have : ¬ d ≥ maxBERDepth := by omega
      simp [this]
/-- `readItems_encodeItems` for fuel `needItems os` or more -/
theorem readItems_encodeItems_need : (os : List Obj) → WFItems os → ∀ (pre rest : Bytes) (f d : Nat),
    needItems os ≤ f → depthItems os + d ≤ maxBERDepth →
    readItems f (pre ++ encodeItems os ++ rest) pre.length (pre.length + (encodeItems os).length) false d
      = .ok (os, pre.length + (encodeItems os).length)
  | [], _, pre, rest, f, d, hf, hd => by
    cases f with
    | zero => simp [needItems] at hf
    | succ f => rw [readItems]; simp [encodeItems]
  | o :: os, hwf, pre, rest, f, d, hf, hd => by
    rw [WFItems] at hwf
    rw [needItems] at hf
    rw [depthItems] at hd
    cases f with
    | zero => omega
    | succ f =>
      have ih1 := readObject_encodeTo_need o hwf.1 pre (encodeItems os ++ rest) f d (by omega) (by omega)
      have ih2 := readItems_encodeItems_need os hwf.2 (pre ++ encodeTo o) rest f d (by omega) (by omega)
      have hpos := encodeTo_length_pos o hwf.1
      rw [readItems, encodeItems]
      have e : pre ++ (encodeTo o ++ encodeItems os) ++ rest = pre ++ encodeTo o ++ (encodeItems os ++ rest) := by
        simp only [List.append_assoc]
      have e2 : pre ++ encodeTo o ++ (encodeItems os ++ rest) = pre ++ encodeTo o ++ encodeItems os ++ rest := by
        simp only [List.append_assoc]
      rw [e, ih1]
      simp only [List.length_append, Nat.add_assoc] at ih2 ⊢
      rw [e2, ih2]
      have : pre.length < pre.length + ((encodeTo o).length + (encodeItems os).length) := by omega
      simp [this]
end

/-- what `readTag` consumed has the shape of continuation octets -/
theorem readTag_ok_contTag : ∀ (fuel : Nat) (ber : Bytes) (off e : Nat), readTag fuel ber off = .ok e →
    contTag ((ber.drop off).take (e - off)) := by
  intro fuel
  induction fuel with
  | zero => intro ber off e h; simp [readTag] at h
  | succ f ih =>
    intro ber off e h
    have hbd := Props.C18.readTag_bounds _ _ _ _ h
    rw [readTag] at h
    cases hb : ber[off]? with
    | none => simp [hb] at h
    | some x =>
      simp only [hb] at h
      have hlt := Props.C18.getElem?_some_lt hb
      have hx : ber[off] = x := by
        have := List.getElem?_eq_getElem hlt
        rw [hb] at this; injection this with this; exact this.symm
      have hd : ber.drop off = x :: ber.drop (off + 1) := by
        rw [List.drop_eq_getElem_cons hlt, hx]
      have ht : e - off = (e - (off + 1)) + 1 := by omega
      rw [hd, ht, List.take_succ_cons, contTag]
      split at h
      · rename_i hge
        rw [if_pos hge]
        exact ih ber (off + 1) e h
      · rename_i hge
        rw [if_neg hge]
        injection h with h
        subst h
        simp

/-- the tag octets of an object that `readObject` returns have the shape `readObject` consumes, and the
    constructed bit says whether it is a `.cons`; the children of a `.cons` come from the item loop -/
theorem readObject_ok_tag {f : Nat} {ber : Bytes} {off d : Nat} {o : Obj} {e : Nat}
    (h : readObject (f + 1) ber off d = .ok (o, e)) :
    (∃ tag c, o = .prim tag c ∧ TagOK tag false) ∨
    (∃ tag items o2 ce ind e1, o = .cons tag items ∧ TagOK tag true ∧
      readItems f ber o2 ce ind (d + 1) = .ok (items, e1)) := by
  rw [readObject] at h
  cases hb : ber[off]? with
  | none => simp [hb] at h
  | some b =>
    simp only [hb] at h
    have hlt := Props.C18.getElem?_some_lt hb
    have hx : ber[off] = b := by
      have := List.getElem?_eq_getElem hlt
      rw [hb] at this; injection this with this; exact this.symm
    have hd : ber.drop off = b :: ber.drop (off + 1) := by
      rw [List.drop_eq_getElem_cons hlt, hx]
    cases ht : (if b.toNat % 32 = 0x1F then readTag (ber.length + 1) ber (off + 1) else .ok (off + 1)) with
    | error e => simp [ht] at h
    | ok tagEnd =>
      simp only [ht] at h
      have htagok : ∀ c : Bool, ((b.toNat / 32) % 2 = 1 ↔ c = true) →
          TagOK ((ber.drop off).take (tagEnd - off)) c := by
        intro c hc
        by_cases h31 : b.toNat % 32 = 0x1F
        · rw [if_pos h31] at ht
          have hbd := Props.C18.readTag_bounds _ _ _ _ ht
          have hct := readTag_ok_contTag _ _ _ _ ht
          have e1 : tagEnd - off = (tagEnd - (off + 1)) + 1 := by omega
          rw [hd, e1, List.take_succ_cons]
          exact ⟨hc, by rw [if_pos h31]; exact hct⟩
        · rw [if_neg h31] at ht
          injection ht with ht
          subst ht
          have e1 : off + 1 - off = 0 + 1 := by omega
          rw [hd, e1, List.take_succ_cons]
          exact ⟨hc, by rw [if_neg h31]; simp⟩
      cases hl : ber[tagEnd]? with
      | none => simp [hl] at h
      | some l =>
        simp only [hl] at h
        cases hlen : readLength ber (tagEnd + 1) l with
        | error e => simp [hlen] at h
        | ok r =>
          obtain ⟨length, o2, ind⟩ := r
          simp only [hlen] at h
          split at h
          · simp at h
          · split at h
            · simp at h
            · split at h
              · rename_i hc
                injection h with h; injection h with h _
                exact Or.inl ⟨_, _, h.symm, htagok false (by simpa using hc)⟩
              · rename_i hc
                split at h
                · simp at h
                · cases hi : readItems f ber o2 (o2 + length) ind (d + 1) with
                  | error e => simp [hi] at h
                  | ok r =>
                    obtain ⟨items, e1⟩ := r
                    simp only [hi] at h
                    injection h with h; injection h with h _
                    exact Or.inr ⟨_, items, _, _, _, e1, h.symm, htagok true (by simpa using hc), hi⟩

mutual
  /-- the tags of an object tree have the shape `readObject` consumes, with the right constructed bits -/
  def TagsOK : Obj → Prop
    | .prim tag _ => TagOK tag false
    | .cons tag items => TagOK tag true ∧ TagsOKItems items
  def TagsOKItems : List Obj → Prop
    | [] => True
    | o :: os => TagsOK o ∧ TagsOKItems os
end

/-- all tags of everything `readObject` / the item loop return are well-shaped; by induction on the fuel -/
theorem tagsOK_all (ber : Bytes) : ∀ f : Nat,
    (∀ off d o e, readObject f ber off d = .ok (o, e) → TagsOK o) ∧
    (∀ off ce ind d os e, readItems f ber off ce ind d = .ok (os, e) → TagsOKItems os) := by
  intro f
  induction f with
  | zero =>
    constructor
    · intro off d o e h; simp [readObject] at h
    · intro off ce ind d os e h; simp [readItems] at h
  | succ f ih =>
    obtain ⟨ihO, ihI⟩ := ih
    constructor
    · intro off d o e h
      rcases readObject_ok_tag h with ⟨tag, c, rfl, ht⟩ | ⟨tag, items, o2, ce, ind, e1, rfl, ht, hi⟩
      · rw [TagsOK]; exact ht
      · rw [TagsOK]; exact ⟨ht, ihI _ _ _ _ _ _ hi⟩
    · intro off ce ind d os e h
      rcases Props.C18.readItems_ok_cases h with ⟨hos, _, _, _⟩ | ⟨o, e1, os1, ho, hi, hos, _, _⟩
      · subst hos; simp [TagsOKItems]
      · subst hos
        rw [TagsOKItems]; exact ⟨ihO _ _ _ _ ho, ihI _ _ _ _ _ _ hi⟩

mutual
/-- an object tree with well-shaped tags whose encoding is shorter than 2^31 bytes is well-formed: all
    content and inner lengths are bounded by the length of the whole encoding -/
theorem wf_of_tagsOK : (o : Obj) → TagsOK o → (encodeTo o).length < 2 ^ 31 → WF o
  | .prim tag c, ht, hl => by
    rw [TagsOK] at ht
    rw [encodeTo] at hl
    simp only [List.length_append] at hl
    rw [WF]; exact ⟨ht, by omega⟩
  | .cons tag items, ht, hl => by
    rw [TagsOK] at ht
    have hin := Props.C18.encodeTo_cons_length tag items
    rw [WF]
    exact ⟨ht.1, by omega, wfItems_of_tagsOK items ht.2 (by omega)⟩
/-- companion of `wf_of_tagsOK` for lists of children -/
theorem wfItems_of_tagsOK : (os : List Obj) → TagsOKItems os → (encodeItems os).length < 2 ^ 31 → WFItems os
  | [], _, _ => by simp [WFItems]
  | o :: os, ht, hl => by
    rw [TagsOKItems] at ht
    rw [encodeItems, List.length_append] at hl
    rw [WFItems]
    exact ⟨wf_of_tagsOK o ht.1 (by omega), wfItems_of_tagsOK os ht.2 (by omega)⟩
end

/-- a result other than `fuel` is stable under any amount of additional fuel (item loop) -/
theorem readItems_fuel_add (ber : Bytes) (off ce : Nat) (ind : Bool) (d f : Nat)
    (h : readItems f ber off ce ind d ≠ .error .fuel) :
    ∀ k, readItems (f + k) ber off ce ind d = readItems f ber off ce ind d := by
  intro k
  induction k with
  | zero => rfl
  | succ k ih =>
    rw [← ih]
    exact Props.C18.readItems_fuel_mono rfl (by rw [ih]; exact h)

/-- Reading back what `EncodeTo` wrote: for a well-formed tree `o`, anywhere inside a longer byte string
    (`pre` before, `rest` after), at any depth `d` that leaves room for its nesting, and with the fuel of
    `Props.C18.fuel_sufficient`, `readObject` returns `o` itself and the offset right after its encoding. -/
theorem readObject_encodeTo (o : Obj) (hwf : WF o) (pre rest : Bytes) (fuel d : Nat)
    (hd : o.depth + d ≤ maxBERDepth)
    (hf : 2 * ((pre ++ encodeTo o ++ rest).length - pre.length) + 1 ≤ fuel) :
    readObject fuel (pre ++ encodeTo o ++ rest) pre.length d = .ok (o, pre.length + (encodeTo o).length) := by
  have hne := Props.C18.fuel_sufficient _ _ d fuel hf
  have hadd := Props.C18.readObject_fuel_add _ _ d fuel hne (need o)
  rw [← hadd]
  exact readObject_encodeTo_need o hwf pre rest _ d (by omega) hd

/-- companion for the item loop in the definite case: the concatenated encodings of well-formed children,
    with `contentEnd` at their end, are read back as exactly those children -/
theorem readItems_encodeItems (os : List Obj) (hwf : WFItems os) (pre rest : Bytes) (fuel d : Nat)
    (hd : depthItems os + d ≤ maxBERDepth)
    (hf : 2 * ((pre ++ encodeItems os ++ rest).length - pre.length) + 2 ≤ fuel) :
    readItems fuel (pre ++ encodeItems os ++ rest) pre.length (pre.length + (encodeItems os).length) false d
      = .ok (os, pre.length + (encodeItems os).length) := by
  have hne := Props.C18.fuel_sufficient_items _ _ (pre.length + (encodeItems os).length) false d fuel hf
  have hadd := readItems_fuel_add _ _ _ _ d fuel hne (needItems os)
  rw [← hadd]
  exact readItems_encodeItems_need os hwf pre rest _ d (by omega) hd

/-- DER in, the same DER out: the encoding of a well-formed tree of depth ≤ `maxBERDepth` is a fixed point of
    `ber2der` -/
theorem ber2der_encodeTo (o : Obj) (hwf : WF o) (hd : o.depth ≤ maxBERDepth) :
    ber2der (encodeTo o) = .ok (encodeTo o) := by
  have hpos := encodeTo_length_pos o hwf
  have h := readObject_encodeTo o hwf [] [] (2 * (encodeTo o).length + 2) 0 (by omega)
    (by simp only [List.nil_append, List.append_nil, List.length_nil]; omega)
  simp only [List.nil_append, List.append_nil, List.length_nil] at h
  unfold ber2der
  have hne : (encodeTo o).isEmpty = false := by
    cases he : encodeTo o with
    | nil => rw [he] at hpos; simp at hpos
    | cons _ _ => rfl
  rw [hne, h]
  simp

/-- Everything `readObject` returns is well-formed: its tags are what `readTag` consumed, the constructed bit
    decided between `.prim` and `.cons`, and all lengths are bounded by the length of the re-encoding. -/
theorem readObject_wf {fuel : Nat} {ber : Bytes} {off d : Nat} {o : Obj} {e : Nat}
    (h : readObject fuel ber off d = .ok (o, e)) (hl : (encodeTo o).length < 2 ^ 31) : WF o :=
  wf_of_tagsOK o ((tagsOK_all ber fuel).1 off d o e h) hl

/-- Idempotence of the transcoder: whatever `ber2der` outputs is accepted by `ber2der` unchanged (for outputs
    shorter than 2^31 bytes, the lengths the Go `int` arithmetic of `readObject` accepts) — so the bytes
    `ParsePKCS7` parses after transcoding are stable under transcoding again. -/
theorem ber2der_idempotent {ber der : Bytes} (h : ber2der ber = .ok der) (hl : der.length < 2 ^ 31) :
    ber2der der = .ok der := by
  unfold ber2der at h
  split at h
  · simp at h
  · cases hr : readObject (2 * ber.length + 2) ber 0 0 with
    | error e => simp [hr] at h
    | ok r =>
      obtain ⟨o, e⟩ := r
      simp only [hr] at h
      injection h with h
      subst h
      have hd := Props.C18.depth_bounded (by simp [maxBERDepth]) hr
      exact ber2der_encodeTo o (readObject_wf hr hl) (by omega)

-- non-vacuity ---------------------------------------------------------------------------------------------------

/-- a well-formed tree (SEQUENCE { INTEGER 5, [high tag 0x1F 0x81 0x01] "ab" }) and its fixed point -/
example : WF (.cons [0x30] [.prim [0x02] [0x05], .prim [0x1F, 0x81, 0x01] [0x61, 0x62]]) := by
  simp [WF, WFItems, TagOK, contTag, encodeItems, encodeTo, encodeLength]

example : ber2der (encodeTo (.cons [0x30] [.prim [0x02] [0x05], .prim [0x1F, 0x81, 0x01] [0x61, 0x62]]))
    = .ok [0x30, 0x09, 0x02, 0x01, 0x05, 0x1F, 0x81, 0x01, 0x02, 0x61, 0x62] := by rfl

/-- indefinite-length input: the first pass changes the bytes, the second does not -/
example : ber2der [0x30, 0x80, 0x30, 0x80, 0x02, 0x01, 0x05, 0x00, 0x00, 0x00, 0x00]
      = .ok [0x30, 0x05, 0x30, 0x03, 0x02, 0x01, 0x05]
    ∧ ber2der [0x30, 0x05, 0x30, 0x03, 0x02, 0x01, 0x05] = .ok [0x30, 0x05, 0x30, 0x03, 0x02, 0x01, 0x05] := by
  constructor <;> rfl

/-- well-formedness is needed: a "primitive" whose tag carries the constructed bit is not read back -/
example : (ber2der (encodeTo (.prim [0x30] [0x01]))).toOption.isNone = true := by rfl

end Props.C17Idem
