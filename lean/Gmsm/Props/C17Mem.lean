/-
C17 / C20 (PKCS#7 enveloping): `pad` of x509/pkcs7.go, seen at the level of slices and backing arrays
(Model.SliceMem).

Before the repair the function was `return append(data, pad...)`: with spare capacity behind the caller's
content (`content = buf[a:b]`) the 1..blocklen padding bytes were written into `buf[b:]`.
`padMem_frame` - no allocation that existed before the call is changed - was false
(`padInPlace_writes_caller_memory` is the counterexample for the old function); the returned BYTES were
right before and after (`padMem_value`: they are `Model.BER.pad`, for which Props.C17.unpad_pad holds).
-/
import Gmsm.Model.SliceMem
import Gmsm.Model.BER
namespace Props.C17Mem
open Gmsm Gmsm.Model.SliceMem

theorem arr_append_left (h : Heap) (z : Bytes) (i : Nat) (hi : i < h.length) : arr (h ++ [z]) i = arr h i := by
  simp [arr, List.getD_eq_getElem?_getD, List.getElem?_append_left hi]

theorem arr_append_new (h : Heap) (z : Bytes) : arr (h ++ [z]) h.length = z := by
  simp [arr, List.getD_eq_getElem?_getD]

theorem arr_set_same (h : Heap) (i : Nat) (v : Bytes) (hi : i < h.length) : arr (h.set i v) i = v := by
  simp [arr, List.getD_eq_getElem?_getD, hi]

/-- `append` never touches an allocation with a smaller number than the slice's own -/
theorem goAppend_frame (h : Heap) (s : Slice) (xs : Bytes) (n : Nat) (hn : n ≤ s.id) (hl : n ≤ h.length) :
    (goAppend h s xs).1.take n = h.take n := by
  unfold goAppend
  split
  · simp only
    apply List.ext_getElem?
    intro i
    by_cases hi : i < n
    · simp only [List.getElem?_take, if_pos hi]
      rw [List.getElem?_set_ne (by omega)]
    · simp only [List.getElem?_take, if_neg hi]
  · simp only
    rw [List.take_append_of_le_length hl]

theorem goAppend_id_ge (h : Heap) (s : Slice) (xs : Bytes) (n : Nat) (hn : n ≤ s.id) (hl : n ≤ h.length) :
    n ≤ (goAppend h s xs).2.id := by
  unfold goAppend
  split <;> simp only <;> omega

theorem goAppend_length_ge (h : Heap) (s : Slice) (xs : Bytes) : h.length ≤ (goAppend h s xs).1.length := by
  unfold goAppend
  split <;> simp

/-- T1 `padMem_frame`: the repaired `pad` leaves every allocation that existed before the call as it
    was - whatever the caller's slice header is (any offset, any spare capacity), and the result lives in
    an allocation made by the call.  In particular the bytes behind `len(content)` in the caller's buffer,
    which may be another goroutine's record, are not written. -/
theorem padMem_frame (h : Heap) (data : Slice) (bl : Nat) (h' : Heap) (out : Slice)
    (hp : padMem h data bl = some (h', out)) :
    h'.take h.length = h ∧ h.length ≤ out.id := by
  unfold padMem at hp
  split at hp
  · exact absurd hp (by simp)
  · simp only [goMake, Option.some.injEq] at hp
    generalize hz : List.replicate (data.len + padLen data.len bl) (0 : Byte) = z at hp
    generalize hs0 : (⟨h.length, 0, 0, data.len + padLen data.len bl⟩ : Slice) = s0 at hp
    have hs0id : s0.id = h.length := by rw [← hs0]
    generalize hxs : elems (h ++ [z]) data = xs at hp
    have hl1 : h.length ≤ (h ++ [z]).length := by simp
    have f1 := goAppend_frame (h ++ [z]) s0 xs h.length (by omega) hl1
    have i1 := goAppend_id_ge (h ++ [z]) s0 xs h.length (by omega) hl1
    have l1 := goAppend_length_ge (h ++ [z]) s0 xs
    generalize hg : goAppend (h ++ [z]) s0 xs = g at hp f1 i1 l1
    obtain ⟨h2, s2⟩ := g
    simp only at hp f1 i1 l1
    have f2 := goAppend_frame h2 s2 (padBytes data.len bl) h.length i1 (by omega)
    have i2 := goAppend_id_ge h2 s2 (padBytes data.len bl) h.length i1 (by omega)
    rw [hp] at f2 i2
    simp only at f2 i2
    refine ⟨?_, i2⟩
    rw [f2, f1, List.take_append_of_le_length (Nat.le_refl _), List.take_length]

/-- T1, read at the caller's own buffer: the whole backing array of the content - the bytes before the
    record, the record, and the spare capacity behind it - is after the call what it was before. -/
theorem padMem_caller_buffer_unchanged (h : Heap) (data : Slice) (bl : Nat) (h' : Heap) (out : Slice)
    (hp : padMem h data bl = some (h', out)) (hd : data.id < h.length) :
    arr h' data.id = arr h data.id ∧ out.id ≠ data.id := by
  obtain ⟨hf, hi⟩ := padMem_frame h data bl h' out hp
  refine ⟨?_, by omega⟩
  have e : (h'.take h.length)[data.id]? = h'[data.id]? := by
    rw [List.getElem?_take, if_pos hd]
  rw [hf] at e
  simp only [arr, List.getD_eq_getElem?_getD, e]

theorem elems_length (h : Heap) (s : Slice) (hv : s.Valid h) : (elems h s).length = s.len := by
  obtain ⟨_, h2, h3⟩ := hv
  simp only [elems, List.length_take, List.length_drop]
  omega

theorem elems_append_left (h : Heap) (z : Bytes) (s : Slice) (hv : s.id < h.length) : elems (h ++ [z]) s = elems h s := by
  simp only [elems, arr_append_left h z s.id hv]

theorem padLen_pos (n bl : Nat) (hb : 1 ≤ bl) : padLen n bl = bl - n % bl ∧ 1 ≤ padLen n bl := by
  have := Nat.mod_lt n hb
  unfold padLen
  simp only
  rw [if_neg (by omega)]
  omega

/-- T2 `padMem_value`: the slice the repaired `pad` returns holds exactly the bytes of the functional model
    `Model.BER.pad` (content, then `padlen` bytes of value `padlen`), and the error return coincides. -/
theorem padMem_value (h : Heap) (data : Slice) (bl : Nat) (hv : data.Valid h) :
    (padMem h data bl).map (fun r => elems r.1 r.2) = Model.BER.pad (elems h data) bl := by
  unfold padMem Model.BER.pad
  by_cases hb : bl < 1
  · rw [if_pos hb, if_pos hb]; rfl
  · rw [if_neg hb, if_neg hb]
    have hpl := padLen_pos data.len bl (by omega)
    have hrl := elems_length h data hv
    simp only [goMake, Option.map_some, Option.some.injEq]
    rw [elems_append_left h _ data hv.1]
    generalize hxs : elems h data = xs at hrl ⊢
    generalize hk : padLen data.len bl = k at hpl ⊢
    have hkk : bl - xs.length % bl = k := by rw [hrl]; exact hpl.1.symm
    rw [hkk]
    have hpb : padBytes data.len bl = List.replicate k (BitVec.ofNat 8 k) := by
      unfold padBytes; rw [hk]
    rw [hpb]
    -- first append: in place into the new array
    have e1 : goAppend (h ++ [List.replicate (data.len + k) (0 : Byte)]) ⟨h.length, 0, 0, data.len + k⟩ xs
        = ((h ++ [List.replicate (data.len + k) (0 : Byte)]).set h.length (xs ++ List.replicate k 0),
           ⟨h.length, 0, xs.length, data.len + k⟩) := by
      unfold goAppend
      rw [if_pos (by simp only; omega)]
      simp only [arr_append_new, writeAt, Nat.zero_add, List.take_zero, List.nil_append, List.drop_replicate]
      rw [show data.len + k - xs.length = k by omega]
    rw [e1]
    simp only
    -- second append: in place again
    have hlen : h.length < (h ++ [List.replicate (data.len + k) (0 : Byte)]).length := by simp
    unfold goAppend
    rw [if_pos (by simp only [List.length_replicate]; omega)]
    simp only [arr_set_same _ _ _ hlen, elems, List.set_set, writeAt, Nat.zero_add, List.length_replicate, List.drop_zero]
    have hl : (xs ++ List.replicate k (BitVec.ofNat 8 k)).length = xs.length + k := by simp
    rw [List.take_left' (rfl : xs.length = xs.length)]
    exact List.take_left' hl

/-- T3 `padInPlace_writes_caller_memory`: the frame statement is not a triviality of the memory model - for
    the function as it was before the repair (`append(data, pad...)`) it fails: a 13-byte record at the
    start of a 26-byte buffer, block length 8: three bytes of the NEXT record become 03 03 03. -/
theorem padInPlace_writes_caller_memory :
    ∃ (h : Heap) (data : Slice) (h' : Heap) (out : Slice), data.Valid h ∧ padInPlace h data 8 = some (h', out) ∧
      h'.take h.length ≠ h ∧ out.id = data.id ∧
      arr h' 0 = List.replicate 13 0x41 ++ [3, 3, 3] ++ List.replicate 10 0x41 := by
  refine ⟨[List.replicate 26 0x41], ⟨0, 0, 13, 26⟩, _, _, ⟨by decide, by decide, by decide⟩, rfl, by decide, rfl, by decide⟩

-- non-vacuity of T1/T2: the same buffer through the repaired function
example : (padMem [List.replicate 26 0x41] ⟨0, 0, 13, 26⟩ 8).map (fun r => (r.1.take 1, r.2.id, elems r.1 r.2))
    = some ([List.replicate 26 0x41], 1, List.replicate 13 0x41 ++ [3, 3, 3]) := by decide
example : padMem [[1, 2, 3]] ⟨0, 0, 3, 3⟩ 0 = none := rfl

end Props.C17Mem
