/-
C13 (glue) — the byte-level glue of sm2/sm2.go around the curve operations is GM/T 0003's.

`Model.KexGlue` transcribes `intToBytes`, `BytesCombine`, `kdf`, `ZA`, `msgHash`, `Sm3Digest`, the
`to32` closure and the assembly of k / hash / S1 / S2 inside `keyExchange` over the SM3 hash OBJECT
(`Model.SM3`).  Here they are shown equal, for ALL inputs, to the functions of the specification
`Spec.SM2` (`kdf`, `za`, `msgE`, the tail of `kex`) that C01/C02/C13 prove correct at group level.
The only facts about SM3 used are the streaming laws of `Props.C04` (`sum_nil_spec`, `sm3Sum_spec`,
`hash_length`).  Core Lean only.
-/
import Gmsm.Model.KexGlue
import Gmsm.Spec.SM2
import Gmsm.Proofs.BytesNat
import Gmsm.Props.C04
import Gmsm.Props.C02
import Gmsm.Props.C17KDF
namespace Props.C13Glue
open Gmsm Model.SM3 Model.KexGlue
open Props.C17KDF (os2ip_inj os2ip_zeros_append)

-- encodings ------------------------------------------------------------------------------------------------

/-- `intToBytes(x)` (`PutUint32(buf, uint32(x))`) is the 4-byte big-endian counter of the standard,
    for every x (both reduce modulo 2^32). -/
theorem intToBytes_eq (x : Nat) : intToBytes x = i2ospR 4 x := by
  simp only [intToBytes, w32bytes, i2ospR, List.nil_append, List.cons_append]
  congr 1
  · apply BitVec.eq_of_toNat_eq; simp [BitVec.extractLsb'_toNat, Nat.shiftRight_eq_div_pow]; omega
  congr 1
  · apply BitVec.eq_of_toNat_eq; simp [BitVec.extractLsb'_toNat, Nat.shiftRight_eq_div_pow]; omega
  congr 1
  · apply BitVec.eq_of_toNat_eq; simp [BitVec.extractLsb'_toNat, Nat.shiftRight_eq_div_pow]; omega
  congr 1
  · apply BitVec.eq_of_toNat_eq; simp [BitVec.extractLsb'_toNat, Nat.shiftRight_eq_div_pow]

/-- `ZA`'s two ENTL bytes `byte((Entla>>8)&0xFF)`, `byte(Entla&0xFF)` with `Entla = uint16(8*uidLen)`
    are the 2-byte big-endian bit length for every uidLen < 8192 (no 16-bit wrap: 8·8191 = 65528). -/
theorem entl_eq (n : Nat) (h : n < 8192) :
    [(((BitVec.ofNat 16 (8 * n)) >>> 8) &&& 0xFF).setWidth 8, ((BitVec.ofNat 16 (8 * n)) &&& 0xFF).setWidth 8]
      = i2ospR 2 (8 * n) := by
  simp only [i2ospR, List.nil_append, List.cons_append]
  have e : (255 : Nat) = 2 ^ 8 - 1 := rfl
  congr 1
  · apply BitVec.eq_of_toNat_eq
    simp [BitVec.toNat_and, Nat.shiftRight_eq_div_pow]
    rw [e, Nat.and_two_pow_sub_one_eq_mod]; omega
  congr 1
  · apply BitVec.eq_of_toNat_eq
    simp [BitVec.toNat_and]
    rw [e, Nat.and_two_pow_sub_one_eq_mod]; omega

/-- the 16-bit wrap that the `uidLen >= 8192` test excludes: at 8192 the ENTL bytes would be 00 00 -/
example : (BitVec.ofNat 16 (8 * 8192)) = 0 := by decide

/-- `BytesCombine` is concatenation -/
theorem bytesCombine_eq (ps : List Bytes) : bytesCombine ps = ps.flatten := by
  induction ps with
  | nil => rfl
  | cons p ps ih => simp [bytesCombine, List.flatten_cons] at ih ⊢; rw [ih]

/-- `v.Bytes()` left-padded with `zeroByteSlice()[:32-n]` (in `ZA` and `to32`) is the 32-byte field
    element encoding for every v < 2^256. -/
theorem to32_eq (v : Nat) (h : v < 256 ^ 32) : to32 v = Spec.SM2.b32 v := by
  have hl : (natBytes v).length ≤ 32 := natBytes_length_le _ 32 h
  have hp : pad32 (natBytes v) = List.replicate (32 - (natBytes v).length) (0 : Byte) ++ natBytes v := by
    unfold pad32 zeroByteSlice
    split
    · rw [List.take_replicate, Nat.min_eq_left (by omega)]
    · have : 32 - (natBytes v).length = 0 := by omega
      rw [this]; rfl
  unfold to32
  apply os2ip_inj
  · rw [hp, List.length_append, List.length_replicate]
    have := i2ospR_length 32 v
    unfold Spec.SM2.b32; omega
  · rw [hp, os2ip_zeros_append, os2ip_natBytes]; exact (os2ip_i2ospR_of_lt 32 v h).symm

/-- regenerated facts: the minimal encodings `a.Bytes()`, `B.Bytes()`, `Gx.Bytes()`, `Gy.Bytes()` that
    `ZA` writes WITHOUT padding are each exactly the 32-byte encodings of the standard's a, b, xG, yG. -/
theorem params_bytes :
    natBytes Gen.SM2.paramA = Spec.SM2.b32 Spec.SM2.a ∧ natBytes Gen.SM2.paramB = Spec.SM2.b32 Spec.SM2.b ∧
    natBytes Gen.SM2.paramGx = Spec.SM2.b32 Spec.SM2.gx ∧ natBytes Gen.SM2.paramGy = Spec.SM2.b32 Spec.SM2.gy := by
  decide +kernel

-- the hash object ---------------------------------------------------------------------------------------------

theorem finish_writes (cs : List Bytes) : finish (cs.foldl write init) = Spec.SM3.hash cs.flatten := by
  have := Props.C04.sum_nil_spec cs
  simpa [sum] using this

theorem take32_hash (m : Bytes) : (Spec.SM3.hash m).take 32 = Spec.SM3.hash m := by
  rw [List.take_of_length_le]; rw [Props.C04.hash_length]; exact Nat.le_refl _

-- kdf --------------------------------------------------------------------------------------------------------------

/-- block i of the standard's KDF -/
def blk (z : Bytes) (i : Nat) : Bytes := Spec.SM3.hash (z ++ i2ospR 4 (i + 1))
/-- the first k blocks -/
def blks (z : Bytes) (k : Nat) : Bytes := (List.range k).flatMap (blk z)

theorem blks_succ (z : Bytes) (k : Nat) : blks z (k + 1) = blks z k ++ blk z k := by
  simp [blks, List.range_succ, List.flatMap_append]

theorem blks_length (z : Bytes) (k : Nat) : (blks z k).length = 32 * k := by
  induction k with
  | zero => rfl
  | succ k ih => rw [blks_succ, List.length_append, ih, blk, Props.C04.hash_length]; omega

theorem spec_kdf_eq (z : Bytes) (klen : Nat) : Spec.SM2.kdf z klen = (blks z ((klen + 31) / 32)).take klen := rfl

/-- one pass of the loop body: Reset, Write every part, Write the counter, Sum(nil) -/
theorem block_hash (x : List Bytes) (ct : Nat) :
    finish (write (x.foldl write init) (intToBytes ct)) = Spec.SM3.hash (x.flatten ++ i2ospR 4 ct) := by
  have := finish_writes (x ++ [intToBytes ct])
  rw [List.foldl_append] at this
  simpa [intToBytes_eq] using this

theorem kdfLoop_spec (length j : Nat) (x : List Bytes) (n : Nat) (h : State)
    (hlo : 32 * j < length + 32) (hhi : length ≤ 32 * j) (hn : n + 1 ≤ j) :
    kdfLoop length j x (n + 1) (j - n) h (blks x.flatten (j - (n + 1))) = (blks x.flatten j).take length := by
  induction n generalizing h with
  | zero =>
    have hj : j = (j - 1) + 1 := by omega
    rw [kdfLoop]
    simp only [kdfLoop, sum, List.nil_append, Nat.sub_zero]
    rw [block_hash]
    have hb : Spec.SM3.hash (x.flatten ++ i2ospR 4 j) = blk x.flatten (j - 1) := by
      unfold blk; rw [← hj]
    rw [hb]
    have hF : blks x.flatten j = blks x.flatten (j - 1) ++ blk x.flatten (j - 1) := by
      conv => lhs; rw [hj]
      exact blks_succ _ _
    have hlen := blks_length x.flatten (j - 1)
    have ht : (blks x.flatten (j - 1)).take length = blks x.flatten (j - 1) :=
      List.take_of_length_le (by omega)
    by_cases h32 : length % 32 = 0
    · rw [if_neg (fun hh => hh.2 h32), ← hF]
      exact (List.take_of_length_le (by rw [blks_length]; omega)).symm
    · rw [if_pos ⟨by omega, h32⟩, hF, List.take_append, ht, hlen]
      have : length - 32 * (j - 1) = length % 32 := by omega
      rw [this]
  | succ n ih =>
    have hne : ¬ (j - (n + 1 + 1) + 1 = j ∧ length % 32 ≠ 0) := fun hh => by have := hh.1; omega
    rw [kdfLoop]
    simp only [sum, List.nil_append]
    rw [block_hash, if_neg hne]
    have hb : Spec.SM3.hash (x.flatten ++ i2ospR 4 (j - (n + 1))) = blk x.flatten (j - (n + 1 + 1)) := by
      unfold blk; congr 3; omega
    rw [hb, ← blks_succ]
    have e1 : j - (n + 1 + 1) + 1 = j - (n + 1) := by omega
    have e2 : j - (n + 1) + 1 = j - n := by omega
    rw [e1, e2]
    exact ih _ (by omega)

theorem kdfLoop_eq (length : Nat) (x : List Bytes) :
    kdfLoop length ((length + 31) / 32) x ((length + 31) / 32) 1 init [] = Spec.SM2.kdf x.flatten length := by
  rw [spec_kdf_eq]
  by_cases hj : (length + 31) / 32 = 0
  · rw [hj]; simp [kdfLoop, blks]
  · have := kdfLoop_spec length ((length + 31) / 32) x ((length + 31) / 32 - 1) init (by omega) (by omega) (by omega)
    have e1 : (length + 31) / 32 - 1 + 1 = (length + 31) / 32 := by omega
    have e2 : (length + 31) / 32 - ((length + 31) / 32 - 1) = 1 := by omega
    rw [e1, e2, Nat.sub_self] at this
    exact this

theorem scan_eq (n : Nat) (c : Bytes) (h : n ≤ c.length) :
    scanNonZero n c = some ((c.take n).any (· != 0)) := by
  induction n generalizing c with
  | zero => simp [scanNonZero]
  | succ n ih =>
    cases c with
    | nil => simp at h
    | cons b t =>
      simp only [scanNonZero, List.take_succ_cons, List.any_cons]
      by_cases hb : b = 0
      · subst hb; simp [ih t (by simpa using h)]
      · have hb2 : (b != 0) = true := by simpa using hb
        rw [if_pos hb, hb2]; rfl

/-- `kdf(length, x...)`: for every list of parts (empty parts, no parts) and every length ≥ 0 the
    loop over the hash object (Reset, Write each part, Write the 4-byte counter from 1, Sum, the last
    block cut to `length % 32` bytes when that is non-zero) returns the standard's
    KDF(x₁‖…‖xₙ, length), and the boolean is "some byte of the key is non-zero"; the final scan
    `c[i]` never indexes past `c`. -/
theorem kdf_eq (length : Nat) (x : List Bytes) :
    kdf length x = some (Spec.SM2.kdf x.flatten length, (Spec.SM2.kdf x.flatten length).any (· != 0)) := by
  unfold kdf
  simp only [kdfLoop_eq]
  rw [scan_eq _ _ (by rw [Props.C02.kdf_length]; exact Nat.le_refl _)]
  rw [List.take_of_length_le (by rw [Props.C02.kdf_length]; exact Nat.le_refl _)]
  rfl

/-- the flag is the negation of the "all zero" test of GM/T 0003.4 step A5 as `Spec.SM2.encryptWith` states it -/
theorem kdf_flag (length : Nat) (x : List Bytes) :
    (kdf length x).map (·.2) = some (!(Spec.SM2.kdf x.flatten length).all (· == 0)) := by
  rw [kdf_eq]
  simp only [Option.map_some, Option.some.injEq]
  induction Spec.SM2.kdf x.flatten length with
  | nil => rfl
  | cons b t ih => simp only [List.any_cons, List.all_cons, ih, Bool.not_and]; rfl

/-- length = 0: no iteration, `c` stays nil, the flag is false (the caller `Encrypt` then retries
    forever on an empty message — `Props.C02.encrypt_empty_none`). -/
theorem kdf_zero (x : List Bytes) : kdf 0 x = some ([], false) := by
  rw [kdf_eq]; rfl

-- ZA, msgHash, Sm3Digest ------------------------------------------------------------------------------------------

/-- `ZA(pub, uid)`, uid shorter than 8192 bytes, coordinates below 2^256: the eight or nine `Write`s
    (ENTL as two bytes, uid unless empty, the unpadded `Bytes()` of a, b, Gx, Gy, X and Y left-padded
    to 32) and `Sum(nil)[:32]` give Z_A of GM/T 0003.2 §5.5. -/
theorem za_eq (uid : Bytes) (x y : Nat) (hu : uid.length < 8192) (hx : x < 2 ^ 256) (hy : y < 2 ^ 256) :
    za x y uid = .ok (Spec.SM2.za uid x y) := by
  have e256 : (256 : Nat) ^ 32 = 2 ^ 256 := by decide
  have hx2 : x < 256 ^ 32 := by omega
  have hy2 : y < 256 ^ 32 := by omega
  obtain ⟨pa, pb, pgx, pgy⟩ := params_bytes
  have hxb := to32_eq x hx2
  have hyb := to32_eq y hy2
  unfold to32 at hxb hyb
  unfold za
  rw [if_neg (by omega)]
  simp only [sum, List.nil_append]
  have key : ∀ h0 : State, h0 = (if uid.length > 0 then write (write (write init
        [(((BitVec.ofNat 16 (8 * uid.length)) >>> 8) &&& 0xFF).setWidth 8])
        [((BitVec.ofNat 16 (8 * uid.length)) &&& 0xFF).setWidth 8]) uid
      else (write (write init [(((BitVec.ofNat 16 (8 * uid.length)) >>> 8) &&& 0xFF).setWidth 8])
        [((BitVec.ofNat 16 (8 * uid.length)) &&& 0xFF).setWidth 8])) →
      finish (write (write (write (write (write (write h0 (natBytes Gen.SM2.paramA)) (natBytes Gen.SM2.paramB))
        (natBytes Gen.SM2.paramGx)) (natBytes Gen.SM2.paramGy)) (pad32 (natBytes x))) (pad32 (natBytes y)))
      = Spec.SM2.za uid x y := by
    intro h0 e
    have e2 : h0 = [[(((BitVec.ofNat 16 (8 * uid.length)) >>> 8) &&& 0xFF).setWidth 8],
        [((BitVec.ofNat 16 (8 * uid.length)) &&& 0xFF).setWidth 8], uid].foldl write init := by
      rw [e]
      split
      · rfl
      · have : uid = [] := List.eq_nil_of_length_eq_zero (by omega)
        subst this
        simp only [List.foldl_cons, List.foldl_nil]
        have := Props.C04.write_write (write init [(((BitVec.ofNat 16 (8 * ([] : Bytes).length)) >>> 8) &&& 0xFF).setWidth 8])
          _ [((BitVec.ofNat 16 (8 * ([] : Bytes).length)) &&& 0xFF).setWidth 8] []
          (Proofs.SM3.inv_write Proofs.SM3.inv_init _)
        rw [List.append_nil] at this
        exact this.symm
    have := finish_writes ([[(((BitVec.ofNat 16 (8 * uid.length)) >>> 8) &&& 0xFF).setWidth 8],
        [((BitVec.ofNat 16 (8 * uid.length)) &&& 0xFF).setWidth 8], uid] ++
        [natBytes Gen.SM2.paramA, natBytes Gen.SM2.paramB, natBytes Gen.SM2.paramGx, natBytes Gen.SM2.paramGy,
         pad32 (natBytes x), pad32 (natBytes y)])
    rw [List.foldl_append, ← e2] at this
    simp only [List.foldl_cons, List.foldl_nil] at this
    rw [this, pa, pb, pgx, pgy, hxb, hyb]
    have he := entl_eq uid.length hu
    unfold Spec.SM2.za
    congr 1
    simp only [List.flatten_append, List.flatten_cons, List.flatten_nil, List.append_nil, List.append_assoc]
    rw [← he]
    rfl
  rw [key _ rfl]
  unfold Spec.SM2.za
  rw [take32_hash]

/-- `ZA` refuses a uid of 8192 bytes or more (whose bit length does not fit ENTL's 16 bits) -/
theorem za_err (uid : Bytes) (x y : Nat) (hu : uid.length ≥ 8192) :
    za x y uid = .error "SM2: uid too large" := by
  unfold za; rw [if_pos hu]

/-- `msgHash(za, msg)`: two `Write`s and `SetBytes(Sum(nil)[:32])` = the integer of SM3(za ‖ msg) -/
theorem msgHash_hash (z msg : Bytes) : msgHash z msg = os2ip (Spec.SM3.hash (z ++ msg)) := by
  unfold msgHash
  simp only [sum, List.nil_append]
  have := finish_writes [z, msg]
  simp only [List.foldl_cons, List.foldl_nil, List.flatten_cons, List.flatten_nil, List.append_nil] at this
  rw [this, take32_hash]

/-- `msgHash(ZA(pub, uid), msg)` = e = Hv(Z_A ‖ M) of GM/T 0003.2 -/
theorem msgHash_eq (uid msg : Bytes) (x y : Nat) :
    msgHash (Spec.SM2.za uid x y) msg = Spec.SM2.msgE uid x y msg := msgHash_hash _ _

/-- `pub.Sm3Digest(msg, uid)`: the default uid replaces an empty one, and the result is the minimal
    big-endian encoding `e.Bytes()` of the standard's e (so it may be shorter than 32 bytes). -/
theorem sm3Digest_eq (uid msg : Bytes) (x y : Nat) (hu : uid.length < 8192) (hx : x < 2 ^ 256) (hy : y < 2 ^ 256) :
    sm3Digest x y msg uid
      = .ok (natBytes (Spec.SM2.msgE (if uid.length = 0 then Spec.SM2.defaultUid else uid) x y msg)) := by
  unfold sm3Digest
  have hu2 : (if uid.length = 0 then defaultUid else uid).length < 8192 := by
    split
    · decide
    · exact hu
  simp only [za_eq _ x y hu2 hx hy, msgHash_eq]
  rfl

theorem sm3Digest_os2ip (uid msg : Bytes) (x y : Nat) (hu : uid.length < 8192) (hx : x < 2 ^ 256) (hy : y < 2 ^ 256) :
    (sm3Digest x y msg uid).toOption.map os2ip
      = some (Spec.SM2.msgE (if uid.length = 0 then Spec.SM2.defaultUid else uid) x y msg) := by
  rw [sm3Digest_eq uid msg x y hu hx hy]
  simp [Except.toOption, os2ip_natBytes]

-- keyExchange ---------------------------------------------------------------------------------------------------------

/-- the part of `Spec.SM2.kex` after the shared point V = (vx, vy) has been computed -/
def kexTail (klen : Nat) (ida idb : Bytes) (pa pb ra rb : Nat × Nat) (vx vy : Nat) : Option Spec.SM2.KexOut :=
  if vx = 0 ∧ vy = 0 then none else
  let zA := Spec.SM2.za ida pa.1 pa.2
  let zB := Spec.SM2.za idb pb.1 pb.2
  let k := Spec.SM2.kdf (Spec.SM2.b32 vx ++ Spec.SM2.b32 vy ++ zA ++ zB) klen
  let h := Spec.SM3.hash (Spec.SM2.b32 vx ++ zA ++ zB ++ Spec.SM2.b32 ra.1 ++ Spec.SM2.b32 ra.2 ++ Spec.SM2.b32 rb.1 ++ Spec.SM2.b32 rb.2)
  some ⟨k, Spec.SM3.hash (0x02 :: (Spec.SM2.b32 vy ++ h)), Spec.SM3.hash (0x03 :: (Spec.SM2.b32 vy ++ h))⟩

open Spec.SM2 in
/-- `kexTail` IS that part of the specification (definitional unfolding of `Spec.SM2.kex`). -/
theorem kex_tail (klen : Nat) (ida idb : Bytes) (dSelf rSelf : Nat) (peer peerEph pa pb ra rb : Nat × Nat) :
    kex klen ida idb dSelf rSelf peer peerEph pa pb ra rb =
      if !(decide (peerEph.1 < p) && decide (peerEph.2 < p)) then none
      else if !onCurve peerEph.1 peerEph.2 then none
      else match smul ((dSelf + xbar (enc (smul rSelf G)).1 * rSelf) % n)
                 (padd (dec peer.1 peer.2) (smul (xbar peerEph.1) (dec peerEph.1 peerEph.2))) with
           | none => none
           | some (vx, vy) => kexTail klen ida idb pa pb ra rb vx vy := by
  unfold kex kexTail
  rfl

/-- who is A: `pza`/`pzb` and `ra`/`rb` of `keyExchange` in protocol order -/
def protoOrder (thisIsA : Bool) (own peer : Nat × Nat) : (Nat × Nat) × (Nat × Nat) :=
  if thisIsA then (own, peer) else (peer, own)

/-- `keyExchange` after the shared point: for either role, identities shorter than 8192 bytes and
    coordinates below 2^256, the Go assembly (ZA of A's key with ida — the "V is infinite" test — ZA
    of B's key with idb, `to32` of vx, vy and the four ephemeral coordinates, `kdf(klen, vx, vy, ZA, ZB)`,
    `hash = SM3(vx‖ZA‖ZB‖x1‖y1‖x2‖y2)`, `S1 = SM3(02‖vy‖hash)`, `S2 = SM3(03‖vy‖hash)`) is the tail of
    the specification's `kex` with the long-term and ephemeral points in protocol order. -/
theorem glue_eq (klen : Nat) (ida idb : Bytes) (thisIsA : Bool) (own peer ownEph peerEph v : Nat × Nat)
    (ha : ida.length < 8192) (hb : idb.length < 8192)
    (ho : own.1 < 2 ^ 256 ∧ own.2 < 2 ^ 256) (hp : peer.1 < 2 ^ 256 ∧ peer.2 < 2 ^ 256)
    (hoe : ownEph.1 < 2 ^ 256 ∧ ownEph.2 < 2 ^ 256) (hpe : peerEph.1 < 2 ^ 256 ∧ peerEph.2 < 2 ^ 256)
    (hv : v.1 < 2 ^ 256 ∧ v.2 < 2 ^ 256) :
    glue klen ida idb thisIsA own peer ownEph peerEph v =
      match kexTail klen ida idb (protoOrder thisIsA own peer).1 (protoOrder thisIsA own peer).2
              (protoOrder thisIsA ownEph peerEph).1 (protoOrder thisIsA ownEph peerEph).2 v.1 v.2 with
      | some o => .ok (o.k, o.s1, o.s2)
      | none => .error "V is infinite" := by
  have e256 : (256 : Nat) ^ 32 = 2 ^ 256 := by decide
  have t32 : ∀ w : Nat, w < 2 ^ 256 → to32 w = Spec.SM2.b32 w := fun w hw => to32_eq w (by omega)
  unfold glue kexTail protoOrder
  cases thisIsA
  · simp only [Bool.false_eq_true, if_false, Bool.not_false, if_true]
    rw [za_eq ida peer.1 peer.2 ha hp.1 hp.2]
    simp only []
    by_cases hz : v.1 = 0 ∧ v.2 = 0
    · rw [if_pos hz, if_pos hz]
    · rw [if_neg hz, if_neg hz, za_eq idb own.1 own.2 hb ho.1 ho.2]
      simp only [kdf_eq, bytesCombine_eq, Props.C04.sm3Sum_spec, t32 _ hv.1, t32 _ hv.2, t32 _ hoe.1, t32 _ hoe.2,
        t32 _ hpe.1, t32 _ hpe.2]
      simp [List.flatten_cons, List.append_assoc]
  · simp only [if_true, Bool.not_true, Bool.false_eq_true, if_false]
    rw [za_eq ida own.1 own.2 ha ho.1 ho.2]
    simp only []
    by_cases hz : v.1 = 0 ∧ v.2 = 0
    · rw [if_pos hz, if_pos hz]
    · rw [if_neg hz, if_neg hz, za_eq idb peer.1 peer.2 hb hp.1 hp.2]
      simp only [kdf_eq, bytesCombine_eq, Props.C04.sm3Sum_spec, t32 _ hv.1, t32 _ hv.2, t32 _ hoe.1, t32 _ hoe.2,
        t32 _ hpe.1, t32 _ hpe.2]
      simp [List.flatten_cons, List.append_assoc]

/-- the errors of `keyExchange`'s glue and their order: ida too long (first `ZA`) comes before
    "V is infinite", which comes before idb too long (second `ZA`). -/
theorem glue_err_ida (klen : Nat) (ida idb : Bytes) (thisIsA : Bool) (own peer ownEph peerEph v : Nat × Nat)
    (ha : ida.length ≥ 8192) :
    glue klen ida idb thisIsA own peer ownEph peerEph v = .error "SM2: uid too large" := by
  unfold glue; simp only [za_err ida _ _ ha]

theorem glue_err_idb (klen : Nat) (ida idb : Bytes) (thisIsA : Bool) (own peer ownEph peerEph v : Nat × Nat)
    (ha : ida.length < 8192) (hb : idb.length ≥ 8192) (hv : ¬ (v.1 = 0 ∧ v.2 = 0))
    (ho : own.1 < 2 ^ 256 ∧ own.2 < 2 ^ 256) (hp : peer.1 < 2 ^ 256 ∧ peer.2 < 2 ^ 256) :
    glue klen ida idb thisIsA own peer ownEph peerEph v = .error "SM2: uid too large" := by
  unfold glue
  cases thisIsA
  · simp only [Bool.false_eq_true, if_false]
    rw [za_eq ida peer.1 peer.2 ha hp.1 hp.2]
    simp only [if_neg hv, za_err idb _ _ hb]
  · simp only [if_true]
    rw [za_eq ida own.1 own.2 ha ho.1 ho.2]
    simp only [if_neg hv, za_err idb _ _ hb]

/-- both parties derive the same key and confirmation values at byte level: A's call (thisIsA = true,
    own = P_A, peer = P_B, own ephemeral R_A, peer's R_B) and B's call (thisIsA = false, own = P_B, …)
    return the same (k, S1, S2) — or the same error — from the same shared point, for ALL inputs.  (That
    the two shared points are equal is the group-level `Props.C13.shared_point_agree`.) -/
theorem glue_roles_agree (klen : Nat) (ida idb : Bytes) (pA pB rA rB v : Nat × Nat) :
    glue klen ida idb true pA pB rA rB v = glue klen ida idb false pB pA rB rA v := rfl

-- non-vacuity (tests) -------------------------------------------------------------------------------------------

/-- a 33-byte key from two parts: two loop passes, the second cut to one byte -/
example : (kdf 33 [[1, 2], [3]]).map (fun r => (r.1.length, r.2)) = some (33, true) := by decide +kernel
/-- an 8191-byte uid is accepted, an 8192-byte one refused -/
example : (za 1 2 (List.replicate 8192 0)).toOption = none := by decide +kernel
example : ((za 1 2 [0x31]).toOption.map List.length) = some 32 := by decide +kernel
/-- the hypotheses of `glue_eq` are satisfiable and its right-hand side is a `some` -/
example : (kexTail 16 [0x41] [0x42] (1, 2) (3, 4) (5, 6) (7, 8) 9 10).isSome = true := rfl
example : (match glue 1 [0x41] [0x42] true (1, 2) (3, 4) (5, 6) (7, 8) (9, 10) with
    | .ok (k, s1, s2) => k.length == 1 && s1.length == 32 && s2.length == 32 && s1 != s2
    | .error _ => false) = true := by decide +kernel

end Props.C13Glue
