/-
C17 — the PKCS#12 integrity check (pkcs12/mac.go `verifyMac`, the MAC part of pkcs12.go `getSafeContents`)
accepts only the WHOLE MAC: theorems about `Model.PKCS12` for all inputs and ALL stored digest lengths.

`hmac` is any function whose output has a fixed length `L` (HMAC-SHA1 in the code: `hmacSHA1_length`, L = 20).

 * `mac_accepts_iff_exact_length`  verifyMac accepts iff the algorithm is SHA-1, pbkdf returns a key, the stored
                                   digest has exactly L octets AND equals the HMAC of the message under that key
 * `mac_wrong_length_rejected`     a stored digest of any other length (0 octets, a prefix, the MAC followed by
                                   more octets, …) is answered `ErrIncorrectPassword`, whatever its octets are
 * `mac_proper_prefix_rejected`, `mac_proper_suffix_rejected`, `mac_extended_rejected`
                                   the first k < L octets / the last k < L octets of the right MAC / the right MAC
                                   followed by k > 0 octets are rejected
 * `getSafeContents_wrong_length_rejected`  a PFX whose stored digest has not L octets is never opened, with no
                                   password (the retry with the nil password included) and no matter what follows
                                   the MAC check; the error is `ErrIncorrectPassword` for a well-formed SHA-1 PFX
 * `sha1_mac_accepted_has_20_octets`  the instance the code runs: SHA-1 / HMAC-SHA1
Tied to the code by the ops `p12macd` / `p12mactrunc` (Driver/P12MacLen.lean, harness/c17mactrunc.go).
Core Lean only (no Mathlib).
-/
import Gmsm.Model.PKCS12
import Gmsm.Spec.SHA1
import Gmsm.Spec.HMAC
import Gmsm.Props.C17KDF
namespace Props.C17MacLen
open Gmsm Model.PKCS12

/-- HMAC over SHA-1 (RFC 2104, `Spec.HMAC.hmac Spec.SHA1.hash`) always has 20 octets -/
theorem hmacSHA1_length (key msg : Bytes) : (Spec.HMAC.hmac Spec.SHA1.hash key msg).length = 20 := by
  unfold Spec.HMAC.hmac
  exact Spec.SHA1.hash_length _

/-- mac.go:30-45: whatever `verifyMac` accepts is a digest of exactly `L` octets equal to the expected MAC -/
theorem mac_accepted_has_hmac_length (H : Bytes → Bytes) (hmac : Bytes → Bytes → Bytes) (L : Nat)
    (hL : ∀ key msg, (hmac key msg).length = L) (m : MacData) (message password : Bytes)
    (h : verifyMac H hmac m message password = .ok ()) :
    m.digest.length = L ∧ ∃ key, macKey H m password = some key ∧ m.digest = hmac key message := by
  unfold verifyMac at h
  cases ha : m.algIsSHA1 with
  | false => simp [ha] at h
  | true =>
    cases hk : macKey H m password with
    | none => simp [ha, hk] at h
    | some key =>
      by_cases hd : m.digest = hmac key message
      · exact ⟨by rw [hd]; exact hL key message, key, rfl, hd⟩
      · simp [ha, hk, hd] at h

/-- **mac.go:30-45 `verifyMac`** accepts iff the digest algorithm is SHA-1, `pbkdf` returns a key, the stored
    digest has exactly the HMAC length and is the HMAC of the message under that key — for every stored digest,
    of every length. -/
theorem mac_accepts_iff_exact_length (H : Bytes → Bytes) (hmac : Bytes → Bytes → Bytes) (L : Nat)
    (hL : ∀ key msg, (hmac key msg).length = L) (m : MacData) (message password : Bytes) :
    verifyMac H hmac m message password = .ok () ↔
      m.algIsSHA1 = true ∧ m.digest.length = L ∧
        ∃ key, macKey H m password = some key ∧ m.digest = hmac key message := by
  constructor
  · intro h
    obtain ⟨hlen, key, hk, hd⟩ := mac_accepted_has_hmac_length H hmac L hL m message password h
    refine ⟨?_, hlen, key, hk, hd⟩
    unfold verifyMac at h
    cases ha : m.algIsSHA1 with
    | false => simp [ha] at h
    | true => rfl
  · rintro ⟨ha, _, key, hk, hd⟩
    unfold verifyMac
    simp [ha, hk, hd]

/-- a stored digest whose length is not the HMAC length is never accepted … -/
theorem mac_wrong_length_not_accepted (H : Bytes → Bytes) (hmac : Bytes → Bytes → Bytes) (L : Nat)
    (hL : ∀ key msg, (hmac key msg).length = L) (m : MacData) (message password : Bytes)
    (hlen : m.digest.length ≠ L) :
    verifyMac H hmac m message password ≠ .ok () :=
  fun h => hlen (mac_accepted_has_hmac_length H hmac L hL m message password h).1

/-- … and for a SHA-1 MAC with a derivable key the answer is `ErrIncorrectPassword`, whatever the octets are
    (0 octets included: an emptied MAC value does not switch the integrity check off) -/
theorem mac_wrong_length_rejected (H : Bytes → Bytes) (hmac : Bytes → Bytes → Bytes) (L : Nat)
    (hL : ∀ key msg, (hmac key msg).length = L) (m : MacData) (message password : Bytes)
    (ha : m.algIsSHA1 = true) (key : Bytes) (hk : macKey H m password = some key)
    (hlen : m.digest.length ≠ L) :
    verifyMac H hmac m message password = .error .incorrectPassword := by
  have hd : m.digest ≠ hmac key message := fun e => hlen (by rw [e]; exact hL key message)
  unfold verifyMac
  simp [ha, hk, hd]

/-- the MAC key does not depend on the stored digest -/
theorem macKey_digest (H : Bytes → Bytes) (m : MacData) (d password : Bytes) :
    macKey H { m with digest := d } password = macKey H m password := rfl

/-- the first k < L octets of the right MAC are rejected (a "truncated HMAC" is not accepted) -/
theorem mac_proper_prefix_rejected (H : Bytes → Bytes) (hmac : Bytes → Bytes → Bytes) (L : Nat)
    (hL : ∀ key msg, (hmac key msg).length = L) (m : MacData) (message password : Bytes)
    (ha : m.algIsSHA1 = true) (key : Bytes) (hk : macKey H m password = some key) (k : Nat) (hkL : k < L) :
    verifyMac H hmac { m with digest := (hmac key message).take k } message password = .error .incorrectPassword := by
  refine mac_wrong_length_rejected H hmac L hL { m with digest := (hmac key message).take k } message password ha key hk ?_
  simp only [List.length_take, hL]
  omega

/-- the last k < L octets of the right MAC are rejected -/
theorem mac_proper_suffix_rejected (H : Bytes → Bytes) (hmac : Bytes → Bytes → Bytes) (L : Nat)
    (hL : ∀ key msg, (hmac key msg).length = L) (m : MacData) (message password : Bytes)
    (ha : m.algIsSHA1 = true) (key : Bytes) (hk : macKey H m password = some key) (k : Nat) (hkL : k < L) :
    verifyMac H hmac { m with digest := (hmac key message).drop (L - k) } message password = .error .incorrectPassword := by
  refine mac_wrong_length_rejected H hmac L hL { m with digest := (hmac key message).drop (L - k) } message password ha key hk ?_
  simp only [List.length_drop, hL]
  omega

/-- the right MAC followed by more octets is rejected -/
theorem mac_extended_rejected (H : Bytes → Bytes) (hmac : Bytes → Bytes → Bytes) (L : Nat)
    (hL : ∀ key msg, (hmac key msg).length = L) (m : MacData) (message password : Bytes)
    (ha : m.algIsSHA1 = true) (key : Bytes) (hk : macKey H m password = some key) (extra : Bytes) (he : extra ≠ []) :
    verifyMac H hmac { m with digest := hmac key message ++ extra } message password = .error .incorrectPassword := by
  refine mac_wrong_length_rejected H hmac L hL { m with digest := hmac key message ++ extra } message password ha key hk ?_
  have : extra.length ≠ 0 := fun h => he (List.length_eq_zero_iff.mp h)
  simp only [List.length_append, hL]
  omega

/-- **pkcs12.go `getSafeContents`**: a PFX whose stored MAC value has not exactly the HMAC length is never
    opened — for every password (the retry with the nil password for `00 00` included), every content and
    whatever the code behind the MAC check (`rest`) would do. -/
theorem getSafeContents_wrong_length_rejected {β : Type} (H : Bytes → Bytes) (hmac : Bytes → Bytes → Bytes) (L : Nat)
    (hL : ∀ key msg, (hmac key msg).length = L) (rest : Bytes → Bytes → Except Err β) (pfx : Pfx) (password : Bytes)
    (hlen : pfx.macData.digest.length ≠ L) (r : β × Bytes) :
    getSafeContents H hmac rest (some pfx) password ≠ .ok r := by
  have hno : ∀ content pw, verifyMac H hmac pfx.macData content pw ≠ .ok () :=
    fun content pw => mac_wrong_length_not_accepted H hmac L hL pfx.macData content pw hlen
  unfold getSafeContents
  simp only
  split
  · intro c; cases c
  · split
    · intro c; cases c
    · cases hc : pfx.content with
      | none => intro c; cases c
      | some content =>
        simp only
        split
        · intro c; cases c
        · cases hv : verifyMac H hmac pfx.macData content password with
          | ok u => cases u; exact absurd hv (hno content password)
          | error err =>
            simp only
            split
            · cases hv2 : verifyMac H hmac pfx.macData content [] with
              | ok u => cases u; exact absurd hv2 (hno content [])
              | error e2 => intro c; cases c
            · intro c; cases c

/-- the instance the code runs (SHA-1, HMAC-SHA1): an accepted stored digest has exactly 20 octets -/
theorem sha1_mac_accepted_has_20_octets (m : MacData) (message password : Bytes)
    (h : verifyMac Spec.SHA1.hash (Spec.HMAC.hmac Spec.SHA1.hash) m message password = .ok ()) :
    m.digest.length = 20 :=
  (mac_accepted_has_hmac_length _ _ 20 hmacSHA1_length m message password h).1

/-- … and a PFX whose stored digest has another length is not opened by `getSafeContents` -/
theorem sha1_pfx_wrong_length_rejected {β : Type} (rest : Bytes → Bytes → Except Err β) (pfx : Pfx) (password : Bytes)
    (hlen : pfx.macData.digest.length ≠ 20) (r : β × Bytes) :
    getSafeContents Spec.SHA1.hash (Spec.HMAC.hmac Spec.SHA1.hash) rest (some pfx) password ≠ .ok r :=
  getSafeContents_wrong_length_rejected _ _ 20 hmacSHA1_length rest pfx password hlen r

/-- non-vacuity: with a toy 2-octet "HMAC" (and any hash with 20-octet output) the whole value is accepted,
    its 1-octet prefix and the empty string are not -/
example (H : Bytes → Bytes) (hH : ∀ x, (H x).length = 20) :
    verifyMac H (fun _ _ => [1, 2]) ⟨true, [1, 2], [], 1⟩ [] [] = .ok () ∧
    verifyMac H (fun _ _ => [1, 2]) ⟨true, [1], [], 1⟩ [] [] = .error .incorrectPassword ∧
    verifyMac H (fun _ _ => [1, 2]) ⟨true, [], [], 1⟩ [] [] = .error .incorrectPassword := by
  refine ⟨?_, ?_, ?_⟩ <;> simp [verifyMac, Props.C17KDF.macKey_eq_spec H hH]

end Props.C17MacLen
