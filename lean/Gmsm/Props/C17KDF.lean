/-
C17 — the PKCS#12 key derivation and integrity check that tjfoc/gmsm carries itself
(pkcs12/pbkdf.go, mac.go, the MAC part of pkcs12.go `getSafeContents`), theorems about `Model.PKCS12`
for ALL inputs.  Serves: "A PKCS#12 bundle encoded with a password decodes, with that password, to the same
private key and certificates, is rejected with any other password, and no modification of its bytes makes
it decode to a different key or certificate."

 * `pbkdf_eq_spec`    the big.Int / buffer code of pbkdf.go computes RFC 7292 B.2 (`Spec.PKCS12KDF.kdf`) for
                      every hash with 20-byte output, every block size v ≥ 1, salt, password, ID, size and
                      iteration count (0 counts as 1: `pbkdf_r0`); `pbkdf_length`; `fillWithRepeats_spec`;
                      `updateBlock_eq` (the truncate / left-pad code is "mod 2^(8v), v bytes");
                      `pbkdf_literal20_gap` / `pbkdf_literal20_panic`: with u ≠ 20 the code is NOT the RFC.
 * `mac_accepts_iff`  verifyMac accepts exactly the digest HMAC(kdf(password), message); `verify_computeMac`;
                      `mac_rejects_modified`, `wrong_password_rejected_unless_kdf_collision`.
 * `empty_password_rule`, `getSafeContents_ok_iff`  which (password, stored MAC) pairs are accepted;
                      `mac_failure_returns_nothing`, `mac_failure_never_reaches_rest`.
 Distinct passwords have distinct BMP encodings: `Props.C17.bmpString_injective` (not repeated here).
Core Lean only (no Mathlib).
-/
import Gmsm.Model.PKCS12
import Gmsm.Spec.PKCS12KDF
import Gmsm.Spec.SHA1
import Gmsm.Proofs.BytesNat
namespace Props.C17KDF
open Gmsm Model.PKCS12

theorem os2ip_replicate_zero (k : Nat) : os2ip (List.replicate k (0 : Byte)) = 0 := by
  induction k with
  | zero => rfl
  | succ k ih => rw [List.replicate_succ, os2ip_cons, ih]; simp

theorem os2ip_zeros_append (k : Nat) (b : Bytes) : os2ip (List.replicate k (0 : Byte) ++ b) = os2ip b := by
  rw [os2ip_append, os2ip_replicate_zero]; simp

/-- dropping leading bytes of a big-endian string is reduction modulo a power of 256 -/
theorem os2ip_drop (bs : Bytes) (k : Nat) : os2ip (bs.drop k) = os2ip bs % 256 ^ (bs.length - k) := by
  have h := os2ip_append (bs.take k) (bs.drop k)
  rw [List.take_append_drop] at h
  have hl := os2ip_lt (bs.drop k)
  rw [List.length_drop] at hl h
  rw [h, Nat.add_comm, Nat.add_mul_mod_self_right, Nat.mod_eq_of_lt hl]

/-- big-endian strings of the same length with the same value are equal -/
theorem os2ip_inj (a b : Bytes) (hl : a.length = b.length) (h : os2ip a = os2ip b) : a = b := by
  induction a generalizing b with
  | nil => cases b with
    | nil => rfl
    | cons _ _ => simp at hl
  | cons x xs ih =>
    cases b with
    | nil => simp at hl
    | cons y ys =>
      have hl2 : xs.length = ys.length := by simpa using hl
      rw [os2ip_cons, os2ip_cons, hl2] at h
      have h1 := os2ip_lt xs
      have h2 := os2ip_lt ys
      rw [hl2] at h1
      have hpos : 0 < 256 ^ ys.length := Nat.pow_pos (by decide)
      have hxy : x.toNat = y.toNat := by
        rcases Nat.lt_trichotomy x.toNat y.toNat with hlt | heq | hgt
        · exfalso
          have : (x.toNat + 1) * 256 ^ ys.length ≤ y.toNat * 256 ^ ys.length := Nat.mul_le_mul_right _ hlt
          rw [Nat.add_mul, Nat.one_mul] at this
          omega
        · exact heq
        · exfalso
          have : (y.toNat + 1) * 256 ^ ys.length ≤ x.toNat * 256 ^ ys.length := Nat.mul_le_mul_right _ hgt
          rw [Nat.add_mul, Nat.one_mul] at this
          omega
      have hv : os2ip xs = os2ip ys := by rw [hxy] at h; omega
      rw [BitVec.eq_of_toNat_eq hxy, ih ys hl2 hv]

theorem pow8 (v : Nat) : 2 ^ (8 * v) = 256 ^ v := by
  rw [Nat.pow_mul]

/-- pbkdf.go:136-153: whatever the length of `Ij.Bytes()`, after the two adjustments `Ijb` is the
    v-byte big-endian encoding of `(I_j + B + 1) mod 2^(8v)` -/
theorem updateBlock_eq (v b : Nat) (blk : Bytes) :
    updateBlock v b blk = i2ospR v ((os2ip blk + b + 1) % 2 ^ (8 * v)) := by
  rw [pow8]
  generalize hn : os2ip blk + b + 1 = n
  apply os2ip_inj
  · rw [i2ospR_length]
    unfold updateBlock
    simp only [hn]
    by_cases h1 : (natBytes n).length > v
    · have hd : ((natBytes n).drop ((natBytes n).length - v)).length = v := by rw [List.length_drop]; omega
      simp only [h1, if_true, hd, Nat.lt_irrefl, if_false]
    · simp only [h1, if_false]
      by_cases h2 : (natBytes n).length < v
      · simp only [h2, if_true, List.length_append, List.length_replicate]; omega
      · simp only [h2, if_false]; omega
  · rw [os2ip_i2ospR, Nat.mod_mod]
    unfold updateBlock
    simp only [hn]
    have hv := os2ip_natBytes n
    have hlt := os2ip_lt (natBytes n)
    rw [hv] at hlt
    by_cases h1 : (natBytes n).length > v
    · have hd : ((natBytes n).drop ((natBytes n).length - v)).length = v := by rw [List.length_drop]; omega
      simp only [h1, if_true, hd, Nat.lt_irrefl, if_false]
      rw [os2ip_drop, hv]
      congr 2; omega
    · simp only [h1, if_false]
      have hle : 256 ^ (natBytes n).length ≤ 256 ^ v := Nat.pow_le_pow_right (by decide) (by omega)
      have hm : n % 256 ^ v = n := Nat.mod_eq_of_lt (by omega)
      by_cases h2 : (natBytes n).length < v
      · simp only [h2, if_true]; rw [os2ip_zeros_append, hv, hm]
      · simp only [h2, if_false]; rw [hv, hm]


/-! ## repeating a pattern -/
open Spec.PKCS12KDF

theorem repeatBytes_length (p : Bytes) (k : Nat) : (repeatBytes p k).length = k * p.length := by
  induction k with
  | zero => simp [repeatBytes]
  | succ k ih => simp [repeatBytes, ih, Nat.add_mul, Nat.add_comm]

theorem repeatBytes_succ_right (p : Bytes) (k : Nat) : repeatBytes p k ++ p = repeatBytes p (k + 1) := by
  induction k with
  | zero => simp [repeatBytes]
  | succ k ih => rw [repeatBytes, List.append_assoc, ih]; rfl

theorem repeatBytes_get (p : Bytes) (k i : Nat) (h : i < k * p.length) :
    (repeatBytes p k)[i]? = p[i % p.length]? := by
  induction k generalizing i with
  | zero => simp at h
  | succ k ih =>
    rw [repeatBytes]
    by_cases hi : i < p.length
    · rw [List.getElem?_append_left hi, Nat.mod_eq_of_lt hi]
    · have hge : p.length ≤ i := by omega
      rw [List.getElem?_append_right hge, ih _ (by rw [Nat.add_mul] at h; omega), ← Nat.mod_eq_sub_mod hge]

theorem cycleTo_length (p : Bytes) (n : Nat) : (cycleTo p n).length = n := by simp [cycleTo]

theorem cycleTo_get (p : Bytes) (n i : Nat) (h : i < n) : (cycleTo p n)[i]? = some (p.getD (i % p.length) 0) := by
  simp [cycleTo, List.getElem?_map, List.getElem?_range h]

/-- a prefix of enough copies of a non-empty pattern is the pattern cycled -/
theorem take_repeatBytes (p : Bytes) (k n : Nat) (hp : 0 < p.length) (h : n ≤ k * p.length) :
    (repeatBytes p k).take n = cycleTo p n := by
  apply List.ext_getElem?
  intro i
  by_cases hi : i < n
  · rw [List.getElem?_take, if_pos hi, repeatBytes_get p k i (by omega), cycleTo_get p n i hi]
    have : i % p.length < p.length := Nat.mod_lt _ hp
    rw [List.getD_eq_getElem?_getD, List.getElem?_eq_getElem this]; rfl
  · rw [List.getElem?_take, if_neg hi]
    symm; rw [List.getElem?_eq_none_iff, cycleTo_length]; omega

theorem ceil_mul_ge (a b : Nat) (hb : 0 < b) : a ≤ (a + b - 1) / b * b := by
  have h1 := Nat.div_add_mod (a + b - 1) b
  have h2 := Nat.mod_lt (a + b - 1) hb
  rw [Nat.mul_comm] at h1
  omega

/-- pbkdf.go:25-31 is steps 2 / 3 of the RFC -/
theorem fillWithRepeats_eq_extend (p : Bytes) (v : Nat) (hv : 1 ≤ v) : fillWithRepeats p v = extend p v := by
  unfold fillWithRepeats extend ceilDiv
  by_cases hp : p.length = 0
  · rw [if_pos hp, hp]
    have : (0 + v - 1) / v = 0 := Nat.div_eq_of_lt (by omega)
    rw [this]; simp [cycleTo]
  · rw [if_neg hp]
    exact take_repeatBytes p _ _ (by omega) (ceil_mul_ge _ _ (by omega))


/-! ## step 6.B -/

theorem fillBLoop_spec (Ai : Bytes) (v : Nat) (hA : 0 < Ai.length) (fuel k : Nat) (h : v ≤ k * Ai.length + fuel) :
    ∃ k2, fillBLoop Ai v fuel (repeatBytes Ai k) = repeatBytes Ai k2 ∧ v ≤ k2 * Ai.length := by
  induction fuel generalizing k with
  | zero => exact ⟨k, rfl, by omega⟩
  | succ fuel ih =>
    unfold fillBLoop
    by_cases hl : (repeatBytes Ai k).length < v
    · rw [if_pos hl, repeatBytes_succ_right]
      exact ih (k + 1) (by rw [Nat.add_mul]; omega)
    · rw [if_neg hl]
      rw [repeatBytes_length] at hl
      exact ⟨k, rfl, by omega⟩

/-- pbkdf.go:119-123 is step 6.B -/
theorem fillB_eq (Ai : Bytes) (v : Nat) (hA : 0 < Ai.length) : fillB Ai v = some (cycleTo Ai v) := by
  unfold fillB
  rw [if_neg (by omega)]
  obtain ⟨k2, he, hk⟩ := fillBLoop_spec Ai v hA v 0 (by omega)
  have : repeatBytes Ai 0 = [] := rfl
  rw [this] at he
  rw [he, take_repeatBytes Ai k2 v hA hk]

/-! ## step 6.C -/

theorem addBlocks_length (v b k : Nat) (I : Bytes) : (addBlocks v b k I).length = k * v := by
  induction k generalizing I with
  | zero => simp [addBlocks]
  | succ k ih => simp [addBlocks, i2ospR_length, ih, Nat.add_mul, Nat.add_comm]

/-- pbkdf.go:132-155 with `j` blocks done (`P`) and `n` to go (`R`): the in-place loop is `addBlocks` -/
theorem updateILoop_spec (v b : Nat) (n j : Nat) (P R : Bytes) (hP : P.length = j * v) (hR : n * v ≤ R.length) :
    updateILoop v b n j (P ++ R) = P ++ addBlocks v b n R ++ R.drop (n * v) := by
  induction n generalizing j P R with
  | zero => simp [updateILoop, addBlocks]
  | succ n ih =>
    have hv : v ≤ R.length := by rw [Nat.add_mul] at hR; omega
    unfold updateILoop
    have e1 : (P ++ R).drop (j * v) = R := by rw [← hP, List.drop_left]
    have e2 : (P ++ R).take (j * v) = P := by rw [← hP, List.take_left]
    have e3 : (P ++ R).drop ((j + 1) * v) = R.drop v := by
      rw [Nat.add_mul, Nat.one_mul, ← hP, ← List.drop_drop, List.drop_left]
    simp only [e1, e2, e3]
    have hl : (updateBlock v b (R.take v)).length = v := by rw [updateBlock_eq, i2ospR_length]
    have hc : goCopy (R.take v) (updateBlock v b (R.take v)) = updateBlock v b (R.take v) := by
      unfold goCopy
      have ht : (R.take v).length = v := by rw [List.length_take]; omega
      rw [ht, hl, List.take_of_length_le (by omega), List.drop_eq_nil_of_le (by omega), List.append_nil]
    rw [hc]
    have := ih (j + 1) (P ++ updateBlock v b (R.take v)) (R.drop v)
      (by rw [List.length_append, hP, hl, Nat.add_mul, Nat.one_mul])
      (by rw [List.length_drop]; rw [Nat.add_mul] at hR; omega)
    rw [this, addBlocks, updateBlock_eq, List.drop_drop]
    simp only [List.append_assoc]
    congr 3
    rw [Nat.add_mul, Nat.one_mul, Nat.add_comm]

/-- pbkdf.go:128-156 is step 6.C, when I consists of whole v-byte blocks -/
theorem updateI_eq_stepI (v : Nat) (B I : Bytes) (hI : I.length % v = 0) : updateI v B I = stepI v B I := by
  unfold updateI stepI
  have hd : I.length / v * v = I.length := by
    have := Nat.div_add_mod I.length v
    rw [Nat.mul_comm] at this; omega
  have := updateILoop_spec v (os2ip B) (I.length / v) 0 [] I (by simp) (by omega)
  rw [List.nil_append, List.nil_append] at this
  rw [this, hd, List.drop_length, List.append_nil]

theorem stepI_length (v : Nat) (B I : Bytes) (hI : I.length % v = 0) : (stepI v B I).length = I.length := by
  unfold stepI
  rw [addBlocks_length]
  have := Nat.div_add_mod I.length v
  rw [Nat.mul_comm] at this; omega


/-! ## step 6.A and the outer loop -/

theorem applyN_comm (H : Bytes → Bytes) (n : Nat) (a : Bytes) : applyN H n (H a) = H (applyN H n a) := by
  induction n generalizing a with
  | zero => rfl
  | succ n ih => simp only [applyN]; rw [ih]

theorem applyN_eq_hpow (H : Bytes → Bytes) (n : Nat) (a : Bytes) : applyN H n a = hpow H n a := by
  induction n generalizing a with
  | zero => rfl
  | succ n ih => rw [applyN, applyN_comm, ih, hpow]

/-- pbkdf.go:110-113 is H^r for r ≥ 1 -/
theorem hashIter_eq_hpow (H : Bytes → Bytes) (r : Nat) (hr : 1 ≤ r) (x : Bytes) : hashIter H r x = hpow H r x := by
  unfold hashIter
  obtain ⟨k, rfl⟩ : ∃ k, r = k + 1 := ⟨r - 1, by omega⟩
  rw [Nat.add_sub_cancel, applyN_comm, applyN_eq_hpow, hpow]

/-- … and `r = 0` hashes once, exactly like `r = 1` -/
theorem hashIter_zero (H : Bytes → Bytes) (x : Bytes) : hashIter H 0 x = hashIter H 1 x := rfl

theorem hpow_length (H : Bytes → Bytes) (u : Nat) (hH : ∀ x, (H x).length = u) (r : Nat) (hr : 1 ≤ r) (x : Bytes) :
    (hpow H r x).length = u := by
  obtain ⟨k, rfl⟩ : ∃ k, r = k + 1 := ⟨r - 1, by omega⟩
  rw [hpow, hH]

theorem blocksA_flatten_length (H : Bytes → Bytes) (u : Nat) (hH : ∀ x, (H x).length = u) (r v : Nat) (hr : 1 ≤ r)
    (D : Bytes) (c : Nat) (I : Bytes) : (blocksA H r v D c I).flatten.length = c * u := by
  induction c generalizing I with
  | zero => simp [blocksA]
  | succ c ih =>
    simp only [blocksA, List.flatten_cons, List.length_append]
    rw [ih, hpow_length H u hH r hr, Nat.add_mul, Nat.one_mul, Nat.add_comm]

theorem copyInto_block (pre Ai : Bytes) (n i : Nat) (hp : pre.length = i * 20) (hA : Ai.length = 20) :
    copyInto (pre ++ List.replicate ((n + 1) * 20) 0) (i * 20) Ai = pre ++ Ai ++ List.replicate (n * 20) 0 := by
  unfold copyInto goCopy
  rw [← hp, List.take_left, List.drop_left, List.length_replicate, hA,
    List.take_of_length_le (by omega), List.drop_replicate, List.append_assoc]
  congr 3
  rw [Nat.add_mul]; omega

/-- the loop of pbkdf.go:107-158 started at round `i` with `pre` = A_1‖…‖A_i already in the buffer -/
theorem pbkdfLoop_spec (H : Bytes → Bytes) (hH : ∀ x, (H x).length = 20) (r v c : Nat) (hr : 1 ≤ r) (D : Bytes)
    (n i : Nat) (I pre : Bytes) (hc : i + n = c) (hp : pre.length = i * 20) (hI : I.length % v = 0) :
    pbkdfLoop H r v c D n i I (pre ++ List.replicate (n * 20) 0) = some (pre ++ (blocksA H r v D n I).flatten) := by
  induction n generalizing i I pre with
  | zero => simp [pbkdfLoop, blocksA]
  | succ n ih =>
    unfold pbkdfLoop
    have hA : (hpow H r (D ++ I)).length = 20 := hpow_length H 20 hH r hr _
    simp only [hashIter_eq_hpow H r hr]
    rw [copyInto_block pre _ n i hp hA]
    by_cases hn : i < c - 1
    · rw [if_pos hn, fillB_eq _ v (by omega)]
      simp only []
      rw [updateI_eq_stepI v _ I hI]
      have := ih (i + 1) (stepI v (cycleTo (hpow H r (D ++ I)) v) I) (pre ++ hpow H r (D ++ I)) (by omega)
        (by rw [List.length_append, hp, hA, Nat.add_mul]) (by rw [stepI_length v _ I hI]; exact hI)
      rw [this, blocksA, List.flatten_cons, List.append_assoc]
    · rw [if_neg hn]
      have hn0 : n = 0 := by omega
      subst hn0
      simp [pbkdfLoop, blocksA]

theorem extend_length (p : Bytes) (v : Nat) : (extend p v).length = v * ceilDiv p.length v := by
  simp [extend, cycleTo_length]

/-- `pbkdf_eq_spec` for r ≥ 1 -/
theorem pbkdf_eq_spec_pos (H : Bytes → Bytes) (hH : ∀ x, (H x).length = 20) (v : Nat) (hv : 1 ≤ v)
    (salt password : Bytes) (r : Nat) (hr : 1 ≤ r) (ID : Byte) (size : Nat) :
    pbkdf H 20 v salt password r ID size = some (kdf H 20 v salt password r ID size) := by
  unfold pbkdf kdf
  rw [if_neg (by omega), if_neg (by omega)]
  simp only [fillWithRepeats_eq_extend _ v hv]
  have hI : (extend salt v ++ extend password v).length % v = 0 := by
    rw [List.length_append, extend_length, extend_length, ← Nat.mul_add, Nat.mul_mod_right]
  have := pbkdfLoop_spec H hH r v ((size + 20 - 1) / 20) hr (List.replicate v ID) ((size + 20 - 1) / 20) 0
    (extend salt v ++ extend password v) [] (by omega) (by simp) hI
  rw [List.nil_append, List.nil_append] at this
  rw [this]
  simp only []
  rw [if_pos]
  · rfl
  · rw [blocksA_flatten_length H 20 hH r v hr]
    exact ceil_mul_ge size 20 (by omega)


theorem pbkdfLoop_r0 (H : Bytes → Bytes) (v c : Nat) (D : Bytes) (n i : Nat) (I A : Bytes) :
    pbkdfLoop H 0 v c D n i I A = pbkdfLoop H 1 v c D n i I A := by
  induction n generalizing i I A with
  | zero => rfl
  | succ n ih =>
    unfold pbkdfLoop
    simp only [hashIter_zero]
    split
    · split
      · rfl
      · exact ih _ _ _
    · exact ih _ _ _

/-- an iteration count of 0 gives what an iteration count of 1 gives (`for j := 1; j < r; j++` runs neither
    time); the same holds for a negative Go `int`, see `pbkdfInt` -/
theorem pbkdf_r0 (H : Bytes → Bytes) (u v : Nat) (salt password : Bytes) (ID : Byte) (size : Nat) :
    pbkdf H u v salt password 0 ID size = pbkdf H u v salt password 1 ID size := by
  unfold pbkdf
  simp only [pbkdfLoop_r0]

/-- **pbkdf.go:33-170 = RFC 7292 B.2.**  For every hash function `H` whose output has 20 bytes (the length the
    literal `20` in `A := make([]byte, c*20)` / `copy(A[i*20:], Ai[:])` presupposes — SHA-1 in every call of
    the library), every block size v ≥ 1, salt, password, ID, size and iteration count r, the Go function returns
    (never panics) and its result is the RFC's.  r = 0 is treated as r = 1 by the code (the RFC's H^0 would be
    the identity: see the example `spec_r0_differs`); size = 0 gives the empty key in both (c = 0, no hash is
    computed).  The I_j update of lines 128-156 (SetBytes / Add / Add / Bytes / drop leading / left-pad) is
    `(I_j + B + 1) mod 2^(8v)` by `updateBlock_eq`, including the cases where `Ij.Bytes()` is longer (carry out
    of the top byte) or shorter (leading zero bytes) than v. -/
theorem pbkdf_eq_spec (H : Bytes → Bytes) (hH : ∀ x, (H x).length = 20) (v : Nat) (hv : 1 ≤ v)
    (salt password : Bytes) (r : Nat) (ID : Byte) (size : Nat) :
    pbkdf H 20 v salt password r ID size = some (kdf H 20 v salt password (max 1 r) ID size) := by
  by_cases hr : 1 ≤ r
  · rw [Nat.max_eq_right hr]; exact pbkdf_eq_spec_pos H hH v hv salt password r hr ID size
  · have : r = 0 := by omega
    subst this
    rw [pbkdf_r0]; exact pbkdf_eq_spec_pos H hH v hv salt password 1 (by omega) ID size

/-- the RFC function returns `size` bytes for any hash with u ≥ 1 output bytes and r ≥ 1 -/
theorem kdf_length (H : Bytes → Bytes) (u : Nat) (hu : 1 ≤ u) (hH : ∀ x, (H x).length = u) (v : Nat)
    (salt password : Bytes) (r : Nat) (hr : 1 ≤ r) (ID : Byte) (size : Nat) :
    (kdf H u v salt password r ID size).length = size := by
  unfold kdf
  simp only [List.length_take, blocksA_flatten_length H u hH r v hr, ceilDiv]
  have := ceil_mul_ge size u hu
  omega

/-- pbkdf.go:163 `return A[:size]`: the derived key has exactly `size` bytes (and the slice expression is in range) -/
theorem pbkdf_length (H : Bytes → Bytes) (hH : ∀ x, (H x).length = 20) (v : Nat) (hv : 1 ≤ v)
    (salt password : Bytes) (r : Nat) (ID : Byte) (size : Nat) :
    ∃ key, pbkdf H 20 v salt password r ID size = some key ∧ key.length = size :=
  ⟨_, pbkdf_eq_spec H hH v hv salt password r ID size,
    kdf_length H 20 (by omega) hH v salt password (max 1 r) (by omega) ID size⟩

/-- the same for a Go `int` iteration count (the `Iterations` field of a file may be 0 or negative): everything ≤ 1 is one iteration -/
theorem pbkdfInt_eq_spec (H : Bytes → Bytes) (hH : ∀ x, (H x).length = 20) (v : Nat) (hv : 1 ≤ v)
    (salt password : Bytes) (r : Int) (ID : Byte) (size : Nat) :
    pbkdfInt H 20 v salt password r ID size = some (kdf H 20 v salt password (max 1 r.toNat) ID size) :=
  pbkdf_eq_spec H hH v hv salt password r.toNat ID size

/-- pbkdf.go:25-31 `fillWithRepeats` (RFC steps 2 and 3) for v ≥ 1: the empty pattern gives the empty string; the
    length is v·⌈len/v⌉, i.e. the least multiple of v that is ≥ len(pattern); byte i is pattern[i mod len].
    (With v = 0 and a non-empty pattern Go panics: integer divide by zero — see `Model.PKCS12.pbkdf`.) -/
theorem fillWithRepeats_spec (pattern : Bytes) (v : Nat) (hv : 1 ≤ v) :
    (pattern = [] → fillWithRepeats pattern v = []) ∧
    (fillWithRepeats pattern v).length = v * ((pattern.length + v - 1) / v) ∧
    (pattern.length ≤ (fillWithRepeats pattern v).length ∧ (fillWithRepeats pattern v).length < pattern.length + v ∧
      (fillWithRepeats pattern v).length % v = 0) ∧
    (∀ i, i < (fillWithRepeats pattern v).length →
      (fillWithRepeats pattern v)[i]? = some (pattern.getD (i % pattern.length) 0)) := by
  rw [fillWithRepeats_eq_extend pattern v hv]
  have hl : (extend pattern v).length = v * ((pattern.length + v - 1) / v) := extend_length pattern v
  refine ⟨?_, hl, ⟨?_, ?_, ?_⟩, ?_⟩
  · intro h; subst h
    have : (v - 1) / v = 0 := Nat.div_eq_of_lt (by omega)
    simp [extend, ceilDiv, cycleTo, this]
  · rw [hl, Nat.mul_comm]; exact ceil_mul_ge _ _ (by omega)
  · rw [hl]
    have h1 := Nat.div_add_mod (pattern.length + v - 1) v
    have h2 := Nat.mod_lt (pattern.length + v - 1) (show 0 < v by omega)
    omega
  · rw [hl, Nat.mul_mod_right]
  · intro i hi
    rw [extend_length] at hi
    exact cycleTo_get pattern _ i hi


/-- the instantiation every caller in the library uses (mac.go:35/52, crypto.go:38-56): `pbkdf(sha1Sum, 20, 64, …)`
    with FIPS 180-4 SHA-1 is RFC 7292 B.2 over SHA-1, for every salt, password, iteration count, ID and size -/
theorem pbkdf_sha1_eq_spec (salt password : Bytes) (r : Int) (ID : Byte) (size : Nat) :
    pbkdfInt Spec.SHA1.hash 20 64 salt password r ID size =
      some (kdf Spec.SHA1.hash 20 64 salt password (max 1 r.toNat) ID size) :=
  pbkdfInt_eq_spec Spec.SHA1.hash Spec.SHA1.hash_length 64 (by omega) salt password r ID size

/-! ## mac.go -/

/-- mac.go:35 / 52: the MAC key is the RFC derivation with ID 3, 20 bytes, SHA-1 parameters u = 20, v = 64 -/
theorem macKey_eq_spec (H : Bytes → Bytes) (hH : ∀ x, (H x).length = 20) (m : MacData) (password : Bytes) :
    macKey H m password = some (kdf H 20 64 m.salt password (max 1 m.iterations.toNat) 3 20) :=
  pbkdfInt_eq_spec H hH 64 (by omega) m.salt password m.iterations 3 20

/-- mac.go:30-45 without any assumption on the hash: accepted iff the algorithm is SHA-1, pbkdf returns a key, and the stored digest is the HMAC under it -/
theorem mac_accepts_iff_key (H : Bytes → Bytes) (hmac : Bytes → Bytes → Bytes) (m : MacData) (message password : Bytes) :
    verifyMac H hmac m message password = .ok () ↔
      m.algIsSHA1 = true ∧ ∃ key, macKey H m password = some key ∧ m.digest = hmac key message := by
  unfold verifyMac
  cases ha : m.algIsSHA1 with
  | false => simp
  | true =>
    cases hk : macKey H m password with
    | none => simp
    | some key =>
      by_cases hd : m.digest = hmac key message <;> simp [hd]

/-- **mac.go:30-45 `verifyMac`** accepts iff the digest algorithm is SHA-1 and the stored digest equals
    HMAC(kdf(salt, password, iterations, ID 3, 20 bytes), message) — `hmac.Equal` is byte-string equality; `hmac`
    is any function (HMAC-SHA1 in the code), `H` any hash with 20-byte output (SHA-1 in the code:
    `Spec.SHA1.hash_length`). -/
theorem mac_accepts_iff (H : Bytes → Bytes) (hH : ∀ x, (H x).length = 20) (hmac : Bytes → Bytes → Bytes)
    (m : MacData) (message password : Bytes) :
    verifyMac H hmac m message password = .ok () ↔
      m.algIsSHA1 = true ∧
      m.digest = hmac (kdf H 20 64 m.salt password (max 1 m.iterations.toNat) 3 20) message := by
  rw [mac_accepts_iff_key, macKey_eq_spec H hH]
  simp

/-- … and the only other answer for a SHA-1 MAC is `ErrIncorrectPassword`, exactly when the digest differs -/
theorem mac_rejects_iff (H : Bytes → Bytes) (hH : ∀ x, (H x).length = 20) (hmac : Bytes → Bytes → Bytes)
    (m : MacData) (message password : Bytes) (ha : m.algIsSHA1 = true) :
    verifyMac H hmac m message password = .error .incorrectPassword ↔
      m.digest ≠ hmac (kdf H 20 64 m.salt password (max 1 m.iterations.toNat) 3 20) message := by
  unfold verifyMac
  rw [macKey_eq_spec H hH, ha]
  by_cases hd : m.digest = hmac (kdf H 20 64 m.salt password (max 1 m.iterations.toNat) 3 20) message <;> simp [hd]

/-- mac.go:47-59 then 30-45: the MAC `computeMac` stores (what `Encode` writes) is accepted by `verifyMac` for the same message and password; salt and iteration count are untouched -/
theorem verify_computeMac (H : Bytes → Bytes) (hmac : Bytes → Bytes → Bytes) (m m2 : MacData) (message password : Bytes)
    (h : computeMac H hmac m message password = .ok m2) :
    verifyMac H hmac m2 message password = .ok () ∧ m2.salt = m.salt ∧ m2.iterations = m.iterations := by
  unfold computeMac at h
  cases ha : m.algIsSHA1 with
  | false => simp [ha] at h
  | true =>
    cases hk : macKey H m password with
    | none => simp [ha, hk] at h
    | some key =>
      simp only [ha, hk, Bool.not_true, Bool.false_eq_true, if_false, Except.ok.injEq] at h
      subst h
      refine ⟨?_, rfl, rfl⟩
      exact (mac_accepts_iff_key H hmac _ message password).mpr ⟨rfl, key, hk, rfl⟩

/-- **a bundle whose authenticated bytes differ is rejected for the same password** — under the explicit
    hypothesis that the abstract HMAC does not collide on the two messages under the derived key (for
    HMAC-SHA1 a cryptographic assumption; `toyHmac_no_collision` shows the hypothesis is satisfiable).
    The result is `ErrIncorrectPassword`, which `getSafeContents` returns without decoding anything
    (`mac_failure_returns_nothing`). -/
theorem mac_rejects_modified (H : Bytes → Bytes) (hmac : Bytes → Bytes → Bytes) (m : MacData)
    (message message2 password : Bytes)
    (hok : verifyMac H hmac m message password = .ok ())
    (hnc : ∀ key, macKey H m password = some key → hmac key message ≠ hmac key message2) :
    verifyMac H hmac m message2 password = .error .incorrectPassword := by
  obtain ⟨ha, key, hk, hd⟩ := (mac_accepts_iff_key H hmac m message password).mp hok
  have := hnc key hk
  unfold verifyMac
  simp only [ha, hk, Bool.not_true, Bool.false_eq_true, if_false]
  rw [if_neg]
  rw [hd]; exact this

/-- **another password is rejected unless the keys / tags collide.**  If the MAC verifies under `pw1` (key `k1`)
    then it verifies under `pw2` (key `k2`) iff HMAC(k2, message) = HMAC(k1, message); so it is rejected
    with `ErrIncorrectPassword` whenever the two tags differ, and accepted when the KDF collides (k1 = k2).
    Distinct password strings give distinct `pw1 ≠ pw2` by `Props.C17.bmpString_injective`. -/
theorem wrong_password_rejected_unless_kdf_collision (H : Bytes → Bytes) (hmac : Bytes → Bytes → Bytes) (m : MacData)
    (message pw1 pw2 k1 k2 : Bytes)
    (hok : verifyMac H hmac m message pw1 = .ok ())
    (h1 : macKey H m pw1 = some k1) (h2 : macKey H m pw2 = some k2) :
    (verifyMac H hmac m message pw2 = .ok () ↔ hmac k2 message = hmac k1 message) ∧
    (hmac k2 message ≠ hmac k1 message → verifyMac H hmac m message pw2 = .error .incorrectPassword) ∧
    (k1 = k2 → verifyMac H hmac m message pw2 = .ok ()) := by
  obtain ⟨ha, key, hk, hd⟩ := (mac_accepts_iff_key H hmac m message pw1).mp hok
  rw [h1] at hk; cases hk
  have hiff : verifyMac H hmac m message pw2 = .ok () ↔ hmac k2 message = hmac k1 message := by
    rw [mac_accepts_iff_key, h2]
    simp only [ha, true_and, Option.some.injEq, exists_eq_left']
    rw [hd]; exact eq_comm
  refine ⟨hiff, ?_, ?_⟩
  · intro hne
    unfold verifyMac
    simp only [ha, h2, Bool.not_true, Bool.false_eq_true, if_false]
    rw [if_neg]
    rw [hd]; exact fun e => hne e.symm
  · intro e; subst e; exact hiff.mpr rfl


/-! ## getSafeContents -/

/-- the PFX passed the checks of pkcs12.go:337-357 (parsed, version 3, `data` content type, inner unmarshal gave
    `content`, a MAC algorithm is present) -/
def WellFormed (pfx : Pfx) (content : Bytes) : Prop :=
  pfx.version = 3 ∧ pfx.authSafeIsData = true ∧ pfx.content = some content ∧ pfx.macAlgLen ≠ 0

/-- what `getSafeContents` returns once the MAC has been accepted with `pw` -/
def behindMac {β : Type} (rest : Bytes → Bytes → Except Err β) (content pw : Bytes) : Except Err (β × Bytes) :=
  match rest content pw with
  | .ok bags => .ok (bags, pw)
  | .error e => .error e

/-- pkcs12.go:359-370 for a PFX that passed the structural checks: the decision tree around `verifyMac` -/
theorem getSafeContents_wf {β : Type} (H : Bytes → Bytes) (hmac : Bytes → Bytes → Bytes)
    (rest : Bytes → Bytes → Except Err β) (pfx : Pfx) (content password : Bytes) (wf : WellFormed pfx content) :
    getSafeContents H hmac rest (some pfx) password =
      match verifyMac H hmac pfx.macData content password with
      | .ok () => behindMac rest content password
      | .error err =>
        if err = .incorrectPassword ∧ password = [0, 0] then
          match verifyMac H hmac pfx.macData content [] with
          | .ok () => behindMac rest content []
          | .error err => .error err
        else .error err := by
  obtain ⟨h1, h2, h3, h4⟩ := wf
  unfold getSafeContents
  simp only [h1, h2, h3, h4, ne_eq, not_true_eq_false, if_false, Bool.not_true, Bool.false_eq_true]
  rfl

theorem behindMac_ok_iff {β : Type} (rest : Bytes → Bytes → Except Err β) (content pw : Bytes) (bags : β) (pw2 : Bytes) :
    behindMac rest content pw = .ok (bags, pw2) ↔ rest content pw = .ok bags ∧ pw2 = pw := by
  unfold behindMac
  cases rest content pw with
  | ok b => simp; exact fun _ => eq_comm
  | error e => simp

/-- only a well-formed PFX gets anywhere -/
theorem getSafeContents_ok_wf {β : Type} (H : Bytes → Bytes) (hmac : Bytes → Bytes → Bytes)
    (rest : Bytes → Bytes → Except Err β) (p : Option Pfx) (password : Bytes) (r : β × Bytes)
    (h : getSafeContents H hmac rest p password = .ok r) : ∃ pfx content, p = some pfx ∧ WellFormed pfx content := by
  unfold getSafeContents at h
  cases p with
  | none => simp at h
  | some pfx =>
    simp only at h
    by_cases h1 : pfx.version = 3
    · by_cases h2 : pfx.authSafeIsData = true
      · cases h3 : pfx.content with
        | none => simp [h1, h2, h3] at h
        | some content =>
          by_cases h4 : pfx.macAlgLen = 0
          · simp [h1, h2, h3, h4] at h
          · exact ⟨pfx, content, rfl, h1, h2, h3, h4⟩
      · simp [h1, h2] at h
    · simp [h1] at h

/-- pkcs12.go:336-412: `getSafeContents` returns bags exactly when (a) the MAC verifies under the given encoded
    password, which is handed back unchanged, and the code behind the MAC succeeds with it, or (b) the given
    password is `00 00` (BMP of the empty string), the MAC fails under it with `ErrIncorrectPassword`, verifies
    under the nil password, nil is handed back, and the code behind the MAC succeeds with nil. -/
theorem getSafeContents_ok_iff {β : Type} (H : Bytes → Bytes) (hmac : Bytes → Bytes → Bytes)
    (rest : Bytes → Bytes → Except Err β) (pfx : Pfx) (content password : Bytes) (wf : WellFormed pfx content)
    (bags : β) (pw2 : Bytes) :
    getSafeContents H hmac rest (some pfx) password = .ok (bags, pw2) ↔
      (verifyMac H hmac pfx.macData content password = .ok () ∧ pw2 = password ∧ rest content password = .ok bags) ∨
      (password = [0, 0] ∧ verifyMac H hmac pfx.macData content password = .error .incorrectPassword ∧
        verifyMac H hmac pfx.macData content [] = .ok () ∧ pw2 = [] ∧ rest content [] = .ok bags) := by
  rw [getSafeContents_wf H hmac rest pfx content password wf]
  cases hv : verifyMac H hmac pfx.macData content password with
  | ok u =>
    cases u
    simp only [behindMac_ok_iff]
    constructor
    · rintro ⟨a, b⟩; exact .inl ⟨trivial, b, a⟩
    · rintro (⟨_, b, a⟩ | ⟨_, c, _⟩)
      · exact ⟨a, b⟩
      · cases c
  | error err =>
    simp only
    by_cases hc : err = .incorrectPassword ∧ password = [0, 0]
    · rw [if_pos hc]
      obtain ⟨he, hp⟩ := hc
      subst he
      cases hv2 : verifyMac H hmac pfx.macData content [] with
      | ok u =>
        cases u
        simp only [behindMac_ok_iff]
        constructor
        · rintro ⟨a, b⟩; exact .inr ⟨hp, trivial, trivial, b, a⟩
        · rintro (⟨c, _⟩ | ⟨_, _, _, b, a⟩)
          · cases c
          · exact ⟨a, b⟩
      | error e2 =>
        simp only
        constructor
        · intro c; cases c
        · rintro (⟨c, _⟩ | ⟨_, _, c, _⟩) <;> cases c
    · rw [if_neg hc]
      constructor
      · intro c; cases c
      · rintro (⟨c, _⟩ | ⟨hp, c, _⟩)
        · cases c
        · cases c; exact absurd ⟨rfl, hp⟩ hc

/-- when no tried password verifies, the error does not depend on the code behind the MAC (it is not run) -/
theorem mac_failure_never_reaches_rest {β : Type} (H : Bytes → Bytes) (hmac : Bytes → Bytes → Bytes)
    (p : Option Pfx) (password : Bytes)
    (hfail : ∀ pfx content, p = some pfx → WellFormed pfx content →
      verifyMac H hmac pfx.macData content password ≠ .ok () ∧
      (password = [0, 0] → verifyMac H hmac pfx.macData content [] ≠ .ok ())) :
    ∃ e, ∀ rest : Bytes → Bytes → Except Err β, getSafeContents H hmac rest p password = .error e := by
  cases p with
  | none => exact ⟨.parse, fun _ => rfl⟩
  | some pfx =>
    by_cases h1 : pfx.version = 3
    · by_cases h2 : pfx.authSafeIsData = true
      · cases h3 : pfx.content with
        | none => exact ⟨.parse, fun _ => by unfold getSafeContents; simp [h1, h2, h3]⟩
        | some content =>
          by_cases h4 : pfx.macAlgLen = 0
          · exact ⟨.noMac, fun _ => by unfold getSafeContents; simp [h1, h2, h3, h4]⟩
          · have wf : WellFormed pfx content := ⟨h1, h2, h3, h4⟩
            obtain ⟨f1, f2⟩ := hfail pfx content rfl wf
            cases hv : verifyMac H hmac pfx.macData content password with
            | ok u => cases u; exact absurd hv f1
            | error err =>
              by_cases hc : err = .incorrectPassword ∧ password = [0, 0]
              · cases hv2 : verifyMac H hmac pfx.macData content [] with
                | ok u => cases u; exact absurd hv2 (f2 hc.2)
                | error e2 =>
                  refine ⟨e2, fun rest => ?_⟩
                  rw [getSafeContents_wf H hmac rest pfx content password wf, hv]
                  simp only [hc, and_self, if_true, hv2]
              · refine ⟨err, fun rest => ?_⟩
                rw [getSafeContents_wf H hmac rest pfx content password wf, hv]
                simp only [hc, if_false]
      · exact ⟨.notImplemented, fun _ => by unfold getSafeContents; simp [h1, h2]⟩
    · exact ⟨.notImplemented, fun _ => by unfold getSafeContents; simp [h1]⟩

/-- **pkcs12.go:359-370: a failed MAC returns `ErrIncorrectPassword` and nothing else.**  If `verifyMac` says
    `ErrIncorrectPassword` for the given password and — when that password is `00 00` — also for the nil
    password, the result is the error `ErrIncorrectPassword` (Go: `nil, nil, err`), whatever the code behind the
    MAC (`rest`: unmarshal, pbDecrypt, bag collection) would have produced: it is not run.  (A seeded change
    that fell through after the retry with the empty password violates exactly this statement.) -/
theorem mac_failure_returns_nothing {β : Type} (H : Bytes → Bytes) (hmac : Bytes → Bytes → Bytes)
    (rest : Bytes → Bytes → Except Err β) (pfx : Pfx) (content password : Bytes) (wf : WellFormed pfx content)
    (h1 : verifyMac H hmac pfx.macData content password = .error .incorrectPassword)
    (h2 : password = [0, 0] → verifyMac H hmac pfx.macData content [] = .error .incorrectPassword) :
    getSafeContents H hmac rest (some pfx) password = .error .incorrectPassword := by
  rw [getSafeContents_wf H hmac rest pfx content password wf, h1]
  by_cases hp : password = [0, 0]
  · simp only [hp, and_self, if_true]
    rw [h2 hp]
  · simp only [hp, and_false, if_false]


/-! ## the password as the exported decoders see it -/

/-- `bmpString("")` is the terminator alone -/
theorem bmp_empty : Model.BER.bmpString [] = some [0, 0] := by decide

/-- the BMP encoding of a non-empty string is at least four bytes: it is neither `00 00` nor nil -/
theorem bmp_nonempty_ne (runes : List Nat) (enc : Bytes) (hr : runes ≠ []) (h : Model.BER.bmpString runes = some enc) :
    enc ≠ [0, 0] ∧ enc ≠ [] := by
  unfold Model.BER.bmpString at h
  split at h
  · cases h
    cases runes with
    | nil => exact absurd rfl hr
    | cons r rs => simp [List.flatMap_cons]
  · cases h

/-- **the empty-password rule, for the exported decoders** (`Decode` / `DecodeAll`: `bmpString(password)` then
    `getSafeContents`).  A bundle is opened with the password string `runes` iff the string is BMP-encodable
    and either the MAC verifies under BMP(runes) — then BMP(runes) is also the decryption password — or the string
    is empty, the MAC fails under `00 00` and verifies under the nil password — then nil is the decryption
    password.  For a non-empty password only its own BMP encoding counts (`nonempty_password_only_bmp`): the
    nil password is never tried. -/
theorem empty_password_rule {β : Type} (H : Bytes → Bytes) (hmac : Bytes → Bytes → Bytes)
    (rest : Bytes → Bytes → Except Err β) (pfx : Pfx) (content : Bytes) (wf : WellFormed pfx content)
    (runes : List Nat) (bags : β) (pw2 : Bytes) :
    decodeGate H hmac rest (some pfx) runes = .ok (bags, pw2) ↔
      ∃ enc, Model.BER.bmpString runes = some enc ∧
        ((verifyMac H hmac pfx.macData content enc = .ok () ∧ pw2 = enc ∧ rest content enc = .ok bags) ∨
         (runes = [] ∧ verifyMac H hmac pfx.macData content [0, 0] = .error .incorrectPassword ∧
           verifyMac H hmac pfx.macData content [] = .ok () ∧ pw2 = [] ∧ rest content [] = .ok bags)) := by
  unfold decodeGate
  cases hb : Model.BER.bmpString runes with
  | none => simp
  | some enc =>
    simp only [Option.some.injEq, exists_eq_left']
    rw [getSafeContents_ok_iff H hmac rest pfx content enc wf]
    constructor
    · rintro (h | ⟨he, h1, h2, h3, h4⟩)
      · exact .inl h
      · subst he
        have hr : runes = [] := by
          cases runes with
          | nil => rfl
          | cons r rs => exact absurd rfl (bmp_nonempty_ne (r :: rs) _ (by simp) hb).1
        exact .inr ⟨hr, h1, h2, h3, h4⟩
    · rintro (h | ⟨hr, h1, h2, h3, h4⟩)
      · exact .inl h
      · subst hr
        rw [bmp_empty] at hb
        cases hb
        exact .inr ⟨rfl, h1, h2, h3, h4⟩

/-- a non-empty password is accepted only when the MAC verifies under its own BMP encoding -/
theorem nonempty_password_only_bmp {β : Type} (H : Bytes → Bytes) (hmac : Bytes → Bytes → Bytes)
    (rest : Bytes → Bytes → Except Err β) (pfx : Pfx) (content : Bytes) (wf : WellFormed pfx content)
    (runes : List Nat) (hr : runes ≠ []) (bags : β) (pw2 : Bytes)
    (h : decodeGate H hmac rest (some pfx) runes = .ok (bags, pw2)) :
    ∃ enc, Model.BER.bmpString runes = some enc ∧ verifyMac H hmac pfx.macData content enc = .ok () ∧ pw2 = enc := by
  obtain ⟨enc, he, h | ⟨h0, _⟩⟩ := (empty_password_rule H hmac rest pfx content wf runes bags pw2).mp h
  · exact ⟨enc, he, h.1, h.2.1⟩
  · exact absurd h0 hr


/-! ## Non-vacuity: the statements evaluated on toy functions (kernel `decide`) -/
section Examples

/-- a toy hash with 20-byte output: the input incremented bytewise and reversed, filled up with ff -/
def toyH : Bytes → Bytes := fun x => ((x.map (· + 1)).reverse ++ List.replicate 20 0xff).take 20
theorem toyH_length (x : Bytes) : (toyH x).length = 20 := by simp [toyH]

/-- toy hashes with 16 and 24 bytes of output -/
def toyH16 : Bytes → Bytes := fun x => (x ++ List.replicate 16 1).take 16
def toyH24 : Bytes → Bytes := fun x => (x ++ List.replicate 24 1).take 24

instance {α : Type} [DecidableEq α] : DecidableEq (Except Err α) := fun a b =>
  match a, b with
  | .ok x, .ok y => if h : x = y then isTrue (by rw [h]) else isFalse (by intro e; cases e; exact h rfl)
  | .error x, .error y => if h : x = y then isTrue (by rw [h]) else isFalse (by intro e; cases e; exact h rfl)
  | .ok _, .error _ => isFalse (by intro e; cases e)
  | .error _, .ok _ => isFalse (by intro e; cases e)

/-- an injective "HMAC": key ‖ message -/
def toyHmac (key msg : Bytes) : Bytes := key ++ msg

/-- the hypothesis of `mac_rejects_modified` is satisfiable: this HMAC never collides on distinct messages -/
theorem toyHmac_no_collision (key m1 m2 : Bytes) (h : m1 ≠ m2) : toyHmac key m1 ≠ toyHmac key m2 := by
  unfold toyHmac; intro e; exact h (List.append_cancel_left e)

example (m : MacData) (msg1 msg2 pw : Bytes) (hok : verifyMac toyH toyHmac m msg1 pw = .ok ()) (hne : msg1 ≠ msg2) :
    verifyMac toyH toyHmac m msg2 pw = .error .incorrectPassword :=
  mac_rejects_modified toyH toyHmac m msg1 msg2 pw hok (fun key _ => toyHmac_no_collision key msg1 msg2 hne)

-- the three shapes of `Ij.Bytes()` (pbkdf.go:136-153), v = 2 and 3:
-- fffe + 0102 + 1 = 1 0101: three bytes, the leading one is dropped
example : natBytes (os2ip [0xff, 0xfe] + 0x0102 + 1) = [1, 1, 1] ∧ updateBlock 2 0x0102 [0xff, 0xfe] = [1, 1] := by decide
-- 0000 + 0 + 1 = 1: one byte, one zero byte is put in front
example : natBytes (os2ip [0, 0] + 0 + 1) = [1] ∧ updateBlock 2 0 [0, 0] = [0, 1] := by decide
-- 000009 + 5 + 1 = f: one byte for v = 3, two zero bytes in front
example : updateBlock 3 5 [0, 0, 9] = [0, 0, 0x0f] := by decide
-- exactly v bytes: untouched
example : updateBlock 2 0x0100 [0x10, 0x20] = [0x11, 0x21] := by decide

-- fillWithRepeats: 3 bytes to blocks of 2 and 4; 5 bytes to blocks of 3; nothing stays nothing
example : fillWithRepeats [1, 2, 3] 2 = [1, 2, 3, 1] ∧ fillWithRepeats [1, 2, 3] 4 = [1, 2, 3, 1] ∧
    fillWithRepeats [1, 2, 3, 4, 5] 3 = [1, 2, 3, 4, 5, 1] ∧ fillWithRepeats [] 7 = [] := by decide

-- pbkdf, three rounds (size 45 > 2·20) over 2-byte blocks with carries: some key, equal to the RFC function
example : pbkdf toyH 20 2 [0xff, 0xfe] [0, 0] 1 3 45 = some (kdf toyH 20 2 [0xff, 0xfe] [0, 0] 1 3 45) := by decide
example : (pbkdf toyH 20 2 [0xff, 0xfe] [0, 0] 1 3 45).map (·.take 6) = some [1, 1, 0xff, 0, 4, 4] := by decide
-- size 0: the empty key, no hash computed
example : pbkdf toyH 20 2 [1] [0, 0] 5 3 0 = some [] ∧ kdf toyH 20 2 [1] [0, 0] 5 3 0 = [] := by decide

/-- r = 0: the code hashes once (as for r = 1) while the RFC's H^0 would be the identity -/
theorem spec_r0_differs :
    pbkdf toyH 20 2 [0, 3] [0, 0] 0 0 20 = pbkdf toyH 20 2 [0, 3] [0, 0] 1 0 20 ∧
    pbkdf toyH 20 2 [0, 3] [0, 0] 0 0 20 ≠ some (kdf toyH 20 2 [0, 3] [0, 0] 0 0 20) := by decide

/-- **the literal 20.**  `A := make([]byte, c*20)` and `copy(A[i*20:], Ai[:])` use 20 where the RFC has u.  With a
    16-byte hash (MD5's u) and 17 bytes requested, byte 16 of the result is the zero the buffer was made with,
    not the first byte of A_2: the function is not RFC 7292 B.2 for u ≠ 20.  No caller in the library passes
    u ≠ 20 (mac.go, crypto.go: always `sha1Sum, 20, 64`). -/
theorem pbkdf_literal20_gap :
    pbkdf toyH16 16 2 [] [] 1 9 17 = some ([9, 9] ++ List.replicate 14 1 ++ [0]) ∧
    kdf toyH16 16 2 [] [] 1 9 17 = [9, 9] ++ List.replicate 14 1 ++ [9] := by decide

/-- … and with a hash longer than 20 bytes `A[:size]` is out of range (run-time panic) as soon as size > 20·⌈size/u⌉ -/
theorem pbkdf_literal20_panic :
    pbkdf toyH24 24 2 [] [] 1 9 24 = none ∧ pbkdf toyH24 24 2 [] [] 1 9 21 = none ∧
    (pbkdf toyH24 24 2 [] [] 1 9 20).isSome = true := by decide

-- the MAC: computeMac's digest is accepted; another message, another password, a flipped digest are not
def toyMac : MacData := ⟨true, [], [5], 2⟩
example : (computeMac toyH toyHmac toyMac [1, 2, 3] [0, 0x61, 0, 0]).toOption.map
    (fun m => (verifyMac toyH toyHmac m [1, 2, 3] [0, 0x61, 0, 0], verifyMac toyH toyHmac m [1, 2, 4] [0, 0x61, 0, 0],
      verifyMac toyH toyHmac m [1, 2, 3] [0, 0x62, 0, 0])) =
    some (.ok (), .error .incorrectPassword, .error .incorrectPassword) := by decide
example : verifyMac toyH toyHmac { toyMac with algIsSHA1 := false } [] [] = .error .notImplemented := by decide

-- getSafeContents: MAC made under the nil password; the empty password opens it (and nil is handed back), "a" does not;
-- with a MAC that verifies under nothing the code behind the MAC (here: it would return 7) is not reached
def toyPfx (sealPw : Bytes) : Option Pfx :=
  (computeMac toyH toyHmac toyMac [0x30, 0] sealPw).toOption.map fun m => ⟨3, true, some [0x30, 0], 6, m⟩
example : decodeGate toyH toyHmac (fun _ _ => .ok 7) (toyPfx []) [] = .ok (7, []) := by decide
example : decodeGate toyH toyHmac (fun _ _ => .ok 7) (toyPfx [0, 0]) [] = .ok (7, [0, 0]) := by decide
example : decodeGate toyH toyHmac (fun _ _ => .ok 7) (toyPfx []) [0x61] = .error .incorrectPassword := by decide
example : decodeGate toyH toyHmac (fun _ _ => .ok 7) (toyPfx [0, 0x61, 0, 0]) [0x61] = .ok (7, [0, 0x61, 0, 0]) := by decide
example : decodeGate toyH toyHmac (fun _ _ => .ok 7) (toyPfx [9]) [] = .error .incorrectPassword := by decide
example : decodeGate toyH toyHmac (fun _ _ => .ok 7) (toyPfx [0, 0]) [0x1F600] = .error .parse := by decide

end Examples

end Props.C17KDF
