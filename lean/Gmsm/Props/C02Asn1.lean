/-
C02 (sm2.go `CipherUnmarshal`, as repaired): what the ASN.1 form of a ciphertext decodes to.

Before the repair the two INTEGERs of the SEQUENCE were taken by magnitude and any length, and the digest field
with any length: `SEQUENCE { -x, y, C3, C2 }` decrypted like `SEQUENCE { x, y, C3, C2 }` although (-x, y) is no point
of the curve, and a 33-byte "coordinate" (or a 31-byte "digest") was re-split into some other C1 ‖ C3 ‖ C2 - i.e.
ciphertexts whose encoded C1 is not a point on the curve, or whose encoded C3 differs, were accepted (the model had
faithfully copied this with `Int.natAbs`; found when writing forged re-encodings for the generator, round 8).
Now: an accepted ASN.1 ciphertext has coordinates in [0, 2^256) and a 32-byte digest, and the raw ciphertext
handed to `Decrypt` is exactly 04 ‖ x ‖ y ‖ C3 ‖ C2 with those values - `Decrypt`'s own checks (C1 on the curve, C3)
are then checks about the encoded values.
-/
import Gmsm.Props.C14Codec

namespace Props.C02Asn1
open Gmsm Model.SM2Codec Props.C14Codec

/-- the structure of an ASN.1 ciphertext as far as `CipherUnmarshal` looks at it -/
def fields (data : Bytes) : Option (Int × Int × Bytes × Bytes) :=
  match parseField 0x30 data with
  | none => none
  | some (body, _) =>
    match parseField 0x02 body with
    | none => none
    | some (xc, r1) =>
      match parseBigInt xc with
      | none => none
      | some x =>
        match parseField 0x02 r1 with
        | none => none
        | some (yc, r2) =>
          match parseBigInt yc with
          | none => none
          | some y =>
            match parseField 0x04 r2 with
            | none => none
            | some (hash, r3) =>
              match parseField 0x04 r3 with
              | none => none
              | some (cipherText, _) => some (x, y, hash, cipherText)

/-- **Accepted ASN.1 ciphertexts are canonical in C1 and C3**: whenever `CipherUnmarshal` succeeds, the encoded
    coordinates are integers in [0, 2^256), the digest field is 32 bytes long, and the result is
    04 ‖ x ‖ y ‖ C3 ‖ C2 with x, y as 32-byte big-endian strings. -/
theorem cipherUnmarshal_sound (data raw : Bytes) (h : cipherUnmarshal data = some raw) :
    ∃ x y : Nat, ∃ H C : Bytes, fields data = some ((x : Int), (y : Int), H, C) ∧
      x < 2 ^ 256 ∧ y < 2 ^ 256 ∧ H.length = 32 ∧
      (leftPad32 (natBytes x)).length = 32 ∧ (leftPad32 (natBytes y)).length = 32 ∧
      os2ip (leftPad32 (natBytes x)) = x ∧ os2ip (leftPad32 (natBytes y)) = y ∧
      raw = 0x04 :: (leftPad32 (natBytes x) ++ leftPad32 (natBytes y) ++ H ++ C) := by
  unfold cipherUnmarshal at h
  unfold fields
  cases h0 : parseField 0x30 data with
  | none => rw [h0] at h; simp at h
  | some r0 =>
    obtain ⟨body, j0⟩ := r0
    rw [h0] at h; dsimp only at h ⊢
    cases h1 : parseField 0x02 body with
    | none => rw [h1] at h; simp at h
    | some r1 =>
      obtain ⟨xc, r1⟩ := r1
      rw [h1] at h; dsimp only at h ⊢
      cases hx : parseBigInt xc with
      | none => rw [hx] at h; simp at h
      | some x =>
        rw [hx] at h; dsimp only at h ⊢
        cases h2 : parseField 0x02 r1 with
        | none => rw [h2] at h; simp at h
        | some r2 =>
          obtain ⟨yc, r2⟩ := r2
          rw [h2] at h; dsimp only at h ⊢
          cases hy : parseBigInt yc with
          | none => rw [hy] at h; simp at h
          | some y =>
            rw [hy] at h; dsimp only at h ⊢
            cases h3 : parseField 0x04 r2 with
            | none => rw [h3] at h; simp at h
            | some r3 =>
              obtain ⟨hash, r3⟩ := r3
              rw [h3] at h; dsimp only at h ⊢
              cases h4 : parseField 0x04 r3 with
              | none => rw [h4] at h; simp at h
              | some r4 =>
                obtain ⟨ct, j4⟩ := r4
                rw [h4] at h; dsimp only at h ⊢
                split at h
                · simp at h
                · rename_i hc
                  injection h with h
                  have hx0 : 0 ≤ x := by omega
                  have hy0 : 0 ≤ y := by omega
                  have hxl : (natBytes x.natAbs).length ≤ 32 := by omega
                  have hyl : (natBytes y.natAbs).length ≤ 32 := by omega
                  have hH : hash.length = 32 := by omega
                  have bx : x.natAbs < 2 ^ 256 := by
                    have := os2ip_lt (natBytes x.natAbs)
                    rw [os2ip_natBytes] at this
                    exact Nat.lt_of_lt_of_le this (by
                      calc 256 ^ (natBytes x.natAbs).length ≤ 256 ^ 32 := Nat.pow_le_pow_right (by omega) hxl
                        _ = 2 ^ 256 := by decide)
                  have by_ : y.natAbs < 2 ^ 256 := by
                    have := os2ip_lt (natBytes y.natAbs)
                    rw [os2ip_natBytes] at this
                    exact Nat.lt_of_lt_of_le this (by
                      calc 256 ^ (natBytes y.natAbs).length ≤ 256 ^ 32 := Nat.pow_le_pow_right (by omega) hyl
                        _ = 2 ^ 256 := by decide)
                  refine ⟨x.natAbs, y.natAbs, hash, ct, ?_, bx, by_, hH, leftPad32_length _ hxl, leftPad32_length _ hyl, ?_, ?_, h.symm⟩
                  · have ex : ((x.natAbs : Nat) : Int) = x := Int.natAbs_of_nonneg hx0
                    have ey : ((y.natAbs : Nat) : Int) = y := Int.natAbs_of_nonneg hy0
                    rw [ex, ey]
                  · rw [os2ip_leftPad32, os2ip_natBytes]
                  · rw [os2ip_leftPad32, os2ip_natBytes]

/-- the encodings that used to be accepted: a negated coordinate -/
example : cipherUnmarshal (Spec.DER.encCipher 5 7 (List.replicate 32 0xaa) [1, 2, 3]) ≠ none ∧
    fields (Spec.DER.encCipher 5 7 (List.replicate 32 0xaa) [1, 2, 3]) = some (5, 7, List.replicate 32 0xaa, [1, 2, 3]) := by
  constructor
  · decide
  · rfl

end Props.C02Asn1
