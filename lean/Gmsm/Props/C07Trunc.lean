/-
C07 — a protected stream that is cut INSIDE a record is never reported as a clean end.

`Conn.readRecord` (gmtls/conn.go) reads a record in two steps: the 5-byte header, then the body.  The end of the
transport is accepted as a plain `io.EOF` if and only if it happens at a record boundary (nothing of the next
record has arrived); as soon as 1..4 bytes of a header, or a header and a part of the body, are there, the error is
`io.ErrUnexpectedEOF`, it is stored in `c.in.err` like every other read error, and `Conn.Read` hands out nothing
beyond the last complete record.  (Before the repair "EOF with a partial header buffered" was passed through as
`io.EOF`; `Model.Record.readAll` and `Model.ConnRead.truncErr` had copied that.)

Record layer (`Model.Record`, both suites; `Props.C07Stream` for the vocabulary):
  * `parse_eof_iff`            the header step yields the clean end exactly on the empty rest of the wire;
  * `parse_truncated`          every proper non-empty prefix of a well-formed record — cut in the header or in the
                               body — is `io.ErrUnexpectedEOF`;
  * `truncated_inside_record`  honest records followed by the first `n` bytes (`0 < n < length`) of the next honest
                               record: exactly the payloads of the complete records are delivered, then `ueof`;
  * `write_truncated_rejected`, `truncation_detected`   the same for what `Conn.Write` puts on the wire, for every
                               BYTE position of the cut: the status is `eof` only if the cut is a record boundary;
  * `transport_end_clean_iff`  ARBITRARY wire bytes: whenever reading ends because the transport ended with `r` bytes
                               not consumed, the end is clean iff `r = []`, and `ueof` otherwise.
Buffering (`Model.ConnRead`; `Props.C06Read`):
  * `read_truncated_is_error`  no `Conn.Read` ever returns `io.EOF` when the transport ends inside a record; the
                               stored error is `io.ErrUnexpectedEOF`, everything before it is delivered;
  * `readHandshake_trunc`, `recvCCS_trunc`   the same for the handshake reader.
Core Lean only.
-/
import Gmsm.Props.C07Stream
import Gmsm.Props.C06Read

namespace Props.C07Trunc

/-! ## 1. The record layer -/
section RecordLayer
open Gmsm Model.Record Props.C07Stream

/-- `readRecord`'s header step reports the clean end of the stream (`io.EOF`) if and only if NOTHING of a next
    record is there.  (`parse` is `Props.C07Stream.parse`, which `readAll_parse` proves to be the model's header
    handling.) -/
theorem parse_eof_iff (wire : Bytes) : parse wire = .stop .eof ↔ wire = [] := by
  constructor
  · intro h
    unfold parse at h
    split at h
    · rename_i he
      cases wire with
      | nil => rfl
      | cons _ _ => simp at he
    split at h
    · cases h
    split at h
    · cases h
    split at h
    · cases h
    split at h
    · cases h
    · cases h
  · rintro rfl; rfl

/-- 1..4 bytes on the wire — a piece of a record header and then the end of the transport — are
    `io.ErrUnexpectedEOF` (this is the line of `readRecord` that was repaired) -/
theorem parse_short (wire : Bytes) (h0 : wire ≠ []) (h5 : wire.length < 5) : parse wire = .stop .ueof := by
  unfold parse
  have e : wire.isEmpty = false := by cases wire <;> simp_all
  rw [e]
  simp [h5]

/-- EVERY proper non-empty prefix of a well-formed record `header ‖ body` (body of admissible size) — the cut
    may lie inside the 5-byte header (`n < 5`) or anywhere inside the body — ends the header/body step of
    `readRecord` with `io.ErrUnexpectedEOF`.  No cryptography is involved: the framing alone decides. -/
theorem parse_truncated (typ : Byte) (body : Bytes) (hb : body.length ≤ 16384 + 2048) (n : Nat)
    (h0 : 0 < n) (hn : n < 5 + body.length) :
    parse ((header typ body.length ++ body).take n) = .stop .ueof := by
  by_cases h5 : n < 5
  · apply parse_short
    · intro hnil
      have := congrArg List.length hnil
      rw [List.length_take, List.length_append, header_length] at this
      simp at this; omega
    · rw [List.length_take, List.length_append, header_length]; omega
  · have e : (header typ body.length ++ body).take n = header typ body.length ++ body.take (n - 5) := by
      rw [List.take_append, header_length, List.take_of_length_le (by rw [header_length]; omega)]
    obtain ⟨-, p1, p2, p3, -⟩ := header_parse typ body.length (by omega) (body.take (n - 5))
    rw [e]
    unfold parse hdrVers hdrLen
    rw [p1, p2, p3]
    have e1 : (header typ body.length ++ body.take (n - 5)).isEmpty = false := by
      cases hh : (header typ body.length ++ body.take (n - 5)) with
      | nil => rw [hh] at p3; simp at p3; omega
      | cons _ _ => rfl
    have hl : (body.take (n - 5)).length = n - 5 := by rw [List.length_take]; omega
    rw [e1, hl]
    have c2 : ¬ (5 + (n - 5) < 5) := by omega
    have c4 : ¬ (body.length > 16384 + 2048) := by omega
    have c5 : 5 + (n - 5) < 5 + body.length := by omega
    simp only [Bool.false_eq_true, if_false, c2, c4, c5, ne_eq, not_true_eq_false, if_true]

theorem randOK_after (s : Suite) (k j : Nat) (rand : Bytes) (h : RandOK s (k + j) rand) :
    RandOK s j (randAfter s k rand) := by
  cases s
  · simp only [RandOK, randAfter, List.length_drop] at h ⊢; omega
  · trivial

/-- every record `Conn.Write` produces is at least a header long, so cuts after 1..4 bytes are always strictly
    inside it -/
theorem encrypt_length_ge (h : Half) (typ : Byte) (e p : Bytes) : 5 ≤ (h.encrypt typ e p).1.length := by
  rw [encrypt_shape, List.length_append, header_length]; omega

/-- the reader on the first `n` bytes, `0 < n < length`, of an honest record (whatever its sequence number,
    whatever the reader's state): nothing is delivered, nothing is accepted, `io.ErrUnexpectedEOF` -/
theorem readAllH_cut (h hw : Half) (rand : Bytes) (f : Bytes) (warn fuel n : Nat)
    (he : ExplicitOK hw.suite (explicitOf hw rand)) (hf : f.length ≤ 16384)
    (h0 : 0 < n) (hn : n < (hw.encrypt 23 (explicitOf hw rand) f).1.length) :
    readAllH (fuel + 1) h warn ((hw.encrypt 23 (explicitOf hw rand) f).1.take n) = ⟨[], .ueof, h, 0, false⟩ := by
  have hble := encBody_le hw 23 (explicitOf hw rand) f he hf
  rw [encrypt_shape] at hn ⊢
  rw [List.length_append, header_length] at hn
  rw [readAllH, parse_truncated 23 _ (by omega) n h0 hn]

/-- **Truncation inside a record (C07 "every truncation … of the protected stream is rejected")**, both suites.
    The sender's records are `encFrags h rand gs` (what `Conn.Write` emits for the fragments `gs`, see
    `write_fragments`).  The wire carries the first `k` of them completely and then only the first `n` bytes of
    record `k`, `0 < n < len(record k)` — the cut may be after 1, 2, 3 or 4 bytes of its header or anywhere in its
    body — and then the transport ends.  A synchronised receiver delivers EXACTLY the payloads of the `k` complete
    records and ends with `ueof` (`io.ErrUnexpectedEOF`): never the clean `eof`, and nothing of record `k`. -/
theorem truncated_inside_record (gs : List Bytes) (h : Half) (rand : Bytes) (warn fuel k n : Nat) (r : Bytes)
    (hlen : ∀ g ∈ gs, g.length ≤ 16384) (hr : RandOK h.suite gs.length rand)
    (hk : (encFrags h rand gs)[k]? = some r) (h0 : 0 < n) (hn : n < r.length) (hfuel : k + 1 ≤ fuel) :
    readAll fuel h warn (((encFrags h rand gs).take k).flatten ++ r.take n) = ((gs.take k).flatten, .ueof) := by
  have hkl : k < gs.length := by
    rcases Nat.lt_or_ge k gs.length with hlt | hge
    · exact hlt
    · rw [List.getElem?_eq_none (by rw [encFrags_length]; exact hge)] at hk; cases hk
  rw [encFrags_get, List.getElem?_eq_getElem hkl] at hk
  simp only [Option.map_some, Option.some.injEq] at hk
  subst hk
  have htl : (gs.take k).length = k := by rw [List.length_take]; omega
  obtain ⟨g, rfl⟩ : ∃ g, fuel = (gs.take k).length + (g + 1) := ⟨fuel - k - 1, by omega⟩
  have hr1 : RandOK h.suite 1 (randAfter h.suite k rand) :=
    randOK_after _ k 1 rand (RandOK_mono _ _ _ _ (by omega) hr)
  have he := (explicitOf_ok { h with seq := h.seq + k } (randAfter h.suite k rand) 0 hr1).1
  rw [encFrags_take, readAll_eq_readAllH,
    readAllH_encFrags (gs.take k) h rand warn (g + 1) _ (fun x hx => hlen x (List.mem_of_mem_take hx))
      (RandOK_mono _ _ _ _ (by omega) hr)]
  simp only [htl]
  rw [readAllH_cut _ { h with seq := h.seq + k } (randAfter h.suite k rand) gs[k] _ g n he
    (hlen _ (List.getElem_mem hkl)) h0 hn]
  simp

/-- the same for what `Conn.Write` really puts on the wire (any writer state, any sequence of writes `bs`): `k`
    complete records and then `0 < n < len` bytes of record `k` give `io.ErrUnexpectedEOF`, and what was
    delivered before is a prefix of what was written -/
theorem write_truncated_rejected (w : Writer) (bs : List Bytes) (k n : Nat) (r : Bytes)
    (hrand : RandOK w.half.suite (writeMany w bs).1.length w.rand)
    (hk : (writeMany w bs).1[k]? = some r) (h0 : 0 < n) (hn : n < r.length)
    (fuel : Nat) (hfuel : k + 1 ≤ fuel) (warn : Nat) :
    (readAll fuel w.half warn (((writeMany w bs).1.take k).flatten ++ r.take n)).2 = .ueof ∧
    (readAll fuel w.half warn (((writeMany w bs).1.take k).flatten ++ r.take n)).1 <+: bs.flatten := by
  obtain ⟨fs, h1, h2, h3, -⟩ := writeMany_spec w bs
  rw [h3] at hk ⊢
  rw [h3, encFrags_length] at hrand
  rw [truncated_inside_record fs w.half w.rand warn fuel k n r (fun f hf => (h2 f hf).2) hrand hk h0 hn hfuel]
  refine ⟨rfl, ?_⟩
  rw [← h1]
  conv => rhs; rw [← List.take_append_drop k fs, List.flatten_append]
  exact List.prefix_append _ _

/-- a cut of a concatenation at byte position `m`: `k` complete pieces and `n < len` bytes of piece `k` -/
theorem take_flatten_decomp {α : Type} (L : List (List α)) (m : Nat) (hm : m < L.flatten.length) :
    ∃ k n r, L[k]? = some r ∧ n < r.length ∧ L.flatten.take m = (L.take k).flatten ++ r.take n := by
  induction L generalizing m with
  | nil => simp at hm
  | cons a L ih =>
    by_cases ha : m < a.length
    · refine ⟨0, m, a, rfl, ha, ?_⟩
      rw [List.flatten_cons, List.take_append_of_le_length (by omega)]
      simp
    · rw [List.flatten_cons, List.length_append] at hm
      obtain ⟨k, n, r, e1, e2, e3⟩ := ih (m - a.length) (by omega)
      refine ⟨k + 1, n, r, by simpa using e1, e2, ?_⟩
      rw [List.flatten_cons, List.take_append, List.take_of_length_le (by omega), e3]
      simp [List.append_assoc]

/-- **Every byte position** (C07 "for every truncation … length"): cut the wire image `W` of ANY sequence of
    writes after `m < len(W)` bytes and close the transport.  What the receiver delivers is a prefix of what was
    written, reading ends with `eof` or `ueof`, and it is the clean `eof` ONLY IF the cut is a record boundary
    (`W.take m` is a whole number of records — the deliberate leniency of the code for peers that close without
    close_notify); every cut strictly inside a record, header bytes included, is `io.ErrUnexpectedEOF`. -/
theorem truncation_detected (w : Writer) (bs : List Bytes) (m : Nat)
    (hrand : RandOK w.half.suite (writeMany w bs).1.length w.rand)
    (hm : m < (writeMany w bs).1.flatten.length)
    (fuel : Nat) (hfuel : (writeMany w bs).1.length ≤ fuel) (warn : Nat) :
    (readAll fuel w.half warn ((writeMany w bs).1.flatten.take m)).1 <+: bs.flatten ∧
    ((readAll fuel w.half warn ((writeMany w bs).1.flatten.take m)).2 = .eof ∨
     (readAll fuel w.half warn ((writeMany w bs).1.flatten.take m)).2 = .ueof) ∧
    ((readAll fuel w.half warn ((writeMany w bs).1.flatten.take m)).2 = .eof →
      ∃ j, (writeMany w bs).1.flatten.take m = ((writeMany w bs).1.take j).flatten) := by
  obtain ⟨k, n, r, e1, e2, e3⟩ := take_flatten_decomp (writeMany w bs).1 m hm
  have hkl : k < (writeMany w bs).1.length := by
    rcases Nat.lt_or_ge k (writeMany w bs).1.length with hlt | hge
    · exact hlt
    · rw [List.getElem?_eq_none hge] at e1; cases e1
  rw [e3]
  by_cases hn0 : n = 0
  · subst hn0
    simp only [List.take_zero, List.append_nil]
    obtain ⟨p1, p2⟩ := record_prefix_delivery w bs k hrand fuel (by omega) warn
    exact ⟨p1, Or.inl p2, fun _ => ⟨k, rfl⟩⟩
  · obtain ⟨q1, q2⟩ := write_truncated_rejected w bs k n r hrand e1 (by omega) e2 fuel (by omega) warn
    refine ⟨q2, Or.inr q1, fun h => ?_⟩
    rw [q1] at h; cases h

/-- where reading ended because the TRANSPORT ended (auxiliary instrumentation of `readAllH`): `some r` — the
    reader consumed whole records up to the point where `r` is what is left of the wire, and `readRecord` then
    found the end of the transport (in front of a header: `r = []`; inside a header or a body: `r ≠ []`); `none` —
    reading ended for another reason (an alert was sent or received, close_notify, the model's fuel) -/
def transportEnd : Nat → Half → Nat → Bytes → Option Bytes
  | 0, _, _, _ => none
  | fuel+1, h, warn, wire =>
    match parse wire with
    | .stop st => if st = .eof ∨ st = .ueof then some wire else none
    | .record typ body rest =>
      match h.decrypt typ body with
      | (none, _) => none
      | (some data, h') =>
        match dispatch typ data warn with
        | .halt _ => none
        | .deliver _ w => transportEnd fuel h' w rest
        | .skip w => transportEnd fuel h' w rest

/-- **ARBITRARY wire bytes** (whatever an attacker puts on the wire, both suites, any receiver state): whenever
    reading ends because the transport has ended, with `r` the bytes of the wire not consumed as complete records,
    `Conn.Read` reports the clean end `eof` IF AND ONLY IF `r` is empty; any left-over — 1..4 header bytes or an
    incomplete body — is `ueof` (`io.ErrUnexpectedEOF`).  `r` is a suffix of the wire. -/
theorem transport_end_clean_iff (fuel : Nat) (h : Half) (warn : Nat) (wire r : Bytes)
    (ht : transportEnd fuel h warn wire = some r) :
    r <:+ wire ∧ ((readAll fuel h warn wire).2 = .eof ↔ r = []) ∧
    (r ≠ [] → (readAll fuel h warn wire).2 = .ueof) := by
  rw [readAll_eq_readAllH]
  simp only
  induction fuel generalizing h warn wire with
  | zero => simp [transportEnd] at ht
  | succ fuel ih =>
    rw [transportEnd] at ht
    rw [readAllH]
    cases hp : parse wire with
    | stop st =>
      rw [hp] at ht
      simp only at ht ⊢
      by_cases hst : st = .eof ∨ st = .ueof
      · rw [if_pos hst] at ht
        simp only [Option.some.injEq] at ht
        subst ht
        refine ⟨List.suffix_refl _, ?_, ?_⟩
        · constructor
          · intro he; subst he; exact (parse_eof_iff wire).mp hp
          · intro hw
            have := (parse_eof_iff wire).mpr hw
            rw [hp] at this; cases this; rfl
        · intro hne
          rcases hst with rfl | rfl
          · exact absurd ((parse_eof_iff wire).mp hp) hne
          · rfl
      · rw [if_neg hst] at ht; cases ht
    | record typ body rest =>
      rw [hp] at ht
      simp only at ht ⊢
      obtain ⟨-, -, p3, -⟩ := parse_record_inv wire typ body rest hp
      rcases hd : h.decrypt typ body with ⟨_ | data, h'⟩
      · rw [hd] at ht; cases ht
      · rw [hd] at ht
        simp only at ht ⊢
        cases hdp : dispatch typ data warn with
        | halt st => rw [hdp] at ht; cases ht
        | deliver d w0 =>
          rw [hdp] at ht
          simp only at ht ⊢
          obtain ⟨i1, i2, i3⟩ := ih h' w0 rest ht
          exact ⟨List.IsSuffix.trans i1 p3, i2, i3⟩
        | skip w0 =>
          rw [hdp] at ht
          simp only at ht ⊢
          obtain ⟨i1, i2, i3⟩ := ih h' w0 rest ht
          exact ⟨List.IsSuffix.trans i1 p3, i2, i3⟩

/-! ### Non-vacuity -/

/-- three bytes of a header and then the end of the transport: `io.ErrUnexpectedEOF`, for every receiver state -/
example (h : Half) (warn : Nat) : readAll 1 h warn [23, 1, 1] = ([], .ueof) := by
  rw [readAll_parse, parse_short _ (by simp) (by decide)]

/-- ... and the end of the transport in front of a header stays the clean end -/
example (h : Half) (warn : Nat) : readAll 1 h warn [] = ([], .eof) := by
  rw [readAll_parse, (parse_eof_iff []).mpr rfl]

example (h : Half) (warn : Nat) : transportEnd 1 h warn [23, 1, 1, 0] = some [23, 1, 1, 0] := by
  rw [transportEnd, parse_short _ (by simp) (by decide)]; rfl

/-- the hypotheses of `truncated_inside_record` are jointly satisfiable: the CBC record for the write `[1,2,3]`
    (its first, one-byte fragment) exists, is longer than 4 bytes, and cut after 1..4 bytes it is refused -/
example : ∃ r, (encFrags demoCBC.half demoCBC.rand [[1], [2, 3]])[0]? = some r ∧ 4 < r.length ∧
    ∀ n, 0 < n → n ≤ 4 → readAll 1 demoCBC.half 0 (r.take n) = ([], .ueof) := by
  have hl := encrypt_length_ge demoCBC.half 23 (explicitOf demoCBC.half demoCBC.rand) [1]
  refine ⟨(demoCBC.half.encrypt 23 (explicitOf demoCBC.half demoCBC.rand) [1]).1, rfl, by omega, fun n h0 h4 => ?_⟩
  have := truncated_inside_record [[1], [2, 3]] demoCBC.half demoCBC.rand 0 1 0 n _
    (by decide) (by simp [RandOK, demoCBC]) rfl h0 (by omega) (by omega)
  simpa using this

end RecordLayer

/-! ## 2. The buffering above the record layer (`Conn.Read`, `Conn.readHandshake`) -/
section Buffering
open Gmsm Model.ConnRead Props.C06Read

/-- the transport ending inside a record is `io.ErrUnexpectedEOF` whether the cut is in the header or in the body -/
theorem truncErr_unexpected (inBody : Bool) : truncErr inBody = .unexpectedEOF := rfl

theorem ending_dataItems_fail (ps : List (Bool × Bytes)) (s a : Bool) (e : Err) (tl : List Item) (wc : Nat) :
    ending wc (dataItems ps ++ ⟨s, .fail a e⟩ :: tl) = e := by
  induction ps generalizing wc with
  | nil => simp [dataItems, ending]
  | cons x xs ih =>
    simp only [dataItems, List.map_cons, List.cons_append, ending]
    rw [← dataItems, ih]

/-- every error a sequence of Reads returns is `io.ErrNoProgress` or THE error the record list ends in -/
theorem run_outcomes (r : Reader) (sizes : List Nat) :
    ∀ o ∈ (run r sizes).2, ∀ e, o.2 = some e → e = .noProgress ∨ e = endingOf r := by
  induction sizes generalizing r with
  | nil => intro o ho; simp [run] at ho
  | cons b bs ih =>
    obtain ⟨-, h2, -, -, h5, -⟩ := read_spec r b
    intro o ho e he
    have hrun : (run r (b :: bs)).2 = (read r b).2 :: (run (read r b).1 bs).2 := rfl
    rw [hrun] at ho
    rcases List.mem_cons.mp ho with rfl | ho
    · by_cases hnp : e = .noProgress
      · exact Or.inl hnp
      · right
        have := h5 e he hnp
        rw [← h2]; simp [endingOf, this]
    · have := ih (read r b).1 o ho e he
      rw [h2] at this; exact this

/-- **`Conn.Read` never reports a clean end for a stream cut inside a record.**  The records are any
    application-data records `ps` (any transport segmentation), then a record inside which the transport ends
    (`Rec.truncated`: after 1..4 header bytes or inside the body; data or alert typed; buffered together with the
    record before it or not), then anything.  For EVERY list of buffer sizes: what is delivered is a prefix of the
    payloads; NO Read returns `io.EOF`; and once an error is stored it is `io.ErrUnexpectedEOF` and exactly the
    payloads of the complete records have been delivered. -/
theorem read_truncated_is_error (ps : List (Bool × Bytes)) (s a : Bool) (tl : List Item) (sizes : List Nat) :
    delivered (readAll (Reader.init (dataItems ps ++ ⟨s, Rec.truncated a⟩ :: tl)) sizes) <+: (ps.map (·.2)).flatten ∧
    (∀ o ∈ readAll (Reader.init (dataItems ps ++ ⟨s, Rec.truncated a⟩ :: tl)) sizes, o.2 ≠ some .eof) ∧
    ((run (Reader.init (dataItems ps ++ ⟨s, Rec.truncated a⟩ :: tl)) sizes).1.err ≠ none →
      delivered (readAll (Reader.init (dataItems ps ++ ⟨s, Rec.truncated a⟩ :: tl)) sizes) = (ps.map (·.2)).flatten ∧
      (run (Reader.init (dataItems ps ++ ⟨s, Rec.truncated a⟩ :: tl)) sizes).1.err = some .unexpectedEOF) := by
  have hstream : stream 0 (dataItems ps ++ ⟨s, Rec.truncated a⟩ :: tl) = (ps.map (·.2)).flatten :=
    stream_dataItems ps _ (show Stops (⟨s, Rec.truncated a⟩ :: tl) from Or.inr ⟨a, .unexpectedEOF, rfl⟩) 0
  have hend : ending 0 (dataItems ps ++ ⟨s, Rec.truncated a⟩ :: tl) = .unexpectedEOF :=
    ending_dataItems_fail ps s a .unexpectedEOF tl 0
  obtain ⟨r1, r2⟩ := read_stream (dataItems ps ++ ⟨s, Rec.truncated a⟩ :: tl) sizes
  rw [hstream] at r1 r2
  rw [hend] at r2
  refine ⟨r1, fun o ho he => ?_, fun h => ⟨(r2 h).1, (r2 h).2.1⟩⟩
  have := run_outcomes (Reader.init (dataItems ps ++ ⟨s, Rec.truncated a⟩ :: tl)) sizes o ho .eof he
  rw [init_ending, hend] at this
  rcases this with h | h <;> cases h

theorem fillGo_trunc (need : Nat) (hand : Bytes) (wc : Nat) (b : Bool) (rest : List HRec)
    (h : ¬ need ≤ hand.length) :
    fillGo need hand wc (.trunc b :: rest) =
      (⟨hand, .trunc b :: rest, some .unexpectedEOF, wc⟩, some .unexpectedEOF) := by
  rw [fillGo]; simp [h, truncErr]

/-- `Conn.readHandshake` when the transport ends inside the next record (header or body) while a message is still
    incomplete: `io.ErrUnexpectedEOF`, stored; never a message, never `io.EOF` -/
theorem readHandshake_trunc (accept : Bytes → Bool) (hand : Bytes) (wc : Nat) (b : Bool) (rest : List HRec)
    (h : hand.length < 4) :
    readHandshake accept ⟨hand, .trunc b :: rest, none, wc⟩ =
      (⟨hand, .trunc b :: rest, some .unexpectedEOF, wc⟩, .error .unexpectedEOF) := by
  unfold readHandshake
  rw [fill_eq_fillGo _ _ rfl]
  simp only [fillGo_trunc 4 hand wc b rest (by omega)]

/-- `readRecord(recordTypeChangeCipherSpec)` on a transport that ends inside the next record -/
theorem recvCCS_trunc (hand : Bytes) (wc : Nat) (e : Option Err) (b : Bool) (rest : List HRec) :
    (recvCCS ⟨hand, .trunc b :: rest, e, wc⟩).2 = some .unexpectedEOF := by
  simp [recvCCS, recvCCSGo, truncErr]

/-! ### Non-vacuity -/

example : readAll (Reader.init [⟨false, .data [1, 2, 3]⟩, ⟨false, Rec.truncated false⟩]) [2, 2, 2]
    = [([1, 2], none), ([3], none), ([], some .unexpectedEOF)] := by decide
/-- at a record boundary the end of the transport is still the clean end -/
example : readAll (Reader.init [⟨false, .data [1, 2, 3]⟩]) [3, 2] = [([1, 2, 3], none), ([], some .eof)] := by decide
example : (readHandshake (fun _ => true) ⟨[20, 0], [.trunc false], none, 0⟩).2 = .error .unexpectedEOF := by decide
example : (recvCCS ⟨[], [.warning, .trunc false], none, 0⟩).2 = some .unexpectedEOF := by decide

end Buffering

end Props.C07Trunc
