/-
C03 (curve arithmetic, end to end) — the MODEL of the curve object of sm2/p256.go (`Gmsm.Model.SM2Curve`:
Jacobian coordinates over naturals mod p, `sm2P256PointAdd` with its special cases, the width-4 wNAF
window loop of `ScalarMult`, the comb of `ScalarBaseMult` over the table regenerated from the source)
computes the group law of the specification (`Spec.SM2.padd` / `smul`), which `Proofs.SM2Affine` proves to
be Mathlib's group of points of y² = x³ + a x + b over `ZMod p`.

Proofs are in `Gmsm/Proofs/SM2Jacobian.lean`; this file states the results.

 1. `jpt : J → W.Point`, `JValid`; `pointAdd_correct` (ALL pairs of inputs), `double_correct_J`,
    `pointSub_correct`, `toAffine_correct`, `fromAffine_valid`.
 4. `isOnCurve_iff`, `apiAdd_correct`, `apiDouble_correct`.
 G. `group_order : Nat.card W.Point = n` (so every point other than O has order n): n | #E because G has
    order n, #E ≤ 2p + 1 < 3n, and #E ≠ 2n because x³ + a x + b has no root mod p (`cubic_no_root`, by a
    verified square-and-multiply computation of x^p modulo the cubic and elimination).
 2. `scalarMult_correct`: for EVERY point on the curve and EVERY scalar k,
    `ScalarMult(x, y, k) = enc ([k mod n](x, y))`  (and `= enc ([k](x, y))` for k < 2^600, the spec's range).
 3. `scalarBaseMult_correct`: for EVERY k, `ScalarBaseMult(k) = enc ([k mod n]G)`.  No scalar fails: the
    comb's mixed additions (which have no doubling / infinity case) never meet those cases for k < n.
-/
import Gmsm.Proofs.SM2Jacobian

set_option exponentiation.threshold 700
namespace Props.C03Mult
open Spec.SM2 Model.SM2Curve Model.SM2Jac Proofs.SM2Affine Proofs.SM2Jacobian

/-! ## 1. Jacobian points -/

/-- `JValid A` unfolds to: reduced coordinates and, unless Z = 0, the Jacobian curve equation mod p -/
theorem jvalid_def (A : J) : JValid A ↔
    (A.x.v < p ∧ A.y.v < p ∧ A.z.v < p) ∧
    (A.z.v ≠ 0 → (A.y.v ^ 2) % p = (A.x.v ^ 3 + a * A.x.v * A.z.v ^ 4 + b * A.z.v ^ 6) % p) := Iff.rfl

/-- `jpt A` is 0 when Z = 0 -/
theorem jpt_inf_of_z0 {A : J} (h : A.z.v = 0) : jpt A = 0 := jpt_of_z0 h

/-- `jpt A` is the affine point (X/Z², Y/Z³) of Mathlib's group when Z ≠ 0 -/
theorem jpt_affine {A : J} (hA : JValid A) (hz : A.z.v ≠ 0) :
    ∃ h : W.Nonsingular ((A.x.v : F) / (A.z.v : F) ^ 2) ((A.y.v : F) / (A.z.v : F) ^ 3),
      jpt A = WeierstrassCurve.Affine.Point.some _ _ h := by
  have hz' := (mapJ_z_ne hA.red).mpr hz
  exact ⟨hA.on hz', jp_some hz' (hA.on hz')⟩

/-- `sm2P256PointAdd` (as repaired in the Go code; the model mirrors its case analysis): for ALL pairs
    of valid inputs — either at infinity, A = B (↦ doubling), A = −B (↦ Z = 0), generic — the result is
    valid and stands for the sum in the group. -/
theorem pointAdd_correct {A B : J} (hA : JValid A) (hB : JValid B) :
    JValid (pointAdd A B) ∧ jpt (pointAdd A B) = jpt A + jpt B :=
  Proofs.SM2Jacobian.pointAdd_correct hA hB

/-- `sm2P256PointDouble`: all valid inputs (infinity and Y = 0 included) -/
theorem double_correct_J {A : J} (hA : JValid A) :
    JValid (double fa A) ∧ jpt (double fa A) = jpt A + jpt A :=
  Proofs.SM2Jacobian.double_correct_J hA

/-- `sm2P256PointSub` -/
theorem pointSub_correct {A B : J} (hA : JValid A) (hB : JValid B) :
    JValid (pointSub A B) ∧ jpt (pointSub A B) = jpt A - jpt B :=
  Proofs.SM2Jacobian.pointSub_correct hA hB

/-- `sm2P256ToAffine`: the returned pair is the library encoding ((0,0) for infinity) of the valid spec
    point `jspec A` (`none` if Z = 0, else `some (toAffine A)`), whose group element is `jpt A` -/
theorem toAffine_correct {A : J} (hA : JValid A) :
    Valid (jspec A) ∧ pt (jspec A) = jpt A ∧ toAffine A = enc (jspec A) :=
  Proofs.SM2Jacobian.toAffine_correct hA

/-- hence: if a valid model point stands for the spec point P, `toAffine` returns `enc P` -/
theorem toAffine_eq_enc {A : J} {P : Pt} (hA : JValid A) (hP : Valid P) (h : jpt A = pt P) :
    toAffine A = enc P :=
  Proofs.SM2Jacobian.toAffine_eq_enc hA hP h

/-- the conversion at the API boundary ((0,0) is the point at infinity, `zForAffine`) -/
theorem fromAffine_valid {x y : Nat} (h : Valid (dec x y)) :
    JValid (fromAffine x y) ∧ jpt (fromAffine x y) = pt (dec x y) :=
  Proofs.SM2Jacobian.fromAffine_valid h

/-! ## 4. `IsOnCurve`, `Add`, `Double` -/

/-- `Curve.IsOnCurve(x, y)` (as repaired) accepts exactly the pairs of field elements that satisfy the spec's curve
    equation; in particular, among coordinate pairs in [0, p) it is the spec's curve test -/
theorem isOnCurve_iff (x y : Nat) : isOnCurve x y = true ↔ x < p ∧ y < p ∧ onCurve x y = true := by
  rw [isOnCurve_eq]
  simp [Bool.and_eq_true, and_assoc]

theorem isOnCurve_reduced (x y : Nat) (hx : x < p) (hy : y < p) : isOnCurve x y = onCurve x y := by
  rw [isOnCurve_eq]; simp [hx, hy]

/-- `Curve.Add`: every pair of valid inputs (on the curve with reduced coordinates, or (0,0)): the result
    is the encoding of the spec's `padd` — equal, opposite and infinite inputs included -/
theorem apiAdd_correct {x1 y1 x2 y2 : Nat} (h1 : Valid (dec x1 y1)) (h2 : Valid (dec x2 y2)) :
    apiAdd x1 y1 x2 y2 = enc (padd (dec x1 y1) (dec x2 y2)) :=
  Proofs.SM2Jacobian.apiAdd_correct h1 h2

/-- `Curve.Double` -/
theorem apiDouble_correct {x y : Nat} (h : Valid (dec x y)) :
    apiDouble x y = enc (padd (dec x y) (dec x y)) :=
  Proofs.SM2Jacobian.apiDouble_correct h

/-! ## G. The group order -/

/-- x³ + a·x + b has no root modulo p: the curve has no point of order 2 -/
theorem cubic_no_root (r : F) : r ^ 3 + (a : F) * r + (b : F) ≠ 0 :=
  Proofs.SM2Jacobian.cubic_no_root r

/-- #E(F_p) = n -/
theorem group_order : Nat.card W.Point = n := card_eq

/-- every point of the curve is annihilated by n; every point other than O has order exactly n -/
theorem every_point_order_n (Q : W.Point) : n • Q = 0 ∧ (Q ≠ 0 → addOrderOf Q = n) :=
  ⟨n_nsmul Q, addOrderOf_eq_n⟩

theorem smul_eq_none_of {P : Pt} (hP : Valid P) {k : Nat} (hk : k < 2 ^ 600) (h : k • pt P = 0) :
    smul k P = none := by
  have h1 := pt_smul hP hk
  rw [h] at h1
  exact (pt_eq_zero_iff (smul_valid hP hk)).mp h1

/-- at the level of the spec: [n]P = O for every valid point -/
theorem smul_n_eq_none {P : Pt} (hP : Valid P) : smul n P = none :=
  smul_eq_none_of hP Props.SM2Group.n_lt (n_nsmul _)

/-! ## 2. `ScalarMult` -/

/-- the dense wNAF digit array returned by `WNafReversed` represents the scalar, with digits |d| ≤ 7 -/
theorem wnafReversed_correct (k : Nat) :
    Props.C03Alg.msbVal (wnafReversed k) = k ∧ ∀ d ∈ wnafReversed k, d.natAbs ≤ 7 :=
  ⟨wnafReversed_value k, wnafReversed_bound k⟩

/-- the window loop (table 1P..7P by `double`/`addMixed`, pending doublings, add/subtract a table entry
    with the complete `pointAdd`) computes (value of the digits)·P for every digit string with |d| ≤ 7 -/
theorem scalarMultDigits_correct {x y : Nat} (h : Valid (some (x, y))) (digits : List Int)
    (hd : ∀ d ∈ digits, d.natAbs ≤ 7) :
    JValid (scalarMultDigits x y digits) ∧
    jpt (scalarMultDigits x y digits) = Props.C03Alg.msbVal digits • pt (some (x, y)) :=
  Proofs.SM2Jacobian.scalarMultDigits_correct h digits hd

/-- `Curve.ScalarMult(x, y, k)`: for EVERY point (x, y) on the curve with reduced coordinates and EVERY
    scalar k (the code reduces it modulo n), the result is the encoding of the spec's [k mod n](x, y).
    No side condition on the point remains: the table construction by `addMixed` needs 2P, 4P, 6P ≠ O
    and 3P, 5P ≠ O, which holds because every point has order n (`group_order`). -/
theorem scalarMult_correct {x y : Nat} (hx : x < p) (hy : y < p) (hc : onCurve x y = true) (k : Nat) :
    apiScalarMult x y k = enc (smul (k % n) (some (x, y))) :=
  Proofs.SM2Jacobian.scalarMult_correct ⟨hx, hy, hc⟩ k

/-- the same against the unreduced scalar, in the range of the spec's `smul` -/
theorem scalarMult_correct_k {x y : Nat} (hx : x < p) (hy : y < p) (hc : onCurve x y = true)
    {k : Nat} (hk : k < 2 ^ 600) :
    apiScalarMult x y k = enc (smul k (some (x, y))) := by
  have hv : Valid (some (x, y)) := ⟨hx, hy, hc⟩
  rw [scalarMult_correct hx hy hc, smul_mod_n hv hk]

/-! ## 3. `ScalarBaseMult` -/

/-- the comb loop on a reduced scalar: a valid point standing for k·G.  The mixed addition used by the
    comb has no case for "accumulator = table point" or "accumulator at infinity after the first
    addition"; for k < n these never occur (`Proofs.SM2Jacobian.row_arith`: in each row the table point
    has a bit at a position where the accumulator's scalar has none, and all partial scalars are < n). -/
theorem scalarBaseMult_correct_J (k : Nat) (hk : k < n) :
    JValid (scalarBaseMult k) ∧ jpt (scalarBaseMult k) = k • pt G :=
  Proofs.SM2Jacobian.scalarBaseMult_correct_J k hk

/-- `Curve.ScalarBaseMult(k)`: for EVERY scalar k the result is the encoding of [k mod n]G; there is no
    failing scalar. -/
theorem scalarBaseMult_correct (k : Nat) : apiScalarBaseMult k = enc (smul (k % n) G) :=
  Proofs.SM2Jacobian.scalarBaseMult_correct k

theorem scalarBaseMult_correct_k {k : Nat} (hk : k < 2 ^ 600) : apiScalarBaseMult k = enc (smul k G) := by
  rw [scalarBaseMult_correct, Props.SM2Group.smul_mod_G hk]

/-- the two scalar multiplications agree on the base point -/
theorem scalarBaseMult_eq_scalarMult (k : Nat) : apiScalarBaseMult k = apiScalarMult gx gy k := by
  rw [scalarBaseMult_correct, scalarMult_correct valid_G.1 valid_G.2.1 valid_G.2.2]; rfl

/-! ## Non-vacuity -/

example : Valid (dec gx gy) := valid_G
example : apiScalarBaseMult 0 = (0, 0) := by rw [scalarBaseMult_correct]; rfl
example : apiScalarMult gx gy n = (0, 0) := by
  rw [scalarMult_correct valid_G.1 valid_G.2.1 valid_G.2.2, Nat.mod_self]; rfl
example : apiAdd gx gy gx gy = apiDouble gx gy := by
  have hG : Valid (dec gx gy) := valid_G
  rw [apiAdd_correct hG hG, apiDouble_correct hG]

end Props.C03Mult
