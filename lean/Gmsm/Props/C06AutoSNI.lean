import Gmsm.Model.CertSelect
/-
C06, certificate selection of the two GMSSL-capable server modes (Model.CertSelect).

Before the repair `processClientHelloGM` (auto-switch) obtained the signing certificate from `Config.getCertificate`
for every connection; with more than one static certificate, `NameToCertificate` populated
(`Config.BuildNameToCertificate`) and SNI in the ClientHello the lookup by name returned the ENCRYPTION certificate
(both certificates of a pair carry the same names, the later entry wins), the server signed with the encryption key
and the client refused the handshake - while the GMSSL-only server completed with the very same Config.
-/
namespace Props.C06AutoSNI
open Model.CertSelect

/-- `getGMSignCertificate` is `getCertificate` of the same Config with `NameToCertificate` set to nil -/
theorem getGMSignCertificate_eq {α : Type} (c : Config α) (sni : Name) :
    getGMSignCertificate c sni = getCertificate { c with nameMap := none } sni := by
  unfold getGMSignCertificate getCertificate staticCertificate
  cases c.getCert <;> cases hc : c.certs <;> simp
  all_goals (rename_i t; cases t <;> rfl)

/-- THE REPAIRED BEHAVIOUR.  For every static configuration (no callbacks) with two or more certificates, with or
    without a name map (any map at all, built by `BuildNameToCertificate` or by hand), with or without SNI (any server
    name), the GMSSL-only server and the auto-switch server both use `Certificates[0]` as signing and
    `Certificates[1]` as encryption certificate. -/
theorem autoswitch_selects_like_gmonly {α : Type} (c : Config α) (sni : Name) (a b : α) (rest : List α)
    (hcerts : c.certs = a :: b :: rest) (hgc : c.getCert = none) (hke : c.getKE = none) :
    selectAuto c sni = some (a, b) ∧ selectGM c sni = some (a, b) := by
  simp [selectAuto, selectGM, getGMSignCertificate, getEKCertificate, hcerts, hgc, hke]

/-- without a `GetCertificate` callback the two modes select the same certificates for EVERY number of static
    certificates, every name map, every server name and every `GetKECertificate` callback -/
theorem autoswitch_eq_gmonly_static {α : Type} (c : Config α) (sni : Name) (hgc : c.getCert = none) :
    selectAuto c sni = selectGM c sni := by
  unfold selectAuto selectGM viaCallbacks getGMSignCertificate getCertificate staticCertificate getEKCertificate
  match hc : c.certs with
  | [] => simp [hgc]
  | [_] => simp [hgc]
  | _ :: _ :: t =>
    have hl : ¬ (t.length + 1 + 1 < 2) := by omega
    cases hk : c.getKE <;> simp [hgc, hl]

/-- the auto-switch server never looks at `NameToCertificate` for the GMSSL pair -/
theorem auto_ignores_name_map {α : Type} (c : Config α) (sni : Name) (nm : Option (Name → Option α)) :
    selectAuto { c with nameMap := nm } sni = selectAuto c sni := rfl

/-- the selection of two static certificates (no `GetCertificate` callback) depends neither on the server name nor on
    the name map, in both modes -/
theorem selection_ignores_names {α : Type} (c : Config α) (m : Mode) (a b : α) (rest : List α)
    (hcerts : c.certs = a :: b :: rest) (hgc : c.getCert = none) (sni sni2 : Name) (nm : Option (Name → Option α)) :
    select m c sni = select m { c with nameMap := nm } sni2 := by
  cases m <;> cases hk : c.getKE <;>
    simp [select, selectAuto, selectGM, getGMSignCertificate, getEKCertificate, hcerts, hgc, hk]

/-- WITH CALLBACKS: THE PRECEDENCE IS WHAT IT WAS.  The repaired auto-switch server chooses exactly what the original
    chose for the same Config with `NameToCertificate` nil - the `GetCertificate` callback first when `Certificates`
    is empty or the client sent SNI, `Certificates[0]` otherwise; `GetKECertificate` / `Certificates[1]` as before -/
theorem auto_is_original_without_map {α : Type} (c : Config α) (sni : Name) :
    selectAuto c sni = selectAutoOriginal { c with nameMap := none } sni := by
  unfold selectAuto selectAutoOriginal viaCallbacks
  rw [getGMSignCertificate_eq]
  rfl

/-- in particular nothing changed for a Config whose name map is nil -/
theorem auto_unchanged_without_map {α : Type} (c : Config α) (sni : Name) (hmap : c.nameMap = none) :
    selectAuto c sni = selectAutoOriginal c sni := by
  rw [auto_is_original_without_map]
  have : { c with nameMap := none } = c := by cases c; simp_all
  rw [this]

/-- nothing changed with fewer than two static certificates (`NewBasicAutoSwitchConfig`: none, everything through the
    callbacks) -/
theorem fewer_than_two_unchanged {α : Type} (c : Config α) (sni : Name) (h : c.certs.length < 2) :
    selectAuto c sni = selectAutoOriginal c sni := by
  rw [auto_is_original_without_map]
  unfold selectAutoOriginal viaCallbacks getCertificate staticCertificate getEKCertificate
  match hc : c.certs with
  | [] => rfl
  | [_] => rfl
  | _ :: _ :: _ => exfalso; first | omega | (rw [hc] at h; simp only [List.length_cons] at h; omega)

/-- nothing changed whenever the `GetCertificate` callback answers (it is consulted and returns a certificate or an
    error): its answer is the signing certificate, before and after -/
theorem callback_answer_unchanged {α : Type} (c : Config α) (sni : Name) (r : Cb α) (hgc : c.getCert = some r)
    (hr : r ≠ .nil) (hcons : c.certs.isEmpty = true ∨ sni ≠ []) :
    selectAuto c sni = selectAutoOriginal c sni ∧ getGMSignCertificate c sni = r := by
  have h1 : getGMSignCertificate c sni = r := by
    unfold getGMSignCertificate
    cases r <;> simp_all
  have h2 : getCertificate c sni = r := by
    unfold getCertificate
    cases r <;> simp_all
  exact ⟨by unfold selectAuto selectAutoOriginal viaCallbacks; rw [h1, h2], h1⟩

/-- where the original went wrong, exactly: with two or more static certificates the original chose the signing
    certificate `getCertificate` returns (callback, name map) - it agreed with the GMSSL-only server iff that is
    `Certificates[0]` -/
theorem original_agrees_iff {α : Type} (c : Config α) (sni : Name) (a b : α) (rest : List α)
    (hcerts : c.certs = a :: b :: rest) :
    selectAutoOriginal c sni = selectGM c sni ↔ getCertificate c sni = .cert a := by
  have hek : getEKCertificate c = .cert b := by
    unfold getEKCertificate
    cases hk : c.getKE <;> simp [hcerts]
    intro h; omega
  unfold selectAutoOriginal viaCallbacks selectGM
  rw [hek]
  cases hg : getCertificate c sni <;> simp [hcerts]

/-- without a name map and without a `GetCertificate` callback the original was right (why the defect went unnoticed) -/
theorem original_right_without_map {α : Type} (c : Config α) (sni : Name) (a b : α) (rest : List α)
    (hcerts : c.certs = a :: b :: rest) (hmap : c.nameMap = none) (hgc : c.getCert = none) :
    selectAutoOriginal c sni = selectGM c sni := by
  rw [original_agrees_iff c sni a b rest hcerts]
  simp [getCertificate, staticCertificate, hgc, hcerts, hmap]

/-! ### non-vacuity: the configuration of the reader's report -/

def sniTest : Name := ['s', 'n', 'i', '.', 't', 'e', 's', 't']
def sniUpperDot : Name := ['S', 'N', 'I', '.', 'T', 'E', 'S', 'T', '.']

/-- certificates by position: 0 the signing, 1 the encryption certificate, both for "sni.test" -/
def pairNames : Nat → List Name := fun _ => [sniTest]

/-- `Certificates = {sign, enc}`, `BuildNameToCertificate()` called, no callbacks -/
def reported : Config Nat :=
  { certs := [0, 1], nameMap := some (buildNameToCertificate [0, 1] pairNames), getCert := none, getKE := none }

/-- the repaired auto-switch server and the GMSSL-only server: (sign, enc) -/
example : selectAuto reported sniTest = some (0, 1) ∧ selectGM reported sniTest = some (0, 1) := by decide

/-- the original auto-switch server: the ENCRYPTION certificate in both places whenever the client names the server
    (in any spelling), the right pair without SNI or without the name map (the defect) -/
theorem original_selected_encryption_certificate :
    selectAutoOriginal reported sniTest = some (1, 1) ∧ selectAutoOriginal reported sniUpperDot = some (1, 1)
    ∧ selectAutoOriginal reported [] = some (0, 1)
    ∧ selectAutoOriginal { reported with nameMap := none } sniTest = some (0, 1) := by
  refine ⟨?_, ?_, ?_, ?_⟩ <;> decide

/-- a hand-written wildcard entry had the same effect -/
example : selectAutoOriginal { reported with nameMap := some fun n => if n = ['*', '.', 't', 'e', 's', 't'] then some 1 else none }
    sniTest = some (1, 1) := by decide

/-- callbacks keep their precedence in auto-switch mode: static {0, 1} plus a `GetCertificate` callback serving
    certificate 7 - with SNI the callback's certificate signs, without SNI `Certificates[0]` (before and after the
    repair); the GMSSL-only server takes the static pair -/
example : selectAuto { reported with getCert := some (.cert 7) } sniTest = some (7, 1)
    ∧ selectAutoOriginal { reported with getCert := some (.cert 7) } sniTest = some (7, 1)
    ∧ selectAuto { reported with getCert := some (.cert 7) } [] = some (0, 1)
    ∧ selectGM { reported with getCert := some (.cert 7) } sniTest = some (0, 1) := by
  refine ⟨?_, ?_, ?_, ?_⟩ <;> decide

end Props.C06AutoSNI
