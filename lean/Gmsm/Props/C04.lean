/-
C04 — SM3 is the GM/T 0004 digest for every input and chunking and honours hash.Hash.

Property theorems only.  `Model.SM3` mirrors sm3/sm3.go (the repaired `Sum`; the pinned commit's
`Sum` is `Model.SM3.sumOld`, for which the negations are proved below with concrete witnesses).
-/
import Gmsm.Proofs.SM3
import Gmsm.Gen.SM3Consts
namespace Props.C04
open Gmsm Spec.SM3 Model.SM3 Proofs.SM3

/-- regenerated facts: the IV written by `Reset` and the round constants used by `update`/`update2`
    in the Go source are the standard's (4.1, 4.2). -/
theorem consts_ok :
    Gen.SM3.iv.toList = [IV.a, IV.b, IV.c, IV.d, IV.e, IV.f, IV.g, IV.h] ∧
    Gen.SM3.updateConsts.toList = [Tj 0, Tj 16] ∧ Gen.SM3.update2Consts.toList = [Tj 0, Tj 16] := by
  decide +kernel

/-- T1 `rotl_go`: Go's `x<<(i%32) | x>>(32-i%32)` is rotate-left by `i mod 32` for every `i`
    (including `i % 32 = 0`, where Go's `x>>32` is 0). -/
theorem rotl_go (x : W32) (i : Nat) : leftRotate x i = x.rotateLeft (i % 32) := goRotl_eq x i

/-- T1 `update1_eq_CF`: one iteration of the Go block loop is the standard's compression function. -/
theorem update1_eq_CF : update1 = CF := Proofs.SM3.update1_eq_CF

/-- T1 `write_write`: two writes are one write of the concatenation (same digest words, same bit
    count, same unhandled tail), from any state that represents some byte history. -/
theorem write_write (s : State) (M a b : Bytes) (h : Inv s M) :
    write (write s a) b = write s (a ++ b) := by
  have h1 := inv_write (inv_write h a) b
  have h2 := inv_write h (a ++ b)
  rw [List.append_assoc] at h1
  cases hs1 : write (write s a) b
  cases hs2 : write s (a ++ b)
  rw [hs1] at h1; rw [hs2] at h2
  congr
  · exact h1.digest.trans h2.digest.symm
  · exact h1.length.trans h2.length.symm
  · exact h1.tail.trans h2.tail.symm

/-- T1 `sum_nil_spec`: for every list of chunks (including empty chunks) the digest after writing
    them one by one is the GM/T 0004 digest of their concatenation. -/
theorem sum_nil_spec (cs : List Bytes) :
    (sum (cs.foldl write init) []).2 = Spec.SM3.hash cs.flatten := by
  have key : ∀ (cs : List Bytes) (s : State) (M : Bytes), Inv s M → Inv (cs.foldl write s) (M ++ cs.flatten) := by
    intro cs
    induction cs with
    | nil => intro s M h; simpa using h
    | cons c cs ih =>
      intro s M h
      have := ih (write s c) (M ++ c) (inv_write h c)
      simpa [List.flatten, List.append_assoc] using this
  have := key cs init [] inv_init
  simp only [List.nil_append] at this
  simp [sum, finish_eq_hash this]

/-- the one-shot function agrees -/
theorem sm3Sum_spec (m : Bytes) : sm3Sum m = Spec.SM3.hash m := by
  have := sum_nil_spec [m]
  simpa [sm3Sum] using this

/-- T1 `sum_pure` / `sum_prefix`: `Sum` leaves the state untouched and returns prefix ‖ digest. -/
theorem sum_pure (s : State) (pre : Bytes) : (sum s pre).1 = s := rfl
theorem sum_prefix (s : State) (M pre : Bytes) (h : Inv s M) :
    (sum s pre).2 = pre ++ Spec.SM3.hash M := by simp [sum, finish_eq_hash h]

/-- the abstract behaviour of a `hash.Hash` history: the bytes written since the last reset -/
def specRun : Bytes → List Op → List Bytes
  | _, [] => []
  | M, .write p :: ops => specRun (M ++ p) ops
  | M, .sum pre :: ops => (pre ++ Spec.SM3.hash M) :: specRun M ops
  | _, .reset :: ops => specRun [] ops

/-- T1 `hist_refines`: for every operation sequence over {Write x, Sum p, Reset} the i-th `Sum p`
    returns `p ‖ SM3(bytes written since the last Reset)` — refinement to the abstract state
    "bytes since reset", by induction over the operation list. -/
theorem hist_refines (s : State) (M : Bytes) (h : Inv s M) (ops : List Op) :
    run s ops = specRun M ops := by
  induction ops generalizing s M with
  | nil => rfl
  | cons op ops ih =>
    cases op with
    | write p => simp only [run, specRun]; exact ih _ _ (inv_write h p)
    | sum pre =>
      simp only [run, specRun, sum, finish_eq_hash h]
      rw [ih s M h]
    | reset => simp only [run, specRun]; exact ih _ _ inv_init

theorem hist_refines_init (ops : List Op) : run init ops = specRun [] ops :=
  hist_refines init [] inv_init ops

/-- the digest is always 32 bytes -/
theorem hash_length (m : Bytes) : (Spec.SM3.hash m).length = 32 := by
  simp [Spec.SM3.hash, regBytes, w32bytes]

/-- the padded message is a whole number of blocks, so `pad` never reaches its `panic` -/
theorem pad_whole_blocks (l : Nat) : (l + (padding l).length) % 64 = 0 := padded_length l

-- the pinned commit's `Sum` (negative witnesses, replayed on the real code before the repair) ----

/-- `sum_mutates`: the old `Sum(prefix)` changes the running state … -/
theorem sumOld_mutates : ∃ s pre, (sumOld s pre).1 ≠ s :=
  ⟨write init [0x61, 0x62, 0x63], [0x78, 0x79], by decide⟩

/-- … and `sum_drops_prefix`: returns 32 bytes instead of prefix ‖ digest. -/
theorem sumOld_drops_prefix : ∃ s pre, (sumOld s pre).2.length ≠ pre.length + 32 :=
  ⟨init, [0x78, 0x79], by decide +kernel⟩

/-- Non-vacuity (a test): a 3-chunk history of a 119-byte message, with an empty chunk. -/
example : Inv (([List.replicate 55 1, [], List.replicate 64 2].foldl write init))
    (List.replicate 55 1 ++ [] ++ List.replicate 64 2) :=
  inv_write (inv_write (inv_write inv_init _) _) _

/-- regenerated fact (round 12): `Write` counts the bit length with the multiplication done in `uint64`
    (`sm3.length += uint64(len(p)) * 8`).  The model's counter is a `Nat`, which is what that expression computes for
    every `len(p)` on every platform; the form found at the pinned commit, `uint64(len(p) * 8)`, multiplies in `int`
    and wraps for a single write of 2^28 bytes where `int` has 32 bits (repair 1bd5dbe). -/
theorem length_counted_in_uint64 : Gen.SM3.lengthUpdate = "wide" := by decide

/-- what the narrow form loses where `int` has 32 bits: 2^28 bytes count as -2^31 bits (converted to uint64: 2^64 - 2^31),
    2^29 bytes as 0 bits -/
theorem narrow_length_wraps : Int.bmod (2 ^ 28 * 8) (2 ^ 32) = -(2 ^ 31) ∧ (2 ^ 29 * 8) % 2 ^ 32 = 0 := by decide

end Props.C04
