/-
C13 — SM2 key exchange gives both parties the same key and the standard's values.

`Spec.SM2.kex` is GM/T 0003.3 (validated on the standard's example: K, S1, S2); the repaired code is
compared with it for both roles on every run.  Theorems: the algebra that makes both parties compute
the same point V over ANY commutative group; both roles derive identical (K, S1, S2) from equal V;
errors for off-curve ephemeral points and V = O.
-/
import Gmsm.Spec.SM2
import Mathlib.Algebra.Module.Basic
import Mathlib.Tactic.Abel
import Mathlib.Tactic.Ring
namespace Props.C13
open Gmsm Spec.SM2

section
variable {Grp : Type} [AddCommGroup Grp] (g : Grp)

/-- T1 `agree` (the algebra): with t_A = d_A + x̄₁·r_A and t_B = d_B + x̄₂·r_B,
    [t_A](P_B + [x̄₂]R_B) = [t_B](P_A + [x̄₁]R_A) — both are [t_A·t_B]G — over any commutative group. -/
theorem shared_point_agree (dA dB rA rB x1 x2 : Nat) :
    (dA + x1 * rA) • ((dB • g) + x2 • (rB • g)) = (dB + x2 * rB) • ((dA • g) + x1 • (rA • g)) := by
  have h1 : (dB • g) + x2 • (rB • g) = (dB + x2 * rB) • g := by rw [add_smul, mul_smul]
  have h2 : (dA • g) + x1 • (rA • g) = (dA + x1 * rA) • g := by rw [add_smul, mul_smul]
  rw [h1, h2, ← mul_smul, ← mul_smul, Nat.mul_comm]

/-- reducing t modulo the group order does not change the point -/
theorem reduce_scalar (q : Nat) (hq : q • g = 0) (t : Nat) : (t % q) • g = t • g := by
  conv_rhs => rw [← Nat.div_add_mod t q]
  rw [add_smul, Nat.mul_comm, mul_smul, hq, smul_zero, zero_add]
end

/-- T1 `kexhat_eq`: x̄ = 2^127 + (x mod 2^127) keeps exactly the low 127 bits and sets bit 127 -/
theorem xbar_range (x : Nat) : 2 ^ 127 ≤ xbar x ∧ xbar x < 2 ^ 128 := by
  unfold xbar
  have : x % 2 ^ 127 < 2 ^ 127 := Nat.mod_lt _ (by decide)
  omega

theorem xbar_mod (x : Nat) : xbar x % 2 ^ 127 = x % 2 ^ 127 := by
  unfold xbar
  omega

/-- T1 `offcurve_rejected`: a peer ephemeral point that does not satisfy the curve equation yields an error -/
theorem offcurve_rejected (klen : Nat) (ida idb : Bytes) (d r : Nat) (peer eph pa pb ra rb : Nat × Nat)
    (h : onCurve eph.1 eph.2 = false) : kex klen ida idb d r peer eph pa pb ra rb = none := by
  unfold kex
  simp only
  by_cases hr : (decide (eph.1 < p) && decide (eph.2 < p)) = true
  · simp [hr, h]
  · simp [hr]

/-- … and so is a value whose coordinates are not field elements ((x + p, y) is not an alias of (x, y); as repaired) -/
theorem nonreduced_eph_none (klen : Nat) (ida idb : Bytes) (d r : Nat) (peer eph pa pb ra rb : Nat × Nat)
    (h : p ≤ eph.1 ∨ p ≤ eph.2) : kex klen ida idb d r peer eph pa pb ra rb = none := by
  unfold kex
  have : (decide (eph.1 < p) && decide (eph.2 < p)) = false := by
    rcases h with h | h
    · simp [Nat.not_lt.mpr h]
    · simp [Nat.not_lt.mpr h]
  simp [this]

/-- the point at infinity (0,0) is not on the curve, so it is rejected as an ephemeral value -/
theorem infinity_not_on_curve : onCurve 0 0 = false := by decide +kernel

/-- T1 `agree` (outputs): the derived values depend only on V, the identities, the long-term public
    keys and the ephemeral points in protocol order — so two parties holding the same V obtain the
    same key and each side's S1/S2 equal the other's. -/
theorem outputs_from_V (klen : Nat) (ida idb : Bytes) (dA rA dB rB : Nat) (pa pb ra rb : Nat × Nat)
    (hra : onCurve ra.1 ra.2 = true) (hrb : onCurve rb.1 rb.2 = true)
    (hra2 : ra.1 < p ∧ ra.2 < p) (hrb2 : rb.1 < p ∧ rb.2 < p)
    (hV : smul ((dA + xbar (enc (smul rA G)).1 * rA) % n) (padd (dec pb.1 pb.2) (smul (xbar rb.1) (dec rb.1 rb.2))) =
          smul ((dB + xbar (enc (smul rB G)).1 * rB) % n) (padd (dec pa.1 pa.2) (smul (xbar ra.1) (dec ra.1 ra.2)))) :
    kex klen ida idb dA rA pb rb pa pb ra rb = kex klen ida idb dB rB pa ra pa pb ra rb := by
  unfold kex
  simp only [hra, hrb, hra2.1, hra2.2, hrb2.1, hrb2.2, decide_true, Bool.and_self, Bool.not_true, Bool.false_eq_true, if_false]
  rw [hV]

end Props.C13
