/-
C09 (name and identifier extensions) — "every certificate that the package creates, for every template it
accepts, parses back to the same field values": the hand-written codecs of x509/x509.go for subjectAltName,
nameConstraints, extKeyUsage, subjectKeyId, authorityKeyId, certificatePolicies and cRLDistributionPoints over
the encoding/asn1 framing.  Theorems about `Model.X509Names` (framing lemmas in `Gmsm/Proofs/X509Names.lean`, same
namespace); the model is run against x509.CreateCertificate / x509.ParseCertificate by the ops sanext, sanparse,
ncext, ncparse, ekuext, ekuparse, skiext, skiparse, akiext, akiparse, polext, polparse, crlext, crlparse, extlist
(harness/c09names.go, Driver/X509Names.lean): extension value bytes and parsed fields compared.

 framing   der_len_roundtrip (every n < 2^31), tlv_roundtrip, oid_subid_roundtrip (every n ≤ MaxInt32),
           oid_subid_too_large (every larger int64: written, then refused), oid_roundtrip, byte_mask_facts,
           decSubids_eq_readBase128
 SAN       san_roundtrip (IPv4-mapped addresses come back in 4-byte form: sanIP), sanIP_v4mapped,
           sanIP_changes_only_mapped, sanIP_idem, decSAN_sound (returned names are slices of the input),
           decSAN_total, sanLoop_fuel, sanLoop_eq_classify, encSAN_injective, encSAN_injective_normal
 NC        nameConstraints_roundtrip (an empty permitted name is lost or fatal), nameConstraints_roundtrip_nonempty,
           nameConstraints_non_ia5_refused, nc_minimum_maximum_ignored, nc_other_form_empty
 EKU       oidlist_roundtrip, eku_roundtrip (known OIDs listed as unknown change lists), eku_roundtrip_disjoint,
           oid_large_arc_unreadable
 ids       ski_roundtrip, aki_roundtrip, aki_written;  policies_roundtrip, crldp_roundtrip
 emission  san_never_critical, san_emitted_iff, extension_order, critical_only
-/
import Gmsm.Proofs.X509Names
namespace Props.C09Names
open Gmsm Model.X509Names

-- §3 subjectAltName -------------------------------------------------------------------------------------------

/-- what the loop of `parseSANExtension` does with the elements once they are split: the specification of
    `sanLoop` over the list of (header, content) pairs -/
def classify : List (Hdr × Bytes) → Option (List Name × List Name × List IP)
  | [] => some ([], [], [])
  | (h, c) :: rest =>
    if h.tag = 7 ∧ ¬ (c.length = 4 ∨ c.length = 16) then none
    else
      match classify rest with
      | none => none
      | some (d, e, i) =>
        if h.tag = 1 then some (d, c :: e, i)
        else if h.tag = 2 then some (c :: d, e, i)
        else if h.tag = 7 then some (d, e, c :: i)
        else some (d, e, i)

/-- the loop is "split into elements, then classify": an error anywhere (framing or IP length) is an error -/
theorem sanLoop_eq_classify (f : Nat) (b : Bytes) :
    sanLoop f b = match elems f b with | none => none | some l => classify l := by
  induction f generalizing b with
  | zero => cases b <;> simp [sanLoop, elems, classify]
  | succ f ih =>
    cases b with
    | nil => simp [sanLoop, elems, classify]
    | cons x xs =>
      simp only [sanLoop, elems]
      cases hr : readRaw (x :: xs) with
      | none => rfl
      | some p =>
        obtain ⟨h, c, rest⟩ := p
        simp only
        rw [ih rest]
        cases he : elems f rest with
        | none => simp
        | some l =>
          simp only [classify]
          by_cases hip : h.tag = 7 ∧ ¬ (c.length = 4 ∨ c.length = 16)
          · rw [if_pos hip, if_pos hip]
          · rw [if_neg hip, if_neg hip]
            cases classify l with
            | none => rfl
            | some t => obtain ⟨d, e, i⟩ := t; rfl


/-- the GeneralNames `marshalSANs` writes, as (identifier octet, content) pairs -/
def sanItems (dns emails : List Name) (ips : List IP) : List (Byte × Bytes) :=
  dns.map (fun n => (0x82, n)) ++ emails.map (fun n => (0x81, n)) ++ ips.map (fun ip => (0x87, sanIP ip))

theorem sanBody_eq (dns emails : List Name) (ips : List IP) : sanBody dns emails ips = encItems (sanItems dns emails ips) := by
  simp [sanBody, sanItems, encItems, List.map_map, Function.comp_def]

theorem encItems_mem_length (items : List (Byte × Bytes)) (p : Byte × Bytes) (hp : p ∈ items) :
    p.2.length + 2 ≤ (encItems items).length := by
  induction items with
  | nil => cases hp
  | cons q rest ih =>
    rw [encItems_cons, List.length_append]
    rcases List.mem_cons.mp hp with h | h
    · subst h; have := tlv_length p.1 p.2; omega
    · have := ih h; omega

/-- well-formedness of a SAN template for the round trip: every address has 4 or 16 bytes (the parser refuses
    all other lengths; the marshaller does not), and the GeneralNames content is shorter than 2^31 bytes (the limit
    of `parseTagAndLength`).  DNS names and e-mail addresses are arbitrary byte strings: nothing is checked by
    `marshalSANs`. -/
def sanWf (dns emails : List Name) (ips : List IP) : Bool :=
  ips.all (fun ip => ip.length = 4 || ip.length = 16) && decide ((sanBody dns emails ips).length < 2 ^ 31)

theorem sanIP_length (ip : IP) (h : ip.length = 4 ∨ ip.length = 16) : (sanIP ip).length = 4 ∨ (sanIP ip).length = 16 := by
  unfold sanIP to4
  split
  · rename_i v hv
    split at hv
    · cases hv; exact h
    · split at hv
      · rename_i h16
        cases hv
        left; rw [List.length_drop]; omega
      · cases hv
  · exact h

theorem classify_ips (l : List IP) (h : ∀ ip ∈ l, ip.length = 4 ∨ ip.length = 16) :
    classify (l.map (fun ip => (hdrOf 0x87 ip.length, ip))) = some ([], [], l) := by
  induction l with
  | nil => rfl
  | cons ip rest ih =>
    simp only [List.map_cons, classify]
    have ht : (hdrOf 0x87 ip.length).tag = 7 := rfl
    rw [if_neg (by intro hc; exact hc.2 (h ip (by simp)))]
    rw [ih (fun x hx => h x (by simp [hx]))]
    simp

theorem classify_emails (l : List Name) (rest : List (Hdr × Bytes)) :
    classify (l.map (fun n => (hdrOf 0x81 n.length, n)) ++ rest) =
      match classify rest with | none => none | some (d, e, i) => some (d, l ++ e, i) := by
  induction l with
  | nil => cases hc : classify rest with | none => simp [hc] | some t => obtain ⟨d, e, i⟩ := t; simp [hc]
  | cons n tl ih =>
    simp only [List.map_cons, List.cons_append, classify]
    have ht : (hdrOf 0x81 n.length).tag = 1 := rfl
    rw [if_neg (by rw [ht]; omega), ih]
    cases classify rest with
    | none => rfl
    | some t => obtain ⟨d, e, i⟩ := t; simp

theorem classify_dns (l : List Name) (rest : List (Hdr × Bytes)) :
    classify (l.map (fun n => (hdrOf 0x82 n.length, n)) ++ rest) =
      match classify rest with | none => none | some (d, e, i) => some (l ++ d, e, i) := by
  induction l with
  | nil => cases hc : classify rest with | none => simp [hc] | some t => obtain ⟨d, e, i⟩ := t; simp [hc]
  | cons n tl ih =>
    simp only [List.map_cons, List.cons_append, classify]
    have ht : (hdrOf 0x82 n.length).tag = 2 := rfl
    rw [if_neg (by rw [ht]; omega), ih]
    cases classify rest with
    | none => rfl
    | some t => obtain ⟨d, e, i⟩ := t; simp

theorem sanItems_lowShort (dns emails : List Name) (ips : List IP) (hb : (sanBody dns emails ips).length < 2 ^ 31) :
    ∀ p ∈ sanItems dns emails ips, lowShort p := by
  intro p hp
  have hl := encItems_mem_length _ p hp
  rw [← sanBody_eq] at hl
  refine ⟨?_, by omega⟩
  simp only [sanItems, List.mem_append, List.mem_map] at hp
  rcases hp with (⟨n, _, rfl⟩ | ⟨n, _, rfl⟩) | ⟨n, _, rfl⟩ <;> (simp only; decide)

/-- `san_roundtrip`: for every template whose IP addresses have 4 or 16 bytes (and less than 2 GiB of names),
    `parseSANExtension(marshalSANs(dns, emails, ips))` returns the DNS names and the e-mail addresses byte for
    byte, in order, and the IP addresses in order in their NORMAL FORM `sanIP`: a 16-byte IPv4-mapped address
    `::ffff:a.b.c.d` comes back as the 4 bytes `a.b.c.d` (`To4`), every other address unchanged.  This is the one
    place where the parsed field value differs in form from the template's. -/
theorem san_roundtrip (dns emails : List Name) (ips : List IP) (h : sanWf dns emails ips = true) :
    decSAN (encSAN dns emails ips) = some (dns, emails, ips.map sanIP) := by
  simp only [sanWf, Bool.and_eq_true, List.all_eq_true, Bool.or_eq_true, decide_eq_true_eq] at h
  obtain ⟨hip, hb⟩ := h
  have hr := tlv_roundtrip 0x30 (sanBody dns emails ips) [] (by decide) hb
  rw [List.append_nil] at hr
  have hseq : isSeq (hdrOf 0x30 (sanBody dns emails ips).length) = true := rfl
  simp only [decSAN, encSAN, hr, hseq]
  simp only [ne_eq, not_true_eq_false, if_false, Bool.not_true, Bool.false_eq_true]
  rw [sanLoop_eq_classify, sanBody_eq]
  rw [elems_items _ _ (by have := encItems_length (sanItems dns emails ips); omega)
    (sanItems_lowShort dns emails ips hb)]
  simp only [sanItems, List.map_append, List.map_map, Function.comp_def]
  rw [List.append_assoc, classify_dns, classify_emails]
  have := classify_ips (ips.map sanIP) (by
    intro ip hi
    obtain ⟨x, hx, rfl⟩ := List.mem_map.mp hi
    exact sanIP_length x (hip x hx))
  rw [List.map_map] at this
  simp only [Function.comp_def] at this
  rw [this]
  simp


-- what the readers consume -------------------------------------------------------------------------------------

theorem readBase128_consumes (b : Bytes) (s r v : Nat) (rest : Bytes) (h : readBase128 s r b = some (v, rest)) :
    ∃ pre, b = pre ++ rest ∧ 1 ≤ pre.length := by
  induction b generalizing s r with
  | nil => simp [readBase128] at h
  | cons x xs ih =>
    simp only [readBase128] at h
    split at h
    · cases h
    · split at h
      · cases h
      · split at h
        · split at h
          · cases h
          · cases h; exact ⟨[x], rfl, by simp⟩
        · obtain ⟨pre, hp, _⟩ := ih _ _ h
          exact ⟨x :: pre, by simp [hp], by simp⟩

theorem readLenLoop_consumes (k acc : Nat) (b : Bytes) (n : Nat) (rest : Bytes) (h : readLenLoop k acc b = some (n, rest)) :
    ∃ pre, b = pre ++ rest := by
  induction k generalizing acc b with
  | zero => simp only [readLenLoop, Option.some.injEq, Prod.mk.injEq] at h; exact ⟨[], by simp [h.2]⟩
  | succ k ih =>
    cases b with
    | nil => simp [readLenLoop] at h
    | cons x xs =>
      simp only [readLenLoop] at h
      split at h
      · cases h
      · split at h
        · cases h
        · obtain ⟨pre, hp⟩ := ih _ _ h
          exact ⟨x :: pre, by simp [hp]⟩

theorem readTag_consumes (b : Bytes) (cls : Nat) (cmp : Bool) (tag : Nat) (r : Bytes)
    (h : readTag b = some (cls, cmp, tag, r)) : ∃ pre, b = pre ++ r ∧ 1 ≤ pre.length := by
  cases b with
  | nil => simp [readTag] at h
  | cons t xs =>
    simp only [readTag] at h
    split at h
    · split at h
      · cases h
      · rename_i v r2 hb
        split at h
        · cases h
        · simp only [Option.some.injEq, Prod.mk.injEq] at h
          obtain ⟨pre, hp, _⟩ := readBase128_consumes _ _ _ _ _ hb
          exact ⟨t :: pre, by simp [hp, h.2.2.2], by simp⟩
    · simp only [Option.some.injEq, Prod.mk.injEq] at h
      exact ⟨[t], by simp [h.2.2.2], by simp⟩

theorem readLength_consumes (b : Bytes) (n : Nat) (r : Bytes) (h : readLength b = some (n, r)) :
    ∃ pre, b = pre ++ r ∧ 1 ≤ pre.length := by
  cases b with
  | nil => simp [readLength] at h
  | cons l xs =>
    simp only [readLength] at h
    split at h
    · simp only [Option.some.injEq, Prod.mk.injEq] at h
      exact ⟨[l], by simp [h.2], by simp⟩
    · split at h
      · cases h
      · split at h
        · cases h
        · rename_i n2 r2 hb
          split at h
          · cases h
          · simp only [Option.some.injEq, Prod.mk.injEq] at h
            obtain ⟨pre, hp⟩ := readLenLoop_consumes _ _ _ _ _ hb
            exact ⟨l :: pre, by simp [hp, h.2], by simp⟩

theorem readHeader_consumes (b : Bytes) (hd : Hdr) (r : Bytes) (h : readHeader b = some (hd, r)) :
    ∃ pre, b = pre ++ r ∧ 2 ≤ pre.length := by
  simp only [readHeader] at h
  split at h
  · cases h
  · rename_i cls cmp tag r1 ht
    split at h
    · cases h
    · rename_i n r2 hl
      simp only [Option.some.injEq, Prod.mk.injEq] at h
      obtain ⟨p1, e1, l1⟩ := readTag_consumes _ _ _ _ _ ht
      obtain ⟨p2, e2, l2⟩ := readLength_consumes _ _ _ hl
      refine ⟨p1 ++ p2, ?_, by simp; omega⟩
      rw [e1, e2, h.2]; simp

/-- an element read by `asn1.Unmarshal` into a RawValue is a header of at least two bytes, then `Bytes`, then the
    rest: `Bytes` is a slice of the input and the rest is shorter than the input -/
theorem readRaw_consumes (b : Bytes) (hd : Hdr) (c rest : Bytes) (h : readRaw b = some (hd, c, rest)) :
    ∃ pre, b = pre ++ c ++ rest ∧ 2 ≤ pre.length := by
  simp only [readRaw] at h
  split at h
  · cases h
  · rename_i hd2 r hh
    split at h
    · cases h
    · simp only [Option.some.injEq, Prod.mk.injEq] at h
      obtain ⟨pre, e, l⟩ := readHeader_consumes _ _ _ hh
      refine ⟨pre, ?_, l⟩
      rw [e, ← h.2.1, ← h.2.2, List.append_assoc, List.take_append_drop]

theorem elems_infix (f : Nat) (b : Bytes) (l : List (Hdr × Bytes)) (h : elems f b = some l) :
    ∀ e ∈ l, e.2 <:+: b := by
  induction f generalizing b l with
  | zero =>
    cases b with
    | nil => simp only [elems, Option.some.injEq] at h; subst h; intro e he; cases he
    | cons x xs => simp [elems] at h
  | succ f ih =>
    cases b with
    | nil => simp only [elems, Option.some.injEq] at h; subst h; intro e he; cases he
    | cons x xs =>
      simp only [elems] at h
      split at h
      · cases h
      · rename_i hd c rest hr
        split at h
        · cases h
        · rename_i l2 he2
          simp only [Option.some.injEq] at h
          subst h
          obtain ⟨pre, e, _⟩ := readRaw_consumes _ _ _ _ hr
          intro el hel
          rcases List.mem_cons.mp hel with h1 | h1
          · subst h1; exact ⟨pre, rest, e.symm⟩
          · have := ih rest l2 he2 el h1
            exact List.IsInfix.trans this ⟨pre ++ c, [], by rw [e]; simp⟩

theorem classify_from (l : List (Hdr × Bytes)) (r : List Name × List Name × List IP) (h : classify l = some r) :
    ∀ n, n ∈ r.1 ∨ n ∈ r.2.1 ∨ n ∈ r.2.2 → ∃ e ∈ l, e.2 = n := by
  induction l generalizing r with
  | nil => simp only [classify, Option.some.injEq] at h; subst h; simp
  | cons e rest ih =>
    obtain ⟨hd, c⟩ := e
    simp only [classify] at h
    split at h
    · cases h
    · split at h
      · cases h
      · rename_i d em i hc
        have ih2 := ih (d, em, i) hc
        intro n hn
        have key : n = c ∨ (n ∈ d ∨ n ∈ em ∨ n ∈ i) := by
          split at h
          · cases h; simp only [List.mem_cons] at hn; rcases hn with h1 | (h1 | h1) | h1 <;> simp [h1]
          · split at h
            · cases h; simp only [List.mem_cons] at hn; rcases hn with (h1 | h1) | h1 | h1 <;> simp [h1]
            · split at h
              · cases h; simp only [List.mem_cons] at hn; rcases hn with h1 | h1 | (h1 | h1) <;> simp [h1]
              · cases h; exact Or.inr hn
        rcases key with h1 | h1
        · exact ⟨(hd, c), by simp, h1.symm⟩
        · obtain ⟨e, he, hee⟩ := ih2 n h1
          exact ⟨e, by simp [he], hee⟩

/-- `decSAN_sound`: whatever byte string is parsed, every name or address `parseSANExtension` returns is a
    contiguous slice of the extension value (`v.Bytes` of one element): the parser never invents, joins, trims or
    re-encodes a name. -/
theorem decSAN_sound (v : Bytes) (r : List Name × List Name × List IP) (h : decSAN v = some r) :
    ∀ n, n ∈ r.1 ∨ n ∈ r.2.1 ∨ n ∈ r.2.2 → n <:+: v := by
  simp only [decSAN] at h
  split at h
  · cases h
  · rename_i hd c rest hr
    split at h
    · cases h
    · split at h
      · cases h
      · rw [sanLoop_eq_classify] at h
        split at h
        · cases h
        · rename_i l hl
          intro n hn
          obtain ⟨e, he, hee⟩ := classify_from l r h n hn
          have h1 := elems_infix _ _ _ hl e he
          obtain ⟨pre, ep, _⟩ := readRaw_consumes _ _ _ _ hr
          rw [← hee]
          exact List.IsInfix.trans h1 ⟨pre, rest, ep.symm⟩


theorem elems_nil (f : Nat) : elems f [] = some [] := by cases f <;> rfl

/-- the fuel of `elems` never runs out before the bytes do: every element consumes at least two bytes -/
theorem elems_fuel (f g : Nat) (b : Bytes) (hf : b.length ≤ f) (hg : b.length ≤ g) : elems f b = elems g b := by
  induction f generalizing g b with
  | zero =>
    cases b with
    | nil => rw [elems_nil, elems_nil]
    | cons x xs => simp at hf
  | succ f ih =>
    cases b with
    | nil => rw [elems_nil, elems_nil]
    | cons x xs =>
      cases g with
      | zero => simp at hg
      | succ g =>
        simp only [elems]
        cases hr : readRaw (x :: xs) with
        | none => rfl
        | some p =>
          obtain ⟨hd, c, rest⟩ := p
          obtain ⟨pre, e, l⟩ := readRaw_consumes _ _ _ _ hr
          have hl : rest.length + 2 ≤ (x :: xs).length := by rw [e]; simp; omega
          simp only
          rw [ih g rest (by omega) (by omega)]

/-- `decSAN_total` (1): the model's fuel is immaterial — `sanLoop` with any fuel ≥ the number of bytes computes
    the same result; "out of fuel" never stands in for a Go outcome.  The Go loop terminates for the same reason:
    every iteration consumes at least two bytes. -/
theorem sanLoop_fuel (f g : Nat) (b : Bytes) (hf : b.length ≤ f) (hg : b.length ≤ g) : sanLoop f b = sanLoop g b := by
  rw [sanLoop_eq_classify, sanLoop_eq_classify, elems_fuel f g b hf hg]

/-- `decSAN_total` (2): on EVERY byte string the parser either reports an error or returns three lists (the model
    is a total function; no input makes it diverge or get stuck), and an accepted value is a single SEQUENCE TLV
    spanning the whole value. -/
theorem decSAN_total (v : Bytes) :
    decSAN v = none ∨ ∃ r c pre, decSAN v = some r ∧ v = pre ++ c ∧ 2 ≤ pre.length ∧ sanLoop c.length c = some r := by
  cases h : decSAN v with
  | none => exact Or.inl rfl
  | some r =>
    right
    simp only [decSAN] at h
    split at h
    · cases h
    · rename_i hd c rest hr
      split at h
      · cases h
      · rename_i hrest
        split at h
        · cases h
        · obtain ⟨pre, e, l⟩ := readRaw_consumes _ _ _ _ hr
          have : rest = [] := Classical.not_not.mp hrest
          subst this
          exact ⟨r, c, pre, rfl, by simpa using e, l, h⟩

-- IP normal form ----------------------------------------------------------------------------------------------

/-- the IPv4-mapped IPv6 form `::ffff:a.b.c.d` is written (and therefore read back) as the four bytes -/
theorem sanIP_v4mapped (a b c d : Byte) :
    sanIP ([0, 0, 0, 0, 0, 0, 0, 0, 0, 0, 0xff, 0xff, a, b, c, d]) = [a, b, c, d] := by
  simp [sanIP, to4]

/-- … every other address is written as it is: `sanIP ip ≠ ip` only for 16-byte addresses with that prefix -/
theorem sanIP_changes_only_mapped (ip : IP) (h : sanIP ip ≠ ip) :
    ip.length = 16 ∧ ip.take 12 = [0, 0, 0, 0, 0, 0, 0, 0, 0, 0, 0xff, 0xff] ∧ sanIP ip = ip.drop 12 := by
  by_cases h4 : ip.length = 4
  · exfalso; apply h
    have e : to4 ip = some ip := by unfold to4; rw [if_pos h4]
    unfold sanIP; rw [e]
  · by_cases hm : ip.length = 16 ∧ ip.take 10 = List.replicate 10 0 ∧ ip.getD 10 0 = 0xff ∧ ip.getD 11 0 = 0xff
    · have e : to4 ip = some (ip.drop 12) := by unfold to4; rw [if_neg h4, if_pos hm]
      refine ⟨hm.1, ?_, by unfold sanIP; rw [e]⟩
      obtain ⟨h16, ht, ha, hb⟩ := hm
      match ip, h16 with
      | [x0, x1, x2, x3, x4, x5, x6, x7, x8, x9, x10, x11, _, _, _, _], _ =>
        simp only [List.take, List.replicate, List.cons.injEq, and_true] at ht
        simp only [List.getD_cons_succ, List.getD_cons_zero] at ha hb
        obtain ⟨e0, e1, e2, e3, e4, e5, e6, e7, e8, e9⟩ := ht
        simp [e0, e1, e2, e3, e4, e5, e6, e7, e8, e9, ha, hb]
    · exfalso; apply h
      have e : to4 ip = none := by unfold to4; rw [if_neg h4, if_neg hm]
      unfold sanIP; rw [e]

theorem sanIP_idem (ip : IP) : sanIP (sanIP ip) = sanIP ip := by
  by_cases h : sanIP ip = ip
  · rw [h, h]
  · obtain ⟨h16, _, hd⟩ := sanIP_changes_only_mapped ip h
    have h4 : (sanIP ip).length = 4 := by rw [hd, List.length_drop]; omega
    have e : to4 (sanIP ip) = some (sanIP ip) := by unfold to4; rw [if_pos h4]
    generalize sanIP ip = y at e ⊢
    unfold sanIP; rw [e]

/-- `encSAN_injective`: on well-formed templates different name lists give different extension values — up to
    the normal form of IP addresses, which is all the extension can carry. -/
theorem encSAN_injective (d1 e1 : List Name) (i1 : List IP) (d2 e2 : List Name) (i2 : List IP)
    (h1 : sanWf d1 e1 i1 = true) (h2 : sanWf d2 e2 i2 = true) (h : encSAN d1 e1 i1 = encSAN d2 e2 i2) :
    d1 = d2 ∧ e1 = e2 ∧ i1.map sanIP = i2.map sanIP := by
  have r1 := san_roundtrip d1 e1 i1 h1
  rw [h, san_roundtrip d2 e2 i2 h2] at r1
  simp only [Option.some.injEq, Prod.mk.injEq] at r1
  exact ⟨r1.1.symm, r1.2.1.symm, r1.2.2.symm⟩

/-- … and literally injective when the addresses are already in normal form (4-byte IPv4, 16-byte non-mapped) -/
theorem encSAN_injective_normal (d1 e1 : List Name) (i1 : List IP) (d2 e2 : List Name) (i2 : List IP)
    (h1 : sanWf d1 e1 i1 = true) (h2 : sanWf d2 e2 i2 = true)
    (n1 : ∀ ip ∈ i1, sanIP ip = ip) (n2 : ∀ ip ∈ i2, sanIP ip = ip) (h : encSAN d1 e1 i1 = encSAN d2 e2 i2) :
    d1 = d2 ∧ e1 = e2 ∧ i1 = i2 := by
  obtain ⟨hd, he, hi⟩ := encSAN_injective d1 e1 i1 d2 e2 i2 h1 h2 h
  refine ⟨hd, he, ?_⟩
  have m1 : i1.map sanIP = i1 := by
    conv => rhs; rw [← List.map_id i1]
    exact List.map_congr_left n1
  have m2 : i2.map sanIP = i2 := by
    conv => rhs; rw [← List.map_id i2]
    exact List.map_congr_left n2
  rw [m1, m2] at hi; exact hi

/-- the two spellings of one IPv4 address DO collide (so the template's `IPAddresses` is not recoverable
    literally): non-injectivity witness -/
example : encSAN [] [] [[1, 2, 3, 4]] = encSAN [] [] [[0, 0, 0, 0, 0, 0, 0, 0, 0, 0, 0xff, 0xff, 1, 2, 3, 4]] := by decide

-- §4 nameConstraints ------------------------------------------------------------------------------------------

/-- content of the `[0]` permittedSubtrees field -/
def ncBody (permitted : List Name) : Bytes := (permitted.map encSubtree).flatten

/-- well-formedness of `PermittedDNSDomains` for `buildExtensions`: IA5 (bytes below 0x80 — NUL and the empty
    string are accepted by the marshaller), and less than 2^31 bytes in all -/
def ncWf (permitted : List Name) : Bool :=
  permitted.all isIA5 && decide ((tlv 0xa0 (ncBody permitted)).length < 2 ^ 31)

def subtreeContent (n : Name) : Bytes := if n.isEmpty then [] else tlv 0x82 n

theorem ncBody_eq (permitted : List Name) : ncBody permitted = encItems (permitted.map (fun n => (0x30, subtreeContent n))) := by
  unfold ncBody encItems
  rw [List.map_map]
  rfl

theorem parseSubtree_content (n : Name) (hi : isIA5 n = true) (hl : n.length < 2 ^ 31) :
    parseSubtree (subtreeContent n) = some n := by
  unfold subtreeContent
  by_cases he : n.isEmpty = true
  · rw [if_pos he]
    have : n = [] := List.isEmpty_iff.mp he
    subst this; rfl
  · rw [if_neg he]
    have h := optField_tlv (isCtxPrim 2) 0x82 n [] (by decide) hl rfl
    rw [List.append_nil] at h
    unfold parseSubtree
    rw [h]
    simp [hi]

/-- `nameConstraints_roundtrip`: for every IA5 list of permitted DNS domains and either criticality, the value
    `buildExtensions` writes is parsed back by case 30 of `parseCertificate` as follows: the non-empty names, in
    order, as `PermittedDNSDomains` (with `PermittedDNSDomainsCritical` = the criticality) — EXCEPT that an empty
    name (written as a subtree without base) is dropped when the extension is not critical and makes the parse
    fail with `UnhandledCriticalExtension` when it is: a certificate the package created and cannot read. -/
theorem nameConstraints_roundtrip (permitted : List Name) (critical : Bool) (h : ncWf permitted = true) :
    ∃ v, encNameConstraints permitted = some v ∧
      decNameConstraints critical v =
        if critical && permitted.any (·.isEmpty) then .unhandledCritical
        else .ok (permitted.filter (fun n => !n.isEmpty)) := by
  simp only [ncWf, Bool.and_eq_true, decide_eq_true_eq] at h
  obtain ⟨hia, hlen⟩ := h
  refine ⟨tlv 0x30 (tlv 0xa0 (ncBody permitted)), by simp [encNameConstraints, hia, ncBody], ?_⟩
  have hbody : (ncBody permitted).length < 2 ^ 31 := by have := tlv_length 0xa0 (ncBody permitted); omega
  have hitems : ∀ p ∈ permitted.map (fun n => ((0x30 : Byte), subtreeContent n)), lowShort p := by
    intro p hp
    have hl := encItems_mem_length _ p hp
    rw [← ncBody_eq] at hl
    obtain ⟨n, _, rfl⟩ := List.mem_map.mp hp
    simp only at hl
    exact ⟨by show (0x30 : Byte).toNat % 32 ≠ 31; decide, by show (subtreeContent n).length < 2 ^ 31; omega⟩
  have hname : ∀ n ∈ permitted, n.length < 2 ^ 31 := by
    intro n hn
    have hl := encItems_mem_length _ ((0x30 : Byte), subtreeContent n)
      (List.mem_map_of_mem (f := fun n => ((0x30 : Byte), subtreeContent n)) hn)
    rw [← ncBody_eq] at hl
    simp only [subtreeContent] at hl
    split at hl
    · rename_i he; have : n = [] := List.isEmpty_iff.mp he
      subst this; simp
    · have := tlv_length 0x82 n; omega
  have h1 := topLevel_tlv isSeq 0x30 (tlv 0xa0 (ncBody permitted)) (by decide) hlen rfl
  have h2 := optField_tlv (isCtxCons 0) 0xa0 (ncBody permitted) [] (by decide) hbody rfl
  rw [List.append_nil] at h2
  have h3 : seqOf isSeq (ncBody permitted) = some (permitted.map subtreeContent) := by
    rw [ncBody_eq, seqOf_items isSeq _ hitems (by intro p hp; obtain ⟨n, _, rfl⟩ := List.mem_map.mp hp; show isSeq (hdrOf 0x30 _) = true; rfl)]
    simp [List.map_map, Function.comp_def]
  have h4 : allSome ((permitted.map subtreeContent).map parseSubtree) = some permitted := by
    rw [List.map_map]
    have := allSome_map_some (parseSubtree ∘ subtreeContent) id permitted (by
      intro n hn
      exact parseSubtree_content n (List.all_eq_true.mp hia n hn) (hname n hn))
    simpa using this
  simp only [decNameConstraints, h1, optSubtrees, h2, h3, h4, optField_nil]
  simp


/-- with no empty name in the list: the very list, in order -/
theorem nameConstraints_roundtrip_nonempty (permitted : List Name) (critical : Bool) (h : ncWf permitted = true)
    (hne : ∀ n ∈ permitted, n ≠ []) :
    ∃ v, encNameConstraints permitted = some v ∧ decNameConstraints critical v = .ok permitted := by
  obtain ⟨v, hv, hd⟩ := nameConstraints_roundtrip permitted critical h
  refine ⟨v, hv, ?_⟩
  have hany : permitted.any (·.isEmpty) = false := by
    rw [List.any_eq_false]
    intro n hn; simp [hne n hn]
  have hfil : permitted.filter (fun n => !n.isEmpty) = permitted := by
    rw [List.filter_eq_self]
    intro n hn; simp [hne n hn]
  rw [hd, hany, hfil]; simp

/-- a non-IA5 name is refused at creation ("IA5String contains invalid character") -/
theorem nameConstraints_non_ia5_refused (permitted : List Name) (h : permitted.all isIA5 = false) :
    encNameConstraints permitted = none := by
  simp [encNameConstraints, h]

-- §5 OID lists, extKeyUsage --------------------------------------------------------------------------------------

/-- content octets of a well-formed OID (total: `[]` outside `makeObjectIdentifier`'s domain) -/
def oidContent (o : OID) : Bytes := (encOID o).getD []

/-- content of the SEQUENCE OF OBJECT IDENTIFIER -/
def oidBody (oids : List OID) : Bytes := encItems (oids.map (fun o => (0x06, oidContent o)))

/-- OID lists that survive: every OID well formed (`wfOID`), less than 2^31 bytes in all -/
def oidsWf (oids : List OID) : Bool := oids.all wfOID && decide ((oidBody oids).length < 2 ^ 31)

theorem encOID_wf (o : OID) (h : wfOID o = true) : encOID o = some (oidContent o) ∧ decOID (oidContent o) = some o := by
  obtain ⟨c, h1, h2⟩ := oid_roundtrip o h
  simp [oidContent, h1, h2]

theorem encOIDList_wf (oids : List OID) (h : oids.all wfOID = true) :
    encOIDList oids = some (tlv 0x30 (oidBody oids)) := by
  unfold encOIDList
  rw [allSome_map_some encOID oidContent oids (fun o ho => (encOID_wf o (List.all_eq_true.mp h o ho)).1)]
  simp [oidBody, encItems, List.map_map, Function.comp_def]

theorem oidBody_items (oids : List OID) (hb : (oidBody oids).length < 2 ^ 31) :
    ∀ p ∈ oids.map (fun o => ((0x06 : Byte), oidContent o)), lowShort p := by
  intro p hp
  have hl := encItems_mem_length _ p hp
  obtain ⟨o, _, rfl⟩ := List.mem_map.mp hp
  simp only at hl
  exact ⟨by show (0x06 : Byte).toNat % 32 ≠ 31; decide, by show (oidContent o).length < 2 ^ 31; unfold oidBody at hb; omega⟩

/-- `oidlist_roundtrip`: `asn1.Unmarshal` into `[]asn1.ObjectIdentifier` inverts `asn1.Marshal` on every list
    of well-formed OIDs -/
theorem oidlist_roundtrip (oids : List OID) (h : oidsWf oids = true) :
    ∃ v, encOIDList oids = some v ∧ decOIDList v = some oids := by
  simp only [oidsWf, Bool.and_eq_true, decide_eq_true_eq] at h
  obtain ⟨hw, hb⟩ := h
  refine ⟨_, encOIDList_wf oids hw, ?_⟩
  have h1 := topLevel_tlv isSeq 0x30 (oidBody oids) (by decide) hb rfl
  have h3 : seqOf isOIDHdr (oidBody oids) = some (oids.map oidContent) := by
    unfold oidBody
    rw [seqOf_items isOIDHdr _ (oidBody_items oids hb)
      (by intro p hp; obtain ⟨o, _, rfl⟩ := List.mem_map.mp hp; show isOIDHdr (hdrOf 0x06 _) = true; rfl)]
    simp [List.map_map, Function.comp_def]
  have h4 : allSome ((oids.map oidContent).map decOID) = some oids := by
    rw [List.map_map]
    have := allSome_map_some (decOID ∘ oidContent) id oids (fun o ho => (encOID_wf o (List.all_eq_true.mp hw o ho)).2)
    simpa using this
  simp only [decOIDList, h1, h3, h4]

theorem filterMap_some_self {α : Type} (l : List α) (f : α → Option α) (h : ∀ i ∈ l, f i = some i) : l.filterMap f = l := by
  induction l with
  | nil => rfl
  | cons a t ih => simp [h a (by simp), ih (fun i hi => h i (by simp [hi]))]

theorem ekuTable_wf : ekuTable.all wfOID = true := by decide

theorem ekuFromOID_table : ∀ i, i < 12 → ekuFromOID (ekuTable.getD i []) = some i := by decide

theorem oidFromEKU_lt (i : Nat) (h : i < 12) : oidFromEKU i = some (ekuTable.getD i []) := by
  unfold oidFromEKU
  have hl : ekuTable.length = 12 := rfl
  rw [List.getD_eq_getElem?_getD, List.getElem?_eq_getElem (by omega)]
  rfl

/-- `eku_roundtrip`: for every list of defined `ExtKeyUsage` constants (0 … 11; any other value makes
    `buildExtensions` return an error - a panic before the round-12 repair 54b86c2) and every list of well-formed `UnknownExtKeyUsage` OIDs: what comes back is
    the known usages in order FOLLOWED BY those "unknown" OIDs that are in fact in the table (they change
    lists), and as `UnknownExtKeyUsage` the remaining OIDs in order.  Relative order inside each list is
    preserved; the interleaving between the two lists does not exist on the template side either. -/
theorem eku_roundtrip (known : List Nat) (unknown : List OID) (hk : known.all (· < 12) = true)
    (h : oidsWf (known.map (ekuTable.getD · []) ++ unknown) = true) :
    ∃ v, encEKU known unknown = some v ∧
      decEKU v = some (known ++ unknown.filterMap ekuFromOID, unknown.filter (fun o => (ekuFromOID o).isNone)) := by
  obtain ⟨v, hv, hd⟩ := oidlist_roundtrip _ h
  have hks : allSome (known.map oidFromEKU) = some (known.map (ekuTable.getD · [])) :=
    allSome_map_some oidFromEKU (ekuTable.getD · []) known (fun i hi => oidFromEKU_lt i (by
      have := List.all_eq_true.mp hk i hi; simpa using this))
  refine ⟨v, by simp only [encEKU, hks, hv], ?_⟩
  simp only [decEKU, hd, Option.map_some, splitEKU, List.filterMap_append, List.filter_append]
  have e1 : (known.map (ekuTable.getD · [])).filterMap ekuFromOID = known := by
    rw [List.filterMap_map]
    have : ∀ i ∈ known, (ekuFromOID ∘ (ekuTable.getD · [])) i = some i := fun i hi =>
      ekuFromOID_table i (by have := List.all_eq_true.mp hk i hi; simpa using this)
    exact filterMap_some_self known _ this
  have e2 : (known.map (ekuTable.getD · [])).filter (fun o => (ekuFromOID o).isNone) = [] := by
    rw [List.filter_eq_nil_iff]
    intro o ho
    obtain ⟨i, hi, rfl⟩ := List.mem_map.mp ho
    rw [ekuFromOID_table i (by have := List.all_eq_true.mp hk i hi; simpa using this)]
    simp
  rw [e1, e2]; simp

/-- when no "unknown" OID is a table entry, both template lists come back exactly -/
theorem eku_roundtrip_disjoint (known : List Nat) (unknown : List OID) (hk : known.all (· < 12) = true)
    (h : oidsWf (known.map (ekuTable.getD · []) ++ unknown) = true) (hu : ∀ o ∈ unknown, ekuFromOID o = none) :
    ∃ v, encEKU known unknown = some v ∧ decEKU v = some (known, unknown) := by
  obtain ⟨v, hv, hd⟩ := eku_roundtrip known unknown hk h
  refine ⟨v, hv, ?_⟩
  have e1 : unknown.filterMap ekuFromOID = [] := by
    rw [List.filterMap_eq_nil_iff]; exact hu
  have e2 : unknown.filter (fun o => (ekuFromOID o).isNone) = unknown := by
    rw [List.filter_eq_self]; intro o ho; simp [hu o ho]
  rw [hd, e1, e2]; simp

/-- an arc above MaxInt32 in an OID is written and cannot be read back: `encOID` succeeds, `decOID` fails -/
theorem oid_large_arc_unreadable (a b : Nat) (pre post : List Nat) (n : Nat) (hab : wfOID (a :: b :: pre) = true)
    (hn : maxInt32 < n) (hn2 : n < 2 ^ 63) :
    ∃ c, encOID (a :: b :: (pre ++ n :: post)) = some c ∧ decOID c = none := by
  simp only [wfOID, Bool.and_eq_true, Bool.or_eq_true, decide_eq_true_eq, List.all_eq_true] at hab
  obtain ⟨⟨⟨ha, hb⟩, hv⟩, hr⟩ := hab
  refine ⟨encBase128 (40 * a + b) ++ ((pre ++ n :: post).map encBase128).flatten, ?_, ?_⟩
  · simp only [encOID, encFirstSubid]
    rw [if_neg (by omega), if_pos (by unfold maxInt32 at hv; omega)]
  · have hne : encBase128 (40 * a + b) ++ ((pre ++ n :: post).map encBase128).flatten ≠ [] := by
      simp [encBase128_ne_nil]
    have hsub : decSubids 0 0 (((pre ++ n :: post).map encBase128).flatten) = none := by
      simp only [List.map_append, List.flatten_append, List.map_cons, List.flatten_cons]
      clear hne
      induction pre with
      | nil => simp only [List.map_nil, List.flatten_nil, List.nil_append]; exact oid_subid_too_large n hn (by omega) _
      | cons x xs ih =>
        simp only [List.map_cons, List.flatten_cons, List.append_assoc]
        rw [oid_subid_roundtrip x (hr x (by simp)), ih (fun y hy => hr y (by simp [hy]))]
    unfold decOID
    split
    · contradiction
    · rw [oid_subid_roundtrip _ hv, hsub]


-- §6 key identifiers ------------------------------------------------------------------------------------------------

/-- `ski_roundtrip`: the OCTET STRING written for `SubjectKeyId` is read back as the same bytes (any bytes) -/
theorem ski_roundtrip (id : Bytes) (h : id.length < 2 ^ 31) : decSKI (encSKI id) = some id :=
  topLevel_tlv isOctets 0x04 id (by decide) h rfl

/-- `aki_roundtrip`: SEQUENCE { [0] id } is read back as `id` -/
theorem aki_roundtrip (id : Bytes) (h : (tlv 0x80 id).length < 2 ^ 31) : decAKI (encAKI id) = some id := by
  have hl : id.length < 2 ^ 31 := by have := tlv_length 0x80 id; omega
  have h1 := topLevel_tlv isSeq 0x30 (tlv 0x80 id) (by decide) h rfl
  have h2 := optField_tlv (isCtxPrim 0) 0x80 id [] (by decide) hl rfl
  rw [List.append_nil] at h2
  simp only [decAKI, encAKI, h1, h2]

/-- which id `CreateCertificate` writes: the parent's SubjectKeyId when the parent has one and another name,
    else the template's AuthorityKeyId — and nothing when that is empty -/
theorem aki_written (sameName : Bool) (parentSKI templateAKI : Bytes) :
    akiEmitted { aki := effectiveAKI sameName parentSKI templateAKI } =
      if !sameName && !parentSKI.isEmpty then true else !templateAKI.isEmpty := by
  unfold effectiveAKI akiEmitted
  split <;> simp_all

-- §7 certificatePolicies, cRLDistributionPoints ----------------------------------------------------------------------

def policyBody (oids : List OID) : Bytes := encItems (oids.map (fun o => (0x30, tlv 0x06 (oidContent o))))

def policiesWf (oids : List OID) : Bool := oids.all wfOID && decide ((policyBody oids).length < 2 ^ 31)

theorem parsePolicy_tlv (c : Bytes) (h : c.length < 2 ^ 31) : parsePolicy (tlv 0x06 c) = decOID c := by
  have h1 := readHeader_tlv 0x06 c [] (by decide) h
  rw [List.append_nil, List.append_nil] at h1
  have e : isOIDHdr (hdrOf 0x06 c.length) = true := rfl
  unfold parsePolicy
  rw [h1]
  simp
  intro hc
  exact absurd (e.symm.trans hc) (by decide)

/-- `policies_roundtrip`: `PolicyIdentifiers` come back exactly, for every list of well-formed OIDs -/
theorem policies_roundtrip (oids : List OID) (h : policiesWf oids = true) :
    ∃ v, encPolicies oids = some v ∧ decPolicies v = some oids := by
  simp only [policiesWf, Bool.and_eq_true, decide_eq_true_eq] at h
  obtain ⟨hw, hb⟩ := h
  have henc : encPolicies oids = some (tlv 0x30 (policyBody oids)) := by
    unfold encPolicies
    rw [allSome_map_some encOID oidContent oids (fun o ho => (encOID_wf o (List.all_eq_true.mp hw o ho)).1)]
    simp [policyBody, encItems, List.map_map, Function.comp_def]
  refine ⟨_, henc, ?_⟩
  have hitems : ∀ p ∈ oids.map (fun o => ((0x30 : Byte), tlv 0x06 (oidContent o))), lowShort p := by
    intro p hp
    have hl := encItems_mem_length _ p hp
    obtain ⟨o, _, rfl⟩ := List.mem_map.mp hp
    simp only at hl
    exact ⟨by show (0x30 : Byte).toNat % 32 ≠ 31; decide, by show (tlv 0x06 (oidContent o)).length < 2 ^ 31; unfold policyBody at hb; omega⟩
  have h1 := topLevel_tlv isSeq 0x30 (policyBody oids) (by decide) hb rfl
  have h3 : seqOf isSeq (policyBody oids) = some (oids.map (fun o => tlv 0x06 (oidContent o))) := by
    unfold policyBody
    rw [seqOf_items isSeq _ hitems
      (by intro p hp; obtain ⟨o, _, rfl⟩ := List.mem_map.mp hp; show isSeq (hdrOf 0x30 _) = true; rfl)]
    simp [List.map_map, Function.comp_def]
  have h4 : allSome ((oids.map (fun o => tlv 0x06 (oidContent o))).map parsePolicy) = some oids := by
    rw [List.map_map]
    have := allSome_map_some (parsePolicy ∘ (fun o => tlv 0x06 (oidContent o))) id oids (fun o ho => by
      have hl := (hitems _ (List.mem_map_of_mem (f := fun o => ((0x30 : Byte), tlv 0x06 (oidContent o))) ho)).2
      have : (oidContent o).length < 2 ^ 31 := by
        have := tlv_length 0x06 (oidContent o)
        simp only at hl; omega
      show parsePolicy (tlv 0x06 (oidContent o)) = some o
      rw [parsePolicy_tlv _ this]
      exact (encOID_wf o (List.all_eq_true.mp hw o ho)).2)
    simpa using this
  simp only [decPolicies, h1, h3, h4]

def dpContent (u : Name) : Bytes := tlv 0xa0 (tlv 0xa0 (tlv 0x86 u))

def crlBody (uris : List Name) : Bytes := encItems (uris.map (fun u => (0x30, dpContent u)))

theorem parseDP_content (u : Name) (h : (dpContent u).length < 2 ^ 31) : parseDP (dpContent u) = some (some u) := by
  unfold dpContent at h ⊢
  have l1 := tlv_length 0xa0 (tlv 0xa0 (tlv 0x86 u))
  have l2 := tlv_length 0xa0 (tlv 0x86 u)
  have l3 := tlv_length 0x86 u
  have h1 := optField_tlv (isCtxCons 0) 0xa0 (tlv 0xa0 (tlv 0x86 u)) [] (by decide) (by omega) rfl
  have h2 := optField_tlv (isCtx 0) 0xa0 (tlv 0x86 u) [] (by decide) (by omega) rfl
  have h3 := tlv_roundtrip 0x86 u [] (by decide) (by omega)
  rw [List.append_nil] at h1 h2 h3
  have hx : tlv 0x86 u = 0x86 :: (Spec.DER.encLen u.length ++ u) := rfl
  have hfull : fullNameURI (tlv 0x86 u) = some (some u) := by
    unfold fullNameURI
    rw [hx]
    simp only
    rw [← hx, h3]
    rfl
  unfold parseDP
  rw [h1]
  simp only
  unfold parseDPName
  rw [h2]
  simp only [hfull, optField_nil]
  rfl

/-- `crldp_roundtrip`: `CRLDistributionPoints` (any byte strings, incl. the empty one) come back exactly, in order -/
theorem crldp_roundtrip (uris : List Name) (h : (crlBody uris).length < 2 ^ 31) : decCRLDP (encCRLDP uris) = some uris := by
  have henc : encCRLDP uris = tlv 0x30 (crlBody uris) := by
    simp [encCRLDP, crlBody, encItems, List.map_map, Function.comp_def, dpContent]
  have hitems : ∀ p ∈ uris.map (fun u => ((0x30 : Byte), dpContent u)), lowShort p := by
    intro p hp
    have hl := encItems_mem_length _ p hp
    obtain ⟨u, _, rfl⟩ := List.mem_map.mp hp
    simp only at hl
    exact ⟨by show (0x30 : Byte).toNat % 32 ≠ 31; decide, by show (dpContent u).length < 2 ^ 31; unfold crlBody at h; omega⟩
  have h1 := topLevel_tlv isSeq 0x30 (crlBody uris) (by decide) h rfl
  have h3 : seqOf isSeq (crlBody uris) = some (uris.map dpContent) := by
    unfold crlBody
    rw [seqOf_items isSeq _ hitems
      (by intro p hp; obtain ⟨o, _, rfl⟩ := List.mem_map.mp hp; show isSeq (hdrOf 0x30 _) = true; rfl)]
    simp [List.map_map, Function.comp_def]
  have h4 : allSome ((uris.map dpContent).map parseDP) = some (uris.map some) := by
    rw [List.map_map]
    exact allSome_map_some (parseDP ∘ dpContent) some uris (fun u hu =>
      parseDP_content u (hitems _ (List.mem_map_of_mem (f := fun u => ((0x30 : Byte), dpContent u)) hu)).2)
  simp only [decCRLDP, henc, h1, h3, h4, Option.map_some]
  congr 1
  induction uris with
  | nil => rfl
  | cons u t ih => simp

/-- the loop of `parseObjectIdentifier` as the model writes it (one state machine over the bytes) IS repeated
    `parseBase128Int`: one integer from the front, then the loop again on what is left -/
theorem decSubids_eq_readBase128 (bs : Bytes) (s r : Nat) (h : bs ≠ [] ∨ s ≠ 0) :
    decSubids s r bs =
      match readBase128 s r bs with
      | none => none
      | some (v, rest) => match decSubids 0 0 rest with | none => none | some l => some (v :: l) := by
  induction bs generalizing s r with
  | nil =>
    cases s with
    | zero => simp at h
    | succ s => simp [decSubids, readBase128]
  | cons b bs ih =>
    rw [decSubids_cons]
    simp only [readBase128]
    by_cases h5 : s = 5
    · simp [h5]
    · rw [if_neg h5, if_neg h5]
      by_cases h0 : s = 0 ∧ b.toNat = 128
      · rw [if_pos h0, if_pos h0]
      · rw [if_neg h0, if_neg h0]
        by_cases hb : b.toNat < 128
        · rw [if_pos hb, if_pos hb]
          by_cases hm : r * 128 + b.toNat % 128 > maxInt32
          · rw [if_pos hm, if_pos hm]
          · rw [if_neg hm, if_neg hm]
            cases hd : decSubids 0 0 bs <;> simp [hd]
        · rw [if_neg hb, if_neg hb]
          exact ih (s + 1) _ (Or.inr (by omega))

-- what the parsers ignore -------------------------------------------------------------------------------------------

theorem optField_other (expected : Hdr → Bool) (t : Byte) (c rest : Bytes) (ht : t.toNat % 32 ≠ 31) (hc : c.length < 2 ^ 31)
    (he : expected (hdrOf t c.length) = false) : optField expected (tlv t c ++ rest) = some (none, tlv t c ++ rest) := by
  have h := readHeader_tlv t c rest ht hc
  rw [tlv_cons] at h ⊢
  simp [optField, h, he]

/-- `nc_minimum_maximum_ignored`: whatever follows the dNSName base inside a GeneralSubtree — `minimum [0]`
    (also ≠ 0), `maximum [1]`, or bytes that are no TLV at all — is not looked at: the subtree is accepted as if it
    were the bare name, in critical extensions too.  (RFC 5280 4.2.1.10: minimum MUST be 0, maximum MUST be absent;
    this parser neither rejects nor flags them.) -/
theorem nc_minimum_maximum_ignored (n tail : Bytes) (hi : isIA5 n = true) (hl : n.length < 2 ^ 31) :
    parseSubtree (tlv 0x82 n ++ tail) = some n := by
  unfold parseSubtree
  rw [optField_tlv (isCtxPrim 2) 0x82 n tail (by decide) hl rfl]
  simp [hi]

/-- `nc_other_form_empty`: a base of any other form (rfc822Name [1], iPAddress [7], directoryName [4], a
    constructed [2], …) leaves `Name` empty: the subtree is then skipped in a non-critical extension and makes
    the parse fail with `UnhandledCriticalExtension` in a critical one (see `decNameConstraints`). -/
theorem nc_other_form_empty (t : Byte) (c tail : Bytes) (ht : t.toNat % 32 ≠ 31) (hc : c.length < 2 ^ 31)
    (h2 : isCtxPrim 2 (hdrOf t c.length) = false) : parseSubtree (tlv t c ++ tail) = some [] := by
  unfold parseSubtree
  rw [optField_other (isCtxPrim 2) t c tail ht hc h2]

-- §8 when extensions are written ----------------------------------------------------------------------------------

/-- the SAN extension is never marked critical by this `buildExtensions`, not even for an empty subject -/
theorem san_never_critical (subjectEmpty : Bool) : sanCritical subjectEmpty = false := rfl

theorem san_emitted_iff (t : Template) : sanEmitted t = true ↔ t.dns ≠ [] ∨ t.emails ≠ [] ∨ t.ips ≠ [] := by
  unfold sanEmitted
  cases t.dns <;> cases t.emails <;> cases t.ips <;> simp

theorem ite_singleton_sublist {α : Type} (b : Bool) (x : α) : List.Sublist (if b = true then [x] else []) [x] := by
  cases b <;> simp

/-- `extension_order`: whatever the template, the extensions are written in the fixed order keyUsage,
    extKeyUsage, basicConstraints, subjectKeyId, authorityKeyId, authorityInfoAccess, subjectAltName,
    certificatePolicies, nameConstraints, cRLDistributionPoints, each at most once -/
theorem extension_order (t : Template) (se : Bool) :
    List.Sublist ((extensionList t se).map (·.1)) [15, 37, 19, 14, 35, 1, 17, 32, 30, 31] := by
  unfold extensionList
  simp only [List.map_append, apply_ite (List.map (fun (e : Nat × Bool) => e.1)), List.map_cons, List.map_nil]
  have e : [15, 37, 19, 14, 35, 1, 17, 32, 30, 31] = [15] ++ [37] ++ [19] ++ [14] ++ [35] ++ [1] ++ [17] ++ [32] ++ [30] ++ [31] := rfl
  rw [e]
  repeat' apply List.Sublist.append
  all_goals exact ite_singleton_sublist _ _

/-- only keyUsage, basicConstraints and (on request) nameConstraints are ever critical -/
theorem critical_only (t : Template) (se : Bool) (e : Nat × Bool) (h : e ∈ extensionList t se) (hc : e.2 = true) :
    e.1 = 15 ∨ e.1 = 19 ∨ (e.1 = 30 ∧ t.permittedCritical = true) := by
  unfold extensionList at h
  simp only [List.mem_append] at h
  rcases h with ((((((((h | h) | h) | h) | h) | h) | h) | h) | h) | h <;>
    (split at h <;> simp only [List.mem_singleton, List.not_mem_nil] at h) <;>
    (try (subst h; simp_all [sanCritical, ncCritical]))

-- Non-vacuity (tests) -----------------------------------------------------------------------------------------------------

/-- length octets: short form up to 127, `81 80` for 128, `82 01 00` for 256, `84 7f ff ff ff` at the limit -/
example : Spec.DER.encLen 127 = [0x7f] ∧ Spec.DER.encLen 128 = [0x81, 0x80] ∧ Spec.DER.encLen 255 = [0x81, 0xff] ∧
    Spec.DER.encLen 256 = [0x82, 0x01, 0x00] ∧ Spec.DER.encLen 65536 = [0x83, 0x01, 0x00, 0x00] ∧
    Spec.DER.encLen (2 ^ 31 - 1) = [0x84, 0x7f, 0xff, 0xff, 0xff] := by decide +kernel
/-- non-minimal, indefinite and over-long lengths are refused -/
example : readLength [0x81, 0x7f] = none ∧ readLength [0x80] = none ∧ readLength [0x82, 0x00, 0x80] = none ∧
    readLength [0x84, 0x80, 0x00, 0x00, 0x00] = none ∧ readLength [0x85, 0x01, 0, 0, 0, 0] = none ∧
    readLength [0x84, 0x7f, 0xff, 0xff, 0xff, 0xaa] = some (2 ^ 31 - 1, [0xaa]) := by decide +kernel
/-- subidentifiers: 127 | 128 | 2^31-1 | 2^31 (refused when read) -/
example : encBase128 127 = [0x7f] ∧ encBase128 128 = [0x81, 0x00] ∧ encBase128 2147483647 = [0x87, 0xff, 0xff, 0xff, 0x7f] ∧
    encBase128 2147483648 = [0x88, 0x80, 0x80, 0x80, 0x00] ∧ decSubids 0 0 [0x88, 0x80, 0x80, 0x80, 0x00] = none ∧
    decSubids 0 0 [0x80, 0x01] = none ∧ decSubids 0 0 [0x81] = none := by decide +kernel
/-- the first-octet corners -/
example : encOID [2, 39] = some [0x77] ∧ encOID [2, 40] = some [0x78] ∧ encOID [2, 999] = some [0x88, 0x37] ∧
    encOID [1, 39] = some [0x4f] ∧ encOID [1, 40] = none ∧ encOID [3, 0] = none ∧ encOID [2] = none ∧
    decOID [0x77] = some [2, 39] ∧ decOID [0x78] = some [2, 40] ∧ decOID [0x88, 0x37] = some [2, 999] ∧
    decOID [0x4f] = some [1, 39] ∧ decOID [0x50] = some [2, 0] ∧ decOID [] = none := by decide +kernel
/-- 40·2 + b overflowing the Go int: nothing is written for the first subidentifier -/
example : encOID [2, 2 ^ 63 - 1, 5] = some [0x05] ∧ encOID [2, 2 ^ 63 - 81, 5] = some ([0xff, 0xff, 0xff, 0xff, 0xff, 0xff, 0xff, 0xff, 0x7f] ++ [0x05]) := by
  decide +kernel

example : encSAN [[0x61, 0x2e, 0x62]] [[0x78, 0x40, 0x79]] [[10, 0, 0, 1], [0, 0, 0, 0, 0, 0, 0, 0, 0, 0, 0xff, 0xff, 10, 0, 0, 2]] =
    [0x30, 0x16, 0x82, 0x03, 0x61, 0x2e, 0x62, 0x81, 0x03, 0x78, 0x40, 0x79, 0x87, 0x04, 10, 0, 0, 1, 0x87, 0x04, 10, 0, 0, 2] ∧
    decSAN [0x30, 0x16, 0x82, 0x03, 0x61, 0x2e, 0x62, 0x81, 0x03, 0x78, 0x40, 0x79, 0x87, 0x04, 10, 0, 0, 1, 0x87, 0x04, 10, 0, 0, 2] =
      some ([[0x61, 0x2e, 0x62]], [[0x78, 0x40, 0x79]], [[10, 0, 0, 1], [10, 0, 0, 2]]) := by decide +kernel
/-- a name of 200 bytes: long-form lengths on the element and on the SEQUENCE; the hypothesis of `san_roundtrip` holds -/
example : sanWf [List.replicate 200 0x61] [] [] = true ∧
    (encSAN [List.replicate 200 0x61] [] []).take 6 = [0x30, 0x81, 0xcb, 0x82, 0x81, 0xc8] ∧
    decSAN (encSAN [List.replicate 200 0x61] [] []) = some ([List.replicate 200 0x61], [], []) := by decide +kernel
/-- an IP address of 5 bytes is written but refused when read; the empty SEQUENCE parses to nothing (and is then
    "unhandled" if critical); trailing bytes are refused; the tag CLASS is not looked at: a universal INTEGER
    counts as a dNSName, an application-class [1] as an e-mail address -/
example : decSAN (encSAN [] [] [[1, 2, 3, 4, 5]]) = none ∧ sanWf [] [] [[1, 2, 3, 4, 5]] = false ∧
    decSAN [0x30, 0x00] = some ([], [], []) ∧ sanUnhandled true ([], [], []) = true ∧
    decSAN [0x30, 0x00, 0x00] = none ∧ decSAN [0x31, 0x00] = none ∧ decSAN [] = none := by decide +kernel
example :
    decSAN [0x30, 0x03, 0x02, 0x01, 0x05] = some ([[(0x05 : Byte)]], [], []) ∧
    decSAN [0x30, 0x03, 0x41, 0x01, 0x78] = some ([], [[(0x78 : Byte)]], []) ∧
    decSAN [0x30, 0x03, 0x86, 0x01, 0x78] = some ([], [], []) :=
  ⟨by decide +kernel, by decide +kernel, by decide +kernel⟩

/-- nameConstraints: "a" and ""; the empty name is lost (non-critical) or fatal (critical) -/
example : encNameConstraints [[0x61], []] = some [0x30, 0x09, 0xa0, 0x07, 0x30, 0x03, 0x82, 0x01, 0x61, 0x30, 0x00] ∧
    decNameConstraints false [0x30, 0x09, 0xa0, 0x07, 0x30, 0x03, 0x82, 0x01, 0x61, 0x30, 0x00] = .ok [[0x61]] ∧
    decNameConstraints true [0x30, 0x09, 0xa0, 0x07, 0x30, 0x03, 0x82, 0x01, 0x61, 0x30, 0x00] = .unhandledCritical ∧
    encNameConstraints [[0xe9]] = none := by decide +kernel
/-- excluded subtrees: fatal when critical, silently IGNORED when not; minimum 5 / maximum 7 accepted;
    rfc822Name base skipped / fatal -/
example :
    decNameConstraints true [0x30, 0x07, 0xa1, 0x05, 0x30, 0x03, 0x82, 0x01, 0x78] = .unhandledCritical ∧
    decNameConstraints false [0x30, 0x07, 0xa1, 0x05, 0x30, 0x03, 0x82, 0x01, 0x78] = .ok [] ∧
    decNameConstraints true [0x30, 0x0d, 0xa0, 0x0b, 0x30, 0x09, 0x82, 0x01, 0x61, 0x80, 0x01, 0x05, 0x81, 0x01, 0x07] = .ok [[0x61]] ∧
    decNameConstraints false [0x30, 0x07, 0xa0, 0x05, 0x30, 0x03, 0x81, 0x01, 0x78] = .ok [] ∧
    decNameConstraints true [0x30, 0x07, 0xa0, 0x05, 0x30, 0x03, 0x81, 0x01, 0x78] = .unhandledCritical ∧
    decNameConstraints false [0x30, 0x07, 0xa0, 0x05, 0x30, 0x03, 0x82, 0x01, 0xe9] = .err := by decide +kernel

/-- extKeyUsage: serverAuth + an unknown OID; a known OID listed as "unknown" changes lists; an arc of 2^31 is
    written and not read back -/
example : encEKU [1] [[1, 2, 3]] = some [0x30, 0x0e, 0x06, 0x08, 0x2b, 6, 1, 5, 5, 7, 3, 1, 0x06, 0x02, 0x2a, 0x03] ∧
    decEKU [0x30, 0x0e, 0x06, 0x08, 0x2b, 6, 1, 5, 5, 7, 3, 1, 0x06, 0x02, 0x2a, 0x03] = some ([1], [[1, 2, 3]]) ∧
    (encEKU [] [[1, 2, 3], [2, 5, 29, 37, 0]]).bind decEKU = some ([0], [[1, 2, 3]]) ∧
    (encEKU [] [[1, 2, 2147483648]]).bind decEKU = none ∧ (encEKU [] [[1, 2, 2147483648]]).isSome = true ∧
    encEKU [12] [] = none := by decide +kernel

example : encSKI [1, 2] = [0x04, 0x02, 1, 2] ∧ decSKI [0x04, 0x02, 1, 2] = some [1, 2] ∧ decSKI [0x04, 0x02, 1, 2, 0] = none ∧
    encAKI [1, 2] = [0x30, 0x04, 0x80, 0x02, 1, 2] ∧ decAKI [0x30, 0x04, 0x80, 0x02, 1, 2] = some [1, 2] ∧
    decAKI [0x30, 0x03, 0x81, 0x7f, 0x00] = some [] ∧ decAKI [0x30, 0x03, 0x80, 0x7f, 0x00] = none := by decide +kernel

example : encPolicies [[2, 5, 29, 32, 0]] = some [0x30, 0x08, 0x30, 0x06, 0x06, 0x04, 0x55, 0x1d, 0x20, 0x00] ∧
    decPolicies [0x30, 0x08, 0x30, 0x06, 0x06, 0x04, 0x55, 0x1d, 0x20, 0x00] = some [[2, 5, 29, 32, 0]] ∧
    encCRLDP [[0x75]] = [0x30, 0x09, 0x30, 0x07, 0xa0, 0x05, 0xa0, 0x03, 0x86, 0x01, 0x75] ∧
    decCRLDP [0x30, 0x09, 0x30, 0x07, 0xa0, 0x05, 0xa0, 0x03, 0x86, 0x01, 0x75] = some [[0x75]] := by decide +kernel

example : extensionList { dns := [[0x61]], permitted := [[0x62]], permittedCritical := true, keyUsage := true } true =
    [(15, true), (17, false), (30, true)] := by decide

end Props.C09Names
