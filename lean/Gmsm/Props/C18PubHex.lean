/-
C18 / C14 (hexadecimal public keys) — "every function that decodes externally supplied bytes … returns a value or
an error": the value `x509.ReadPublicKeyFromHex` returns is a public key, i.e. a point of the SM2 curve with
reduced coordinates - what every consumer of an `*sm2.PublicKey` in the library (elliptic.Marshal in
MarshalSm2PublicKey / WritePublicKeyToPem / CreateCertificate) takes for granted and panics without.  Before the
repair any 64 bytes were accepted (`readPublicKeyOld`, witness below).  Tie: op `pubhexdec` (harness/c18pubhex.go,
Driver/PubHex.lean) on every single-byte substitution and truncation of valid keys.
-/
import Gmsm.Model.PubHex
import Gmsm.Props.C03Mult
namespace Props.C18PubHex
open Gmsm Model.PubHex
open Spec.SM2 (p onCurve)

/-- whatever the decoder accepts is a point of the curve with coordinates below p, read from the two 32-byte
    halves of the (prefix-stripped) input -/
theorem readPublicKey_sound (q : Bytes) (x y : Nat) (h : readPublicKey q = some (x, y)) :
    (stripPrefix q).length = 64 ∧ x = os2ip ((stripPrefix q).take 32) ∧ y = os2ip ((stripPrefix q).drop 32) ∧
      x < p ∧ y < p ∧ onCurve x y = true := by
  unfold readPublicKey at h
  simp only at h
  split at h
  · exact absurd h (by simp)
  · rename_i hl
    split at h
    · rename_i hc
      simp only [Option.some.injEq, Prod.mk.injEq] at h
      obtain ⟨hx, hy⟩ := h
      have := (Props.C03Mult.isOnCurve_iff _ _).mp hc
      subst hx; subst hy
      exact ⟨by simpa using hl, rfl, rfl, this.1, this.2.1, this.2.2⟩
    · exact absurd h (by simp)

/-- the repair only removes inputs: what is accepted now was accepted before, with the same coordinates -/
theorem readPublicKey_le_old (q : Bytes) (k : Nat × Nat) (h : readPublicKey q = some k) :
    readPublicKeyOld q = some k := by
  unfold readPublicKey at h
  unfold readPublicKeyOld
  simp only at h ⊢
  split at h
  · exact absurd h (by simp)
  · rename_i hl
    rw [if_neg hl]
    split at h
    · exact h
    · exact absurd h (by simp)

/-- nothing else is refused: a 64-byte string whose halves are the coordinates of a curve point is accepted -/
theorem readPublicKey_complete (q : Bytes) (hl : q.length = 64)
    (hc : Model.SM2Curve.isOnCurve (os2ip (q.take 32)) (os2ip (q.drop 32)) = true) :
    readPublicKey q = some (os2ip (q.take 32), os2ip (q.drop 32)) := by
  have hs : stripPrefix q = q := by
    unfold stripPrefix; rw [if_neg]; intro h; omega
  unfold readPublicKey
  simp only [hs, hl, ne_eq, not_true_eq_false, if_false, hc, if_true]

/-- witness (test): the unrepaired decoder accepted the all-zero string - (0, 0) is not a point - -/
theorem old_accepts_non_point :
    readPublicKeyOld (List.replicate 64 (0 : Byte)) = some (0, 0) ∧ onCurve 0 0 = false ∧
      readPublicKey (List.replicate 64 (0 : Byte)) = none := by
  refine ⟨by decide, by decide, by decide⟩

end Props.C18PubHex
