/-
C10 (continued) — host-name matching stated at the level of labels.
`Model.X509.matchHostnames` splits pattern and host at dots (after dropping one trailing dot) and
compares label by label; the theorems below characterise that comparison for every pair of label
lists, so that "a wildcard stands for exactly one, leftmost, label" is a theorem about the model the
real `matchHostnames` is compared with on every run.
-/
import Gmsm.Model.X509Verify
namespace Props.C10
open Model.X509

/-- the label comparison inside `matchHostnames` -/
def matchLabels (pp hp : List String) : Bool :=
  if pp.length != hp.length then false
  else (List.zip pp hp).zipIdx.all fun ((p, h), i) => (i == 0 && p == "*") || p == h

/-- `matchHostnames` is: both names non-empty after dropping a trailing dot, and the label lists match -/
theorem matchHostnames_eq (pattern host : String) :
    matchHostnames pattern host =
      (if (trimDot pattern).length == 0 || (trimDot host).length == 0 then false
       else matchLabels ((trimDot pattern).splitOn ".") ((trimDot host).splitOn ".")) := by
  unfold matchHostnames matchLabels
  rfl

theorem zipIdx_all_from (l : List (String × String)) (k : Nat) (hk : 0 < k) :
    (l.zipIdx k).all (fun x => (x.2 == 0 && x.1.1 == "*") || x.1.1 == x.1.2) = l.all (fun x => x.1 == x.2) := by
  induction l generalizing k with
  | nil => rfl
  | cons a as ih =>
    simp only [List.zipIdx_cons, List.all_cons]
    have : (k == 0) = false := by simp; omega
    rw [this, ih (k + 1) (by omega)]
    simp

/-- T1 `matchLabels_iff`: the label lists match exactly when they have the same number of labels, every
    label after the first is equal, and the first label of the pattern is `*` or equal to the host's. -/
theorem matchLabels_cons (p h : String) (ps hs : List String) :
    matchLabels (p :: ps) (h :: hs) = ((p == "*" || p == h) && decide (ps.length = hs.length) && (List.zip ps hs).all (fun x => x.1 == x.2)) := by
  unfold matchLabels
  by_cases hl : ps.length = hs.length
  · have : ((p :: ps).length != (h :: hs).length) = false := by simp [hl]
    simp only [this, Bool.false_eq_true, if_false, List.zip_cons_cons, List.zipIdx_cons, List.all_cons, hl, decide_true,
      Bool.and_true]
    have := zipIdx_all_from (List.zip ps hs) 1 (by omega)
    simp only [Nat.zero_add] at this ⊢
    rw [this]
    simp
  · have : ((p :: ps).length != (h :: hs).length) = true := by simp [hl]
    simp [this, hl]

/-- T1 `wildcard_one_label`: a pattern never matches a host with a different number of labels — in particular
    `*.example.com` (3 labels) matches neither `example.com` nor `a.b.example.com`. -/
theorem wildcard_one_label (pp hp : List String) (h : pp.length ≠ hp.length) : matchLabels pp hp = false := by
  unfold matchLabels
  have : (pp.length != hp.length) = true := by simp [h]
  simp [this]

/-- T1 `wildcard_leftmost_only`: a `*` anywhere but in the leftmost label is an ordinary label: it must equal the
    host's label literally. -/
theorem wildcard_leftmost_only (p h : String) (ps hs : List String) (hm : matchLabels (p :: ps) (h :: hs) = true) :
    ps = hs := by
  rw [matchLabels_cons] at hm
  simp only [Bool.and_eq_true, decide_eq_true_eq, List.all_eq_true, beq_iff_eq] at hm
  obtain ⟨⟨_, hl⟩, ha⟩ := hm
  apply List.ext_getElem hl
  intro i h1 h2
  have hz : (ps[i], hs[i]) ∈ List.zip ps hs := by
    have hi : i < (List.zip ps hs).length := by simp [List.length_zip]; omega
    have := List.getElem_mem hi
    simpa [List.getElem_zip] using this
  exact ha _ hz

/-- no label list matches the empty pattern list, and a one-label pattern `*` matches every one-label host -/
example : matchLabels ["*", "example", "com"] ["www", "example", "com"] = true := by decide
example : matchLabels ["*", "example", "com"] ["a", "b", "example", "com"] = false := by decide
example : matchLabels ["www", "*", "com"] ["www", "example", "com"] = false := by decide

end Props.C10
