/-
C09, revocation lists: the issuer name of a CRL that the package creates is the subject of the issuing
certificate, whatever attributes, order and grouping that subject has (`Model.CRLIssuer`).
-/
import Gmsm.Model.CRLIssuer
namespace Props.C09CRLIssuer
open Gmsm.Model.CRLIssuer

/-- THE REPAIRED BEHAVIOUR.  For EVERY RDN sequence `r` (any attribute types, any order, any grouping into
multi-valued RDNs, any string types): a CRL created (`CreateRevocationList` or `CreateCRL`) with a PARSED
certificate whose subject is `r` as issuer names exactly `r` - its issuer bytes are the certificate's RawSubject.
False for the code before the repair (`old_rule_drops_extra_attributes` …). -/
theorem crlIssuer_parsed (r : RDNSeq) : crlIssuer (parseCert r) = r := rfl

/-- More generally: whenever RawSubject is non-empty it alone decides the name; the decoded `Subject` field (which a
caller may have changed after parsing) is not consulted. -/
theorem crlIssuer_rawSubject (r : RDNSeq) (n : Name) : crlIssuer ⟨some r, n⟩ = r := rfl

/-- An issuer object that was not parsed (a template with Subject set, RawSubject empty) gives
`Subject.ToRDNSequence()`, as before the repair. -/
theorem crlIssuer_template (n : Name) : crlIssuer (template n) = toRDNSequence n := rfl

/-- The repair changes nothing for unparsed issuer templates. -/
theorem crlIssuer_template_unchanged (n : Name) : crlIssuer (template n) = crlIssuerOld (template n) := rfl

/-- A CRL and a certificate issued by the same certificate object carry the same issuer name (RFC 5280 6.3.3 needs
the two to match). -/
theorem crlIssuer_eq_certIssuer (c : Cert) : crlIssuer c = certIssuer c := rfl

/-- What parsing keeps: `ExtraNames` stays empty … -/
theorem fillATV_extraNames (n : Name) (a : ATV) : (fillATV n a).extraNames = n.extraNames := by
  unfold fillATV
  split <;> rfl

theorem fillRDN_extraNames (rdn : RDN) : ∀ n : Name, (fillRDN n rdn).extraNames = n.extraNames := by
  unfold fillRDN
  induction rdn with
  | nil => intro n; rfl
  | cons a rest ih => intro n; rw [List.foldl_cons, ih, fillATV_extraNames]

theorem foldl_fillRDN_extraNames (r : RDNSeq) :
    ∀ n : Name, (r.foldl fillRDN n).extraNames = n.extraNames := by
  induction r with
  | nil => intro n; rfl
  | cons a rest ih => intro n; rw [List.foldl_cons, ih, fillRDN_extraNames]

theorem fill_extraNames (r : RDNSeq) : (fill r).extraNames = [] := foldl_fillRDN_extraNames r {}

/-- … and `Names` holds every attribute, in order, with the grouping flattened. -/
theorem fillATV_names (n : Name) (a : ATV) : (fillATV n a).names = n.names ++ [a] := by
  unfold fillATV
  split <;> rfl

theorem fillRDN_names (rdn : RDN) : ∀ n : Name, (fillRDN n rdn).names = n.names ++ rdn := by
  unfold fillRDN
  induction rdn with
  | nil => intro n; simp
  | cons a rest ih => intro n; rw [List.foldl_cons, ih, fillATV_names]; simp

theorem foldl_fillRDN_names (r : RDNSeq) :
    ∀ n : Name, (r.foldl fillRDN n).names = n.names ++ r.flatten := by
  induction r with
  | nil => intro n; simp
  | cons a rest ih => intro n; rw [List.foldl_cons, ih, fillRDN_names]; simp

theorem fill_names (r : RDNSeq) : (fill r).names = r.flatten := by
  have h := foldl_fillRDN_names r {}
  simpa [fill] using h

/-- The attributes of the repaired CRL issuer are exactly `issuer.Subject.Names` of the parsed issuer (all of them,
in order) - the field the old rule ignored. -/
theorem crlIssuer_parsed_attributes (r : RDNSeq) :
    (crlIssuer (parseCert r)).flatten = (parseCert r).subject.names := by
  rw [crlIssuer_parsed]; exact (fill_names r).symm

/-- membership in what `appendRDNs` adds -/
theorem mem_appendRDNs {n : Name} {acc : RDNSeq} {values : List String} {oid : OID} {a : ATV}
    (h : a ∈ (appendRDNs n acc values oid).flatten) : a ∈ acc.flatten ∨ (a.1 = oid ∧ a.2.tag = 0) := by
  unfold appendRDNs at h
  split at h
  · exact Or.inl h
  · rw [List.flatten_append, List.mem_append] at h
    rcases h with h | h
    · exact Or.inl h
    · right
      simp only [List.flatten_cons, List.flatten_nil, List.append_nil, List.mem_map] at h
      obtain ⟨v, _, rfl⟩ := h
      exact ⟨rfl, rfl⟩

/-- a name that only has attributes of the nine fixed types, all typed as Go strings -/
def OnlyFixed (s : RDNSeq) : Prop := ∀ b : ATV, b ∈ s.flatten → b.1 ∈ fixedOIDs ∧ b.2.tag = 0

theorem onlyFixed_nil : OnlyFixed [] := by
  intro b hb; simp at hb

theorem onlyFixed_appendRDNs {n : Name} {acc : RDNSeq} {values : List String} {oid : OID}
    (ho : oid ∈ fixedOIDs) (hacc : OnlyFixed acc) : OnlyFixed (appendRDNs n acc values oid) := by
  intro b hb
  rcases mem_appendRDNs hb with hb | ⟨h1, h2⟩
  · exact hacc b hb
  · exact ⟨h1 ▸ ho, h2⟩

/-- `ToRDNSequence` of a Name without ExtraNames only has the fixed attribute types. -/
theorem onlyFixed_toRDNSequence (n : Name) (h : n.extraNames = []) : OnlyFixed (toRDNSequence n) := by
  unfold toRDNSequence
  simp only [h, List.map_nil, List.append_nil]
  split <;> split <;>
    repeat (first | exact onlyFixed_nil | refine onlyFixed_appendRDNs (by decide) ?_)

/-- THE OLD RULE, in general: whatever the subject of the parsed issuer was, the name the unrepaired creators wrote
contains only attributes of the nine fixed types, all re-typed as Go strings - every other attribute of the
issuer's subject (emailAddress, DC, UID, givenName, …) is lost. -/
theorem old_rule_only_fixed (r : RDNSeq) (a : ATV) (h : a ∈ (crlIssuerOld (parseCert r)).flatten) :
    a.1 ∈ fixedOIDs ∧ a.2.tag = 0 :=
  onlyFixed_toRDNSequence (fill r) (fill_extraNames r) a h

/-- Hence: a parsed issuer whose subject has an attribute outside the nine fixed types, or a string type other than
the marshaller's default, was NEVER named correctly by the unrepaired creators. -/
theorem old_rule_wrong_of_extra_attribute (r : RDNSeq) (a : ATV) (ha : a ∈ r.flatten)
    (hx : a.1 ∉ fixedOIDs ∨ a.2.tag ≠ 0) : crlIssuerOld (parseCert r) ≠ r := by
  intro heq
  have ha2 : a ∈ (crlIssuerOld (parseCert r)).flatten := by rw [heq]; exact ha
  have := old_rule_only_fixed r a ha2
  rcases hx with hx | hx
  · exact hx this.1
  · exact hx this.2

/-! ### Witnesses (the names of the finding) -/

def oidEmail : OID := [1, 2, 840, 113549, 1, 9, 1]
def oidDC : OID := [0, 9, 2342, 19200300, 100, 1, 25]

/-- CN=ca, emailAddress=ca@example.com, DC=example -/
def caExtra : RDNSeq :=
  [[(oidCommonName, ⟨0, "ca"⟩)], [(oidEmail, ⟨0, "ca@example.com"⟩)], [(oidDC, ⟨0, "example"⟩)]]

/-- CN=ca, O=org (in this order) -/
def caOrder : RDNSeq := [[(oidCommonName, ⟨0, "ca"⟩)], [(oidOrganization, ⟨0, "org"⟩)]]

/-- one RDN {CN=ca, OU=unit}, then O=org -/
def caMulti : RDNSeq :=
  [[(oidCommonName, ⟨0, "ca"⟩), (oidOrganizationalUnit, ⟨0, "unit"⟩)], [(oidOrganization, ⟨0, "org"⟩)]]

/-- WITNESS: the old rule dropped the attributes outside the fixed set: the CRL of the CA
`CN=ca, emailAddress=ca@example.com, DC=example` named the issuer `CN=ca`. -/
theorem old_rule_drops_extra_attributes :
    crlIssuerOld (parseCert caExtra) = [[(oidCommonName, ⟨0, "ca"⟩)]] ∧ crlIssuerOld (parseCert caExtra) ≠ caExtra := by
  decide

/-- WITNESS: the old rule rewrote the order of the RDNs (`CN=ca, O=org` became `O=org, CN=ca`). -/
theorem old_rule_reorders :
    crlIssuerOld (parseCert caOrder) = [[(oidOrganization, ⟨0, "org"⟩)], [(oidCommonName, ⟨0, "ca"⟩)]] ∧
      crlIssuerOld (parseCert caOrder) ≠ caOrder := by
  decide

/-- WITNESS: the old rule split a multi-valued RDN (and moved its parts). -/
theorem old_rule_regroups :
    crlIssuerOld (parseCert caMulti) =
        [[(oidOrganization, ⟨0, "org"⟩)], [(oidOrganizationalUnit, ⟨0, "unit"⟩)], [(oidCommonName, ⟨0, "ca"⟩)]] ∧
      crlIssuerOld (parseCert caMulti) ≠ caMulti := by
  decide

/-- The old rule and the repaired one disagree: the repair is not a no-op. -/
theorem old_rule_differs : ∃ r : RDNSeq, crlIssuerOld (parseCert r) ≠ crlIssuer (parseCert r) :=
  ⟨caExtra, old_rule_drops_extra_attributes.2⟩

/-! ### Non-vacuity -/

example : crlIssuer (parseCert caExtra) = caExtra := crlIssuer_parsed _
example : crlIssuer (parseCert caMulti) = caMulti := crlIssuer_parsed _
example : (fill caExtra).names.length = 3 ∧ (fill caExtra).commonName = "ca" ∧ (fill caExtra).extraNames = [] := by decide
-- the empty subject of a parsed certificate stays empty; RawSubject decides even against a non-empty Subject
example : crlIssuer (parseCert []) = [] := rfl
example : crlIssuer ⟨some caOrder, { commonName := "ignored" }⟩ = caOrder := rfl
-- an unparsed template: fixed order, ExtraNames behind, an ExtraNames entry overrides the field of its type
example : crlIssuer (template { commonName := "ca", organization := ["o1", "o2"], country := ["CN"] }) =
    [[(oidCountry, ⟨0, "CN"⟩)], [(oidOrganization, ⟨0, "o1"⟩), (oidOrganization, ⟨0, "o2"⟩)], [(oidCommonName, ⟨0, "ca"⟩)]] := by
  decide
example : crlIssuer (template { commonName := "ca", extraNames := [(oidCommonName, ⟨0, "x"⟩), (oidEmail, ⟨22, "a@b"⟩)] }) =
    [[(oidCommonName, ⟨0, "x"⟩)], [(oidEmail, ⟨22, "a@b"⟩)]] := by
  decide
-- the hypothesis of `old_rule_wrong_of_extra_attribute` is satisfiable
example : crlIssuerOld (parseCert caExtra) ≠ caExtra :=
  old_rule_wrong_of_extra_attribute caExtra (oidEmail, ⟨0, "ca@example.com"⟩) (by decide) (Or.inl (by decide))

end Props.C09CRLIssuer
