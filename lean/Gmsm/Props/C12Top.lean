/-
C12 (byte level, top) — the top-level glue of sm4/sm4_gcm.go (as repaired: 427ae00, 6ea9e71, 400770d),
transcribed in `Model.GCMTop` as the code computes it, is GCM of SP 800-38D (`Spec.GCM`) over the same
block cipher:

* `getY0_eq` — `GetY0` is `J0` (12-byte IVs and every other length, the empty IV included);
* `ctrLoops_eq` — the counter-mode loops over the `incr` blocks (buffer writes, `n, u` bookkeeping, partial
  last block) are `GCTR_K(inc32(J0), ·)`;
* `gcmEncryptGo_eq_ae` — `GCMEncrypt` = GCM-AE_K, for all `IV`, `P`, `A`, no length bound;
* `gcmDecryptGo_eq`, `gcmDecryptGo_eq_ad` — `GCMDecrypt` returns the GCTR decryption and the recomputed tag;
  GCM-AD_K is "compare that tag, then release that plaintext" (the comparison is left to the caller of
  `Sm4GCM`, which has none);
* `gcm_go_roundtrip`, `sm4GCMGo_roundtrip` — from `Props.C12.dec_enc`.

The model is compared with the real Go code on every run (ops `gcmencb`, `gcmdecb`).  Core Lean only.
-/
import Gmsm.Model.GCMTop
import Gmsm.Props.C12Bytes
import Gmsm.Props.C12
namespace Props.C12Top
open Gmsm Spec.GCM Model.GCMBytes Model.GCMTop Proofs.GCM Proofs.Modes Props.C12Bytes

-- xor on byte strings -------------------------------------------------------------------------------------

theorem addition_eq_xorBytes (a b : Bytes) (h : a.length = b.length) : addition a b = xorBytes a b := by
  unfold addition
  simp only [h, ne_eq, not_true_eq_false, if_false]
  induction a generalizing b with
  | nil => cases b <;> simp [xorBytes]
  | cons x xs ih =>
    cases b with
    | nil => simp at h
    | cons y ys =>
      simp only [List.zipWith_cons_cons, xorBytes]
      rw [ih ys (by simpa using h)]

theorem xorBytes_comm (a b : Bytes) : xorBytes a b = xorBytes b a := by
  induction a generalizing b with
  | nil => cases b <;> simp [xorBytes]
  | cons x xs ih =>
    cases b with
    | nil => simp [xorBytes]
    | cons y ys => simp only [xorBytes]; rw [ih ys, BitVec.xor_comm]

theorem xorBytes_take_right (a b : Bytes) : xorBytes a (b.take a.length) = xorBytes a b := by
  induction a generalizing b with
  | nil => cases b <;> simp [xorBytes]
  | cons x xs ih =>
    cases b with
    | nil => simp [xorBytes]
    | cons y ys => simp only [List.length_cons, List.take_succ_cons, xorBytes]; rw [ih ys]

-- the specification's GCTR, unfolded from the left ----------------------------------------------------------

theorem gctr_fuel (E : Bytes → Bytes) (n : Nat) : ∀ (m : Nat) (cb : B128) (x : Bytes),
    x.length < 16 * n → x.length < 16 * m → gctr E n cb x = gctr E m cb x := by
  induction n with
  | zero => intro m cb x h; omega
  | succ n ih =>
    intro m cb x hn hm
    cases m with
    | zero => omega
    | succ m =>
      unfold gctr
      by_cases he : x.isEmpty = true
      · simp [he]
      · simp only [he, Bool.false_eq_true, if_false]
        congr 1
        by_cases h16 : 16 ≤ x.length
        · exact ih m _ _ (by rw [List.length_drop]; omega) (by rw [List.length_drop]; omega)
        · rw [List.drop_of_length_le (by omega), gctr_nil, gctr_nil]

theorem gctrAll_nil (E : Bytes → Bytes) (cb : B128) : gctrAll E cb [] = [] := by
  unfold gctrAll; exact gctr_nil E _ cb

theorem gctrAll_short (E : Bytes → Bytes) (cb : B128) (x : Bytes) (h0 : 0 < x.length) (h16 : x.length ≤ 16) :
    gctrAll E cb x = xorBytes x (E (toBytes cb)) := by
  have hne : x.isEmpty = false := by cases x <;> simp_all
  unfold gctrAll
  rw [gctr]
  simp only [hne, Bool.false_eq_true, if_false]
  rw [List.take_of_length_le h16, List.drop_of_length_le h16, gctr_nil, List.append_nil]

theorem gctrAll_long (E : Bytes → Bytes) (cb : B128) (x : Bytes) (h16 : 16 < x.length) :
    gctrAll E cb x = xorBytes (x.take 16) (E (toBytes cb)) ++ gctrAll E (inc32 cb) (x.drop 16) := by
  have hne : x.isEmpty = false := by cases x <;> simp_all
  unfold gctrAll
  rw [gctr]
  simp only [hne, Bool.false_eq_true, if_false]
  congr 1
  exact gctr_fuel E _ _ _ _ (by rw [List.length_drop]; omega) (by rw [List.length_drop]; omega)

theorem iterInc_succ (n : Nat) (x : B128) : iterInc (n + 1) x = inc32 (iterInc n x) := by
  induction n generalizing x with
  | zero => rfl
  | succ n ih => show iterInc (n + 1) (inc32 x) = _; rw [ih]; rfl


-- the counter blocks ---------------------------------------------------------------------------------------

/-- counter block `i` of `incr(N, Y0)`, as the bytes handed to the cipher -/
theorem incr_slice (N : Nat) (y0 : Bytes) (hy : y0.length = 16) (i : Nat) (hi : i < N) :
    slice (incr N y0) (i * blockSize) (i * blockSize + blockSize) = toBytes (iterInc i (ofBytes y0)) := by
  have hl : (slice (incr N y0) (i * blockSize) (i * blockSize + blockSize)).length = 16 :=
    slice_length _ i (by rw [incr_length N y0 hy]; omega)
  rw [← incr_block N y0 hy i hi, toBytes_ofBytes _ hl]

theorem copyInto_block (pre blk : Bytes) (z : Nat) (hb : blk.length = 16) :
    copyInto (pre ++ List.replicate z 0) pre.length (pre.length + 16) blk =
      (pre ++ blk) ++ List.replicate (z - 16) 0 := by
  unfold copyInto
  have e1 : min (pre.length + 16 - pre.length) blk.length = 16 := by omega
  simp only [e1]
  rw [List.take_left, ← hb, List.take_length, hb, ← List.drop_drop, List.drop_left, List.drop_replicate]

/-- the full-block loop of the counter mode: after `k` more blocks the buffer holds `k` more blocks of the
    specification's GCTR output, the rest is still zero -/
theorem loop_ctr (E : Bytes → Bytes) (hE : ∀ x, (E x).length = 16) (y0 x : Bytes) (hy : y0.length = 16)
    (N k : Nat) : ∀ (i0 : Nat) (pre : Bytes), pre.length = i0 * 16 → (i0 + k) * 16 < x.length → i0 + k < N →
    ∃ pre2 : Bytes,
      (List.range' (i0 + 1) k).foldl (ctrStep E (incr N y0) x) (pre ++ List.replicate (x.length - i0 * 16) 0) =
        pre2 ++ List.replicate (x.length - (i0 + k) * 16) 0 ∧
      pre2.length = (i0 + k) * 16 ∧
      pre ++ gctrAll E (iterInc (i0 + 1) (ofBytes y0)) (x.drop (i0 * 16)) =
        pre2 ++ gctrAll E (iterInc (i0 + k + 1) (ofBytes y0)) (x.drop ((i0 + k) * 16)) := by
  induction k with
  | zero => intro i0 pre hp _ _; exact ⟨pre, rfl, hp, rfl⟩
  | succ k ih =>
    intro i0 pre hp hlen hN
    rw [List.range'_succ, List.foldl_cons]
    -- the block written by this iteration
    have hxs : (slice x (i0 * blockSize) (i0 * blockSize + blockSize)).length = 16 :=
      slice_length x i0 (by omega)
    have hstep : ctrStep E (incr N y0) x (pre ++ List.replicate (x.length - i0 * 16) 0) (i0 + 1) =
        (pre ++ xorBytes ((x.drop (i0 * 16)).take 16) (E (toBytes (iterInc (i0 + 1) (ofBytes y0))))) ++
          List.replicate (x.length - (i0 + 1) * 16) 0 := by
      unfold ctrStep
      dsimp only
      rw [incr_slice N y0 hy (i0 + 1) (by omega), Nat.add_sub_cancel,
        addition_eq_xorBytes _ _ (by rw [hxs, hE]), slice_eq]
      have hb : (xorBytes ((x.drop (i0 * 16)).take 16) (E (toBytes (iterInc (i0 + 1) (ofBytes y0))))).length = 16 := by
        rw [xorBytes_length, hE, ← slice_eq, hxs]; rfl
      have e : i0 * blockSize = pre.length := by rw [hp]; rfl
      rw [e]
      show copyInto _ pre.length (pre.length + 16) _ = _
      rw [copyInto_block _ _ _ hb]
      congr 2; omega
    rw [hstep]
    obtain ⟨pre2, h1, h2, h3⟩ := ih (i0 + 1)
      (pre ++ xorBytes ((x.drop (i0 * 16)).take 16) (E (toBytes (iterInc (i0 + 1) (ofBytes y0))))) (by
      rw [List.length_append, xorBytes_length, hE, hp, List.length_take, List.length_drop]; omega)
      (by omega) (by omega)
    refine ⟨pre2, ?_, ?_, ?_⟩
    · rw [h1]; congr 2; omega
    · rw [h2]; omega
    · have e1 : i0 + 1 + k + 1 = i0 + (k + 1) + 1 := by omega
      have e2 : (i0 + 1 + k) * 16 = (i0 + (k + 1)) * 16 := by omega
      rw [e1, e2] at h3
      rw [← h3, gctrAll_long E _ _ (by rw [List.length_drop]; omega), List.append_assoc, List.drop_drop,
        ← iterInc_succ]
      have e3 : i0 * 16 + 16 = (i0 + 1) * 16 := by omega
      rw [e3]


/-- the counter-mode loops of `GCMEncrypt` / `GCMDecrypt` are GCTR started at `inc32(Y0)` -/
theorem ctrLoops_eq (E : Bytes → Bytes) (hE : ∀ x, (E x).length = 16) (y0 x : Bytes) (hy : y0.length = 16) :
    ctrLoops E y0 x = gctrAll E (inc32 (ofBytes y0)) x := by
  unfold ctrLoops
  dsimp only
  by_cases h0 : x.length = 0
  · have : x = [] := List.eq_nil_of_length_eq_zero h0
    subst this
    simp only [List.length_nil, calculm_v_zero, Nat.sub_self, List.range'_zero, List.foldl_nil, gctrAll_nil]
    simp [copyInto, addition, msb]
  · obtain ⟨hn, hu⟩ := calculm_v_spec x.length (by omega)
    rw [hn, hu]
    generalize hk : (x.length - 1) / 16 = k
    have hkl : k * 16 < x.length := by omega
    have hkr : x.length - k * 16 ≤ 16 := by omega
    obtain ⟨pre2, h1, h2, h3⟩ := loop_ctr E hE y0 x hy (k + 1 + 1) k 0 [] rfl (by omega) (by omega)
    simp only [Nat.zero_mul, Nat.zero_add, Nat.sub_zero, List.nil_append, List.drop_zero] at h1 h2 h3
    have e0 : k + 1 - 1 = k := by omega
    rw [e0, h1]
    have h3' : gctrAll E (inc32 (ofBytes y0)) x =
        pre2 ++ gctrAll E (iterInc (k + 1) (ofBytes y0)) (x.drop (k * 16)) := h3
    have hdl : (x.drop (k * 16)).length = x.length - k * 16 := List.length_drop
    rw [h3', gctrAll_short E _ _ (by omega) (by omega), incr_slice _ y0 hy (k + 1) (by omega)]
    -- the last (possibly partial) block
    have hm : msb (8 * (x.length - k * 16)) (E (toBytes (iterInc (k + 1) (ofBytes y0)))) =
        (E (toBytes (iterInc (k + 1) (ofBytes y0)))).take (x.drop (k * 16)).length := by
      unfold msb; rw [hdl]; congr 1; omega
    have hlast : addition (x.drop (k * blockSize))
          (msb (8 * (x.length - k * 16)) (E (toBytes (iterInc (k + 1) (ofBytes y0))))) =
        xorBytes (x.drop (k * 16)) (E (toBytes (iterInc (k + 1) (ofBytes y0)))) := by
      show addition (x.drop (k * 16)) _ = _
      rw [hm, addition_eq_xorBytes _ _ (by rw [List.length_take, hE, hdl]; omega), xorBytes_take_right]
    rw [hlast]
    have hxl : (xorBytes (x.drop (k * 16)) (E (toBytes (iterInc (k + 1) (ofBytes y0))))).length =
        x.length - k * 16 := by rw [xorBytes_length, hE, hdl]; omega
    unfold copyInto
    have e1 : k * blockSize = pre2.length := by rw [h2]; rfl
    rw [e1, List.take_left, hxl]
    have e2 : min (x.length - pre2.length) (x.length - k * 16) = x.length - k * 16 := by omega
    simp only [e2]
    rw [← hxl, List.take_length, hxl, ← List.drop_drop, List.drop_left, List.drop_replicate, Nat.sub_self]
    simp


-- J0, the tag, the top level ---------------------------------------------------------------------------------

/-- `GetY0` is the pre-counter block `J0` of SP 800-38D 7.1 step 2, for every IV length -/
theorem getY0_eq (h iv : Bytes) (hh : h.length = 16) :
    ofBytes (getY0 h iv) = j0 (ofBytes h) iv ∧ (getY0 h iv).length = 16 := by
  unfold getY0 j0
  by_cases h12 : iv.length = 12
  · have e : iv.length * 8 = 96 := by omega
    rw [if_pos e, if_pos h12]
    exact ⟨rfl, by rw [List.length_append, h12]; rfl⟩
  · have e : ¬ iv.length * 8 = 96 := by omega
    rw [if_neg e, if_neg h12]
    refine ⟨?_, ghashGo_length h [] iv hh⟩
    rw [ghashGo_eq_ghash h [] iv hh]
    unfold ghash
    rw [padBlocks_nil]
    rfl

/-- the tag computation `MSB(128, addition(E(Y0), GHASH(H, A, C)))` -/
theorem tag_eq (E : Bytes → Bytes) (hE : ∀ x, (E x).length = 16) (h y0 a c : Bytes) (hh : h.length = 16)
    (hy : y0.length = 16) :
    msb 128 (addition (E y0) (ghashGo h a c)) =
      xorBytes (toBytes (ghash (ofBytes h) a c)) (E (toBytes (ofBytes y0))) := by
  have hg := ghashGo_length h a c hh
  rw [addition_eq_xorBytes _ _ (by rw [hE, hg]), xorBytes_comm, ghashGo_bytes h a c hh, toBytes_ofBytes y0 hy]
  unfold msb
  apply List.take_of_length_le
  rw [xorBytes_length, hE, ← ghashGo_bytes h a c hh, hg]
  decide

/-- `gcmEncryptGo_eq_ae`: for every block cipher `E` with 16-byte outputs and ALL byte strings `IV`, `P`, `A`
    (sm4_gcm.go accepts every IV length, the empty IV included; no length bound is needed because the Go
    counter `incr` and the specification's `inc32` wrap identically), `GCMEncrypt(K, IV, P, A)` as the Go
    code computes it — `GetH`, `GetY0`, `incr`, the two counter-mode loops with the `n, u` bookkeeping and
    the partial last block, `GHASH`, `MSB` — returns exactly `(C, T)` of GCM-AE_K (SP 800-38D Algorithm 4,
    t = 128). -/
theorem gcmEncryptGo_eq_ae (E : Bytes → Bytes) (hE : ∀ x, (E x).length = 16) (iv p a : Bytes) :
    gcmEncryptGo E iv p a = ae E iv p a := by
  unfold gcmEncryptGo ae getH
  dsimp only
  have hh : (E (List.replicate blockSize 0)).length = 16 := hE _
  obtain ⟨hy1, hy2⟩ := getY0_eq (E (List.replicate blockSize 0)) iv hh
  rw [ctrLoops_eq E hE _ p hy2, tag_eq E hE _ _ a _ hh hy2, hy1]
  rfl

/-- `gcmDecryptGo_eq`: `GCMDecrypt(K, IV, C, A)` returns the GCTR decryption of `C` (whatever the tag) and
    the recomputed tag `T' = MSB_128(GCTR_K(J0, GHASH_H(A, C)))`; it does not compare tags itself. -/
theorem gcmDecryptGo_eq (E : Bytes → Bytes) (hE : ∀ x, (E x).length = 16) (iv c a : Bytes) :
    gcmDecryptGo E iv c a =
      (gctrAll E (inc32 (j0 (ofBytes (E (List.replicate 16 0))) iv)) c,
       xorBytes (toBytes (ghash (ofBytes (E (List.replicate 16 0))) a c))
         (E (toBytes (j0 (ofBytes (E (List.replicate 16 0))) iv)))) := by
  unfold gcmDecryptGo getH
  dsimp only
  have hh : (E (List.replicate blockSize 0)).length = 16 := hE _
  obtain ⟨hy1, hy2⟩ := getY0_eq (E (List.replicate blockSize 0)) iv hh
  rw [ctrLoops_eq E hE _ c hy2, tag_eq E hE _ _ a _ hh hy2, hy1]
  rfl

/-- `gcmDecryptGo_eq_ad`: GCM-AD_K (SP 800-38D Algorithm 5) is: run `GCMDecrypt`, compare the tag it
    returns with the received tag, release the plaintext it returns only when they are equal.
    (`Sm4GCM(…, false)` hands both values to the caller, who must do this comparison.) -/
theorem gcmDecryptGo_eq_ad (E : Bytes → Bytes) (hE : ∀ x, (E x).length = 16) (iv c a t : Bytes) :
    ad E iv c a t =
      if (gcmDecryptGo E iv c a).2 = t then some (gcmDecryptGo E iv c a).1 else none := by
  rw [gcmDecryptGo_eq E hE]
  rfl

/-- `gcm_go_roundtrip`: decrypting what `GCMEncrypt` produced (same key, IV, additional data) returns the
    plaintext and recomputes exactly the tag `GCMEncrypt` produced. -/
theorem gcm_go_roundtrip (E : Bytes → Bytes) (hE : ∀ x, (E x).length = 16) (iv p a : Bytes) :
    gcmDecryptGo E iv (gcmEncryptGo E iv p a).1 a = (p, (gcmEncryptGo E iv p a).2) := by
  have h := Props.C12.dec_enc E hE iv p a
  rw [gcmDecryptGo_eq_ad E hE, ← gcmEncryptGo_eq_ae E hE] at h
  split at h
  · rename_i ht
    have hp : (gcmDecryptGo E iv (gcmEncryptGo E iv p a).1 a).1 = p := Option.some.inj h
    exact Prod.ext hp ht
  · cases h

/-- the wrapper `Sm4GCM` over SM4: encrypt-then-decrypt returns the plaintext and the same tag -/
theorem sm4GCMGo_roundtrip (key iv p a : Bytes) (hk : key.length = 16) :
    ∃ c t, sm4GCMGo Spec.SM4.encrypt key iv p a true = some (c, t) ∧
      sm4GCMGo Spec.SM4.encrypt key iv c a false = some (p, t) := by
  refine ⟨(gcmEncryptGo (Spec.SM4.encrypt key) iv p a).1, (gcmEncryptGo (Spec.SM4.encrypt key) iv p a).2, ?_, ?_⟩
  · simp [sm4GCMGo, hk, blockSize]
  · simp only [sm4GCMGo, hk, blockSize, ne_eq, not_true_eq_false, if_false, Bool.false_eq_true]
    rw [gcm_go_roundtrip _ (Props.C05.enc_length key)]

/-- `Sm4GCM` over SM4 is GCM-AE / the two outputs of `gcmDecryptGo_eq` for a 16-byte key, an error otherwise -/
theorem sm4GCMGo_enc (key iv p a : Bytes) :
    sm4GCMGo Spec.SM4.encrypt key iv p a true =
      if key.length = 16 then some (ae (Spec.SM4.encrypt key) iv p a) else none := by
  unfold sm4GCMGo blockSize
  by_cases hk : key.length = 16
  · simp [hk, gcmEncryptGo_eq_ae _ (Props.C05.enc_length key)]
  · simp [hk]

/-- `Sm4GCM(…, false)` over SM4: the GCTR decryption and the recomputed tag for a 16-byte key, an error otherwise -/
theorem sm4GCMGo_dec (key iv c a : Bytes) :
    sm4GCMGo Spec.SM4.encrypt key iv c a false =
      if key.length = 16 then some (gcmDecryptGo (Spec.SM4.encrypt key) iv c a) else none := by
  unfold sm4GCMGo blockSize
  by_cases hk : key.length = 16
  · simp [hk]
  · simp [hk]

/-- Non-vacuity / validation (a test): RFC 8998 appendix A.2 SM4-GCM vector through the byte-level model,
    kernel-evaluated. -/
example :
    let key : Bytes := [0x01,0x23,0x45,0x67,0x89,0xAB,0xCD,0xEF,0xFE,0xDC,0xBA,0x98,0x76,0x54,0x32,0x10]
    let iv : Bytes := [0x00,0x00,0x12,0x34,0x56,0x78,0x00,0x00,0x00,0x00,0xAB,0xCD]
    let aad : Bytes := [0xFE,0xED,0xFA,0xCE,0xDE,0xAD,0xBE,0xEF,0xFE,0xED,0xFA,0xCE,0xDE,0xAD,0xBE,0xEF,0xAB,0xAD,0xDA,0xD2]
    let pt : Bytes := List.replicate 8 0xAA ++ List.replicate 8 0xBB
    (sm4GCMGo Spec.SM4.encrypt key iv pt aad true).map (·.1) =
      some [0x17,0xF3,0x99,0xF0,0x8C,0x67,0xD5,0xEE,0x19,0xD0,0xDC,0x99,0x69,0xC4,0xBB,0x7D] := by
  decide +kernel

end Props.C12Top
