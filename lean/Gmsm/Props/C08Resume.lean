/-
C08 across resumption — a server completes only with the client identity its CURRENT ClientAuth policy demands,
also when the client offers a ticket obtained under another policy (same session-ticket keys: an edited
`Config`, a second `Config` with the same `SetSessionTicketKeys`, a `Config` chosen by `GetConfigForClient`).
Theorems about `Model.Resume.checkForResumption` / `fullOutcome` through `Model.ResumeAuth`.
-/
import Gmsm.Model.ResumeAuth
import Gmsm.Props.C16
namespace Props.C08Resume
open Model.Resume Model.ResumeAuth

/-- `policyMet` spelled out: the Require* policies (2, 4) demand at least one certificate, the verifying
    policies (3, 4) demand that certificates which are there chain to the client CAs, NoClientCert (0) reports
    no client identity at all. -/
theorem policyMet_iff (a : Nat) (st : Sess) :
    policyMet a st = true ↔
      ((a = 2 ∨ a = 4) → st.ccerts ≠ 0) ∧ (a ≥ 3 → st.ccerts ≠ 0 → st.ctrust = true) ∧ (a = 0 → st.ccerts = 0) := by
  unfold policyMet
  simp only [Bool.and_eq_true, Bool.or_eq_true, Bool.not_eq_eq_eq_not, Bool.not_true, beq_iff_eq, bne_iff_ne,
    decide_eq_true_eq, ne_eq, Bool.or_eq_false_iff, Bool.and_eq_false_imp, beq_eq_false_iff_ne]
  cases st.ctrust <;> by_cases hc : st.ccerts = 0 <;> simp [hc] <;> omega

/-- T1 `gate_meets_policy`: whatever ticket is offered and
    whatever policy was in force when it was issued, `checkForResumption` accepts it only if the client
    certificates stored in it satisfy the policy in force NOW — in particular never an anonymous session under
    RequireAnyClientCert / RequireAndVerifyClientCert. -/
theorem gate_meets_policy (m : Mode) (s : Server) (hello : List Suite) (t : Ticket) (st : Sess) (old : Bool)
    (h : checkForResumption m s hello t = some (st, old)) : policyMet s.auth st = true := by
  have g := (Props.C16.gate_iff m s hello t st old).mp h
  obtain ⟨_, _, _, _, _, _, _, _, h1, h2, h3⟩ := g
  rw [policyMet_iff]
  refine ⟨?_, ?_, ?_⟩
  · intro ha hc; exact h1 ⟨ha, hc⟩
  · intro ha hc
    cases ht : st.ctrust with
    | true => rfl
    | false => exact absurd ⟨hc, ha, ht⟩ h3
  · intro ha
    by_cases hc : st.ccerts = 0
    · exact hc
    · exact absurd ⟨hc, ha⟩ h2

/-- the anonymous-ticket case on its own: under a Require* policy a ticket that holds no client certificate is
    never resumed, for every key list, suite list, version and hello -/
theorem require_never_resumes_anonymous (m : Mode) (s : Server) (hello : List Suite) (t : Ticket)
    (ha : s.auth = 2 ∨ s.auth = 4) (hc : t.sess.ccerts = 0) : checkForResumption m s hello t = none := by
  cases h : checkForResumption m s hello t with
  | none => rfl
  | some p =>
    obtain ⟨st, old⟩ := p
    have g := (Props.C16.gate_iff m s hello t st old).mp h
    obtain ⟨_, _, _, hst, _, _, _, _, h1, _, _⟩ := g
    exact absurd ⟨ha, by rw [hst]; exact hc⟩ h1

/-- a full handshake completes only with the identity the policy demands (`doFullHandshake`:
    `processCertsFromClient`) -/
theorem full_meets_policy (m : Mode) (w : World) (r : ConnReq) (st : Sess) (h : fullOutcome m w r = some st) :
    policyMet (w.srv r.srv).auth st = true := by
  unfold fullOutcome at h
  simp only at h
  split at h
  · exact absurd h (by simp)
  · split at h
    · exact absurd h (by simp)
    · split at h
      · exact absurd h (by simp)
      · rename_i h1 h2
        simp only [Option.some.injEq] at h
        subst h
        rw [policyMet_iff]
        simp only []
        generalize (w.srv r.srv).auth = a at *
        generalize r.ccert = cc at *
        by_cases hs : (decide (a ≥ 1) && cc != 0) = true
        · simp only [hs] at h1 h2 ⊢
          simp at h1 h2 hs ⊢
          exact ⟨h2, by omega⟩
        · have hs' : (decide (a ≥ 1) && cc != 0) = false := by simpa using hs
          simp only [hs'] at h1 h2 ⊢
          simp at h1 hs ⊢
          exact h1

/-- T1 `served_meets_policy`: in EVERY world (any cache contents, any ticket, any history behind it), a
    connection that completes on the server — resumed or in full — ends with a client identity that satisfies the
    ClientAuth policy of the `Config` serving it. -/
theorem served_meets_policy (m : Mode) (w : World) (r : ConnReq) (st : Sess) (res : Bool)
    (h : served m w r = some (st, res)) : policyMet (w.srv r.srv).auth st = true := by
  unfold served at h
  split at h
  · rename_i st0 old hd
    simp only [Option.some.injEq, Prod.mk.injEq] at h
    obtain ⟨rfl, _⟩ := h
    unfold resumeDecision at hd
    cases ho : offered m w r with
    | none => simp [ho] at hd
    | some cs =>
      simp only [ho, Option.bind_some] at hd
      exact gate_meets_policy m _ _ _ _ _ hd
  · cases hf : fullOutcome m w r with
    | none => simp [hf] at h
    | some st1 =>
      simp only [hf, Option.map_some, Option.some.injEq, Prod.mk.injEq] at h
      obtain ⟨rfl, _⟩ := h
      exact full_meets_policy m w r _ hf

/-- `served` is what `conn` reports: the handshake fails exactly when there is no served session, and reports
    a resumption exactly when the served session came out of the ticket -/
theorem conn_outcome_served (m : Mode) (w : World) (r : ConnReq) :
    (conn m w r).2 = match served m w r with
      | some (st, true) => .resumed st.sid
      | some (_, false) => .full (w.n + 1)
      | none => .error := by
  unfold conn served
  cases hd : resumeDecision m w r with
  | some p => rfl
  | none =>
    cases hf : fullOutcome m w r with
    | none => rfl
    | some st => rfl

/-- the policy put in force for an item is the one the handshake runs under -/
theorem connect_auth (m : Mode) (w : World) (it : Item) (cs : Option (List Suite)) :
    ((prep (step m w (.auth 0 it.auth)).1 ⟨0, cs, it.ccert, false⟩).srv 0).auth = it.auth := by
  have := Props.C16.prep_srv_self (step m w (.auth 0 it.auth)).1 ⟨0, cs, it.ccert, false⟩
  simp only at this
  rw [this, Props.C16.ensureKeys_auth]
  simp [step, setSrv]

/-- one connection of a policy history, from any world: completed ⇒ at least one client certificate under the
    Require* policies, none under NoClientCert -/
theorem connect_meets_policy (m : Mode) (w : World) (cs : Option (List Suite)) (it : Item) (res : Bool) (k : Nat)
    (h : (connect m w cs it).2 = .completed res k) :
    ((it.auth = 2 ∨ it.auth = 4) → k ≠ 0) ∧ (it.auth = 0 → k = 0) := by
  unfold connect at h
  simp only at h
  split at h
  · rename_i st res0 hs
    simp only [Report.completed.injEq] at h
    obtain ⟨_, rfl⟩ := h
    have hp := served_meets_policy m _ _ st res0 hs
    simp only at hp
    rw [connect_auth, policyMet_iff] at hp
    exact ⟨hp.1, hp.2.2⟩
  · exact absurd h (by simp)

/-- T1 `history_meets_policy`: for EVERY history of connections under changing policies with the ticket keys
    kept (any length, any order of policies, whatever the client holds each time, from any starting world) every
    completed connection reports ≥ 1 client certificate if its own policy is RequireAnyClientCert or
    RequireAndVerifyClientCert, and none if it is NoClientCert. -/
theorem history_meets_policy (m : Mode) (cs : Option (List Suite)) (its : List Item) :
    ∀ (w : World) (i : Nat) (it : Item) (res : Bool) (k : Nat), its[i]? = some it →
      (runItems m cs w its)[i]? = some (.completed res k) →
      ((it.auth = 2 ∨ it.auth = 4) → k ≠ 0) ∧ (it.auth = 0 → k = 0) := by
  induction its with
  | nil => intro w i it res k h; simp at h
  | cons it0 rest ih =>
    intro w i it res k h1 h2
    unfold runItems at h2
    cases i with
    | zero =>
      simp only [List.getElem?_cons_zero, Option.some.injEq] at h1 h2
      subst h1
      exact connect_meets_policy m w cs it0 res k h2
    | succ j =>
      simp only [List.getElem?_cons_succ] at h1 h2
      exact ih _ j it res k h1 h2

/-- one report per connection -/
theorem runItems_length (m : Mode) (cs : Option (List Suite)) (its : List Item) :
    ∀ w : World, (runItems m cs w its).length = its.length := by
  induction its with
  | nil => intro w; rfl
  | cons it rest ih => intro w; unfold runItems; simp [ih]

/-- Non-vacuity (tests): an anonymous session under NoClientCert resumes there, is NOT resumed under
    RequireAndVerifyClientCert (the full handshake without certificate fails, with one it completes), and the new
    session resumes under the strict policy. -/
example : runItems .gm none (world (some [0xe013])) [⟨0, 0⟩, ⟨0, 0⟩, ⟨4, 0⟩, ⟨4, 1⟩, ⟨4, 1⟩]
    = [.completed false 0, .completed true 0, .failed, .completed false 1, .completed true 1] := by decide

/-- a certificate of an untrusted CA accepted under RequestClientCert does not survive the verifying policies -/
example : runItems .gm none (world (some [0xe013])) [⟨1, 2⟩, ⟨1, 2⟩, ⟨3, 2⟩, ⟨0, 0⟩]
    = [.completed false 1, .completed true 1, .failed, .completed false 0] := by decide

end Props.C08Resume
