/-
C11 — SM4 ECB/CBC/CFB/OFB helpers equal the standard PKCS#7-padded modes and invert.
Property theorems only (helpers in Gmsm/Proofs/Modes.lean; SM4 block facts from C05).
-/
import Gmsm.Proofs.Modes
import Gmsm.Props.C05
namespace Props.C11
open Gmsm Spec.Modes Model.SM4Modes Proofs.Modes

/-- T1 `len_pad`: the padded length is the next multiple of 16 strictly greater than the input length -/
theorem len_pad (p : Bytes) : (pad16 p).length = 16 * (p.length / 16 + 1) := pad16_length p

theorem getLastD_append_replicate (p : Bytes) (k : Nat) (x : Byte) (hk : 0 < k) :
    (p ++ List.replicate k x).getLastD 0 = x := by
  cases k with
  | zero => omega
  | succ k =>
    rw [List.replicate_succ', ← List.append_assoc]
    simp [List.getLastD_eq_getLast?]

/-- T1 `unpad_pad`: un-padding a padded string returns the string (and never hits the slice-bounds panic) -/
theorem unpad_pad (p : Bytes) : unpad (pad16 p) = some p ∧ unpadPanics (pad16 p) = false := by
  have hk := pad_k_range p.length
  have hlen : (pad16 p).length = p.length + (16 - p.length % 16) := by simp [pad16]
  have hlast : (pad16 p).getLastD 0 = BitVec.ofNat 8 (16 - p.length % 16) :=
    getLastD_append_replicate p _ _ (by omega)
  have hnat : (BitVec.ofNat 8 (16 - p.length % 16)).toNat = 16 - p.length % 16 := by
    simp [BitVec.toNat_ofNat]; omega
  constructor
  · unfold unpad
    rw [hlast]
    simp only [hnat]
    have h0 : (pad16 p).length ≠ 0 := by omega
    simp only [h0, if_false]
    have h1 : ¬ (16 - p.length % 16 > 16 ∨ 16 - p.length % 16 = 0) := by omega
    have h2 : ¬ (16 - p.length % 16 > (pad16 p).length) := by omega
    simp only [h1, h2, if_false]
    have hsub : (pad16 p).length - (16 - p.length % 16) = p.length := by omega
    rw [hsub]
    have hdrop : (pad16 p).drop p.length = List.replicate (16 - p.length % 16) (BitVec.ofNat 8 (16 - p.length % 16)) := by
      simp [pad16]
    have htake : (pad16 p).take p.length = p := by simp [pad16]
    rw [hdrop, htake]
    simp
  · unfold unpadPanics
    rw [hlast, hnat]
    simp; omega

theorem sm4E_len (key x : Bytes) : (Spec.SM4.encrypt key x).length = 16 := Props.C05.enc_length key x
theorem sm4D_len (key x : Bytes) : (Spec.SM4.decrypt key x).length = 16 := Props.C05.dec_length key x

/-- encryption chains produce 16-byte blocks, as many as they are given -/
theorem encBlocks_all (m : Mode) (key iv : Bytes) (bs : List Bytes) (h : AllBlk bs) :
    AllBlk (runBlocks m true (Spec.SM4.encrypt key) (Spec.SM4.decrypt key) iv bs) ∧
    (runBlocks m true (Spec.SM4.encrypt key) (Spec.SM4.decrypt key) iv bs).length = bs.length := by
  cases m <;> simp only [runBlocks]
  · exact ⟨ecb_all _ (sm4E_len key) bs, by simp [ecb]⟩
  · exact ⟨cbcEnc_all _ (sm4E_len key) iv bs, cbcEnc_length _ iv bs⟩
  · exact ⟨cfbEnc_all _ iv bs h (sm4E_len key), cfbEnc_length _ iv bs⟩
  · exact ⟨ofb_all _ iv bs h (sm4E_len key), ofb_length _ iv bs⟩

/-- decryption chains invert encryption chains (SM4 decryption inverts SM4 encryption: C05) -/
theorem dec_enc_blocks (m : Mode) (key iv : Bytes) (hiv : iv.length = 16) (bs : List Bytes) (h : AllBlk bs) :
    runBlocks m false (Spec.SM4.encrypt key) (Spec.SM4.decrypt key) iv
      (runBlocks m true (Spec.SM4.encrypt key) (Spec.SM4.decrypt key) iv bs) = bs := by
  cases m <;> simp only [runBlocks]
  · exact ecb_inv _ _ bs h (fun x hx => Props.C05.dec_enc key x hx)
  · exact cbc_inv _ _ (fun x hx => Props.C05.dec_enc key x hx) iv hiv bs h (sm4E_len key)
  · exact cfb_inv _ iv bs h (sm4E_len key)
  · exact ofb_inv _ iv bs h (sm4E_len key)

/-- what the standard prescribes: the mode over SM4 applied to the blocks of the PKCS#7-padded input -/
def specEnc (m : Mode) (key iv p : Bytes) : Bytes :=
  (runBlocks m true (Spec.SM4.encrypt key) (Spec.SM4.decrypt key) iv
    (blocks (p.length / 16 + 1) (pad16 p))).flatten

/-- T1 `*_enc_eq`: for every 16-byte key, IV and plaintext, each helper in encryption mode returns
    exactly the SP 800-38A mode over SM4 of the padded plaintext. -/
theorem enc_eq_spec (m : Mode) (key iv p : Bytes) (hk : key.length = 16) :
    helper m key iv p true = .ok (specEnc m key iv p) := by
  unfold helper specEnc
  have hl := pad16_length p
  have hn : (pad16 p).length / 16 = p.length / 16 + 1 := by rw [hl]; omega
  have hz : (pad16 p).length - 16 * ((pad16 p).length / 16) = 0 := by rw [hn, hl]; omega
  simp [hk, hl]

/-- T1 `out_len`: the ciphertext length is the next multiple of 16 strictly above the plaintext length -/
theorem out_len (m : Mode) (key iv p : Bytes) : (specEnc m key iv p).length = 16 * (p.length / 16 + 1) := by
  unfold specEnc
  have hb := blocks_all (p.length / 16 + 1) (pad16 p) (by rw [pad16_length]; omega)
  have := encBlocks_all m key iv _ hb
  rw [flatten_length _ this.1, this.2, blocks_length]

/-- T1 `*_dec_enc`: decrypting the helper's ciphertext with the same key and IV returns exactly the
    original plaintext, for every key, 16-byte IV and plaintext (every length, every content). -/
theorem dec_enc (m : Mode) (key iv p : Bytes) (hk : key.length = 16) (hiv : iv.length = 16) :
    helper m key iv (specEnc m key iv p) false = .ok p := by
  have hb := blocks_all (p.length / 16 + 1) (pad16 p) (by rw [pad16_length]; omega)
  have henc := encBlocks_all m key iv _ hb
  have hlen := out_len m key iv p
  unfold helper
  simp only [hk, ne_eq, not_true_eq_false, if_false, Bool.false_eq_true]
  have hn : (specEnc m key iv p).length / 16 = p.length / 16 + 1 := by rw [hlen]; omega
  rw [hn]
  have hblk : blocks (p.length / 16 + 1) (specEnc m key iv p) =
      runBlocks m true (Spec.SM4.encrypt key) (Spec.SM4.decrypt key) iv (blocks (p.length / 16 + 1) (pad16 p)) := by
    have := blocks_flatten _ henc.1 []
    rw [henc.2, blocks_length, List.append_nil] at this
    exact this
  rw [hblk, dec_enc_blocks m key iv hiv _ hb, flatten_blocks _ _ (pad16_length p)]
  have hz : (specEnc m key iv p).length - 16 * (p.length / 16 + 1) = 0 := by rw [hlen]; omega
  rw [hz]
  simp only [List.replicate_zero, List.append_nil]
  have := unpad_pad p
  simp [this.1, this.2]

/-- key-length check -/
theorem key_len (m : Mode) (key iv p : Bytes) (enc : Bool) :
    helper m key iv p enc = .err ↔ key.length ≠ 16 := by
  unfold helper
  by_cases h : key.length = 16
  · simp only [h, ne_eq, not_true_eq_false, if_false, iff_false]
    cases enc
    · simp only [Bool.false_eq_true, if_false]
      split
      · simp
      · split <;> simp
    · simp
  · simp [h]

-- caller memory ---------------------------------------------------------------------------------------

/-- T1 `no_caller_write` (repaired `pkcs7Padding`): every array that existed before the call is
    unchanged — in particular the spare capacity behind the input slice — and the result holds the
    padded input. -/
theorem paddingNew_no_caller_write (h : Heap) (src : Slice) :
    (∀ i, i < h.length → (paddingNew h src).1.getD i [] = h.getD i []) ∧
    (paddingNew h src).1.read (paddingNew h src).2 = h.read src ++ padBytes src.len := by
  constructor
  · intro i hi
    simp [paddingNew, List.getD_eq_getElem?_getD, List.getElem?_append_left hi]
  · simp [paddingNew, Heap.read, List.getD_eq_getElem?_getD]
    apply List.take_of_length_le
    simp only [List.length_append, List.length_take]
    omega

/-- cur (pinned commit): `append(src, pad…)` overwrites the caller's spare capacity.
    Witness: a 5-byte slice of an 8-cell array of 0xaa bytes. -/
theorem paddingOld_writes_spare_capacity :
    ∃ (h : Heap) (src : Slice), (paddingOld h src).1.getD src.arr [] ≠ h.getD src.arr [] :=
  ⟨[List.replicate 32 0xaa], ⟨0, 0, 5, 32⟩, by decide⟩

/-- Non-vacuity (a test): a key/IV/plaintext meeting the hypotheses, with a plaintext that ends in
    bytes looking like padding. -/
example : helper .cbc Props.C05.exKey Props.C05.exKey
    (specEnc .cbc Props.C05.exKey Props.C05.exKey [1, 2, 3, 3, 3]) false = .ok [1, 2, 3, 3, 3] :=
  dec_enc .cbc _ _ _ (by decide) (by decide)

end Props.C11
