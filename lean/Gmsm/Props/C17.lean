/-
C17 — PKCS#7 / PKCS#12 containers return what was put in, only to the right holder.
Theorems about `Model.BER` (length octets, block padding, BMPString codec) and `Model.PKCS7`
(signed-data verdict, enveloped-data recipient handling).
-/
import Gmsm.Model.BER
import Gmsm.Model.PKCS7
import Gmsm.Proofs.BytesNat
namespace Props.C17
open Gmsm

section BER
open Model.BER

macro "fin_len" : tactic => `(tactic| (repeat' split) <;> first | omega | (simp <;> omega) | (simp_all <;> omega))

theorem lengthLength_small (n : Nat) :
    (n < 256 → lengthLength 8 n = 1) ∧ (256 ≤ n → n < 65536 → lengthLength 8 n = 2) ∧
    (65536 ≤ n → n < 16777216 → lengthLength 8 n = 3) ∧ (16777216 ≤ n → n < 4294967296 → lengthLength 8 n = 4) := by
  refine ⟨fun h => ?_, fun h1 h2 => ?_, fun h1 h2 => ?_, fun h1 h2 => ?_⟩
  · unfold lengthLength; simp; omega
  · have : n / 256 < 256 := by omega
    unfold lengthLength; rw [if_pos (by omega)]; unfold lengthLength; rw [if_neg (by omega)]
  · have : n / 256 / 256 < 256 := by omega
    unfold lengthLength; rw [if_pos (by omega)]; unfold lengthLength; rw [if_pos (by omega)]
    unfold lengthLength; rw [if_neg (by omega)]
  · have : n / 256 / 256 / 256 < 256 := by omega
    unfold lengthLength; rw [if_pos (by omega)]; unfold lengthLength; rw [if_pos (by omega)]
    unfold lengthLength; rw [if_pos (by omega)]; unfold lengthLength; rw [if_neg (by omega)]

/-- T1 `length_roundtrip`: the length octets `encodeLength` writes are read back by `readLength` as the
    same number, definite, consuming exactly those octets — for every length below 2^31 (Go `int`
    lengths `readObject` accepts), in particular on both sides of the 127/128 boundary. -/
theorem length_roundtrip (n : Nat) (h : n < 2 ^ 31) (rest : Bytes) :
    readLength (encodeLength n ++ rest) 1 ((encodeLength n).headD 0) =
      .ok (n, (encodeLength n).length, false) := by
  obtain ⟨l1, l2, l3, l4⟩ := lengthLength_small n
  by_cases h0 : n < 128
  · have e : encodeLength n = [BitVec.ofNat 8 n] := by unfold encodeLength; rw [if_neg (by omega)]
    rw [e]
    have t : (BitVec.ofNat 8 n).toNat = n := by simp [BitVec.toNat_ofNat]; omega
    simp [readLength, t]
    fin_len
  · by_cases h1 : n < 256
    · have e : encodeLength n = [0x81, BitVec.ofNat 8 n] := by
        unfold encodeLength; rw [if_pos (by omega), l1 h1]; simp [marshalLong, List.range, List.range.loop]
      rw [e]
      have t : (BitVec.ofNat 8 n).toNat = n := by simp [BitVec.toNat_ofNat]; omega
      simp [readLength, os2ip, t]
      fin_len
    · by_cases h2 : n < 65536
      · have e : encodeLength n = [0x82, BitVec.ofNat 8 (n / 256), BitVec.ofNat 8 n] := by
          unfold encodeLength; rw [if_pos (by omega), l2 (by omega) h2]; simp [marshalLong, List.range, List.range.loop]
        rw [e]
        have t : (BitVec.ofNat 8 (n / 256)).toNat = n / 256 := by simp [BitVec.toNat_ofNat]; omega
        simp [readLength, os2ip, t, BitVec.toNat_ofNat]
        fin_len
      · by_cases h3 : n < 16777216
        · have e : encodeLength n = [0x83, BitVec.ofNat 8 (n / 65536), BitVec.ofNat 8 (n / 256), BitVec.ofNat 8 n] := by
            unfold encodeLength; rw [if_pos (by omega), l3 (by omega) h3]; simp [marshalLong, List.range, List.range.loop]
          rw [e]
          have t : (BitVec.ofNat 8 (n / 65536)).toNat = n / 65536 := by simp [BitVec.toNat_ofNat]; omega
          simp [readLength, os2ip, t, BitVec.toNat_ofNat]
          fin_len
        · have h4 : n < 4294967296 := by omega
          have e : encodeLength n = [0x84, BitVec.ofNat 8 (n / 16777216), BitVec.ofNat 8 (n / 65536), BitVec.ofNat 8 (n / 256), BitVec.ofNat 8 n] := by
            unfold encodeLength; rw [if_pos (by omega), l4 (by omega) h4]; simp [marshalLong, List.range, List.range.loop]
          rw [e]
          have t : (BitVec.ofNat 8 (n / 16777216)).toNat = n / 16777216 := by simp [BitVec.toNat_ofNat]; omega
          simp [readLength, os2ip, t, BitVec.toNat_ofNat]
          fin_len

/-- the two forms never collide: a length ≥ 128 is never written in the short form (the repaired
    boundary: the pinned code wrote 128 as the single octet 0x80, which reads back as "indefinite") -/
theorem encodeLength_long (n : Nat) (h : 128 ≤ n) :
    ∃ l rest, encodeLength n = BitVec.ofNat 8 (0x80 + l) :: rest ∧ 1 ≤ l ∧ l ≤ 9 := by
  unfold encodeLength
  rw [if_pos h]
  refine ⟨lengthLength 8 n, _, rfl, ?_, ?_⟩
  · unfold lengthLength; split <;> omega
  · have b : ∀ f m, lengthLength f m ≤ f + 1 := by
      intro f; induction f with
      | zero => intro m; simp [lengthLength]
      | succ f ih => intro m; unfold lengthLength; split
                     · have := ih (m / 256); omega
                     · omega
    exact b 8 n

theorem encodeLength_short (n : Nat) (h : n < 128) : encodeLength n = [BitVec.ofNat 8 n] := by
  unfold encodeLength; rw [if_neg (by omega)]

-- block padding of the enveloped-data content ---------------------------------------------------------

theorem getLastD_append_replicate (p : Bytes) (k : Nat) (x : Byte) (hk : 0 < k) :
    (p ++ List.replicate k x).getLastD 0 = x := by
  cases k with
  | zero => omega
  | succ k =>
    rw [List.replicate_succ', ← List.append_assoc]
    simp [List.getLastD_eq_getLast?]

/-- T1 `unpad_pad`: for every content and block length 1..255 (8 for DES, 16 for AES), removing the
    padding that `pad` added returns the content. -/
theorem unpad_pad (data : Bytes) (bl : Nat) (h1 : 1 ≤ bl) (h2 : bl ≤ 255) :
    (pad data bl).bind (fun p => unpad p bl) = some data := by
  have hm := Nat.mod_lt data.length h1
  unfold pad
  rw [if_neg (by omega)]
  simp only [Option.bind_some]
  generalize hk : bl - data.length % bl = k
  have hk1 : 0 < k := by omega
  have hk2 : k ≤ bl := by omega
  have hknat : (BitVec.ofNat 8 k).toNat = k := by
    simp only [BitVec.toNat_ofNat]; exact Nat.mod_eq_of_lt (by omega)
  unfold unpad
  rw [if_neg (by omega)]
  have hlen : (data ++ List.replicate k (BitVec.ofNat 8 k)).length = data.length + k := by simp
  have hdiv : (data.length + k) % bl = 0 := by
    have e : data.length + k = bl * (data.length / bl + 1) := by
      have := Nat.div_add_mod data.length bl
      rw [Nat.mul_add]; omega
    rw [e]; exact Nat.mul_mod_right _ _
  rw [hlen, if_neg (by omega)]
  simp only [getLastD_append_replicate _ _ _ hk1, hknat]
  rw [if_neg (by omega)]
  have hsub : data.length + k - k = data.length := by omega
  rw [hsub, List.drop_left, List.take_left]
  have : (List.replicate k (BitVec.ofNat 8 k)).all (fun b => b.toNat == k % 256) = true := by
    simp [List.all_replicate, hknat]; right; omega
  rw [if_pos this]

/-- `unpad` only ever removes 1..bl bytes that all carry their count: what it accepts is what `pad`
    writes for the returned content (no other plaintext is hidden behind a valid padding) -/
theorem unpad_sound (data out : Bytes) (bl : Nat) (h : unpad data bl = some out) :
    ∃ k, 1 ≤ k ∧ k ≤ bl ∧ data.length = out.length + k ∧ out = data.take (data.length - k) := by
  unfold unpad at h
  split at h
  · simp at h
  · split at h
    · simp at h
    · dsimp only at h
      split at h
      · simp at h
      · split at h
        · rename_i h1 h2 h3 _
          simp only [Option.some.injEq] at h
          refine ⟨(data.getLastD 0).toNat, by omega, by omega, ?_, h.symm⟩
          have hl : (data.getLastD 0).toNat ≤ data.length := by
            have : bl ≤ data.length :=
              Nat.le_of_dvd (by omega) (Nat.dvd_of_mod_eq_zero (by omega))
            omega
          rw [← h, List.length_take]; omega
        · simp at h

end BER

-- BMPString (PKCS#12 passwords) ----------------------------------------------------------------------------
section BMP
open Model.BER

def enc2 (r : Nat) : Bytes := [BitVec.ofNat 8 (r / 256), BitVec.ofNat 8 (r % 256)]

theorem pairs_length (rs : List Nat) : (rs.flatMap enc2).length = 2 * rs.length := by
  induction rs with
  | nil => rfl
  | cons r rs ih => simp [List.flatMap_cons, enc2, ih]; omega

theorem pairs_get (rs : List Nat) (i : Nat) (hi : i < rs.length) (hr : ∀ r ∈ rs, r < 0x10000) :
    ((rs.flatMap enc2).getD (2 * i) 0).toNat * 256 + ((rs.flatMap enc2).getD (2 * i + 1) 0).toNat = rs[i] := by
  induction rs generalizing i with
  | nil => simp at hi
  | cons r rs ih =>
    have hr0 : r < 0x10000 := hr r (by simp)
    cases i with
    | zero =>
      simp [List.flatMap_cons, enc2, BitVec.toNat_ofNat]
      omega
    | succ i =>
      have := ih i (by simpa using hi) (fun x hx => hr x (by simp [hx]))
      have e1 : 2 * (i + 1) = 2 * i + 2 := by omega
      have e2 : 2 * (i + 1) + 1 = 2 * i + 1 + 2 := by omega
      simp only [List.flatMap_cons, enc2, e1, List.cons_append, List.nil_append, List.getD_eq_getElem?_getD,
        List.getElem?_cons_succ, List.getElem_cons_succ] at this ⊢
      exact this

/-- T1 `bmp_roundtrip`: every password whose characters lie in the Basic Multilingual Plane (empty, ASCII,
    Cyrillic, CJK, embedded NUL …) is encoded and decoded back to the same code points. -/
theorem bmp_roundtrip (rs : List Nat) (hr : ∀ r ∈ rs, r < 0x10000) :
    (bmpString rs).bind decodeBMPString = some rs := by
  have hall : rs.all (fun r => decide (r < 0x10000)) = true := by
    simp only [List.all_eq_true, decide_eq_true_eq]; exact hr
  unfold bmpString
  rw [if_pos hall]
  simp only [Option.bind_some]
  have hf : rs.flatMap (fun r => [BitVec.ofNat 8 (r / 256), BitVec.ofNat 8 (r % 256)]) = rs.flatMap enc2 := rfl
  rw [hf]
  have hl := pairs_length rs
  unfold decodeBMPString
  have hlen : (rs.flatMap enc2 ++ [0, 0]).length = 2 * rs.length + 2 := by simp [hl]
  rw [hlen, if_neg (by omega)]
  have g1 : (rs.flatMap enc2 ++ [0, 0]).getD (2 * rs.length + 2 - 1) 1 = 0 := by
    have : 2 * rs.length + 2 - 1 = (rs.flatMap enc2).length + 1 := by omega
    rw [this]; simp [List.getD_eq_getElem?_getD]
  have g2 : (rs.flatMap enc2 ++ [0, 0]).getD (2 * rs.length + 2 - 2) 1 = 0 := by
    have : 2 * rs.length + 2 - 2 = (rs.flatMap enc2).length + 0 := by omega
    rw [this]; simp [List.getD_eq_getElem?_getD]
  simp only [g1, g2, and_self, and_true]
  rw [if_pos (by omega)]
  have ht : (rs.flatMap enc2 ++ [0, 0]).take (2 * rs.length + 2 - 2) = rs.flatMap enc2 := by
    have : 2 * rs.length + 2 - 2 = (rs.flatMap enc2).length := by omega
    rw [this, List.take_left]
  simp only [ht, hl]
  congr 1
  apply List.ext_getElem
  · simp
  · intro i h1 h2
    simp only [List.getElem_map, List.getElem_range]
    have hi : i < rs.length := by simpa using h1
    exact pairs_get rs i hi hr

/-- different passwords have different encodings (so the MAC / PBE keys are derived from different bytes) -/
theorem bmpString_injective (a b : List Nat) (ha : ∀ r ∈ a, r < 0x10000) (hb : ∀ r ∈ b, r < 0x10000)
    (h : bmpString a = bmpString b) : a = b := by
  have ra := bmp_roundtrip a ha
  have rb := bmp_roundtrip b hb
  rw [h, rb] at ra
  exact (Option.some.inj ra).symm

/-- a character outside the BMP is refused, never truncated to 16 bits -/
theorem bmpString_rejects_astral (a b : List Nat) (r : Nat) (h : 0x10000 ≤ r) : bmpString (a ++ r :: b) = none := by
  unfold bmpString
  rw [if_neg]
  simp only [List.all_eq_true, decide_eq_true_eq]
  intro hall
  have := hall r (by simp)
  omega

end BMP

-- signed data ----------------------------------------------------------------------------------------------
section Signed
open Model.PKCS7

/-- T1 `verify_signer_iff`: the verdict on one signer, stated outright.  It is accepted exactly when its
    digest algorithm is known, its certificate is in the container, the (digest, encryption) pair names a
    signature algorithm, and the signature — by the certified key — covers the content itself (no signed
    attributes) or the DER SET of signed attributes, whose message-digest attribute must equal the digest
    of the content. -/
theorem verify_signer_iff (P : Prims) (content : Bytes) (certs : List Cert) (s : Signer) :
    verifySigner P content certs s = .ok () ↔
      ∃ h c a, getHashForOID s.digestAlg = some h ∧ findCert certs s.ias = some c ∧
        getSignatureAlgorithmByHash h s.encAlg = some a ∧
        ((s.attrs = [] ∧ P.check c.key a content s.sig = true) ∨
         (s.attrs ≠ [] ∧ messageDigestOf s.attrs = some (P.hash h content) ∧
            P.check c.key a (P.derAttrs s.attrs) s.sig = true)) := by
  unfold verifySigner
  cases hh : getHashForOID s.digestAlg with
  | none => simp
  | some h =>
    simp only [Option.some.injEq, exists_and_left, exists_eq_left']
    by_cases ha : s.attrs = []
    · simp only [ha, List.length_nil, Nat.lt_irrefl, if_false, true_and, ne_eq, not_true_eq_false, false_and, or_false]
      cases hc : findCert certs s.ias with
      | none => simp
      | some c =>
        cases hal : getSignatureAlgorithmByHash h s.encAlg with
        | none => simp
        | some a =>
          simp only [Option.some.injEq, exists_eq_left']
          by_cases hk : P.check c.key a content s.sig = true <;> simp [hk]
    · have hl : s.attrs.length > 0 := List.length_pos_iff.mpr ha
      simp only [hl, if_true, ha, false_and, ne_eq, not_false_eq_true, true_and, false_or]
      cases hm : messageDigestOf s.attrs with
      | none => simp
      | some d =>
        by_cases hd : d = P.hash h content
        · simp only [hd, if_true, true_and]
          cases hc : findCert certs s.ias with
          | none => simp
          | some c =>
            cases hal : getSignatureAlgorithmByHash h s.encAlg with
            | none => simp
            | some a =>
              simp only [Option.some.injEq, exists_eq_left']
              by_cases hk : P.check c.key a (P.derAttrs s.attrs) s.sig = true <;> simp [hk]
        · simp [hd]

theorem verifyAll_ok_iff (P : Prims) (content : Bytes) (certs : List Cert) (l : List Signer) :
    verifyAll P content certs l = .ok () ↔ ∀ x ∈ l, verifySigner P content certs x = .ok () := by
  induction l with
  | nil => simp [verifyAll]
  | cons x xs ih =>
    unfold verifyAll
    cases hx : verifySigner P content certs x with
    | error e => simp [hx]
    | ok u => simp [hx, ih]

/-- T1 `verify_iff`: a signed-data object verifies exactly when it has at least one signer and every
    signer is accepted. -/
theorem verify_iff (P : Prims) (content : Bytes) (certs : List Cert) (signers : List Signer) :
    verify P content certs signers = .ok () ↔
      signers ≠ [] ∧ ∀ s ∈ signers, verifySigner P content certs s = .ok () := by
  unfold verify
  by_cases h : signers = []
  · simp [h]
  · have : signers.length ≠ 0 := by simpa using h
    simp [this, h, verifyAll_ok_iff]

/-- T1 `content_bound`: with signed attributes, an object that verifies for `content` is rejected for any
    other content unless the two have the same digest (a hash collision); -/
theorem content_bound (P : Prims) (c1 c2 : Bytes) (certs : List Cert) (s : Signer) (ha : s.attrs ≠ [])
    (h1 : verifySigner P c1 certs s = .ok ()) (h2 : verifySigner P c2 certs s = .ok ()) :
    ∃ h, getHashForOID s.digestAlg = some h ∧ P.hash h c1 = P.hash h c2 := by
  obtain ⟨h, _, _, hh, _, _, r1⟩ := (verify_signer_iff P c1 certs s).mp h1
  obtain ⟨h', _, _, hh', _, _, r2⟩ := (verify_signer_iff P c2 certs s).mp h2
  rw [hh] at hh'; cases hh'
  rcases r1 with ⟨e, _⟩ | ⟨_, m1, _⟩
  · exact absurd e ha
  · rcases r2 with ⟨e, _⟩ | ⟨_, m2, _⟩
    · exact absurd e ha
    · rw [m1] at m2; exact ⟨h, hh, Option.some.inj m2⟩

/-- … and whatever is accepted carries a signature, valid under the key certified by the certificate the
    container holds for the signer's issuer and serial, over bytes that determine the content. -/
theorem accepted_is_signed (P : Prims) (content : Bytes) (certs : List Cert) (s : Signer)
    (h : verifySigner P content certs s = .ok ()) :
    ∃ c ∈ certs, c.ias = s.ias ∧ ∃ a, P.check c.key a (if s.attrs = [] then content else P.derAttrs s.attrs) s.sig = true := by
  obtain ⟨_, c, a, _, hc, _, r⟩ := (verify_signer_iff P content certs s).mp h
  have hm := List.mem_of_find?_eq_some hc
  have hp := List.find?_some hc
  refine ⟨c, hm, by simpa using hp, a, ?_⟩
  rcases r with ⟨e, k⟩ | ⟨e, _, k⟩
  · simp [e, k]
  · simp [e, k]

/-- the algorithm tables: the digest OIDs both name SM3 (repaired), and every pair the library's own
    signers write is recognised (RSA pairs were missing before the repair) -/
theorem tables_cover_own_output :
    getHashForOID .sm3 = some .sm3 ∧ getHashForOID .sm3Arc = some .sm3 ∧
    getSignatureAlgorithmByHash .sha1 .sha1WithRSA = some .sha1WithRSA ∧
    getSignatureAlgorithmByHash .sm3 .sm3WithSM2 = some .sm2WithSM3 := by decide

end Signed

-- enveloped data -------------------------------------------------------------------------------------------
section Enveloped
open Model.PKCS7

/-- the wrap / content-encryption primitives do what they are for -/
structure CorrectE (E : EPrims) : Prop where
  unwrap_wrap : ∀ id k, E.unwrap id (E.wrap id k) = some k
  dec_enc : ∀ k m, E.dec k (E.enc k m) = some m
  wrap_nonempty : ∀ id k, (E.wrap id k).isEmpty = false

theorem find_map_recip (E : EPrims) (cek : Bytes) (rs : List Cert) (c : Cert) (hc : c ∈ rs)
    (hd : ∀ a ∈ rs, ∀ b ∈ rs, a.ias = b.ias → a = b) :
    (rs.map (fun c => (⟨c.ias, E.wrap c.key cek⟩ : Recip))).find? (fun r => r.ias = c.ias) =
      some ⟨c.ias, E.wrap c.key cek⟩ := by
  induction rs with
  | nil => simp at hc
  | cons x xs ih =>
    simp only [List.map_cons, List.find?_cons]
    by_cases hx : x.ias = c.ias
    · have : x = c := hd x (by simp) c hc hx
      subst this; simp
    · simp only [hx, decide_false]
      have hc' : c ∈ xs := by
        rcases List.mem_cons.mp hc with e | e
        · exact absurd (by rw [e]) hx
        · exact e
      exact ih hc' (fun a ha b hb => hd a (by simp [ha]) b (by simp [hb]))

/-- T1 `recipient_recovers`: for every content, content key, and list of recipients with pairwise distinct
    (issuer, serial), each recipient — presenting its certificate and its own private key — recovers
    exactly the content. -/
theorem recipient_recovers (E : EPrims) (hE : CorrectE E) (cek content : Bytes) (rs : List Cert) (c : Cert)
    (hc : c ∈ rs) (hd : ∀ a ∈ rs, ∀ b ∈ rs, a.ias = b.ias → a = b) :
    decrypt E (encrypt E cek content rs) c c.key = .ok content := by
  unfold decrypt encrypt selectRecipient
  simp [find_map_recip E cek rs c hc hd, hE.wrap_nonempty, hE.unwrap_wrap, hE.dec_enc]

/-- T1 `non_recipient_rejected`: a certificate whose (issuer, serial) is not among the recipients gets an
    error whatever key accompanies it. -/
theorem non_recipient_rejected (E : EPrims) (cek content : Bytes) (rs : List Cert) (c : Cert) (sk : Nat)
    (hn : ∀ a ∈ rs, a.ias ≠ c.ias) :
    decrypt E (encrypt E cek content rs) c sk = .error .noRecipient := by
  unfold decrypt encrypt selectRecipient
  have : (rs.map (fun c => (⟨c.ias, E.wrap c.key cek⟩ : Recip))).find? (fun r => r.ias = c.ias) = none := by
    simp only [List.find?_eq_none, List.mem_map, decide_eq_true_eq, forall_exists_index, and_imp]
    intro r a ha e
    subst e
    exact hn a ha
  simp [this]

/-- T1 `other_key_partial`: a recipient's certificate with another key yields content only through that
    key's un-wrapping of the recipient's wrapped key; if the wrap scheme refuses foreign keys (SM2: the C3
    hash check; RSA PKCS#1 v1.5: the padding check — both probabilistic facts outside this model), the
    result is an error. -/
theorem other_key_partial (E : EPrims) (cek content : Bytes) (rs : List Cert) (c : Cert) (sk : Nat)
    (hc : c ∈ rs) (hd : ∀ a ∈ rs, ∀ b ∈ rs, a.ias = b.ias → a = b)
    (hrefuse : E.unwrap sk (E.wrap c.key cek) = none) :
    ∃ e, decrypt E (encrypt E cek content rs) c sk = .error e := by
  unfold decrypt encrypt selectRecipient
  simp only [find_map_recip E cek rs c hc hd, hrefuse]
  split <;> exact ⟨_, rfl⟩

/-- Non-vacuity (a test): a toy scheme, three recipients, the second one decrypts. -/
def toyE : EPrims where
  wrap id k := BitVec.ofNat 8 id :: k
  unwrap id w := match w with | t :: k => if t = BitVec.ofNat 8 id then some k else none | [] => none
  enc k m := k ++ m
  dec k b := if b.take k.length = k then some (b.drop k.length) else none

example : decrypt toyE (encrypt toyE [7] [1, 2, 3] [⟨⟨[1], 5⟩, 1⟩, ⟨⟨[1], 6⟩, 2⟩, ⟨⟨[2], 5⟩, 3⟩]) ⟨⟨[1], 6⟩, 2⟩ 2 = .ok [1, 2, 3] := by rfl
example : decrypt toyE (encrypt toyE [7] [1, 2, 3] [⟨⟨[1], 5⟩, 1⟩, ⟨⟨[1], 6⟩, 2⟩]) ⟨⟨[1], 6⟩, 2⟩ 1 = .error .unwrapFailed := by rfl

end Enveloped
end Props.C17
