/-
C02 — SM2 encryption round-trips, matches GM/T 0003.4 and rejects forged ciphertexts.

`Spec.SM2.encryptWith/decrypt` is the standard's algorithm; the repaired code is compared with it
(sm2enc / sm2dec: every plaintext length class, both orderings, ASN.1 form, truncations, single-byte
changes, off-curve C1, wrong key) on every run.  Theorems about the specification: the KDF output
length, rejection of short and off-curve inputs for every key, and the decryption acceptance
criterion (accept ⇒ the hash equation holds: altering C2/C3 needs an SM3 collision).
-/
import Gmsm.Spec.SM2
namespace Props.C02
open Gmsm Spec.SM2

/-- T1 `decrypt_rejects_short`: anything too short to hold the format byte, C1 and C3 is an error -/
theorem decrypt_rejects_short (d : Nat) (ct : Bytes) (ord : Order) (h : ct.length < 97) :
    decrypt d ct ord = none := by
  unfold decrypt; simp [h]

/-- T1 `decrypt_rejects_offcurve`: a C1 that does not satisfy the curve equation is an error, for
    every private key and remaining content (so no scalar multiplication by d is ever performed on
    an invalid-curve point). -/
theorem decrypt_rejects_offcurve (d x1 y1 : Nat) (c3 c2 : Bytes) (h : onCurve (x1 % p) (y1 % p) = false) :
    decryptParsed d x1 y1 c3 c2 = none := by
  unfold decryptParsed; simp [h]

/-- T1 `decrypt_accepts_iff` (the direction that matters for forgery): if decryption returns a
    plaintext m then C3 = SM3(x₂ ‖ m ‖ y₂) for the shared point [d]C1 and m = C2 ⊕ KDF(x₂ ‖ y₂) — so
    accepting an altered C2 (hence an altered m) or an altered C3 requires two different inputs with
    the same SM3 value. -/
theorem decrypt_accepts_hash (d x1 y1 : Nat) (c3 c2 m : Bytes) (h : decryptParsed d x1 y1 c3 c2 = some m) :
    let sh := enc (smul d (dec (x1 % p) (y1 % p)))
    onCurve (x1 % p) (y1 % p) = true ∧
    m = xorBytes c2 (kdf (b32 sh.1 ++ b32 sh.2) c2.length) ∧
    Spec.SM3.hash (b32 sh.1 ++ m ++ b32 sh.2) = c3 := by
  intro sh
  unfold decryptParsed at h
  split at h
  · simp at h
  by_cases hc : onCurve (x1 % p) (y1 % p) = true
  · simp only [hc, Bool.not_true, Bool.false_eq_true, if_false] at h
    split at h
    · simp at h
    · split at h
      · rename_i heq
        simp only [Option.some.injEq] at h
        refine ⟨hc, h.symm, ?_⟩
        rw [← h]; exact heq
      · simp at h
  · have hc' : onCurve (x1 % p) (y1 % p) = false := by simpa using hc
    simp [hc'] at h

/-- the point-format octet is read (as repaired): a ciphertext that does not start with PC = 04 is an error -/
theorem decrypt_rejects_format (d : Nat) (ct : Bytes) (ord : Order) (h : ct.head? ≠ some 0x04) :
    decrypt d ct ord = none := by
  unfold decrypt
  split
  · rfl
  · simp [h]

/-- T1 `altered_implies_collision`: two ciphertexts with the same C1 and C3 that both decrypt, to
    different plaintexts, exhibit an SM3 collision on inputs x₂‖m‖y₂, x₂‖m'‖y₂. -/
theorem altered_implies_collision (d x1 y1 : Nat) (c3 c2 c2' m m' : Bytes)
    (h : decryptParsed d x1 y1 c3 c2 = some m) (h' : decryptParsed d x1 y1 c3 c2' = some m') :
    let sh := enc (smul d (dec (x1 % p) (y1 % p)))
    Spec.SM3.hash (b32 sh.1 ++ m ++ b32 sh.2) = Spec.SM3.hash (b32 sh.1 ++ m' ++ b32 sh.2) := by
  intro sh
  have a := (decrypt_accepts_hash d x1 y1 c3 c2 m h).2.2
  have b := (decrypt_accepts_hash d x1 y1 c3 c2' m' h').2.2
  exact a.trans b.symm

/-- the KDF returns exactly the requested number of bytes -/
theorem kdf_length (z : Bytes) (klen : Nat) : (kdf z klen).length = klen := by
  unfold kdf
  rw [List.length_take]
  have h32 : ∀ m : Bytes, (Spec.SM3.hash m).length = 32 := by
    intro m; simp [Spec.SM3.hash, Spec.SM3.regBytes, w32bytes]
  have : ∀ k : Nat, ((List.range k).flatMap fun i => Spec.SM3.hash (z ++ i2ospR 4 (i + 1))).length = 32 * k := by
    intro k
    induction k with
    | zero => simp
    | succ k ih => simp [List.range_succ, List.flatMap_append, ih, h32]; omega
  rw [this]; omega

/-- the empty plaintext is never encrypted (its KDF output is empty, "all zero" by the standard's test) -/
theorem encrypt_empty_none (px py k : Nat) (ord : Order) : encryptWith px py [] k ord = none := by
  unfold encryptWith
  simp [kdf]

end Props.C02
