/-
C07 (continued) — the SM4-CBC + HMAC-SM3 suite: a record produced by `halfConn.encrypt` is accepted by
`halfConn.decrypt` at the same sequence number and yields exactly the payload.
-/
import Gmsm.Props.C07
import Gmsm.Props.C04
import Gmsm.Proofs.Modes
namespace Props.C07
open Gmsm Model.Record Proofs.Modes

theorem hmacSM3_length (k m : Bytes) : (Spec.HMAC.hmacSM3 k m).length = 32 := by
  unfold Spec.HMAC.hmacSM3 Spec.HMAC.hmac
  exact Props.C04.hash_length _

theorem mac_length (k : Keys) (seq : Nat) (typ : Byte) (d : Bytes) : (mac k seq typ d).length = 32 :=
  hmacSM3_length _ _

theorem padCBC_length (b : Bytes) : (padCBC b).length = b.length + (16 - b.length % 16) := by
  simp [padCBC]

theorem padCBC_mod (b : Bytes) : (padCBC b).length % 16 = 0 := by
  rw [padCBC_length]; omega

/-- `extractPadding` undoes `padToBlockSize`: it reports the number of pad bytes and accepts them -/
theorem extractPadding_padCBC (b : Bytes) : extractPadding (padCBC b) = (16 - b.length % 16, true) := by
  have hm := Nat.mod_lt b.length (by decide : 0 < 16)
  generalize hp : 16 - b.length % 16 = p
  have hp1 : 1 ≤ p := by omega
  have hp2 : p ≤ 16 := by omega
  have hpad : padCBC b = b ++ List.replicate p (BitVec.ofNat 8 (p - 1)) := by simp [padCBC, hp]
  have hlast : (padCBC b).getLast? = some (BitVec.ofNat 8 (p - 1)) := by
    rw [hpad]
    obtain ⟨q, rfl⟩ : ∃ q, p = q + 1 := ⟨p - 1, by omega⟩
    rw [List.replicate_succ', ← List.append_assoc]
    simp
  have hnat : (BitVec.ofNat 8 (p - 1)).toNat = p - 1 := by
    simp only [BitVec.toNat_ofNat]; exact Nat.mod_eq_of_lt (by omega)
  unfold extractPadding
  rw [hlast]
  simp only [hnat]
  have e1 : p - 1 + 1 = p := by omega
  rw [e1]
  have hlen : (padCBC b).length = b.length + p := by rw [hpad]; simp
  have hdrop : (padCBC b).drop ((padCBC b).length - p) = List.replicate p (BitVec.ofNat 8 (p - 1)) := by
    rw [hlen, hpad]
    have : b.length + p - p = b.length := by omega
    rw [this, List.drop_left]
  rw [hdrop]
  have hall : (List.replicate p (BitVec.ofNat 8 (p - 1))).all (· == BitVec.ofNat 8 (p - 1)) = true := by
    simp [List.all_replicate]
  simp [hall, hlen]

theorem cbc_all_inv (key iv data : Bytes) (hiv : iv.length = 16) (hd : data.length % 16 = 0) :
    cbcDecAll key iv (cbcEncAll key iv data) = data ∧ (cbcEncAll key iv data).length = data.length := by
  unfold cbcDecAll cbcEncAll
  have hn : data.length = 16 * (data.length / 16) := by omega
  have hall : AllBlk (Spec.Modes.blocks (data.length / 16) data) := blocks_all _ _ (by omega)
  have hE : ∀ x, (Spec.SM4.encrypt key x).length = 16 := Props.C05.enc_length key
  have hca := cbcEnc_all (Spec.SM4.encrypt key) hE iv (Spec.Modes.blocks (data.length / 16) data)
  have hcl := cbcEnc_length (Spec.SM4.encrypt key) iv (Spec.Modes.blocks (data.length / 16) data)
  have hfl : (Spec.Modes.cbcEnc (Spec.SM4.encrypt key) iv (Spec.Modes.blocks (data.length / 16) data)).flatten.length
      = data.length := by
    rw [flatten_length _ hca, hcl, blocks_length]; omega
  refine ⟨?_, hfl⟩
  rw [hfl]
  have hb : Spec.Modes.blocks (data.length / 16)
      (Spec.Modes.cbcEnc (Spec.SM4.encrypt key) iv (Spec.Modes.blocks (data.length / 16) data)).flatten =
      Spec.Modes.cbcEnc (Spec.SM4.encrypt key) iv (Spec.Modes.blocks (data.length / 16) data) := by
    have := blocks_flatten _ hca []
    rw [hcl, blocks_length, List.append_nil] at this
    exact this
  rw [hb, cbc_inv (Spec.SM4.encrypt key) (Spec.SM4.decrypt key) (fun x hx => Props.C05.dec_enc key x hx) iv hiv _ hall hE]
  exact flatten_blocks _ _ hn

/-- T1 `decrypt_encrypt` (SM4-CBC + HMAC-SM3 suite): for every key material, sequence number, record type,
    16-byte explicit IV and payload, the record `halfConn.encrypt` writes is accepted by `halfConn.decrypt`
    at that sequence number and yields exactly the payload (MAC-then-pad-then-encrypt is undone in order:
    CBC decryption, padding check, MAC comparison). -/
theorem decrypt_encrypt_cbc (keys : Keys) (seq : Nat) (typ : Byte) (explicit payload : Bytes)
    (he : explicit.length = 16) :
    let h : Half := ⟨.cbc, keys, seq⟩
    (h.decrypt typ ((h.encrypt typ explicit payload).1.drop 5)).1 = some payload := by
  intro h
  have hm := mac_length keys seq typ payload
  generalize hbody : padCBC (payload ++ mac keys seq typ payload) = body
  have hbl : body.length = payload.length + 32 + (16 - (payload.length + 32) % 16) := by
    rw [← hbody, padCBC_length]; simp [hm]
  have hbm : body.length % 16 = 0 := by rw [← hbody]; exact padCBC_mod _
  obtain ⟨hinv, hcl⟩ := cbc_all_inv keys.key explicit body he hbm
  simp only [h, Half.encrypt, hbody]
  unfold Half.decrypt
  simp only
  have hhdr : (header typ (explicit.length + (cbcEncAll keys.key explicit body).length)).length = 5 := by
    simp [header, be16, i2ospR_length]
  rw [List.append_assoc, List.drop_left' hhdr]
  have hlen : (explicit ++ cbcEncAll keys.key explicit body).length = 16 + body.length := by simp [he, hcl]
  have hc1 : ¬ ((explicit ++ cbcEncAll keys.key explicit body).length % 16 ≠ 0 ∨
      (explicit ++ cbcEncAll keys.key explicit body).length < 64) := by rw [hlen]; omega
  rw [if_neg hc1, List.take_left' he, List.drop_left' he, hinv]
  have hex : extractPadding body = (16 - (payload.length + 32) % 16, true) := by
    rw [← hbody, extractPadding_padCBC]; simp [hm]
  rw [hex]
  simp only
  have hlt : ¬ body.length < 32 := by omega
  have hn : body.length - 32 - (16 - (payload.length + 32) % 16) = payload.length := by omega
  have hinner : (if body.length < 32 + (16 - (payload.length + 32) % 16) then 0
      else body.length - 32 - (16 - (payload.length + 32) % 16)) = payload.length := by
    rw [if_neg (by omega)]; exact hn
  rw [if_neg hlt]
  simp only [hinner]
  have hb2 : body = payload ++ (mac keys seq typ payload ++
      List.replicate (16 - (payload.length + 32) % 16) (BitVec.ofNat 8 (16 - (payload.length + 32) % 16 - 1))) := by
    rw [← hbody]; simp [padCBC, hm, List.append_assoc]
  have ht : body.take payload.length = payload := by rw [hb2, List.take_left' rfl]
  have hd : (body.drop payload.length).take 32 = mac keys seq typ payload := by
    rw [hb2, List.drop_left' rfl, List.take_left' hm]
  rw [ht, hd]
  simp

end Props.C07
