/-
C08 / C06 — GMSSL certificates issued by an intermediate CA (repair of the intermediates pool of the GMSSL client
and of the layout of the GMSSL server's Certificate message).

What was false before the repair: a client that trusts only the root completes with a server whose signing and
encryption certificates come from an intermediate CA.  The client verified certificates 0 and 1 of the message against
an EMPTY pool of intermediates (`empty_pool_needs_direct_issuer`: such a verification succeeds only for certificates a
root signed directly), and the server concatenated its two chains, so that a chain on the signing key pair pushed the
encryption certificate out of position 1.

What holds now (`Model.HandshakeAuth.serverChainOK`, `certList`):
  * the pool holds every certificate after the first two (`server_chain_uses_rest`), and a leaf → intermediate → root
    path through it is found (`chainOK_via_intermediate`, `client_verifies_via_intermediate`);
  * the server's message starts with the two end-entity certificates whatever chains the key pairs carry
    (`certList_leaves_first`), loses no CA certificate (`certList_complete`), repeats none (`certList_rest_nodup`),
    and is the old message when no key pair carries a chain (`certList_plain`).
-/
import Gmsm.Props.C08
namespace Props.C08Inter
open Model Model.HandshakeAuth

-- the server's Certificate message ---------------------------------------------------------------------------------

theorem dedupInto_mem (acc l : List Nat) (d : Nat) : d ∈ dedupInto acc l ↔ d ∈ acc ∨ d ∈ l := by
  induction l generalizing acc with
  | nil => simp [dedupInto]
  | cons x xs ih =>
    unfold dedupInto
    by_cases hx : acc.contains x = true
    · simp only [hx, if_true, ih, List.mem_cons]
      constructor
      · rintro (h | h)
        · exact Or.inl h
        · exact Or.inr (Or.inr h)
      · rintro (h | h | h)
        · exact Or.inl h
        · subst h; exact Or.inl (by simpa using hx)
        · exact Or.inr h
    · simp only [hx, Bool.false_eq_true, if_false, ih, List.mem_append, List.mem_cons, List.mem_nil_iff, or_false]
      constructor
      · rintro ((h | h) | h)
        · exact Or.inl h
        · exact Or.inr (Or.inl h)
        · exact Or.inr (Or.inr h)
      · rintro (h | h | h)
        · exact Or.inl (Or.inl h)
        · exact Or.inl (Or.inr h)
        · exact Or.inr h

theorem dedupInto_nodup (acc l : List Nat) (h : acc.Nodup) : (dedupInto acc l).Nodup := by
  induction l generalizing acc with
  | nil => simpa [dedupInto] using h
  | cons x xs ih =>
    unfold dedupInto
    by_cases hx : acc.contains x = true
    · simp only [hx, if_true]; exact ih acc h
    · simp only [hx, Bool.false_eq_true, if_false]
      apply ih
      have hx' : x ∉ acc := by simpa using hx
      rw [List.nodup_append]
      refine ⟨h, by simp, ?_⟩
      intro a ha b hb
      simp only [List.mem_cons, List.mem_nil_iff, or_false] at hb
      subst hb
      intro e; subst e; exact hx' ha

/-- T1 `certList_leaves_first` (repaired behaviour of the server): whatever chains the two key pairs carry and
    whatever further entries are configured, the message starts with the signing certificate and the encryption
    certificate; the CA certificates follow. -/
theorem certList_leaves_first (s e : Nat) (cs ce : List Nat) (more : List (List Nat)) :
    certList ((s :: cs) :: (e :: ce) :: more) = s :: e :: dedupInto [] (cs ++ (ce ++ more.flatten)) := by
  simp [certList]

/-- key pairs without chain: the message is what it always was (the wire format of existing deployments is unchanged) -/
theorem certList_plain (s e : Nat) : certList [[s], [e]] = [s, e] := by
  simp [certList, dedupInto]

/-- no certificate of a configured chain is lost … -/
theorem certList_complete (s e : Nat) (cs ce : List Nat) (more : List (List Nat)) (d : Nat)
    (h : d ∈ cs ∨ d ∈ ce ∨ ∃ m ∈ more, d ∈ m) : d ∈ (certList ((s :: cs) :: (e :: ce) :: more)).drop 2 := by
  rw [certList_leaves_first]
  simp only [List.drop_succ_cons, List.drop_zero, dedupInto_mem, List.not_mem_nil, false_or, List.mem_append,
    List.mem_flatten]
  rcases h with h | h | ⟨m, hm, hd⟩
  · exact Or.inl h
  · exact Or.inr (Or.inl h)
  · exact Or.inr (Or.inr ⟨m, hm, hd⟩)

/-- … nothing is invented … -/
theorem certList_sound (s e : Nat) (cs ce : List Nat) (more : List (List Nat)) (d : Nat)
    (h : d ∈ (certList ((s :: cs) :: (e :: ce) :: more)).drop 2) : d ∈ cs ∨ d ∈ ce ∨ ∃ m ∈ more, d ∈ m := by
  rw [certList_leaves_first] at h
  simp only [List.drop_succ_cons, List.drop_zero, dedupInto_mem, List.not_mem_nil, false_or, List.mem_append,
    List.mem_flatten] at h
  rcases h with h | h | ⟨m, hm, hd⟩
  · exact Or.inl h
  · exact Or.inr (Or.inl h)
  · exact Or.inr (Or.inr ⟨m, hm, hd⟩)

/-- … and a CA certificate that both chains carry is sent once -/
theorem certList_rest_nodup (chains : List (List Nat)) :
    (dedupInto [] (((chains.take 2).map List.tail ++ chains.drop 2).flatten)).Nodup :=
  dedupInto_nodup [] _ List.nodup_nil

-- the client's pool of intermediates -------------------------------------------------------------------------------------

/-- the pool with which certificates 0 and 1 are verified: the rest of the message -/
theorem server_chain_uses_rest (P : Prims) (c : Client) (ds de : Nat) (rest : List Nat) (i : Nat) :
    serverChainOK P c (ds :: de :: rest) i =
      match certAt P (ds :: de :: rest) i with
      | some p => chainOK c.roots (rest.filterMap fun r => (P.parse r).map (·.x)) p.x c.opts
      | none => false := rfl

/-- The defect, stated for the model as it was (pool = []): verification against an empty pool of intermediates
    succeeds only for a certificate that is itself a trust anchor or that a trust anchor signed directly.  Certificates
    issued by an intermediate CA could therefore never be accepted, whatever the server sent. -/
theorem empty_pool_needs_direct_issuer (roots : List X509.Cert) (leaf : X509.Cert) (o : X509.Opts)
    (h : chainOK roots [] leaf o = true) :
    roots.any (·.id == leaf.id) = true ∨ ∃ r ∈ roots, X509.checkSigFrom leaf r = true := by
  obtain ⟨_, _, _, chains, hne, hall⟩ := Props.C08.client_chain_meaning roots [] leaf o h
  cases chains with
  | nil => exact absurd rfl hne
  | cons ids _ =>
    obtain ⟨chain, _, hc⟩ := hall ids (by simp)
    rcases hc with ⟨_, hr⟩ | ⟨suffix, _, hg⟩
    · exact Or.inl hr
    · right
      match suffix, hg with
      | [r], hg =>
        obtain ⟨hr, ⟨c, hl, hs⟩, _, _⟩ := hg
        simp only [List.getLast?_singleton, Option.some.injEq] at hl
        subst hl
        exact ⟨r, hr, hs⟩
      | i :: r :: rest, hg =>
        have : i ∈ ([] : List X509.Cert) := hg.1
        exact absurd this (by simp)

theorem foldl_fst_mem {α β : Type} (f : List α × Nat → β → List α × Nat)
    (hf : ∀ acc i x, x ∈ acc.1 → x ∈ (f acc i).1) (l : List β) (acc : List α × Nat) (x : α) (hx : x ∈ acc.1) :
    x ∈ (l.foldl f acc).1 := by
  induction l generalizing acc with
  | nil => simpa using hx
  | cons i is ih => exact ih _ (hf acc i x hx)

/-- a root that signs the last certificate of the current chain completes it (`buildChains`, the roots are tried first) -/
theorem buildChains_root (roots inters : List X509.Cert) (o : X509.Opts) (fuel steps : Nat) (chain : List X509.Cert)
    (c root : X509.Cert) (hlast : chain.getLast? = some c) (hsteps : steps ≠ 0)
    (hr : root ∈ X509.findVerifiedParents roots c) (hfresh : chain.any (·.id == root.id) = false)
    (hv : X509.isValid root .root chain o = none) :
    chain ++ [root] ∈ (X509.buildChains roots inters o (fuel + 1) steps chain).1 := by
  unfold X509.buildChains
  simp only [hsteps, if_false, hlast]
  apply foldl_fst_mem
  · intro acc i x hx
    split
    · exact hx
    · split
      · exact hx
      · exact List.mem_append_left _ hx
  · simp only [List.mem_filterMap]
    exact ⟨root, hr, by simp [hfresh, hv]⟩

/-- the first intermediate that signs the last certificate of the current chain is followed (with the work budget
    left after this step) -/
theorem buildChains_inter (roots inters : List X509.Cert) (o : X509.Opts) (fuel steps : Nat) (chain : List X509.Cert)
    (c i : X509.Cert) (more : List X509.Cert) (hlast : chain.getLast? = some c) (hsteps : steps ≠ 0)
    (hcand : X509.findVerifiedParents inters c = i :: more) (hfresh : chain.any (·.id == i.id) = false)
    (hv : X509.isValid i .intermediate chain o = none) (x : List X509.Cert)
    (hx : x ∈ (X509.buildChains roots inters o fuel (steps - 1) (chain ++ [i])).1) :
    x ∈ (X509.buildChains roots inters o (fuel + 1) steps chain).1 := by
  unfold X509.buildChains
  simp only [hsteps, if_false, hlast, hcand, List.foldl_cons]
  apply foldl_fst_mem
  · intro acc j y hy
    split
    · exact hy
    · split
      · exact hy
      · exact List.mem_append_left _ hy
  · simp only [hfresh, hv, Option.isSome_none, Bool.false_eq_true, if_false]
    exact List.mem_append_right _ hx

/-- T1 `chainOK_via_intermediate` (completeness of `Verify` for the path leaf → intermediate → root): a leaf that is
    acceptable in itself, whose first candidate issuer in the pool of intermediates is a valid CA certificate that a
    trusted root signed, verifies — provided the path suits the requested key usages.  With the empty pool of the
    unrepaired client no such path exists (`empty_pool_needs_direct_issuer`). -/
theorem chainOK_via_intermediate (roots inters : List X509.Cert) (leaf inter root : X509.Cert) (more : List X509.Cert)
    (o : X509.Opts)
    (hcrit : leaf.critical = false) (hval : X509.isValid leaf .leaf [] o = none)
    (hhost : o.dnsName.length > 0 → X509.verifyHostname leaf o = true)
    (hnotroot : roots.any (·.id == leaf.id) = false)
    (hcand : X509.findVerifiedParents inters leaf = inter :: more)
    (hfresh : (leaf.id == inter.id) = false)
    (hiv : X509.isValid inter .intermediate [leaf] o = none)
    (hr : root ∈ X509.findVerifiedParents roots inter)
    (hrfresh : [leaf, inter].any (·.id == root.id) = false)
    (hrv : X509.isValid root .root [leaf, inter] o = none)
    (huse : X509.checkChainForKeyUsage [leaf, inter, root] (if o.usages.isEmpty then [1] else o.usages) = true) :
    chainOK roots inters leaf o = true := by
  have hmem : [leaf, inter, root] ∈
      (X509.buildChains roots inters o (roots.length + inters.length + 2) X509.maxSteps [leaf]).1 := by
    apply buildChains_inter roots inters o (roots.length + inters.length + 1) X509.maxSteps [leaf] leaf inter more
      (by simp) (by decide) hcand (by simpa using hfresh) hiv
    exact buildChains_root roots inters o (roots.length + inters.length) (X509.maxSteps - 1) [leaf, inter] inter root
      (by simp) (by decide) hr hrfresh hrv
  have hv : ∃ chains, X509.verify roots inters leaf o = .ok chains := by
    unfold X509.verify
    simp only [hcrit, Bool.false_eq_true, if_false, hval, hnotroot]
    have hh : (decide (o.dnsName.length > 0) && !X509.verifyHostname leaf o) = false := by
      by_cases hl : o.dnsName.length > 0
      · simp [hl, hhost hl]
      · simp [hl]
    simp only [hh, Bool.false_eq_true, if_false]
    have hne : (X509.buildChains roots inters o (roots.length + inters.length + 2) X509.maxSteps [leaf]).1.isEmpty = false := by
      cases hc : (X509.buildChains roots inters o (roots.length + inters.length + 2) X509.maxSteps [leaf]).1 with
      | nil => rw [hc] at hmem; cases hmem
      | cons _ _ => rfl
    simp only [hne, Bool.false_eq_true, if_false]
    by_cases hc0 : (if o.usages.isEmpty then [1] else o.usages).contains 0 = true
    · exact ⟨_, by simp only [hc0, if_true]; rfl⟩
    · have hg : [leaf, inter, root] ∈ (X509.buildChains roots inters o (roots.length + inters.length + 2) X509.maxSteps [leaf]).1.filter
          (X509.checkChainForKeyUsage · (if o.usages.isEmpty then [1] else o.usages)) :=
        List.mem_filter.mpr ⟨hmem, huse⟩
      have hge : ((X509.buildChains roots inters o (roots.length + inters.length + 2) X509.maxSteps [leaf]).1.filter
          (X509.checkChainForKeyUsage · (if o.usages.isEmpty then [1] else o.usages))).isEmpty = false := by
        cases hc : (X509.buildChains roots inters o (roots.length + inters.length + 2) X509.maxSteps [leaf]).1.filter
            (X509.checkChainForKeyUsage · (if o.usages.isEmpty then [1] else o.usages)) with
        | nil => rw [hc] at hg; cases hg
        | cons _ _ => rfl
      exact ⟨_, by simp only [hc0, Bool.false_eq_true, if_false, hge]; rfl⟩
  obtain ⟨chains, hv⟩ := hv
  unfold chainOK
  rw [hv]

/-- T1 `client_verifies_via_intermediate` (repaired behaviour of the client): in a message sign, enc, CA… the CA
    certificates that follow the two end-entity certificates are the pool against which BOTH are verified; a leaf whose
    issuer is the first matching certificate of that pool, signed by a trusted root, passes the chain check. -/
theorem client_verifies_via_intermediate (P : Prims) (c : Client) (ds de : Nat) (rest : List Nat) (i : Nat) (p : PCert)
    (inter root : X509.Cert) (more : List X509.Cert)
    (hp : certAt P (ds :: de :: rest) i = some p)
    (hcrit : p.x.critical = false) (hval : X509.isValid p.x .leaf [] c.opts = none)
    (hhost : c.opts.dnsName.length > 0 → X509.verifyHostname p.x c.opts = true)
    (hnotroot : c.roots.any (·.id == p.x.id) = false)
    (hcand : X509.findVerifiedParents (rest.filterMap fun r => (P.parse r).map (·.x)) p.x = inter :: more)
    (hfresh : (p.x.id == inter.id) = false)
    (hiv : X509.isValid inter .intermediate [p.x] c.opts = none)
    (hr : root ∈ X509.findVerifiedParents c.roots inter)
    (hrfresh : [p.x, inter].any (·.id == root.id) = false)
    (hrv : X509.isValid root .root [p.x, inter] c.opts = none)
    (huse : X509.checkChainForKeyUsage [p.x, inter, root] (if c.opts.usages.isEmpty then [1] else c.opts.usages) = true) :
    serverChainOK P c (ds :: de :: rest) i = true := by
  rw [server_chain_uses_rest, hp]
  exact chainOK_via_intermediate c.roots _ p.x inter root more c.opts hcrit hval hhost hnotroot hcand hfresh hiv hr hrfresh hrv huse

-- non-vacuity --------------------------------------------------------------------------------------------------------

section Examples
open Props.C08

/-- root (id 1, key 2000) → intermediate (id 3, key 2400) → signing / encryption / client certificates -/
def exInter : X509.Cert := ⟨3, 300, 100, 2400, 2000, none, none, -48, 48, true, true, -1, 96, [], [], [], "intermediate", [], false, false, 3⟩
/-- same name, another key, signed by an unknown CA -/
def exForeign : X509.Cert := ⟨4, 300, 200, 2500, 2100, none, none, -48, 48, true, true, -1, 96, [], [], [], "intermediate", [], false, false, 3⟩
/-- the intermediate's name and key, validity ended -/
def exExpired : X509.Cert := ⟨5, 300, 100, 2400, 2000, none, none, -72, -1, true, true, -1, 96, [], [], [], "intermediate", [], false, false, 3⟩
def exLeafI (id subj key ku : Nat) (eku : List Nat) : X509.Cert :=
  ⟨id, subj, 300, key, 2400, none, none, -24, 24, false, false, -1, ku, [], [], ["10.1.2.3"], "", eku, false, false, 3⟩
def exTableI : List (Nat × PCert) :=
  [(3, ⟨exInter, true⟩), (4, ⟨exForeign, true⟩), (5, ⟨exExpired, true⟩),
   (80, ⟨exLeafI 80 110 2401 1 [1], true⟩), (81, ⟨exLeafI 81 111 2402 28 [1], true⟩), (82, ⟨exLeafI 82 182 2403 1 [2], true⟩)]
def exPI : Prims := ideal exTableI
/-- trusts the root only; presents a certificate of the intermediate CA together with it -/
def exClientI : Client := { exClient with cert := [82, 3], key := 2403 }
def exServerI (chains : List (List Nat)) (pol : Policy) : Server :=
  { exServer pol with certs := certList chains, encDer := 81, signKey := 2401, decKey := 2402 }

def both (o : Outcome) : Bool × Bool := (o.clientDone, o.serverDone)

/-- every way of supplying the chain completes, without and with mutual authentication … -/
example : both (run exPI exClientI (exServerI [[80], [81, 3]] .noClientCert) {}) = (true, true) := by decide +kernel
example : both (run exPI exClientI (exServerI [[80, 3], [81, 3]] .noClientCert) {}) = (true, true) := by decide +kernel
example : both (run exPI exClientI (exServerI [[80, 3], [81]] .requireAndVerifyClientCert) {}) = (true, true) := by decide +kernel
example : both (run exPI exClientI (exServerI [[80], [81], [3]] .requireAndVerifyClientCert) {}) = (true, true) := by decide +kernel
example : certList [[80, 3], [81, 3]] = [80, 81, 3] := by decide
/-- … while a server that does not send the intermediate, sends another CA's, or an expired one is refused -/
example : both (run exPI exClientI (exServerI [[80], [81]] .noClientCert) {}) = (false, false) := by decide +kernel
example : both (run exPI exClientI (exServerI [[80], [81, 4]] .noClientCert) {}) = (false, false) := by decide +kernel
example : both (run exPI exClientI (exServerI [[80], [81, 5]] .noClientCert) {}) = (false, false) := by decide +kernel
/-- a client certificate of the intermediate CA sent without it is refused by a verifying server -/
example : both (run exPI { exClientI with cert := [82] } (exServerI [[80], [81, 3]] .requireAndVerifyClientCert) {}) = (false, false) := by
  decide +kernel
/-- the hypotheses of `client_verifies_via_intermediate` hold for this message: the theorem is not vacuous -/
example : serverChainOK exPI exClientI [80, 81, 3] 0 = true :=
  client_verifies_via_intermediate exPI exClientI 80 81 [3] 0 ⟨exLeafI 80 110 2401 1 [1], true⟩ exInter exCA []
    (by decide) (by decide) (by decide) (by decide +kernel) (by decide) (by decide) (by decide) (by decide) (by decide) (by decide) (by decide)
    (by decide)

end Examples

end Props.C08Inter
