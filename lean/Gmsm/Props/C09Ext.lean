/-
C09 (extension codecs) — the KeyUsage and BasicConstraints encoders / decoders that x509/x509.go implements by
hand around encoding/asn1, on which "issued certificates parse back" relies.  Theorems about `Model.X509Ext`;
the model is run against x509.CreateCertificate / x509.ParseCertificate by the ops `kuext` (all 512 key
usages) and `bcext` (harness/c09ext.go, Driver/X509Ext.lean), extension value bytes and parsed fields compared.
-/
import Gmsm.Model.X509Ext
namespace Props.C09Ext
open Gmsm Model.X509Ext

/-- a statement about all bytes follows from its 256 instances (so that `decide` can enumerate them) -/
theorem byte_forall (P : BitVec 8 → Prop) (h : ∀ f : Fin 256, P (BitVec.ofFin f)) : ∀ b, P b := fun b => h b.toFin

/-- a statement about all `ku < 2^9` follows from its 512 instances -/
theorem fin512_forall (P : Nat → Prop) (h : ∀ f : Fin 512, P f.val) : ∀ ku, ku < 2 ^ 9 → P ku :=
  fun ku hk => h ⟨ku, hk⟩

-- (a) KeyUsage -----------------------------------------------------------------------------------------------

/-- `reverseBitsInAByte` reverses: bit i of the result is bit 7-i of the argument (all 256 bytes, all 8 bits). -/
theorem reverseBits_spec (b : BitVec 8) (i : Nat) (hi : i < 8) :
    (reverseBits b).getLsbD i = b.getLsbD (7 - i) := by
  revert i
  revert b
  apply byte_forall
  decide +kernel

/-- … and is its own inverse. -/
theorem reverseBits_involutive (b : BitVec 8) : reverseBits (reverseBits b) = b := by
  revert b
  apply byte_forall
  decide +kernel

/-- number of trailing (least significant) zero bits of a byte, 8 for the zero byte -/
def ctz8 (b : Byte) : Nat := ((List.range 8).takeWhile (fun i => !b.getLsbD i)).length

/-- `ctz8` is what its name says: bits below it are zero, the bit at it is set (all 256 bytes) -/
theorem ctz8_spec (b : Byte) :
    ctz8 b ≤ 8 ∧ (ctz8 b = 8 ↔ b = 0) ∧ (∀ j, j < ctz8 b → b.getLsbD j = false) ∧ (b ≠ 0 → b.getLsbD (ctz8 b) = true) := by
  revert b
  apply byte_forall
  decide +kernel

/-- the inner loop of `asn1BitLength` falls through exactly on the zero byte and otherwise returns after as many
    decrements as the byte has trailing zero bits -/
theorem scanByte_eq (b : Byte) : scanByte b 8 = if b = 0 then none else some (ctz8 b) := by
  revert b
  apply byte_forall
  decide +kernel

/-- number of trailing zero bits of a byte string given last byte first -/
def trailingZeroBits : List Byte → Nat
  | [] => 0
  | b :: rest => if b = 0 then 8 + trailingZeroBits rest else ctz8 b

theorem asn1BitLengthRev_spec (r : List Byte) (L : Nat) :
    asn1BitLengthRev r L = if r.all (· = 0) then 0 else L - trailingZeroBits r := by
  induction r generalizing L with
  | nil => simp [asn1BitLengthRev]
  | cons b rest ih =>
    unfold asn1BitLengthRev trailingZeroBits
    rw [scanByte_eq]
    by_cases hb : b = 0
    · simp only [hb, if_true, List.all_cons, decide_true, Bool.true_and]
      rw [ih]
      split <;> omega
    · have hb2 : ¬ b = 0#8 := hb
      simp [hb2]

/-- `asn1BitLength_spec`: for every byte string, `asn1BitLength` is 0 when all bytes are zero (or there are none)
    and otherwise 8·len minus the number of trailing zero bits (counted from the least significant bit of the
    last byte backwards) — i.e. the ASN.1 index of the last set bit, plus one. -/
theorem asn1BitLength_spec (bs : Bytes) :
    asn1BitLength bs = if bs.all (· = 0) then 0 else 8 * bs.length - trailingZeroBits bs.reverse := by
  unfold asn1BitLength
  rw [asn1BitLengthRev_spec]
  simp [Nat.mul_comm]

/-- Non-vacuity (tests): the examples of the comment in x509.go's caller and the boundary shapes. -/
example : asn1BitLength [0x80] = 1 ∧ asn1BitLength [0x01] = 8 ∧ asn1BitLength [0xff, 0x80] = 9 ∧
    asn1BitLength [0x05, 0x00] = 8 ∧ asn1BitLength [0, 0] = 0 ∧ asn1BitLength [] = 0 := by decide

/-- `keyUsage_roundtrip`: for every KeyUsage value the package defines (the nine bits digitalSignature …
    decipherOnly, `ku < 2^9`; the table of all 512 values is checked by the kernel), what `parseCertificate`'s
    nine `At(i)` reads compute from the BitString that `buildExtensions` builds is the template's value. -/
theorem keyUsage_roundtrip (ku : Nat) (h : ku < 2 ^ 9) : decodeKeyUsage (encodeKeyUsage ku) = ku := by
  revert ku
  apply fin512_forall
  decide +kernel

/-- The encoder alone is the RFC 5280 one: named bit i of the BIT STRING (bit 7 - i%8 of byte i/8) is bit i of
    the KeyUsage value (`KeyUsageDigitalSignature = 1 << 0` is named bit 0 …), independently of the decoder. -/
theorem keyUsage_named_bits (ku : Nat) (h : ku < 2 ^ 9) :
    ∀ i, i < 9 → bitAt (encodeKeyUsage ku).1 (encodeKeyUsage ku).2 i = (ku >>> i) % 2 := by
  revert ku
  apply fin512_forall
  decide +kernel

/-- `keyUsage_minimal` (DER, X.690 11.2.2 for named-bit lists): for every non-zero `ku < 2^9` the BitString has
    one or two bytes, its last byte is not zero (the `l = 2` rule), its BitLength is positive, needs exactly that
    many bytes, names a set bit last (no trailing zero bit is counted: `asn1BitLength` is minimal) and every
    bit of the bytes at or beyond BitLength — the padding bits — is zero. -/
theorem keyUsage_minimal (ku : Nat) (h : ku < 2 ^ 9) (h0 : ku ≠ 0) :
    let s := encodeKeyUsage ku
    (s.1.length = 1 ∨ s.1.length = 2) ∧ s.1.getLastD 0 ≠ 0 ∧
    0 < s.2 ∧ s.1.length = (s.2 + 7) / 8 ∧
    bitAt s.1 s.2 (s.2 - 1) = 1 ∧
    (∀ i, i < 16 → s.2 ≤ i → ((s.1.getD (i / 8) 0 >>> (7 - i % 8)) &&& 1) = 0) := by
  revert h0
  revert ku
  apply fin512_forall
  decide +kernel

/-- `keyUsage_injective`: different key usages give different BitStrings. -/
theorem keyUsage_injective (a b : Nat) (ha : a < 2 ^ 9) (hb : b < 2 ^ 9)
    (h : encodeKeyUsage a = encodeKeyUsage b) : a = b := by
  have ra := keyUsage_roundtrip a ha
  rw [h, keyUsage_roundtrip b hb] at ra
  exact ra.symm

/-- Bits the parser does not read are lost: a template value with bits above decipherOnly comes back reduced
    modulo 2^9 (checked for all values below 2^10; `KeyUsage` has no such constants). -/
theorem keyUsage_high_bit_dropped (ku : Nat) (h : ku < 2 ^ 10) : decodeKeyUsage (encodeKeyUsage ku) = ku % 2 ^ 9 := by
  have key : ∀ f : Fin 1024, decodeKeyUsage (encodeKeyUsage f.val) = f.val % 2 ^ 9 := by decide +kernel
  exact key ⟨ku, h⟩

-- (c) the extension value bytes ----------------------------------------------------------------------------------

/-- The value of extension 2.5.29.15 is `03 <len+1> <unused> <b0> [<b1>]` with the unused-bits octet equal to
    `8*len - BitLength` (what `bitStringEncoder` computes as `(8 - BitLength%8) % 8`), for every non-zero `ku < 2^9`. -/
theorem keyUsage_ext_shape (ku : Nat) (h : ku < 2 ^ 9) (h0 : ku ≠ 0) :
    let s := encodeKeyUsage ku
    keyUsageExt ku = some ([0x03, BitVec.ofNat 8 (s.1.length + 1), BitVec.ofNat 8 (8 * s.1.length - s.2)] ++ s.1) := by
  revert h0
  revert ku
  apply fin512_forall
  decide +kernel

/-- `keyUsage_ext_roundtrip`: through the DER layer as well — the extension value written (or no extension, for
    `ku = 0`) is accepted by the BIT STRING parser (padding ≤ 7, padding bits zero) and yields `ku`. -/
theorem keyUsage_ext_roundtrip (ku : Nat) (h : ku < 2 ^ 9) : parseKeyUsageExt (keyUsageExt ku) = some ku := by
  revert ku
  apply fin512_forall
  decide +kernel

/-- Non-vacuity (tests): digitalSignature|keyEncipherment, cRLSign|keyCertSign, decipherOnly alone. -/
example : keyUsageExt 5 = some [0x03, 0x02, 0x05, 0xa0] ∧ keyUsageExt 96 = some [0x03, 0x02, 0x01, 0x06] ∧
    keyUsageExt 256 = some [0x03, 0x03, 0x07, 0x00, 0x80] ∧ keyUsageExt 0 = none := by decide +kernel

-- (b) BasicConstraints ---------------------------------------------------------------------------------------

/-- `basicConstraints_roundtrip`: for EVERY template (IsCA, MaxPathLen, MaxPathLenZero) with
    BasicConstraintsValid — the pinned creator refuses none — the parsed certificate has
    BasicConstraintsValid, the same IsCA, MaxPathLen = the effective path length (the template's MaxPathLen,
    except that 0 without MaxPathLenZero means "unset" and is -1) and MaxPathLenZero = (effective length = 0). -/
theorem basicConstraints_roundtrip (t : BCTemplate) :
    decodeBC (encodeBC t) = ⟨true, t.isCA, effectivePathLen t, effectivePathLen t == 0⟩ := rfl

/-- the creator's rule, as a case distinction -/
theorem effectivePathLen_cases (t : BCTemplate) :
    (t.maxPathLen = 0 ∧ t.maxPathLenZero = false ∧ effectivePathLen t = -1) ∨
    (¬ (t.maxPathLen = 0 ∧ t.maxPathLenZero = false) ∧ effectivePathLen t = t.maxPathLen) := by
  unfold effectivePathLen
  by_cases h : t.maxPathLen = 0 ∧ t.maxPathLenZero = false
  · left; simp [h]
  · right; refine ⟨h, ?_⟩
    rw [if_neg]; simpa using h

/-- `basicConstraints_survives_iff`: the template fields come back literally exactly when MaxPathLenZero is set
    iff MaxPathLen is 0.  The combinations that do NOT survive are the two below. -/
theorem basicConstraints_survives_iff (t : BCTemplate) :
    decodeBC (encodeBC t) = ⟨true, t.isCA, t.maxPathLen, t.maxPathLenZero⟩ ↔ (t.maxPathLenZero = true ↔ t.maxPathLen = 0) := by
  obtain ⟨ca, n, z⟩ := t
  simp only [decodeBC, encodeBC, effectivePathLen, BCParsed.mk.injEq, true_and]
  by_cases hn : n = 0 <;> cases z <;> simp [hn]

/-- MaxPathLen = 0 with MaxPathLenZero = false is "unset": no pathLenConstraint is written, -1 comes back. -/
theorem basicConstraints_unset (ca : Bool) : decodeBC (encodeBC ⟨ca, 0, false⟩) = ⟨true, ca, -1, false⟩ := rfl

/-- MaxPathLenZero = true with a non-zero MaxPathLen: the length is kept, the flag is not. -/
theorem basicConstraints_flag_lost (ca : Bool) (n : Int) (h : n ≠ 0) :
    decodeBC (encodeBC ⟨ca, n, true⟩) = ⟨true, ca, n, false⟩ := by
  simp [decodeBC, encodeBC, effectivePathLen, h]

/-- the effective path length (what a verifier will enforce) always survives a second round: issuing again from
    the parsed fields gives the same wire struct -/
theorem basicConstraints_stable (t : BCTemplate) :
    let p := decodeBC (encodeBC t)
    encodeBC ⟨p.isCA, p.maxPathLen, p.maxPathLenZero⟩ = encodeBC t := by
  obtain ⟨ca, n, z⟩ := t
  simp only [decodeBC, encodeBC, effectivePathLen, BCWire.mk.injEq, true_and]
  by_cases hn : n = 0 <;> cases z <;> simp [hn] <;> omega

-- DER of the wire struct -------------------------------------------------------------------------------------

/-- mask tests on a byte as statements about its value (all 256 bytes) -/
theorem byte_facts (b : Byte) :
    (b &&& 0x80 = 0 ↔ b.toNat < 128) ∧ (b &&& 0x80 = 0x80 ↔ 128 ≤ b.toNat) ∧ (b = 0 ↔ b.toNat = 0) ∧ (b = 0xff ↔ b.toNat = 255) := by
  revert b
  apply byte_forall
  decide +kernel

theorem toNat_ofInt8 (i : Int) : ((BitVec.ofInt 8 i).toNat : Int) = i % 256 := by
  simp [BitVec.toNat_ofInt]
  omega

theorem toInt_ofInt8 (i : Int) (h1 : -128 ≤ i) (h2 : i ≤ 127) : (BitVec.ofInt 8 i).toInt = i := by
  rw [BitVec.toInt_ofInt]
  unfold Int.bmod
  have e : ((2 ^ 8 : Nat) : Int) = 256 := by decide
  simp only [e]
  split <;> omega

theorem signedValue_snoc (xs : Bytes) (h : xs ≠ []) (b : Byte) :
    signedValue (xs ++ [b]) = signedValue xs * 256 + (b.toNat : Int) := by
  cases xs with
  | nil => exact absurd rfl h
  | cons a rest => simp [signedValue, List.foldl_append]

theorem encodeIntAux_ne_nil (f : Nat) (i : Int) : encodeIntAux f i ≠ [] := by
  cases f with
  | zero => simp [encodeIntAux]
  | succ f => unfold encodeIntAux; split <;> simp

theorem encodeIntAux_length (f : Nat) (i : Int) : (encodeIntAux f i).length ≤ f + 1 := by
  induction f generalizing i with
  | zero => simp [encodeIntAux]
  | succ f ih =>
    unfold encodeIntAux; split
    · have := ih (i / 256); simp; omega
    · simp

/-- the bytes of `int64Encoder` denote the number, given enough room (`f` extra bytes) -/
theorem signedValue_encodeIntAux (f : Nat) (i : Int) (h1 : -(128 * 256 ^ f) ≤ i) (h2 : i < 128 * 256 ^ f) :
    signedValue (encodeIntAux f i) = i := by
  induction f generalizing i with
  | zero =>
    simp only [Int.pow_zero] at h1 h2
    simp only [encodeIntAux, signedValue, List.foldl_nil]
    exact toInt_ofInt8 i (by omega) (by omega)
  | succ f ih =>
    rw [Int.pow_succ] at h1 h2
    unfold encodeIntAux
    split
    · rw [signedValue_snoc _ (encodeIntAux_ne_nil _ _), ih (i / 256) (by omega) (by omega), toNat_ofInt8]
      omega
    · simp only [signedValue, List.foldl_nil]
      exact toInt_ofInt8 i (by omega) (by omega)

/-- `checkInteger`'s minimality condition -/
def minimalInt : Bytes → Prop
  | b0 :: b1 :: _ => ¬ ((b0 = 0 ∧ b1 &&& 0x80 = 0) ∨ (b0 = 0xff ∧ b1 &&& 0x80 = 0x80))
  | _ => True

theorem minimalInt_append (xs ys : Bytes) (hl : 2 ≤ xs.length) (h : minimalInt xs) : minimalInt (xs ++ ys) := by
  match xs, hl with
  | a :: b :: tl, _ => exact h

theorem encodeIntAux_small (f : Nat) (q : Int) (h1 : -128 ≤ q) (h2 : q ≤ 127) : encodeIntAux f q = [BitVec.ofInt 8 q] := by
  cases f with
  | zero => rfl
  | succ f => unfold encodeIntAux; rw [if_neg (by omega)]

theorem encodeIntAux_long (f : Nat) (q : Int) (h : q > 127 ∨ q < -128) : 2 ≤ (encodeIntAux (f + 1) q).length := by
  unfold encodeIntAux
  rw [if_pos h]
  have := encodeIntAux_ne_nil f (q / 256)
  cases hx : encodeIntAux f (q / 256) with
  | nil => exact absurd hx this
  | cons a t => simp

/-- `int64Length` never produces a redundant leading 00 / ff: `checkInteger` accepts what `int64Encoder` writes -/
theorem encodeIntAux_minimal (f : Nat) (i : Int) (h1 : -(128 * 256 ^ f) ≤ i) (h2 : i < 128 * 256 ^ f) :
    minimalInt (encodeIntAux f i) := by
  induction f generalizing i with
  | zero => simp [encodeIntAux, minimalInt]
  | succ f ih =>
    rw [Int.pow_succ] at h1 h2
    unfold encodeIntAux
    split
    · rename_i hout
      by_cases hq : -128 ≤ i / 256 ∧ i / 256 ≤ 127
      · rw [encodeIntAux_small f _ hq.1 hq.2]
        simp only [List.cons_append, List.nil_append, minimalInt]
        obtain ⟨_, _, z0, zf⟩ := byte_facts (BitVec.ofInt 8 (i / 256))
        obtain ⟨m0, m1, _, _⟩ := byte_facts (BitVec.ofInt 8 i)
        have t0 := toNat_ofInt8 (i / 256)
        have t1 := toNat_ofInt8 i
        rw [z0, zf, m0, m1]
        omega
      · cases f with
        | zero => simp only [Int.pow_zero] at h1 h2; omega
        | succ f =>
          apply minimalInt_append
          · exact encodeIntAux_long f _ (by omega)
          · exact ih _ (by omega) (by omega)
    · simp [minimalInt]

theorem parseInt64_eq (bs : Bytes) (hne : bs ≠ []) (hmin : minimalInt bs) (hlen : bs.length ≤ 8) :
    parseInt64 bs = some (signedValue bs) := by
  match bs, hne with
  | [_], _ => rfl
  | b0 :: b1 :: tl, _ =>
    simp only [minimalInt] at hmin
    simp only [parseInt64]
    rw [if_neg hmin, if_neg (by omega)]

/-- the INTEGER content octets written for a Go `int` are read back as the same number: every int64 -/
theorem int_roundtrip (i : Int) (h1 : -(2 ^ 63) ≤ i) (h2 : i < 2 ^ 63) : parseInt64 (encodeInt i) = some i := by
  have e : (128 : Int) * 256 ^ 7 = 2 ^ 63 := by decide
  unfold encodeInt
  rw [parseInt64_eq _ (encodeIntAux_ne_nil _ _) (encodeIntAux_minimal 7 i (by omega) (by omega)) (encodeIntAux_length 7 i),
    signedValue_encodeIntAux 7 i (by omega) (by omega)]

/-- a short-form TLV is read back as its tag and content, leaving what follows -/
theorem readTLV_tlv (tag : Byte) (c rest : Bytes) (ht : ¬ tag &&& 0x1f = 0x1f) (hc : c.length < 128) :
    readTLV (tlv tag c ++ rest) = some (tag, c, rest) := by
  have hl : (BitVec.ofNat 8 c.length).toNat = c.length := by
    simp only [BitVec.toNat_ofNat]; omega
  simp only [tlv, List.cons_append, readTLV, hl]
  have hcond : ¬ (tag &&& 0x1f = 0x1f ∨ c.length ≥ 128 ∨ (c ++ rest).length < c.length) := by
    simp only [List.length_append]
    intro h
    rcases h with h | h | h
    · exact ht h
    · omega
    · omega
  rw [if_neg hcond]
  simp

theorem encodeInt_length (i : Int) : 1 ≤ (encodeInt i).length ∧ (encodeInt i).length ≤ 8 := by
  refine ⟨?_, encodeIntAux_length 7 i⟩
  have := encodeIntAux_ne_nil 7 i
  unfold encodeInt
  cases h : encodeIntAux 7 i with
  | nil => exact absurd h this
  | cons a t => simp

theorem parseOptInt_field (i : Int) (h1 : -(2 ^ 63) ≤ i) (h2 : i < 2 ^ 63) :
    parseOptInt (if i = -1 then [] else tlv 0x02 (encodeInt i)) = some i := by
  by_cases h : i = -1
  · subst h; rfl
  · rw [if_neg h]
    have hl := encodeInt_length i
    have r := readTLV_tlv 0x02 (encodeInt i) [] (by decide) (by omega)
    rw [List.append_nil] at r
    have : parseOptInt (tlv 0x02 (encodeInt i)) = parseInt64 (encodeInt i) := by
      rw [show tlv 0x02 (encodeInt i) = 0x02 :: BitVec.ofNat 8 (encodeInt i).length :: encodeInt i from rfl] at r ⊢
      simp only [parseOptInt, r]
      simp
    rw [this, int_roundtrip i h1 h2]

/-- the bytes `asn1.Marshal` writes for the wire struct are read back by `asn1.Unmarshal` as the same struct:
    every IsCA and every int64 MaxPathLen (-1, the `default`, is omitted and comes back as the default) -/
theorem marshalBC_roundtrip (w : BCWire) (h1 : -(2 ^ 63) ≤ w.maxPathLen) (h2 : w.maxPathLen < 2 ^ 63) :
    unmarshalBC (marshalBC w) = some w := by
  obtain ⟨ca, n⟩ := w
  have hl := encodeInt_length n
  have pf := parseOptInt_field n h1 h2
  unfold marshalBC unmarshalBC
  generalize hI : (if n = -1 then [] else tlv 0x02 (encodeInt n)) = I at pf
  have hIlen : I.length ≤ 10 := by
    rw [← hI]; split
    · simp
    · simp [tlv]; omega
  simp only
  cases ca with
  | true =>
    have r := readTLV_tlv 0x30 (tlv 0x01 [0xff] ++ I) [] (by decide) (by simp [tlv]; omega)
    rw [List.append_nil] at r
    simp only [if_true, r]
    have r2 := readTLV_tlv 0x01 [0xff] I (by decide) (by simp)
    have pb : parseOptBool (tlv 0x01 [0xff] ++ I) = some (true, I) := by
      rw [show tlv 0x01 [0xff] ++ I = 0x01 :: 0x01 :: 0xff :: I from rfl] at r2 ⊢
      simp only [parseOptBool, r2]
      simp
    rw [pb]; simp only; rw [pf]; simp
  | false =>
    have r := readTLV_tlv 0x30 I [] (by decide) (by omega)
    rw [List.append_nil] at r
    simp only [Bool.false_eq_true, if_false, List.nil_append, r]
    have pb : parseOptBool I = some (false, I) := by
      rw [← hI]
      split
      · rfl
      · have r2 := readTLV_tlv 0x02 (encodeInt n) [] (by decide) (by omega)
        rw [List.append_nil] at r2
        rw [show tlv 0x02 (encodeInt n) = 0x02 :: BitVec.ofNat 8 (encodeInt n).length :: encodeInt n from rfl] at r2 ⊢
        simp only [parseOptBool, r2]
        simp
    rw [pb]; simp only; rw [pf]; simp

/-- `basicConstraints_ext_roundtrip`: through the DER layer — the extension value bytes written for any template
    whose MaxPathLen is a Go `int` are parsed back to (valid, IsCA, effective length, effective length = 0). -/
theorem basicConstraints_ext_roundtrip (t : BCTemplate) (h1 : -(2 ^ 63) ≤ t.maxPathLen) (h2 : t.maxPathLen < 2 ^ 63) :
    parseBasicConstraintsExt (basicConstraintsExt t) =
      some ⟨true, t.isCA, effectivePathLen t, effectivePathLen t == 0⟩ := by
  unfold parseBasicConstraintsExt basicConstraintsExt
  have hr : -(2 ^ 63) ≤ (encodeBC t).maxPathLen ∧ (encodeBC t).maxPathLen < 2 ^ 63 := by
    simp only [encodeBC]
    rcases effectivePathLen_cases t with ⟨_, _, e⟩ | ⟨_, e⟩ <;> rw [e] <;> omega
  rw [marshalBC_roundtrip _ hr.1 hr.2]
  rfl

/-- Non-vacuity (tests): CA with pathLenConstraint 0, CA without, end entity, a two-byte length. -/
example : basicConstraintsExt ⟨true, 0, true⟩ = [0x30, 0x06, 0x01, 0x01, 0xff, 0x02, 0x01, 0x00] ∧
    basicConstraintsExt ⟨true, 0, false⟩ = [0x30, 0x03, 0x01, 0x01, 0xff] ∧
    basicConstraintsExt ⟨false, -1, false⟩ = [0x30, 0x00] ∧
    basicConstraintsExt ⟨true, 255, false⟩ = [0x30, 0x07, 0x01, 0x01, 0xff, 0x02, 0x02, 0x00, 0xff] := by decide +kernel
example : parseBasicConstraintsExt [0x30, 0x06, 0x01, 0x01, 0xff, 0x02, 0x01, 0x00] = some ⟨true, true, 0, true⟩ := by decide +kernel
/-- a redundant leading zero in the INTEGER is refused, as `checkInteger` does -/
example : parseBasicConstraintsExt [0x30, 0x04, 0x02, 0x02, 0x00, 0x05] = none := by decide +kernel

end Props.C09Ext
