/-
C15 — a misbehaving handshake peer gets an error, never completion, a crash or a hang.
Theorems about `Model.Handshake`: the message-acceptance automaton of the gmtls endpoints (record layer rules
of `readRecord` / `readHandshake` plus the per-state type assertions of the four handshake state machines), and
the version dispatch of the three server modes.
-/
import Gmsm.Model.Handshake
namespace Props.C15
open Model.Handshake

-- one step ---------------------------------------------------------------------------------------------------

/-- A step that continues either absorbed a tolerated event without leaving the phase, or consumed a message the
    phase accepts (`next`), which also clears the warning-alert count. -/
theorem step_cont (c : Cfg) (s s' : State) (m : Msg) (h : step c s m = .cont s') :
    (tolerated m = true ∧ s'.phase = s.phase) ∨
    (tolerated m = false ∧ next c s.phase m = some (some s'.phase) ∧ s'.warn = 0) := by
  cases m <;> simp only [step] at h <;> (try split at h) <;> (try split at h) <;> (try split at h) <;>
    first
    | (cases h; simp [tolerated]; done)
    | (simp at h; done)
    | (injection h with h; subst h; simp_all [tolerated]; done)
    | skip

/-- A step that completes the handshake consumed the last message of the flight. -/
theorem step_done (c : Cfg) (s : State) (m : Msg) (h : step c s m = .done) :
    tolerated m = false ∧ next c s.phase m = some none := by
  cases m <;> simp only [step] at h <;> (try split at h) <;> (try split at h) <;> (try split at h) <;>
    first
    | (simp at h; done)
    | (simp_all [tolerated]; done)
    | skip

-- the accepted language --------------------------------------------------------------------------------------

theorem suffixes_ite (c : Cfg) (b : Prop) [Decidable b] (p q : Phase) :
    suffixes c (if b then p else q) = if b then suffixes c p else suffixes c q := by split <;> rfl

/-- `suffixes` is closed under the transitions of `next` … -/
theorem next_suffix (c : Cfg) (p p' : Phase) (m : Msg) (h : next c p m = some (some p')) (r : List Msg)
    (hr : r ∈ suffixes c p') : m :: r ∈ suffixes c p := by
  cases p <;> cases m <;> simp only [next] at h <;> (try (split at h)) <;> (try (simp at h; done)) <;>
    (simp only [Option.some.injEq] at h; subst h) <;>
    (try simp only [afterHelloDone, suffixes_ite] at hr) <;> (simp only [suffixes] at hr ⊢) <;>
    (simp_all [sHelloL, sCertL, sKeyExchangeL, sCertVerifyL, sCCSL, sNextProtoL, sFinishedL, cHelloL, cCertL,
      cSKXL, cAfterCertL, cAfterStatusL, cAfterSKXL, cDoneNoSKXL, cHelloDoneL, cPostL, cTicketL, cCCSL, cFinishedL, pre])

/-- … and contains the one-message flights that complete the handshake. -/
theorem next_last (c : Cfg) (p : Phase) (m : Msg) (h : next c p m = some none) : [m] ∈ suffixes c p := by
  cases p <;> cases m <;> simp only [next] at h <;> (try (split at h)) <;> (try (simp at h; done)) <;>
    simp [suffixes, sFinishedL, cFinishedL]

theorem accepts_suffix (c : Cfg) (l : List Msg) : ∀ s, accepts c s l = true →
    l.filter (fun m => !tolerated m) ∈ suffixes c s.phase := by
  induction l with
  | nil => intro s h; simp [accepts] at h
  | cons m ms ih =>
    intro s h
    simp only [accepts] at h
    cases hs : step c s m with
    | cont s' =>
      rw [hs] at h
      have := ih s' h
      rcases step_cont c s s' m hs with ⟨ht, hp⟩ | ⟨ht, hn, _⟩
      · simp only [List.filter_cons, ht, Bool.not_true]; rw [← hp]; exact this
      · simp only [List.filter_cons, ht, Bool.not_false]
        exact next_suffix c s.phase s'.phase m hn _ this
    | done =>
      rw [hs] at h
      obtain ⟨ht, hn⟩ := step_done c s m hs
      have : ms = [] := by simpa using h
      subst this
      simp only [List.filter_cons, ht, Bool.not_false, List.filter_nil]
      exact next_last c s.phase m hn
    | error a => rw [hs] at h; simp at h

/-- T1 `done_only_expected`: for every role and configuration and EVERY finite sequence of events, if the
    handshake completes with the last event of the sequence, then the sequence — warning alerts, empty handshake
    records and record-boundary artefacts erased — is one of the flights `expected c` (listed per role below).
    So a peer that sends messages out of order, repeated, omitted, of another type, or application data /
    ChangeCipherSpec at the wrong moment never gets completion: every such sequence ends in an error. -/
theorem done_only_expected (c : Cfg) (l : List Msg) (h : accepts c (init c) l = true) :
    l.filter (fun m => !tolerated m) ∈ expected c :=
  accepts_suffix c l (init c) h

/-- `run` reports completion exactly when some prefix of the sequence is accepted (what follows is not read
    by the handshake any more). -/
theorem run_done_iff (c : Cfg) (l : List Msg) : ∀ s, run c s l = .done ↔
    ∃ pre post, l = pre ++ post ∧ accepts c s pre = true := by
  induction l with
  | nil => intro s; simp [run, accepts]
  | cons m ms ih =>
    intro s
    constructor
    · intro h
      simp only [run] at h
      cases hs : step c s m with
      | cont s' =>
        rw [hs] at h
        obtain ⟨pre, post, e, ha⟩ := (ih s').mp h
        exact ⟨m :: pre, post, by simp [e], by simp [accepts, hs, ha]⟩
      | done => exact ⟨[m], ms, rfl, by simp [accepts, hs]⟩
      | error a => rw [hs] at h; simp at h
    · rintro ⟨pre, post, e, ha⟩
      cases pre with
      | nil => simp [accepts] at ha
      | cons x xs =>
        simp only [List.cons_append, List.cons.injEq] at e
        obtain ⟨rfl, e⟩ := e
        simp only [accepts] at ha
        simp only [run]
        cases hs : step c s m with
        | cont s' => rw [hs] at ha; exact (ih s').mpr ⟨xs, post, e, ha⟩
        | done => rfl
        | error a => rw [hs] at ha; simp at ha

/-- Completion reported by `run` ⇒ the events read until then form an expected flight. -/
theorem run_done_expected (c : Cfg) (l : List Msg) (h : run c (init c) l = .done) :
    ∃ pre post, l = pre ++ post ∧ pre.filter (fun m => !tolerated m) ∈ expected c := by
  obtain ⟨pre, post, e, ha⟩ := (run_done_iff c l (init c)).mp h
  exact ⟨pre, post, e, done_only_expected c pre ha⟩

-- the expected flights, role by role (`Cfg` fields: server gm resume reqCert peerCert ticket ocsp skx npn) ------

def gmServer (reqCert resume : Bool) : Cfg := ⟨true, true, resume, reqCert, reqCert, false, false, true, false⟩
def gmClient (ticket resume : Bool) : Cfg := ⟨false, true, resume, false, false, ticket, false, true, false⟩
def tlsServer (reqCert resume : Bool) : Cfg := ⟨true, false, resume, reqCert, reqCert, false, false, true, false⟩
def tlsClient (ticket resume : Bool) : Cfg := ⟨false, false, resume, false, false, ticket, false, true, false⟩

theorem expected_gmServer_full : expected (gmServer false false) =
    [[.clientHello, .clientKeyExchange, .ccs, .finished]] := by decide
theorem expected_gmServer_clientCert : expected (gmServer true false) =
    [[.clientHello, .certificate, .clientKeyExchange, .certificateVerify, .ccs, .finished]] := by decide
theorem expected_gmServer_resume (b : Bool) : expected (gmServer b true) = [[.clientHello, .ccs, .finished]] := by
  cases b <;> decide
theorem expected_gmClient_full : expected (gmClient false false) =
    [[.serverHello, .certificate, .serverKeyExchange, .certificateRequest, .serverHelloDone, .ccs, .finished],
     [.serverHello, .certificate, .serverKeyExchange, .serverHelloDone, .ccs, .finished]] := by decide
theorem expected_gmClient_ticket : expected (gmClient true false) =
    [[.serverHello, .certificate, .serverKeyExchange, .certificateRequest, .serverHelloDone, .newSessionTicket, .ccs, .finished],
     [.serverHello, .certificate, .serverKeyExchange, .serverHelloDone, .newSessionTicket, .ccs, .finished]] := by decide
theorem expected_gmClient_resume : expected (gmClient false true) = [[.serverHello, .ccs, .finished]] := by decide
theorem expected_gmClient_resume_ticket : expected (gmClient true true) =
    [[.serverHello, .newSessionTicket, .ccs, .finished]] := by decide
theorem expected_tlsServer_full : expected (tlsServer false false) =
    [[.clientHello, .clientKeyExchange, .ccs, .finished]] := by decide
theorem expected_tlsServer_clientCert : expected (tlsServer true false) =
    [[.clientHello, .certificate, .clientKeyExchange, .certificateVerify, .ccs, .finished]] := by decide
/-- TLS client, ECDHE suite, no OCSP stapling negotiated: ServerKeyExchange is needed after all (its absence is an
    error at ServerHelloDone), CertificateRequest is optional -/
theorem expected_tlsClient_full : expected (tlsClient false false) =
    [[.serverHello, .certificate, .serverKeyExchange, .certificateRequest, .serverHelloDone, .ccs, .finished],
     [.serverHello, .certificate, .serverKeyExchange, .serverHelloDone, .ccs, .finished]] := by decide
theorem expected_tlsClient_resume : expected (tlsClient false true) = [[.serverHello, .ccs, .finished]] := by decide

/-- on the GMSSL paths and on every server path the flight is unique up to the optional CertificateRequest -/
theorem expected_server_unique (c : Cfg) (h : c.server = true) : (expected c).length = 1 := by
  cases c with
  | mk server gm resume reqCert peerCert ticket ocsp skx npn =>
    subst h
    cases resume <;> cases reqCert <;> cases peerCert <;> cases npn <;> rfl

-- non-vacuity: the honest flights complete -------------------------------------------------------------------

/-- a run from the initial state -/
def runInit (c : Cfg) (l : List Msg) : Result := run c (init c) l

example : runInit (gmServer false false) [.clientHello, .clientKeyExchange, .ccs, .finished] = .done := by decide
example : runInit (gmServer true false)
    [.clientHello, .certificate, .clientKeyExchange, .certificateVerify, .ccs, .finished] = .done := by decide
example : runInit (gmServer false true) [.clientHello, .ccs, .finished] = .done := by decide
example : runInit (gmClient false false)
    [.serverHello, .certificate, .serverKeyExchange, .serverHelloDone, .ccs, .finished] = .done := by decide
example : runInit (gmClient true false)
    [.serverHello, .certificate, .serverKeyExchange, .certificateRequest, .serverHelloDone, .newSessionTicket, .ccs, .finished] = .done := by
  decide
example : runInit (gmClient false true) [.serverHello, .ccs, .finished] = .done := by decide
example : runInit (tlsServer true false)
    [.clientHello, .certificate, .clientKeyExchange, .certificateVerify, .ccs, .finished] = .done := by decide
example : runInit (tlsClient false false)
    [.serverHello, .certificate, .serverKeyExchange, .serverHelloDone, .ccs, .finished] = .done := by decide
/-- tolerated events do not disturb it: five warning alerts, an empty record, a message in two records -/
example : runInit (gmClient false false)
    [.warningAlert, .warningAlert, .warningAlert, .warningAlert, .warningAlert, .serverHello, .emptyHandshake, .fragment,
     .certificate, .serverKeyExchange, .warningAlert, .serverHelloDone, .ccs, .finished] = .done := by decide
/-- and misbehaviour does: a repeated message, a sixth warning, an early ChangeCipherSpec, a missing message,
    ChangeCipherSpec in the middle of a message, a Finished that does not verify -/
example : runInit (gmClient false false) [.serverHello, .certificate, .certificate] = .error .unexpectedMessage := by decide
example : runInit (gmServer false false) (List.replicate 6 .warningAlert) = .error .unexpectedMessage := by decide
example : runInit (gmServer false false) [.clientHello, .ccs] = .error .unexpectedMessage := by decide
example : runInit (gmClient false false) [.serverHello, .certificate, .serverHelloDone] = .error .unexpectedMessage := by decide
example : runInit (gmServer false false) [.clientHello, .clientKeyExchange, .trailing, .ccs] = .error .unexpectedMessage := by
  decide
example : runInit (gmServer false false) [.clientHello, .clientKeyExchange, .ccs, .finishedBad] = .error .handshakeFailure := by
  decide

-- end of stream ------------------------------------------------------------------------------------------------

/-- In every state, the end of the stream is an error (no alert is written): `readRecord` returns the read error. -/
theorem eof_is_error (c : Cfg) (s : State) : step c s .eof = .error .none := rfl

/-- T1 `no_wait_after_eof`: whatever was received before, once the stream has ended the endpoint is not waiting:
    the handshake has completed earlier or it returns an error. -/
theorem no_wait_after_eof (c : Cfg) (l : List Msg) : ∀ s s', run c s (l ++ [.eof]) ≠ .cont s' := by
  induction l with
  | nil => intro s s' h; simp [run, step] at h
  | cons m ms ih =>
    intro s s' h
    simp only [List.cons_append, run] at h
    cases hs : step c s m with
    | cont t => rw [hs] at h; exact ih t s' h
    | done => rw [hs] at h; simp at h
    | error a => rw [hs] at h; simp at h

/-- the same for the other ways a peer ends the conversation: close_notify and a fatal alert -/
theorem closing_alerts_are_errors (c : Cfg) (s : State) :
    step c s .closeNotify = .error .none ∧ step c s .fatalAlert = .error .none := ⟨rfl, rfl⟩

-- unexpected messages --------------------------------------------------------------------------------------------

/-- T1 `unexpected_is_error`: in every state, every event other than the messages `expectedNext` lists for the
    phase (one type, two where CertificateRequest is optional, up to four in the TLS client after Certificate) and
    the tolerated ones is answered with an error. -/
theorem unexpected_is_error (c : Cfg) (s : State) (m : Msg) (hm : m ∉ expectedNext c s.phase)
    (ht : tolerated m = false) : ∃ a, step c s m = .error a := by
  cases hs : step c s m with
  | error a => exact ⟨a, rfl⟩
  | cont s' =>
    exfalso
    rcases step_cont c s s' m hs with ⟨h, _⟩ | ⟨_, hn, _⟩
    · rw [ht] at h; cases h
    · revert hm hn
      cases s.phase <;> cases m <;> simp [next, expectedNext] <;> (try split) <;> simp_all
  | done =>
    exfalso
    obtain ⟨_, hn⟩ := step_done c s m hs
    revert hm hn
    cases s.phase <;> cases m <;> simp [next, expectedNext] <;> (try split) <;> simp_all

/-- conversely the listed messages are taken (ChangeCipherSpec: unless part of a message is buffered) -/
theorem expected_is_taken (c : Cfg) (s : State) (m : Msg) (hm : m ∈ expectedNext c s.phase)
    (hp : m = .ccs → s.pend = false) : (∃ s', step c s m = .cont s') ∨ step c s m = .done := by
  cases s with
  | mk phase warn pend =>
    cases phase <;> cases m <;> simp [expectedNext] at hm <;>
      simp_all [step, next, wantsCCS]

/-- the cases of `unexpected_is_error` with their alerts, for a phase that awaits a handshake message -/
theorem unexpected_cases (c : Cfg) (s : State) (h : wantsCCS s.phase = false) :
    step c s .appData = .error .unexpectedMessage ∧ step c s .ccs = .error .unexpectedMessage ∧
    step c s .badCcs = .error .unexpectedMessage ∧ step c s .unknownType = .error .unexpectedMessage ∧
    step c s .malformed = .error .unexpectedMessage ∧ step c s .helloRequest = .error .unexpectedMessage ∧
    step c s .oversizedMsg = .error .internalError ∧ step c s .oversizedRecord = .error .recordOverflow ∧
    step c s .unknownRecord = .error .unexpectedMessage ∧ step c s .badAlert = .error .unexpectedMessage := by
  cases s with
  | mk phase warn pend =>
    cases phase <;> simp_all [step, next, wantsCCS, rejectAlert]

/-- … and for a phase that awaits ChangeCipherSpec: every handshake record is refused, whatever it carries, and
    ChangeCipherSpec itself is refused while part of a handshake message is buffered -/
theorem unexpected_cases_ccs (c : Cfg) (s : State) (m : Msg) (h : wantsCCS s.phase = true)
    (hm : m ∈ [Msg.helloRequest, .clientHello, .serverHello, .certificate, .serverKeyExchange, .certificateRequest,
      .serverHelloDone, .certificateVerify, .clientKeyExchange, .finished, .newSessionTicket, .certificateStatus,
      .nextProtocol, .unknownType, .finishedBad, .malformed, .oversizedMsg, .fragment, .emptyHandshake]) :
    step c s m = .error (hsAtCCSAlert c) ∧ step c s .appData = .error .unexpectedMessage ∧
    (s.pend = true → step c s .ccs = .error .unexpectedMessage) := by
  cases s with
  | mk phase warn pend =>
    simp only [List.mem_cons, List.not_mem_nil, or_false] at hm
    rcases hm with h | h | h | h | h | h | h | h | h | h | h | h | h | h | h | h | h | h | h <;> subst h <;>
      simp_all [step]

theorem expectedNext_length (c : Cfg) (p : Phase) : (expectedNext c p).length ≤ 4 := by
  cases p <;> simp [expectedNext] <;> (repeat' split) <;> simp

/-- GMSSL endpoints and all servers never reach the TLS client's optional-message phases: at most two types -/
theorem expectedNext_length_gm (c : Cfg) (p : Phase)
    (h : p ≠ .cAfterCert ∧ p ≠ .cAfterStatus) : (expectedNext c p).length ≤ 2 := by
  cases p <;> simp_all [expectedNext] <;> (repeat' split) <;> simp

-- progress ---------------------------------------------------------------------------------------------------------

/-- every message `next` accepts moves to a later phase -/
theorem next_rank (c : Cfg) (p p' : Phase) (m : Msg) (h : next c p m = some (some p')) : rank p < rank p' := by
  cases p <;> cases m <;> simp only [next] at h <;> (try (split at h)) <;> (try (simp at h; done)) <;>
    (simp only [Option.some.injEq] at h; subst h) <;> (try simp only [afterHelloDone]) <;> (repeat' split) <;> simp [rank]

theorem rank_le (p : Phase) : rank p ≤ maxRank := by cases p <;> simp [rank, maxRank]

/-- T1 `progress`: every event is an error, completes the handshake, moves to a later phase (clearing the
    warning count), or is one of four tolerated events that stay in the phase — and of these a warning alert
    raises a counter that may not pass `maxWarnAlertCount` = 5. -/
theorem progress (c : Cfg) (s : State) (m : Msg) :
    (∃ a, step c s m = .error a) ∨ step c s m = .done ∨
    (∃ s', step c s m = .cont s' ∧ rank s.phase < rank s'.phase ∧ s'.warn = 0) ∨
    (m = .warningAlert ∧ s.warn < maxWarnAlertCount ∧ step c s m = .cont { s with warn := s.warn + 1 }) ∨
    ((m = .emptyHandshake ∨ m = .fragment ∨ m = .trailing) ∧ ∃ s', step c s m = .cont s' ∧ s'.phase = s.phase ∧ s'.warn ≤ s.warn) := by
  cases hs : step c s m with
  | error a => exact Or.inl ⟨a, rfl⟩
  | done => exact Or.inr (Or.inl rfl)
  | cont s' =>
    right; right
    rcases step_cont c s s' m hs with ⟨ht, hp⟩ | ⟨_, hn, hw⟩
    · right
      cases m <;> simp [tolerated] at ht
      · -- fragment
        right; refine ⟨by simp, s', rfl, hp, ?_⟩
        simp only [step] at hs; split at hs <;> simp at hs; subst hs; simp
      · -- trailing
        right; refine ⟨by simp, s', rfl, hp, ?_⟩
        simp only [step] at hs; simp at hs; subst hs; simp
      · -- emptyHandshake
        right; refine ⟨by simp, s', rfl, hp, ?_⟩
        simp only [step] at hs; split at hs <;> simp at hs; subst hs; simp
      · -- warningAlert
        left
        simp only [step] at hs
        split at hs
        · simp at hs
        · rename_i hlt
          simp only [Result.cont.injEq] at hs
          exact ⟨rfl, by simp only [maxWarnAlertCount] at hlt ⊢; omega, by rw [hs]⟩
    · left; exact ⟨s', rfl, next_rank c s.phase s'.phase m hn, hw⟩

theorem warnings_fatal (c : Cfg) (n : Nat) : ∀ s : State, maxWarnAlertCount < s.warn + (n + 1) →
    run c s (List.replicate (n + 1) .warningAlert) = .error .unexpectedMessage := by
  induction n with
  | zero => intro s h; simp only [List.replicate, run, step]; rw [if_pos (by simpa using h)]
  | succ n ih =>
    intro s h
    rw [List.replicate_succ]
    by_cases hw : s.warn + 1 > maxWarnAlertCount
    · simp only [run, step, if_pos hw]
    · simp only [run, step, if_neg hw]
      apply ih
      simp only [maxWarnAlertCount] at h hw ⊢
      omega

/-- the sixth consecutive warning alert is fatal, in every state -/
theorem six_warnings_fatal (c : Cfg) (s : State) :
    run c s (List.replicate 6 .warningAlert) = .error .unexpectedMessage :=
  warnings_fatal c 5 s (by simp only [maxWarnAlertCount]; omega)

def stall (m : Msg) : Bool := m == .emptyHandshake || m == .fragment || m == .trailing

/-- `bounded_stall`: a sequence of events without empty handshake records and record-boundary artefacts that
    leaves the endpoint still reading is short: each step raises `6·rank + warn`, which never exceeds
    6·maxRank + 5.  No stream of alerts keeps an endpoint busy. -/
theorem bounded_stall (c : Cfg) (l : List Msg) : ∀ s s', s.warn ≤ maxWarnAlertCount →
    (∀ m ∈ l, stall m = false) → run c s l = .cont s' →
    l.length + (6 * rank s.phase + s.warn) ≤ 6 * rank s'.phase + s'.warn ∧ s'.warn ≤ maxWarnAlertCount := by
  induction l with
  | nil => intro s s' hw _ h; simp only [run, Result.cont.injEq] at h; subst h; simp; exact hw
  | cons m ms ih =>
    intro s s' hw hl h
    simp only [run] at h
    have hm : stall m = false := hl m (by simp)
    have hms : ∀ x ∈ ms, stall x = false := fun x hx => hl x (by simp [hx])
    cases hs : step c s m with
    | error a => rw [hs] at h; simp at h
    | done => rw [hs] at h; simp at h
    | cont t =>
      rw [hs] at h
      rcases progress c s m with ⟨a, e⟩ | e | ⟨t', e, hr, hw0⟩ | ⟨_, hlt, e⟩ | ⟨hst, _⟩
      · rw [hs] at e; simp at e
      · rw [hs] at e; simp at e
      · rw [hs] at e; simp only [Result.cont.injEq] at e; subst e
        have := ih t s' (by rw [hw0]; simp [maxWarnAlertCount]) hms h
        simp only [maxWarnAlertCount] at hw this ⊢
        simp only [List.length_cons]; omega
      · rw [hs] at e; simp only [Result.cont.injEq] at e; subst e
        have := ih _ s' (by simp only [maxWarnAlertCount] at hlt ⊢; omega) hms h
        simp only [maxWarnAlertCount] at hw this ⊢
        simp only [List.length_cons]; omega
      · rcases hst with e | e | e <;> subst e <;> simp [stall] at hm

theorem stall_bound (c : Cfg) (l : List Msg) (s' : State) (hl : ∀ m ∈ l, stall m = false)
    (h : run c (init c) l = .cont s') : l.length ≤ 6 * maxRank + maxWarnAlertCount := by
  have := bounded_stall c l (init c) s' (by simp [init, maxWarnAlertCount]) hl h
  have hr := rank_le s'.phase
  simp only [maxWarnAlertCount, maxRank] at *
  omega

/-- What the code does NOT bound: empty handshake records are absorbed by `readHandshake`'s loop without any
    counter (this Go version has no `maxUselessRecords`), so an endless stream of them keeps a handshake-phase
    endpoint reading — on input that has not ended. -/
theorem empty_records_unbounded (c : Cfg) (s : State) (h : wantsCCS s.phase = false) (n : Nat) :
    run c s (List.replicate n .emptyHandshake) = .cont s := by
  induction n with
  | zero => rfl
  | succ n ih => simp only [List.replicate, run, step, h]; exact ih

-- version dispatch -----------------------------------------------------------------------------------------------

/-- T1 `version_dispatch`, all values at once (`v` ranges over the natural numbers, in particular 0..65535). -/
theorem mv_low (v : Nat) (h : v < 0x0101) : mutualVersion v = none := by
  unfold mutualVersion versionGMSSL; rw [if_pos h]
theorem mv_gm : mutualVersion 0x0101 = some 0x0101 := by decide
theorem mv_gap (v : Nat) (h1 : 0x0101 < v) (h2 : v < 0x0300) : mutualVersion v = none := by
  unfold mutualVersion versionGMSSL versionSSL30; rw [if_neg (by omega), if_pos ⟨h1, h2⟩]
theorem mv_tls (v : Nat) (h1 : 0x0300 ≤ v) (h2 : v ≤ 0x0303) : mutualVersion v = some v := by
  unfold mutualVersion versionGMSSL versionSSL30 versionTLS12
  rw [if_neg (by omega), if_neg (by omega), if_neg (by omega)]
theorem mv_high (v : Nat) (h : 0x0303 < v) : mutualVersion v = some 0x0303 := by
  unfold mutualVersion versionGMSSL versionSSL30 versionTLS12
  rw [if_neg (by omega), if_neg (by omega), if_pos (by omega)]

theorem ranges (v : Nat) : v < 0x0101 ∨ v = 0x0101 ∨ (0x0101 < v ∧ v < 0x0300) ∨ (0x0300 ≤ v ∧ v ≤ 0x0303) ∨ 0x0303 < v := by omega

/-- auto-switch mode: GMSSL code iff the version is exactly 0x0101; TLS code iff it is one of 0x0300..0x0303,
    at that very version; everything else — including every value above 0x0303 — is rejected -/
theorem dispatch_auto (v : Nat) :
    dispatch .auto v =
      if v = 0x0101 then .gm 0x0101 else if 0x0300 ≤ v ∧ v ≤ 0x0303 then .tls v else .reject := by
  rcases ranges v with h | h | ⟨h1, h2⟩ | ⟨h1, h2⟩ | h
  · have a : ¬ v = 0x0101 := by omega
    have b : ¬ (0x0300 ≤ v ∧ v ≤ 0x0303) := by omega
    simp [dispatch, versionGMSSL, versionSSL30, versionTLS12, a, b]
  · subst h; decide
  · have a : ¬ v = 0x0101 := by omega
    have b : ¬ (0x0300 ≤ v ∧ v ≤ 0x0303) := by omega
    simp [dispatch, versionGMSSL, versionSSL30, versionTLS12, a, b]
  · have a : ¬ v = 0x0101 := by omega
    simp [dispatch, versionGMSSL, versionSSL30, versionTLS12, a, h1, h2, mv_tls v h1 h2]
  · have a : ¬ v = 0x0101 := by omega
    have b : ¬ (0x0300 ≤ v ∧ v ≤ 0x0303) := by omega
    simp [dispatch, versionGMSSL, versionSSL30, versionTLS12, a, b]

/-- TLS-only mode: what `mutualVersion` lets through is served by the TLS code: 0x0300..0x0303 as offered, anything
    higher as TLS 1.2 — and 0x0101 as "version 0x0101" (the default `minVersion` is the GMSSL number). -/
theorem dispatch_tlsOnly (v : Nat) :
    dispatch .tlsOnly v =
      if v = 0x0101 then .tls 0x0101 else if 0x0300 ≤ v ∧ v ≤ 0x0303 then .tls v
      else if 0x0303 < v then .tls 0x0303 else .reject := by
  rcases ranges v with h | h | ⟨h1, h2⟩ | ⟨h1, h2⟩ | h
  · have a : ¬ v = 0x0101 := by omega
    have b : ¬ (0x0300 ≤ v ∧ v ≤ 0x0303) := by omega
    have d : ¬ 0x0303 < v := by omega
    simp [dispatch, mv_low v h, a, b, d]
  · subst h; decide
  · have a : ¬ v = 0x0101 := by omega
    have b : ¬ (0x0300 ≤ v ∧ v ≤ 0x0303) := by omega
    have d : ¬ 0x0303 < v := by omega
    simp [dispatch, mv_gap v h1 h2, a, b, d]
  · have a : ¬ v = 0x0101 := by omega
    simp [dispatch, mv_tls v h1 h2, a, h1, h2]
  · have a : ¬ v = 0x0101 := by omega
    have b : ¬ (0x0300 ≤ v ∧ v ≤ 0x0303) := by omega
    simp [dispatch, mv_high v h, a, b, h]

/-- the version test of the GMSSL handshake (repaired), with the default limits: 0x0101 passes, at 0x0101; nothing
    else does -/
theorem gmServerVersion_default (v : Nat) :
    gmServerVersion (mutualVersion v) v = if v = 0x0101 then some 0x0101 else none := by
  by_cases h : v = 0x0101
  · subst h; decide
  · rw [if_neg h]
    unfold gmServerVersion
    cases mutualVersion v with
    | none => rfl
    | some w => simp [versionGMSSL, h]

/-- GMSSL-only mode (repaired): the GMSSL code runs for client_version 0x0101 alone, at version 0x0101; every other
    value — in particular 0x0300..0x0303 and everything above, which `mutualVersion` lets through or clamps and
    which the code before the repair served with a GM suite at a TLS version number — is rejected.
    (Statement changed by the repair: it used to read `… else if 0x0300 ≤ v ∧ v ≤ 0x0303 then .gm v else if
    0x0303 < v then .gm 0x0303 else .reject`.) -/
theorem dispatch_gmOnly (v : Nat) :
    dispatch .gmOnly v = if v = 0x0101 then .gm 0x0101 else .reject := by
  by_cases h : v = 0x0101 <;> simp [dispatch, gmServerVersion_default, h]

/-- Below GMSSL (0x0101) and strictly between GMSSL and SSL 3.0 nothing is accepted, in any mode. -/
theorem dispatch_reject_low (mode : Mode) (v : Nat) (h : v < 0x0101 ∨ (0x0101 < v ∧ v < 0x0300)) :
    dispatch mode v = .reject := by
  cases mode
  · rw [dispatch_gmOnly]; (repeat' split) <;> first | rfl | omega
  · rw [dispatch_auto]; (repeat' split) <;> first | rfl | omega
  · rw [dispatch_tlsOnly]; (repeat' split) <;> first | rfl | omega

/-- at or above TLS 1.2 the TLS code (TLS-only mode) negotiates TLS 1.2; the auto-switch server takes exactly
    0x0303 and rejects anything higher -/
theorem dispatch_high (v : Nat) (h : 0x0303 ≤ v) :
    dispatch .tlsOnly v = .tls 0x0303 ∧ (dispatch .auto v = if v = 0x0303 then .tls 0x0303 else .reject) := by
  rw [dispatch_tlsOnly, dispatch_auto]
  constructor <;> (repeat' split) <;> first | rfl | omega | (simp_all; done) | (simp_all; omega)

/-- in every mode the connection version is one for which key derivation is defined (`prfForVersion`:
    GMSSL, SSL 3.0, TLS 1.0–1.2): no ClientHello version reaches `panic("unknown version")` -/
theorem dispatch_version_has_prf (mode : Mode) (v w : Nat) (h : dispatch mode v = .gm w ∨ dispatch mode v = .tls w) :
    w = 0x0101 ∨ (0x0300 ≤ w ∧ w ≤ 0x0303) := by
  cases mode
  · rw [dispatch_gmOnly] at h; (repeat' split at h) <;> simp at h <;> omega
  · rw [dispatch_auto] at h; (repeat' split at h) <;> simp at h <;> omega
  · rw [dispatch_tlsOnly] at h; (repeat' split at h) <;> simp at h <;> omega

/-- the GMSSL code is entered by the GMSSL version only where the two protocols share a port -/
theorem auto_gm_iff (v w : Nat) : dispatch .auto v = .gm w ↔ v = 0x0101 ∧ w = 0x0101 := by
  rw [dispatch_auto]; (repeat' split) <;> simp <;> omega

-- the server's answer to a hello -----------------------------------------------------------------------------------

theorem answerOn_no_compression (ok : Nat → Bool) (w v : Nat) (suites comps : List Nat)
    (h : comps.contains 0 = false) : answerOn ok w v suites comps = .failure := by
  unfold answerOn; rw [if_pos h]

theorem answerOn_no_suite (ok : Nat → Bool) (w v : Nat) (suites comps : List Nat)
    (h : ∀ s ∈ suites, ok s = false) : answerOn ok w v suites comps = .failure := by
  have : suites.find? ok = none := by
    rw [List.find?_eq_none]; intro x hx; rw [h x hx]; simp
  unfold answerOn; rw [this]; split <;> rfl

theorem answerOn_serverHello (ok : Nat → Bool) (w v w' s : Nat) (suites comps : List Nat)
    (h : answerOn ok w v suites comps = .serverHello w' s) :
    w' = w ∧ s ∈ suites ∧ ok s = true ∧ comps.contains 0 = true := by
  unfold answerOn at h
  by_cases hc : comps.contains 0 = false
  · rw [if_pos hc] at h; cases h
  · rw [if_neg hc] at h
    cases hf : suites.find? ok with
    | none => rw [hf] at h; cases h
    | some x =>
      rw [hf] at h
      dsimp only at h
      split at h
      · cases h
      · cases h
        exact ⟨rfl, List.mem_of_find?_eq_some hf, List.find?_some hf, by simpa using hc⟩

/-- unsupported version, compression or suites: the hello is refused before any ServerHello
    (protocol_version, resp. handshake_failure) -/
theorem hello_refused (mode : Mode) (e : Bool) (v : Nat) (suites comps : List Nat) :
    (dispatch mode v = .reject → helloAnswer mode e v suites comps = .reject) ∧
    (dispatch mode v ≠ .reject → comps.contains 0 = false → helloAnswer mode e v suites comps = .failure) ∧
    (∀ w, dispatch mode v = .gm w → (∀ s ∈ suites, gmSuites.contains s = false) →
        helloAnswer mode e v suites comps = .failure) ∧
    (∀ w, dispatch mode v = .tls w → (∀ s ∈ suites, tlsSuiteOk w e s = false) →
        helloAnswer mode e v suites comps = .failure) := by
  refine ⟨fun h => ?_, fun h hc => ?_, fun w h hs => ?_, fun w h hs => ?_⟩
  · unfold helloAnswer; rw [h]
  · unfold helloAnswer
    cases hd : dispatch mode v with
    | reject => exact absurd hd h
    | gm w => exact answerOn_no_compression _ _ _ _ _ hc
    | tls w => exact answerOn_no_compression _ _ _ _ _ hc
  · unfold helloAnswer; rw [h]; exact answerOn_no_suite _ _ _ _ _ hs
  · unfold helloAnswer; rw [h]; exact answerOn_no_suite _ _ _ _ _ hs

/-- a ServerHello always names a suite the client offered and that the serving code path supports, and is only
    sent to a client that offered null compression -/
theorem hello_suite_offered (mode : Mode) (e : Bool) (v w s : Nat) (suites comps : List Nat)
    (h : helloAnswer mode e v suites comps = .serverHello w s) :
    s ∈ suites ∧ comps.contains 0 = true ∧
    ((dispatch mode v = .gm w ∧ gmSuites.contains s = true) ∨ (dispatch mode v = .tls w ∧ tlsSuiteOk w e s = true)) := by
  unfold helloAnswer at h
  cases hd : dispatch mode v with
  | reject => rw [hd] at h; cases h
  | gm w' =>
    rw [hd] at h
    obtain ⟨rfl, h1, h2, h3⟩ := answerOn_serverHello _ _ _ _ _ _ _ h
    exact ⟨h1, h3, Or.inl ⟨rfl, h2⟩⟩
  | tls w' =>
    rw [hd] at h
    obtain ⟨rfl, h1, h2, h3⟩ := answerOn_serverHello _ _ _ _ _ _ _ h
    exact ⟨h1, h3, Or.inr ⟨rfl, h2⟩⟩

-- the client's check of a ServerHello ----------------------------------------------------------------------------

/-- the version test of the two clients, all values at once: GMSSL exactly 0x0101; TLS 1.0 up to TLS 1.2, the
    version the client offered — a value above 0x0303, which `mutualVersion` would clamp to TLS 1.2, is refused
    (before the repair "fix: reject a ServerHello version above the client's offer" the right-hand side was
    `0x0301 ≤ v`) -/
theorem clientVersionOk_iff (gm : Bool) (v : Nat) :
    clientVersionOk gm v = true ↔ (if gm = true then v = 0x0101 else 0x0301 ≤ v ∧ v ≤ 0x0303) := by
  cases gm
  · simp only [clientVersionOk, Bool.false_eq_true, if_false]
    rcases ranges v with h | h | ⟨h1, h2⟩ | ⟨h1, h2⟩ | h
    · rw [mv_low v h]; simp; omega
    · subst h; decide
    · rw [mv_gap v h1 h2]; simp; omega
    · rw [mv_tls v h1 h2]; simp; omega
    · rw [mv_high v h]; simp; omega
  · simp [clientVersionOk, versionGMSSL]

/-- the suite/version rule, spelled out: refused exactly for a TLS client, a version below 0x0303 and a suite
    carrying the `suiteTLS12` flag -/
theorem clientSuiteVersionOk_iff (gm : Bool) (v s : Nat) :
    clientSuiteVersionOk gm v s = true ↔ (gm = true ∨ 0x0303 ≤ v ∨ tls12Only s = false) := by
  unfold clientSuiteVersionOk versionTLS12
  cases gm <;> cases h : tls12Only s <;> simp

/-- T1 `client_accepts_hello_iff`: a client goes on after a ServerHello exactly when the version is one it
    offered, the suite is one it offered and knows AND one that exists in that version, and the compression method
    is null.  (Strengthened by the repairs of `pickTLSVersion` and `pickCipherSuite`: the upper bound on the
    version and the suite/version clause are new.) -/
theorem client_accepts_hello_iff (gm : Bool) (offered : List Nat) (v s comp : Nat) :
    clientHelloCheck gm offered v s comp = .accept ↔
      (if gm = true then v = 0x0101 else 0x0301 ≤ v ∧ v ≤ 0x0303) ∧ s ∈ offered ∧ s ∈ knownSuites gm ∧
      (gm = true ∨ 0x0303 ≤ v ∨ tls12Only s = false) ∧ comp = 0 := by
  rw [← clientVersionOk_iff, ← clientSuiteVersionOk_iff]
  unfold clientHelloCheck
  by_cases h1 : clientVersionOk gm v = true
  · by_cases h2 : s ∈ offered
    · by_cases h3 : s ∈ knownSuites gm
      · by_cases h5 : clientSuiteVersionOk gm v s = true
        · by_cases h4 : comp = 0 <;> simp [h1, h2, h3, h4, h5]
        · simp [h1, h2, h3, h5]
      · simp [h1, h2, h3]
    · simp [h1, h2]
  · simp [h1]

/-- … and otherwise aborts at once, with the alert of the first failing test: protocol_version, then
    handshake_failure ("server chose an unconfigured cipher suite", or a TLS 1.2-only suite for an earlier
    version), then unexpected_message -/
theorem client_rejects_hello (gm : Bool) (offered : List Nat) (v s comp : Nat) :
    (clientVersionOk gm v = false → clientHelloCheck gm offered v s comp = .reject .protocolVersion) ∧
    (clientVersionOk gm v = true → (s ∉ offered ∨ s ∉ knownSuites gm ∨ clientSuiteVersionOk gm v s = false) →
        clientHelloCheck gm offered v s comp = .reject .handshakeFailure) ∧
    (clientVersionOk gm v = true → s ∈ offered → s ∈ knownSuites gm → clientSuiteVersionOk gm v s = true → comp ≠ 0 →
        clientHelloCheck gm offered v s comp = .reject .unexpectedMessage) := by
  refine ⟨fun h => by simp [clientHelloCheck, h], fun h hs => ?_, fun h h1 h2 h5 h3 => ?_⟩
  · unfold clientHelloCheck
    rcases hs with hs | hs | hs
    · simp [h, hs]
    · simp [h, hs]
    · simp [h, hs]
  · simp [clientHelloCheck, h, h1, h2, h3, h5]

/-- in particular a suite the client did not put into its own hello is never accepted, however well known -/
theorem client_never_accepts_unoffered (gm : Bool) (configured : List Nat) (v s comp : Nat)
    (h : s ∉ configured) : clientHelloCheck gm (helloSuites gm configured) v s comp ≠ .accept := by
  intro ha
  have := ((client_accepts_hello_iff gm _ v s comp).mp ha).2.1
  simp only [helloSuites, List.mem_filter] at this
  exact h this.1

example : clientHelloCheck true (helloSuites true [0xe053]) 0x0101 0xe013 0 = .reject .handshakeFailure := by decide
example : clientHelloCheck true (helloSuites true [0xe053]) 0x0101 0xe053 0 = .accept := by decide
example : clientHelloCheck false (helloSuites false [0xc02f, 0x009c]) 0x0303 0x009c 0 = .accept := by decide
example : clientHelloCheck false (helloSuites false [0xc02f, 0x009c]) 0x0304 0x009c 0 = .reject .protocolVersion := by decide
example : clientHelloCheck false (helloSuites false [0xc02f, 0x009c]) 0x0301 0x009c 0 = .reject .handshakeFailure := by decide
example : clientHelloCheck false (helloSuites false [0xc02f, 0xc013]) 0x0301 0xc013 0 = .accept := by decide
example : clientHelloCheck false (helloSuites false [0xc02f, 0xffff]) 0x0303 0xffff 0 = .reject .handshakeFailure := by decide

end Props.C15
