/-
C15 — a misbehaving handshake peer gets an error, never completion, a crash or a hang.
Theorems about `Model.Handshake`: the message-acceptance automaton of the gmtls endpoints (record layer rules
of `readRecord` / `readHandshake` plus the per-state type assertions of the four handshake state machines), and
the version dispatch of the three server modes.
-/
import Gmsm.Model.Handshake
namespace Props.C15
open Model.Handshake

-- one step ---------------------------------------------------------------------------------------------------

/-- A step that continues either absorbed a tolerated event without leaving the phase, or consumed a message the
    phase accepts (`next`). -/
theorem step_cont (c : Cfg) (s s' : State) (m : Msg) (h : step c s m = .cont s') :
    (tolerated m = true ∧ s'.phase = s.phase) ∨
    (tolerated m = false ∧ next c s.phase m = some (some s'.phase) ∧ s'.warn = 0) := by
  cases m <;> simp only [step] at h <;> (try split at h) <;> (try split at h) <;> (try split at h) <;>
    first
    | (cases h; simp [tolerated]; done)
    | (simp at h; done)
    | (injection h with h; subst h; simp_all [tolerated]; done)
    | skip
  all_goals sorry

end Props.C15
