/-
C16 — the server's gate alone enforces "the client still offers the session's suite".
`Model.ResumeGraft` adds connections of a foreign client that presents its ticket whatever its ClientHello
lists (the stock client never does).  Theorems: such a ticket is never resumed when the session's suite is
not offered - the connection is the full handshake it would have been without a ticket - and, over every
history, the foreign client obtains exactly what the stock client obtains.
-/
import Gmsm.Props.C16
import Gmsm.Model.ResumeGraft
namespace Props.C16Graft
open Model.Resume Model.ResumeGraft Props.C16

/-- T1 `resume_requires_offered_suite`: whatever the ticket, the key list, the policy: if
    `checkForResumption` resumes, the suite sealed in the ticket is one of the suites of THIS ClientHello,
    and the resumed state is the sealed one.  (Go: the loop over `hs.clientHello.cipherSuites` in both
    `checkForResumption`s.) -/
theorem resume_requires_offered_suite (m : Mode) (s : Server) (hello : List Suite) (t : Ticket) (st : Sess)
    (old : Bool) (h : checkForResumption m s hello t = some (st, old)) :
    t.sess.suite ∈ hello ∧ st = t.sess := by
  have g := (gate_iff _ _ _ _ _ _).mp h
  have e : st = t.sess := g.2.2.2.1
  exact ⟨e ▸ g.2.2.2.2.2.1, e⟩

/-- contrapositive, as the gate's answer -/
theorem suite_not_offered_never_resumes (m : Mode) (s : Server) (hello : List Suite) (t : Ticket)
    (h : t.sess.suite ∉ hello) : checkForResumption m s hello t = none := by
  cases hc : checkForResumption m s hello t with
  | none => rfl
  | some p =>
    obtain ⟨st, old⟩ := p
    exact absurd (resume_requires_offered_suite m s hello t st old hc).1 h

theorem presented_sess (r : ConnReq) (cs : CSess) : (presented r cs).sess = cs.ticket.sess := by
  unfold presented; split <;> rfl

/-- T1 `foreign_not_offered_falls_back`: in ANY world (no invariant needed: whatever the cache holds), a
    foreign client whose ticket seals a suite that its ClientHello does not list is not resumed; the
    connection is exactly the full handshake of that ClientHello - it completes as `full` whenever a full
    handshake is possible, silently. -/
theorem foreign_not_offered_falls_back (m : Mode) (w : World) (r : ConnReq) (cs : CSess)
    (hget : offeredAny w r = some cs) (hs : cs.ticket.sess.suite ∉ helloSuites m r.csuites) :
    (connAny m w r).2 = (match fullOutcome m w r with | none => Outcome.error | some _ => Outcome.full (w.n + 1)) := by
  have hd : resumeDecisionAny m w r = none := by
    unfold resumeDecisionAny
    rw [hget]
    simp only [Option.bind_some]
    apply suite_not_offered_never_resumes
    rw [presented_sess]; exact hs
  unfold connAny
  simp only [hd]
  cases fullOutcome m w r <;> rfl

/-- never `resumed`, stated on its own -/
theorem foreign_not_offered_not_resumed (m : Mode) (w : World) (r : ConnReq) (cs : CSess) (sid : Nat)
    (hget : offeredAny w r = some cs) (hs : cs.ticket.sess.suite ∉ helloSuites m r.csuites) :
    (connAny m w r).2 ≠ .resumed sid := by
  rw [foreign_not_offered_falls_back m w r cs hget hs]
  cases fullOutcome m w r <;> simp

/-- in a world whose cached sessions remember what their tickets seal (every reachable one), the foreign
    client's offer leads to the decision the stock client's offer leads to -/
theorem decisionAny_eq (m : Mode) (w : World) (hI : Inv w) (r : ConnReq) :
    resumeDecisionAny m w r = resumeDecision m w r := by
  unfold resumeDecisionAny resumeDecision offeredAny offered
  by_cases hoff : w.clientOff = true
  · simp [hoff]
  · have hoff' : w.clientOff = false := Bool.eq_false_iff.mpr hoff
    simp only [hoff', Bool.false_eq_true, if_false]
    cases hg : (w.cache.get r.srv).1 with
    | none => simp
    | some cs =>
      have hgood : Good w.issued cs := hI.cache _ (get_fst_mem _ _ _ hg)
      by_cases hs : (helloSuites m r.csuites).contains cs.sess.suite = true
      · have hs1 : cs.sess.suite ∈ helloSuites m r.csuites := by simpa using hs
        simp [Option.filter, hs1]
      · have hs' : cs.ticket.sess.suite ∉ helloSuites m r.csuites := by
          rw [hgood.2.1]; simpa using hs
        have hs2 : (helloSuites m r.csuites).contains cs.sess.suite = false := Bool.eq_false_iff.mpr hs
        simp only [Option.filter, hs2, Bool.false_eq_true, if_false, Option.bind_some, Option.bind_none]
        apply suite_not_offered_never_resumes
        rw [presented_sess]; exact hs'

/-- T1 `foreign_eq_stock`: under the invariant, a connection of the foreign client is the connection of the
    stock client - same outcome, same cache, same log: offering a ticket outside one's suite list gains
    nothing and breaks nothing. -/
theorem foreign_eq_stock (m : Mode) (w : World) (hI : Inv w) (r : ConnReq) : connAny m w r = conn m w r := by
  unfold connAny conn
  rw [decisionAny_eq m w hI r]
  rfl

theorem serveAny_eq_serve (m : Mode) (w : World) (hI : Inv w) (r : ConnReq) : serveAny m w r = serve m w r := by
  unfold serveAny serve
  exact foreign_eq_stock m _ (inv_prep w hI r) r

/-- the step of `Model.Resume` that a step of the extended history amounts to -/
def toStep : GStep → Step
  | .plain s => s
  | .graft r => .conn r

theorem gstep_eq_step (m : Mode) (w : World) (hI : Inv w) (s : GStep) : gstep m w s = step m w (toStep s) := by
  cases s with
  | plain s => rfl
  | graft r =>
    simp only [gstep, toStep, step]
    rw [serveAny_eq_serve m w hI r]

theorem inv_gstep (m : Mode) (w : World) (hI : Inv w) (s : GStep) : Inv (gstep m w s).1 := by
  rw [gstep_eq_step m w hI s]; exact inv_step m w hI (toStep s)

theorem reachG_eq_reach (m : Mode) (w : World) (hI : Inv w) (h : List GStep) :
    reachG m w h = reach m w (h.map toStep) := by
  induction h generalizing w with
  | nil => rfl
  | cons s ss ih =>
    simp only [reachG, List.map_cons, reach]
    rw [ih _ (inv_gstep m w hI s), gstep_eq_step m w hI s]

/-- T1 `runG_eq_run`: for every history, of any length, that mixes stock and foreign connections with key
    rotations and configuration changes, the outcomes are those of the history in which every foreign
    connection is a stock one. -/
theorem runG_eq_run (m : Mode) (cap : Nat) (h : List GStep) :
    runG m (initWorld cap) h = run m (initWorld cap) (h.map toStep) := by
  have : ∀ w, Props.C16.Inv w → runG m w h = run m w (h.map toStep) := by
    induction h with
    | nil => intro w _; rfl
    | cons s ss ih =>
      intro w hw
      simp only [runG, List.map_cons, run]
      rw [gstep_eq_step m w hw s]
      have hI' := inv_step m w hw (toStep s)
      cases hst : step m w (toStep s) with
      | mk w' o =>
        rw [hst] at hI'
        cases o with
        | none => simp only; exact ih w' hI'
        | some o => simp only; rw [ih w' hI']
  exact this _ (inv_init cap)

theorem inv_reachG (m : Mode) (cap : Nat) (h : List GStep) : Inv (reachG m (initWorld cap) h) := by
  rw [reachG_eq_reach m _ (inv_init cap) h]; exact inv_reach m cap _

/-- T1 `history_foreign_resumption_sound`: after ANY extended history, a foreign connection that is
    reported as resumed resumed a session of an earlier full handshake of the history whose suite the
    client offers in this very ClientHello, with an unaltered ticket, while tickets were enabled. -/
theorem history_foreign_resumption_sound (m : Mode) (cap : Nat) (h : List GStep) (r : ConnReq) (sid : Nat)
    (hr : (serveAny m (reachG m (initWorld cap) h) r).2 = .resumed sid) :
    ∃ st ∈ (reachG m (initWorld cap) h).issued, st.sid = sid ∧ sid ≤ (reachG m (initWorld cap) h).n ∧
      st.vers = vers m ((reachG m (initWorld cap) h).srv r.srv) ∧ st.suite ∈ helloSuites m r.csuites ∧
      r.tampered = false ∧ ((reachG m (initWorld cap) h).srv r.srv).disabled = false := by
  rw [serveAny_eq_serve m _ (inv_reachG m cap h) r] at hr
  rw [reachG_eq_reach m _ (inv_init cap) h] at hr ⊢
  exact history_resumption_sound m cap _ r sid hr

/-- non-vacuity: GMSSL, the server lists both suites, the first connection negotiates e013; a foreign client
    then presents that ticket while offering only e053 - full handshake number 2; offering e013 again with
    the ticket of connection 2 (suite e053) - full handshake number 3; a stock connection then resumes 3 -/
example : runG .gm (initWorld 2)
    [.plain (.suites 0 (some [0xe013, 0xe053])), .plain (.conn ⟨0, some [0xe013, 0xe053], 0, false⟩),
     .graft ⟨0, some [0xe053], 0, false⟩, .graft ⟨0, some [0xe013], 0, false⟩,
     .plain (.conn ⟨0, some [0xe013], 0, false⟩)]
    = [.full 1, .full 2, .full 3, .resumed 3] := by decide

end Props.C16Graft
