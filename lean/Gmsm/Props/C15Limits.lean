/-
C15 — unsupported versions, for every configured version window (`Config.MinVersion` / `Config.MaxVersion`):
`Config.mutualVersion` as modelled by `Model.Handshake.mutualVersionLim`.
-/
import Gmsm.Model.Handshake
namespace Props.C15Limits
open Model.Handshake

/-- with the package defaults the general function is the one the other C15 theorems speak about -/
theorem mutualVersionLim_default (v : Nat) : mutualVersionLim (cfgMin 0) (cfgMax 0) v = mutualVersion v := by
  unfold mutualVersionLim mutualVersion cfgMin cfgMax
  simp

/-- a client_version strictly between GMSSL (0x0101) and SSL 3.0 (0x0300) names no protocol: it is refused whatever
    window is configured — in particular it is not clamped to a maximum of 0x0101 first -/
theorem gap_refused (lo hi v : Nat) (h1 : versionGMSSL < v) (h2 : v < versionSSL30) :
    mutualVersionLim lo hi v = none := by
  unfold mutualVersionLim
  split
  · rfl
  · simp [h1, h2]

/-- a version below the configured minimum is refused -/
theorem below_min_refused (lo hi v : Nat) (h : v < lo) : mutualVersionLim lo hi v = none := by
  unfold mutualVersionLim; simp [h]

/-- what is agreed is the client's version or the configured maximum, never above the maximum, never above what the
    client offered, and never inside the gap when the maximum is not -/
theorem agreed_version (lo hi v w : Nat) (h : mutualVersionLim lo hi v = some w) :
    w ≤ hi ∧ w ≤ v ∧ lo ≤ v ∧ (w = v ∨ w = hi) ∧
    (¬ (versionGMSSL < hi ∧ hi < versionSSL30) → ¬ (versionGMSSL < w ∧ w < versionSSL30)) := by
  unfold mutualVersionLim at h
  split at h
  · simp at h
  · split at h
    · simp at h
    · split at h
      · injection h with h; subst h
        refine ⟨Nat.le_refl _, by omega, by omega, Or.inr rfl, fun hh => hh⟩
      · injection h with h; subst h
        refine ⟨by omega, Nat.le_refl _, by omega, Or.inl rfl, fun _ => by assumption⟩

/-- the dispatcher refuses the hello whenever `mutualVersion` does, in every server mode -/
theorem dispatchLim_refuses (lo hi v : Nat) (m : Mode) (h : mutualVersionLim lo hi v = none) :
    dispatchLim lo hi m v = .reject := by
  cases m <;> simp [dispatchLim, gmServerVersion, h]

/-- non-vacuity: `mutualVersion` with a GMSSL-only window answers 0x0303 with 0x0101 (the TLS-only server would go
    on with it; the GMSSL server does not, see `gm_only_server_accepts_only_gmssl`), refuses 0x0200 -/
example : mutualVersionLim 0x0101 0x0101 0x0303 = some 0x0101 ∧ mutualVersionLim 0x0101 0x0101 0x0200 = none := by
  constructor <;> rfl

-- the GMSSL server handshake implements one version (repair "gmvers") ---------------------------------------------------

/-- the version test of the GMSSL handshake, for every window: it passes iff the client_version is 0x0101 and the
    window contains 0x0101, and then the connection version is 0x0101 -/
theorem gmServerVersion_lim (lo hi v : Nat) :
    gmServerVersion (mutualVersionLim lo hi v) v =
      if v = versionGMSSL ∧ lo ≤ versionGMSSL ∧ versionGMSSL ≤ hi then some versionGMSSL else none := by
  unfold gmServerVersion mutualVersionLim versionGMSSL versionSSL30
  by_cases hv : v = 0x0101
  · subst hv
    by_cases h1 : 0x0101 < lo
    · have : ¬ (lo ≤ 0x0101) := by omega
      simp [h1, this]
    · by_cases h2 : 0x0101 > hi
      · have a : ¬ (0x0101 ≤ hi) := by omega
        have b : hi ≠ 0x0101 := by omega
        simp [h1, h2, a, b]
      · have a : lo ≤ 0x0101 := by omega
        have b : 0x0101 ≤ hi := by omega
        simp [h1, h2, a, b]
  · simp only [hv, false_and, if_false]
    split <;> first | rfl | (split <;> first | rfl | (split <;> rfl))

/-- THE REPAIRED BEHAVIOUR (false before the repair: e.g. `lo = 0x0101, hi = 0x0303, v = 0x0300` used to give
    `.gm 0x0300`).  A server in GMSSL-only mode (`serverHandshakeStateGM.readClientHello`), for every client_version
    `v` and every `Config.MinVersion` / `Config.MaxVersion` (`lo` = `minVersion()`, `hi` = `maxVersion()`):
    it proceeds iff `v = 0x0101` and the configured window contains 0x0101, and then at connection version 0x0101;
    in every other case — any other client_version, whether `mutualVersion` refuses, accepts or clamps it, and every
    client_version when the window excludes 0x0101 (`lo > 0x0101`, or `hi < 0x0101`, which would clamp 0x0101 to a
    value that is no protocol) — the hello is answered with the protocol_version alert.  It never runs TLS code. -/
theorem gm_only_server_accepts_only_gmssl (lo hi v : Nat) :
    dispatchLim lo hi .gmOnly v =
      if v = 0x0101 ∧ lo ≤ 0x0101 ∧ 0x0101 ≤ hi then .gm 0x0101 else .reject := by
  have h := gmServerVersion_lim lo hi v
  unfold versionGMSSL at h
  by_cases c : v = 0x0101 ∧ lo ≤ 0x0101 ∧ 0x0101 ≤ hi
  · rw [if_pos c] at h; simp only [dispatchLim, h]; rw [if_pos c]
  · rw [if_neg c] at h; simp only [dispatchLim, h]; rw [if_neg c]

/-- the same as an equivalence: some GMSSL handshake is started iff the client_version is 0x0101 and the window
    contains it, and the version it runs at is 0x0101 -/
theorem gm_only_server_proceeds_iff (lo hi v w : Nat) :
    dispatchLim lo hi .gmOnly v = .gm w ↔ (v = 0x0101 ∧ lo ≤ 0x0101 ∧ 0x0101 ≤ hi ∧ w = 0x0101) := by
  rw [gm_only_server_accepts_only_gmssl]
  by_cases c : v = 0x0101 ∧ lo ≤ 0x0101 ∧ 0x0101 ≤ hi
  · rw [if_pos c]
    constructor
    · intro h; injection h with h; exact ⟨c.1, c.2.1, c.2.2, h.symm⟩
    · intro h; rw [h.2.2.2]
  · rw [if_neg c]
    constructor
    · intro h; cases h
    · intro h; exact absurd ⟨h.1, h.2.1, h.2.2.1⟩ c

/-- with the package defaults (window 0x0101..0x0303): the GMSSL-only server proceeds iff client_version = 0x0101 -/
theorem gm_only_server_default (v w : Nat) :
    dispatchLim (cfgMin 0) (cfgMax 0) .gmOnly v = .gm w ↔ (v = 0x0101 ∧ w = 0x0101) := by
  rw [gm_only_server_proceeds_iff]
  unfold cfgMin cfgMax versionGMSSL versionTLS12
  simp

/-- the auto-switch server reaches the GMSSL code under the same condition (`processClientHelloGM` has the same
    test), so the two modes agree on which hellos the GMSSL handshake serves -/
theorem auto_gm_agrees_with_gm_only (lo hi v w : Nat) :
    dispatchLim lo hi .auto v = .gm w ↔ dispatchLim lo hi .gmOnly v = .gm w := by
  by_cases hv : v = versionGMSSL
  · simp [dispatchLim, hv]
  · have hv2 : ¬ v = 0x0101 := hv
    rw [gm_only_server_proceeds_iff]
    simp only [dispatchLim, if_neg hv]
    constructor
    · intro h
      split at h
      · split at h <;> cases h
      · cases h
    · intro h; exact absurd h.1 hv2

/-- whatever the answer to the hello, a handshake served by the GMSSL code has connection version 0x0101: the key
    schedule (`prfForVersion`), the Finished hash and the record protection all see the one version GM/T 0024
    defines -/
theorem gm_path_version (lo hi v w : Nat) (m : Mode) (h : dispatchLim lo hi m v = .gm w) : w = 0x0101 := by
  cases m with
  | gmOnly => exact ((gm_only_server_proceeds_iff lo hi v w).mp h).2.2.2
  | auto => exact ((gm_only_server_proceeds_iff lo hi v w).mp ((auto_gm_agrees_with_gm_only lo hi v w).mp h)).2.2.2
  | tlsOnly =>
    simp only [dispatchLim] at h
    split at h <;> cases h

/-- non-vacuity: the default window serves 0x0101 and refuses 0x0300, 0x0303, 0x0304 (all completed before the
    repair); a window without 0x0101 refuses 0x0101 itself -/
example : dispatchLim 0x0101 0x0303 .gmOnly 0x0101 = .gm 0x0101 ∧ dispatchLim 0x0101 0x0303 .gmOnly 0x0300 = .reject ∧
    dispatchLim 0x0101 0x0303 .gmOnly 0x0303 = .reject ∧ dispatchLim 0x0101 0x0303 .gmOnly 0x0304 = .reject ∧
    dispatchLim 0x0101 0x0100 .gmOnly 0x0101 = .reject ∧ dispatchLim 0x0102 0x0303 .gmOnly 0x0101 = .reject ∧
    dispatchLim 0x0101 0x0101 .gmOnly 0x0303 = .reject := by
  refine ⟨?_, ?_, ?_, ?_, ?_, ?_, ?_⟩ <;> decide

end Props.C15Limits
