/-
C15 — unsupported versions, for every configured version window (`Config.MinVersion` / `Config.MaxVersion`):
`Config.mutualVersion` as modelled by `Model.Handshake.mutualVersionLim`.
-/
import Gmsm.Model.Handshake
namespace Props.C15Limits
open Model.Handshake

/-- with the package defaults the general function is the one the other C15 theorems speak about -/
theorem mutualVersionLim_default (v : Nat) : mutualVersionLim (cfgMin 0) (cfgMax 0) v = mutualVersion v := by
  unfold mutualVersionLim mutualVersion cfgMin cfgMax
  simp

/-- a client_version strictly between GMSSL (0x0101) and SSL 3.0 (0x0300) names no protocol: it is refused whatever
    window is configured — in particular it is not clamped to a maximum of 0x0101 first -/
theorem gap_refused (lo hi v : Nat) (h1 : versionGMSSL < v) (h2 : v < versionSSL30) :
    mutualVersionLim lo hi v = none := by
  unfold mutualVersionLim
  split
  · rfl
  · simp [h1, h2]

/-- a version below the configured minimum is refused -/
theorem below_min_refused (lo hi v : Nat) (h : v < lo) : mutualVersionLim lo hi v = none := by
  unfold mutualVersionLim; simp [h]

/-- what is agreed is the client's version or the configured maximum, never above the maximum, never above what the
    client offered, and never inside the gap when the maximum is not -/
theorem agreed_version (lo hi v w : Nat) (h : mutualVersionLim lo hi v = some w) :
    w ≤ hi ∧ w ≤ v ∧ lo ≤ v ∧ (w = v ∨ w = hi) ∧
    (¬ (versionGMSSL < hi ∧ hi < versionSSL30) → ¬ (versionGMSSL < w ∧ w < versionSSL30)) := by
  unfold mutualVersionLim at h
  split at h
  · simp at h
  · split at h
    · simp at h
    · split at h
      · injection h with h; subst h
        refine ⟨Nat.le_refl _, by omega, by omega, Or.inr rfl, fun hh => hh⟩
      · injection h with h; subst h
        refine ⟨by omega, Nat.le_refl _, by omega, Or.inl rfl, fun _ => by assumption⟩

/-- the dispatcher refuses the hello whenever `mutualVersion` does, in every server mode -/
theorem dispatchLim_refuses (lo hi v : Nat) (m : Mode) (h : mutualVersionLim lo hi v = none) :
    dispatchLim lo hi m v = .reject := by
  cases m <;> simp [dispatchLim, h]

/-- non-vacuity: a GMSSL-only window answers 0x0303 with 0x0101, refuses 0x0200 -/
example : mutualVersionLim 0x0101 0x0101 0x0303 = some 0x0101 ∧ mutualVersionLim 0x0101 0x0101 0x0200 = none := by
  constructor <;> rfl

end Props.C15Limits
