/-
C18 (memory clause) for the session state parser of gmtls/ticket.go: `sessionState.unmarshal` allocates its
certificate table (`make([][]byte, numCerts)`) only after it has checked that the remaining input holds at
least the 4-byte length prefix of every announced certificate, so the table has at most len(input)/4 slots
(a linear bound).  Before the repair the table was allocated from the 16-bit count alone: a 56-byte input
made it allocate 65280 slots (1.5 MB) and then return false.  The check changes no verdict and no parsed
field (`unmarshal_accepts_same`).  Theorems about `Model.SessionState`, tied to the Go code by the ops
`sstate` / `sstatem` (harness/c16codec.go) and `sstalloc` (harness/c18ticketalloc.go; Driver/SessionState.lean).
-/
import Gmsm.Props.C16Codec
namespace Props.C18TicketAlloc
open Gmsm Model.SessionState Props.C16Codec

/-- `unmarshal_accepts_same`: the repaired decoder and the decoder before the repair return the same thing on
    every input — the same verdict and, when they accept, the same fields.  The check in front of `make`
    only refuses inputs the certificate loop refused later anyway. -/
theorem unmarshal_accepts_same (b : Bytes) : unmarshal b = unmarshalOld b := by
  unfold unmarshal unmarshalOld
  split
  · rfl
  · dsimp only
    split
    · rfl
    · split
      · rfl
      · split
        · rename_i hlt
          split
          · rename_i cs hcs
            have := unmarshalCerts_count_le _ _ _ hcs
            omega
          · rfl
        · rfl

/-- `unmarshal_count_bounded`: whenever the decoder proceeds past the certificate count to
    `make([][]byte, numCerts)`, the remaining input has at least 4 bytes per slot, and the remaining input is
    the input without (at least) the 8 bytes of fixed fields. -/
theorem unmarshal_count_bounded (b : Bytes) (n : Nat) (rest : Bytes) (h : allocPoint b = some (n, rest)) :
    4 * n ≤ rest.length ∧ rest.length + 8 ≤ b.length := by
  unfold allocPoint at h
  split at h
  · simp at h
  · rename_i h8
    dsimp only at h
    split at h
    · simp at h
    · rename_i hm
      split at h
      · simp at h
      · rename_i h2
        split at h
        · simp at h
        · rename_i h4
          simp only [Option.some.injEq, Prod.mk.injEq] at h
          obtain ⟨hn, hr⟩ := h
          subst hn
          subst hr
          refine ⟨by omega, ?_⟩
          simp only [List.length_drop] at h2 hm ⊢
          omega

/-- the linear bound: the certificate table never has more than len(input)/4 slots (24 bytes per slot:
    at most 6 bytes allocated per input byte), whatever the input and whatever the verdict -/
theorem allocSlots_linear (b : Bytes) : 4 * allocSlots b ≤ b.length := by
  unfold allocSlots
  split
  · rename_i n rest h
    have := unmarshal_count_bounded b n rest h
    omega
  · omega

/-- `allocPoint` is the path of `unmarshal`: an accepted input reached `make`, with the number of
    certificates returned as the count … -/
theorem allocPoint_of_accept (b : Bytes) (s : SState) (h : unmarshal b = some s) :
    ∃ rest, allocPoint b = some (s.certs.length, rest) := by
  unfold unmarshal at h
  unfold allocPoint
  split at h
  · simp at h
  · rename_i h8
    rw [if_neg h8]
    dsimp only at h ⊢
    split at h
    · simp at h
    · rename_i hm
      rw [if_neg hm]
      split at h
      · simp at h
      · rename_i h2
        rw [if_neg h2]
        split at h
        · simp at h
        · rename_i h4
          rw [if_neg h4]
          split at h
          · rename_i cs hcs
            cases h
            obtain ⟨c1, _, _⟩ := unmarshalCerts_sound _ _ _ hcs
            exact ⟨_, by rw [c1]⟩
          · simp at h

/-- … so for an accepted input the table is exactly as long as the list of certificates -/
theorem allocSlots_accept (b : Bytes) (s : SState) (h : unmarshal b = some s) : allocSlots b = s.certs.length := by
  obtain ⟨rest, hr⟩ := allocPoint_of_accept b s h
  unfold allocSlots
  rw [hr]

/-- an input the check in front of `make` refuses allocates nothing -/
theorem allocSlots_refused (b : Bytes) (h : allocPoint b = none) : allocSlots b = 0 := by
  unfold allocSlots
  rw [h]

/-- the reader's input: the 56-byte serialization of a state with a 48-byte master secret and no certificate,
    the high byte of the count substituted by 0xff -/
def demo : Bytes := [1, 1, 0xe0, 0x13, 0, 48] ++ (List.replicate 48 0 ++ [0xff, 0])

/-- what was false before the repair: the old decoder allocated 65280 slots for these 56 bytes (and then
    returned false); no bound of the form `4 * slots ≤ len` held for it -/
theorem old_decoder_unbounded :
    demo.length = 56 ∧ allocSlotsOld demo = 65280 ∧ unmarshalOld demo = none ∧ ¬ 4 * allocSlotsOld demo ≤ demo.length := by
  decide

/-- the repaired decoder on the same input: refused in front of `make`, nothing allocated -/
theorem demo_refused : allocPoint demo = none ∧ allocSlots demo = 0 ∧ unmarshal demo = none := by decide

-- Non-vacuity: an input that reaches `make` (two certificates, one empty), and the bound is tight for empty entries
example : allocPoint (marshal sample) = some (2, [0, 0, 0, 2, 1, 2, 0, 0, 0, 0]) := by decide
example : allocSlots (marshal sample) = 2 := by decide
example : allocPoint [1, 1, 0xe0, 0x13, 0, 0, 0, 2, 0, 0, 0, 0, 0, 0, 0, 0] = some (2, [0, 0, 0, 0, 0, 0, 0, 0]) := by decide
example : (unmarshal [1, 1, 0xe0, 0x13, 0, 0, 0, 2, 0, 0, 0, 0, 0, 0, 0, 0]).isSome = true := by decide
-- one byte short of 4 per entry: refused before the allocation
example : allocPoint [1, 1, 0xe0, 0x13, 0, 0, 0, 2, 0, 0, 0, 0, 0, 0, 0] = none := by decide
-- passes the check in front of `make` (8 bytes for 2 entries) and is refused in the loop: slots allocated, verdict false
example : allocSlots [1, 1, 0xe0, 0x13, 0, 0, 0, 2, 0, 0, 0, 4, 0, 0, 0, 0] = 2 ∧
    unmarshal [1, 1, 0xe0, 0x13, 0, 0, 0, 2, 0, 0, 0, 4, 0, 0, 0, 0] = none := by decide

end Props.C18TicketAlloc
