/-
C16 — switching session tickets off and on again on a `Config` that is in use (repair of the
`ticketKeys()[0]` index-out-of-range crash in `encryptTicket`).

`serverInit` creates no ticket key while `SessionTicketsDisabled` is set, and it used to run once per
`Config` (`serverInitOnce`).  A `Config` that served its first connection with tickets disabled and had them
enabled afterwards therefore reached `encryptTicket` with an empty key list: the server crashed on the next
connection of every client that asks for a ticket.  The repaired entry points call
`Config.ensureTicketKeys` (`Model.Resume.ensureKeys` / `prep`) on every connection.

The model keeps the crash visible: `encryptTicket` is partial (`none` = the index expression panics),
`issues` says when a handshake reaches it and `panics` when it does so without a key.  The theorems say that
`serve` (entry point + handshake) never gets there, for every world - every (disabled flag, key list) state of
every server, every cache, every request - and what the ticket switch does in both directions.
-/
import Gmsm.Props.C16
namespace Props.C16Enable
open Model.Resume Props.C16

/-- the state the defect needed - tickets enabled, key list empty - does not survive `ensureTicketKeys` -/
theorem ensureKeys_nonempty (s : Server) (k : Nat) (h : (ensureKeys s k).disabled = false) :
    (ensureKeys s k).keys ≠ [] := by
  unfold ensureKeys at h ⊢
  split
  · simp
  · rename_i hc
    rw [if_neg hc] at h
    intro he
    apply hc
    simp [h, he]

/-- … and `ensureTicketKeys` changes nothing when there is a key or tickets are disabled: explicit keys
    (`SetSessionTicketKeys`) and an earlier automatic key are kept, so tickets issued before stay valid -/
theorem ensureKeys_keeps (s : Server) (k : Nat) (h : s.disabled = true ∨ s.keys ≠ []) : ensureKeys s k = s := by
  unfold ensureKeys
  split
  · rename_i hc
    rcases h with h | h
    · simp [h] at hc
    · cases hk : s.keys with
      | nil => exact absurd hk h
      | cons a l => simp [hk] at hc
  · rfl

theorem ensureKeys_idem (s : Server) (k k2 : Nat) : ensureKeys (ensureKeys s k) k2 = ensureKeys s k := by
  apply ensureKeys_keeps
  cases hd : (ensureKeys s k).disabled
  · exact Or.inr (ensureKeys_nonempty s k hd)
  · exact Or.inl rfl

/-- `encryptTicket` is defined (does not panic) exactly when there is a key -/
theorem encryptTicket_isSome (s : Server) (st : Sess) : (encryptTicket s st).isSome = !s.keys.isEmpty := by
  unfold encryptTicket
  cases s.keys <;> rfl

/-- a ticket that passes the gate under an old key was found in the key list: the list is not empty -/
theorem old_key_nonempty (m : Mode) (s : Server) (hello : List Suite) (t : Ticket) (st : Sess) (old : Bool)
    (h : checkForResumption m s hello t = some (st, old)) : s.keys ≠ [] := by
  obtain ⟨i, hi, _⟩ := ((gate_iff m s hello t st old).mp h).2.2.1
  intro he
  rw [he] at hi
  simp at hi

/-- whenever the handshake reaches `encryptTicket`, the server's tickets are enabled -/
theorem issues_enabled (m : Mode) (w : World) (r : ConnReq) (h : issues m w r = true) :
    (w.srv r.srv).disabled = false := by
  unfold issues at h
  split at h
  · rename_i st old hd
    unfold resumeDecision at hd
    cases ho : offered m w r with
    | none => simp [ho] at hd
    | some cs =>
      simp only [ho, Option.bind_some] at hd
      exact ((gate_iff _ _ _ _ _ _).mp hd).1
  · split at h
    · cases h
    · simp only [Bool.and_eq_true, Bool.not_eq_eq_eq_not, Bool.not_true] at h
      exact h.2

/-- T1 `serve_never_panics` (the repair): for EVERY world - every combination of the disabled flag and the
    key list (empty included) of every server, every client cache, every history behind it - and every
    request, a connection never reaches `encryptTicket` without a key: the server's decision is total, it
    resumes, performs a full handshake or fails the handshake, and never crashes. -/
theorem serve_never_panics (m : Mode) (w : World) (r : ConnReq) : panics m (prep w r) r = false := by
  unfold panics
  cases hi : issues m (prep w r) r with
  | false => rfl
  | true =>
    have hen := issues_enabled m (prep w r) r hi
    rw [prep_srv_self] at hen ⊢
    have := ensureKeys_nonempty _ _ hen
    cases hk : (ensureKeys (w.srv r.srv) (autoKey (w.n + 1))).keys with
    | nil => exact absurd hk this
    | cons a l => rfl

/-- the same for every connection of every history -/
theorem history_never_panics (m : Mode) (cap : Nat) (h : List Step) (r : ConnReq) :
    panics m (prep (reach m (initWorld cap) h) r) r = false :=
  serve_never_panics m _ r

/-- what was wrong: without the entry point's `ensureTicketKeys` the handshake of a client with a session
    cache crashes a server whose `Config` has tickets enabled and no key (`fresh`, or used so far with
    tickets disabled only).  `conn` is the handshake alone; `serve` is what the repaired code runs. -/
theorem handshake_alone_panics :
    let w := (step .gm (step .gm (initWorld 2) (.fresh 0)).1 (.suites 0 (some [0xe013]))).1
    panics .gm w ⟨0, some [0xe013], 0, false⟩ = true ∧ panics .gm (prep w ⟨0, some [0xe013], 0, false⟩) ⟨0, some [0xe013], 0, false⟩ = false := by
  decide

-- the ticket switch, both directions ---------------------------------------------------------------------------

theorem put_find (c : Cache) (cap k : Nat) (v : CSess) : (Cache.put c cap k v).find? (·.1 == k) = some (k, v) := by
  unfold Cache.put
  split
  · simp
  · split <;> simp

/-- tickets disabled: whatever the client offers is ignored (no resumption), no ticket is issued (the client
    cache keeps its content, only the order changes by the lookup), and the outcome is a full handshake or
    a handshake failure for reasons that have nothing to do with tickets (`fullOutcome`) -/
theorem disabled_serves_full (m : Mode) (w : World) (r : ConnReq) (h : (w.srv r.srv).disabled = true) :
    (serve m w r).1.cache = cacheAfterGet w r ∧
    (serve m w r).2 = (match fullOutcome m (prep w r) r with | some _ => .full (w.n + 1) | none => .error) := by
  have hd : ((prep w r).srv r.srv).disabled = true := by rw [prep_srv_self, ensureKeys_disabled]; exact h
  have hdec : resumeDecision m (prep w r) r = none := by
    unfold resumeDecision
    cases ho : offered m (prep w r) r with
    | none => rfl
    | some cs => simp only [Option.bind_some]; exact disabled_never_resumes _ _ _ _ hd
  unfold serve conn
  rw [hdec]
  cases hf : fullOutcome m (prep w r) r with
  | none => exact ⟨rfl, rfl⟩
  | some st =>
    refine ⟨?_, rfl⟩
    simp only [hd, Bool.not_true, Bool.and_false]
    unfold store
    rfl

/-- T1 `enabled_full_handshake_issues` (tickets issued again): tickets enabled on the server and on the
    client: every full handshake stores a session for this server in the client's cache - whatever the key
    list was before the connection; the ticket is sealed under the server's current key and carries the
    session of this handshake.  Before the repair this case crashed when the key list was empty. -/
theorem enabled_full_handshake_issues (m : Mode) (w : World) (r : ConnReq) (n : Nat)
    (hen : (w.srv r.srv).disabled = false) (hoff : w.clientOff = false) (hfull : (serve m w r).2 = .full n) :
    ∃ k st, ((prep w r).srv r.srv).keys.head? = some k ∧ st.sid = w.n + 1 ∧ n = w.n + 1 ∧
      (serve m w r).1.cache.find? (·.1 == r.srv) = some (r.srv, ⟨⟨k, st, true⟩, st⟩) := by
  have hd : ((prep w r).srv r.srv).disabled = false := by rw [prep_srv_self, ensureKeys_disabled]; exact hen
  have hne : ((prep w r).srv r.srv).keys ≠ [] := by rw [prep_srv_self] at hd ⊢; exact ensureKeys_nonempty _ _ hd
  have hoff2 : (prep w r).clientOff = false := hoff
  unfold serve conn at hfull ⊢
  cases hdec : resumeDecision m (prep w r) r with
  | some p => obtain ⟨st, old⟩ := p; simp [hdec] at hfull
  | none =>
    cases hf : fullOutcome m (prep w r) r with
    | none => simp [hdec, hf] at hfull
    | some st =>
      simp only [hdec, hf, Outcome.full.injEq] at hfull
      cases hk : ((prep w r).srv r.srv).keys with
      | nil => exact absurd hk hne
      | cons k l =>
        refine ⟨k, st, rfl, (fullOutcome_sid m _ r st hf).1, hfull.symm, ?_⟩
        simp only [hoff2, hd, Bool.not_false, Bool.and_self, store, hk, List.head?_cons]
        exact put_find _ _ _ _

/-- Non-vacuity (tests), GMSSL: a new `Config` serves a connection with tickets disabled (full handshake, no
    ticket), tickets are enabled (full handshake, ticket issued - the crash before the repair), the next
    connection resumes it; disabled again: full handshake; enabled again: the old ticket is still good. -/
example : run .gm (initWorld 2) [.fresh 0, .suites 0 (some [0xe013]), .disable 0 true,
    .conn ⟨0, some [0xe013], 0, false⟩, .disable 0 false, .conn ⟨0, some [0xe013], 0, false⟩,
    .conn ⟨0, some [0xe013], 0, false⟩, .disable 0 true, .conn ⟨0, some [0xe013], 0, false⟩,
    .disable 0 false, .conn ⟨0, some [0xe013], 0, false⟩]
    = [.full 1, .full 2, .resumed 2, .full 4, .resumed 2] := by decide

/-- a new `Config` forgets the old key: the cached ticket falls back to a full handshake, silently -/
example : run .tls (initWorld 2) [.suites 0 (some [0x9c]), .conn ⟨0, some [0x9c], 0, false⟩,
    .conn ⟨0, some [0x9c], 0, false⟩, .fresh 0, .conn ⟨0, some [0x9c], 0, false⟩, .conn ⟨0, some [0x9c], 0, false⟩]
    = [.full 1, .resumed 1, .full 3, .resumed 3] := by decide

example : ensureKeys ⟨[], false, none, 0, 0x0303⟩ 7 = ⟨[7], false, none, 0, 0x0303⟩ := rfl
example : (ensureKeys ⟨[], true, none, 0, 0x0303⟩ 7).keys = [] := rfl
example : (ensureKeys ⟨[3, 4], false, none, 0, 0x0303⟩ 7).keys = [3, 4] := rfl

end Props.C16Enable
