/-
C17 (PKCS#12): the private key that `Encode` puts into a bundle is the key the decoders give back.

Before the repair `ParsePKCS8PrivateKey` had no case for `oidPublicKeyRSA`: `parse_marshal` below was
false for every `Key.rsa k` (`Encode` accepted the key, `Decode` / `DecodeAll` / `ToPEM` answered
"PKCS#8 wrapping contained private key with unknown algorithm: 1.2.840.113549.1.1.1").
-/
import Gmsm.Model.PKCS8
import Gmsm.Proofs.BytesNat
namespace Props.C17Key
open Gmsm Gmsm.Model.PKCS8

/-- a scalar of exactly the curve's size never enters the strip loop -/
theorem stripLeading_exact (bs : Bytes) (size : Nat) (h : bs.length ≤ size) : stripLeading bs size = some bs := by
  cases bs with
  | nil => rfl
  | cons b bs =>
    unfold stripLeading
    rw [if_neg (by omega)]

/-- T1 `encode_accepts_iff`: the key types `Encode` (marshalPKCS8PrivateKey) accepts: RSA keys, ECDSA keys
    on the four NIST curves, SM2 keys. -/
theorem encode_accepts_iff (k : Key) :
    (marshal k).isSome ↔ (∃ r, k = .rsa r) ∨ (∃ c d, k = .ecdsa c d ∧ c ≠ .sm2) ∨ (∃ c d, k = .sm2 c d) := by
  cases k with
  | rsa r => simp [marshal]
  | ecdsa c d =>
    by_cases hc : c = .sm2
    · simp [marshal, hc]
    · simp [marshal, hc]
  | sm2 c d => simp [marshal]
  | other => simp [marshal]

/-- T2 `parse_marshal` (the repaired behaviour): whatever `Encode` writes for a usable key - RSA, ECDSA
    on a NIST curve, SM2 - `ParsePKCS8PrivateKey` reads back as that key: the same RSA key, the same
    curve and scalar. -/
theorem parse_marshal (P : Params) (hP : P.Sane) (k : Key) (p : P8) (hv : k.Valid P) (h : marshal k = some p) :
    (parse P p).toOption = view k := by
  have ec (c : Curve) (d : Nat) (hd : d < P.order c) :
      parse P ⟨.ecPublicKey, some (.known c), .sec1 1 (i2ospR c.size d) (.known c)⟩ = .ok (.ecdsa c d) := by
    have hlt : d < 256 ^ c.size := Nat.lt_of_lt_of_le hd (hP c)
    simp only [parse, parseEC]
    rw [if_neg (by decide)]
    simp only [os2ip_i2ospR_of_lt _ _ hlt]
    rw [if_neg (by omega), stripLeading_exact _ _ (by rw [i2ospR_length]; exact Nat.le_refl _)]
  cases k with
  | rsa r =>
    simp only [marshal, Option.some.injEq] at h
    subst h
    rfl
  | ecdsa c d =>
    simp only [marshal] at h
    split at h
    · exact absurd h (by simp)
    · simp only [Option.some.injEq] at h
      subst h
      rw [ec c d hv]; rfl
  | sm2 c d =>
    simp only [marshal, Option.some.injEq] at h
    subst h
    rw [ec c d hv]; rfl
  | other => simp [marshal] at h

/-- T3 `accepted_key_decodes`: every usable key that `Encode` accepts comes back from the decoder - no key
    type is accepted on the way in and unknown on the way out. -/
theorem accepted_key_decodes (P : Params) (hP : P.Sane) (k : Key) (hv : k.Valid P) (ha : (marshal k).isSome) :
    ∃ p pk, marshal k = some p ∧ parse P p = .ok pk ∧ view k = some pk := by
  obtain ⟨p, hp⟩ := Option.isSome_iff_exists.mp ha
  have h := parse_marshal P hP k p hv hp
  refine ⟨p, ?_⟩
  cases hq : parse P p with
  | error e =>
    rw [hq] at h
    have hv2 : view k = none := h.symm
    cases k <;> simp [view, marshal] at hv2 hp
  | ok pk =>
    rw [hq] at h
    exact ⟨pk, hp, rfl, h.symm⟩

/-- T4 `rsa_bundle_decodes`: the case that failed before the repair, stated on its own. -/
theorem rsa_bundle_decodes (P : Params) (r : RsaKey) :
    ∃ p, marshal (.rsa r) = some p ∧ parse P p = .ok (.rsa r) := ⟨_, rfl, rfl⟩

/-- T5 `topem_writes_inner_key` (restated with the repair of `convertBag`): for EVERY usable key that `Encode`
    accepts - RSA, ECDSA on a NIST curve, SM2 - `ToPEM` succeeds and its PRIVATE KEY block carries the very key
    structure that `Encode` wrapped (PKCS#1 resp. SEC 1 with the scalar padded to the size of the curve).
    Before the repair the statement had an exception: `toPEM (.ecdsa .sm2 d) = none`, every SM2 bundle was
    refused ("x509: unknown elliptic curve"). -/
theorem topem_writes_inner_key (P : Params) (hP : P.Sane) (k : Key) (p : P8) (pk : PKey) (hv : k.Valid P)
    (h : marshal k = some p) (hq : parse P p = .ok pk) :
    toPEM pk = some p.inner := by
  have hm := parse_marshal P hP k p hv h
  rw [hq] at hm
  cases k with
  | rsa r =>
    simp only [marshal, Option.some.injEq] at h
    subst h
    simp only [view] at hm
    cases hm
    rfl
  | ecdsa c d =>
    simp only [marshal] at h
    split at h
    · exact absurd h (by simp)
    · simp only [Option.some.injEq] at h
      subst h
      simp only [view] at hm
      cases hm
      rfl
  | sm2 c d =>
    simp only [marshal, Option.some.injEq] at h
    subst h
    simp only [view] at hm
    cases hm
    rfl
  | other => simp [marshal] at h

/-- T6 `sm2_bundle_topem` (the repaired behaviour on its own): an SM2 key below the group order goes through
    `Encode`, comes back from the decoder as an EC key on the SM2 curve with the same scalar, and `ToPEM`
    writes it as SEC 1 on that curve - no error. -/
theorem sm2_bundle_topem (P : Params) (hP : P.Sane) (d : Nat) (hd : d < P.order .sm2) :
    ∃ p, marshal (.sm2 .sm2 d) = some p ∧ parse P p = .ok (.ecdsa .sm2 d) ∧
      toPEM (.ecdsa .sm2 d) = some (.sec1 1 (i2ospR 32 d) (.known .sm2)) := by
  obtain ⟨p, pk, hp, hq, hv⟩ := accepted_key_decodes P hP (.sm2 .sm2 d) hd rfl
  simp only [view, Option.some.injEq] at hv
  subst hv
  exact ⟨p, hp, hq, rfl⟩

/-- `ToPEM` converts every key the decoder can return -/
theorem topem_total (pk : PKey) : (toPEM pk).isSome := by
  cases pk <;> rfl

/-- other algorithm identifiers are still refused -/
theorem unknown_algorithm_rejected (P : Params) (param : Option CurveOID) (i : Inner) :
    parse P ⟨.other, param, i⟩ = .error .unknownAlgorithm := rfl

/-- an RSA algorithm identifier over something that is not an RSA key is refused -/
theorem rsa_alg_needs_rsa_key (P : Params) (param : Option CurveOID) (v : Nat) (b : Bytes) (c : CurveOID) :
    parse P ⟨.rsaEncryption, param, .sec1 v b c⟩ = .error .badRSA ∧ parse P ⟨.rsaEncryption, param, .junk⟩ = .error .badRSA :=
  ⟨rfl, rfl⟩

/-- the real curve orders fit the byte lengths the code computes from them -/
theorem stdParams_sane : stdParams.Sane := by
  intro c
  cases c <;> decide

/-- T2 for the real curves -/
theorem parse_marshal_std (k : Key) (p : P8) (hv : k.Valid stdParams) (h : marshal k = some p) :
    (parse stdParams p).toOption = view k := parse_marshal stdParams stdParams_sane k p hv h

-- non-vacuity: a sane parameter set, and the statements on concrete keys
def toyP : Params := ⟨fun c => 256 ^ c.size - 1⟩
example : toyP.Sane := fun _ => Nat.sub_le _ _
example : (marshal (.rsa ⟨3233, 17, 413⟩)).isSome = true := rfl
example : parse toyP ⟨.rsaEncryption, none, .pkcs1 ⟨3233, 17, 413⟩⟩ = .ok (.rsa ⟨3233, 17, 413⟩) := rfl
example : (marshal (.ecdsa .p256 5)).bind (fun p => (parse toyP p).toOption) = some (.ecdsa .p256 5) := by decide
example : (marshal (.sm2 .sm2 7)).bind (fun p => (parse toyP p).toOption) = some (.ecdsa .sm2 7) := by decide
example : marshal (.ecdsa .sm2 7) = none := rfl
example : toPEM (.ecdsa .sm2 7) = some (.sec1 1 (i2ospR 32 7) (.known .sm2)) := rfl
example : ∃ p, marshal (.sm2 .sm2 7) = some p ∧ toPEM (.ecdsa .sm2 7) = some p.inner := ⟨_, rfl, rfl⟩

end Props.C17Key
